import NbioVerif.Lemmas.C08Meta
import NbioVerif.Lemmas.C08Glue
import NbioVerif.Lemmas.C08Engine
import NbioVerif.Lemmas.C06Chain
import NbioVerif.Lemmas.BodyReader
import NbioVerif.Lemmas.BodyOwn
import NbioVerif.Lemmas.C06Bridge
import NbioVerif.Lemmas.C08Held
/-! C08: parser robustness and bounds (model level).

* `c08_no_hang`        the Go-shaped index loop never runs out of fuel (fuel = |buf|+1), i.e. the
                       loop of `Parser.Parse` terminates on every input, state and cache
* `c08_retained_bound` retained bytes ≤ max ReadLimit |data|
* `c08_no_panic`       with every Go slice/index expression of the loop checked (`data[i]`, `data[start:i]`,
                       `data[start:start+n]`, `data[start:]`), the panic outcome is unreachable: the checked loop equals
                       the unchecked one from every (state, cache) on every input
* `c08_retained_bound` retained bytes ≤ max ReadLimit |data|
* `c08_body_bound`     the body held for the message under construction never exceeds MaxHTTPBodySize
* framing metadata: `c08_content_length`, `c08_chunk_size`, `c08_transfer_encoding`, `c08_trailer_names`,
  `c08_missing_lf`, `c08_missing_cr`, `c08_bare_lf_in_header`
* `c08_no_nil_deref`   the callbacks `Parse` makes can always be consumed by the real processors' logic: no callback
                       is made while the request/response it writes to does not exist (a nil dereference inside a
                       callback would be a panic inside `Parse`)
* engine level (`Model/HttpEngine.lean`, the four readers of nbhttp/engine.go): `c08_engine_nonblocking`,
  `c08_engine_blocking`, `c08_engine_tls_nonblocking`, `c08_engine_tls_blocking` — for every read sequence (and TLS-layer
  output) all parser events precede the closing observations, the connection / parser / OnClose are closed / run at
  most once (exactly once once sealed), and a sealed reader ignores everything the transport delivers afterwards;
  `c08_engine_error_seals_*` — a failing `Parse` seals the reader in the same step
* `c08_parseE_silent`  once the engine glue has closed the parser (`CloseAndClean` on error), no Parse call
                       emits an event
* `c08_body_reader_bound` the bytes a `BodyReader` holds never exceed MaxHTTPBodySize, along every program
-/
namespace Scan
variable {σ ε : Type}

/-- the error codes a machine can produce -/
def ErrIn (M : Machine σ ε) (P : Nat → Prop) : Prop :=
  (∀ st tok c e evs, M.byteStep st tok c = .err e evs → P e) ∧
  (∀ st d e evs, M.blockDone st d = .err e evs → P e)

theorem specFeed_err (M : Machine σ ε) (P : Nat → Prop) (hE : ErrIn M P) :
    ∀ (data : List UInt8) (st : σ) (tok : List UInt8) (acc : List ε) acc' e,
      specFeed M st tok data acc = ⟨acc', .inr e⟩ → P e := by
  intro data
  induction data with
  | nil => intro st tok acc acc' e h; simp [specFeed] at h
  | cons c cs ih =>
    intro st tok acc acc' e h
    simp only [specFeed] at h
    split at h
    · exact ih _ _ _ _ _ h
    · rename_i e1 evs1 tok1 hsb
      simp at h
      obtain ⟨_, he⟩ := h
      subst he
      unfold specByte at hsb
      split at hsb
      · simp only at hsb
        split at hsb
        · have := congrArg Prod.fst hsb
          exact hE.2 _ _ _ _ this
        · cases hsb
      · split at hsb
        · cases hsb
        · rename_i e2 evs2 hbs
          have := congrArg Prod.fst hsb
          simp at this
          obtain ⟨h1, _⟩ := this
          subst h1
          exact hE.1 _ _ _ _ _ hbs

/-- The Parse loop never exhausts its fuel: it terminates (error 999 is the model's "would not
    terminate" outcome), provided the machine itself never reports 999. -/
theorem implParse_no_fuel (M : Machine σ ε) (wf : WF M) (hE : ErrIn M (· ≠ 999))
    (st : σ) (cache data : List UInt8) (acc : List ε) (hg : Good M st cache) :
    ∀ acc', implParse M st cache data acc ≠ ⟨acc', .inr 999⟩ := by
  intro acc' h
  rw [implParse_eq_spec M wf st cache data acc hg] at h
  exact specFeed_err M (· ≠ 999) hE data st cache acc acc' 999 h rfl

/-- the chain of `Parse` calls the driver runs never exhausts the loop's fuel, from any state satisfying the scanner
    invariant (in particular from a fresh parser): the invariant is re-established by every call -/
theorem feedAllL_no_fuel (M : Machine σ ε) (wf : WF M) (hE : ErrIn M (· ≠ 999)) (limit : Nat) :
    ∀ (segs : List (List UInt8)) (st : σ) (cache : List UInt8) (acc : List ε), Good M st cache →
      ∀ acc', feedAllL M limit st cache segs acc ≠ ⟨acc', .inr 999⟩ := by
  intro segs
  induction segs with
  | nil => intro st cache acc _ acc' h; simp [feedAllL] at h
  | cons seg segs ih =>
    intro st cache acc hg acc' h
    simp only [feedAllL, parseLC_eq] at h
    by_cases ht : seg ≠ [] ∧ cache ≠ [] ∧ limit > 0 ∧ cache.length + seg.length > limit
    · simp [parseL, ht] at h
    · simp only [parseL, ht, if_false] at h
      cases hr : implParse M st cache seg acc with
      | mk a fin =>
        rw [hr] at h
        cases fin with
        | inl pr =>
          obtain ⟨st', cache'⟩ := pr
          exact ih st' cache' a (implParse_good M wf st cache seg acc hg a st' cache' hr) acc' h
        | inr e =>
          simp only [Res.mk.injEq, Sum.inr.injEq] at h
          obtain ⟨h1, h2⟩ := h
          subst h1 h2
          exact implParse_no_fuel M wf hE st cache seg acc hg a hr

end Scan

namespace Http
open Scan

theorem code_ne_999 (e : E) : e.code ≠ 999 := by cases e <;> simp [E.code]

theorem errIn_machine (g : Cfg) : ErrIn (machine g) (· ≠ 999) := by
  constructor
  · intro st tok c e evs h
    simp only [machine] at h
    unfold byteStep at h
    simp only [er, ok] at h
    repeat' split at h
    all_goals first
      | (cases h; done)
      | (injection h with h1 _; subst h1; exact code_ne_999 _)
  · intro st d e evs h
    simp only [machine] at h
    unfold blockDone at h
    simp only [er, ok] at h
    repeat' split at h
    all_goals first
      | (cases h; done)
      | (injection h with h1 _; subst h1; exact code_ne_999 _)

/-- C08: `Parse` terminates on every input in every reachable (state, cache). -/
theorem c08_no_hang (g : Cfg) (st : P) (cache data : Bytes) (acc : List Ev)
    (hg : Good (machine g) st cache) :
    ∀ acc', implParse (machine g) st cache data acc ≠ ⟨acc', .inr 999⟩ :=
  implParse_no_fuel (machine g) (wf g) (errIn_machine g) st cache data acc hg

/-- C08: bytes retained for an incomplete message never exceed max(ReadLimit, one read). -/
theorem c08_retained_bound (g : Cfg) (limit : Nat) (hl : 0 < limit) (st : P) (cache data : Bytes)
    (acc : List Ev) (hc : cache.length ≤ limit) acc' st' cache'
    (h : parseL (machine g) limit st cache data acc = ⟨acc', .inl (st', cache')⟩) :
    cache'.length ≤ max limit data.length :=
  retained_bound (machine g) limit hl st cache data acc hc acc' st' cache' h

/-- C08: `Parse` never panics on a slice or index expression — for every machine state, cache and input (no
    reachability hypothesis is needed: the loop maintains `start ≤ i ≤ len(data)` by itself). -/
theorem c08_no_panic (g : Cfg) (st : P) (cache data : Bytes) (acc : List Ev) :
    implParseC (machine g) st cache data acc = some (implParse (machine g) st cache data acc) :=
  implParseC_eq (machine g) st cache data acc

/-- C08: the body held for the message under construction never exceeds MaxHTTPBodySize (when set): the bound is an
    invariant of every `Parse` call, from any state that satisfies it (in particular from `init g`). -/
theorem c08_body_bound (g : Cfg) (st : P) (cache data : Bytes) (acc : List Ev) (hI : BodyInv g st) acc' st' cache'
    (h : implParse (machine g) st cache data acc = ⟨acc', .inl (st', cache')⟩) : BodyInv g st' :=
  implParse_inv (machine g) (BodyInv g) (fun st tok c s' u evs hi hs => byteStep_bodyInv g st tok c s' u evs hi hs)
    (fun st d s' u evs hi hs => blockDone_bodyInv g st d s' u evs hi hs) st cache data acc hI acc' st' cache' h

theorem c08_body_bound_init (g : Cfg) : BodyInv g (init g) := by intro _; simp [init]

/-- C08 (body bound, event level): `bodyHeld` is not a ghost — after every `Parse` call of every chain from a fresh
    parser (any segmentation, any ReadLimit) it equals the number of body bytes handed to `OnBody` since the last
    `OnComplete` in the events emitted so far. -/
theorem c08_body_held_is_event_sum (g : Cfg) (limit : Nat) (segs : List Bytes) acc' st' c'
    (h : feedAllL (machine g) limit (init g) [] segs [] = ⟨acc', .inl (st', c')⟩) :
    st'.bodyHeld = heldOf 0 acc' :=
  feedAllL_held g limit segs acc' st' c' h

/-- C08 (body bound between any two callbacks, every outcome): with MaxHTTPBodySize set, along every chain of `Parse`
    calls from a fresh parser — any segmentation, any ReadLimit, and whether the chain ends with a parser state or with
    an error — after the k first callbacks, for every k, the body bytes handed to `OnBody` for the message under
    construction do not exceed the limit. (`c08_body_bound_events` is the case "k = all, chain succeeded".) -/
theorem c08_body_bound_every_prefix (g : Cfg) (hm : g.maxBody > 0) (limit : Nat) (segs : List Bytes) (k : Nat) :
    heldOf 0 ((feedAllL (machine g) limit (init g) [] segs []).evs.take k) ≤ g.maxBody :=
  Nat.le_trans (take_le_peak _ 0 k) (feedAllL_peak g hm limit segs)

/-- non-vacuity on a failing chain: limit 3, chunks of 2 and 2 bytes — the second is refused (ErrTooLong, code 11), two
    bytes were handed over -/
example :
    let gs : Cfg := { isClient := false, maxBody := 3, urlOk := fun _ => true, protoOk := fun _ => true }
    let r := feedAllL (machine gs) 0 (init gs) []
      [str "POST / HTTP/1.1\r\nTransfer-Encoding: chunked\r\n\r\n2\r\nab\r\n2\r\ncd\r\n0\r\n\r\n"] []
    (match r.fin with | .inr e => e | .inl _ => 0) = 11 ∧ heldOf 0 r.evs = 2 := by
  set_option maxRecDepth 100000 in decide

/-- non-vacuity: two reads ending inside a chunked body — three body bytes handed over, message not complete -/
example :
    let gs : Cfg := { isClient := false, maxBody := 0, urlOk := fun _ => true, protoOk := fun _ => true }
    let r := feedAllL (machine gs) 0 (init gs) []
      [str "POST / HTTP/1.1\r\nTransfer-Encoding: chunked\r\n\r\n2\r\nab\r\n", str "5\r\nc"] []
    heldOf 0 r.evs = 2 ∧ (match r.fin with | .inl (p, _) => p.bodyHeld | .inr _ => 99) = 2 := by
  set_option maxRecDepth 100000 in decide

/-- C08 (body bound, event level): with MaxHTTPBodySize set, after every `Parse` call of every chain from a fresh parser
    the body bytes handed to `OnBody` for the message under construction never exceed it. -/
theorem c08_body_bound_events (g : Cfg) (hm : g.maxBody > 0) (limit : Nat) (segs : List Bytes) acc' st' c'
    (h : feedAllL (machine g) limit (init g) [] segs [] = ⟨acc', .inl (st', c')⟩) :
    heldOf 0 acc' ≤ g.maxBody := by
  rw [← feedAllL_held g limit segs acc' st' c' h]
  exact feedAllL_inv2 (machine g) (fun st _ => BodyInv g st)
    (fun st tok c s' u evs _ hI hs => byteStep_bodyInv g st tok c s' u evs hI hs)
    (fun st d s' u evs _ hI hs => blockDone_bodyInv g st d s' u evs hI hs)
    limit segs (init g) [] [] (c08_body_bound_init g) acc' st' c' h hm

/-- C08: accepted Content-Length fields all carry the same value (trailing spaces aside), it is `[+-]?DIGIT+` and
    non-negative; empty, non-numeric, negative, overflowing (≥ 2^62) and differing values are errors. -/
theorem c08_content_length (p p' : P) (v : Bytes) (rest : List Bytes) (h : endOfHeaders p = .ok p')
    (hte : p.te = []) (hcl : p.cl = v :: rest) :
    clShape (trimRightSpaces v) = true ∧ 0 ≤ p'.contentLength ∧
      parseCLValue (trimRightSpaces v) = some p'.contentLength ∧
      ∀ w ∈ rest, trimRightSpaces w = trimRightSpaces v :=
  cl_accepted p p' v rest h hte hcl

/-- C08: Content-Length garbage is rejected also when `Transfer-Encoding: chunked` overrides the length: every accepted
    header section's Content-Length values spell one number that parses, is non-negative and below 2^62. -/
theorem c08_content_length_any (p p' : P) (v : Bytes) (rest : List Bytes) (h : endOfHeaders p = .ok p')
    (hcl : p.cl = v :: rest) :
    clShape (trimRightSpaces v) = true ∧ (∀ w ∈ rest, trimRightSpaces w = trimRightSpaces v) ∧
      ∃ l : Int, parseCLValue (trimRightSpaces v) = some l ∧ 0 ≤ l ∧ l < 2 ^ 62 :=
  cl_accepted_any p p' v rest h hcl

/-- C08: the chunk-size line is `HEXDIG+ (SP|HTAB)* [";" extension] CR`: any other byte at the place concerned is
    `ErrInvalidChunkSize` (no "hex prefix" is guessed: `1g`, `1 zz`, `12 3` are errors). -/
theorem c08_chunk_line_grammar (g : Cfg) (p : P) (tok : Bytes) (c : UInt8) (hs : p.st = .chunkSize) :
    (c = LF → byteStep g p tok c = .err E.invalidChunkSize.code []) ∧
    (p.chunkSize < 0 → isHex c = false → c ≠ SP → c ≠ 9 → c ≠ 59 → c ≠ CR →
      byteStep g p tok c = .err E.invalidChunkSize.code []) ∧
    (¬ p.chunkSize < 0 → p.chunkExt = false → c ≠ SP → c ≠ 9 → c ≠ 59 → c ≠ CR →
      byteStep g p tok c = .err E.invalidChunkSize.code []) :=
  chunk_line_grammar g p tok c hs

/-- C08: a bare LF is an error in the status line, the header section, the chunk-size line and the trailer section. -/
theorem c08_bare_lf_rejected (g : Cfg) (p : P) (tok : Bytes)
    (hs : p.st = .statusBefore ∨ p.st = .status ∨ p.st = .chunkSize ∨ p.st = .trValueBefore ∨ p.st = .trValue ∨
          p.st = .trKeyBefore ∨ p.st = .statusCodeBefore ∨ p.st = .headerKeyBefore ∨ p.st = .headerKey ∨
          p.st = .headerValueBefore ∨ p.st = .headerValue) :
    ∃ e, byteStep g p tok LF = .err e [] := bare_lf_rejected g p tok hs

/-- C08: an accepted chunk size is `HEXDIG+` with a value below 2^62 ≤ MaxInt. -/
theorem c08_chunk_size (s : Bytes) (n : Nat) (h : parseHexSize s = some n) :
    s ≠ [] ∧ s.all isHex = true ∧ n < 2 ^ 62 := chunk_accepted s n h

/-- C08: a repeated or unsupported Transfer-Encoding is an error. -/
theorem c08_transfer_encoding (p p' : P) (h : endOfHeaders p = .ok p') (hte : p.te ≠ []) :
    ∃ v, p.te = [v] ∧ (trim v).map toLower = str "chunked" ∧ p'.chunked = true := te_accepted p p' h hte

/-- C08: announcing a framing field as a trailer is an error. -/
theorem c08_trailer_names (p p' : P) (h : addTrailerKeys p = .ok p') (hc : p.chunked = true) (htr : p.tr ≠ []) :
    (declaredKeys p.tr).any forbiddenTrailer = false := trailer_accepted p p' h hc htr

/-- C08: every `…LF` state rejects any byte other than LF. -/
theorem c08_missing_lf (g : Cfg) (p : P) (tok : Bytes) (c : UInt8) (hs : p.st ∈ lfStates) (hc : c ≠ LF) :
    byteStep g p tok c = .err E.lfExpected.code [] := lf_expected g p tok c hs hc

/-- C08: every `…CR` state rejects any byte other than CR. -/
theorem c08_missing_cr (g : Cfg) (p : P) (tok : Bytes) (c : UInt8) (hs : p.st ∈ crStates) (hc : c ≠ CR) :
    byteStep g p tok c = .err E.crExpected.code [] := cr_expected g p tok c hs hc

/-- C08: a bare LF in the header section is an error. -/
theorem c08_bare_lf_in_header (g : Cfg) (p : P) (tok : Bytes)
    (hs : p.st = .headerKeyBefore ∨ p.st = .headerKey ∨ p.st = .headerValueBefore ∨ p.st = .headerValue) :
    byteStep g p tok LF = .err E.invalidCharInHeader.code [] := bare_lf_in_header g p tok hs

/-- C08: `Parse` terminates along every chain of calls from a fresh parser, with or without a ReadLimit — no hypothesis
    on intermediate states (the scanner invariant `Good` is established by `init` and kept by every call). -/
theorem c08_no_hang_chain (g : Cfg) (limit : Nat) (segs : List Bytes) :
    ∀ acc', feedAllL (machine g) limit (init g) [] segs [] ≠ ⟨acc', .inr 999⟩ :=
  feedAllL_no_fuel (machine g) (wf g) (errIn_machine g) limit segs (init g) [] []
    (fun n hn => (wf g).pos _ _ hn)

/-- C08: retained bytes along every chain of calls from a fresh parser: with a ReadLimit set, what the parser holds
    after any number of `Parse` calls is at most the limit or the largest single read. -/
theorem c08_retained_chain (g : Cfg) (limit : Nat) (hl : 0 < limit) (segs : List Bytes) acc' st' cache'
    (h : feedAllL (machine g) limit (init g) [] segs [] = ⟨acc', .inl (st', cache')⟩) :
    cache'.length ≤ max limit (maxLen segs) := by
  have := feedAllL_retained (machine g) limit hl segs (init g) [] [] 0 (by simp) acc' st' cache' h
  simpa using this

/-- C08: no nil dereference in the processor glue. `ObjInv g p cur` ties the parser state to the processor ("a message
    object exists exactly between the first event of a message and its `complete`"); it holds for a fresh parser and
    processor, and from any (state, processor) satisfying it every `Parse` call, on every input, emits an event
    sequence `procRun` consumes without hitting `none` (= `p.request`/`p.response` nil), and re-establishes it. -/
theorem c08_no_nil_deref (g : Cfg) (p : P) (cache data : Bytes) (cur : Option Building) (hI : ObjInv g p cur) :
    RunOk g cur [] (implParse (machine g) p cache data []) :=
  implParse_objInv g p cache data cur hI

/-- C08: for every segmentation of every input (and every ReadLimit), running the real processors' logic over the events
    of the chain of `Parse` calls from a fresh parser never hits a nil request/response. -/
theorem c08_no_nil_deref_chain (g : Cfg) (limit : Nat) (segs : List Bytes) :
    ∃ r, procRun g.isClient none (feedAllL (machine g) limit (init g) [] segs []).evs [] = some r := by
  obtain ⟨evs', e, cur', out, hp, _⟩ := feedAllL_objInv g limit segs (init g) [] [] none (objInv_init g)
  simp only [List.nil_append] at e
  exact ⟨(cur', out), by rw [e]; exact hp⟩

def g0 : Cfg := { isClient := false, maxBody := 0, urlOk := fun _ => true, protoOk := fun _ => true }

/-- cache length of a successful result (0 for an error) -/
def cacheLen (r : Res P Ev) : Nat := match r.fin with | .inl (_, c) => c.length | .inr _ => 0

/-- non-vacuity: a reachable state with a non-empty cache under a limit -/
example : cacheLen (parseL (machine g0) 8 (init g0) [] [71, 69, 84, 32, 47, 97] []) = 2 := by decide

/-- non-vacuity of the framing theorems: accepted and rejected values -/
example : parseCLValue (str "+12") = some 12 ∧ parseCLValue (str "-1") = some (-1) ∧ parseCLValue (str "1x") = none ∧
    parseCLValue [] = none ∧ parseHexSize (str "1f") = some 31 ∧ parseHexSize (str "g") = none ∧
    parseHexSize (str "4000000000000000") = none := by decide
example : ∃ e, endOfHeaders { st := .headerKeyBefore, te := [str "chunked", str "chunked"] } = .error e := ⟨_, rfl⟩
example : (endOfHeaders { st := .headerKeyBefore, te := [[]] }).isOk = false := by decide
example : (endOfHeaders { st := .headerKeyBefore, cl := [str "-5"] }).isOk = false := by decide
example : (endOfHeaders { st := .headerKeyBefore, cl := [[]] }).isOk = false := by decide
example : (endOfHeaders { st := .headerKeyBefore, cl := [str "3", str "4"] }).isOk = false := by decide
example : (endOfHeaders { st := .headerKeyBefore, cl := [str "3 ", str "3"] }).isOk = true := by decide

end Http

namespace HttpEngine
open Scan
variable {σ ε : Type}

/-- **C08, engine level, non-blocking (`DataHandler`).** For every machine, limit, initial state and sequence of read
    results: all parser events precede the closing observations; the connection is closed at most once and
    `CloseAndClean`/`_onClose` run at most once (exactly once after a parse or read error); and once the reader is
    sealed — which a failing `Parse` does in the same step (`c08_engine_error_seals_nonblocking`) — nothing the transport
    delivers afterwards changes the trace: no further event, no second close. -/
theorem c08_engine_nonblocking (M : Machine σ ε) (limit : Nat) (st0 : σ) (rs more : List ReadRes) :
    let c := runNB M limit (fresh st0) rs
    EvsThenClosings c.trace ∧
    List.countP Obs.isConnClose c.trace ≤ 1 ∧ List.countP Obs.isParserClose c.trace ≤ 1 ∧
    List.countP Obs.isOnClose c.trace ≤ 1 ∧
    (sealNB c = true → List.countP Obs.isParserClose c.trace = 1 ∧ List.countP Obs.isOnClose c.trace = 1 ∧
      runNB M limit (fresh st0) (rs ++ more) = c) := by
  intro c
  have hI : Inv sealNB closingsNB c := runNB_inv M limit rs _ (fresh_inv _ _ st0 rfl)
  obtain ⟨a, b, c', d, e⟩ := inv_trace sealNB closingsNB closingsNB_ok c hI
  refine ⟨a, b, c', d, fun hs => ⟨(e hs).1, (e hs).2, ?_⟩⟩
  show runNB M limit (fresh st0) (rs ++ more) = runNB M limit (fresh st0) rs
  simp only [runNB, List.foldl_append]
  exact runNB_sealed M limit more _ hs

theorem c08_engine_error_seals_nonblocking (M : Machine σ ε) (limit : Nat) (c : Conn σ ε) (d : Bytes)
    (ho : sealNB c = false) (he : (feed M limit c d).2 = true) : sealNB (stepNB M limit c (.data d)) = true :=
  stepNB_error_seals M limit c d ho he

/-- **C08, engine level, blocking (`readConnBlocking`).** Same statement for the blocking read loop: after a parse
    error (`conn.Close()`, then the deferred `CloseAndClean`, `_onClose`) or a read error the goroutine has returned. -/
theorem c08_engine_blocking (M : Machine σ ε) (limit : Nat) (st0 : σ) (rs more : List ReadRes) :
    let c := runB M limit (fresh st0) rs
    EvsThenClosings c.trace ∧
    List.countP Obs.isConnClose c.trace ≤ 1 ∧ List.countP Obs.isParserClose c.trace ≤ 1 ∧
    List.countP Obs.isOnClose c.trace ≤ 1 ∧
    (sealB c = true → List.countP Obs.isParserClose c.trace = 1 ∧ List.countP Obs.isOnClose c.trace = 1 ∧
      runB M limit (fresh st0) (rs ++ more) = c) := by
  intro c
  have hI : Inv sealB closingsB c := runB_inv M limit rs _ (fresh_inv _ _ st0 rfl)
  obtain ⟨a, b, c', d, e⟩ := inv_trace sealB closingsB closingsB_ok c hI
  refine ⟨a, b, c', d, fun hs => ⟨(e hs).1, (e hs).2, ?_⟩⟩
  show runB M limit (fresh st0) (rs ++ more) = runB M limit (fresh st0) rs
  simp only [runB, List.foldl_append]
  exact runB_sealed M limit more _ hs

theorem c08_engine_error_seals_blocking (M : Machine σ ε) (limit : Nat) (c : Conn σ ε) (d : Bytes)
    (ho : sealB c = false) (he : (feed M limit c d).2 = true) : sealB (stepB M limit c (.data d)) = true :=
  stepB_error_seals M limit c d ho he

/-- **C08, engine level, TLS non-blocking (`TLSDataHandler`).** For every sequence of raw reads and, per read, every
    sequence of `AppendAndRead` results (plaintext, error flag). -/
theorem c08_engine_tls_nonblocking (M : Machine σ ε) (limit : Nat) (st0 : σ) (rs more : List (ReadRes × List TlsOut)) :
    let c := runTlsNB M limit (fresh st0) rs
    EvsThenClosings c.trace ∧
    List.countP Obs.isConnClose c.trace ≤ 1 ∧ List.countP Obs.isParserClose c.trace ≤ 1 ∧
    List.countP Obs.isOnClose c.trace ≤ 1 ∧
    (sealNB c = true → List.countP Obs.isParserClose c.trace = 1 ∧ List.countP Obs.isOnClose c.trace = 1 ∧
      runTlsNB M limit (fresh st0) (rs ++ more) = c) := by
  intro c
  have hI : Inv sealNB closingsNB c := runTlsNB_inv M limit rs _ (fresh_inv _ _ st0 rfl)
  obtain ⟨a, b, c', d, e⟩ := inv_trace sealNB closingsNB closingsNB_ok c hI
  refine ⟨a, b, c', d, fun hs => ⟨(e hs).1, (e hs).2, ?_⟩⟩
  show runTlsNB M limit (fresh st0) (rs ++ more) = runTlsNB M limit (fresh st0) rs
  simp only [runTlsNB, List.foldl_append]
  exact runTlsNB_sealed M limit more _ hs

/-- **C08, engine level, TLS blocking (`readTLSConnBlocking`).** -/
theorem c08_engine_tls_blocking (M : Machine σ ε) (limit : Nat) (st0 : σ) (rs more : List (ReadRes × List TlsOut)) :
    let c := runTlsB M limit (fresh st0) rs
    EvsThenClosings c.trace ∧
    List.countP Obs.isConnClose c.trace ≤ 1 ∧ List.countP Obs.isParserClose c.trace ≤ 1 ∧
    List.countP Obs.isOnClose c.trace ≤ 1 ∧
    (sealB c = true → List.countP Obs.isParserClose c.trace = 1 ∧ List.countP Obs.isOnClose c.trace = 1 ∧
      runTlsB M limit (fresh st0) (rs ++ more) = c) := by
  intro c
  have hI : Inv sealB closingsTlsB c := runTlsB_inv M limit rs _ (fresh_inv _ _ st0 rfl)
  obtain ⟨a, b, c', d, e⟩ := inv_trace sealB closingsTlsB closingsTlsB_ok c hI
  refine ⟨a, b, c', d, fun hs => ⟨(e hs).1, (e hs).2, ?_⟩⟩
  show runTlsB M limit (fresh st0) (rs ++ more) = runTlsB M limit (fresh st0) rs
  simp only [runTlsB, List.foldl_append]
  exact runTlsB_sealed M limit more _ hs

/-- a closed parser returns `net.ErrClosed` (code 1) on every input without a single callback -/
theorem parse_closed (M : Machine σ ε) (limit : Nat) (pc : PC σ) (d : Bytes) (h : pc.closed = true) :
    parse M limit pc d = (pc, [], some 1) := by simp [parse, h]

/-- **C08 "reports nothing further once it has returned an error"**, for the glue every reader of nbhttp applies
    (`parseE` = `Parse`, and on an error `CloseAndClean`): once a call has returned an error — from any state, with any
    cache — every later call, on any data, returns `net.ErrClosed` without events and leaves the parser as it is. -/
theorem c08_parseE_silent (M : Machine σ ε) (limit : Nat) (pc : PC σ) (d : Bytes) (e : Nat)
    (h : (parseE M limit pc d).2.2 = some e) (d' : Bytes) :
    parseE M limit (parseE M limit pc d).1 d' = ((parseE M limit pc d).1, [], some 1) := by
  have hc : (parseE M limit pc d).1.closed = true := by
    simp only [parseE] at h ⊢
    rw [h]; rfl
  generalize (parseE M limit pc d).1 = q at hc ⊢
  have hq : ({ q with closed := true } : PC σ) = q := by cases q; simp_all
  simp [parseE, parse_closed M limit q d' hc, hq]

/-- the bare parser is NOT silent after an error: without the glue's `CloseAndClean`, a second `Parse` call on the very
    parser the failed call left behind goes on emitting events (this is why every reader must close: DESIGN 8 #12 was
    the blocking reader not doing it). (In the model a failed call leaves the parser's fields as they were before the
    call, in Go as they were when the error was met; neither is closed, which is the point.) -/
theorem c08_bare_parser_not_silent :
    ∃ (g : Http.Cfg) (d1 d2 : Bytes),
      let pc0 : PC Http.P := { st := Http.init g, cache := [] }
      (parse (Http.machine g) 0 pc0 d1).2.2 = some 2 ∧
      (parse (Http.machine g) 0 pc0 d1).1.closed = false ∧
      (parse (Http.machine g) 0 (parse (Http.machine g) 0 pc0 d1).1 d2).2.1.length = 5 ∧
      (parse (Http.machine g) 0 (parse (Http.machine g) 0 pc0 d1).1 d2).2.2 = none :=
  ⟨Http.g0, [1], Http.str "GET / HTTP/1.1\r\n\r\n", by decide, by decide, by decide, by decide⟩

/-- **C08/C06 bridge (what the driver's D lines run).** The chain of `parseE` calls, one per read, from a fresh HTTP
    parser is `feedAllL`: same events; same final (state, cache) and no failed call — or the same first error, the
    parser closed from that call on, nothing emitted afterwards. Hence `c08_no_hang_chain`, `c08_retained_chain`,
    `c08_no_nil_deref_chain`, `c06_http_driver`, `c06_messages` speak about the function the D lines execute. -/
theorem c08_dlines_are_feedAllL (g : Http.Cfg) (limit : Nat) (segs : List Bytes) :
    ChainIs (Scan.feedAllL (Http.machine g) limit (Http.init g) [] segs [])
      (chainE (Http.machine g) limit { st := Http.init g, cache := [] } segs [] none) :=
  chainE_eq_feedAllL (Http.machine g) limit segs (Http.init g) [] []

/-- non-vacuity: a malformed request followed by a valid one, in two reads, on the real state table: the valid
    request's events never appear, one connClose, in both plain modes -/
example :
    let rs := [ReadRes.data [1], ReadRes.data (Http.str "GET / HTTP/1.1\r\n\r\n")]
    (runNB (Http.machine Http.g0) 0 (fresh (Http.init Http.g0)) rs).trace = [.connClose, .parserClose, .onClose] ∧
    (runB (Http.machine Http.g0) 0 (fresh (Http.init Http.g0)) rs).trace = [.connClose, .parserClose, .onClose] := by
  decide

end HttpEngine

namespace HttpBody

/-- C08 (BodyReader): `append` refuses (ErrTooLong) exactly when the limit would be exceeded -/
theorem c08_body_reader_limit (maxBody : Nat) (br : BR) (data : Bytes) (extra : Nat) :
    (append maxBody br data extra = none ↔ data ≠ [] ∧ maxBody > 0 ∧ data.length + br.left > maxBody) :=
  append_limit maxBody br data extra

/-- C08 (BodyReader): with a limit set, the number of bytes held never exceeds it, for every program of appends and
    reads -/
theorem c08_body_reader_bound (maxBody : Nat) (hm : maxBody > 0) (ops : List Op) :
    (content (ops.foldl (step maxBody) ({}, [], [])).1).length ≤ maxBody := by
  suffices h : ∀ (br : BR) (app rd : Bytes), WF br → br.closed = false → br.left ≤ maxBody →
      (ops.foldl (step maxBody) (br, app, rd)).1.left ≤ maxBody ∧ WF (ops.foldl (step maxBody) (br, app, rd)).1 by
    have := h {} [] [] wf_init rfl (Nat.zero_le _)
    rw [← this.2.left_eq]; exact this.1
  induction ops with
  | nil => intro br app rd hw _ hb; exact ⟨hb, hw⟩
  | cons op ops ih =>
    intro br app rd hw hc hb
    simp only [List.foldl_cons]
    cases op with
    | append d extra =>
      simp only [step]
      cases ha : append maxBody br d extra with
      | none => exact ih br app rd hw hc hb
      | some r =>
        obtain ⟨br', evs⟩ := r
        obtain ⟨hw', _, hcl', _⟩ := append_spec maxBody br br' d extra evs hw ha
        exact ih br' _ _ hw' (by rw [hcl', hc]) (append_bound maxBody hm br br' d extra evs hb ha)
    | read n =>
      simp only [step]
      obtain ⟨br', evs, e, hw', hc', hcl'⟩ := read_spec br n hw hc
      rw [e]
      refine ih br' _ _ hw' hcl' ?_
      rw [hw'.left_eq, hc', List.length_drop]
      have := hw.left_eq
      omega

/-- C08 (BodyReader and its allocator): along every program of appends, reads and closes — any order, any sizes, any
    allocator capacities, appends after `Close` included — every buffer identity is returned to the allocator at most
    once, only identities the allocator handed out are returned, none is handed out twice, and nothing the reader
    still holds has been returned (no use after free through `Read` / `RawBodyBuffers`). -/
theorem c08_body_free_once (maxBody : Nat) (ops : List Op2) :
    let s := ops.foldl (step2 maxBody) ({}, [])
    (freesOf s.2).Nodup ∧ (∀ i ∈ freesOf s.2, i ∈ mallocsOf s.2) ∧ (mallocsOf s.2).Nodup ∧
      (∀ i ∈ ids s.1, i ∉ freesOf s.2) :=
  free_once maxBody ops

/-- C08 (BodyReader): the first `Close` returns everything the reader holds -/
theorem c08_body_close_releases (br : BR) (hc : br.closed = false) :
    freesOf (close br).2 = ids br ∧ ids (close br).1 = [] :=
  close_releases br hc

end HttpBody
