import NbioVerif.Lemmas.C08Meta
import NbioVerif.Lemmas.C08Glue
/-! C08: parser robustness and bounds (model level).

* `c08_no_hang`        the Go-shaped index loop never runs out of fuel (fuel = |buf|+1), i.e. the
                       loop of `Parser.Parse` terminates on every input, state and cache
* `c08_retained_bound` retained bytes ≤ max ReadLimit |data|
* `c08_no_panic`       with every Go slice/index expression of the loop checked (`data[i]`, `data[start:i]`,
                       `data[start:start+n]`, `data[start:]`), the panic outcome is unreachable: the checked loop equals
                       the unchecked one from every (state, cache) on every input
* `c08_retained_bound` retained bytes ≤ max ReadLimit |data|
* `c08_body_bound`     the body held for the message under construction never exceeds MaxHTTPBodySize
* framing metadata: `c08_content_length`, `c08_chunk_size`, `c08_transfer_encoding`, `c08_trailer_names`,
  `c08_missing_lf`, `c08_missing_cr`, `c08_bare_lf_in_header`
* `c08_no_nil_deref`   the callbacks `Parse` makes can always be consumed by the real processors' logic: no callback
                       is made while the request/response it writes to does not exist (a nil dereference inside a
                       callback would be a panic inside `Parse`)
* `c08_silent_after_close` once the engine glue has closed the parser (`CloseAndClean` on error), no Parse call
                       emits an event
-/
namespace Scan
variable {σ ε : Type}

/-- the error codes a machine can produce -/
def ErrIn (M : Machine σ ε) (P : Nat → Prop) : Prop :=
  (∀ st tok c e evs, M.byteStep st tok c = .err e evs → P e) ∧
  (∀ st d e evs, M.blockDone st d = .err e evs → P e)

theorem specFeed_err (M : Machine σ ε) (P : Nat → Prop) (hE : ErrIn M P) :
    ∀ (data : List UInt8) (st : σ) (tok : List UInt8) (acc : List ε) acc' e,
      specFeed M st tok data acc = ⟨acc', .inr e⟩ → P e := by
  intro data
  induction data with
  | nil => intro st tok acc acc' e h; simp [specFeed] at h
  | cons c cs ih =>
    intro st tok acc acc' e h
    simp only [specFeed] at h
    split at h
    · exact ih _ _ _ _ _ h
    · rename_i e1 evs1 tok1 hsb
      simp at h
      obtain ⟨_, he⟩ := h
      subst he
      unfold specByte at hsb
      split at hsb
      · simp only at hsb
        split at hsb
        · have := congrArg Prod.fst hsb
          exact hE.2 _ _ _ _ this
        · cases hsb
      · split at hsb
        · cases hsb
        · rename_i e2 evs2 hbs
          have := congrArg Prod.fst hsb
          simp at this
          obtain ⟨h1, _⟩ := this
          subst h1
          exact hE.1 _ _ _ _ _ hbs

/-- The Parse loop never exhausts its fuel: it terminates (error 999 is the model's "would not
    terminate" outcome), provided the machine itself never reports 999. -/
theorem implParse_no_fuel (M : Machine σ ε) (wf : WF M) (hE : ErrIn M (· ≠ 999))
    (st : σ) (cache data : List UInt8) (acc : List ε) (hg : Good M st cache) :
    ∀ acc', implParse M st cache data acc ≠ ⟨acc', .inr 999⟩ := by
  intro acc' h
  rw [implParse_eq_spec M wf st cache data acc hg] at h
  exact specFeed_err M (· ≠ 999) hE data st cache acc acc' 999 h rfl

end Scan

namespace Http
open Scan

theorem code_ne_999 (e : E) : e.code ≠ 999 := by cases e <;> simp [E.code]

theorem errIn_machine (g : Cfg) : ErrIn (machine g) (· ≠ 999) := by
  constructor
  · intro st tok c e evs h
    simp only [machine] at h
    unfold byteStep at h
    simp only [er, ok] at h
    repeat' split at h
    all_goals first
      | (cases h; done)
      | (injection h with h1 _; subst h1; exact code_ne_999 _)
  · intro st d e evs h
    simp only [machine] at h
    unfold blockDone at h
    simp only [er, ok] at h
    repeat' split at h
    all_goals first
      | (cases h; done)
      | (injection h with h1 _; subst h1; exact code_ne_999 _)

/-- C08: `Parse` terminates on every input in every reachable (state, cache). -/
theorem c08_no_hang (g : Cfg) (st : P) (cache data : Bytes) (acc : List Ev)
    (hg : Good (machine g) st cache) :
    ∀ acc', implParse (machine g) st cache data acc ≠ ⟨acc', .inr 999⟩ :=
  implParse_no_fuel (machine g) (wf g) (errIn_machine g) st cache data acc hg

/-- C08: bytes retained for an incomplete message never exceed max(ReadLimit, one read). -/
theorem c08_retained_bound (g : Cfg) (limit : Nat) (hl : 0 < limit) (st : P) (cache data : Bytes)
    (acc : List Ev) (hc : cache.length ≤ limit) acc' st' cache'
    (h : parseL (machine g) limit st cache data acc = ⟨acc', .inl (st', cache')⟩) :
    cache'.length ≤ max limit data.length :=
  retained_bound (machine g) limit hl st cache data acc hc acc' st' cache' h

/-- C08: `Parse` never panics on a slice or index expression — for every machine state, cache and input (no
    reachability hypothesis is needed: the loop maintains `start ≤ i ≤ len(data)` by itself). -/
theorem c08_no_panic (g : Cfg) (st : P) (cache data : Bytes) (acc : List Ev) :
    implParseC (machine g) st cache data acc = some (implParse (machine g) st cache data acc) :=
  implParseC_eq (machine g) st cache data acc

/-- C08: the body held for the message under construction never exceeds MaxHTTPBodySize (when set): the bound is an
    invariant of every `Parse` call, from any state that satisfies it (in particular from `init g`). -/
theorem c08_body_bound (g : Cfg) (st : P) (cache data : Bytes) (acc : List Ev) (hI : BodyInv g st) acc' st' cache'
    (h : implParse (machine g) st cache data acc = ⟨acc', .inl (st', cache')⟩) : BodyInv g st' :=
  implParse_inv (machine g) (BodyInv g) (fun st tok c s' u evs hi hs => byteStep_bodyInv g st tok c s' u evs hi hs)
    (fun st d s' u evs hi hs => blockDone_bodyInv g st d s' u evs hi hs) st cache data acc hI acc' st' cache' h

theorem c08_body_bound_init (g : Cfg) : BodyInv g (init g) := by intro _; simp [init]

/-- C08: accepted Content-Length fields all carry the same value (trailing spaces aside), it is `[+-]?DIGIT+` and
    non-negative; empty, non-numeric, negative, overflowing (≥ 2^62) and differing values are errors. -/
theorem c08_content_length (p p' : P) (v : Bytes) (rest : List Bytes) (h : endOfHeaders p = .ok p')
    (hte : p.te = []) (hcl : p.cl = v :: rest) :
    clShape (trimRightSpaces v) = true ∧ 0 ≤ p'.contentLength ∧
      parseCLValue (trimRightSpaces v) = some p'.contentLength ∧
      ∀ w ∈ rest, trimRightSpaces w = trimRightSpaces v :=
  cl_accepted p p' v rest h hte hcl

/-- C08: an accepted chunk size is `HEXDIG+` with a value below 2^62 ≤ MaxInt. -/
theorem c08_chunk_size (s : Bytes) (n : Nat) (h : parseHexSize s = some n) :
    s ≠ [] ∧ s.all isHex = true ∧ n < 2 ^ 62 := chunk_accepted s n h

/-- C08: a repeated or unsupported Transfer-Encoding is an error. -/
theorem c08_transfer_encoding (p p' : P) (h : endOfHeaders p = .ok p') (hte : p.te ≠ []) :
    ∃ v, p.te = [v] ∧ (trim v).map toLower = str "chunked" ∧ p'.chunked = true := te_accepted p p' h hte

/-- C08: announcing a framing field as a trailer is an error. -/
theorem c08_trailer_names (p p' : P) (h : addTrailerKeys p = .ok p') (hc : p.chunked = true) (htr : p.tr ≠ []) :
    (declaredKeys p.tr).any forbiddenTrailer = false := trailer_accepted p p' h hc htr

/-- C08: every `…LF` state rejects any byte other than LF. -/
theorem c08_missing_lf (g : Cfg) (p : P) (tok : Bytes) (c : UInt8) (hs : p.st ∈ lfStates) (hc : c ≠ LF) :
    byteStep g p tok c = .err E.lfExpected.code [] := lf_expected g p tok c hs hc

/-- C08: every `…CR` state rejects any byte other than CR. -/
theorem c08_missing_cr (g : Cfg) (p : P) (tok : Bytes) (c : UInt8) (hs : p.st ∈ crStates) (hc : c ≠ CR) :
    byteStep g p tok c = .err E.crExpected.code [] := cr_expected g p tok c hs hc

/-- C08: a bare LF in the header section is an error. -/
theorem c08_bare_lf_in_header (g : Cfg) (p : P) (tok : Bytes)
    (hs : p.st = .headerKeyBefore ∨ p.st = .headerKey ∨ p.st = .headerValueBefore ∨ p.st = .headerValue) :
    byteStep g p tok LF = .err E.invalidCharInHeader.code [] := bare_lf_in_header g p tok hs

/-- C08: nothing further after an error, for the engine glue "close the parser on error" (`CloseAndClean` sets
    `stateClose`): a closed parser returns `net.ErrClosed` on every non-empty input without emitting any event. -/
theorem c08_silent_after_close (g : Cfg) (p : P) (cache data : Bytes) (hs : p.st = .close) (hd : data ≠ [])
    (hc : cache = []) :
    implParse (machine g) p cache data [] = ⟨[], .inr E.closed.code⟩ := by
  subst hc
  cases data with
  | nil => exact absurd rfl hd
  | cons d ds =>
    simp only [implParse, reduceCtorEq, if_false, List.nil_append, List.length_cons, List.length_nil]
    unfold loop
    simp [machine, block, hs, byteStep, er]

/-- C08: no nil dereference in the processor glue. `ObjInv g p cur` ties the parser state to the processor ("a message
    object exists exactly between the first event of a message and its `complete`"); it holds for a fresh parser and
    processor, and from any (state, processor) satisfying it every `Parse` call, on every input, emits an event
    sequence `procRun` consumes without hitting `none` (= `p.request`/`p.response` nil), and re-establishes it. -/
theorem c08_no_nil_deref (g : Cfg) (p : P) (cache data : Bytes) (cur : Option Building) (hI : ObjInv g p cur) :
    RunOk g cur [] (implParse (machine g) p cache data []) :=
  implParse_objInv g p cache data cur hI

theorem c08_no_nil_deref_init (g : Cfg) : ObjInv g (init g) none := objInv_init g

def g0 : Cfg := { isClient := false, maxBody := 0, urlOk := fun _ => true, protoOk := fun _ => true }

/-- cache length of a successful result (0 for an error) -/
def cacheLen (r : Res P Ev) : Nat := match r.fin with | .inl (_, c) => c.length | .inr _ => 0

/-- non-vacuity: a reachable state with a non-empty cache under a limit -/
example : cacheLen (parseL (machine g0) 8 (init g0) [] [71, 69, 84, 32, 47, 97] []) = 2 := by decide

/-- non-vacuity of the framing theorems: accepted and rejected values -/
example : parseCLValue (str "+12") = some 12 ∧ parseCLValue (str "-1") = some (-1) ∧ parseCLValue (str "1x") = none ∧
    parseCLValue [] = none ∧ parseHexSize (str "1f") = some 31 ∧ parseHexSize (str "g") = none ∧
    parseHexSize (str "4000000000000000") = none := by decide
example : ∃ e, endOfHeaders { st := .headerKeyBefore, te := [str "chunked", str "chunked"] } = .error e := ⟨_, rfl⟩
example : (endOfHeaders { st := .headerKeyBefore, te := [[]] }).isOk = false := by decide
example : (endOfHeaders { st := .headerKeyBefore, cl := [str "-5"] }).isOk = false := by decide
example : (endOfHeaders { st := .headerKeyBefore, cl := [[]] }).isOk = false := by decide
example : (endOfHeaders { st := .headerKeyBefore, cl := [str "3", str "4"] }).isOk = false := by decide
example : (endOfHeaders { st := .headerKeyBefore, cl := [str "3 ", str "3"] }).isOk = true := by decide

end Http
