import NbioVerif.Properties.C01
/-!
# The write deadline inside the write-path model (supporting lemmas; tie of C16's "a write that empties
the backlog cancels it / closing cancels it" to the real Write / Writev / flush / close code)

`s.wTimer` is `c.wTimer != nil`; `setWriteDeadline` arms (`AfterFunc` / `Reset`) or clears it,
`timerExpire` is the runtime starting the timer's goroutine (only possible for a timer that is set and
was not stopped), `timerFire` is that goroutine taking the mutex in `closeWithError(errWriteTimeout)`.
The model stops the timer exactly where the code does: the tail of `Write`/`Writev` when the queue is
empty, the loop exit of `flush` (queue drained; not its early return on an empty queue), `closeWithError`.
The fatal-error branches of Write / Writev / Sendfile / flush set `closed` without stopping the timers
(as the code does): a timer left over fires into a closed conn and does nothing (`timer_fire_closed_noop`).
-/
namespace ConnFull

/-! ### the timer field through the helpers -/

theorem wT_enqueue (s : S) (b : Bytes) : (enqueue s b).wTimer = s.wTimer := by
  unfold enqueue
  split
  · rfl
  · simp only
    split
    · rfl
    · rfl
    · split <;> rfl

theorem wT_foldl (bs : List Bytes) : ∀ s : S, (bs.foldl enqueue s).wTimer = s.wTimer := by
  induction bs with
  | nil => intro s; rfl
  | cons b bs ih => intro s; rw [List.foldl_cons, ih, wT_enqueue]

theorem wT_queueRest (bs : List Bytes) : ∀ (s : S) (n : Nat), (queueRest s n bs).wTimer = s.wTimer := by
  induction bs with
  | nil => intro s n; rfl
  | cons b bs ih =>
    intro s n
    unfold queueRest
    split
    · rw [ih, wT_enqueue]
    · split
      · rw [ih, wT_enqueue]
      · rw [ih]

theorem wT_kctl (s : S) (a o : Bool) : (kctl s a o).wTimer = s.wTimer := by
  unfold kctl; split; rfl; split <;> rfl
theorem wT_pModWrite (g : Cfg) (s : S) : (pModWrite g s).wTimer = s.wTimer := by
  unfold pModWrite; split; rfl; exact wT_kctl _ _ _
theorem wT_pResetRead (g : Cfg) (s : S) : (pResetRead g s).wTimer = s.wTimer := by
  unfold pResetRead; split; rfl; exact wT_kctl _ _ _
theorem wT_cModWrite (g : Cfg) (s : S) : (cModWrite g s).wTimer = s.wTimer := by
  unfold cModWrite; split
  · rw [wT_pModWrite]
  · rfl
theorem wT_cResetRead (g : Cfg) (s : S) : (cResetRead g s).wTimer = s.wTimer := by
  unfold cResetRead; split
  · rw [wT_pResetRead]
  · rfl
theorem wT_resetPollerEvent (g : Cfg) (s : S) : (resetPollerEvent g s).wTimer = s.wTimer := by
  unfold resetPollerEvent; split
  · split
    · exact wT_pResetRead _ _
    · exact wT_pModWrite _ _
  · rfl

theorem wl_cModWrite (g : Cfg) (s : S) : (cModWrite g s).wl = s.wl := by
  have hD := D_cModWrite g s
  simp only [D, Prod.mk.injEq] at hD
  exact hD.2.2.1

theorem closed_cModWrite (g : Cfg) (s : S) : (cModWrite g s).closed = s.closed := by
  have hD := D_cModWrite g s
  simp only [D, Prod.mk.injEq] at hD
  exact hD.1

theorem wT_writeInner (g : Cfg) (s : S) (b : Bytes) (k : KAns) : (writeInner g s b k).1.wTimer = s.wTimer := by
  unfold writeInner
  simp only
  repeat' split
  all_goals first | rfl | exact wT_enqueue _ _

theorem wT_writevInner (g : Cfg) (s : S) (bs : List Bytes) (k : KAns) :
    (writevInner g s bs k).1.wTimer = s.wTimer := by
  unfold writevInner
  simp only
  repeat' split
  all_goals first | rfl | (rw [wT_foldl]) | (rw [wT_queueRest])

theorem wT_writevCore (g : Cfg) (s : S) (bs : List Bytes) (k : KAns) :
    (writevCore g s bs k).1.wTimer = s.wTimer := by
  unfold writevCore; split
  · exact wT_writeInner g s _ k
  · exact wT_writevInner g s bs k

/-- the tail of Write / Writev: queue empty ⇒ the timer is cleared; backlog ⇒ it is left alone -/
theorem finishCall_timer (g : Cfg) (r : S × Ret) :
    (r.2.err = .none → (finishCall g r).1.wl = [] → (finishCall g r).1.wTimer = false) ∧
    ((finishCall g r).1.closed = false → (finishCall g r).1.wl ≠ [] → (finishCall g r).1.wTimer = r.1.wTimer) := by
  unfold finishCall
  split
  · simp only
    split
    · rename_i he
      exact ⟨fun _ _ => rfl, fun _ h => absurd (isEmpty_eq_true he) h⟩
    · rename_i he
      refine ⟨fun _ h => ?_, fun _ _ => wT_cModWrite g r.1⟩
      rw [wl_cModWrite] at h
      exact absurd h (isEmpty_ne_true he)
  · rename_i he
    exact ⟨fun h => absurd h he, fun h => by simp [flip] at h⟩

/-! ### a write that empties the backlog cancels the deadline -/

/-- `Write` returning without error and leaving nothing queued has cleared the write deadline. -/
theorem timer_cleared_by_write (g : Cfg) (s : S) (b : Bytes) (k : KAns) (hh : s.hung = false) (hc : s.closed = false)
    (he : (write g s b k).2.err = .none) (hw : (write g s b k).1.wl = []) : (write g s b k).1.wTimer = false := by
  unfold write at he hw ⊢
  rw [if_neg (by simp [hh]), if_neg (by simp [hc])] at he hw ⊢
  rw [(finishCall_eff g _).1] at he
  exact (finishCall_timer g _).1 he hw

/-- the same for `Writev` -/
theorem timer_cleared_by_writev (g : Cfg) (s : S) (bs : List Bytes) (k : KAns) (hh : s.hung = false)
    (hc : s.closed = false) (he : (writev g s bs k).2.err = .none) (hw : (writev g s bs k).1.wl = []) :
    (writev g s bs k).1.wTimer = false := by
  rw [writev_eq] at he hw ⊢
  rw [if_neg (by simp [hh]), if_neg (by simp [hc])] at he hw ⊢
  rw [(finishCall_eff g _).1] at he
  exact (finishCall_timer g _).1 he hw

theorem flushLoop_timer (g : Cfg) : ∀ (fuel : Nat) (s : S) (ks : List KAns), s.closed = false →
    ((flushLoop g fuel s ks).hung = false → (flushLoop g fuel s ks).closed = false →
      (flushLoop g fuel s ks).wl = [] → (flushLoop g fuel s ks).wTimer = false) ∧
    ((flushLoop g fuel s ks).wl ≠ [] → (flushLoop g fuel s ks).wTimer = s.wTimer) := by
  intro fuel
  induction fuel with
  | zero => intro s ks _; unfold flushLoop; exact ⟨fun h => by simp at h, fun _ => rfl⟩
  | succ fuel ih =>
    intro s ks hc
    have stay : ∀ t tl, s.wl = t :: tl →
        ((s.hung = false → s.closed = false → s.wl = [] → s.wTimer = false) ∧ (s.wl ≠ [] → s.wTimer = s.wTimer)) :=
      fun t tl h => ⟨fun _ _ hw => by simp [h] at hw, fun _ => rfl⟩
    have closeit : (((closeNow s).hung = false → (closeNow s).closed = false → (closeNow s).wl = [] →
        (closeNow s).wTimer = false) ∧ ((closeNow s).wl ≠ [] → (closeNow s).wTimer = s.wTimer)) :=
      ⟨fun _ h => by simp [closeNow] at h, fun h => by simp [closeNow] at h⟩
    unfold flushLoop
    split
    · rename_i hwl
      refine ⟨fun _ _ _ => by rw [wT_cResetRead]; rfl, fun h => ?_⟩
      rw [wl_cResetRead] at h
      exact absurd hwl h
    · rename_i d off tl hwl
      simp only
      split
      · exact ih s ks hc
      split
      · exact stay _ _ hwl
      · exact stay _ _ hwl
      · exact ih s _ hc
      · exact closeit
      · split
        · exact ih s _ hc
        split
        · exact ih _ _ (by exact hc)
        · exact ih _ _ (by exact hc)
    · rename_i off rem tl hwl
      split
      · exact ih s ks hc
      split
      · exact stay _ _ hwl
      · exact stay _ _ hwl
      · exact ih s _ hc
      · exact closeit
      · simp only
        split
        · exact ih s _ hc
        split
        · exact ih _ _ (by exact hc)
        · exact ih _ _ (by exact hc)

/-- When the poller's `flush` drains a backlog (queue non-empty on entry, empty and still open
    afterwards) the write deadline is cleared: no stale timer is left behind an idle, fully flushed
    connection. -/
theorem timer_cleared_by_flush (g : Cfg) (s : S) (ks : List KAns) (hr : Reach g s) (hc : s.closed = false)
    (hne : s.wl ≠ []) (ho : (flush g s ks).closed = false) (hw : (flush g s ks).wl = []) :
    (flush g s ks).wTimer = false := by
  have hnh : (flush g s ks).hung = false := (invD_flush g s ks (reach_inv hr).1).nohang
  unfold flush at ho hw hnh ⊢
  rw [if_neg (by simp [hc]), if_neg (by simpa using hne)] at ho hw hnh ⊢
  exact (flushLoop_timer g _ s ks hc).1 hnh ho hw

/-- … and then the runtime cannot fire it any more: no later timer-caused close. -/
theorem no_stale_timer_after_drain (g : Cfg) (s : S) (ks : List KAns) (hr : Reach g s) (hc : s.closed = false)
    (hne : s.wl ≠ []) (ho : (flush g s ks).closed = false) (hw : (flush g s ks).wl = []) :
    timerExpire (flush g s ks) = flush g s ks := by
  unfold timerExpire
  rw [timer_cleared_by_flush g s ks hr hc hne ho hw]; rfl

/-! ### a backlog keeps an armed deadline armed -/

theorem wT_sendfileLoop (g : Cfg) (ks : List KAns) :
    ∀ (s : S) (off rem : Nat), (sendfileLoop g s off rem ks).1.wTimer = s.wTimer := by
  induction ks with
  | nil =>
    intro s off rem; unfold sendfileLoop; split
    · rfl
    · rw [wT_cModWrite]; rfl
  | cons k ks ih =>
    intro s off rem
    unfold sendfileLoop
    split
    · rfl
    split
    · rw [wT_cModWrite]; rfl
    · exact ih s off rem
    · rfl
    · simp only
      split
      · rfl
      · rw [ih]

/-- `Sendfile` never touches the write deadline. -/
theorem wT_sendfile (g : Cfg) (s : S) (off len : Nat) (ks : List KAns) : (sendfile g s off len ks).1.wTimer = s.wTimer := by
  unfold sendfile
  simp only
  repeat' split
  all_goals first | rfl | (rw [wT_sendfileLoop])

theorem wT_flush (g : Cfg) (s : S) (ks : List KAns) (h : (flush g s ks).wl ≠ []) : (flush g s ks).wTimer = s.wTimer := by
  unfold flush at h ⊢
  split
  · rfl
  rename_i hc
  split
  · exact wT_cResetRead g s
  · rename_i hne
    rw [if_neg hc, if_neg hne] at h
    exact (flushLoop_timer g _ s ks (by simpa using hc)).2 h

/-- No step other than clearing the deadline stops an armed write deadline while the connection stays
    open with a backlog: the timer keeps guarding the unsent bytes. -/
theorem timer_kept_by_backlog (g : Cfg) (s : S) (op : Op) (ht : s.wTimer = true)
    (hop : op ≠ .setWriteDeadline true) (ho : (step g s op).closed = false) (hw : (step g s op).wl ≠ []) :
    (step g s op).wTimer = true := by
  cases op with
  | write b ks =>
    replace ho : (write g s b (directAns ks)).1.closed = false := ho
    replace hw : (write g s b (directAns ks)).1.wl ≠ [] := hw
    show (write g s b (directAns ks)).1.wTimer = true
    generalize directAns ks = k at ho hw ⊢
    unfold write at ho hw ⊢
    split
    · exact ht
    split
    · exact ht
    · rename_i h1 h2
      rw [if_neg h1, if_neg h2] at ho hw
      rw [(finishCall_timer g _).2 ho hw, wT_writeInner, ht]
  | writev bs ks =>
    replace ho : (writev g s bs (directAns ks)).1.closed = false := ho
    replace hw : (writev g s bs (directAns ks)).1.wl ≠ [] := hw
    show (writev g s bs (directAns ks)).1.wTimer = true
    generalize directAns ks = k at ho hw ⊢
    rw [writev_eq] at ho hw ⊢
    split
    · exact ht
    split
    · exact ht
    · rename_i h1 h2
      rw [if_neg h1, if_neg h2] at ho hw
      rw [(finishCall_timer g _).2 ho hw, wT_writevCore, ht]
  | sendfile off len ks =>
    show (sendfile g s off len ks).1.wTimer = true
    rw [wT_sendfile, ht]
  | register =>
    show (register g s).wTimer = true
    unfold register
    split
    · exact ht
    · split
      · unfold pAddRead; split <;> (rw [wT_kctl]; exact ht)
      · unfold pAddReadWrite; rw [wT_kctl]; exact ht
  | registerDial =>
    show (registerDial g s).wTimer = true
    unfold registerDial
    split
    · exact ht
    · unfold pAddReadWrite; rw [wT_kctl]; exact ht
  | registerDialNow =>
    show (registerDialNow g s).wTimer = true
    unfold registerDialNow
    split
    · exact ht
    · unfold pAddReadWrite; rw [wT_kctl]; exact ht
  | evTake o0 i e ks =>
    replace ho : (evTake g s (o0 && (g.mode != .et || s.edgeDue)) i e ks).closed = false := ho
    replace hw : (evTake g s (o0 && (g.mode != .et || s.edgeDue)) i e ks).wl ≠ [] := hw
    show (evTake g s (o0 && (g.mode != .et || s.edgeDue)) i e ks).wTimer = true
    generalize (o0 && (g.mode != .et || s.edgeDue)) = o at ho hw ⊢
    unfold evTake at ho hw ⊢
    simp only at ho hw ⊢
    split
    · exact ht
    · rename_i hd
      rw [if_neg hd] at ho hw
      have h1 : (if (g.mode == Mode.oneshot) = true then { s with disarmed := true } else s).wTimer = true := by
        split <;> exact ht
      generalize (if (g.mode == Mode.oneshot) = true then { s with disarmed := true } else s) = s1 at h1 ho hw ⊢
      show (if (deliverable s o i e).1 = true then (if s1.connecting = true then { s1 with connEv := true } else flush g s1 ks) else s1).wTimer = true
      have hw' : (if (deliverable s o i e).1 = true then (if s1.connecting = true then { s1 with connEv := true } else flush g s1 ks) else s1).wl ≠ [] := hw
      split
      · split
        · exact h1
        · rename_i hd1 hcn
          rw [if_pos hd1, if_neg hcn] at hw'
          rw [wT_flush g s1 ks hw', h1]
      · exact h1
  | evEnd =>
    simp only [step] at ho hw ⊢
    unfold evEnd at ho hw ⊢
    split
    · exact ht
    · rename_i hh
      rw [if_neg hh] at ho hw
      simp only at ho hw ⊢
      have h0 : (if s.connEv = true then cResetRead g { s with connecting := false, connEv := false } else s).wTimer = true := by
        split
        · rw [wT_cResetRead]; exact ht
        · exact ht
      generalize (if s.connEv = true then cResetRead g { s with connecting := false, connEv := false } else s) = s0 at h0 ho hw ⊢
      have h1 : (if s0.rearm = true then resetPollerEvent g { s0 with rearm := false } else s0).wTimer = true := by
        split
        · rw [wT_resetPollerEvent]; exact h0
        · exact h0
      generalize (if s0.rearm = true then resetPollerEvent g { s0 with rearm := false } else s0) = t at h1 ho hw ⊢
      split
      · rename_i he
        rw [if_pos he] at ho
        split
        · exact h1
        · rename_i hcl
          rw [if_neg hcl] at ho
          simp [flipWE, flip] at ho
      · exact h1
  | evConnEnd =>
    show (evConnEnd g s).wTimer = true
    unfold evConnEnd
    split
    · exact ht
    · split
      · rw [wT_cResetRead]; exact ht
      · exact ht
  | evRearm =>
    show (evRearm g s).wTimer = true
    unfold evRearm
    split
    · exact ht
    · split
      · rw [wT_resetPollerEvent]; exact ht
      · exact ht
  | evErrClose =>
    replace ho : (evErrClose s).closed = false := ho
    show (evErrClose s).wTimer = true
    unfold evErrClose at ho ⊢
    split
    · exact ht
    · rename_i hg
      rw [if_neg hg] at ho
      split
      · rename_i he
        rw [if_pos he] at ho
        split
        · exact ht
        · rename_i hcl
          rw [if_neg hcl] at ho
          simp [flipWE, flip] at ho
      · exact ht
  | flipClosed =>
    simp only [step, flipClosed] at ho hw ⊢
    split
    · exact ht
    · rename_i h
      rw [if_neg h] at ho
      simp [flipWE, flip] at ho
  | teardown =>
    simp only [step, teardown] at ho hw ⊢
    split
    · rename_i h
      rw [if_pos h] at hw
      simp at hw
    · exact ht
  | setWriteDeadline z =>
    cases z with
    | true => exact absurd rfl hop
    | false =>
      simp only [step, setWriteDeadline]
      split
      · exact ht
      · rfl
  | timerExpire =>
    simp only [step, timerExpire]
    split <;> exact ht
  | timerFire =>
    simp only [step, timerFire] at ho hw ⊢
    split
    · exact ht
    · rename_i h
      rw [if_neg h] at ho
      split
      · exact ht
      · rename_i hcl
        rw [if_neg hcl] at ho
        simp [flipWE, flip] at ho

/-! ### closing cancels the deadline -/

/-- `closeWithError` (Close / CloseWithError, an error event, the timer itself) stops the write deadline. -/
theorem close_stops_timer (s : S) (hh : s.hung = false) (hc : s.closed = false) :
    (flipClosed s).closed = true ∧ (flipClosed s).wTimer = false := by
  simp [flipClosed, hh, hc, flipWE, flip, stopTimer]

/-- A timeout close needs a timer that expired while it was set: the second step of the fire closes an
    open connection with the timer cleared … -/
theorem timer_fire_closes (s : S) (hh : s.hung = false) (hc : s.closed = false) (hp : s.firePending = true) :
    (timerFire s).closed = true ∧ (timerFire s).wTimer = false ∧ (timerFire s).firePending = false := by
  simp [timerFire, hh, hc, hp, flipWE, flip, stopTimer]

/-- … and does nothing to a connection that is already closed (whatever closed it). -/
theorem timer_fire_closed_noop (s : S) (hc : s.closed = true) :
    (timerFire s).closed = true ∧ (timerFire s).wl = s.wl ∧ (timerFire s).wire = s.wire ∧
    (timerFire s).onClose = s.onClose ∧ (timerFire s).wTimer = s.wTimer ∧ (timerFire s).ctl = s.ctl := by
  unfold timerFire
  split
  · exact ⟨hc, rfl, rfl, rfl, rfl, rfl⟩
  · simp [hc]

/-- without an expired timer there is no timeout close -/
theorem timer_fire_needs_expiry (s : S) (hp : s.firePending = false) : timerFire s = s := by
  simp [timerFire, hp]

/-- the runtime can only fire a timer that is set -/
theorem timer_expire_needs_timer (s : S) (ht : s.wTimer = false) : timerExpire s = s := by
  simp [timerExpire, ht]

/-- The fatal-error branches (`c.closed = true` in Write / Writev / Sendfile / flush) do not stop the timers:
    a closed connection can keep a set timer until it fires — into a closed conn (`timer_fire_closed_noop`). -/
theorem timer_survives_error_close :
    let s := run g0 init [.register, .setWriteDeadline false, .write [1, 2, 3] [.fail]]
    s.closed = true ∧ s.wTimer = true ∧ (timerExpire s).firePending = true ∧
    (timerFire (timerExpire s)).onClose = s.onClose ∧ (timerFire (timerExpire s)).firePending = false := by
  decide

/-! ### non-vacuity -/

/-- deadline set, write leaves a backlog (timer kept), the poller drains it (timer cleared) -/
example :
    let s1 := run g0 init [.register, .setWriteDeadline false, .write [1, 2, 3] [.wrote 1]]
    let s2 := flush g0 s1 [.wrote 5]
    s1.wTimer = true ∧ s1.wl.length = 1 ∧ s2.closed = false ∧ s2.wl.length = 0 ∧ s2.wTimer = false := by decide

/-- deadline set, a complete direct write clears it -/
example : (run g0 init [.register, .setWriteDeadline false, .write [1, 2, 3] [.wrote 3]]).wTimer = false := by decide

/-- deadline expires with a backlog: the two steps of the fire close the connection -/
example :
    let s := run g0 init [.register, .setWriteDeadline false, .write [1, 2, 3] [.eagain], .timerExpire, .timerFire, .teardown]
    s.closed = true ∧ s.wTimer = false ∧ s.onClose = 1 := by decide

/-- renewal racing the callback: the goroutine has started, the deadline is renewed, the close still happens -/
example :
    let s := run g0 init [.register, .setWriteDeadline false, .write [1, 2, 3] [.eagain], .timerExpire,
      .setWriteDeadline false, .timerFire]
    s.closed = true := by decide

end ConnFull
