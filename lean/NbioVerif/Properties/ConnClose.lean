import NbioVerif.Properties.C01
/-!
# The two steps of a close inside the write-path model (supporting lemmas for C03's "once it is closed,
Write / Writev / Sendfile fail with a closed indication instead of touching the descriptor")

`flipClosed` / `flip` = the locked test-and-set of `closed` (closeWithError; the fatal-error branches of
Write / Writev), after which `tearPending` says that the flipper — and only it — still has to run
`closeWithErrorWithoutLock` = `teardown` (release the queue, table slot + OnClose, close the fd). The
fatal-error branches of flush / Sendfile do both inside their critical section (`closeNow`). Any other step
may come between the two; step names as in the C03 model (`flip`, `teardown`).
-/
namespace ConnFull

/-- **frozen after the flip.** Once the flag is set, no step except the flipper's `teardown` touches the
    queue, the counter, the wire, the accepted stream, the epoll registration (no epoll_ctl), the close
    bookkeeping or the deadline — whatever interleaves between the flip and the teardown, and after it. -/
theorem close_frozen (g : Cfg) (s : S) (op : Op) (hc : s.closed = true) (hop : op ≠ .teardown) :
    (step g s op).closed = true ∧ (step g s op).wl = s.wl ∧ (step g s op).left = s.left ∧
    (step g s op).wire = s.wire ∧ (step g s op).accepted = s.accepted ∧ (step g s op).ctl = s.ctl ∧
    (step g s op).onClose = s.onClose ∧ (step g s op).tearPending = s.tearPending ∧
    (step g s op).fdClosed = s.fdClosed := by
  have h := frozen_step g s op hc hop
  simp only [Z, Prod.mk.injEq] at h
  obtain ⟨z1, z2, z3, z4, z5, z6, z7, z8, z9, _⟩ := h
  exact ⟨z1.trans hc, z2, z3, z4, z5, z6, z7, z8, z9⟩

/-- **closed indication.** On a connection whose flag is set the calls return their closed indication
    and change nothing (Write −1, Writev 0, Sendfile 0, each with ErrClosed). -/
theorem closed_indication (g : Cfg) (s : S) (hh : s.hung = false) (hc : s.closed = true) (b : Bytes) (bs : List Bytes)
    (off len : Nat) (k : KAns) (ks : List KAns) :
    write g s b k = (s, ⟨-1, .closed⟩) ∧ writev g s bs k = (s, ⟨0, .closed⟩) ∧
    sendfile g s off len ks = (s, ⟨0, .closed⟩) := by
  simp [write, writev, sendfile, hh, hc]

/-- **the teardown.** It releases the queue, notifies once, closes the descriptor — and leaves the wire alone. -/
theorem teardown_effect (s : S) (ht : s.tearPending = true) :
    (teardown s).wl = [] ∧ (teardown s).onClose = s.onClose + 1 ∧ (teardown s).fdClosed = true ∧
    (teardown s).tearPending = false ∧ (teardown s).wire = s.wire ∧ (teardown s).closed = s.closed := by
  simp [teardown, ht]

/-- without a pending teardown the step does nothing (only the flipper tears down, and only once) -/
theorem teardown_idle (s : S) (ht : s.tearPending = false) : teardown s = s := by
  simp [teardown, ht]

/-- **bookkeeping.** In every reachable state: a teardown is pending only on a flagged connection; the
    descriptor is closed only on a flagged, released connection with nothing pending; the close
    notification was issued exactly once iff the teardown ran (never twice). -/
theorem close_bookkeeping (g : Cfg) (ops : List Op) :
    let s := run g init ops
    (s.tearPending = true → s.closed = true) ∧
    (s.fdClosed = true → s.closed = true ∧ s.wl = [] ∧ s.tearPending = false) ∧
    s.onClose = (if s.fdClosed then 1 else 0) := by
  have h := invT_run g ops init invT_init
  exact ⟨h.tp, fun hf => ⟨h.fcl hf, h.fwl hf, h.ftp hf⟩, h.oc⟩

/-- a flagged connection is eventually torn down by its flipper: flag without closed descriptor means the
    teardown is still pending (nobody else will do it, nobody forgot it) -/
theorem close_pending_or_done (g : Cfg) (ops : List Op) :
    let s := run g init ops
    s.closed = true → s.tearPending = true ∨ s.fdClosed = true := by
  intro s hc
  -- by induction over the run, with the bookkeeping invariant
  suffices h : ∀ (ops : List Op) (s : S), InvT s → (s.closed = true → s.tearPending = true ∨ s.fdClosed = true) →
      ((run g s ops).closed = true → (run g s ops).tearPending = true ∨ (run g s ops).fdClosed = true) from
    h ops init invT_init (by simp [init]) hc
  intro ops
  induction ops with
  | nil => intro s _ h; exact h
  | cons op ops ih =>
    intro s hi h
    refine ih (step g s op) (invT_step g s op hi) ?_
    intro hc'
    by_cases hop : op = .teardown
    · subst hop
      simp only [step, teardown] at hc' ⊢
      split
      · right; rfl
      · rename_i ht
        rw [if_neg ht] at hc'
        rcases h hc' with h | h
        · exact absurd h ht
        · exact Or.inr h
    · cases hcs : s.closed with
      | true =>
        have hz := frozen_step g s op hcs hop
        simp only [Z, Prod.mk.injEq] at hz
        obtain ⟨_, _, _, _, _, _, _, z8, z9, _⟩ := hz
        rw [z8, z9]; exact h hcs
      | false =>
        cases outcome_step g s op hop with
        | same hk =>
          simp only [K, Prod.mk.injEq] at hk
          rw [hk.1, hcs] at hc'; simp at hc'
        | flipped _ h2 _ _ _ => exact Or.inl h2
        | tornDown _ _ h3 _ _ => exact Or.inr h3

/-- **nothing reaches the wire after the descriptor is closed** (nor between the flip and the teardown) -/
theorem no_wire_after_flip (g : Cfg) (s : S) (op : Op) (hc : s.closed = true) : (step g s op).wire = s.wire := by
  by_cases hop : op = .teardown
  · subst hop
    simp only [step, teardown]
    split <;> rfl
  · exact (close_frozen g s op hc hop).2.2.2.1

/-- the one-critical-section close of flush / Sendfile is the flip followed at once by the teardown -/
theorem closeNow_eq_flip_teardown (s : S) (ht : s.tearPending = false) :
    Z (teardown (flip s)) = Z (closeNow s) ∧ (teardown (flip s)).tearPending = (closeNow s).tearPending := by
  simp [teardown, flip, closeNow, Z, ht]

/-! ### non-vacuity -/

/-- Close with a backlog, a Write and an EPOLLOUT event between the flip and the teardown: both are
    refused / ignored, then the teardown releases the queue and notifies once -/
example :
    let s1 := run g0 init [.register, .write [1, 2, 3] [.wrote 1], .flipClosed]
    let s2 := run g0 init [.register, .write [1, 2, 3] [.wrote 1], .flipClosed, .write [9] [.wrote 1],
      .evTake true false false [.wrote 5], .evEnd]
    let s3 := teardown s2
    s1.closed = true ∧ s1.tearPending = true ∧ s1.wl.length = 1 ∧ s1.onClose = 0 ∧
    s2.wl.length = 1 ∧ s2.wire = [1] ∧ s2.ctl = s1.ctl ∧
    (write g0 s1 [9] (.wrote 1)).2 = ⟨-1, .closed⟩ ∧
    s3.wl.length = 0 ∧ s3.onClose = 1 ∧ s3.fdClosed = true ∧ s3.wire = [1] := by decide

/-- a fatal Write leaves the teardown pending (it runs after the unlock); a fatal flush does both at once -/
example :
    let s1 := run g0 init [.register, .write [1, 2, 3] [.fail]]
    let s2 := run g0 init [.register, .write [1, 2, 3] [.eagain], .evTake true false false [.fail]]
    s1.closed = true ∧ s1.tearPending = true ∧ s1.fdClosed = false ∧
    s2.closed = true ∧ s2.tearPending = false ∧ s2.fdClosed = true ∧ s2.onClose = 1 := by decide

end ConnFull
