import NbioVerif.Lemmas.ConnFlush
/-!
# C01 Outbound stream integrity

Model: `ConnFull` (Model/ConnFull.lean) — `Write`, `Writev`, `Sendfile`, `flush`, registration and the
poller's event handling of nbio's `Conn`, one step per critical section, kernel answers as inputs.
`s.wire` is what the (simulated) kernel accepted, i.e. what the peer receives; the ghost `s.accepted` is
the concatenation, in call order, of the byte ranges the calls reported as accepted.

All statements hold for every configuration (epoll mode, bound, file), every op sequence and every
kernel answer sequence; only the return-value theorem of `Sendfile` needs the well-formedness of the
answers (`KWF`: a non-empty request is never answered "0 bytes, no error", which for sendfile(2) means
that the source file was truncated).
-/
namespace ConnFull

/-- reachable states: any sequence of steps from the fresh connection -/
def Reach (g : Cfg) (s : S) : Prop := ∃ ops, s = run g init ops

theorem reach_inv {g : Cfg} {s : S} (h : Reach g s) : InvD g s ∧ InvA g s := by
  obtain ⟨ops, rfl⟩ := h
  exact inv_run g ops init (invD_init g) (invA_init g) invT_init

theorem reach_invT {g : Cfg} {s : S} (h : Reach g s) : InvT s := by
  obtain ⟨ops, rfl⟩ := h
  exact invT_run g ops init invT_init

theorem reach_step {g : Cfg} {s : S} (h : Reach g s) (op : Op) : Reach g (step g s op) := by
  obtain ⟨ops, rfl⟩ := h
  exact ⟨ops ++ [op], by simp [run]⟩

/-- **C01 (integrity).** While the connection is open, the bytes the kernel got followed by the bytes
    still queued (buffers and file ranges, in queue order) are exactly the bytes the calls accepted, in
    call order: nothing lost, duplicated, reordered or altered, however the kernel split, delayed or
    refused the individual writes. After a close the peer has received a prefix of the accepted stream. -/
theorem c01_integrity (g : Cfg) (ops : List Op) :
    let s := run g init ops
    (s.closed = false → s.wire ++ pending g s.wl = s.accepted) ∧ s.wire <+: s.accepted := by
  have h := (reach_inv (g := g) ⟨ops, rfl⟩).1
  exact ⟨h.integ, h.pref⟩

/-- **C01 (drained).** An open connection with an empty queue has transmitted everything it accepted. -/
theorem c01_drained (g : Cfg) (ops : List Op) :
    let s := run g init ops
    s.closed = false → s.wl = [] → s.wire = s.accepted := by
  intro s hc hw
  have h := (reach_inv (g := g) ⟨ops, rfl⟩).1.integ hc
  rw [hw] at h; simpa [pending] using h

/-- **C01 (Write returns).** `Write` returning no error has accepted its whole input and reports that
    length; the block is appended to the accepted stream in one piece, and what goes to the kernel
    directly is a prefix of it. -/
theorem c01_return_write (g : Cfg) (s : S) (b : Bytes) (k : KAns) (hr : Reach g s)
    (he : (write g s b k).2.err = .none) :
    (write g s b k).2.n = b.length ∧ (write g s b k).1.accepted = s.accepted ++ b ∧
    ∃ sent, sent <+: b ∧ (write g s b k).1.wire = s.wire ++ sent := by
  have hd := (reach_inv hr).1
  unfold write at he ⊢
  rw [if_neg (by simp [hd.nohang])] at he ⊢
  split at he
  · simp at he
  · rw [if_neg (by assumption)]
    obtain ⟨f1, f2, f3, _, _⟩ := finishCall_eff g (writeInner g s b k)
    rw [f1] at he ⊢
    obtain ⟨r1, _, sent, r3, r4⟩ := (writeInner_ret g s b k hd.pos).1 he
    exact ⟨r1, by rw [f2, r4.acc], sent, r3, by rw [f3, r4.wire]⟩

/-- **C01 (Write fails).** `Write` returning an error has accepted nothing and sent nothing, and the
    connection is closed. -/
theorem c01_error_write (g : Cfg) (s : S) (b : Bytes) (k : KAns) (hr : Reach g s)
    (he : (write g s b k).2.err ≠ .none) :
    (write g s b k).1.accepted = s.accepted ∧ (write g s b k).1.wire = s.wire ∧ (write g s b k).1.closed = true := by
  have hd := (reach_inv hr).1
  unfold write at he ⊢
  rw [if_neg (by simp [hd.nohang])] at he ⊢
  split
  · rename_i hc; exact ⟨rfl, rfl, hc⟩
  · rw [if_neg (by assumption)] at he
    obtain ⟨f1, f2, f3, f4, _⟩ := finishCall_eff g (writeInner g s b k)
    rw [f1] at he
    have := (writeInner_ret g s b k hd.pos).2 he
    exact ⟨by rw [f2, this], by rw [f3, this], f4 he⟩

/-- **C01 (Writev returns).** As `Write`, for the concatenation of the buffers (also after a partial
    direct `writev`, and when the kernel refuses it with EAGAIN/EINTR). -/
theorem c01_return_writev (g : Cfg) (s : S) (bs : List Bytes) (k : KAns) (hr : Reach g s)
    (he : (writev g s bs k).2.err = .none) :
    (writev g s bs k).2.n = total bs ∧ (writev g s bs k).1.accepted = s.accepted ++ bs.flatten ∧
    ∃ sent, sent <+: bs.flatten ∧ (writev g s bs k).1.wire = s.wire ++ sent := by
  have hd := (reach_inv hr).1
  rw [writev_eq] at he ⊢
  rw [if_neg (by simp [hd.nohang])] at he ⊢
  split at he
  · simp at he
  · rw [if_neg (by assumption)]
    obtain ⟨f1, f2, f3, _, _⟩ := finishCall_eff g (writevCore g s bs k)
    rw [f1] at he ⊢
    obtain ⟨r1, _, sent, r3, r4⟩ := (writevCore_ret g s bs k hd.pos).1 he
    exact ⟨r1, by rw [f2, r4.acc], sent, r3, by rw [f3, r4.wire]⟩

/-- **C01 (Writev fails).** -/
theorem c01_error_writev (g : Cfg) (s : S) (bs : List Bytes) (k : KAns) (hr : Reach g s)
    (he : (writev g s bs k).2.err ≠ .none) :
    (writev g s bs k).1.accepted = s.accepted ∧ (writev g s bs k).1.wire = s.wire ∧ (writev g s bs k).1.closed = true := by
  have hd := (reach_inv hr).1
  rw [writev_eq] at he ⊢
  rw [if_neg (by simp [hd.nohang])] at he ⊢
  split
  · rename_i hc; exact ⟨rfl, rfl, hc⟩
  · rw [if_neg (by assumption)] at he
    obtain ⟨f1, f2, f3, f4, _⟩ := finishCall_eff g (writevCore g s bs k)
    rw [f1] at he
    have := (writevCore_ret g s bs k hd.pos).2 he
    exact ⟨by rw [f2, this], by rw [f3, this], f4 he⟩

/-- **C01 (Sendfile returns).** `Sendfile` returning no error has accepted the whole file range
    (`sendRange`: the requested length, clamped to the end of the file) and reports its length. -/
theorem c01_return_sendfile (g : Cfg) (s : S) (off len : Nat) (ks : List KAns) (hr : Reach g s) (hk : KWF ks)
    (he : (sendfile g s off len ks).2.err = .none) :
    (sendfile g s off len ks).2.n = sendRange g off len ∧
    (sendfile g s off len ks).1.accepted = s.accepted ++ fileRange g off (sendRange g off len) ∧
    ∃ sent, sent <+: fileRange g off (sendRange g off len) ∧ (sendfile g s off len ks).1.wire = s.wire ++ sent := by
  have hd := (reach_inv hr).1
  unfold sendfile at he ⊢
  rw [if_neg (by simp [hd.nohang])] at he ⊢
  split at he
  · simp at he
  · rw [if_neg (by assumption)]
    simp only at he ⊢
    split
    · rename_i h0
      simp [h0, fileRange_zero]
    · split
      · exact ⟨rfl, rfl, [], List.nil_prefix, by simp [enqueueFile, pushItem]⟩
      · rename_i hr0 hq
        rw [if_neg hr0, if_neg hq] at he
        split at he
        · simp at he
        · rename_i hf
          rw [if_neg hf]
          obtain ⟨_, sent, h1, h2⟩ := (sendfileLoop_ret g ks s off (sendRange g off len)).1 (by simpa using hf) hk
          exact ⟨rfl, h2.acc, sent, h1, h2.wire⟩

/-- **C01 (Sendfile fails).** `Sendfile` returning an error leaves the connection closed; what it put on
    the wire before the fatal answer is a prefix of the requested range, appended as one block. -/
theorem c01_error_sendfile (g : Cfg) (s : S) (off len : Nat) (ks : List KAns) (hr : Reach g s)
    (he : (sendfile g s off len ks).2.err ≠ .none) :
    (sendfile g s off len ks).1.closed = true ∧
    ∃ p, p <+: fileRange g off (sendRange g off len) ∧
      (sendfile g s off len ks).1.accepted = s.accepted ++ p ∧ (sendfile g s off len ks).1.wire = s.wire ++ p := by
  have hd := (reach_inv hr).1
  unfold sendfile at he ⊢
  rw [if_neg (by simp [hd.nohang])] at he ⊢
  split
  · rename_i hc; exact ⟨hc, [], List.nil_prefix, by simp, by simp⟩
  · rw [if_neg (by assumption)] at he
    simp only at he ⊢
    split
    · rename_i h0; rw [if_pos h0] at he; simp at he
    · rename_i h0
      rw [if_neg h0] at he
      split
      · rename_i hq; rw [if_pos hq] at he; simp at he
      · rename_i hq
        rw [if_neg hq] at he
        split
        · rename_i hf
          obtain ⟨h1, p, h2, h3⟩ := (sendfileLoop_ret g ks s off (sendRange g off len)).2 hf
          exact ⟨h1, p, h2, h3.acc, h3.wire⟩
        · rename_i hf; rw [if_neg hf] at he; simp at he

/-- **C01 (no interleaving, order).** Every step appends one block to the accepted stream and one block
    to the wire; handling an event (flush) accepts nothing. Since each call is one step (the whole method
    runs under the connection mutex), the bytes of one call are contiguous in the accepted stream, and by
    `c01_integrity` they reach the wire in that order. -/
theorem c01_flush_transmits_only (g : Cfg) (s : S) (ks : List KAns) :
    (flush g s ks).accepted = s.accepted ∧ ∃ w, (flush g s ks).wire = s.wire ++ w := by
  obtain ⟨⟨w, he⟩, _⟩ := flush_eff g s ks
  exact ⟨by simpa using he.acc, w, he.wire⟩

/-! ### non-vacuity -/

/-- a small configuration: LT, no bound, a 10-byte file 0,1,…,9 -/
def g0 : Cfg := ⟨.lt, 0, 10, fun i => UInt8.ofNat i⟩

/-- a backlog of buffer and file data, partly transmitted: the invariant's three parts are all non-empty -/
example :
    let s := run g0 init [.register, .write [1, 2, 3, 4] [.wrote 1], .sendfile 2 3 [], .writev [[5], [], [6, 7]] [.eagain],
      .evTake true false false [.wrote 2, .eagain], .evEnd]
    s.closed = false ∧ s.wire = [1, 2, 3] ∧ pending g0 s.wl = [4, 2, 3, 4, 5, 6, 7] ∧
    s.accepted = [1, 2, 3, 4, 2, 3, 4, 5, 6, 7] := by decide

/-- `Write` with a short direct write returns the full length without error -/
example : (write g0 (run g0 init [.register]) [1, 2, 3] (.wrote 1)).2 = ⟨3, .none⟩ := by decide
/-- `Write` failing fatally -/
example : (write g0 (run g0 init [.register]) [1, 2, 3] .fail).2 = ⟨-1, .io⟩ := by decide
/-- `Writev` with a partial direct write that ends inside the first buffer -/
example : (writev g0 (run g0 init [.register]) [[1, 2], [3], [4, 5]] (.wrote 1)).2 = ⟨5, .none⟩ := by decide
example : (writev g0 (run g0 init [.register]) [[1, 2], [3]] .fail).2 = ⟨0, .io⟩ := by decide
/-- `Sendfile` sending part directly, queueing the rest; and failing after a partial transfer -/
example : (sendfile g0 (run g0 init [.register]) 2 5 [.wrote 2, .eagain]).2 = ⟨5, .none⟩ ∧ KWF [.wrote 2, .eagain] := by
  decide
example : (sendfile g0 (run g0 init [.register]) 2 5 [.wrote 2, .fail]).2 = ⟨0, .io⟩ ∧
    (sendfile g0 (run g0 init [.register]) 2 5 [.wrote 2, .fail]).1.wire = [2, 3] := by decide

end ConnFull
