import NbioVerif.Model.ConnFull
/-! C01 outbound stream integrity (first instalment; the invariants follow) -/
namespace ConnFull

/-- a Write on a closed connection changes nothing -/
theorem c01_closed_write (g : Cfg) (s : S) (b : Bytes) (k : KAns) (hh : s.hung = false) (hc : s.closed = true) :
    (write g s b k) = (s, ⟨-1, .closed⟩) := by
  simp [write, hh, hc]

end ConnFull
