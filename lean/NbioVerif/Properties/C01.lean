import NbioVerif.Lemmas.ConnFlush
/-!
# C01 Outbound stream integrity

Model: `ConnFull` (Model/ConnFull.lean) — `Write`, `Writev`, `Sendfile`, `flush`, registration and the
poller's event handling of nbio's `Conn`, one step per critical section, kernel answers as inputs.
`s.wire` is what the (simulated) kernel accepted, i.e. what the peer receives; the ghost `s.accepted` is
the concatenation, in call order, of the byte ranges the calls reported as accepted.

All statements hold for every configuration (epoll mode, bound, file), every op sequence and every
kernel answer sequence; only the return-value theorem of `Sendfile` needs the well-formedness of the
answers (`KWF`: a non-empty request is never answered "0 bytes, no error", which for sendfile(2) means
that the source file was truncated).
-/
namespace ConnFull

/-- reachable states: any sequence of steps from the fresh connection -/
def Reach (g : Cfg) (s : S) : Prop := ∃ ops, s = run g init ops

theorem reach_inv {g : Cfg} {s : S} (h : Reach g s) : InvD g s ∧ InvA g s := by
  obtain ⟨ops, rfl⟩ := h
  exact inv_run g ops init (invD_init g) (invA_init g) invT_init

theorem reach_invT {g : Cfg} {s : S} (h : Reach g s) : InvT s := by
  obtain ⟨ops, rfl⟩ := h
  exact invT_run g ops init invT_init

theorem reach_step {g : Cfg} {s : S} (h : Reach g s) (op : Op) : Reach g (step g s op) := by
  obtain ⟨ops, rfl⟩ := h
  exact ⟨ops ++ [op], by simp [run]⟩

/-- **C01 (integrity).** While the connection is open, the bytes the kernel got followed by the bytes
    still queued (buffers and file ranges, in queue order) are exactly the bytes the calls accepted, in
    call order: nothing lost, duplicated, reordered or altered, however the kernel split, delayed or
    refused the individual writes. After a close the peer has received a prefix of the accepted stream. -/
theorem c01_integrity (g : Cfg) (ops : List Op) :
    let s := run g init ops
    (s.closed = false → s.wire ++ pending g s.wl = s.accepted) ∧ s.wire <+: s.accepted := by
  have h := (reach_inv (g := g) ⟨ops, rfl⟩).1
  exact ⟨h.integ, h.pref⟩

/-- **C01 (drained).** An open connection with an empty queue has transmitted everything it accepted. -/
theorem c01_drained (g : Cfg) (ops : List Op) :
    let s := run g init ops
    s.closed = false → s.wl = [] → s.wire = s.accepted := by
  intro s hc hw
  have h := (reach_inv (g := g) ⟨ops, rfl⟩).1.integ hc
  rw [hw] at h; simpa [pending] using h

/-- **C01 (Write returns).** `Write` returning no error has accepted its whole input and reports that
    length; the block is appended to the accepted stream in one piece, and what goes to the kernel
    directly is a prefix of it. -/
theorem c01_return_write_inv (g : Cfg) (s : S) (b : Bytes) (k : KAns) (hd : InvD g s)
    (he : (write g s b k).2.err = .none) :
    (write g s b k).2.n = b.length ∧ (write g s b k).1.accepted = s.accepted ++ b ∧
    ∃ sent, sent <+: b ∧ (write g s b k).1.wire = s.wire ++ sent := by
  unfold write at he ⊢
  rw [if_neg (by simp [hd.nohang])] at he ⊢
  split at he
  · simp at he
  · rw [if_neg (by assumption)]
    obtain ⟨f1, f2, f3, _, _⟩ := finishCall_eff g (writeInner g s b k)
    rw [f1] at he ⊢
    obtain ⟨r1, _, sent, r3, r4⟩ := (writeInner_ret g s b k hd.pos).1 he
    exact ⟨r1, by rw [f2, r4.acc], sent, r3, by rw [f3, r4.wire]⟩

theorem c01_return_write (g : Cfg) (s : S) (b : Bytes) (k : KAns) (hr : Reach g s)
    (he : (write g s b k).2.err = .none) :
    (write g s b k).2.n = b.length ∧ (write g s b k).1.accepted = s.accepted ++ b ∧
    ∃ sent, sent <+: b ∧ (write g s b k).1.wire = s.wire ++ sent := by
  have hd := (reach_inv hr).1
  unfold write at he ⊢
  rw [if_neg (by simp [hd.nohang])] at he ⊢
  split at he
  · simp at he
  · rw [if_neg (by assumption)]
    obtain ⟨f1, f2, f3, _, _⟩ := finishCall_eff g (writeInner g s b k)
    rw [f1] at he ⊢
    obtain ⟨r1, _, sent, r3, r4⟩ := (writeInner_ret g s b k hd.pos).1 he
    exact ⟨r1, by rw [f2, r4.acc], sent, r3, by rw [f3, r4.wire]⟩

/-- **C01 (Write fails).** `Write` returning an error has accepted nothing and sent nothing, and the
    connection is closed. -/
theorem c01_error_write_inv (g : Cfg) (s : S) (b : Bytes) (k : KAns) (hd : InvD g s)
    (he : (write g s b k).2.err ≠ .none) :
    (write g s b k).1.accepted = s.accepted ∧ (write g s b k).1.wire = s.wire ∧ (write g s b k).1.closed = true := by
  unfold write at he ⊢
  rw [if_neg (by simp [hd.nohang])] at he ⊢
  split
  · rename_i hc; exact ⟨rfl, rfl, hc⟩
  · rw [if_neg (by assumption)] at he
    obtain ⟨f1, f2, f3, f4, _⟩ := finishCall_eff g (writeInner g s b k)
    rw [f1] at he
    have := (writeInner_ret g s b k hd.pos).2 he
    exact ⟨by rw [f2, this], by rw [f3, this], f4 he⟩

theorem c01_error_write (g : Cfg) (s : S) (b : Bytes) (k : KAns) (hr : Reach g s)
    (he : (write g s b k).2.err ≠ .none) :
    (write g s b k).1.accepted = s.accepted ∧ (write g s b k).1.wire = s.wire ∧ (write g s b k).1.closed = true := by
  have hd := (reach_inv hr).1
  unfold write at he ⊢
  rw [if_neg (by simp [hd.nohang])] at he ⊢
  split
  · rename_i hc; exact ⟨rfl, rfl, hc⟩
  · rw [if_neg (by assumption)] at he
    obtain ⟨f1, f2, f3, f4, _⟩ := finishCall_eff g (writeInner g s b k)
    rw [f1] at he
    have := (writeInner_ret g s b k hd.pos).2 he
    exact ⟨by rw [f2, this], by rw [f3, this], f4 he⟩

/-- **C01 (Writev returns).** As `Write`, for the concatenation of the buffers (also after a partial
    direct `writev`, and when the kernel refuses it with EAGAIN/EINTR). -/
theorem c01_return_writev_inv (g : Cfg) (s : S) (bs : List Bytes) (k : KAns) (hd : InvD g s)
    (he : (writev g s bs k).2.err = .none) :
    (writev g s bs k).2.n = total bs ∧ (writev g s bs k).1.accepted = s.accepted ++ bs.flatten ∧
    ∃ sent, sent <+: bs.flatten ∧ (writev g s bs k).1.wire = s.wire ++ sent := by
  rw [writev_eq] at he ⊢
  rw [if_neg (by simp [hd.nohang])] at he ⊢
  split at he
  · simp at he
  · rw [if_neg (by assumption)]
    obtain ⟨f1, f2, f3, _, _⟩ := finishCall_eff g (writevCore g s bs k)
    rw [f1] at he ⊢
    obtain ⟨r1, _, sent, r3, r4⟩ := (writevCore_ret g s bs k hd.pos).1 he
    exact ⟨r1, by rw [f2, r4.acc], sent, r3, by rw [f3, r4.wire]⟩

theorem c01_return_writev (g : Cfg) (s : S) (bs : List Bytes) (k : KAns) (hr : Reach g s)
    (he : (writev g s bs k).2.err = .none) :
    (writev g s bs k).2.n = total bs ∧ (writev g s bs k).1.accepted = s.accepted ++ bs.flatten ∧
    ∃ sent, sent <+: bs.flatten ∧ (writev g s bs k).1.wire = s.wire ++ sent := by
  have hd := (reach_inv hr).1
  rw [writev_eq] at he ⊢
  rw [if_neg (by simp [hd.nohang])] at he ⊢
  split at he
  · simp at he
  · rw [if_neg (by assumption)]
    obtain ⟨f1, f2, f3, _, _⟩ := finishCall_eff g (writevCore g s bs k)
    rw [f1] at he ⊢
    obtain ⟨r1, _, sent, r3, r4⟩ := (writevCore_ret g s bs k hd.pos).1 he
    exact ⟨r1, by rw [f2, r4.acc], sent, r3, by rw [f3, r4.wire]⟩

/-- **C01 (Writev fails).** -/
theorem c01_error_writev_inv (g : Cfg) (s : S) (bs : List Bytes) (k : KAns) (hd : InvD g s)
    (he : (writev g s bs k).2.err ≠ .none) :
    (writev g s bs k).1.accepted = s.accepted ∧ (writev g s bs k).1.wire = s.wire ∧ (writev g s bs k).1.closed = true := by
  rw [writev_eq] at he ⊢
  rw [if_neg (by simp [hd.nohang])] at he ⊢
  split
  · rename_i hc; exact ⟨rfl, rfl, hc⟩
  · rw [if_neg (by assumption)] at he
    obtain ⟨f1, f2, f3, f4, _⟩ := finishCall_eff g (writevCore g s bs k)
    rw [f1] at he
    have := (writevCore_ret g s bs k hd.pos).2 he
    exact ⟨by rw [f2, this], by rw [f3, this], f4 he⟩

theorem c01_error_writev (g : Cfg) (s : S) (bs : List Bytes) (k : KAns) (hr : Reach g s)
    (he : (writev g s bs k).2.err ≠ .none) :
    (writev g s bs k).1.accepted = s.accepted ∧ (writev g s bs k).1.wire = s.wire ∧ (writev g s bs k).1.closed = true := by
  have hd := (reach_inv hr).1
  rw [writev_eq] at he ⊢
  rw [if_neg (by simp [hd.nohang])] at he ⊢
  split
  · rename_i hc; exact ⟨rfl, rfl, hc⟩
  · rw [if_neg (by assumption)] at he
    obtain ⟨f1, f2, f3, f4, _⟩ := finishCall_eff g (writevCore g s bs k)
    rw [f1] at he
    have := (writevCore_ret g s bs k hd.pos).2 he
    exact ⟨by rw [f2, this], by rw [f3, this], f4 he⟩

/-- **C01 (Sendfile returns).** `Sendfile` returning no error has accepted the whole file range
    (`sendRange`: the requested length, clamped to the end of the file) and reports its length. -/
theorem c01_return_sendfile_inv (g : Cfg) (s : S) (off len : Nat) (ks : List KAns) (hd : InvD g s) (hk : KWF ks)
    (he : (sendfile g s off len ks).2.err = .none) :
    (sendfile g s off len ks).2.n = sendRange g off len ∧
    (sendfile g s off len ks).1.accepted = s.accepted ++ fileRange g off (sendRange g off len) ∧
    ∃ sent, sent <+: fileRange g off (sendRange g off len) ∧ (sendfile g s off len ks).1.wire = s.wire ++ sent := by
  unfold sendfile at he ⊢
  rw [if_neg (by simp [hd.nohang])] at he ⊢
  split at he
  · simp at he
  · rw [if_neg (by assumption)]
    simp only at he ⊢
    split
    · rename_i h0
      simp [h0, fileRange_zero]
    · split
      · exact ⟨rfl, rfl, [], List.nil_prefix, by simp [enqueueFile, pushItem]⟩
      · rename_i hr0 hq
        rw [if_neg hr0, if_neg hq] at he
        split at he
        · simp at he
        · rename_i hf
          rw [if_neg hf]
          obtain ⟨_, sent, h1, h2⟩ := (sendfileLoop_ret g ks s off (sendRange g off len)).1 (by simpa using hf) hk
          exact ⟨rfl, h2.acc, sent, h1, h2.wire⟩

theorem c01_return_sendfile (g : Cfg) (s : S) (off len : Nat) (ks : List KAns) (hr : Reach g s) (hk : KWF ks)
    (he : (sendfile g s off len ks).2.err = .none) :
    (sendfile g s off len ks).2.n = sendRange g off len ∧
    (sendfile g s off len ks).1.accepted = s.accepted ++ fileRange g off (sendRange g off len) ∧
    ∃ sent, sent <+: fileRange g off (sendRange g off len) ∧ (sendfile g s off len ks).1.wire = s.wire ++ sent := by
  have hd := (reach_inv hr).1
  unfold sendfile at he ⊢
  rw [if_neg (by simp [hd.nohang])] at he ⊢
  split at he
  · simp at he
  · rw [if_neg (by assumption)]
    simp only at he ⊢
    split
    · rename_i h0
      simp [h0, fileRange_zero]
    · split
      · exact ⟨rfl, rfl, [], List.nil_prefix, by simp [enqueueFile, pushItem]⟩
      · rename_i hr0 hq
        rw [if_neg hr0, if_neg hq] at he
        split at he
        · simp at he
        · rename_i hf
          rw [if_neg hf]
          obtain ⟨_, sent, h1, h2⟩ := (sendfileLoop_ret g ks s off (sendRange g off len)).1 (by simpa using hf) hk
          exact ⟨rfl, h2.acc, sent, h1, h2.wire⟩

/-- **C01 (Sendfile fails).** `Sendfile` returning an error leaves the connection closed; what it put on
    the wire before the fatal answer is a prefix of the requested range, appended as one block. -/
theorem c01_error_sendfile_inv (g : Cfg) (s : S) (off len : Nat) (ks : List KAns) (hd : InvD g s)
    (he : (sendfile g s off len ks).2.err ≠ .none) :
    (sendfile g s off len ks).1.closed = true ∧
    ∃ p, p <+: fileRange g off (sendRange g off len) ∧
      (sendfile g s off len ks).1.accepted = s.accepted ++ p ∧ (sendfile g s off len ks).1.wire = s.wire ++ p := by
  unfold sendfile at he ⊢
  rw [if_neg (by simp [hd.nohang])] at he ⊢
  split
  · rename_i hc; exact ⟨hc, [], List.nil_prefix, by simp, by simp⟩
  · rw [if_neg (by assumption)] at he
    simp only at he ⊢
    split
    · rename_i h0; rw [if_pos h0] at he; simp at he
    · rename_i h0
      rw [if_neg h0] at he
      split
      · rename_i hq; rw [if_pos hq] at he; simp at he
      · rename_i hq
        rw [if_neg hq] at he
        split
        · rename_i hf
          obtain ⟨h1, p, h2, h3⟩ := (sendfileLoop_ret g ks s off (sendRange g off len)).2 hf
          exact ⟨h1, p, h2, h3.acc, h3.wire⟩
        · rename_i hf; rw [if_neg hf] at he; simp at he

theorem c01_error_sendfile (g : Cfg) (s : S) (off len : Nat) (ks : List KAns) (hr : Reach g s)
    (he : (sendfile g s off len ks).2.err ≠ .none) :
    (sendfile g s off len ks).1.closed = true ∧
    ∃ p, p <+: fileRange g off (sendRange g off len) ∧
      (sendfile g s off len ks).1.accepted = s.accepted ++ p ∧ (sendfile g s off len ks).1.wire = s.wire ++ p := by
  have hd := (reach_inv hr).1
  unfold sendfile at he ⊢
  rw [if_neg (by simp [hd.nohang])] at he ⊢
  split
  · rename_i hc; exact ⟨hc, [], List.nil_prefix, by simp, by simp⟩
  · rw [if_neg (by assumption)] at he
    simp only at he ⊢
    split
    · rename_i h0; rw [if_pos h0] at he; simp at he
    · rename_i h0
      rw [if_neg h0] at he
      split
      · rename_i hq; rw [if_pos hq] at he; simp at he
      · rename_i hq
        rw [if_neg hq] at he
        split
        · rename_i hf
          obtain ⟨h1, p, h2, h3⟩ := (sendfileLoop_ret g ks s off (sendRange g off len)).2 hf
          exact ⟨h1, p, h2, h3.acc, h3.wire⟩
        · rename_i hf; rw [if_neg hf] at he; simp at he

/-! ### Sendfile while dup(2) of the source descriptor fails -/

theorem denyDup_cons (k : KAns) (ks : List KAns) :
    denyDup (k :: ks) = denyDup1 k :: denyDup ks := by
  simp [denyDup]

theorem kwf_denyDup {ks : List KAns} (h : KWF ks) : KWF (denyDup ks) := by
  intro k hk
  simp only [denyDup, List.mem_append, List.mem_map, List.mem_singleton] at hk
  rcases hk with ⟨k', hk', rfl⟩ | rfl
  · have := h k' hk'
    cases k' <;> simp_all [denyDup1]
  · simp

/-- a call of `Sendfile` during which dup(2) fails is a stutter or the op `.sendfile off len (denyDup ks)` of the
    alphabet: every theorem over `run` / `Reach` covers it -/
theorem sendfileNoDup_step (g : Cfg) (s : S) (off len : Nat) (ks : List KAns) :
    (sendfileNoDupOp g s off len ks).1 = s ∨
    (sendfileNoDupOp g s off len ks).1 = step g s (.sendfile off len (denyDup ks)) := by
  unfold sendfileNoDupOp
  split
  · exact Or.inl rfl
  · exact Or.inr rfl

theorem reach_sendfileNoDup {g : Cfg} {s : S} (h : Reach g s) (off len : Nat) (ks : List KAns) :
    Reach g (sendfileNoDupOp g s off len ks).1 := by
  rcases sendfileNoDup_step g s off len ks with e | e <;> rw [e]
  · exact h
  · exact reach_step h _

/-- without a duplicate of the descriptor the direct loop can not queue the rest of the range: it ends with
    the queue it found, or with a fatal error -/
theorem sendfileLoop_denyDup_wl (g : Cfg) (ks : List KAns) : ∀ (s : S) (off rem : Nat),
    (sendfileLoop g s off rem (denyDup ks)).2 = false →
    (sendfileLoop g s off rem (denyDup ks)).1.wl = s.wl ∧ (sendfileLoop g s off rem (denyDup ks)).1.closed = s.closed := by
  induction ks with
  | nil =>
    intro s off rem h
    have e : denyDup [] = [.fail] := by simp [denyDup]
    rw [e] at h ⊢
    unfold sendfileLoop at h ⊢
    by_cases h0 : rem = 0
    · simp [h0]
    · simp [h0] at h
  | cons k ks ih =>
    intro s off rem h
    rw [denyDup_cons] at h ⊢
    unfold sendfileLoop at h ⊢
    by_cases h0 : rem = 0
    · simp [h0]
    · rw [if_neg h0] at h ⊢
      cases k with
      | eagain => simp [denyDup1] at h
      | fail => simp [denyDup1] at h
      | eintr => exact ih s off rem h
      | wrote n0 =>
        simp only [denyDup1] at h ⊢
        by_cases hn : min n0 (min maxSendfile rem) = 0
        · simp [hn]
        · rw [if_neg hn] at h ⊢
          exact ih _ _ _ h

/-- **C01 (Sendfile, dup(2) fails).** Fixed code. A call that returns no error reports the whole range, the
    range is appended to the accepted stream and nothing of it is queued (the queue and the open/closed flag are
    as found): by `c01_integrity` all of it is on the wire. A call that returns an error reports 0 and either
    left the connection exactly as it was (the call came behind a backlog) or closed it, having transmitted
    precisely what it added to the accepted stream. (Pinned code: after EAGAIN the remainder was dropped and
    the whole range reported as sent, `corpus/conn/defects.ops`.) -/
theorem c01_sendfile_nodup (g : Cfg) (s : S) (off len : Nat) (ks : List KAns) (hr : Reach g s) (hk : KWF ks) :
    let r := sendfileNoDupOp g s off len ks
    (r.2.err = .none →
      r.2.n = sendRange g off len ∧ r.1.accepted = s.accepted ++ fileRange g off (sendRange g off len) ∧
      r.1.wl = s.wl ∧ r.1.closed = s.closed) ∧
    (r.2.err ≠ .none →
      r.2.n = 0 ∧ (r.1 = s ∨ (r.1.closed = true ∧ ∃ p, p <+: fileRange g off (sendRange g off len) ∧
        r.1.accepted = s.accepted ++ p ∧ r.1.wire = s.wire ++ p))) := by
  have hd := (reach_inv hr).1
  intro r
  show (_ → _) ∧ (_ → _)
  by_cases hb : (!s.hung && !s.closed && sendRange g off len != 0 && !s.wl.isEmpty) = true
  · have e : r = (s, ⟨0, .io⟩) := by simp only [r, sendfileNoDupOp, hb, if_true]
    rw [e]
    exact ⟨fun h => by simp at h, fun _ => ⟨rfl, Or.inl rfl⟩⟩
  · have e : r = sendfileOp g s off len (denyDup ks) := by simp only [r, sendfileNoDupOp, hb]; rfl
    rw [e]
    have e1 : (sendfileOp g s off len (denyDup ks)).2 = (sendfile g s off len (denyDup ks)).2 := rfl
    have ea : (sendfileOp g s off len (denyDup ks)).1.accepted = (sendfile g s off len (denyDup ks)).1.accepted := rfl
    have ew : (sendfileOp g s off len (denyDup ks)).1.wire = (sendfile g s off len (denyDup ks)).1.wire := rfl
    have el : (sendfileOp g s off len (denyDup ks)).1.wl = (sendfile g s off len (denyDup ks)).1.wl := rfl
    have ec : (sendfileOp g s off len (denyDup ks)).1.closed = (sendfile g s off len (denyDup ks)).1.closed := rfl
    refine ⟨fun he => ?_, fun he => ?_⟩
    · rw [e1] at he ⊢
      rw [ea, el, ec]
      obtain ⟨h1, h2, _⟩ := c01_return_sendfile g s off len (denyDup ks) hr (kwf_denyDup hk) he
      refine ⟨h1, h2, ?_⟩
      unfold sendfile at he ⊢
      rw [if_neg (by simp [hd.nohang])] at he ⊢
      by_cases hc : s.closed = true
      · rw [if_pos hc] at he; simp at he
      · rw [if_neg hc] at he ⊢
        simp only at he ⊢
        by_cases h0 : sendRange g off len = 0
        · rw [if_pos h0]; exact ⟨rfl, rfl⟩
        · rw [if_neg h0] at he ⊢
          have hq : (!s.wl.isEmpty) = false := by
            simp only [hd.nohang, Bool.not_false, Bool.true_and] at hb
            cases hw : s.wl.isEmpty <;> simp_all
          rw [if_neg (by simp [hq])] at he ⊢
          by_cases hf : (sendfileLoop g s off (sendRange g off len) (denyDup ks)).2 = true
          · rw [if_pos hf] at he; simp at he
          · rw [if_neg hf]
            exact sendfileLoop_denyDup_wl g ks s off _ (by simpa using hf)
    · rw [e1] at he ⊢
      rw [ea, ew, ec]
      have h := c01_error_sendfile g s off len (denyDup ks) hr he
      refine ⟨?_, Or.inr h⟩
      unfold sendfile at he ⊢
      split
      · rfl
      · split
        · rfl
        · simp only at he ⊢
          split
          · rfl
          · split
            · simp_all
            · split
              · rfl
              · simp_all

/-- **C01 (no interleaving, order).** Every step appends one block to the accepted stream and one block
    to the wire; handling an event (flush) accepts nothing. Since each call is one step (the whole method
    runs under the connection mutex), the bytes of one call are contiguous in the accepted stream, and by
    `c01_integrity` they reach the wire in that order. -/
theorem c01_flush_transmits_only (g : Cfg) (s : S) (ks : List KAns) :
    (flush g s ks).accepted = s.accepted ∧ ∃ w, (flush g s ks).wire = s.wire ++ w := by
  obtain ⟨⟨w, he⟩, _⟩ := flush_eff g s ks
  exact ⟨by simpa using he.acc, w, he.wire⟩

/-! ### the ghost `accepted` is what the calls reported -/

/-- the byte range a call REPORTED as accepted, computed from the model's return value `(n, err)` alone
    (not from the ghost): the first `n` bytes of its input when it returned no error, nothing otherwise -/
def reportedOf (g : Cfg) (s : S) : Op → Bytes
  | .write b ks => if (writeOp g s b ks).2.err = .none then b.take (writeOp g s b ks).2.n.toNat else []
  | .writev bs ks => if (writevOp g s bs ks).2.err = .none then bs.flatten.take (writevOp g s bs ks).2.n.toNat else []
  | .sendfile off len ks =>
    if (sendfileOp g s off len ks).2.err = .none then fileRange g off (sendfileOp g s off len ks).2.n.toNat else []
  | _ => []

/-- the concatenation, in op order, of the reported ranges of a run -/
def reported (g : Cfg) (s : S) : List Op → Bytes
  | [] => []
  | op :: ops => reportedOf g s op ++ reported g (step g s op) ops

/-- kernel answers of the run are well formed (sendfile(2) never reports 0 bytes without an error on a
    non-empty request: the source file is not truncated) -/
def OpsWF : List Op → Prop
  | [] => True
  | .sendfile _ _ ks :: ops => KWF ks ∧ OpsWF ops
  | _ :: ops => OpsWF ops

theorem closed_step (g : Cfg) (s : S) (op : Op) (hc : s.closed = true) : (step g s op).closed = true := by
  by_cases hop : op = .teardown
  · subst hop; simp only [step, teardown]; split <;> exact hc
  · have := frozen_step g s op hc hop
    simp only [Z, Prod.mk.injEq] at this
    rw [this.1]; exact hc

theorem closed_run (g : Cfg) (ops : List Op) : ∀ s : S, s.closed = true → (run g s ops).closed = true := by
  induction ops with
  | nil => intro s h; exact h
  | cons op ops ih => intro s h; exact ih _ (closed_step g s op h)

theorem accepted_evEnd (g : Cfg) (s : S) : (evEnd g s).accepted = s.accepted := by
  unfold evEnd
  split
  · rfl
  · simp only
    have h0 : (if s.connEv = true then cResetRead g { s with connecting := false, connEv := false } else s).accepted = s.accepted := by
      split
      · have := D_cResetRead g { s with connecting := false, connEv := false }
        simp only [D, Prod.mk.injEq] at this; exact this.2.2.2.2.2
      · rfl
    generalize (if s.connEv = true then cResetRead g { s with connecting := false, connEv := false } else s) = s0 at h0 ⊢
    have h1 : (if s0.rearm = true then resetPollerEvent g { s0 with rearm := false } else s0).accepted = s.accepted := by
      split
      · have := D_resetPollerEvent g { s0 with rearm := false }
        simp only [D, Prod.mk.injEq] at this; rw [this.2.2.2.2.2]; exact h0
      · exact h0
    generalize (if s0.rearm = true then resetPollerEvent g { s0 with rearm := false } else s0) = t at h1 ⊢
    split
    · split <;> exact h1
    · exact h1

/-- one step appends exactly the range its return value reports (if the connection is open afterwards) -/
def Op.isCall : Op → Bool
  | .write _ _ => true
  | .writev _ _ => true
  | .sendfile _ _ _ => true
  | _ => false

theorem step_reported (g : Cfg) (s : S) (op : Op) (hd : InvD g s) (ho : op.isCall = true → (step g s op).closed = false)
    (hwf : OpsWF [op]) : (step g s op).accepted = s.accepted ++ reportedOf g s op := by
  cases op with
  | write b ks =>
    have ho' : (write g s b (directAns ks)).1.closed = false := ho rfl
    show (write g s b (directAns ks)).1.accepted = s.accepted ++
      (if (write g s b (directAns ks)).2.err = .none then b.take (write g s b (directAns ks)).2.n.toNat else [])
    by_cases he : (write g s b (directAns ks)).2.err = .none
    · obtain ⟨h1, h2, _⟩ := c01_return_write_inv g s b _ hd he
      rw [if_pos he, h2, h1]; simp
    · have := (c01_error_write_inv g s b _ hd he).2.2
      rw [this] at ho'; exact absurd ho' (by simp)
  | writev bs ks =>
    have ho' : (writev g s bs (directAns ks)).1.closed = false := ho rfl
    show (writev g s bs (directAns ks)).1.accepted = s.accepted ++
      (if (writev g s bs (directAns ks)).2.err = .none then bs.flatten.take (writev g s bs (directAns ks)).2.n.toNat else [])
    by_cases he : (writev g s bs (directAns ks)).2.err = .none
    · obtain ⟨h1, h2, _⟩ := c01_return_writev_inv g s bs _ hd he
      rw [if_pos he, h2, h1]
      have : bs.flatten.take (total bs) = bs.flatten := by
        rw [← flatten_length_total]; exact List.take_length
      simp [this]
    · have := (c01_error_writev_inv g s bs _ hd he).2.2
      rw [this] at ho'; exact absurd ho' (by simp)
  | sendfile off len ks =>
    have ho' : (sendfile g s off len ks).1.closed = false := ho rfl
    have hk : KWF ks := hwf.1
    show (sendfile g s off len ks).1.accepted = s.accepted ++
      (if (sendfile g s off len ks).2.err = .none then fileRange g off (sendfile g s off len ks).2.n.toNat else [])
    by_cases he : (sendfile g s off len ks).2.err = .none
    · obtain ⟨h1, h2, _⟩ := c01_return_sendfile_inv g s off len ks hd hk he
      rw [if_pos he, h2, h1]; simp
    · have := (c01_error_sendfile_inv g s off len ks hd he).1
      rw [this] at ho'; exact absurd ho' (by simp)
  | register =>
    show (register g s).accepted = s.accepted ++ []
    have := (invD_register g s hd)
    unfold register
    split
    · simp
    · split
      · have := D_pAddRead g s; simp only [D, Prod.mk.injEq] at this; simp [this.2.2.2.2.2]
      · have := D_pAddReadWrite g s; simp only [D, Prod.mk.injEq] at this; simp [this.2.2.2.2.2]
  | registerDial =>
    show (registerDial g s).accepted = s.accepted ++ []
    unfold registerDial
    split
    · simp
    · have := D_pAddReadWrite g { s with isWAdded := true, connecting := true }
      simp only [D, Prod.mk.injEq] at this; simp [this.2.2.2.2.2]
  | registerDialNow =>
    show (registerDialNow g s).accepted = s.accepted ++ []
    unfold registerDialNow
    split
    · simp
    · have := D_pAddReadWrite g { s with isWAdded := true, idle := true }
      simp only [D, Prod.mk.injEq] at this; simp [this.2.2.2.2.2]
  | evTake o0 i e ks =>
    show (evTake g s (o0 && (g.mode != .et || s.edgeDue)) i e ks).accepted = s.accepted ++ []
    generalize (o0 && (g.mode != .et || s.edgeDue)) = o
    unfold evTake
    simp only
    split
    · simp
    · have h1 : (if (g.mode == Mode.oneshot) = true then { s with disarmed := true } else s).accepted = s.accepted := by
        split <;> rfl
      generalize (if (g.mode == Mode.oneshot) = true then { s with disarmed := true } else s) = s1 at h1 ⊢
      show (if (deliverable s o i e).1 = true then (if s1.connecting = true then { s1 with connEv := true } else flush g s1 ks) else s1).accepted = s.accepted ++ []
      split
      · split
        · simpa using h1
        · rw [(c01_flush_transmits_only g s1 ks).1]; simpa using h1
      · simpa using h1
  | evEnd => show (evEnd g s).accepted = s.accepted ++ []; rw [accepted_evEnd]; simp
  | evConnEnd =>
    show (evConnEnd g s).accepted = s.accepted ++ []
    unfold evConnEnd
    split
    · simp
    · split
      · have := D_cResetRead g { s with connecting := false, connEv := false }
        simp only [D, Prod.mk.injEq] at this; simp [this.2.2.2.2.2]
      · simp
  | evRearm =>
    show (evRearm g s).accepted = s.accepted ++ []
    unfold evRearm
    split
    · simp
    · split
      · have := D_resetPollerEvent g { s with rearm := false }
        simp only [D, Prod.mk.injEq] at this; simp [this.2.2.2.2.2]
      · simp
  | evErrClose =>
    show (evErrClose s).accepted = s.accepted ++ []
    unfold evErrClose
    split
    · simp
    · split
      · split <;> simp [flipWE, flip, stopTimer]
      · simp
  | flipClosed =>
    show (flipClosed s).accepted = s.accepted ++ []
    unfold flipClosed; split <;> simp [flipWE, flip, stopTimer]
  | teardown =>
    show (teardown s).accepted = s.accepted ++ []
    unfold teardown; split <;> simp
  | setWriteDeadline z =>
    show (setWriteDeadline s z).accepted = s.accepted ++ []
    unfold setWriteDeadline; split <;> simp
  | timerExpire =>
    show (timerExpire s).accepted = s.accepted ++ []
    unfold timerExpire; split <;> simp
  | timerFire =>
    show (timerFire s).accepted = s.accepted ++ []
    unfold timerFire; split
    · simp
    · split <;> simp [flipWE, flip, stopTimer]

theorem opsWF_cons (op : Op) (ops : List Op) (h : OpsWF (op :: ops)) : OpsWF [op] ∧ OpsWF ops := by
  cases op <;> simp_all [OpsWF]

theorem run_reported (g : Cfg) (ops : List Op) : ∀ s : S, InvD g s → InvT s → (run g s ops).closed = false → OpsWF ops →
    (run g s ops).accepted = s.accepted ++ reported g s ops := by
  induction ops with
  | nil => intro s _ _ _ _; simp [run, reported]
  | cons op ops ih =>
    intro s hd ht ho hwf
    obtain ⟨hw1, hw2⟩ := opsWF_cons op ops hwf
    have hstep : (step g s op).closed = false := by
      cases h : (step g s op).closed
      · rfl
      · have := closed_run g ops _ h
        have ho' : (run g (step g s op) ops).closed = false := ho
        rw [this] at ho'; exact absurd ho' (by simp)
    have h1 := step_reported g s op hd (fun _ => hstep) hw1
    have h2 := ih (step g s op) (invD_step g s op hd ht.tp) (invT_step g s op ht) ho hw2
    show (run g (step g s op) ops).accepted = s.accepted ++ (reportedOf g s op ++ reported g (step g s op) ops)
    rw [h2, h1, List.append_assoc]

/-- one step, whatever its outcome: `accepted` grows by the range the step's return value reports plus a rest `p`
    that nobody reported; `p` is non-empty only for a `Sendfile` that fails after it has put a prefix of its range on
    the wire (it returns `(0, err)` and the connection is closed) -/
theorem step_reported_ex (g : Cfg) (s : S) (op : Op) (hd : InvD g s) (hwf : OpsWF [op]) :
    ∃ p, (step g s op).accepted = s.accepted ++ reportedOf g s op ++ p ∧
      (p ≠ [] → (step g s op).closed = true ∧
        ∃ off len ks, op = .sendfile off len ks ∧ p <+: fileRange g off (sendRange g off len)) := by
  by_cases hcall : op.isCall = true
  · cases op with
    | write b ks =>
      refine ⟨[], ?_, fun h => absurd rfl h⟩
      show (write g s b (directAns ks)).1.accepted = s.accepted ++
        (if (write g s b (directAns ks)).2.err = .none then b.take (write g s b (directAns ks)).2.n.toNat else []) ++ []
      by_cases he : (write g s b (directAns ks)).2.err = .none
      · obtain ⟨h1, h2, _⟩ := c01_return_write_inv g s b _ hd he
        rw [if_pos he, h2, h1]; simp
      · rw [if_neg he, (c01_error_write_inv g s b _ hd he).1]; simp
    | writev bs ks =>
      refine ⟨[], ?_, fun h => absurd rfl h⟩
      show (writev g s bs (directAns ks)).1.accepted = s.accepted ++
        (if (writev g s bs (directAns ks)).2.err = .none then bs.flatten.take (writev g s bs (directAns ks)).2.n.toNat else []) ++ []
      by_cases he : (writev g s bs (directAns ks)).2.err = .none
      · obtain ⟨h1, h2, _⟩ := c01_return_writev_inv g s bs _ hd he
        rw [if_pos he, h2, h1]
        have : bs.flatten.take (total bs) = bs.flatten := by
          rw [← flatten_length_total]; exact List.take_length
        simp [this]
      · rw [if_neg he, (c01_error_writev_inv g s bs _ hd he).1]; simp
    | sendfile off len ks =>
      have hk : KWF ks := hwf.1
      by_cases he : (sendfile g s off len ks).2.err = .none
      · refine ⟨[], ?_, fun h => absurd rfl h⟩
        show (sendfile g s off len ks).1.accepted = s.accepted ++
          (if (sendfile g s off len ks).2.err = .none then fileRange g off (sendfile g s off len ks).2.n.toNat else []) ++ []
        obtain ⟨h1, h2, _⟩ := c01_return_sendfile_inv g s off len ks hd hk he
        rw [if_pos he, h2, h1]; simp
      · obtain ⟨hcl, p, hp, hacc, _⟩ := c01_error_sendfile_inv g s off len ks hd he
        refine ⟨p, ?_, fun _ => ⟨hcl, off, len, ks, rfl, hp⟩⟩
        show (sendfile g s off len ks).1.accepted = s.accepted ++
          (if (sendfile g s off len ks).2.err = .none then fileRange g off (sendfile g s off len ks).2.n.toNat else []) ++ p
        rw [if_neg he, hacc]; simp
    | _ => simp [Op.isCall] at hcall
  · refine ⟨[], ?_, fun h => absurd rfl h⟩
    have := step_reported g s op hd (fun h => absurd h hcall) hwf
    simpa using this

/-- on a closed connection nothing is accepted and nothing is reported any more -/
theorem closed_tail (g : Cfg) (ops : List Op) : ∀ t : S, InvD g t → InvT t → t.closed = true → OpsWF ops →
    (run g t ops).accepted = t.accepted ∧ reported g t ops = [] := by
  induction ops with
  | nil => intro t _ _ _ _; exact ⟨rfl, rfl⟩
  | cons op ops ih =>
    intro t hd ht hc hwf
    obtain ⟨hw1, hw2⟩ := opsWF_cons op ops hwf
    have hc1 := closed_step g t op hc
    have hacc : (step g t op).accepted = t.accepted := by
      by_cases hop : op = .teardown
      · subst hop; simp only [step, teardown]; split <;> rfl
      · have hz := frozen_step g t op hc hop
        simp only [Z, Prod.mk.injEq] at hz
        exact hz.2.2.2.2.1
    obtain ⟨p, hp, _⟩ := step_reported_ex g t op hd hw1
    have hnil : reportedOf g t op ++ p = [] := by
      rw [hacc, List.append_assoc] at hp
      exact (List.self_eq_append_right.mp hp)
    have hr : reportedOf g t op = [] := (List.append_eq_nil_iff.mp hnil).1
    obtain ⟨i1, i2⟩ := ih (step g t op) (invD_step g t op hd ht.tp) (invT_step g t op ht) hc1 hw2
    refine ⟨?_, ?_⟩
    · show (run g (step g t op) ops).accepted = t.accepted
      rw [i1, hacc]
    · show reportedOf g t op ++ reported g (step g t op) ops = []
      rw [hr, i2]; rfl

theorem run_reported_ex (g : Cfg) (ops : List Op) : ∀ s : S, InvD g s → InvT s → OpsWF ops →
    ∃ p, (run g s ops).accepted = s.accepted ++ reported g s ops ++ p ∧
      (p ≠ [] → (run g s ops).closed = true ∧
        ∃ off len ks, Op.sendfile off len ks ∈ ops ∧ p <+: fileRange g off (sendRange g off len)) := by
  induction ops with
  | nil => intro s _ _ _; exact ⟨[], by simp [run, reported], fun h => absurd rfl h⟩
  | cons op ops ih =>
    intro s hd ht hwf
    obtain ⟨hw1, hw2⟩ := opsWF_cons op ops hwf
    have hd1 := invD_step g s op hd ht.tp
    have ht1 := invT_step g s op ht
    obtain ⟨p, hp, hpc⟩ := step_reported_ex g s op hd hw1
    by_cases hpn : p = []
    · subst hpn
      obtain ⟨q, hq, hqc⟩ := ih (step g s op) hd1 ht1 hw2
      refine ⟨q, ?_, fun hne => ?_⟩
      · show (run g (step g s op) ops).accepted = s.accepted ++ (reportedOf g s op ++ reported g (step g s op) ops) ++ q
        rw [hq, hp]; simp
      · obtain ⟨c, off, len, ks, hm, hpre⟩ := hqc hne
        exact ⟨c, off, len, ks, List.mem_cons_of_mem _ hm, hpre⟩
    · obtain ⟨hcl, off, len, ks, hop, hpre⟩ := hpc hpn
      obtain ⟨i1, i2⟩ := closed_tail g ops (step g s op) hd1 ht1 hcl hw2
      refine ⟨p, ?_, fun _ => ⟨closed_run g ops _ hcl, off, len, ks, by rw [hop]; exact List.mem_cons_self, hpre⟩⟩
      show (run g (step g s op) ops).accepted = s.accepted ++ (reportedOf g s op ++ reported g (step g s op) ops) ++ p
      rw [i1, i2, hp]; simp

/-- **C01 (closed connections: what the peer got against what was reported).** For every op sequence with
    well-formed sendfile(2) answers, open or closed at the end: the peer has received a prefix of
    `reported ++ p`, where `reported` is the concatenation of the ranges the calls reported through their return values
    and `p` is empty — or else (`p ≠ []`) the connection is closed and `p` is a prefix of the range of SOME
    `.sendfile` op of the sequence. The run-level statement says no more than that: that this op is the one that
    failed (returned `(0, err)`) after transmitting `p` and that it closed the connection is stated at step level only
    (`step_reported_ex`, used in the proof). `p` is the prefix the harness tolerates (`tolerate`). -/
theorem c01_wire_prefix_of_reported (g : Cfg) (ops : List Op) (hwf : OpsWF ops) :
    let s := run g init ops
    ∃ p, s.accepted = reported g init ops ++ p ∧ s.wire <+: reported g init ops ++ p ∧
      (p ≠ [] → s.closed = true ∧
        ∃ off len ks, Op.sendfile off len ks ∈ ops ∧ p <+: fileRange g off (sendRange g off len)) := by
  intro s
  obtain ⟨p, hp, hpc⟩ := run_reported_ex g ops init (invD_init g) invT_init hwf
  have hp' : s.accepted = reported g init ops ++ p := by
    show (run g init ops).accepted = reported g init ops ++ p
    have : (run g init ops).accepted = init.accepted ++ reported g init ops ++ p := hp
    simpa [init] using this
  exact ⟨p, hp', by rw [← hp']; exact (c01_integrity g ops).2, hpc⟩

/-- **C01 (accepted = reported).** While the connection is open, the ghost `accepted` of `c01_integrity` IS
    the concatenation, in call order, of the byte ranges the calls reported as accepted through their return
    values `(n, err)` — so `wire ++ pending = reported`: the peer receives exactly what was reported, each
    call's range as one contiguous block at the position of the call (no interleaving: a call is one step,
    see the critical-section predicates). Kernel answers well formed (`OpsWF`, only Sendfile needs it). -/
theorem c01_accepted_is_reported (g : Cfg) (ops : List Op) (hwf : OpsWF ops) :
    let s := run g init ops
    s.closed = false → s.accepted = reported g init ops ∧ s.wire ++ pending g s.wl = reported g init ops := by
  intro s hc
  have h := run_reported g ops init (invD_init g) invT_init hc hwf
  have h' : s.accepted = reported g init ops := by
    show (run g init ops).accepted = reported g init ops
    have : (run g init ops).accepted = init.accepted ++ reported g init ops := h
    simpa [init] using this
  exact ⟨h', by rw [← h']; exact (c01_integrity g ops).1 hc⟩

/-! ### non-vacuity -/

/-- a small configuration: LT, no bound, a 10-byte file 0,1,…,9 -/
def g0 : Cfg := ⟨.lt, 0, 10, fun i => UInt8.ofNat i⟩

/-- the one case with a non-empty unreported rest: Sendfile transmits 3 bytes, then the kernel answers with a fatal
    error; the call reports nothing, the conn is closed, the 3 bytes are on the wire (`c01_wire_prefix_of_reported`
    with `p = [0, 1, 2]`); a later call reports nothing either -/
example :
    let ops : List Op := [.register, .write [7] [.wrote 1], .sendfile 0 0 [.wrote 3, .fail], .teardown, .write [9] [.wrote 1]]
    let s := run g0 init ops
    s.closed = true ∧ reported g0 init ops = [7] ∧ s.accepted = [7, 0, 1, 2] ∧ s.wire = [7, 0, 1, 2] := by
  decide

/-- dup(2) fails: on the direct path the refused request closes the conn (3 bytes sent, 0 reported, nothing
    queued); behind a backlog the call fails and changes nothing; a range the kernel takes whole is sent -/
example :
    let s0 := run g0 init [.register]
    let a := sendfileNoDupOp g0 s0 0 0 [.wrote 3, .eagain]
    let s1 := run g0 init [.register, .write [7, 8, 9] [.wrote 1]]
    let b := sendfileNoDupOp g0 s1 2 4 []
    let c := sendfileNoDupOp g0 s0 2 4 [.wrote 9]
    a.2 = ⟨0, .io⟩ ∧ a.1.closed = true ∧ a.1.wire = [0, 1, 2] ∧ a.1.wl.length = 0 ∧
    b.2 = ⟨0, .io⟩ ∧ b.1.closed = false ∧ b.1.wl.length = 1 ∧ b.1.left = 2 ∧ b.1.accepted = s1.accepted ∧
    c.2 = ⟨4, .none⟩ ∧ c.1.closed = false ∧ c.1.wire = [2, 3, 4, 5] ∧ c.1.wl.length = 0 := by
  decide

/-- without the well-formedness the ghost and the reported stream can differ: sendfile(2) answering
    "0 bytes, no error" makes Sendfile report the whole range although nothing of the rest is sent or queued -/
theorem c01_reported_needs_wf :
    (run g0 init [.register, .sendfile 0 5 [.wrote 2, .wrote 0]]).closed = false ∧
    (run g0 init [.register, .sendfile 0 5 [.wrote 2, .wrote 0]]).accepted = [0, 1] ∧
    reported g0 init [.register, .sendfile 0 5 [.wrote 2, .wrote 0]] = [0, 1, 2, 3, 4] := by
  decide

/-- a backlog of buffer and file data, partly transmitted: the invariant's three parts are all non-empty -/
example :
    let s := run g0 init [.register, .write [1, 2, 3, 4] [.wrote 1], .sendfile 2 3 [], .writev [[5], [], [6, 7]] [.eagain],
      .evTake true false false [.wrote 2, .eagain], .evEnd]
    s.closed = false ∧ s.wire = [1, 2, 3] ∧ pending g0 s.wl = [4, 2, 3, 4, 5, 6, 7] ∧
    s.accepted = [1, 2, 3, 4, 2, 3, 4, 5, 6, 7] := by decide

/-- `Write` with a short direct write returns the full length without error -/
example : (write g0 (run g0 init [.register]) [1, 2, 3] (.wrote 1)).2 = ⟨3, .none⟩ := by decide
/-- `Write` failing fatally -/
example : (write g0 (run g0 init [.register]) [1, 2, 3] .fail).2 = ⟨-1, .io⟩ := by decide
/-- `Writev` with a partial direct write that ends inside the first buffer -/
example : (writev g0 (run g0 init [.register]) [[1, 2], [3], [4, 5]] (.wrote 1)).2 = ⟨5, .none⟩ := by decide
example : (writev g0 (run g0 init [.register]) [[1, 2], [3]] .fail).2 = ⟨0, .io⟩ := by decide
/-- `Sendfile` sending part directly, queueing the rest; and failing after a partial transfer -/
example : (sendfile g0 (run g0 init [.register]) 2 5 [.wrote 2, .eagain]).2 = ⟨5, .none⟩ ∧ KWF [.wrote 2, .eagain] := by
  decide
example : (sendfile g0 (run g0 init [.register]) 2 5 [.wrote 2, .fail]).2 = ⟨0, .io⟩ ∧
    (sendfile g0 (run g0 init [.register]) 2 5 [.wrote 2, .fail]).1.wire = [2, 3] := by decide

end ConnFull
