import NbioVerif.Lemmas.ExecQInv
/-! C05: per-connection job serialization — FIFO, one at a time, exactly once.

All theorems quantify over **every** action sequence `as` of the transition system
`ExecQ.step` (any number of submitters, any executor scheduling — the executor only decides
*when* `spawn` happens —, any interleaving of submit / job start / job end / panic / the drainer's
locked hand-over / close), for both instances (`k = .conn`: `Conn.Execute`/`MustExecute`/`execute`;
`k = .async`: `Timer.Async`, used by C19).

* `c05_one_at_a_time`       never two drainer closures, never two jobs inside `job()`, the start/end log
                            is a serial log plus at most one open start
* `c05_fifo_exactly_once`   jobs run are a prefix of jobs accepted (same order, nothing skipped or repeated);
                            with no drainer left everything accepted has run
* `c05_no_lost_job`         a drainer exists exactly while the list is non-empty (the hand-over race loses nothing)
* `c05_no_index_panic`      `jobList[i]` is never out of range
* `c05_closed_rejects`, `c05_must_accepts`, `c05_open_accepts`
* `c05_panic_like_return`, `c05_panic_then_next`   a panicking job leaves the drainer exactly where a returning
                            job leaves it, and its locked hand-over step is enabled
* `c05_rejected_never_runs` on a closed connection a job submitted through `Execute` (however often) is never accepted,
                            never running, never done — in every continuation; the closed flag is never reset
* `c05_must_runs`           after `MustExecute(j)` in any reachable state the drainer gets to `j`
* `c05_completes`           from every reachable state the drainer alone (no help from submitters) finishes
                            everything that was accepted — whatever panicked before
* `c05_close_after_earlier` a job (e.g. the close handler, routed through `MustExecute`) is entered only after
                            every job accepted before it has ended -/
namespace ExecQ

theorem runningJobs_one (s : St) (x : Drainer) (hd : s.drs = [x]) :
    runningJobs s = if x.ph = .running then [x.job] else [] := by
  simp only [runningJobs, hd, List.filter]
  by_cases h : x.ph = .running
  · simp [h]
  · have : (x.ph == .running) = false := by simpa using h
    simp [h, this]

/-- One at a time: in every reachable state there is at most one drainer closure, at most one job is
    inside `job()`, and the start/end history is strictly serial with at most one open start. -/
theorem c05_one_at_a_time (k : Kind) (as : List Act) :
    let s := run k init as
    s.drs.length ≤ 1 ∧ (runningJobs s).length ≤ 1 ∧
      ∃ cur, s.log = serial s.done ++ cur ∧ (cur = [] ∨ ∃ j, cur = [.s j] ∧ runningJobs s = [j]) := by
  intro s
  have hi := inv_reach k as
  rcases hi.shape with ⟨hd, _, _, hlog⟩ | ⟨x, hd, di⟩
  · refine ⟨by simp [s, hd], by simp [s, runningJobs, hd], [], by simpa using hlog, .inl rfl⟩
  · refine ⟨by simp [s, hd], ?_, ?_⟩
    · rw [runningJobs_one _ x hd]
      split <;> simp
    · rcases ph_cases k x with hh | hr | hw
      · obtain ⟨p, _, _, _, hlog⟩ := di.hold hh
        exact ⟨[], by simpa using hlog, .inl rfl⟩
      · obtain ⟨p, _, _, _, hlog⟩ := di.runs hr
        refine ⟨[.s x.job], hlog, .inr ⟨x.job, rfl, ?_⟩⟩
        rw [runningJobs_one _ x hd]; simp [hr]
      · exact ⟨[], by simpa using (di.wait hw).2, .inl rfl⟩

/-- FIFO and exactly once: the jobs that have run are a prefix of the jobs accepted — same order, none
    skipped, none twice (ids distinct ⇒ no duplicates) — and once no drainer is left, everything that
    was accepted has run. -/
theorem c05_fifo_exactly_once (k : Kind) (as : List Act) :
    let s := run k init as
    s.done <+: s.acc ∧ (s.drs = [] → s.done = s.acc) ∧ (s.acc.Nodup → s.done.Nodup) := by
  intro s
  have hi := inv_reach k as
  have hp : s.done <+: s.acc := by
    rcases hi.shape with ⟨_, _, hda, _⟩ | ⟨x, hd, di⟩
    · simp only [s]; rw [hda]; exact List.prefix_refl _
    · rcases ph_cases k x with hh | hr | hw
      · obtain ⟨p, _, _, ha, _⟩ := di.hold hh; exact ⟨_, ha⟩
      · obtain ⟨p, _, _, ha, _⟩ := di.runs hr; exact ⟨_, ha⟩
      · exact ⟨_, (di.wait hw).1⟩
  refine ⟨hp, ?_, ?_⟩
  · intro hd
    rcases hi.shape with ⟨_, _, hda, _⟩ | ⟨x, hd', _⟩
    · exact hda
    · simp only [s] at hd; rw [hd] at hd'; cases hd'
  · intro hn
    obtain ⟨t, ht⟩ := hp
    rw [← ht] at hn
    exact (List.nodup_append.mp hn).1

/-- No lost job, no stray drainer: a drainer closure exists exactly while the job list is non-empty.
    (The two-party race "drainer found the list exhausted" vs "submitter found it non-empty" cannot
    strand a job, and cannot start a second drainer.) -/
theorem c05_no_lost_job (k : Kind) (as : List Act) :
    let s := run k init as
    (s.drs = [] ↔ s.list = []) := by
  intro s
  have hi := inv_reach k as
  rcases hi.shape with ⟨hd, hl, _, _⟩ | ⟨x, hd, di⟩
  · exact ⟨fun _ => hl, fun _ => hd⟩
  · constructor
    · intro h; simp only [s] at h; rw [h] at hd; cases hd
    · intro h; exact absurd h di.ne

/-- The index expressions `jobList[i]` / `asyncList[i]` never go out of range. -/
theorem c05_no_index_panic (k : Kind) (as : List Act) : (run k init as).crash = false :=
  (inv_reach k as).noCrash

/-- `Execute` on a closed connection returns false and changes nothing (the job is never accepted,
    hence by `c05_fifo_exactly_once` never run). -/
theorem c05_closed_rejects (s : St) (j : Nat) (h : s.closed = true) :
    step .conn s (.submit j false) = some s := by
  simp [step, h]

/-- `MustExecute` always accepts, closed or not. -/
theorem c05_must_accepts (k : Kind) (s : St) (j : Nat) :
    ∃ s', step k s (.submit j true) = some s' ∧ s'.acc = s.acc ++ [j] ∧ s'.list = s.list ++ [j] := by
  simp only [step]
  split
  · rename_i h; simp at h
  · split <;> exact ⟨_, rfl, rfl, rfl⟩

/-- `Execute` on an open connection accepts. -/
theorem c05_open_accepts (k : Kind) (s : St) (j : Nat) (h : s.closed = false) :
    ∃ s', step k s (.submit j false) = some s' ∧ s'.acc = s.acc ++ [j] := by
  simp only [step]
  split
  · rename_i hh; simp [h] at hh
  · split <;> exact ⟨_, rfl, rfl⟩

/-- A panicking job leaves the drainer exactly where a returning job leaves it (the recover wrapper):
    the two successor states differ in the panic counter only. -/
theorem c05_panic_like_return (k : Kind) (s : St) (d : Nat) :
    step k s (.finish d true) = (step k s (.finish d false)).map (fun s' => { s' with panics := s'.panics + 1 }) := by
  simp only [step]
  split
  · split <;> simp
  · rfl

/-- ... and the drainer's locked hand-over step is enabled right after it: a panicking job is followed
    by `next`. -/
theorem c05_panic_then_next (k : Kind) (s s' : St) (d : Nat) (p : Bool)
    (h : step k s (.finish d p) = some s') : ∀ big, (step k s' (.next d big)).isSome = true := by
  simp only [step] at h
  split at h
  · rename_i x hx
    split at h
    · cases h
      have hd : d < s.drs.length := (List.getElem?_eq_some_iff.mp hx).1
      intro big
      simp [step, List.getElem?_set_self hd]
    · cases h
  · cases h

/-! ### completion: the drainer alone finishes everything accepted -/

/-- the drainer's own next action -/
def drainAct (s : St) : Option Act :=
  match s.drs with
  | [] => none
  | x :: _ => some (match x.ph with
    | .spawned => .spawn 0 false | .ready => .start 0 | .running => .finish 0 false | .finished => .next 0 false)

/-- let the drainer run for `n` steps (no submitter, no close) -/
def drain (k : Kind) : Nat → St → St
  | 0, s => s
  | n + 1, s => match drainAct s with
    | none => s
    | some a => match step k s a with
      | some s' => drain k n s'
      | none => s

def rank : Ph → Nat | .spawned => 4 | .ready => 3 | .running => 2 | .finished => 1

def mu (s : St) : Nat :=
  match s.drs with
  | [] => 0
  | x :: _ => 4 * (s.list.length + 1 - x.taken) + rank x.ph

theorem take_progress (k : Kind) (s : St) (x : Drainer) (_hc : s.crash = false) (hd : s.drs = [x])
    (di : DInv k s x) (_hw : waiting k x) (r : Nat) (hr : 1 ≤ r) :
    (take k false s 0 x).acc = s.acc ∧ mu (take k false s 0 x) < 4 * (s.list.length + 1 - x.taken) + r := by
  have hle := di.le
  unfold take
  rw [resetList_nil]
  split
  · simp [mu, hd]; omega
  · rename_i hlen
    have hlen : ¬ s.list.length = x.taken := by simpa using hlen
    split
    · simp [mu, hd, rank]; omega
    · rename_i hj
      have := List.getElem?_eq_none_iff.mp hj
      omega

theorem drain_progress (k : Kind) (s : St) (x : Drainer) (hi : Inv k s) (hd : s.drs = [x]) :
    ∃ a s', drainAct s = some a ∧ step k s a = some s' ∧ s'.acc = s.acc ∧ mu s' < mu s := by
  have di : DInv k s x := by
    rcases hi.shape with ⟨h, _⟩ | ⟨y, hy, di⟩
    · rw [h] at hd; cases hd
    · rw [hd] at hy; cases hy; exact di
  have hle := di.le
  cases hp : x.ph with
  | spawned =>
    cases k with
    | conn =>
      have hs : step .conn s (.spawn 0 false) = some { s with drs := [{ x with ph := .ready }] } := by
        simp [step, hd, hp]
      exact ⟨_, _, by simp [drainAct, hd, hp], hs, rfl, by simp [mu, hd, hp, rank]⟩
    | async =>
      have := take_progress .async s x hi.noCrash hd di (.inr ⟨hp, rfl⟩) 4 (by omega)
      have hs : step .async s (.spawn 0 false) = some (take .async false s 0 x) := by simp [step, hd, hp]
      exact ⟨_, _, by simp [drainAct, hd, hp], hs, this.1, by simpa [mu, hd, hp, rank] using this.2⟩
  | ready =>
    have hs : step k s (.start 0) = some { s with drs := [{ x with ph := .running }], log := s.log ++ [.s x.job] } := by
      simp [step, hd, hp]
    exact ⟨_, _, by simp [drainAct, hd, hp], hs, rfl, by simp [mu, hd, hp, rank]⟩
  | running =>
    have hs : step k s (.finish 0 false) = some { s with drs := [{ x with ph := .finished }], log := s.log ++ [.e x.job], done := s.done ++ [x.job] } := by
      simp [step, hd, hp]
    exact ⟨_, _, by simp [drainAct, hd, hp], hs, rfl, by simp [mu, hd, hp, rank]⟩
  | finished =>
    have := take_progress k s x hi.noCrash hd di (.inl hp) 1 (by omega)
    have hs : step k s (.next 0 false) = some (take k false s 0 x) := by simp [step, hd, hp]
    exact ⟨_, _, by simp [drainAct, hd, hp], hs, this.1, by simpa [mu, hd, hp, rank] using this.2⟩

theorem drain_completes (k : Kind) : ∀ (n : Nat) (s : St), Inv k s → mu s ≤ n →
    (drain k n s).drs = [] ∧ (drain k n s).done = s.acc ∧ (drain k n s).acc = s.acc := by
  intro n
  induction n with
  | zero =>
    intro s hi hm
    rcases hi.shape with ⟨hd, _, hda, _⟩ | ⟨x, hd, di⟩
    · exact ⟨hd, hda, rfl⟩
    · have : 0 < rank x.ph := by cases x.ph <;> simp [rank]
      simp [mu, hd] at hm; omega
  | succ n ih =>
    intro s hi hm
    rcases hi.shape with ⟨hd, _, hda, _⟩ | ⟨x, hd, di⟩
    · simp [drain, drainAct, hd, hda]
    · obtain ⟨a, s', ha, hs, hacc, hlt⟩ := drain_progress k s x hi hd
      have hi' := inv_step k s s' a hi hs
      have := ih s' hi' (by omega)
      simp only [drain, ha, hs]
      rw [hacc] at this
      exact this

/-- Completion: from every reachable state — whatever was submitted, closed or panicked before — the
    drainer, given only that the executor starts its closure and that jobs return or panic, runs
    every accepted job and then disappears; no help from later submitters is needed. A panicking job
    therefore never prevents later jobs. -/
theorem c05_completes (k : Kind) (as : List Act) :
    let s := run k init as
    ∃ n, (drain k n s).drs = [] ∧ (drain k n s).done = s.acc ∧ (drain k n s).acc = s.acc := by
  intro s
  exact ⟨mu s, drain_completes k (mu s) s (inv_reach k as) (Nat.le_refl _)⟩


/-! ### refused means never run; MustExecute means run -/

theorem done_prefix_of_inv {k : Kind} {s : St} (hi : Inv k s) : s.done <+: s.acc := by
  rcases hi.shape with ⟨_, _, hda, _⟩ | ⟨x, hd, di⟩
  · rw [hda]; exact List.prefix_refl _
  · rcases ph_cases k x with hh | hr | hw
    · obtain ⟨p, _, _, ha, _⟩ := di.hold hh; exact ⟨_, ha⟩
    · obtain ⟨p, _, _, ha, _⟩ := di.runs hr; exact ⟨_, ha⟩
    · exact ⟨_, (di.wait hw).1⟩

/-- the closed flag is never reset, and on a closed conn only `MustExecute` extends the accepted jobs -/
theorem closed_step (s s' : St) (a : Act) (j : Nat) (hs : step .conn s a = some s') (hc : s.closed = true)
    (hj : j ∉ s.acc) (ha : a ≠ .submit j true) : s'.closed = true ∧ j ∉ s'.acc := by
  cases a with
  | submit i must =>
    simp only [step] at hs
    split at hs
    · cases hs; exact ⟨hc, hj⟩
    · rename_i hcond
      have hm : must = true := by
        cases must
        · simp [hc] at hcond
        · rfl
      have hij : i ≠ j := by intro h; apply ha; rw [h, hm]
      split at hs <;> (cases hs; exact ⟨hc, by simp [hj, Ne.symm hij]⟩)
  | spawn d big =>
    simp only [step] at hs
    split at hs
    · split at hs
      · cases hs; exact ⟨hc, hj⟩
      · cases hs
    · cases hs
  | start d =>
    simp only [step] at hs
    split at hs
    · split at hs
      · cases hs; exact ⟨hc, hj⟩
      · cases hs
    · cases hs
  | finish d p =>
    simp only [step] at hs
    split at hs
    · split at hs
      · cases hs; exact ⟨hc, hj⟩
      · cases hs
    · cases hs
  | next d big =>
    simp only [step] at hs
    split at hs
    · split at hs
      · cases hs
        simp only [take]
        split
        · exact ⟨hc, hj⟩
        · split <;> exact ⟨hc, hj⟩
      · cases hs
    · cases hs
  | close =>
    simp only [step] at hs
    split at hs
    · cases hs; exact ⟨rfl, hj⟩
    · cases hs

theorem closed_run (j : Nat) : ∀ (bs : List Act) (s : St), s.closed = true → j ∉ s.acc →
    (∀ b ∈ bs, b ≠ .submit j true) → (run .conn s bs).closed = true ∧ j ∉ (run .conn s bs).acc := by
  intro bs
  induction bs with
  | nil => intro s hc hj _; exact ⟨hc, hj⟩
  | cons b bs ih =>
    intro s hc hj hb
    simp only [run]
    split
    · rename_i s' hs
      obtain ⟨h1, h2⟩ := closed_step s s' b j hs hc hj (hb b (by simp))
      exact ih s' h1 h2 (fun x hx => hb x (by simp [hx]))
    · exact ih s hc hj (fun x hx => hb x (by simp [hx]))

/-- `Execute` on a closed connection never runs the job: once the connection is closed (it stays closed),
    a job id that was not accepted before is never accepted through `Execute` — whatever happens later and
    however often it is re-submitted with `Execute` — and therefore never runs.  (Only a `MustExecute` of the
    same job could run it.) -/
theorem c05_rejected_never_runs (as bs : List Act) (j : Nat) :
    (run .conn init as).closed = true → j ∉ (run .conn init as).acc → (∀ b ∈ bs, b ≠ .submit j true) →
    j ∉ (run .conn (run .conn init as) (.submit j false :: bs)).done ∧
    j ∉ runningJobs (run .conn (run .conn init as) (.submit j false :: bs)) := by
  intro hc hj hb
  have hi := inv_reach .conn as
  generalize run .conn init as = s at hc hj hi
  have hrej : step .conn s (.submit j false) = some s := c05_closed_rejects s j hc
  simp only [run, hrej]
  obtain ⟨_, hacc⟩ := closed_run j bs s hc hj hb
  have hi' := inv_run .conn bs s hi
  generalize run .conn s bs = t at hacc hi'
  have hp := done_prefix_of_inv hi'
  refine ⟨fun hd => hacc (hp.subset hd), ?_⟩
  -- a running job is accepted as well
  intro hr
  rcases hi'.shape with ⟨hd, _⟩ | ⟨x, hd, di⟩
  · simp [runningJobs, hd] at hr
  · rw [runningJobs_one t x hd] at hr
    split at hr
    · rename_i hrun
      obtain ⟨p, _, hg, ha, _⟩ := di.runs hrun
      have : j = x.job := by simpa using hr
      apply hacc
      rw [← ha, this]
      have := List.mem_of_getElem? hg
      simp only [List.mem_append]
      right
      rw [drop_succ_of_get hg]; simp
    · simp at hr

/-- `MustExecute` always runs the job: after `MustExecute(j)` in any reachable state — closed or not — the
    drainer (given that the executor starts it and jobs return or panic) gets to `j` and runs it. -/
theorem c05_must_runs (k : Kind) (as : List Act) (j : Nat) :
    ∃ s1, step k (run k init as) (.submit j true) = some s1 ∧ ∃ n, j ∈ (drain k n s1).done := by
  obtain ⟨s1, hs, hacc, _⟩ := c05_must_accepts k (run k init as) j
  refine ⟨s1, hs, mu s1, ?_⟩
  have hi := inv_step k _ s1 _ (inv_reach k as) hs
  have := (drain_completes k (mu s1) s1 hi (Nat.le_refl _)).2.1
  rw [this, hacc]; simp

/-! ### close handling comes after all earlier jobs -/

theorem split_unique {l a a' b b' : List Nat} {j : Nat} (hn : l.Nodup)
    (h1 : l = a ++ j :: b) (h2 : l = a' ++ j :: b') : a = a' := by
  induction a generalizing l a' with
  | nil =>
    cases a' with
    | nil => rfl
    | cons y ys =>
      subst h1
      simp at h2
      obtain ⟨rfl, hb⟩ := h2
      rw [hb] at hn
      simp at hn
  | cons x xs ih =>
    cases a' with
    | nil =>
      subst h2
      simp at h1
      obtain ⟨rfl, hb⟩ := h1
      rw [hb] at hn
      simp at hn
    | cons y ys =>
      subst h1
      simp at h2
      obtain ⟨rfl, h2⟩ := h2
      have hn' : (xs ++ j :: b).Nodup := (List.nodup_cons.mp hn).2
      rw [ih hn' rfl h2]

theorem pre_subset_done {acc done rest pre post : List Nat} {j : Nat} (hn : acc.Nodup)
    (h1 : done ++ rest = acc) (h2 : acc = pre ++ j :: post)
    (hj : j ∈ done ∨ ∃ r, rest = j :: r) : ∀ i ∈ pre, i ∈ done := by
  rcases hj with hj | ⟨r, hr⟩
  · obtain ⟨a, b, hab⟩ := List.append_of_mem hj
    have : acc = a ++ j :: (b ++ rest) := by rw [← h1, hab]; simp
    have := split_unique hn this h2
    intro i hi
    rw [hab, this]; simp [hi]
  · have : acc = done ++ j :: r := by rw [← h1, hr]
    have := split_unique hn this h2
    intro i hi; rw [this]; exact hi

/-- Order against everything earlier: whenever a job `j` is inside `job()` or has ended, every job that
    was accepted before `j` has already ended. In particular the close handler that nbhttp routes through
    `MustExecute` (nbhttp/engine.go) runs after all work queued before it, and handler jobs of one
    connection are totally ordered. -/
theorem c05_close_after_earlier (k : Kind) (as : List Act) :
    let s := run k init as
    s.acc.Nodup → ∀ pre j post, s.acc = pre ++ j :: post →
      (j ∈ s.done ∨ j ∈ runningJobs s) → ∀ i ∈ pre, i ∈ s.done := by
  intro s hn pre j post hacc hj
  have hi := inv_reach k as
  rcases hi.shape with ⟨hd, _, hda, _⟩ | ⟨x, hd, di⟩
  · intro i hi'
    have : s.done = s.acc := hda
    rw [this, hacc]; simp [hi']
  · rcases ph_cases k x with hh | hr | hw
    · obtain ⟨p, _, _, ha, _⟩ := di.hold hh
      have hnr : runningJobs s = [] := by
        have : x.ph ≠ .running := by
          rcases hh with h | ⟨h, _⟩ <;> rw [h] <;> simp
        rw [runningJobs_one _ x hd]; simp [this]
      rw [hnr] at hj
      exact pre_subset_done hn ha hacc (.inl (by simpa using hj))
    · obtain ⟨p, _, hg, ha, _⟩ := di.runs hr
      have hrj : runningJobs s = [x.job] := by rw [runningJobs_one _ x hd]; simp [hr]
      rw [hrj] at hj
      refine pre_subset_done hn ha hacc ?_
      rcases hj with hj | hj
      · exact .inl hj
      · have : j = x.job := by simpa using hj
        exact .inr ⟨_, by rw [this]; exact drop_succ_of_get hg⟩
    · have hnr : runningJobs s = [] := by
        have : x.ph ≠ .running := by
          rcases hw with h | ⟨h, _⟩ <;> rw [h] <;> simp
        rw [runningJobs_one _ x hd]; simp [this]
      rw [hnr] at hj
      exact pre_subset_done hn (di.wait hw).1 hacc (.inl (by simpa using hj))

/-! ### non-vacuity -/

/-- a run in which a second job is submitted while the first still runs, the first panics, and the
    connection is closed in between: both jobs run, in order, and a later `Execute` is refused -/
example :
    let s := run .conn init [.submit 1 false, .spawn 0 false, .start 0, .submit 2 false, .close, .finish 0 true,
                             .submit 3 false, .next 0 false, .start 0, .finish 0 false, .next 0 true]
    s.done = [1, 2] ∧ s.acc = [1, 2] ∧ s.drs = [] ∧ s.panics = 1 ∧
      s.log = [.s 1, .e 1, .s 2, .e 2] := by decide

/-- the hand-over race in the other order: the drainer has already reset the list, the submitter is head again -/
example :
    let s := run .conn init [.submit 1 false, .spawn 0 false, .start 0, .finish 0 false, .next 0 false, .submit 2 true, .spawn 0 false, .start 0]
    s.done = [1] ∧ s.acc = [1, 2] ∧ runningJobs s = [2] := by decide

example :
    let s := run .async init [.submit 1 true, .submit 2 true, .spawn 0 false, .start 0, .finish 0 false, .next 0 false, .start 0, .finish 0 true, .next 0 true]
    s.done = [1, 2] ∧ s.drs = [] ∧ s.list = [] := by decide

end ExecQ
