import NbioVerif.Model.JobQ
/-! probe: C05 assembled on the job-queue model -/
namespace JobQ

/-- FIFO and exactly-once: in every reachable state the jobs run so far are a prefix of the jobs accepted
    (same order, nothing skipped, nothing twice when ids are distinct), and once no drainer is active
    everything accepted has run. -/
theorem c05_fifo_exactly_once (as : List Act) :
    let s := run init as
    s.ran <+: s.acc ∧ (s.drainer = none → s.ran = s.acc) ∧ (s.acc.Nodup → s.ran.Nodup) := by
  have hp := ran_prefix as
  have hi := inv_run init as inv_init
  refine ⟨hp, fun h => (hi.dr_none h).2, fun hn => ?_⟩
  obtain ⟨t, ht⟩ := hp
  rw [← ht] at hn
  exact (List.nodup_append.mp hn).1

/-- one at a time: the model has a single drainer slot, and a drainer exists exactly while the list is non-empty -/
theorem c05_single_drainer (as : List Act) :
    let s := run init as
    (s.drainer = none ↔ s.list = []) := by
  have hi := inv_run init as inv_init
  constructor
  · intro h; exact (hi.dr_none h).1
  · intro h
    cases hd : (run init as).drainer with
    | none => rfl
    | some b =>
      cases b with
      | false => have := (hi.dr_f hd).1; rw [h] at this; simp at this
      | true => have := (hi.dr_t hd).1; rw [h] at this; simp at this

/-- Execute on a closed connection returns false and changes nothing; MustExecute always enqueues -/
theorem c05_closed_rejects (s : St) (j : Nat) (h : s.closed = true) : step s (.submit j false) = some s := by
  simp [step, h]

theorem c05_must_accepts (s : St) (j : Nat) :
    ∃ s', step s (.submit j true) = some s' ∧ s'.acc = s.acc ++ [j] := by
  simp [step]

end JobQ
