import NbioVerif.Lemmas.ReadPathMeasure
import NbioVerif.Lemmas.FdTableInv
import NbioVerif.Lemmas.UdpSessInv
import NbioVerif.Lemmas.ReadPathDgram
import NbioVerif.Model.Gate
/-! C02 Inbound delivery integrity (model level, `Model/ReadPath.lean`).

All theorems quantify over every configuration `g` (mode LT/ET/ONESHOT, sync/async, buffer size, per-loop
limit, stream/UDP) and every sequence `as` of actions — arrivals, FIN, socket error, EINTR, kernel reports
(enabled according to the mode's readiness semantics, which is the stated assumption), poller steps and
read-task steps — i.e. every interleaving at the granularity of §5.1 of DESIGN.md. -/
namespace ReadPath

/-- C02 (iii) async gate: for every interleaving, `readEvents ∈ {0,1,2}`; on an open conn in ET mode a read
    task exists exactly while the counter is non-zero; a read task is never started while another one is alive
    (neither through the gate nor, in one-shot mode, through a second report). -/
theorem c02_gate (g : Cfg) (as : List Act) :
    let s := run g init as
    s.re ≤ 2 ∧ (g.mode = .et → s.closed = false → (s.task = .none ↔ s.re = 0)) ∧ s.overlap = false ∧
    (g.isAsync = false → s.task = .none ∧ s.re = 0) := by
  have h := core_run g as init (core_init g)
  exact ⟨h.gate.re2, h.gate.alive, h.gate.noOverlap, h.gate.sync⟩

/-- C02 (iii) no lost edge: while unread input sits in the kernel queue of an open conn, either the kernel still
    owes a report (LT: always; ET: an unreported edge; ONESHOT: armed and an unreported edge) or somebody owes
    a read: the poller is inside its loop / about to re-arm or close, or the read task is queued, about to read
    again, parked with `readEvents ≥ 2` (an event that arrived after its last read forces another round), or in a
    round that will close the conn (hang-up). -/
theorem c02_no_lost_edge (g : Cfg) (as : List Act) :
    let s := run g init as
    s.k.qlen > 0 → s.closed = false → willReport g s ∨ owes g s.ps s.task s.re := by
  intro s hq hc
  have h := core_run g as init (core_init g)
  cases hm : g.mode with
  | lt => left; simp only [willReport, hm]; exact h.kind.reg
  | et =>
    rcases h.lost.nolostET hm hq hc with h' | h'
    · left; simp only [willReport, hm]; exact h'
    · exact Or.inr h'
  | os =>
    cases ha : s.k.armed
    · exact Or.inr (h.lost.osBusy hm ha hc)
    · left; simp only [willReport, hm]; exact ⟨ha, h.lost.osEdge hm ha hq⟩

/-- C02 (ii) quiescence: poller idle, no read task, conn open, input still queued ⇒ the kernel will report it
    again under the mode's semantics. No byte is stranded. -/
theorem c02_quiescent (g : Cfg) (as : List Act) :
    let s := run g init as
    s.ps = .idle → s.task = .none → s.closed = false → s.k.qlen > 0 → willReport g s := by
  intro s hp ht hc hq
  rcases c02_no_lost_edge g as hq hc with h | h
  · exact h
  · exfalso
    rcases h with ⟨i, fl, h⟩ | ⟨fl, h, _⟩ | h | ⟨v, h⟩ | ⟨a, hx, h, _⟩
    · rw [hp] at h; cases h
    · rw [hp] at h; cases h
    · rw [ht] at h; cases h
    · rw [ht] at h; cases h
    · rw [ht] at h; cases h

/-- non-vacuity: an ET/async run that is quiescent with input queued and an unreported edge -/
example : let s := run { mode := .et, async := true, rbs := 4, cap := 3, udp := false } init
              [.push [1, 2, 3], .report true false, .tstep, .tstep, .push [9]]
    s.ps = .idle ∧ s.task = .none ∧ s.closed = false ∧ s.k.qlen = 1 ∧ s.k.edge = true ∧ s.dlv = [(0, [1, 2, 3])] := by
  decide

/-- `willReport` is not a bare predicate on ghosts: whenever it holds on a reachable state with an idle poller and an
    open conn, the model's report step (readable flag, no writable flag) IS enabled — the model never blocks the report
    the kernel owes. (`reportOk` does not read `edge`: the model also allows spurious reports, i.e. more behaviours than
    the kernel has, which only strengthens the safety theorems.) -/
theorem c02_report_enabled (g : Cfg) (as : List Act) :
    let s := run g init as
    willReport g s → s.ps = .idle → s.closed = false → (report g s true false).isSome = true := by
  intro s hw hp hc
  have h := core_run g as init (core_init g)
  have hreg : s.k.reg = true := h.kind.reg
  have harm : g.mode ≠ .os ∨ s.k.armed = true := by
    cases hm : g.mode with
    | lt => left; simp
    | et => left; simp
    | os => right; simp only [willReport, hm] at hw; exact hw.1
  have hok : reportOk g s true false = true := by
    simp only [reportOk, hp, hc, hreg, Bool.not_false, Bool.and_true, Bool.true_and, Bool.or_true, Bool.true_or,
      beq_self_eq_true, Bool.or_eq_true, bne_iff_ne, ne_eq]
    rcases harm with h1 | h1
    · exact Or.inl h1
    · exact Or.inr h1
  simp only [report, hok, ↓reduceIte, Option.isSome_some]

/-- C02 (ii) progress, composed: while unread input sits in the kernel queue of an open conn, the system is never
    stuck — the poller has a step, or the read task has a step, or the kernel owes a report AND that report is enabled.
    Together with `c02_no_spin` (internal steps are finite between reports) and `c02_delivery_stream` (what is read is
    handed over, in order): the only way input stays unread is that the kernel does not deliver the report it owes. -/
theorem c02_progress (g : Cfg) (as : List Act) :
    let s := run g init as
    s.k.qlen > 0 → s.closed = false →
    (pstep g s).isSome = true ∨ (tstep g s).isSome = true ∨ (report g s true false).isSome = true := by
  intro s hq hc
  cases hp : s.ps with
  | rd i fl => left; simp only [pstep, hp, Option.isSome_some]
  | fin fl => left; simp only [pstep, hp, Option.isSome_some]
  | idle =>
    rcases c02_no_lost_edge g as hq hc with h | h
    · exact Or.inr (Or.inr (c02_report_enabled g as h hp hc))
    · right; left
      rcases h with ⟨i, fl, h⟩ | ⟨fl, h, _⟩ | h | ⟨v, h⟩ | ⟨a, hx, h, _⟩
      · rw [hp] at h; cases h
      · rw [hp] at h; cases h
      · have h' : s.task = .queued := h
        simp only [tstep, h', Option.isSome_some]
      · have h' : s.task = .dec v := h
        simp only [tstep, h', Option.isSome_some]
      · have h' : s.task = .rd a hx := h
        simp only [tstep, h', Option.isSome_some]

/-- C02 (i) streams: at every point of every run, what the callbacks received, followed by what a parked read
    task has taken from the kernel but not yet handed over, followed by the kernel queue, is exactly what the peer
    sent — nothing lost, duplicated, reordered or invented. -/
theorem c02_delivery_stream (g : Cfg) (as : List Act) (hu : g.udp = false) :
    let s := run g init as
    dlvBytes s ++ inflight s ++ s.k.rq = s.sentS :=
  dels_run g as init (core_init g) (dels_init g) hu

/-- corollaries in the property's words: delivered is a prefix of sent; when no task is alive, delivered is
    exactly what has been dequeued -/
theorem c02_delivered_prefix (g : Cfg) (as : List Act) (hu : g.udp = false) :
    let s := run g init as
    dlvBytes s <+: s.sentS ∧ (s.task = .none → dlvBytes s ++ s.k.rq = s.sentS) := by
  intro s
  have h : dlvBytes s ++ inflight s ++ s.k.rq = s.sentS := c02_delivery_stream g as hu
  refine ⟨⟨inflight s ++ s.k.rq, by rw [← List.append_assoc]; exact h⟩, fun ht => ?_⟩
  have : inflight s = [] := by simp only [inflight, ht]
  rw [this, List.append_nil] at h
  exact h

example : let s := run { mode := .lt, async := false, rbs := 2, cap := 1, udp := false } init
              [.push [1, 2, 3], .report true false, .pstep, .pstep]
    dlvBytes s = [1, 2] ∧ s.k.rq = [3] ∧ s.sentS = [1, 2, 3] ∧ s.ps = .idle := by decide

/-- C02 (iv) datagrams: attributed datagrams, then the one a parked task holds, then the kernel queue (each
    truncated to the read buffer, which is what recvfrom does) are the datagrams sent, in order; and the callbacks
    are exactly the non-empty attributed datagrams, one callback per datagram, on the datagram's session. -/
theorem c02_delivery_udp (g : Cfg) (as : List Act) (hu : g.udp = true) :
    let s := run g init as
    deqPairs s ++ inflightD s ++ s.k.dq.map (trunc g) = s.sentD.map (trunc g) ∧ s.dlv = s.deqD.filterMap cb := by
  have h := deld_run g as init (core_init g) (deld_init g)
  exact ⟨h.order hu, h.calls hu⟩

/-- C02 (iv) demultiplexing: any two datagrams ever attributed land on the same session iff they come from the
    same remote address (within one address family, ports and zone ids in range). -/
theorem c02_udp_demux (g : Cfg) (as : List Act) (e1 e2 : Addr × Nat × List UInt8) :
    let s := run g init as
    e1 ∈ s.deqD → e2 ∈ s.deqD → e1.1.wf → e2.1.wf → e1.1.sameFamily e2.1 → (e1.2.1 = e2.2.1 ↔ e1.1 = e2.1) := by
  intro s h1 h2 w1 w2 hf
  have h := sessOk_run g as init sessOk_init
  rw [sess_demux s h e1 e2 h1 h2]
  exact udpKey_inj e1.1 e2.1 w1 w2 hf

example : let s := run { mode := .et, async := false, rbs := 8, cap := 3, udp := true } init
              [.dgram (.v4 127 0 0 1 4000) [1], .dgram (.v4 127 0 0 1 4001) [2], .dgram (.v4 127 0 0 1 4000) [3],
               .report true false, .pstep, .pstep, .pstep, .pstep]
    s.dlv = [(1, [1]), (2, [2]), (1, [3])] ∧ s.opens = [1, 2] ∧ s.k.dq = [] := by decide

/-- all steps of the list are enabled, in turn -/
def runAll (g : Cfg) (s : St) : List Act → Option St
  | [] => some s
  | a :: as => match step g s a with
    | some s' => runAll g s' as
    | none => none

/-- C02 (v) no spin: without new input or reports, poller and read task can only take finitely many steps: every
    sequence of enabled internal steps is at most `mu` long (input still queued + 3·readEvents + loop positions).
    Needs a non-empty read buffer — which is what the default executor did not have (defect: zero-length buffers). -/
theorem c02_no_spin (g : Cfg) (hr : g.rbs > 0) (as : List Act) (hi : ∀ a ∈ as, a.internal = true) :
    ∀ s s', runAll g s as = some s' → as.length + mu g s' ≤ mu g s := by
  induction as with
  | nil => intro s s' h; simp only [runAll, Option.some.injEq] at h; subst h; simp
  | cons a as ih =>
    intro s s' h
    simp only [runAll] at h
    split at h
    · next s1 hs =>
      have h1 := mu_internal g s s1 a hr (hi a (by simp)) hs
      have h2 := ih (fun b hb => hi b (by simp [hb])) s1 s' h
      simp only [List.length_cons]; omega
    · cases h

/-- with a zero-length buffer the loop does spin: the model shows the defect too (read calls grow, nothing moves) -/
example : let g : Cfg := { mode := .et, async := true, rbs := 0, cap := 3, udp := false }
    let s := run g init [.push [1], .report true false, .tstep, .tstep, .tstep, .tstep, .tstep]
    s.reads = 5 ∧ s.k.rq = [1] ∧ s.dlv = [] ∧ s.task ≠ .none := by decide

/-- C02 (i), closing clause: a close triggered by a peer half-close (EPOLLRDHUP without a socket error) never leaves
    bytes of that peer unread — in every configuration: the synchronous loop is not capped on a hang-up event, and with
    AsyncReadInPoller the hang-up is handed to the read task, which closes at the end of a round that started after it. -/
theorem c02_close_drained (g : Cfg) (as : List Act) : (run g init as).lost = 0 :=
  (drain_run g as init (core_init g) (drain_init g)).lost0

/-- … and a hang-up handed to the read task is never forgotten: while the conn is open a task is alive that either
    knows of it or will go round again. -/
theorem c02_hup_closes (g : Cfg) (as : List Act) :
    let s := run g init as
    s.hup = true → s.closed = false → s.task ≠ .none := by
  intro s hu hc ht
  have h := core_run g as init (core_init g)
  rcases h.hupok.owed hu hc with h' | ⟨v, h'⟩ | ⟨a, hx, h', _⟩ <;> rw [ht] at h' <;> cases h'

/-- non-vacuity, asynchronous: data and FIN in one event — delivered, then closed by the task -/
example : let g : Cfg := { mode := .et, async := true, rbs := 8, cap := 3, udp := false }
    let s := run g init [.push [1, 2, 3], .eof, .report true false, .tstep, .tstep, .tstep]
    s.lost = 0 ∧ s.closed = true ∧ s.cerr = .eof ∧ dlvBytes s = [1, 2, 3] ∧ s.task = .none := by decide

/-- non-vacuity, asynchronous: the hang-up arrives while the task is parked after its last read of an older round —
    the round that did not know of it does not close; the next one drains and closes -/
example : let g : Cfg := { mode := .et, async := true, rbs := 8, cap := 3, udp := false }
    let s := run g init [.push [1], .report true false, .tstep, .tstep, .push [2, 3], .eof, .report true false,
                         .tstep, .tstep, .tstep, .tstep]
    s.lost = 0 ∧ s.closed = true ∧ dlvBytes s = [1, 2, 3] := by decide

/-- non-vacuity, synchronous: LT with a burst larger than the per-loop limit, then FIN: drained -/
example : let g : Cfg := { mode := .lt, async := false, rbs := 1, cap := 1, udp := false }
    let s := run g init [.push [1, 2, 3], .eof, .report true false, .pstep, .pstep, .pstep, .pstep, .pstep]
    s.closed = true ∧ s.lost = 0 ∧ dlvBytes s = [1, 2, 3] := by decide

end ReadPath

/-! The gate as it was before the repair (add-then-undo, `Model/Gate.lean`): the counter can go negative and the
next task never returns. Kept as the witness of defect #19; `ReadPath.gate` models the repaired code. -/
namespace Gate
theorem c02_gate_prefix_counterexample :
    let s := run {} [.arrive 1, .pollEvent, .taskStart, .arrive 1, .pollEvent, .arrive 1, .pollEvent,
                     .taskRead 8, .taskDec, .taskRead 8, .taskDec, .taskRead 8, .taskDec, .pollUndo]
    s.re = -1 ∧ s.task = .none := by
  decide
end Gate
