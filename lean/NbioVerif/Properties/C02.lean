import NbioVerif.Lemmas.ReadPathSteps
import NbioVerif.Model.Gate
/-! C02 Inbound delivery integrity (model level, `Model/ReadPath.lean`).

All theorems quantify over every configuration `g` (mode LT/ET/ONESHOT, sync/async, buffer size, per-loop
limit, stream/UDP) and every sequence `as` of actions — arrivals, FIN, socket error, EINTR, kernel reports
(enabled according to the mode's readiness semantics, which is the stated assumption), poller steps and
read-task steps — i.e. every interleaving at the granularity of §5.1 of DESIGN.md. -/
namespace ReadPath

/-- C02 (iii) async gate: for every interleaving, `readEvents ∈ {0,1,2}`; on an open conn in ET mode a read
    task exists exactly while the counter is non-zero; a read task is never started while another one is alive
    (neither through the gate nor, in one-shot mode, through a second report). -/
theorem c02_gate (g : Cfg) (as : List Act) :
    let s := run g init as
    s.re ≤ 2 ∧ (g.mode = .et → s.closed = false → (s.task = .none ↔ s.re = 0)) ∧ s.overlap = false ∧
    (g.isAsync = false → s.task = .none ∧ s.re = 0) := by
  have h := core_run g as init (core_init g)
  exact ⟨h.gate.re2, h.gate.alive, h.gate.noOverlap, h.gate.sync⟩

/-- C02 (iii) no lost edge: while unread input sits in the kernel queue of an open conn, either the kernel still
    owes a report (LT: always; ET: an unreported edge; ONESHOT: armed and an unreported edge) or somebody owes
    a read: the poller is inside its loop / about to re-arm or close, or the read task is queued, about to read
    again, or parked with `readEvents ≥ 2` (an event that arrived after its last read forces another round). -/
theorem c02_no_lost_edge (g : Cfg) (as : List Act) :
    let s := run g init as
    s.k.qlen > 0 → s.closed = false → willReport g s ∨ owes g s.ps s.task s.re := by
  intro s hq hc
  have h := core_run g as init (core_init g)
  cases hm : g.mode with
  | lt => left; simp only [willReport, hm]; exact h.kind.reg
  | et =>
    rcases h.lost.nolostET hm hq hc with h' | h'
    · left; simp only [willReport, hm]; exact h'
    · exact Or.inr h'
  | os =>
    cases ha : s.k.armed
    · exact Or.inr (h.lost.osBusy hm ha hc)
    · left; simp only [willReport, hm]; exact ⟨ha, h.lost.osEdge hm ha hq⟩

/-- C02 (ii) quiescence: poller idle, no read task, conn open, input still queued ⇒ the kernel will report it
    again under the mode's semantics. No byte is stranded. -/
theorem c02_quiescent (g : Cfg) (as : List Act) :
    let s := run g init as
    s.ps = .idle → s.task = .none → s.closed = false → s.k.qlen > 0 → willReport g s := by
  intro s hp ht hc hq
  rcases c02_no_lost_edge g as hq hc with h | h
  · exact h
  · exfalso
    rcases h with ⟨i, fl, h⟩ | ⟨fl, h, _⟩ | h | ⟨v, h⟩ | ⟨a, h, _⟩
    · rw [hp] at h; cases h
    · rw [hp] at h; cases h
    · rw [ht] at h; cases h
    · rw [ht] at h; cases h
    · rw [ht] at h; cases h

/-- non-vacuity: an ET/async run that is quiescent with input queued and an unreported edge -/
example : let s := run { mode := .et, async := true, rbs := 4, cap := 3, udp := false } init
              [.push [1, 2, 3], .report true false, .tstep, .tstep, .push [9]]
    s.ps = .idle ∧ s.task = .none ∧ s.closed = false ∧ s.k.qlen = 1 ∧ s.k.edge = true ∧ s.dlv = [(0, [1, 2, 3])] := by
  decide

end ReadPath

/-! The gate as it was before the repair (add-then-undo, `Model/Gate.lean`): the counter can go negative and the
next task never returns. Kept as the witness of defect #19; `ReadPath.gate` models the repaired code. -/
namespace Gate
theorem c02_gate_prefix_counterexample :
    let s := run {} [.arrive 1, .pollEvent, .taskStart, .arrive 1, .pollEvent, .arrive 1, .pollEvent,
                     .taskRead 8, .taskDec, .taskRead 8, .taskDec, .taskRead 8, .taskDec, .pollUndo]
    s.re = -1 ∧ s.task = .none := by
  decide
end Gate
