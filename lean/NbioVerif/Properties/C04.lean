import NbioVerif.Model.ConnFull
/-! C04 flush liveness (first instalment; the invariants follow) -/
namespace ConnFull

/-- registration after the open callback arms EPOLLOUT when a backlog exists -/
theorem c04_register_arms (g : Cfg) (s : S) (hh : s.hung = false) (hr : s.reg = false) (hc : s.closed = false)
    (hw : s.wl ≠ []) : outArmed (register g s) := by
  have : s.wl.isEmpty = false := by cases h : s.wl <;> simp_all
  simp [register, hh, hr, hc, this, pAddReadWrite, kctl, outArmed]

end ConnFull
