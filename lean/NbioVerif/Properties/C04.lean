import NbioVerif.Properties.C01
import NbioVerif.Lemmas.ConnEvEnd
/-!
# C04 Flush liveness (safety core + progress)

Same model as C01 (`ConnFull`), with the registration sub-state: `register` is `addConn`'s
`EPOLL_CTL_ADD`, which runs *after* the open callback, so writes may precede it; `evTake`/`evEnd` are
the poller's handling of one event, between which other goroutines (or the data callback) may write.
Kernel model: `reg`/`kOut` are the registration and whether EPOLLOUT is in the interest set,
`disarmed` is the ONESHOT state after an event was reported; in ET mode EPOLLOUT is always in the
interest set once registered. `outArmed s` = the kernel will report writability.

Liveness is stated in safety form: (1) in every reachable state with an open connection and a
non-empty queue, EPOLLOUT is armed or the step that arms it is already pending in addConn / in the
poller; (2) those pending steps do arm it; (3) a reported EPOLLOUT with room in the kernel strictly
decreases the backlog, flush never increases it and always terminates. With the fairness assumption
that an armed, writable descriptor is eventually reported, the backlog drains.
-/
namespace ConnFull

/-- **C04 (armed).** For every op sequence (writes before registration = inside the open callback,
    writes between the parts of an event, all modes, all kernel-full points): an open connection with a
    backlog has EPOLLOUT armed in the kernel, or its registration is still to come (addConn has not
    reached its EPOLL_CTL_ADD), or the poller is inside the handling of an event of this connection and
    will call ResetPollerEvent (`rearm`) or close the connection (`evErr`, error event). -/
theorem c04_armed (g : Cfg) (ops : List Op) :
    let s := run g init ops
    s.closed = false → s.wl ≠ [] → outArmed s ∨ s.reg = false ∨ s.rearm = true ∨ s.evErr = true := by
  intro s hc hw
  obtain ⟨hd, ha⟩ := reach_inv (g := g) ⟨ops, rfl⟩
  have hwa : s.isWAdded = true := (ha.wadd hc hd.nohang).mpr (Or.inl hw)
  cases hr : s.reg with
  | false => exact Or.inr (Or.inl rfl)
  | true =>
    have hk := ha.kout hc hr
    rw [hwa] at hk
    cases hdis : s.disarmed with
    | false => exact Or.inl ⟨hr, by simpa using hk, hdis⟩
    | true => exact Or.inr (Or.inr (ha.dis hc hdis))

theorem invE_run (g : Cfg) (ops : List Op) : ∀ s : S, InvD g s → InvA g s → InvT s → InvE g s → InvE g (run g s ops) := by
  induction ops with
  | nil => intro s _ _ _ h; exact h
  | cons op ops ih =>
    intro s h1 h2 h3 h4
    exact ih _ (invD_step g s op h1 h3.tp) (invA_step g s op h1 h2 h3.tp) (invT_step g s op h3) (invE_step g s op h1 h4)

/-- **C04 (ET: a report is due).** In ET mode `c04_armed` only says "registered" (EPOLLOUT is always in the
    interest set and nothing disarms it); what matters there is that the kernel reports writability again
    only after it refused or shortened a write. `edgeDue` is that ghost: set by EPOLL_CTL_ADD (which reports
    the current readiness) and by every EAGAIN / short count of write, writev, sendfile (answers and request
    sizes only: `directRefused`, `sendfileRefused`, `flushRefused`), consumed when EPOLLOUT is delivered —
    and ET delivers EPOLLOUT only if it is set (`evTakeOp`). For every op sequence and all kernel answers:
    an open, registered ET connection with a backlog is owed a report. (Hypothesis `early = false`: no call
    was issued on a dialed conn before its connected callback — the API hands the conn out in that callback;
    see `c04_et_edge_counterexample_early`. Interrupted direct writes are retried by the code, `directAns`.) -/
theorem c04_et_edge (g : Cfg) (ops : List Op) :
    let s := run g init ops
    g.mode = .et → s.closed = false → s.reg = true → s.early = false → s.wl ≠ [] → s.edgeDue = true := by
  intro s hm hc hr hy hw
  obtain ⟨hd, ha⟩ := reach_inv (g := g) ⟨ops, rfl⟩
  have he := invE_run g ops init (invD_init g) (invA_init g) invT_init (invE_init g)
  exact he.et hm hc hd.nohang hr hy hw

/-- the excluded case, made explicit: a call issued on a dialed conn BEFORE its connected callback leaves a
    backlog; the connect event consumes the report without flushing, and ET owes nothing afterwards -/
theorem c04_et_edge_counterexample_early :
    let g : Cfg := ⟨.et, 0, 10, fun i => UInt8.ofNat i⟩
    let s := run g init [.registerDial, .write [1, 2, 3] [.eagain], .evTake true false false [], .evEnd]
    s.closed = false ∧ s.reg = true ∧ s.wl ≠ [] ∧ s.edgeDue = false ∧ s.early = true := by
  decide

/-- **C04 (the backlog drains without any further call).** From any reachable quiet state — open,
    registered, no async connect in progress, the poller not inside an event of this connection — in which
    the kernel keeps making room (every reported EPOLLOUT finds room for `N > 0` bytes, then is full again)
    and no error event occurs: after at most `backlog` rounds of `[kernel reports EPOLLOUT, poller handles the
    event]` the queue is empty, the connection is still open and the peer has received every accepted byte —
    and each round's report IS delivered (LT / ONESHOT: the interest set was re-armed; ET: a report is due).
    No Write / Writev / Sendfile / Close occurs in those rounds. All modes, any `N > 0`. -/
theorem c04_drains (g : Cfg) (ops : List Op) (N : Nat) (hN : 0 < N) :
    let s := run g init ops
    Quiet s →
    let t := run g s (List.replicate (backlog s.wl) (round N)).flatten
    t.closed = false ∧ t.wl = [] ∧ t.wire = t.accepted ∧ t.accepted = s.accepted := by
  intro s q t
  have h4 : Inv4 g s := inv4_run g ops init (inv4_init g)
  obtain ⟨r1, r2, r3, r4⟩ := drains_aux g N hN (backlog s.wl) s h4 q (Nat.le_refl _)
  have hint := r1.d.integ r2.closed
  rw [r3] at hint
  exact ⟨r2.closed, r3, by simpa [pending] using hint, r4⟩

/-- the poller's tail of an event, as three separately scheduled ops -/
def tail3 : List Op := [.evConnEnd, .evRearm, .evErrClose]

/-- **C04 (an open connection becomes quiet by poller steps alone).** From any reachable registered state (an
    unregistered one is registered by `addConn` first: `c04_register_arms`) whose async connect, if any, has had its
    event, and with no call before the connected callback (`early = false`): once the poller has finished the tail
    of the event it may be in, the connection is closed or `Quiet` — the starting point of `c04_drains`. -/
theorem c04_quiet_after_tail (g : Cfg) (ops : List Op) :
    let s := run g init ops
    s.reg = true → s.early = false → (s.connecting = true → s.connEv = true) →
    (run g s tail3).closed = false → Quiet (run g s tail3) := by
  intro s hr he hcn ho
  have hh : s.hung = false := (reach_inv (g := g) ⟨ops, rfl⟩).1.nohang
  have e : run g s tail3 = evEnd g s := (evEnd_run g s).symm
  rw [e] at ho ⊢
  exact quiet_after_tail g s hh hr he hcn ho

/-- **C04 (drain, from any open registered state).** `c04_quiet_after_tail` composed with `c04_drains`: the
    poller finishes its tail, then at most `backlog` rounds of [EPOLLOUT reported with room, event handled] empty the
    queue; the connection is still open and the peer has every accepted byte. -/
theorem c04_drains_from_open (g : Cfg) (ops : List Op) (N : Nat) (hN : 0 < N) :
    let s := run g init ops
    s.reg = true → s.early = false → (s.connecting = true → s.connEv = true) →
    let q := run g s tail3
    q.closed = false →
    let t := run g q (List.replicate (backlog q.wl) (round N)).flatten
    t.closed = false ∧ t.wl = [] ∧ t.wire = t.accepted ∧ t.accepted = q.accepted := by
  intro s hr he hcn q ho t
  have hq : Quiet q := c04_quiet_after_tail g ops hr he hcn ho
  have e : q = run g init (ops ++ tail3) := by rw [run_append]
  have h := c04_drains g (ops ++ tail3) N hN
  simp only at h
  rw [← e] at h
  exact h hq

/-- **C04 (progress behind interrupted attempts).** Any number of EINTR answers before the kernel takes at least
    one byte do not change `c04_progress`: flush retries and the backlog strictly decreases. -/
theorem c04_progress_eintr (g : Cfg) (s : S) (k n0 : Nat) (ks : List KAns) (hr : Reach g s) (hc : s.closed = false)
    (hw : s.wl ≠ []) (hn0 : 0 < n0) :
    backlog (flush g s (List.replicate k .eintr ++ .wrote n0 :: ks)).wl < backlog s.wl :=
  flush_progress_eintr g s k n0 ks hc (reach_inv hr).1.pos hw hn0

/-- **C04 (flush with nothing to flush).** `flush` on an empty queue calls `c.resetRead()` (repo fix "flush drops
    the writing event when there is nothing to flush"). In every reachable state of this model without a connect in
    progress and without an idle write interest (`idle = false`) that is a no-op: by `c04_belief` no write interest is
    registered for an empty queue then. The state the fix is about — a dial that connected at once, registered read+write
    with no callback pending (`registerDialNow`, `idle = true`) — is `c04_flush_empty_drops_idle`. -/
theorem c04_flush_empty_noop (g : Cfg) (s : S) (ks : List KAns) (hr : Reach g s) (hc : s.closed = false)
    (hcn : s.connecting = false) (hid : s.idle = false) (hw : s.wl = []) : flush g s ks = s := by
  obtain ⟨hd, ha⟩ := reach_inv hr
  have hwf : s.isWAdded = false := by
    cases h : s.isWAdded
    · rfl
    · have := (ha.wadd hc hd.nohang).mp h; simp [hw, hcn, hid] at this
  simp [flush, cResetRead, hc, hw, hwf]

/-- **C04 (a dial that connected at once).** `registerDialNow` registers read+write with `isWAdded` set and no
    backlog (`idle`). The first EPOLLOUT handled with an empty queue drops the writing event and the belief with
    it: afterwards `isWAdded = false`, `idle = false` and the kernel's interest agrees (`kOut` only under ET) — the
    next backlog arms EPOLLOUT again (`c04_armed`, which holds for every op sequence including this registration). -/
theorem c04_flush_empty_drops_idle (g : Cfg) (s : S) (ks : List KAns) (hr : Reach g s) (hc : s.closed = false)
    (hw : s.wl = []) (hreg : s.reg = true) (hcn : s.connecting = false) :
    (flush g s ks).isWAdded = false ∧ (flush g s ks).idle = false ∧ (flush g s ks).kOut = (g.mode == .et) ∧
    (flush g s ks).wl = [] := by
  obtain ⟨hd, ha⟩ := reach_inv hr
  have hko := ha.kout hc hreg
  have hwa := ha.wadd hc hd.nohang
  cases hm : g.mode <;> cases hwd : s.isWAdded <;> cases hidl : s.idle <;>
    simp_all [flush, cResetRead, pResetRead, kctl]

/-- the quiet states are what every sequential use leaves behind, e.g. after registration and any calls -/
example :
    let g : Cfg := ⟨.oneshot, 0, 10, fun i => UInt8.ofNat i⟩
    let s := run g init [.write [1, 2] [.wrote 1], .register, .sendfile 3 2 []]
    Quiet s ∧ backlog s.wl = 3 ∧ (run g s (List.replicate 3 (round 2)).flatten).wire = [1, 2, 3, 4] := by
  refine ⟨⟨by decide, by decide, by decide, by decide, by decide, by decide, by decide⟩, by decide, by decide⟩

/-- **C04 (the tail of an event is three separately scheduled actions).** The poller finishes an event with
    the connected tail (`evConnEnd`), `ResetPollerEvent` (`evRearm`) and `closeWithError(io.EOF)` (`evErrClose`);
    each is an op of its own, so every theorem here (`c04_armed`, `c04_et_edge`, `c04_belief`, …, all stated
    over arbitrary op sequences) covers calls of other goroutines between them. The merged `evEnd` that the
    sequential driver runs is exactly their composition. -/
theorem c04_tail_is_three_steps (g : Cfg) (s : S) :
    step g s .evEnd = run g s [.evConnEnd, .evRearm, .evErrClose] := evEnd_run g s

/-- **C04 (the conn's belief is right).** `isWAdded` holds exactly when a backlog exists, or an async connect is
    still in progress, or a dial that connected at once has not yet had its write interest dropped (`idle`), and
    once registered the kernel's interest set agrees with it
    (LT, ONESHOT; ET always asks for EPOLLOUT). -/
theorem c04_belief (g : Cfg) (ops : List Op) :
    let s := run g init ops
    s.closed = false → (s.isWAdded = true ↔ (s.wl ≠ [] ∨ s.connecting = true ∨ s.idle = true)) ∧
      (s.reg = true → s.kOut = (s.isWAdded || g.mode == .et)) := by
  intro s hc
  obtain ⟨hd, ha⟩ := reach_inv (g := g) ⟨ops, rfl⟩
  exact ⟨ha.wadd hc hd.nohang, ha.kout hc⟩

/-- **C04 (registration arms).** addConn's EPOLL_CTL_ADD arms EPOLLOUT when the open callback left a
    backlog. -/
theorem c04_register_arms (g : Cfg) (s : S) (hr : Reach g s) (hreg : s.reg = false) (hc : s.closed = false)
    (hw : s.wl ≠ []) : outArmed (register g s) ∧ (register g s).wl = s.wl := by
  have hd := (reach_inv hr).1
  have : s.wl.isEmpty = false := by cases h : s.wl <;> simp_all
  simp [register, hd.nohang, hreg, hc, this, pAddReadWrite, kctl, outArmed]

/-- **C04 (the poller's tail re-arms).** When the poller finishes an event (ONESHOT) of an open
    connection with a backlog and no error part, EPOLLOUT is armed afterwards. -/
theorem c04_evEnd_arms (g : Cfg) (s : S) (hr : Reach g s) (hc : s.closed = false) (hre : s.rearm = true)
    (he : s.evErr = false) (hw : s.wl ≠ []) : outArmed (evEnd g s) ∧ (evEnd g s).wl = s.wl := by
  obtain ⟨hd, ha⟩ := reach_inv hr
  have hreg := ha.rr hre
  have hm : g.mode = .oneshot := by
    cases hm : g.mode
    · exact absurd (ha.nos (by simp [hm])).2 (by simp [hre])
    · exact absurd (ha.nos (by simp [hm])).2 (by simp [hre])
    · rfl
  have : s.wl.isEmpty = false := by cases h : s.wl <;> simp_all
  cases hcv : s.connEv <;>
    simp [evEnd, hd.nohang, hre, he, hcv, cResetRead, resetPollerEvent, hm, hc, this, pModWrite, kctl, hreg, outArmed]

/-- **C04 (flush terminates).** The `flush` loop never spins: no reachable state is `hung` (the queue
    never holds an empty item, so every iteration makes the kernel consume an answer; the fuel
    `answers + 1` is never exhausted). -/
theorem c04_flush_terminates (g : Cfg) (ops : List Op) : (run g init ops).hung = false :=
  (reach_inv (g := g) ⟨ops, rfl⟩).1.nohang

/-- **C04 (no regress).** Handling EPOLLOUT never increases the backlog … -/
theorem c04_flush_monotone (g : Cfg) (s : S) (ks : List KAns) : backlog (flush g s ks).wl ≤ backlog s.wl :=
  (flush_eff g s ks).2

/-- **C04 (progress).** … and when the kernel has room for at least one byte of the first request the
    backlog strictly decreases. Hence a backlog of `n` bytes drains in at most `n` reported events. -/
theorem c04_progress (g : Cfg) (s : S) (n0 : Nat) (ks : List KAns) (hr : Reach g s) (hc : s.closed = false)
    (hw : s.wl ≠ []) (hn0 : 0 < n0) : backlog (flush g s (.wrote n0 :: ks)).wl < backlog s.wl :=
  flush_progress g s n0 ks hc (reach_inv hr).1.pos hw hn0

/-- **C04 (the delivered event reaches flush).** In a reachable open state with a backlog and EPOLLOUT
    armed (no async connect in progress), a reported EPOLLOUT is delivered and handled by `flush`
    (so `c04_progress` applies to it). -/
theorem c04_event_flushes (g : Cfg) (s : S) (inn err : Bool) (ks : List KAns) (hr : Reach g s)
    (hc : s.closed = false) (ha : outArmed s) (hre : s.rearm = false) (hee : s.evErr = false)
    (hcn : s.connecting = false) :
    backlog (evTake g s true inn err ks).wl = backlog (flush g s ks).wl := by
  obtain ⟨hd, hia⟩ := reach_inv hr
  obtain ⟨h1, h2, h3⟩ := ha
  have hcv : s.connEv = false := by
    cases h : s.connEv
    · rfl
    · have := hia.cev h; simp [hcn] at this
  have hdl : deliverable s true inn err = (true, inn, err) := by
    simp [deliverable, hd.nohang, h1, hc, h3, hre, hee, h2, hcn, hcv]
  unfold evTake
  simp only [hdl]
  by_cases hm : (g.mode == Mode.oneshot) = true
  · simp [hm, hcn]
    exact flush_backlog_congr g s _ ks rfl rfl
  · simp [hm, hcn]

/-- … and the due report is delivered and makes the poller flush: the step the harness injects is the
    model's `evTakeOp`, which in ET needs `edgeDue`. -/
theorem c04_et_report_flushes (g : Cfg) (s : S) (inn err : Bool) (ks : List KAns) (hr : Reach g s)
    (hm : g.mode = .et) (hc : s.closed = false) (hreg : s.reg = true) (hy : s.early = false) (hw : s.wl ≠ [])
    (hre : s.rearm = false) (hee : s.evErr = false) (hcn : s.connecting = false) (he : s.edgeDue = true) :
    backlog (evTakeOp g s true inn err ks).wl = backlog (flush g s ks).wl := by
  obtain ⟨hd, ha⟩ := reach_inv hr
  have hk : s.kOut = true := by
    have := ha.kout hc hreg; rw [hm] at this; simpa using this
  have hdis : s.disarmed = false := (ha.nos (by rw [hm]; simp)).1
  have h := c04_event_flushes g s inn err ks hr hc ⟨hreg, hk, hdis⟩ hre hee hcn
  show backlog (evTake g s (true && (g.mode != .et || s.edgeDue)) inn err ks).wl = _
  rw [he]; simpa using h

/-! ### non-vacuity -/

/-- LT: a backlog formed inside the open callback (before registration) — `reg = false` is the pending
    disjunct; after `register` EPOLLOUT is armed -/
example :
    let s1 := run g0 init [.write [1, 2, 3] [.wrote 1]]
    let s2 := run g0 init [.write [1, 2, 3] [.wrote 1], .register]
    s1.closed = false ∧ s1.wl.length = 1 ∧ s1.reg = false ∧ s2.reg = true ∧ s2.kOut = true ∧ s2.disarmed = false := by
  decide

/-- ONESHOT: an EPOLLOUT-only event whose flush stops at EAGAIN: between `evTake` and `evEnd` the fd is
    disarmed with the re-arm pending, afterwards it is armed again -/
def g1 : Cfg := ⟨.oneshot, 0, 10, fun i => UInt8.ofNat i⟩

/-- a dial that connected at once (LT): registered read+write with `isWAdded`; a write leaving a backlog keeps
    EPOLLOUT armed (no MOD needed); the first EPOLLOUT with nothing to flush drops the writing event, and the next
    backlog arms it again -/
example :
    let s1 := run g0 init [.registerDialNow]
    let s2 := run g0 init [.registerDialNow, .write [1, 2, 3] [.wrote 1]]
    let s3 := run g0 init [.registerDialNow, .evTake true false false [], .evEnd]
    let s4 := run g0 s3 [.write [1, 2, 3] [.wrote 1]]
    s1.isWAdded = true ∧ s1.kOut = true ∧ s1.idle = true ∧ s1.ctl.length = 1 ∧
    s2.wl.length = 1 ∧ s2.kOut = true ∧ s2.ctl.length = 1 ∧
    s3.isWAdded = false ∧ s3.kOut = false ∧ s3.idle = false ∧ s3.ctl.length = 2 ∧
    s4.wl.length = 1 ∧ s4.isWAdded = true ∧ s4.kOut = true ∧ s4.ctl.length = 3 := by
  decide

/-- … ONESHOT, and the first event has no EPOLLOUT part: `ResetPollerEvent` re-arms for reading only and clears
    the belief with it (repo fix), so the write that later leaves a backlog does arm EPOLLOUT -/
example :
    let s1 := run g1 init [.registerDialNow, .evTake false true false [], .evEnd]
    let s2 := run g1 s1 [.write [1, 2, 3] [.wrote 1]]
    s1.isWAdded = false ∧ s1.idle = false ∧ s1.kOut = false ∧ s1.disarmed = false ∧
    s2.wl.length = 1 ∧ s2.isWAdded = true ∧ s2.kOut = true ∧ s2.disarmed = false := by
  decide

/-- ONESHOT, DialAsync: a writer goroutine between the connected tail and ResetPollerEvent, another between
    ResetPollerEvent and the error close — EPOLLOUT stays armed for the backlog until the conn is closed -/
example :
    let s1 := run g1 init [.registerDial, .evTake true false true [], .evConnEnd, .write [1, 2, 3] [.wrote 1]]
    let s2 := step g1 s1 .evRearm
    let s3 := step g1 s2 (.write [4] [])
    let s4 := run g1 s3 [.evErrClose, .teardown]
    s1.rearm = true ∧ s1.kOut = true ∧ s1.disarmed = false ∧ s1.wl.length = 1 ∧
    s2.rearm = false ∧ s2.kOut = true ∧ s2.disarmed = false ∧ s2.evErr = true ∧
    s3.kOut = true ∧ s3.closed = false ∧ s4.closed = true ∧ s4.onClose = 1 := by
  decide

example :
    let s1 := run g1 init [.register, .write [1, 2, 3] [.wrote 1], .evTake true false false [.wrote 1, .eagain]]
    let s2 := run g1 init [.register, .write [1, 2, 3] [.wrote 1], .evTake true false false [.wrote 1, .eagain], .evEnd]
    s1.closed = false ∧ s1.wl.length = 1 ∧ s1.disarmed = true ∧ s1.rearm = true ∧
    s2.wl.length = 1 ∧ s2.reg = true ∧ s2.kOut = true ∧ s2.disarmed = false := by
  decide

/-- DialAsync (LT): a write inside the connected callback leaves a backlog; when the poller finishes the
    event (`evEnd`: `c.resetRead()`) EPOLLOUT stays armed -/
example :
    let s1 := run g0 init [.registerDial, .evTake true false false [], .write [1, 2, 3] [.wrote 1]]
    let s2 := run g0 init [.registerDial, .evTake true false false [], .write [1, 2, 3] [.wrote 1], .evEnd]
    s1.connEv = true ∧ s1.wl.length = 1 ∧ s2.connecting = false ∧ s2.wl.length = 1 ∧ s2.isWAdded = true ∧
    s2.kOut = true ∧ s2.closed = false := by
  decide

/-- ET: a short direct write earns a report; the report is delivered, the flush hits EAGAIN and earns the
    next one; a flush that drains leaves nothing due and a further EPOLLOUT is not delivered -/
example :
    let g : Cfg := ⟨.et, 0, 10, fun i => UInt8.ofNat i⟩
    let s0 := run g init [.register, .evTake true false false [], .evEnd]
    let s1 := run g init [.register, .evTake true false false [], .evEnd, .write [1, 2, 3, 4] [.eintr, .wrote 1]]
    let s2 := run g init [.register, .evTake true false false [], .evEnd, .write [1, 2, 3, 4] [.eintr, .wrote 1],
      .evTake true false false [.wrote 1, .eagain], .evEnd]
    let s3 := run g init [.register, .evTake true false false [], .evEnd, .write [1, 2, 3, 4] [.eintr, .wrote 1],
      .evTake true false false [.wrote 1, .eagain], .evEnd, .evTake true false false [.wrote 9], .evEnd]
    let s4 := step g s3 (.evTake true false false [.wrote 9])
    s0.edgeDue = false ∧ s1.edgeDue = true ∧ s1.wl.length = 1 ∧ s2.edgeDue = true ∧ s2.wire = [1, 2] ∧
    s3.wl.length = 0 ∧ s3.edgeDue = false ∧ s3.wire = [1, 2, 3, 4] ∧ s4.wire = s3.wire := by
  decide

/-- progress: room for 2 bytes, backlog 3 → 1 -/
example :
    let s := run g0 init [.register, .write [1, 2, 3, 4] [.wrote 1]]
    backlog s.wl = 3 ∧ backlog (flush g0 s [.wrote 2, .eagain]).wl = 1 := by decide

end ConnFull
