import NbioVerif.Lemmas.C10PipeProposed
/-! # C10, PROPOSED PATCH ONLY — not a statement about the tree

`docs/proposed/c10-close-after-flush.patch` (`nbio.Conn.CloseAfterFlush`: the close decision of
`flushResponse` waits until the write list has been flushed) was written, verified and then NOT applied:
it is a design change for the maintainers to shape (docs/e2e.md §6).  On the tree the clause "each
request answered exactly once" stays the known finding `c10-close-drops-backlog`
(`Pipeline.c10_pipeline_counterexample`).  This file records that in the model of the *patched* code
(`PipelineProposed`: `draining`) the clause holds at full strength — any interleaving, any short writes,
no ghost hypothesis.  It is deliberately not listed in `Audit/C10.lean` and is executed by no driver. -/
namespace PipelineProposed
variable {α : Type}

/-- the run contains no external close -/
theorem run_ext (cfg : Cfg α) : ∀ (acts : List Act) (s : St α), (∀ a ∈ acts, a ≠ Act.extClose) →
    (run cfg s acts).ext = s.ext := by
  intro acts
  induction acts with
  | nil => intro s _; rfl
  | cons a as ih =>
    intro s h
    simp only [run]
    have ha := h a List.mem_cons_self
    have has := fun x hx => h x (List.mem_cons_of_mem _ hx)
    split
    · rename_i s' hs; rw [ih s' has, step_ext a hs ha]
    · exact ih s has

/-- **The pipeline theorem, full strength** (repaired code: the close decision waits for the write list).
    If no external close interferes, then once every request is parsed and every accepted job has
    finished — in *any* order of the steps, with any short writes and flushes in between — what the
    kernel took plus what is still queued is exactly `resp₁ ++ … ++ respₘ`, nothing was dropped, and the
    connection is closed or waiting to close iff some request's close decision is true. -/
theorem c10_pipeline_total (cfg : Cfg α) (acts : List Act) (hne : ∀ a ∈ acts, a ≠ Act.extClose)
    (hq : quiescent cfg (run cfg init acts)) :
    (run cfg init acts).wire ++ (run cfg init acts).pending = ideal cfg ∧
    (run cfg init acts).shut = willClose cfg ∧ (run cfg init acts).dropped = false := by
  have hi := inv_run (cfg := cfg) acts (inv_init cfg)
  have he : (run cfg init acts).ext = false := by rw [run_ext cfg acts init hne]; rfl
  have hd : (run cfg init acts).dropped = false := by
    cases hdd : (run cfg init acts).dropped with
    | false => rfl
    | true => have := hi.drop_ext hdd; rw [he] at this; cases this
  obtain ⟨hn, hqe⟩ := hq
  cases hc : (run cfg init acts).closed with
  | true =>
    rcases hi.why hc with hb | hx
    · obtain ⟨_, h2, _, h4⟩ := hi.by_srv hb
      refine ⟨?_, by simp [St.shut, hc, h2], hd⟩
      rw [(hi.pend hc).1, List.append_nil]; exact h4
    · rw [he] at hx; cases hx
  | false =>
    cases hdr : (run cfg init acts).draining with
    | true =>
      obtain ⟨_, h2, _, h4⟩ := hi.drain hdr
      exact ⟨h4, by simp [St.shut, hc, hdr, h2], hd⟩
    | false =>
      have hs : (run cfg init acts).shut = false := by simp [St.shut, hc, hdr]
      have hcur : (run cfg init acts).cur = none := by
        cases hcu : (run cfg init acts).cur with
        | none => rfl
        | some rem => exact absurd hqe (hi.cur_some rem hcu).1
      have hfin : (run cfg init acts).fin = cfg.reqs.length := by
        have := hi.acc_eq (Or.inl hc); rw [hqe] at this; simp at this; omega
      have hnc := hi.no_close hs
      rw [hfin] at hnc
      obtain ⟨h1, h2⟩ := answered_all cfg.reqs hnc
      refine ⟨?_, by simp [hs, willClose, h2], hd⟩
      rw [hi.cur_none hcur hs, hfin, ideal, h1]

/-- **… and on the wire**: when moreover the write list has been flushed, the wire itself is
    `resp₁ ++ … ++ respₘ` — every answered request exactly once, in order, complete — and the connection
    is closed iff a closing request exists.  No hypothesis on the kernel's answers, no ghost. -/
theorem c10_pipeline (cfg : Cfg α) (acts : List Act) (hne : ∀ a ∈ acts, a ≠ Act.extClose)
    (hq : quiescent cfg (run cfg init acts)) (hp : (run cfg init acts).pending = []) :
    (run cfg init acts).wire = ideal cfg ∧ (run cfg init acts).closed = willClose cfg := by
  obtain ⟨h1, h2, _⟩ := c10_pipeline_total cfg acts hne hq
  rw [hp, List.append_nil] at h1
  refine ⟨h1, ?_⟩
  have hi := inv_run (cfg := cfg) acts (inv_init cfg)
  cases hdr : (run cfg init acts).draining with
  | true => exact absurd hp (hi.drain hdr).1
  | false => simpa [St.shut, hdr] using h2

def cexReq : Req Nat := { major := 1, minor := 0, connVals := [], pieces := [[1, 2, 3, 4]] }
def cexCfg : Cfg Nat := { reqs := [cexReq], sync := false }

/-- regression of the former known finding "close drops the backlog" (`flushResponse` closed at once
    and `Close` released the write list): one HTTP/1.0 request, the kernel takes 2 of 4 response bytes,
    the job finishes with 2 bytes queued.  The connection now waits (`draining`), the poller's flush
    delivers the rest and closes. -/
example :
    let s1 := run cexCfg init [.parse, .start, .write (some 2), .finish]
    let s2 := run cexCfg init [.parse, .start, .write (some 2), .finish, .flush 1, .flush 5]
    s1.wire = [1, 2] ∧ s1.pending = [3, 4] ∧ s1.draining = true ∧ s1.closed = false ∧
    s2.wire = [1, 2, 3, 4] ∧ s2.closed = true ∧ s2.byServer = true ∧ s2.dropped = false := by
  decide

/-- Only an immediate close can still cut a response: `dropped` implies that an external close
    (Close, deadline, reset, write error) happened. -/
theorem c10_dropped_only_by_ext (cfg : Cfg α) (acts : List Act)
    (h : (run cfg init acts).dropped = true) : (run cfg init acts).ext = true :=
  (inv_run acts (inv_init cfg)).drop_ext h

end PipelineProposed
