import NbioVerif.Lemmas.C07Msg
import NbioVerif.Lemmas.C07Glue
import NbioVerif.Lemmas.C06Chain
import NbioVerif.Lemmas.BodyReader
import NbioVerif.Lemmas.C08Meta
/-! C07: HTTP parsing agrees with the reference on well-formed messages (model level).

The message grammar (`Msg`, `Msg.render`, `eventsOf`, `wfMsg`, `reqSpec`/`respSpec`, the two RFC 7230 decision
tables) is in `Model/HttpMsg.lean`; the processor glue (`requestsOf`/`responsesOf`) in `Model/HttpProc.lean`.
Theorems are proved compositionally, one per grammar production, on the byte-at-a-time spec machine; by C06
(`Scan.feedAll_eq_spec`) they hold for the implementation model `implParse` in every segmentation. -/
namespace Http
open Scan

/-- production: request line. From any state waiting for a request, `method SP target SP version CRLF` yields exactly
    the events method, url, proto and leaves the parser at the start of the header section with an empty token. -/
theorem c07_request_line (g : Cfg) (p : P) (tok : Bytes) (m t pr rest : Bytes) (acc : List Ev)
    (hp : p.st = .methodBefore) (hproto : p.proto = [])
    (hm : validMethods.contains m = true)
    (ht : ∃ t0 ts, t = t0 :: ts ∧ (t0 = 47 ∨ t0 = 42) ∧ ∀ c ∈ ts, c ≠ SP)
    (hpr : protoShape pr = true) (hu : g.urlOk t = true) (hv : g.protoOk pr = true) :
    specFeed (M g) p tok (m ++ [SP] ++ t ++ [SP] ++ pr ++ [CR, LF] ++ rest) acc =
      specFeed (M g) { p with st := .headerKeyBefore } [] rest (acc ++ [.method m, .url t, .proto pr]) :=
  request_line g p tok m t pr rest acc hp hproto hm ht hpr hu hv

/-- production: status line `version SP 3DIGIT SP reason CRLF` (reason possibly empty, possibly several words) -/
theorem c07_status_line (g : Cfg) (p : P) (tok : Bytes) (pr code reason rest : Bytes) (acc : List Ev)
    (hp : p.st = .clientProtoBefore) (hproto : p.proto = []) (hstatus : p.status = []) (hsc : p.statusCode = 0)
    (hpr : protoShape pr = true) (hH : pr.head? = some 72) (hv : g.protoOk pr = true)
    (hl : code.length = 3) (hd : code.all isNum = true)
    (hr : reason = [] ∨ ∃ r0 rs, reason = r0 :: rs ∧ isAlpha r0 = true ∧ ∀ c ∈ rs, c ≠ CR ∧ c ≠ LF) :
    ∃ tok', specFeed (M g) p tok (pr ++ [SP] ++ code ++ [SP] ++ reason ++ [CR, LF] ++ rest) acc =
      specFeed (M g) { p with st := .headerKeyBefore, noBody := bodilessStatus (decimal code) } tok' rest
        (acc ++ [.proto pr, .status (decimal code) (trimRightSpaces reason)]) :=
  status_line g p tok pr code reason rest acc hp hproto hstatus hsc hpr hH hv hl hd hr

/-- production: the header section. Every field line `name ":" SP* value CRLF` yields one header event with the
    canonical name and the value as written; the parser has recorded exactly the values of the three framing fields. -/
theorem c07_header_section (g : Cfg) (hs : List Hdr) (p : P) (tok rest : Bytes) (acc : List Ev)
    (hp : p.st = .headerKeyBefore) (hk : p.hKey = []) (hv : p.hVal = []) (hall : ∀ h ∈ hs, h.parsable) :
    ∃ tok', specFeed (M g) p tok ((hs.map Hdr.render).flatten ++ rest) acc =
      specFeed (M g)
        { p with te := p.te ++ valuesOf (fieldsOf hs) (str "Transfer-Encoding"),
                 tr := p.tr ++ valuesOf (fieldsOf hs) (str "Trailer"),
                 cl := p.cl ++ valuesOf (fieldsOf hs) (str "Content-Length"),
                 headerExists := p.headerExists || !hs.isEmpty }
        tok' rest (acc ++ hs.map (fun h => Ev.header h.key h.evValue)) := by
  obtain ⟨tok', e⟩ := header_lines g hs p tok rest acc hp hk hv hall
  exact ⟨tok', by rw [e, afterHdrs_eq]⟩

/-- **RFC 7230 §3.3.3 rule 1 (1xx / 204 / 304 responses).** At the blank line of a response whose status code excludes
    a body (`noBody`, set by the status line: `c07_status_line`), whatever framing fields the header section carried —
    as long as they pass validation — the message is complete right there: reported length 0, no body, no chunk, no
    trailer is read, and the next byte starts the next response. -/
theorem c07_bodiless_response (g : Cfg) (p p0 : P) (tok rest : Bytes) (acc : List Ev)
    (hp : p.st = .headerKeyBefore) (hnb : p.noBody = true) (hE : endOfHeaders p = .ok p0) :
    specFeed (M g) p tok ([CR, LF] ++ rest) acc =
      specFeed (M g)
        (handleMessage g { p0 with chunked := false, contentLength := 0, st := .headerOverLF, headerExists := false })
        [] rest (acc ++ [.contentLength 0, .complete]) := by
  have hnb0 : p0.noBody = true := by rw [endOfHeaders_noBody p p0 hE, hnb]
  simp only [List.cons_append, List.nil_append]
  rw [spec_step g p tok CR _ acc { p0 with chunked := false, contentLength := 0, st := .headerOverLF } .next [.contentLength 0]
        (by simp [block, hp])
        (by simp [byteStep, hp, hE, noBodyOverride, hnb0, addTrailerKeys, ok, CR, SP, pure, Except.pure])]
  rw [spec_step g _ _ LF _ _
        (handleMessage g { p0 with chunked := false, contentLength := 0, st := .headerOverLF, headerExists := false })
        .next [.complete] (by simp [block]) (by simp [byteStep, ok])]
  simp

/-- the parser is in the start state of its role after a bodiless response, with no framing state left -/
theorem c07_bodiless_response_state (g : Cfg) (p0 : P) :
    let p' := handleMessage g { p0 with chunked := false, contentLength := 0, st := .headerOverLF, headerExists := false }
    p'.st = startSt g ∧ p'.chunked = false ∧ p'.noBody = false ∧ p'.te = [] ∧ p'.cl = [] ∧ p'.tr = [] ∧ p'.trailer = [] := by
  simp [handleMessage, startSt]

/-- **C07 (parser, spec machine).** A well-formed message `m` fed to an idle parser — followed by any bytes `rest` —
    produces exactly the events `eventsOf m`, and the parser is idle again with an empty token when it reaches `rest`:
    the message boundary is at offset `|render m|`, so a pipelined successor starts exactly there.
    (`Idle` = every parser field has its initial value except `contentLength`/`chunkSize`, which are always written
    before they are read; `roleOk` = request for a server parser / response for a client parser, and the processor
    accepts the target and the version.) -/
theorem c07_message (g : Cfg) (m : Msg) (p : P) (rest : Bytes) (acc : List Ev)
    (hI : Idle g p) (hwf : wfMsg m = true) (hrole : roleOk g m)
    (hmax : g.maxBody = 0 ∨ m.body.bytes.length ≤ g.maxBody) :
    ∃ p', Idle g p' ∧
      specFeed (M g) p [] (m.render ++ rest) acc = specFeed (M g) p' [] rest (acc ++ eventsOf m) :=
  msg_parse g m p rest acc hI hwf hrole hmax

/-- **C07 for the implementation model, pipelined, in any segmentation.** Feeding the concatenated renderings of
    well-formed messages to the Go-shaped `Parse` loop of a fresh parser, cut into reads in any way, yields exactly
    the concatenated events; nothing is left in the carry-over buffer and the parser is idle (by C06's refinement). -/
theorem c07_impl_any_segmentation (g : Cfg) (ms : List Msg) (segs : List Bytes)
    (hsegs : segs.flatten = (ms.map Msg.render).flatten)
    (hall : ∀ m ∈ ms, wfMsg m = true ∧ roleOk g m ∧ (g.maxBody = 0 ∨ m.body.bytes.length ≤ g.maxBody)) :
    ∃ p', Idle g p' ∧
      feedAll (machine g) (init g) [] segs [] = ⟨(ms.map eventsOf).flatten, .inl (p', [])⟩ := by
  obtain ⟨p', hI, e⟩ := msgs_parse g ms (init g) [] [] (idle_init g) hall
  refine ⟨p', hI, ?_⟩
  have hg : Good (machine g) (init g) [] := fun n hn => (wf g).pos _ _ hn
  rw [feedAll_eq_spec (machine g) (wf g) segs (init g) [] [] hg, hsegs]
  simpa [specFeed] using e

/-- **C07 for the function the driver runs** (`feedAllL` = chain of `parseLC`: ReadLimit test disabled, checked loop):
    the same statement; `feedAllL … 0 = feedAll` by `Scan.feedAllL_eq_feedAll`. -/
theorem c07_driver_any_segmentation (g : Cfg) (ms : List Msg) (segs : List Bytes)
    (hsegs : segs.flatten = (ms.map Msg.render).flatten)
    (hall : ∀ m ∈ ms, wfMsg m = true ∧ roleOk g m ∧ (g.maxBody = 0 ∨ m.body.bytes.length ≤ g.maxBody)) :
    ∃ p', Idle g p' ∧
      feedAllL (machine g) 0 (init g) [] segs [] = ⟨(ms.map eventsOf).flatten, .inl (p', [])⟩ := by
  obtain ⟨p', hI, e⟩ := c07_impl_any_segmentation g ms segs hsegs hall
  exact ⟨p', hI, by rw [feedAllL_eq_feedAll _ _ _ _ _ _ (noTrip_zero _ _ _ _ _), e]⟩

theorem filterMap_req_flatten (ms : List Msg) :
    ((ms.map fun m => (reqSpec m).toList.map Delivered.req).flatten).filterMap
        (fun | .req r => some r | _ => none) = ms.filterMap reqSpec := by
  induction ms with
  | nil => rfl
  | cons m ms ih =>
    simp only [List.map_cons, List.flatten_cons, List.filterMap_append, List.filterMap_cons, ih]
    cases reqSpec m <;> simp [Option.toList]

/-- **C07 pipelined, delivered level, server.** Any segmentation of the concatenated renderings of well-formed
    requests, run through the driver's chain and the processor logic, hands the handler exactly the `reqSpec`s, in order. -/
theorem c07_requests_pipelined (g : Cfg) (ms : List Msg) (segs : List Bytes)
    (hsegs : segs.flatten = (ms.map Msg.render).flatten)
    (hall : ∀ m ∈ ms, wfMsg m = true ∧ roleOk g m ∧ (g.maxBody = 0 ∨ m.body.bytes.length ≤ g.maxBody))
    (hreq : ∀ m ∈ ms, ∃ me t pr, m.start = .request me t pr) :
    requestsOf (feedAllL (machine g) 0 (init g) [] segs []).evs = ms.filterMap reqSpec := by
  obtain ⟨p', _, e⟩ := c07_driver_any_segmentation g ms segs hsegs hall
  rw [e]
  simp only [requestsOf, deliveredOf, procRun_requests ms (fun m hm => ⟨(hall m hm).1, hreq m hm⟩)]
  exact filterMap_req_flatten ms

theorem filterMap_resp_flatten (ms : List Msg) :
    ((ms.map fun m => (respSpec m).toList.map Delivered.resp).flatten).filterMap
        (fun | .resp r => some r | _ => none) = ms.filterMap respSpec := by
  induction ms with
  | nil => rfl
  | cons m ms ih =>
    simp only [List.map_cons, List.flatten_cons, List.filterMap_append, List.filterMap_cons, ih]
    cases respSpec m <;> simp [Option.toList]

/-- **C07 pipelined, delivered level, client.** Any segmentation of the concatenated renderings of well-formed
    responses (none of them a reply to HEAD that announces a body: that is outside `wfMsg`-with-body-present, known
    finding HTTP-CLIENT-HEAD), run through the driver's chain and the client processor logic, hands the callback exactly
    the `respSpec`s, in order. -/
theorem c07_responses_pipelined (g : Cfg) (ms : List Msg) (segs : List Bytes)
    (hsegs : segs.flatten = (ms.map Msg.render).flatten)
    (hall : ∀ m ∈ ms, wfMsg m = true ∧ roleOk g m ∧ (g.maxBody = 0 ∨ m.body.bytes.length ≤ g.maxBody))
    (hresp : ∀ m ∈ ms, ∃ pr code reason, m.start = .status pr code reason) :
    responsesOf (feedAllL (machine g) 0 (init g) [] segs []).evs = ms.filterMap respSpec := by
  obtain ⟨p', _, e⟩ := c07_driver_any_segmentation g ms segs hsegs hall
  rw [e]
  simp only [responsesOf, deliveredOf, procRun_responses ms hresp]
  exact filterMap_resp_flatten ms

/-- **C07 (header lookup, representation independent).** For a delivered request, what the handler finds under any
    header name is the list of that field's values in arrival order — a `filter` over the message's fields; no multimap
    construction is shared between the two sides of this statement. -/
theorem c07_header_lookup (m : Msg) (r : Req) (h : reqSpec m = some r) (k : Bytes) :
    r.header.get k = (m.fields.filter (fun kv => kv.1 == k)).map (·.2) := by
  unfold reqSpec at h
  split at h
  · cases h; exact header_lookup m.fields k
  · cases h

/-- **C07 (delivered request).** What the handler receives for the events of a well-formed request is `reqSpec m`:
    method, target, version, Host from the Host field, the header multimap with canonical names, the declared length,
    Transfer-Encoding, the body bytes, the trailers, and the Close decision of RFC 7230 §6.3. -/
theorem c07_request_delivered (m : Msg) (me t pr : Bytes) (hs : m.start = .request me t pr) (hwf : wfMsg m = true) :
    requestsOf (eventsOf m) = (reqSpec m).toList := by
  simp only [requestsOf, glue_request m me t pr hs hwf]
  cases reqSpec m <;> simp [Option.toList]

/-- **C07 (delivered response).** What the client callback receives for the events of a response is `respSpec m`. -/
theorem c07_response_delivered (m : Msg) (pr code reason : Bytes) (hs : m.start = .status pr code reason) :
    responsesOf (eventsOf m) = (respSpec m).toList := by
  simp only [responsesOf, glue_response m pr code reason hs]
  cases respSpec m <;> simp [Option.toList]

/-- **C07 end to end (server).** Real-shaped `Parse` calls over any segmentation of a well-formed request, followed by
    the processor glue, hand the handler exactly `reqSpec m`. -/
theorem c07_request_end_to_end (g : Cfg) (m : Msg) (me t pr : Bytes) (segs : List Bytes)
    (hs : m.start = .request me t pr) (hsegs : segs.flatten = m.render)
    (hwf : wfMsg m = true) (hrole : roleOk g m) (hmax : g.maxBody = 0 ∨ m.body.bytes.length ≤ g.maxBody) :
    requestsOf (feedAll (machine g) (init g) [] segs []).evs = (reqSpec m).toList := by
  obtain ⟨p', _, e⟩ := c07_impl_any_segmentation g [m] segs (by simpa using hsegs)
    (by intro x hx; simp only [List.mem_singleton] at hx; subst hx; exact ⟨hwf, hrole, hmax⟩)
  rw [e]
  simpa using c07_request_delivered m me t pr hs hwf

/-- **C07 end to end (client).** -/
theorem c07_response_end_to_end (g : Cfg) (m : Msg) (pr code reason : Bytes) (segs : List Bytes)
    (hs : m.start = .status pr code reason) (hsegs : segs.flatten = m.render)
    (hwf : wfMsg m = true) (hrole : roleOk g m) (hmax : g.maxBody = 0 ∨ m.body.bytes.length ≤ g.maxBody) :
    responsesOf (feedAll (machine g) (init g) [] segs []).evs = (respSpec m).toList := by
  obtain ⟨p', _, e⟩ := c07_impl_any_segmentation g [m] segs (by simpa using hsegs)
    (by intro x hx; simp only [List.mem_singleton] at hx; subst hx; exact ⟨hwf, hrole, hmax⟩)
  rw [e]
  simpa using c07_response_delivered m pr code reason hs

/-- **Decision table: connection persistence.** `request.Close` as computed by `ServerProcessor.OnComplete`
    (nbhttp/processor.go:242-262) equals RFC 7230 §6.3 applied to the connection options, whenever every Connection
    field value is a single option (no comma-separated list, no HTAB). -/
theorem c07_close_table (major minor : Nat) (vs : List Bytes)
    (h : vs.all (fun v => !v.contains 44 && !v.contains 9) = true) :
    closeDecision major minor vs = rfc7230Close major minor ((listElems vs).map (·.map toLower)) :=
  closeDecision_rfc major minor vs h

/-- the framing decision of `parseTransferEncoding; parseContentLength; parseTrailer` (nbhttp/parser.go:710-807) as a
    function of the recorded values of the three framing fields -/
def framingSt (te cl tr : List Bytes) : P := { st := .headerKeyBefore, te := te, cl := cl, tr := tr }

def nbioFraming (te cl tr : List Bytes) : Except E Framing :=
  match endOfHeaders (framingSt te cl tr) with
  | .error e => .error e
  | .ok p1 =>
    match addTrailerKeys p1 with
    | .error e => .error e
    | .ok p2 =>
      .ok (if p2.chunked then .chunked p2.trailer
           else if p1.contentLength ≥ 0 then .length p1.contentLength.toNat else .none)

/-- **Decision table: framing.** On every header section the RFC 7230 §3.3.3 table classifies as valid, nbhttp's
    framing decision is that classification: chunked overrides Content-Length, a single numeric Content-Length gives
    the length, neither means no body, and trailers are only expected (the announced names) with chunked. -/
theorem c07_framing_table (fs : List (Bytes × Bytes)) (h : rfc7230Framing fs ≠ .invalid) :
    nbioFraming (valuesOf fs (str "Transfer-Encoding")) (valuesOf fs (str "Content-Length")) (valuesOf fs (str "Trailer"))
      = .ok (rfc7230Framing fs) := by
  cases hfr : rfc7230Framing fs with
  | invalid => exact absurd hfr h
  | none =>
    have ⟨t1, t2⟩ := rfc_none fs hfr
    simp [nbioFraming, framingSt, t1, t2, endOfHeaders, parseTE, parseCL, addTrailerKeys, bind, Except.bind, pure, Except.pure]
  | length n =>
    obtain ⟨t1, v, t2, t3, t4, t5, t6⟩ := rfc_length fs n hfr
    have hE := endOfHeaders_length (framingSt (valuesOf fs (str "Transfer-Encoding")) (valuesOf fs (str "Content-Length"))
      (valuesOf fs (str "Trailer"))) v t1 t2 t3 t4 t5
    simp only [nbioFraming, hE]
    simp [addTrailerKeys, framingSt, pure, Except.pure, t6]
  | chunked decl =>
    obtain ⟨v, t1, t2, tcl, t3, t4⟩ := rfc_chunked fs decl hfr
    obtain ⟨p1, h1, _, _, h3⟩ := framing_chunked (framingSt (valuesOf fs (str "Transfer-Encoding"))
      (valuesOf fs (str "Content-Length")) (valuesOf fs (str "Trailer"))) v t1 t2 tcl t3 rfl
    simp only [nbioFraming, h1, h3]
    simp [t4, framingSt]

/-- non-vacuity: a concrete well-formed request with a chunked body, extensions and a trailer -/
def sampleReq : Msg :=
  { start := .request (str "POST") (str "/a?b=c") (str "HTTP/1.1"),
    headers := [⟨str "host", 1, str "example.com"⟩, ⟨str "Transfer-Encoding", 1, str "chunked"⟩,
                ⟨str "trailer", 0, str "X-T"⟩, ⟨str "connection", 2, str "Close "⟩],
    body := .chunked [⟨str "3", str ";a=b", str "abc"⟩] (str "00") [] [⟨str "x-t", 1, str "v w "⟩] }

/-- server-side configuration with accepting processor verdicts -/
def gT : Cfg := { isClient := false, maxBody := 0, urlOk := fun _ => true, protoOk := fun _ => true }

example : wfMsg sampleReq = true := by decide
example : roleOk gT sampleReq := ⟨rfl, rfl, rfl⟩
set_option maxRecDepth 100000 in
example : (implParse (machine gT) (init gT) [] sampleReq.render []).evs = eventsOf sampleReq := by decide
set_option maxRecDepth 100000 in
example : requestsOf (eventsOf sampleReq) = (reqSpec sampleReq).toList := by decide

/-- non-vacuity: a well-formed response, Content-Length framing, several-word reason phrase, on a client parser -/
def sampleResp : Msg :=
  { start := .status (str "HTTP/1.1") (str "404") (str "Not Found "),
    headers := [⟨str "content-length", 1, str "3 "⟩, ⟨str "X-a", 0, []⟩, ⟨str "x-A", 2, str "b  c"⟩],
    body := .fixed (str "abc") }
def gC : Cfg := { isClient := true, maxBody := 3, urlOk := fun _ => true, protoOk := fun _ => true }

example : wfMsg sampleResp = true := by decide
example : roleOk gC sampleResp := ⟨rfl, rfl⟩
set_option maxRecDepth 100000 in
example : (implParse (machine gC) (init gC) [] (sampleResp.render ++ str "HTTP") []).evs = eventsOf sampleResp := by decide
set_option maxRecDepth 100000 in
example : responsesOf (eventsOf sampleResp) = (respSpec sampleResp).toList := by decide
example : rfc7230Framing sampleReq.fields = .chunked [str "X-T"] := by decide
example : closeDecision 1 1 [str "Close "] = true ∧ closeDecision 1 0 [str "Keep-Alive"] = false := by decide

/-- **Known finding HTTP-TRAILER-STRICT (counterexample).** The full statement "every RFC 7230 chunked message is parsed
    to its events" is false on the tree: a request that announces `Trailer: X-T` and sends no trailer field — valid by
    RFC 7230 §4.1.2/§4.4 and accepted by net/http — is rejected with `ErrTrailerExpected` (code 10). `c07_message` is the
    partial statement: its hypothesis `wfMsg` requires every announced trailer exactly once with a non-empty value
    (`trailersWf`). -/
theorem c07_trailer_strict_counterexample :
    (match (implParse (machine gT) (init gT) []
        (str "POST /t HTTP/1.1\r\nHost: x\r\nTrailer: X-T\r\nTransfer-Encoding: chunked\r\n\r\n1\r\na\r\n0\r\n\r\n") []).fin with
      | .inr e => e | .inl _ => 0) = E.trailerExpected.code := by
  decide

/-- non-vacuity of `c07_bodiless_response`: a `304` carrying `Content-Length: 5` and a `100` carrying
    `Transfer-Encoding: chunked`, each followed by an ordinary response — three complete messages, the bodiless ones
    with reported length 0, the successor starting right after their blank line -/
example :
    (implParse (machine gC) (init gC) []
      (str "HTTP/1.1 304 Not Modified\r\nContent-Length: 5\r\n\r\nHTTP/1.1 100 Continue\r\nTransfer-Encoding: chunked\r\n\r\nHTTP/1.1 200 OK\r\nContent-Length: 2\r\n\r\nhi") []).evs =
      [.proto (str "HTTP/1.1"), .status 304 (str "Not Modified"), .header (str "Content-Length") (str "5"), .contentLength 0, .complete,
       .proto (str "HTTP/1.1"), .status 100 (str "Continue"), .header (str "Transfer-Encoding") (str "chunked"), .contentLength 0, .complete,
       .proto (str "HTTP/1.1"), .status 200 (str "OK"), .header (str "Content-Length") (str "2"), .contentLength 2, .body (str "hi"), .complete] := by
  set_option maxRecDepth 100000 in decide

/-- **Known finding HTTP-CLIENT-HEAD (counterexample).** The response to a HEAD request ends with its header section
    (RFC 7230 §3.3.3 rule 1; net/http's `ReadResponse` is told the request). Nothing tells the parser which request a
    response answers — the parser state has no such input — so for the bytes a server sends in reply to `HEAD` then
    `GET` the first five bytes of the second response are delivered as the body of the first, and the rest is rejected. -/
theorem c07_head_response_counterexample :
    let g0 : Cfg := { isClient := true, maxBody := 0, urlOk := fun _ => true, protoOk := fun _ => true }
    let r := implParse (machine g0) (init g0) []
      (str "HTTP/1.1 200 OK\r\nContent-Length: 5\r\n\r\nHTTP/1.1 200 OK\r\nContent-Length: 2\r\n\r\nhi") []
    r.evs = [.proto (str "HTTP/1.1"), .status 200 (str "OK"), .header (str "Content-Length") (str "5"), .contentLength 5,
             .body (str "HTTP/"), .complete] ∧
    (match r.fin with | .inr _ => true | .inl _ => false) = true := by
  set_option maxRecDepth 100000 in decide

/-- **HTTP-CLIENT-HEAD (partial statement).** For responses whose framing fields announce no body (none, or
    `Content-Length: 0`) the request method makes no difference to where the message ends, and `c07_message` applies
    whatever request they answer; so does `c07_bodiless_response` for 1xx / 204 / 304. What is not covered is exactly a
    HEAD response that announces a body it does not carry. -/
theorem c07_head_response_partial (g : Cfg) (m : Msg) (p : P) (rest : Bytes) (acc : List Ev)
    (hI : Idle g p) (hwf : wfMsg m = true) (hrole : roleOk g m) (hempty : m.body.bytes = []) :
    ∃ p', Idle g p' ∧
      specFeed (M g) p [] (m.render ++ rest) acc = specFeed (M g) p' [] rest (acc ++ eventsOf m) :=
  msg_parse g m p rest acc hI hwf hrole (Or.inr (by rw [hempty]; exact Nat.zero_le _))

end Http

/-! ### the body bytes as the handler reads them: `BodyReader` (nbhttp/body.go, `Model/HttpBody.lean`)

The processor appends every body callback to the request's `BodyReader`; the handler reads through `Read`,
`RawBodyBuffers`, `Close`. The reader is a FIFO byte queue for *every* program of appends and reads. -/
namespace HttpBody

/-- C07 (body bytes): for every interleaving of `append`s (any sizes, any allocator capacities, with or without a size
    limit) and `Read`s (any buffer sizes) on an open reader, bytes read so far ++ bytes still held = bytes appended so
    far; the representation invariant holds and `left` is the number of bytes held. -/
theorem c07_body_fifo (maxBody : Nat) (ops : List Op) :
    let s := ops.foldl (step maxBody) ({}, [], [])
    s.2.2 ++ content s.1 = s.2.1 ∧ WF s.1 ∧ s.1.closed = false ∧ s.1.left = (content s.1).length :=
  fifo maxBody ops {} [] [] wf_init rfl rfl

/-- C07 (body bytes): one `Read` returns the next `min len(p) left` bytes; `io.EOF` iff nothing was left; it never
    fails (the loop's fuel is enough, its divergence exit is not taken). -/
theorem c07_body_read (br : BR) (n : Nat) (hw : WF br) (hc : br.closed = false) :
    ∃ br' evs, read br n = some (br', (content br).take n, decide (content br = []), evs) ∧
      WF br' ∧ content br' = (content br).drop n ∧ br'.closed = false :=
  read_spec br n hw hc

/-- C07 (body bytes): `RawBodyBuffers` is the unread bytes -/
theorem c07_body_raw (br : BR) (hw : WF br) : (rawBuffers br).flatten = content br := rawBuffers_spec br hw

/-- C07 (body bytes): `Close` is idempotent, releases each held buffer once, leaves an empty reader; `Read` after
    `Close` is `(0, io.EOF)`. -/
theorem c07_body_close (br : BR) (n : Nat) :
    (close br).1.closed = true ∧ close (close br).1 = ((close br).1, []) ∧
      read (close br).1 n = some ((close br).1, [], true, []) :=
  ⟨(close_spec br).1, (close_spec br).2.1, read_closed _ n (close_spec br).1⟩

/-- non-vacuity: two appends (the second one partly into spare capacity), three reads of sizes 2, 0, 9 -/
example : let s := [Op.append [1, 2, 3] 2, .read 2, .append [4, 5, 6] 0, .read 0, .read 9].foldl (step 0) ({}, [], [])
    s.2.2 = [1, 2, 3, 4, 5, 6] ∧ s.1.buffers = [] ∧ s.1.left = 0 := by decide

end HttpBody
