import NbioVerif.Lemmas.C07Header
/-! C07: HTTP parsing agrees with the reference on well-formed messages (model level).

The message grammar (`Msg`, `Msg.render`, `eventsOf`, `wfMsg`, `reqSpec`/`respSpec`, the two RFC 7230 decision
tables) is in `Model/HttpMsg.lean`; the processor glue (`requestsOf`/`responsesOf`) in `Model/HttpProc.lean`.
Theorems are proved compositionally, one per grammar production, on the byte-at-a-time spec machine; by C06
(`Scan.feedAll_eq_spec`) they hold for the implementation model `implParse` in every segmentation. -/
namespace Http
open Scan

/-- production: request line. From any state waiting for a request, `method SP target SP version CRLF` yields exactly
    the events method, url, proto and leaves the parser at the start of the header section with an empty token. -/
theorem c07_request_line (g : Cfg) (p : P) (tok : Bytes) (m t pr rest : Bytes) (acc : List Ev)
    (hp : p.st = .methodBefore) (hproto : p.proto = [])
    (hm : validMethods.contains m = true)
    (ht : ∃ t0 ts, t = t0 :: ts ∧ (t0 = 47 ∨ t0 = 42) ∧ ∀ c ∈ ts, c ≠ SP)
    (hpr : protoShape pr = true) (hu : g.urlOk t = true) (hv : g.protoOk pr = true) :
    specFeed (M g) p tok (m ++ [SP] ++ t ++ [SP] ++ pr ++ [CR, LF] ++ rest) acc =
      specFeed (M g) { p with st := .headerKeyBefore } [] rest (acc ++ [.method m, .url t, .proto pr]) :=
  request_line g p tok m t pr rest acc hp hproto hm ht hpr hu hv

/-- production: status line `version SP 3DIGIT SP reason CRLF` (reason possibly empty, possibly several words) -/
theorem c07_status_line (g : Cfg) (p : P) (tok : Bytes) (pr code reason rest : Bytes) (acc : List Ev)
    (hp : p.st = .clientProtoBefore) (hproto : p.proto = []) (hstatus : p.status = []) (hsc : p.statusCode = 0)
    (hpr : protoShape pr = true) (hH : pr.head? = some 72) (hv : g.protoOk pr = true)
    (hl : code.length = 3) (hd : code.all isNum = true)
    (hr : reason = [] ∨ ∃ r0 rs, reason = r0 :: rs ∧ isAlpha r0 = true ∧ ∀ c ∈ rs, c ≠ CR) :
    ∃ tok', specFeed (M g) p tok (pr ++ [SP] ++ code ++ [SP] ++ reason ++ [CR, LF] ++ rest) acc =
      specFeed (M g) { p with st := .headerKeyBefore } tok' rest
        (acc ++ [.proto pr, .status (decimal code) (trimRightSpaces reason)]) :=
  status_line g p tok pr code reason rest acc hp hproto hstatus hsc hpr hH hv hl hd hr

/-- production: the header section. Every field line `name ":" SP* value CRLF` yields one header event with the
    canonical name and the value as written; the parser has recorded exactly the values of the three framing fields. -/
theorem c07_header_section (g : Cfg) (hs : List Hdr) (p : P) (tok rest : Bytes) (acc : List Ev)
    (hp : p.st = .headerKeyBefore) (hk : p.hKey = []) (hv : p.hVal = []) (hall : ∀ h ∈ hs, h.parsable) :
    ∃ tok', specFeed (M g) p tok ((hs.map Hdr.render).flatten ++ rest) acc =
      specFeed (M g)
        { p with te := p.te ++ valuesOf (fieldsOf hs) (str "Transfer-Encoding"),
                 tr := p.tr ++ valuesOf (fieldsOf hs) (str "Trailer"),
                 cl := p.cl ++ valuesOf (fieldsOf hs) (str "Content-Length"),
                 headerExists := p.headerExists || !hs.isEmpty }
        tok' rest (acc ++ hs.map (fun h => Ev.header h.key h.evValue)) := by
  obtain ⟨tok', e⟩ := header_lines g hs p tok rest acc hp hk hv hall
  exact ⟨tok', by rw [e, afterHdrs_eq]⟩

/-- non-vacuity: a concrete well-formed request with a chunked body, extensions and a trailer -/
def sampleReq : Msg :=
  { start := .request (str "POST") (str "/a?b=c") (str "HTTP/1.1"),
    headers := [⟨str "host", 1, str "example.com"⟩, ⟨str "Transfer-Encoding", 1, str "chunked"⟩,
                ⟨str "trailer", 0, str "X-T"⟩, ⟨str "connection", 2, str "Close "⟩],
    body := .chunked [⟨str "3", str ";a=b", str "abc"⟩] (str "00") [] [⟨str "x-t", 1, str "v w "⟩] }

/-- server-side configuration with accepting processor verdicts -/
def gT : Cfg := { isClient := false, maxBody := 0, urlOk := fun _ => true, protoOk := fun _ => true }

example : wfMsg sampleReq = true := by decide
set_option maxRecDepth 100000 in
example : (implParse (machine gT) (init gT) [] sampleReq.render []).evs = eventsOf sampleReq := by decide
set_option maxRecDepth 100000 in
example : requestsOf (eventsOf sampleReq) = (reqSpec sampleReq).toList := by decide

end Http
