import NbioVerif.Lemmas.C10Pipe
import NbioVerif.Lemmas.C10Measure
import NbioVerif.Lemmas.C10Close
import NbioVerif.Lemmas.C10Heap
import NbioVerif.Lemmas.C10Client
import NbioVerif.Lemmas.C10Pool
import NbioVerif.Lemmas.C10Refine
import NbioVerif.Properties.C05
/-! # C10 — HTTP exchanges end to end: one answer per request, in order, isolated

(a) `Pipeline`: a server connection (parser → per-conn job queue → response writer, represented by the
    conclusions of C06/C07, C05, C09) under every interleaving of parsing, job execution and closes;
(b) `SharedHeap`: N connections on one buffer pool; (c) `ClientFifo`: the client's callback FIFO.
All statements quantify over every request history / operation sequence / interleaving; no bounds. -/

namespace Pipeline
variable {α : Type}

/-- **Order, exactly once, nothing foreign — safety, every interleaving, closes included.**
    Whatever the history `cfg.reqs`, the I/O mode's executor (`cfg.sync`) and the interleaving of
    `OnComplete`/`Execute`, handler writes, `flushResponse` and arbitrary external closes, the bytes the
    connection has accepted are at every moment a prefix of `resp₁ ++ … ++ respₘ` (m = index of the
    first request whose close decision is true, or all): no response twice, none out of order, none
    after the closing one.  (That no *foreign* byte gets in is not said here — in this model the only
    source of bytes is `cfg.reqs`; foreign bytes are the subject of `SharedHeap.c10_noninterference`
    and of the oracle `c10-foreign`.) -/
theorem c10_wire_prefix (cfg : Cfg α) (acts : List Act) :
    (run cfg init acts).wire <+: ideal cfg :=
  wire_prefix_of_inv (inv_run acts (inv_init cfg))

/-- the run contains no external close -/
theorem run_ext (cfg : Cfg α) : ∀ (acts : List Act) (s : St α), (∀ a ∈ acts, a ≠ Act.extClose) →
    (run cfg s acts).ext = s.ext := by
  intro acts
  induction acts with
  | nil => intro s _; rfl
  | cons a as ih =>
    intro s h
    simp only [run]
    have ha := h a List.mem_cons_self
    have has := fun x hx => h x (List.mem_cons_of_mem _ hx)
    split
    · rename_i s' hs; rw [ih s' has, step_ext a hs ha]
    · exact ih s has

/-
The full statement of the pipeline clause —

    theorem c10_pipeline_full (cfg) (acts) (no extClose in acts) (quiescent (run cfg init acts)) :
        (run cfg init acts).wire = ideal cfg

— is FALSE on the tree as it is: `flushResponse` calls `conn.Close()` right after the last
`conn.Write`, and `Close` releases whatever the conn's write list still holds ("the data may still in
the send queue" says the source).  When the kernel did not take a response in full — any response
larger than the socket buffers, to any reader — the response that carries the close decision is
truncated on the wire.  Witness below; the provable part carries the hypothesis `dropped = false`.
-/

def cexReq : Req Nat := { major := 1, minor := 0, connVals := [], pieces := [[1, 2, 3, 4]] }
def cexCfg : Cfg Nat := { reqs := [cexReq], sync := false }
def cexActs : List Act := [.parse, .start, .write (some 2), .finish]

/-- **Counterexample to the full statement (known finding, close drops the backlog).**  One HTTP/1.0
    request; the kernel takes 2 of the 4 response bytes, the other 2 are queued; the job finishes,
    the close decision closes the connection and the queue is released.  No external close, everything
    parsed and finished — yet the wire holds half the response. -/
theorem c10_pipeline_counterexample :
    (∀ a ∈ cexActs, a ≠ Act.extClose) ∧
    (run cexCfg init cexActs).next = cexCfg.reqs.length ∧ (run cexCfg init cexActs).queue = [] ∧
    (run cexCfg init cexActs).wire = [1, 2] ∧ ideal cexCfg = [1, 2, 3, 4] ∧
    (run cexCfg init cexActs).dropped = true := by
  decide

/-- **The pipeline theorem (provable part).**  If no external close interferes and no close found bytes
    still queued (`dropped = false`), then once every request is parsed and every accepted job has
    finished — in *any* order of the steps, with any short writes and flushes in between — what the
    kernel took plus what is still queued is exactly `resp₁ ++ … ++ respₘ`, and the connection is closed
    iff some request's close decision is true.  (Closed ⇒ nothing is queued, so then the wire itself
    is `resp₁ ++ … ++ respₘ`.) -/
theorem c10_pipeline_partial (cfg : Cfg α) (acts : List Act) (hne : ∀ a ∈ acts, a ≠ Act.extClose)
    (hq : quiescent cfg (run cfg init acts)) (hd : (run cfg init acts).dropped = false) :
    (run cfg init acts).wire ++ (run cfg init acts).pending = ideal cfg ∧
    (run cfg init acts).closed = willClose cfg ∧
    ((run cfg init acts).closed = true → (run cfg init acts).wire = ideal cfg) := by
  have hi := inv_run (cfg := cfg) acts (inv_init cfg)
  have he : (run cfg init acts).ext = false := by rw [run_ext cfg acts init hne]; rfl
  obtain ⟨hn, hqe⟩ := hq
  cases hc : (run cfg init acts).closed with
  | true =>
    rcases hi.why hc with hb | hx
    · obtain ⟨_, h2, _, h4⟩ := hi.by_srv hb
      refine ⟨?_, h2.symm, fun _ => h4 hd⟩
      rw [hi.pend hc, List.append_nil]; exact h4 hd
    · rw [he] at hx; cases hx
  | false =>
    have hcur : (run cfg init acts).cur = none := by
      cases hcu : (run cfg init acts).cur with
      | none => rfl
      | some rem => exact absurd hqe (hi.cur_some rem hcu).1
    have hfin : (run cfg init acts).fin = cfg.reqs.length := by
      have := hi.acc_eq (Or.inl hc); rw [hqe] at this; simp at this; omega
    have hnc := hi.no_close hc
    rw [hfin] at hnc
    obtain ⟨h1, h2⟩ := answered_all cfg.reqs hnc
    refine ⟨?_, by simp [willClose, h2], fun hh => by cases hh⟩
    rw [hi.cur_none hcur hc, hfin, ideal, h1]

/-- **The pipeline theorem at full strength when the kernel takes every write in full** (no short
    write, hence no backlog — e.g. every response of the sampled domain on loopback): the wire is
    exactly `resp₁ ++ … ++ respₘ`, closed iff a closing request exists. -/
theorem c10_pipeline (cfg : Cfg α) (acts : List Act) (hne : ∀ a ∈ acts, a ≠ Act.extClose)
    (hfull : ∀ a ∈ acts, ∀ k, a ≠ Act.write (some k))
    (hq : quiescent cfg (run cfg init acts)) :
    (run cfg init acts).wire = ideal cfg ∧ (run cfg init acts).closed = willClose cfg := by
  have hfd : ∀ (acts : List Act) (s : St α), (∀ a ∈ acts, ∀ k, a ≠ Act.write (some k)) →
      s.pending = [] → s.dropped = false →
      (run cfg s acts).pending = [] ∧ (run cfg s acts).dropped = false := by
    intro acts
    induction acts with
    | nil => intro s _ hp hd; exact ⟨hp, hd⟩
    | cons a as ih =>
      intro s h hp hd
      simp only [run]
      have ha := h a List.mem_cons_self
      have has := fun x hx => h x (List.mem_cons_of_mem _ hx)
      split
      · rename_i s' hs
        obtain ⟨h1, h2⟩ := step_full a hs ha hp hd
        exact ih s' has h1 h2
      · exact ih s has hp hd
  obtain ⟨hp, hd⟩ := hfd acts init hfull rfl rfl
  obtain ⟨h1, h2, _⟩ := c10_pipeline_partial cfg acts hne hq hd
  rw [hp, List.append_nil] at h1
  exact ⟨h1, h2⟩

/-- **The pipeline theorem for histories without a closing request, any kernel behaviour** — the
    hypothesis `dropped = false` of `c10_pipeline_partial` discharged by a condition on the *input*: if no
    request of the history has a true close decision and no external close happens, then under
    arbitrary short writes and flushes nothing is ever dropped, the connection stays open, and at
    quiescence taken ++ queued is exactly `resp₁ ++ … ++ respₙ` (all of them). -/
theorem c10_pipeline_keepalive (cfg : Cfg α) (acts : List Act) (hne : ∀ a ∈ acts, a ≠ Act.extClose)
    (hk : willClose cfg = false) (hq : quiescent cfg (run cfg init acts)) :
    (run cfg init acts).wire ++ (run cfg init acts).pending = ideal cfg ∧
    (run cfg init acts).closed = false ∧ (run cfg init acts).dropped = false := by
  have hi := inv_run (cfg := cfg) acts (inv_init cfg)
  have he : (run cfg init acts).ext = false := by rw [run_ext cfg acts init hne]; rfl
  have hc : (run cfg init acts).closed = false := by
    cases hcl : (run cfg init acts).closed with
    | false => rfl
    | true =>
      rcases hi.why hcl with hb | hx
      · have := (hi.by_srv hb).2.1; rw [hk] at this; cases this
      · rw [he] at hx; cases hx
  have hd : (run cfg init acts).dropped = false := by
    cases hdd : (run cfg init acts).dropped with
    | false => rfl
    | true =>
      have := run_dropped (cfg := cfg) acts init (by intro h; cases h) hdd
      rw [hc] at this; cases this
  exact ⟨(c10_pipeline_partial cfg acts hne hq hd).1, hc, hd⟩

/-- **What `pipedrv` prints is covered**: the driver evaluates `run cfg init acts` for an explicit `acts`
    (schedule letters of the K line ++ `completion k`) and prints a prediction only after the three
    decidable checks below succeeded on that very run.  Then the wire of the run is exactly
    `resp₁ ++ … ++ respₘ` and `closed` says whether a closing request exists. -/
theorem c10_run_checked (cfg : Cfg α) (acts : List Act) (h1 : noExt acts = true)
    (h2 : doneB cfg (run cfg init acts) = true) (h3 : (run cfg init acts).dropped = false) :
    (run cfg init acts).wire = ideal cfg ∧ (run cfg init acts).closed = willClose cfg := by
  have hne : ∀ a ∈ acts, a ≠ Act.extClose := by
    intro a ha
    have := List.all_eq_true.mp h1 a ha
    simpa using this
  simp only [doneB, Bool.and_eq_true, beq_iff_eq, List.isEmpty_iff] at h2
  obtain ⟨⟨hn, hqe⟩, hp⟩ := h2
  obtain ⟨hw, hc, _⟩ := c10_pipeline_partial cfg acts hne ⟨hn, hqe⟩ h3
  rw [hp, List.append_nil] at hw
  exact ⟨hw, hc⟩

/-- **The known-finding path of the driver** (`cut=`: a schedule built from the echoed index of the response
    that broke off): whenever a run without external close ends with `dropped = true`, the connection was
    closed by a request's close decision, a closing request exists, and the wire is a (proper or improper)
    prefix of `resp₁ ++ … ++ respₘ` — the prediction `pipedrv` prints on that path is a truncation of the
    right stream at the closing request, never anything else. -/
theorem c10_run_cut_checked (cfg : Cfg α) (acts : List Act) (h1 : noExt acts = true)
    (hd : (run cfg init acts).dropped = true) :
    (run cfg init acts).wire <+: ideal cfg ∧ (run cfg init acts).closed = true ∧
    (run cfg init acts).byServer = true ∧ willClose cfg = true := by
  have hne : ∀ a ∈ acts, a ≠ Act.extClose := by
    intro a ha
    have := List.all_eq_true.mp h1 a ha
    simpa using this
  have hi := inv_run (cfg := cfg) acts (inv_init cfg)
  have he : (run cfg init acts).ext = false := by rw [run_ext cfg acts init hne]; rfl
  have hc := run_dropped (cfg := cfg) acts init (by intro h; cases h) hd
  rcases hi.why hc with hb | hx
  · exact ⟨wire_prefix_of_inv hi, hc, hb, (hi.by_srv hb).2.1⟩
  · rw [he] at hx; cases hx

/-- the action lists the driver appends contain no external close -/
theorem c10_completion_noExt (k : Nat) : noExt (completion k) = true := by
  induction k with
  | zero => rfl
  | succ k ih =>
    simp only [completion, List.replicate_succ, List.flatten_cons, noExt, List.all_append] at ih ⊢
    simp only [ih, Bool.and_true]
    decide

/-- **The `queue` field is C05's conclusion, cited** (hypothesis of the composition, discharged in this
    closure by the job-queue family's theorems on `ExecQ`, the model tied to `Conn.Execute/execute`):
    in every reachable state of the job queue at most one job is running, the jobs that have run are a
    prefix of the jobs accepted (so accepted = done ++ pending for a FIFO `pending` — what `queue`
    holds), nothing accepted is left when the drainer is gone, and a job only ever submitted through
    `Execute` after the close is never accepted.  (A citation, not a refinement proof: `Pipeline.step`
    is written against this specification, not derived from `ExecQ.step`.) -/
theorem c10_queue_field_is_c05 (as : List ExecQ.Act) :
    let s := ExecQ.run .conn ExecQ.init as
    (ExecQ.runningJobs s).length ≤ 1 ∧ (∃ pending, s.done ++ pending = s.acc) ∧
      (s.drs = [] → s.done = s.acc) := by
  intro s
  obtain ⟨_, h1, _⟩ := ExecQ.c05_one_at_a_time .conn as
  obtain ⟨h2, h3, _⟩ := ExecQ.c05_fifo_exactly_once .conn as
  exact ⟨h1, h2, h3⟩

theorem startsOf_serial (l : List Nat) : startsOf (ExecQ.serial l) = l := by
  induction l with
  | nil => rfl
  | cons j r ih => simp [ExecQ.serial, startsOf, ih]

/-- **Forward simulation of the queue part of `Pipeline` by the `Conn.Execute` job queue** (direction
    `Pipeline` → `ExecQ` only; non-blocking modes, where `parser.Execute` is `nbio.Conn.Execute`).  Read the limits at
    the end of this comment before citing it.  For EVERY action sequence, `execTrace` — the translation of the
    enabled `Pipeline` actions into the `ExecQ` actions they stand for (`parse` ↦ `submit` [+ `spawn` for the head
    job], `start` ↦ `start`, `finish` ↦ `finish` [, `close`], `next`, `extClose` ↦ `close`, `write`/`flush` ↦ nothing)
    — is a run of `ExecQ` (the model the job-queue family ties to `conn.go` with hjobq) that ends in a state related
    to the `Pipeline` state: same closed flag, no index panic, the accepted jobs are the finished ones followed by
    `queue`, `fin` counts the finished ones, `handled` is the list of `job()` entries of the `ExecQ` log, and the job
    running in `ExecQ` is the head of `queue` exactly while `cur` is set.  So every `Pipeline` run has a matching
    `ExecQ` run.  The last four conjuncts are obtained from C05's theorems about that `ExecQ` run
    (`c05_one_at_a_time`, `c05_fifo_exactly_once`) and are WEAKER than those theorems: `handled = done ++ running`,
    at most one running job, `done <+: acc`, and `acc.Nodup → handled.Nodup` whose premise is NOT discharged here —
    i.e. handlers one at a time, in acceptance order, each AT MOST once; C05's completeness conjunct (everything
    accepted is run once the drainer is gone) is not carried over, and `Pipeline`'s own `c10_handlers_in_order`
    (`handled = 0 … h-1`, true by construction of `step`) is stronger.
    Limits.  (1) Direction: this is a forward simulation `Pipeline` → `ExecQ`; there is NO converse — no theorem
    maps an `ExecQ` run (the model hjobq ties to conn.go) to a `Pipeline` schedule, so the `Pipeline` theorems are
    not transferred to the real interleavings of `Conn.Execute`.  (2) `execTrace` is a definition of this proof and
    uses only `submit _ false`, `spawn _ false`, `start`, `finish 0 false`, `next 0 false`, `close` — no
    `MustExecute`, no panicking job, `big = false` —, with submit+spawn and finish[+close]+next fused into one
    `Pipeline` action each (their inner interleavings are not exercised).  (3) The relation covers `queue`,
    `closed`, `fin`, `handled` and the flag `cur.isSome` only — not `next`, `wire`, `pending`, `dropped`,
    `byServer`.  (4) Not covered: the blocking modes (`cfg.sync`, where `Execute` runs the job inline and no
    `ExecQ` exists), and the other two cited components (parser, response writer). -/
theorem c10_queue_refines_execq (cfg : Cfg α) (hsync : cfg.sync = false) (acts : List Act) :
    let s := run cfg init acts
    let e := ExecQ.run .conn ExecQ.init (execTrace cfg init acts)
    e.closed = s.closed ∧ e.crash = false ∧ e.done ++ s.queue = e.acc ∧ e.done.length = s.fin ∧
      startsOf e.log = s.handled ∧
      ExecQ.runningJobs e = (if s.cur.isSome then s.queue.take 1 else []) ∧
      s.handled = e.done ++ ExecQ.runningJobs e ∧ (ExecQ.runningJobs e).length ≤ 1 ∧
      e.done <+: e.acc ∧ (e.acc.Nodup → s.handled.Nodup) := by
  intro s e
  have hr : Rel s e := run_sim cfg hsync acts init ExecQ.init rel_init
  obtain ⟨hcl, hcr, hacc, hfin, hst, hsh⟩ := hr
  have hrun : ExecQ.runningJobs e = (if s.cur.isSome then s.queue.take 1 else []) := by
    rcases hsh with ⟨hd, _, _, hcur⟩ | ⟨x, hd, _, _, hq, hph⟩
    · simp [ExecQ.runningJobs, hd, hcur]
    · rw [ExecQ.runningJobs_one e x hd]
      rcases hph with ⟨hp, hcur⟩ | ⟨hp, hcur⟩
      · simp [hp, hcur]
      · simp [hp, hcur, hq]
  obtain ⟨_, h1, cur, hlog, hcurE⟩ := ExecQ.c05_one_at_a_time .conn (execTrace cfg init acts)
  obtain ⟨hpre, _, hnd⟩ := ExecQ.c05_fifo_exactly_once .conn (execTrace cfg init acts)
  have hlog : e.log = ExecQ.serial e.done ++ cur := hlog
  have hhand : s.handled = e.done ++ ExecQ.runningJobs e := by
    rw [← hst, hlog, startsOf_append, startsOf_serial]
    rcases hcurE with h0 | ⟨j, hj, hrj⟩
    · -- nothing running according to the log: then nothing is running
      rw [h0]
      have : ExecQ.runningJobs e = [] := by
        -- the log ends with a finished job, so no drainer is inside job()
        rcases hsh with ⟨hd, _, _, _⟩ | ⟨x, hd, _, _, _, hph⟩
        · simp [ExecQ.runningJobs, hd]
        · rw [ExecQ.runningJobs_one e x hd]
          rcases hph with ⟨hp, _⟩ | ⟨hp, _⟩
          · simp [hp]
          · -- running drainer: its start is the last log entry, contradiction with cur = []
            exfalso
            have hinv := ExecQ.inv_reach .conn (execTrace cfg init acts)
            rcases hinv.shape with ⟨hd0, _⟩ | ⟨y, hy, di⟩
            · rw [hd0] at hd; cases hd
            · rw [hd] at hy; cases hy
              obtain ⟨p, _, _, _, hl'⟩ := di.runs hp
              have hl0 : e.log = ExecQ.serial e.done := by
                have := hlog; rw [h0, List.append_nil] at this; exact this
              rw [hl0] at hl'
              have := congrArg List.length hl'
              change (ExecQ.serial e.done).length = (ExecQ.serial e.done ++ [ExecQ.Ev.s x.job]).length at this
              simp at this
      rw [this]; simp [startsOf]
    · have hrj : ExecQ.runningJobs e = [j] := hrj
      rw [hj, hrj]; simp [startsOf]
  refine ⟨hcl, hcr, hacc, hfin, hst, hrun, hhand, h1, hpre, ?_⟩
  intro hn
  rw [hhand]
  have hpfx : e.done ++ ExecQ.runningJobs e <+: e.acc := by
    rw [hrun, ← hacc]
    split
    · exact List.prefix_append_right_inj _ |>.mpr (List.take_prefix 1 s.queue)
    · simp
  exact (List.Sublist.nodup hpfx.sublist hn)

/-- **Blocking modes (the other half of the queue clause): every completed request is accepted and run, in request
    order, one at a time.**  With `cfg.sync` (`parser.Execute` = `SyncExecutor`, which calls the job and returns true —
    there is no `ExecQ` to refine) and for EVERY action sequence: the pending jobs are exactly the requests
    `fin, fin+1, …, next-1` — nothing the parser completed was refused or lost, closed connection or not —, the handlers
    entered so far are exactly `0, 1, …, fin-1` plus request `fin` while a job is running (each once, in order, never two
    at a time), and a running job belongs to a request that was parsed.  Quantifies over all schedules, i.e. over more
    interleavings than the inline executor has.  A statement about `Pipeline` alone, read off its invariant (`Inv`):
    it holds because of how `parse` / `finish` are written, it is not derived from a model of the `SyncExecutor`
    (that `Execute` is `f(); return true` there is read off the source).  It is the only theorem of this pair that
    covers `pipedrv`'s blocking-mode runs (see `c10_sync_inline`). -/
theorem c10_queue_sync (cfg : Cfg α) (hsync : cfg.sync = true) (acts : List Act) :
    let s := run cfg init acts
    s.queue = List.range' s.fin (s.next - s.fin) ∧ s.fin ≤ s.next ∧
      s.handled = List.range (s.fin + (if s.cur.isSome then 1 else 0)) ∧
      (s.cur.isSome = true → s.fin < s.next) := by
  intro s
  have hi : Inv cfg s := inv_run acts (inv_init cfg)
  have hacc := hi.acc_eq (Or.inr hsync)
  have hlen : s.queue.length = s.next - s.fin := by omega
  refine ⟨by rw [← hlen]; exact hi.q_range, by omega, hi.handled, ?_⟩
  intro hc
  cases hcur : s.cur with
  | none => rw [hcur] at hc; cases hc
  | some rem =>
    obtain ⟨hne, _⟩ := hi.cur_some rem hcur
    have : s.queue.length ≠ 0 := by
      intro h0; exact hne (List.eq_nil_of_length_eq_zero h0)
    omega

/-- **Blocking modes, inline discipline**: the goroutine that parses is the one that runs the job, so a request is
    completed only while no job is pending (`inlineSched`: every `parse` of the schedule finds the queue empty).  Then
    `Pipeline`'s queue degenerates to a call: it never holds more than the one job being run, the parser is never more
    than one request ahead of the finished jobs, and the handlers entered are `0 … fin-1` plus the running one —
    acceptance order = run order = request order, with no queueing at all.
    NOT tied to the driver: `inlineSched` is a hypothesis that `pipedrv` never evaluates and that NONE of its runs
    satisfies — `mkCfg` gives every response two conn writes (so `finish` is not enabled after the single `write` of a
    `completion` round and the next round's `parse` finds the queue non-empty) and `forcedActs` parses everything
    first.  The theorem describes what the inline executor's schedules would give on the model; no printed
    prediction rests on it. -/
theorem c10_sync_inline (cfg : Cfg α) (hsync : cfg.sync = true) (acts : List Act)
    (hin : inlineSched cfg init acts) :
    let s := run cfg init acts
    s.queue.length ≤ 1 ∧ s.next ≤ s.fin + 1 ∧ s.queue = (if s.next = s.fin then [] else [s.fin]) ∧
      s.handled = List.range (s.fin + (if s.cur.isSome then 1 else 0)) := by
  intro s
  have hl : s.queue.length ≤ 1 := inline_queue_len cfg acts init hin (by simp [init])
  obtain ⟨hq, hle, hh, _⟩ := c10_queue_sync cfg hsync acts
  have hq : s.queue = List.range' s.fin (s.next - s.fin) := hq
  have hle : s.fin ≤ s.next := hle
  have hlen : s.next - s.fin ≤ 1 := by
    have := congrArg List.length hq
    simp at this
    omega
  refine ⟨hl, by omega, ?_, hh⟩
  by_cases he : s.next = s.fin
  · rw [hq, if_pos he, he]; simp
  · have h1 : s.next - s.fin = 1 := by omega
    rw [hq, if_neg he, h1]; rfl

/-- the driver's completion rounds on a two-request history with one write each -/
def inlineWitness : Cfg Nat :=
  { reqs := [{ major := 1, minor := 1, connVals := [], pieces := [[1, 2]] },
             { major := 1, minor := 1, connVals := [], pieces := [[3]] }], sync := true }

/-- `c10_sync_inline` is not vacuous: `completion` rounds respect the inline discipline on a hand-made history whose
    responses are ONE conn write each, and run both handlers in order.  This is not one of the driver's runs: the
    configurations `pipedrv` builds (`mkCfg`) have two writes per response and do not satisfy `inlineSched`. -/
theorem c10_sync_inline_witness :
    inlineSched inlineWitness init (completion 2) ∧
      (run inlineWitness init (completion 2)).handled = [0, 1] ∧
      (run inlineWitness init (completion 2)).wire = [1, 2, 3] := by
  refine ⟨?_, by decide, by decide⟩
  simp [inlineSched, completion, round, step, init, inlineWitness, Req.close, closeDecision, scanConn]

/-- **Nothing is written after the close** (whoever closed): from a closed state on, no step changes
    the wire, and the connection stays closed. -/
theorem c10_nothing_after_close (cfg : Cfg α) (acts : List Act) :
    ∀ (s : St α), s.closed = true → (run cfg s acts).wire = s.wire ∧ (run cfg s acts).closed = true := by
  induction acts with
  | nil => intro s hc; exact ⟨rfl, hc⟩
  | cons a as ih =>
    intro s hc
    simp only [run]
    split
    · rename_i s' hs
      obtain ⟨h1, h2⟩ := step_closed a hs hc
      obtain ⟨h3, h4⟩ := ih s' h1
      exact ⟨h3.trans h2, h4⟩
    · exact ih s hc

/-- **Closed by the server ⇒ a closing request exists, at least `m` jobs have finished, and — unless the
    close found bytes still queued — the whole of `resp₁ ++ … ++ respₘ` went out** (the close decision is
    acted on only after the response of that request, and of all earlier ones, was written). -/
theorem c10_server_close (cfg : Cfg α) (acts : List Act) (h : (run cfg init acts).byServer = true) :
    willClose cfg = true ∧ answered cfg.reqs ≤ (run cfg init acts).fin ∧
    ((run cfg init acts).dropped = false → (run cfg init acts).wire = ideal cfg) := by
  obtain ⟨_, h2, h3, h4⟩ := (inv_run acts (inv_init cfg)).by_srv h
  exact ⟨h2, h3, h4⟩

/-- **A close never comes from nowhere**: a closed connection was closed by a request's close decision
    or by an external close. -/
theorem c10_close_cause (cfg : Cfg α) (acts : List Act) (h : (run cfg init acts).closed = true) :
    (run cfg init acts).byServer = true ∨ (run cfg init acts).ext = true :=
  (inv_run acts (inv_init cfg)).why h

/-- **Each handler at most once, in request order**: the handlers invoked so far are `0,1,…,h-1`. -/
theorem c10_handlers_in_order (cfg : Cfg α) (acts : List Act) :
    ∃ h, (run cfg init acts).handled = List.range h :=
  ⟨_, (inv_run acts (inv_init cfg)).handled⟩

/-- **No deadlock**: in every reachable state either everything is done or some step of the
    connection itself (not an external close) is enabled. -/
theorem c10_progress (cfg : Cfg α) (acts : List Act) :
    quiescent cfg (run cfg init acts) ∨
      ∃ a, a ≠ Act.extClose ∧ (step cfg (run cfg init acts) a).isSome = true := by
  have hi := inv_run (cfg := cfg) acts (inv_init cfg)
  generalize run cfg init acts = s at hi
  by_cases hn : s.next < cfg.reqs.length
  · right; refine ⟨.parse, by decide, ?_⟩
    simp only [step, hn, if_true]; split <;> rfl
  · have hn' : s.next = cfg.reqs.length := by have := hi.next_le; omega
    cases hq : s.queue with
    | nil => left; exact ⟨hn', hq⟩
    | cons k t =>
      right
      obtain ⟨hk, _⟩ := head_of_range' hi.q_range hq
      cases hc : s.cur with
      | none =>
        refine ⟨.start, by decide, ?_⟩
        have hlt : k < cfg.reqs.length := by
          have := hi.acc_le; rw [hq] at this; simp at this; omega
        simp [step, hc, hq, List.getElem?_eq_getElem hlt]
      | some rem =>
        cases rem with
        | nil => exact ⟨.finish, by decide, by simp [step, hc, hq]⟩
        | cons p ps =>
          refine ⟨.write none, by decide, ?_⟩
          simp only [step, hc]
          split
          · rfl
          · split <;> rfl

/-- **Every step of the connection itself makes progress**: the measure `mu` (steps still owed to the
    requests not yet parsed, the queued jobs, the running job's writes, plus the bytes still to flush)
    strictly decreases with every parse / start / write / flush / finish, from any state.  With
    `c10_progress`: under any scheduler that keeps taking enabled steps a connection reaches quiescence
    after at most `mu cfg init` own steps — every request is eventually parsed and its job finished
    (liveness in safety form; fairness of the real executors and pollers is assumed, not proved). -/
theorem c10_terminates (cfg : Cfg α) (s s' : St α) (a : Act) (hs : step cfg s a = some s')
    (ha : a ≠ Act.extClose) : mu cfg s' < mu cfg s :=
  mu_decreases cfg s s' a hs ha

/-- **`closeDecision` is RFC 7230 §6.3** on the agreed domain (each `Connection` header line carries a
    single option: no comma, no tab), for every version and every list of header lines:
    the connection is closed after the response iff the RFC says it does not persist. -/
theorem c10_close_rfc (major minor : Nat) (vals : List Bytes) (h : ∀ v ∈ vals, Simple v) :
    closeDecision major minor vals = !rfcPersist major minor (options vals) := by
  have hc : sClose ≠ [] := by decide
  have hk : sKeepAlive ≠ [] := by decide
  simp only [closeDecision, rfcPersist, contains_options vals sClose hc h,
    contains_options vals sKeepAlive hk h]
  have h1 := scanConn_fst vals false
  by_cases hm : major < 1
  · have : ¬ (major > 1) := by omega
    have h2 : (major == 1) = false := by simp; omega
    simp [hm, this, h2]
  · simp only [hm, if_false]
    cases hcl : vals.any (fun v => lower (trimSp v) == sClose) with
    | true => simp [h1, hcl]
    | false =>
      rw [hcl] at h1
      have h2 := scanConn_snd vals false h1
      simp only [Bool.false_or] at h2
      by_cases h10 : major = 1 ∧ minor = 0
      · obtain ⟨ha, hb⟩ := h10
        subst ha; subst hb
        simp only [h1, h2, Bool.false_or]
        cases hka : vals.any (fun v => lower (trimSp v) == sKeepAlive) <;> simp
      · have hv : (major == 1 && minor == 0) = false := by
          simp only [Bool.and_eq_false_iff, beq_eq_false_iff_ne]
          by_cases hm1 : major = 1
          · right; intro hh; exact h10 ⟨hm1, hh⟩
          · left; exact hm1
        have hp : (decide (major > 1) || (major == 1 && decide (minor ≥ 1))) = true := by
          by_cases hm1 : major = 1
          · subst hm1
            have : minor ≠ 0 := fun hh => h10 ⟨rfl, hh⟩
            simp; omega
          · have : major > 1 := by omega
            simp [this]
        simp [hv, h1, hp]

/-- Outside that domain the rule deviates: `Connection: keep-alive, close` (one header line carrying a
    list) on HTTP/1.1 must not persist, yet the decision is "keep open" — the loop compares whole
    header lines.  (Candidate defect #15; the statement `∀ vals, closeDecision … = !rfcPersist …` is
    therefore false without `Simple`.) -/
theorem c10_close_rfc_list_counterexample :
    ∃ vals : List Bytes, closeDecision 1 1 vals = false ∧ rfcPersist 1 1 (options vals) = false :=
  ⟨[[107, 101, 101, 112, 45, 97, 108, 105, 118, 101, 44, 32, 99, 108, 111, 115, 101]], by decide, by decide⟩

/-! non-vacuity -/

/-- three pipelined requests (keep-alive, close, one more): answered = 2, closed, for an interleaving
    that parses everything before the first job starts (so the third handler still runs — on a closed
    connection, its writes fail and nothing reaches the wire), with a short write and a backlog that
    is flushed before the closing job finishes -/
def exReq (i : Nat) (cl : Bool) : Req Nat :=
  { major := 1, minor := 1, connVals := if cl then [sClose] else [], pieces := [[i], [i + 10]] }
def exCfg : Cfg Nat := { reqs := [exReq 1 false, exReq 2 true, exReq 3 false], sync := false }
def exEnd : St Nat :=
  run exCfg init [.parse, .parse, .parse, .start, .write (some 0), .write none, .flush 1, .finish, .start,
    .write none, .flush 5, .write none, .finish, .start, .write none, .write none, .finish]

example : exEnd.wire = [1, 11, 2, 12] ∧ exEnd.closed = true ∧ ideal exCfg = [1, 11, 2, 12] ∧
    exEnd.next = exCfg.reqs.length ∧ exEnd.queue = [] ∧ exEnd.handled = [0, 1, 2] ∧ exEnd.dropped = false := by
  decide

example : closeDecision 1 0 [] = true ∧ closeDecision 1 0 [[75, 101, 101, 112, 45, 65, 108, 105, 118, 101]] = false ∧
    closeDecision 1 1 [[32, 67, 76, 79, 83, 69, 32]] = true ∧ closeDecision 0 9 [] = true ∧ closeDecision 2 0 [] = false := by
  decide

end Pipeline

namespace SharedHeap

/-- **Non-interference.**  Take any interleaving of the buffer operations of any number of
    connections on one shared pool.  If it is fault-free — no connection touches a buffer it does not
    own (what C11 is about), none reads bytes it did not write (`staleRead`: established by no theorem of
    C11; it rests on C09's differential and `c10-foreign`), and the allocator never hands out a live
    buffer (C20) — then for every connection `a`: its own operations alone, run from the initial heap,
    are fault-free too, and hand exactly the same buffers, call by call, to `a`'s `conn.Write` — the
    `pieces` of the pipeline model (a).  The projection of the interleaved run to `a` is `a`'s solo
    run.  With `Pipeline.c10_wire_prefix` for `a` alone: under any number of concurrent connections
    what `a`'s peer receives is a prefix of `a`'s own `resp₁ ++ … ++ respₘ`. -/
theorem c10_noninterference (a : Cid) (acts : List (Cid × Op)) (g' : G) (h : run init acts = .ok g') :
    ∃ s', run init (proj a acts) = .ok s' ∧ s'.wire a = g'.wire a := by
  obtain ⟨s', h1, h2⟩ := sim_run a acts init init g' (sim_init a) h
  exact ⟨s', h1, h2.wire.symm⟩

def faultOf : Except Fault G → Option Fault
  | .ok _ => none
  | .error f => some f

def exUaf : List (Cid × Op) :=
  [(0, .malloc 7 0), (0, .append 7 [1, 2]), (0, .send 7), (0, .free 7), (0, .reset 7),
   (1, .malloc 7 0), (1, .append 7 [0xBB]),
   (0, .append 7 [3]), (0, .send 7)]

def exStale : List (Cid × Op) :=
  [(1, .malloc 7 0), (1, .append 7 [0xBB, 0xBB]), (1, .send 7), (1, .free 7),
   (0, .malloc 7 2), (0, .append 7 [5]), (0, .send 7)]

def exGood : List (Cid × Op) :=
  [(0, .malloc 7 4), (0, .reset 7), (0, .append 7 [1]), (0, .send 7), (0, .free 7),
   (1, .malloc 7 4), (1, .reset 7), (1, .append 7 [9]), (1, .send 7), (1, .free 7)]

/-- The ownership hypothesis is necessary — the mechanism of defect #8 (`writeChunk` frees the head
    buffer, then keeps appending to it and sends it): connection 0 frees buffer 7 and uses it again,
    connection 1 is handed buffer 7 in between.  Unchecked, connection 0's wire differs from its solo
    run and carries connection 1's bytes (`0xBB`). -/
theorem c10_noninterference_uaf_counterexample :
    (runU init exUaf).wire 0 = [[1, 2], [0xBB, 3]] ∧ (runU init (proj 0 exUaf)).wire 0 = [[1, 2], [3]] ∧
      faultOf (run init exUaf) = some .notOwner := by
  refine ⟨by decide, by decide, by decide⟩

/-- … and so is the initialised-read hypothesis — the mechanism of defect #16 (`Malloc(totalSize)` used
    without resetting its length): the bytes connection 1 left in the pooled buffer go out on
    connection 0's wire. -/
theorem c10_noninterference_stale_counterexample :
    (runU init exStale).wire 0 = [[0xBB, 0xBB, 5]] ∧ (runU init (proj 0 exStale)).wire 0 = [[0, 0, 5]] ∧
      faultOf (run init exStale) = some .staleRead := by
  refine ⟨by decide, by decide, by decide⟩

/-- non-vacuity for the allocation pattern `Malloc(len(d)); copy(*p, d); conn.Write(*p); Free(p)`
    (`newToWriteBuf`, `BodyReader.append`): `fill` with all of the length makes the buffer clean -/
example : faultOf (run init [(0, .malloc 7 2), (0, .fill 7 [8, 9]), (0, .send 7), (0, .free 7),
      (1, .malloc 7 2), (1, .fill 7 [4, 5]), (1, .send 7)]) = none ∧
    faultOf (run init [(0, .malloc 7 2), (0, .fill 7 [8, 9]), (0, .free 7),
      (1, .malloc 7 2), (1, .fill 7 [4]), (1, .send 7)]) = some .staleRead := by
  decide

/-- non-vacuity: two connections recycling the same buffer correctly -/
example : faultOf (run init exGood) = none ∧ (runU init exGood).wire 0 = [[1]] ∧ (runU init exGood).wire 1 = [[9]] := by
  decide

end SharedHeap

namespace ClientFifo

/-- **Each `Do` callback exactly once.**  After any sequence of `Do` (with any dial/write outcome),
    responses from any connection, timeouts, closes and resets: the callbacks invoked so far together
    with those still pending are exactly the `Do` calls made, each once.  Hence no callback is ever
    invoked twice, and whenever nothing is pending (in particular after `CloseWithError`) every `Do`
    has had its callback exactly once. -/
theorem c10_client_exactly_once (ops : List Op) :
    let s := run {} ops
    (called s ++ s.handlers).Perm (List.range s.nextId) ∧ (called s).Nodup ∧
      (s.handlers = [] → (called s).Perm (List.range s.nextId)) := by
  have hi := inv_run ops {} inv_init
  refine ⟨hi.once, ?_, ?_⟩
  · have := (hi.once.nodup_iff).mpr List.nodup_range
    exact (List.nodup_append.mp this).1
  · intro h; have := hi.once; rw [h] at this; simpa using this

/-- A closed ClientConn holds no pending callback, and `Do` on it calls back at once (with
    `ErrClientClosed`). -/
theorem c10_client_closed (ops : List Op) (h : (run {} ops).closed = true) :
    (run {} ops).handlers = [] := by
  have hi := inv_run ops {} inv_init
  exact hi.none_empty (hi.closed_conn h)

instance decOk (s : St) (op : Op) : Decidable (okOp s op) := by
  cases op <;> simp only [okOp] <;> exact inferInstance

instance decEnv : (s : St) → (ops : List Op) → Decidable (EnvOK s ops)
  | _, [] => isTrue trivial
  | s, op :: ops => by
    simp only [EnvOK]
    exact @instDecidableAnd _ _ (decOk s op) (decEnv (step s op) ops)

/-- **Every failure path empties the pending list** — `closeWithErrorWithoutLock` (`failAll`) is the one
    place where callbacks are failed, and it drops the list whether or not a connection exists
    (`c.handlers = nil` is not part of the `if c.conn != nil` cleanup).  In particular a `Do` whose
    dial fails on a ClientConn without connection (refused, timed out, proxy or TLS-handshake error:
    `c.conn == nil`, `closed` stays false) calls back every pending request and itself once with the
    error and leaves nothing queued, so the next `Do` on the same ClientConn — the pool hands it out
    again — starts from an empty list.  (`c10_client_exactly_once` quantifies over these steps too:
    `do_ false _` is an ordinary operation of the model.) -/
theorem c10_client_failed_dial (s : St) (sendOk : Bool) (hc : s.closed = false) (hn : s.conn = none) :
    (step s (.do_ false sendOk)).handlers = [] ∧ (step s (.do_ false sendOk)).conn = none ∧
    (step s (.do_ false sendOk)).closed = false ∧
    (step s (.do_ false sendOk)).calls = s.calls ++ (s.handlers ++ [s.nextId]).map (fun h => (h, Out.err)) := by
  simp [step, hc, hn, failAll, push]

/-- regression of seeded mutation C10-b (handlers kept when the failure happens without a connection):
    two requests whose dial fails, then a third that connects and is answered — each callback exactly
    once, the first two with the error, the third with its own response, nothing pending. -/
example :
    let s := run {} [Op.do_ false true, .do_ false true, .do_ true true, .onResponse 0 false]
    s.calls = [(0, .err), (1, .err), (2, .resp (some 2))] ∧ s.handlers = [] ∧
    EnvOK {} [Op.do_ false true, .do_ false true, .do_ true true, .onResponse 0 false] := by
  decide

/-- **The k-th callback gets the k-th response or an error** — for every sequence of `Do` (any dial /
    write outcome), responses and close notifications from *any* connection, old or current, timeouts,
    user closes and resets.  The only hypothesis, `EnvOK`, is about the server at the other end of the
    *current* connection: it sends a response only for a request that was written to that connection
    (C10 (a): exactly one response per request, in order).  Then every callback that is invoked with a
    response is invoked with the response that answers *its* request. -/
theorem c10_client_match (ops : List Op) (henv : EnvOK {} ops) :
    ∀ c ∈ (run {} ops).calls, ∀ lbl, c.2 = Out.resp lbl → lbl = some c.1 :=
  (match_run ops {} inv_init match_init henv).labels

/-- **A connection the ClientConn has replaced cannot touch its successor's requests**: a response read
    from, or the end of, any connection other than the current one changes neither the pending
    callbacks nor the invoked ones.  (On the pinned tree `onResponse` / the parser's close callback did
    not know their connection: a late response of the old connection was handed to the oldest request
    waiting on the new one, and the old connection's end failed the new one's requests — observed on
    the real client by `he2e`; repaired by a `fix:` commit, this theorem is about the repaired code.) -/
theorem c10_client_stale_ignored (s : St) (e : Nat) (x : Bool) (h : s.conn ≠ some e) :
    (step s (.onResponse e x)).calls = s.calls ∧ (step s (.onResponse e x)).handlers = s.handlers ∧
    (step s (.onResponse e x)).conn = s.conn ∧ step s (.connClosed e) = s := by
  have hb : (s.conn == some e) = false := by simpa using h
  simp [step, hb, deliver]

/-- regression of the observed failure: request 0 is written to connection 0; the write of request 1
    fails (`closeWithErrorWithoutLock`: both callbacks get the error, `c.conn = nil`); request 2 dials
    connection 1; then connection 0's already queued response job runs and connection 0 ends.  Request 2
    is untouched: still pending, never called. -/
example :
    let s := run {} [Op.do_ true true, .do_ true false, .do_ true true, .onResponse 0 false, .connClosed 0]
    s.calls = [(0, .err), (1, .err)] ∧ s.handlers = [2] ∧ s.conn = some 1 ∧ s.closed = false := by
  decide

/-- non-vacuity: three pipelined requests, answered in order, then the server closes -/
def exOps : List Op :=
  [.do_ true true, .do_ true true, .do_ true true, .onResponse 0 false, .onResponse 0 false, .connClosed 0]

example : EnvOK {} exOps ∧ (run {} exOps).calls = [(0, .resp (some 0)), (1, .resp (some 1)), (2, .err)] := by
  decide

end ClientFifo

namespace ClientPool

/-- **A ClientConn is in exactly one place**: after any sequence of requests entering `getConn`, callbacks
    releasing their conn, waiter time-outs and conns being marked closed, every ClientConn created so far
    is either in the free channel or handed to a request — never both, never twice — and nothing else
    is in those lists. -/
theorem c10_pool_one_place (max : Nat) (ops : List Op) :
    let s := run max {} ops
    (s.idle ++ s.busy).Perm (List.range s.count) ∧ s.idle.Nodup ∧ s.busy.Nodup ∧
      (∀ c, c ∈ s.idle → c ∉ s.busy) := by
  intro s
  have hi := inv_run (max := max) ops (inv_init max)
  have hn : (s.idle ++ s.busy).Nodup := (hi.conns.nodup_iff).mpr List.nodup_range
  obtain ⟨h1, h2, h3⟩ := List.nodup_append.mp hn
  exact ⟨hi.conns, h1, h2, fun c hc hb => h3 c hc c hb rfl⟩

/-- **Per host at most `MaxConnsPerHost` ClientConns**, all accounted for: free + in use = created ≤ max.
    In particular the free channel (capacity max) never overflows: `releaseConn`'s send, which runs
    inside the callback under the ClientConn's mutex, cannot block. -/
theorem c10_pool_bound (max : Nat) (ops : List Op) :
    let s := run max {} ops
    s.idle.length + s.busy.length = s.count ∧ s.count ≤ max ∧ s.idle.length ≤ max := by
  intro s
  have hi := inv_run (max := max) ops (inv_init max)
  have hl : s.idle.length + s.busy.length = s.count := by
    have := hi.conns.length_eq
    simpa only [List.length_append, List.length_range] using this
  have hb : s.count ≤ max := hi.bound
  exact ⟨hl, hb, by omega⟩

/-- **Every request is assigned to exactly one ClientConn, or waits, or failed with the time-out** —
    exactly one of the three, once. -/
theorem c10_pool_assigned_once (max : Nat) (ops : List Op) :
    let s := run max {} ops
    (s.assigned.map (·.1) ++ s.waiting ++ s.failed).Perm (List.range s.nreq) ∧
      (s.assigned.map (·.1)).Nodup := by
  intro s
  have hi := inv_run (max := max) ops (inv_init max)
  have hn : (s.assigned.map (·.1) ++ s.waiting ++ s.failed).Nodup := (hi.reqs.nodup_iff).mpr List.nodup_range
  have h1 := (List.nodup_append.mp hn).1
  exact ⟨hi.reqs, (List.nodup_append.mp h1).1⟩

/-- **No request waits while a ClientConn is free or could be created.** -/
theorem c10_pool_no_idle_wait (max : Nat) (ops : List Op) (h : (run max {} ops).waiting ≠ []) :
    (run max {} ops).idle = [] ∧ (run max {} ops).count = max :=
  (inv_run (max := max) ops (inv_init max)).wait h

/-- **A ClientConn marked closed is reset before it carries a request**: the hand-over (`hc.Reset()`
    in `Client.Do`) clears the mark, the ClientConn dials a new connection — the dead connection of a
    ClientConn whose close has been noticed is never written to.  (A close that has *not* been noticed
    yet when the next request is handed over is outside this statement: the request is written to the
    dying connection and its callback gets an error, which the property allows.) -/
theorem c10_pool_reset_before_use (s : St) (r c : Nat) : c ∉ (assign s r c).dead := by
  simp [assign]

/-- The exactly-once guarantee of the callbacks (`ClientFifo.c10_client_exactly_once`) is what the
    pool rests on: a second release of the same ClientConn puts it into the free channel twice, and
    two requests are then handed the same ClientConn at the same time. -/
theorem c10_pool_double_release_counterexample :
    let s1 := run 2 {} [.get, .release 0]
    let s2 := run 2 (releaseUnchecked s1 0) [.get, .get]
    s2.busy = [0, 0] ∧ s2.assigned = [(0, 0), (1, 0), (2, 0)] := by
  decide

/-- non-vacuity: three requests on a pool of two, the third waits and gets the first released conn,
    which had been marked closed meanwhile and is reset -/
example :
    let s := run 2 {} [.get, .get, .get, .connClosed 1, .release 1, .release 0]
    s.assigned = [(0, 0), (1, 1), (2, 1)] ∧ s.idle = [0] ∧ s.busy = [1] ∧ s.waiting = [] ∧
      s.redials = [2] ∧ s.dead = [] := by
  decide

end ClientPool
