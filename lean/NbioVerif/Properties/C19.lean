import NbioVerif.Lemmas.C19Pool
import NbioVerif.Properties.C05
/-! C19: executors — tasks run exactly once, within the bound, FIFO where promised.

Task pool (`TPool`, model of taskpool/taskpool.go **with** the repair of the dispatcher's missing
decrement; `g.leak = false`).  All theorems quantify over every action sequence `as` of the
transition system, i.e. over all submission patterns (bursts above the bound, queue full,
submissions racing `Stop`), task durations and interleavings of submitters, workers and dispatcher.

* `c19_bound`               tasks inside `f()` at the same time ≤ configured bound (bound ≥ 1)
* `c19_conservation`        every task handed over is in exactly one of {`Go` in flight, queue, a worker,
                            the dispatcher, done, dropped-at-Stop} — as a permutation of `handed`
* `c19_at_most_once`        distinct tasks: nothing runs twice, nothing that ran is still pending
* `c19_counter`, `c19_idle_counter_zero`   the counter equation; idle ∧ not stopped ⇒ `concurrent = 0`
* `c19_parallelism`         from an idle pool, as many mutually waiting tasks as a fresh pool runs together
                            (maxC − 1 on workers plus one on the dispatcher) run together again
* `c19_parallelism_new`     the same for `taskpool.New(n, q)` by name: `n - 2` on workers (+1 on the dispatcher)
* `c19_call_accepts`, `c19_call_ends`, `c19_call_outside_bound`   `TaskPool.Call`: never refuses (also after `Stop`), never
                            touches counter / queue / workers / dispatcher, is not subject to the bound; a called task can
                            always end and is `done` then; called tasks take part in conservation, exactly-once and completion
* `c19_panic_contained`     a panicking task leaves worker/dispatcher exactly where a returning one does
* `c19_no_stuck`            with or without `Stop`: while a task is owed a run or running some internal step or task
                            end is enabled (no deadlock, no stranded task)
* `c19_completes`           with or without `Stop`: a finite continuation of the pool's own steps exists after which
                            nothing is owed or running and `done ++ dropped ++ stranded` is a permutation of `handed`;
                            every internal step decreases a measure
* `c19_lost_only_racing_stop`   dropped / stranded tasks come from `Go` calls that raced or followed `Stop` (`inflight`)
* `c19_handed_before_stop_runs` a task whose `Go` had returned before `Stop` closed the pool runs, whatever follows
* `c19_completes_without_stop`  corollary: without `Stop`, `done` is a permutation of `handed`
* `c19_dropped_only_after_stop`
* `c19_leak_counterexample`, `c19_serial_after_leak`   the pinned tree (`leak = true`): idle with counter 1,
                            after which two mutually waiting tasks can never run together  (repaired: `fix:` commit)
* `c19_stop_drop_counterexample`   before the repair of the dispatcher (`nodrain = true`) the full statement failed: a
                            queued task was stranded when the dispatcher took `<-chClose` (former finding C19-stop-drop)

`timer.Async` (`ExecQ` with `Kind.async`): `c19_async_fifo_exactly_once`, `c19_async_one_at_a_time`,
`c19_async_completes`. -/
namespace TPool

theorem length_flatMap_wTask (l : List WPh) : (l.flatMap wTask).length ≤ l.length := by
  induction l with
  | nil => simp
  | cons x xs ih =>
    have : (wTask x).length ≤ 1 := by cases x <;> simp [wTask]
    simp only [List.flatMap_cons, List.length_append, List.length_cons]; omega

theorem flatMap_running (ts : List Nat) : (ts.map WPh.running).flatMap wTask = ts := by
  induction ts with
  | nil => rfl
  | cons t ts ih => simp [List.flatMap_cons, wTask, ih]

theorem length_dRun (d : Disp) : (dRun d).length ≤ 1 := by cases d <;> simp [dRun]

theorem cinv_reach (g : Cfg) (hl : g.leak = false) (as : List Act) : CInv g (run g init as) :=
  cinv_run g hl as init (cinv_init g)

/-- Bound: with `taskpool.New(n, q)`, `n ≥ 1`, never more than `n` tasks are inside `f()` at the same
    time (in fact never more than `max 1 (n-1)`: `n-2` workers and the dispatcher). -/
theorem c19_bound (n cap : Nat) (hn : 1 ≤ n) (as : List Act) :
    (runningTasks (run { maxC := (n : Int) - 1, cap := cap } init as)).length ≤ n := by
  have h := cinv_reach { maxC := (n : Int) - 1, cap := cap } rfl as
  generalize run { maxC := (n : Int) - 1, cap := cap } init as = s at h ⊢
  have hw := length_flatMap_wTask s.workers
  have hd := length_dRun s.disp
  simp only [runningTasks, List.length_append]
  rcases h.bound with hb | hb
  · rw [hb] at hw ⊢; simp at hw ⊢; omega
  · simp only at hb; omega

/-- The number of worker goroutines stays below `maxConcurrent` (or is zero). -/
theorem c19_workers_bound (g : Cfg) (hl : g.leak = false) (as : List Act) :
    let s := run g init as
    s.workers = [] ∨ (s.workers.length : Int) < g.maxC := (cinv_reach g hl as).bound

/-- The counter equation: `concurrent` = worker goroutines + failed-fork increments not yet undone
    (`Go` calls and dispatcher) + `Stop`'s addend. -/
theorem c19_counter (g : Cfg) (hl : g.leak = false) (as : List Act) :
    let s := run g init as
    s.conc = (s.workers.length : Int) + (nFailed s : Int) + (dFailed s : Int) + stopTerm g s :=
  (cinv_reach g hl as).counter

/-- Idle ⇒ counter = 0: once no worker goroutine exists, no `Go` is in flight and the dispatcher is
    back in its `select`, the counter is exactly 0 again — whatever overload happened before. -/
theorem c19_idle_counter_zero (g : Cfg) (hl : g.leak = false) (as : List Act) :
    idle (run g init as) → (run g init as).stopAdd = false → (run g init as).conc = 0 := by
  have h := (cinv_reach g hl as).counter
  generalize run g init as = s at h ⊢
  intro hi hs
  obtain ⟨hw, _, hg, hd⟩ := hi
  simp [hw, hg, hd, hs, nFailed, dFailed, stopTerm] at h
  exact h

/-- Conservation: the tasks handed over so far are, as a multiset, exactly the tasks found in a `Go`
    call in flight, in the queue, on a worker, in the dispatcher's hands, done, or dropped at `Stop`. -/
theorem c19_conservation (g : Cfg) (as : List Act) :
    (allTasks (run g init as)).Perm (run g init as).handed :=
  List.perm_iff_count.mpr (cons_run g as init cons_init)

/-- Exactly-once, safety half: if the tasks handed over are pairwise distinct then no task is in two
    places at once and none is in one place twice; in particular a task never runs twice, and a task
    that has run is neither queued nor running any more. -/
theorem c19_at_most_once (g : Cfg) (as : List Act) :
    let s := run g init as
    s.handed.Nodup → (allTasks s).Nodup ∧ s.done.Nodup ∧
      (∀ t ∈ s.done, t ∉ s.queue ∧ t ∉ runningTasks s ∧ t ∉ pendingTasks s ∧ t ∉ s.callers) := by
  intro s hn
  have hp := c19_conservation g as
  have hnd : (allTasks s).Nodup := hp.nodup_iff.mpr hn
  refine ⟨hnd, ?_, ?_⟩
  · unfold allTasks at hnd
    have h0 := (List.nodup_append.mp hnd).1
    have := (List.nodup_append.mp h0).1
    exact (List.nodup_append.mp this).2.1
  · intro t ht
    unfold allTasks at hnd
    -- t ∈ done; every other component is disjoint from done
    have h00 := List.nodup_append.mp hnd         -- (… ++ dropped) ++ callers
    have h1 := List.nodup_append.mp h00.1        -- (… ++ done) ++ dropped
    have h2 := List.nodup_append.mp h1.1         -- (… ++ dTask) ++ done
    have hdisj := h2.2.2
    have hnot : ∀ x, x ∈ s.goers.flatMap gTask ++ s.queue ++ s.workers.flatMap wTask ++ dTask s.disp → x ≠ t :=
      fun x hx => hdisj x hx t ht
    refine ⟨?_, ?_, ?_, ?_⟩
    · intro hq; exact hnot t (by simp [hq]) rfl
    · intro hr
      simp only [runningTasks, List.mem_append] at hr
      rcases hr with hr | hr
      · exact hnot t (by simp only [List.mem_append]; exact .inl (.inr hr)) rfl
      · have : t ∈ dTask s.disp := by
          revert hr; cases s.disp <;> simp [dTask, dRun]
        exact hnot t (by simp only [List.mem_append]; exact .inr this) rfl
    · intro hpd
      simp only [pendingTasks, List.mem_append] at hpd
      rcases hpd with (hpd | hpd) | hpd
      · exact hnot t (by simp only [List.mem_append]; exact .inl (.inl (.inl hpd))) rfl
      · exact hnot t (by simp [hpd]) rfl
      · have : t ∈ dTask s.disp := by
          revert hpd; cases s.disp <;> simp [dTask, dPend]
        exact hnot t (by simp only [List.mem_append]; exact .inr this) rfl
    · intro hc
      exact h00.2.2 t (by simp [ht]) t (List.mem_flatMap.mpr ⟨t, hc, by simp [cTask]⟩) rfl

/-- A panicking task is contained: the worker (resp. the dispatcher) is left exactly where a returning
    task leaves it — `caller`'s recover — only the panic count differs. -/
theorem c19_panic_contained (g : Cfg) (s : St) (i : Nat) :
    step g s (.wFinish i true) = (step g s (.wFinish i false)).map (fun s' => { s' with panics := s'.panics + 1 }) ∧
    step g s (.dFinish true) = (step g s (.dFinish false)).map (fun s' => { s' with panics := s'.panics + 1 }) ∧
    step g s (.cFinish i true) = (step g s (.cFinish i false)).map (fun s' => { s' with panics := s'.panics + 1 }) := by
  refine ⟨?_, ?_, ?_⟩
  · simp only [step]; split <;> simp
  · simp only [step]; split <;> simp
  · simp only [step]; split <;> simp

/-! ### `TaskPool.Call` (model + theorems; the correspondence run does not exercise `Call` yet) -/

/-- `Call` never refuses and never touches the pool: in **every** state (full queue, all workers busy, after `Stop`)
    the task is entered at once on the caller's goroutine; the counter, the workers, the queue, the `Go` calls in flight
    and the dispatcher are left exactly as they were. -/
theorem c19_call_accepts (g : Cfg) (s : St) (t : Nat) :
    ∃ s', step g s (.call t) = some s' ∧ s'.callers = s.callers ++ [t] ∧ s'.handed = s.handed ++ [t] ∧
      s'.conc = s.conc ∧ s'.workers = s.workers ∧ s'.queue = s.queue ∧ s'.goers = s.goers ∧ s'.disp = s.disp ∧
      s'.done = s.done ∧ s'.dropped = s.dropped :=
  ⟨_, rfl, rfl, rfl, rfl, rfl, rfl, rfl, rfl, rfl, rfl⟩

/-- a task inside `Call` can always end, and is `done` then (returning or panicking into `caller`'s recover) -/
theorem c19_call_ends (g : Cfg) (s : St) (i t : Nat) (p : Bool) (h : s.callers[i]? = some t) :
    ∃ s', step g s (.cFinish i p) = some s' ∧ s'.done = s.done ++ [t] ∧ s'.callers = s.callers.eraseIdx i ∧
      s'.conc = s.conc ∧ s'.workers = s.workers ∧ s'.queue = s.queue ∧ s'.disp = s.disp := by
  simp [step, h]

theorem run_calls (g : Cfg) : ∀ (ts : List Nat) (s : St),
    (run g s (ts.map Act.call)).callers = s.callers ++ ts ∧
    runningTasks (run g s (ts.map Act.call)) = runningTasks s ∧ (run g s (ts.map Act.call)).conc = s.conc := by
  intro ts
  induction ts with
  | nil => intro s; simp [run]
  | cons t ts ih =>
    intro s
    simp only [List.map_cons, run, step]
    obtain ⟨h1, h2, h3⟩ := ih { s with callers := s.callers ++ [t], handed := s.handed ++ [t] }
    exact ⟨by rw [h1]; simp, by rw [h2]; rfl, by rw [h3]⟩

/-- `Call` is **not** subject to the bound: from any state, any number of tasks handed over through `Call` are inside
    `f()` at the same time, next to whatever the pool's own goroutines run; the bound of `c19_bound` counts
    `runningTasks` (workers and dispatcher) only. -/
theorem c19_call_outside_bound (g : Cfg) (as : List Act) (ts : List Nat) :
    let s := run g (run g init as) (ts.map Act.call)
    s.callers = (run g init as).callers ++ ts ∧ runningTasks s = runningTasks (run g init as) ∧
      s.conc = (run g init as).conc :=
  run_calls g ts (run g init as)

/-- `Call` after `Stop`, next to a task on the dispatcher, one of the called tasks panicking: everything runs once -/
example :
    let g : Cfg := { maxC := 0, cap := 1 }
    let s := run g init [.go 1, .goUndo 0, .goEnq 0, .dRecv, .dFork, .dUndo, .stopAdd, .stopClose, .call 2, .call 3,
                         .cFinish 0 true, .dFinish false, .cFinish 0 false]
    s.done = [2, 1, 3] ∧ s.callers = [] ∧ s.panics = 1 ∧ s.handed = [1, 2, 3] ∧ s.conc = 0 := by
  decide

/-! ### parallelism is available again -/

theorem go_forks (g : Cfg) : ∀ (ts : List Nat) (s : St), s.conc = (s.workers.length : Int) →
    ((s.workers.length + ts.length : Nat) : Int) < g.maxC →
    (run g s (ts.map Act.go)).workers = s.workers ++ ts.map WPh.running ∧
    (run g s (ts.map Act.go)).conc = ((s.workers.length + ts.length : Nat) : Int) ∧
    (run g s (ts.map Act.go)).goers = s.goers ∧ (run g s (ts.map Act.go)).queue = s.queue ∧
    (run g s (ts.map Act.go)).disp = s.disp := by
  intro ts
  induction ts with
  | nil => intro s hc _; simp [run, hc]
  | cons t ts ih =>
    intro s hc hlt
    have hv : s.conc + 1 < g.maxC := by simp at hlt; omega
    simp only [List.map_cons, run, step, hv, if_true]
    have := ih { s with conc := s.conc + 1, workers := s.workers ++ [.running t], handed := s.handed ++ [t] }
      (by simp [hc]) (by simp at hlt ⊢; omega)
    obtain ⟨h1, h2, h3, h4, h5⟩ := this
    refine ⟨by rw [h1]; simp, by rw [h2]; simp; omega, h3, h4, h5⟩

/-- Parallelism after overload: take **any** reachable state in which the pool is idle again and not
    stopped (whatever bursts, full queues and parked `Go` calls came before).  Handing over
    `k < maxConcurrent` tasks starts `k` workers that all run at the same time; so a barrier of that many
    mutually waiting tasks completes, exactly as on a fresh pool. -/
theorem c19_parallelism (g : Cfg) (hl : g.leak = false) (as : List Act) (ts : List Nat) :
    let s := run g init as
    idle s → s.stopAdd = false → (ts.length : Int) < g.maxC →
    runningTasks (run g s (ts.map Act.go)) = ts := by
  intro s hi hs hlt
  have hc := c19_idle_counter_zero g hl as hi hs
  obtain ⟨hw, hq, hg, hd⟩ := hi
  have := go_forks g ts s (by rw [hc, hw]; simp) (by rw [hw]; simpa using hlt)
  obtain ⟨h1, _, _, _, h5⟩ := this
  simp only [runningTasks, h1, h5, hd, hw, List.nil_append, dRun, List.append_nil]
  exact flatMap_running ts

/-- ... and one more runs on the dispatcher: with the workers all busy the next task goes through the
    queue and the dispatcher runs it inline (and its failed `fork` no longer costs a slot: the counter
    is back to the number of workers). -/
theorem c19_parallelism_dispatcher (g : Cfg) (s : St) (t : Nat) (hl : g.leak = false) (hcap : 1 ≤ g.cap)
    (_hc : s.conc = (s.workers.length : Int)) (hfull : ¬ s.conc + 1 < g.maxC)
    (hg : s.goers = []) (hq : s.queue = []) (hd : s.disp = .idle) :
    let s' := run g s [.go t, .goUndo 0, .goEnq 0, .dRecv, .dFork, .dUndo]
    s'.disp = .running t ∧ s'.workers = s.workers ∧ s'.conc = s.conc ∧ s'.queue = [] ∧ s'.goers = [] := by
  have hcap' : 0 < g.cap := hcap
  simp [run, step, hfull, hg, hq, hd, hl, hcap']

/-- The same with `taskpool.New(n, q)` by name (`maxConcurrent = n - 1`): from any idle, not stopped reachable state
    `k ≤ n - 2` tasks handed over all run at the same time on workers; with `c19_parallelism_dispatcher` one more runs on
    the dispatcher — **`n - 1` simultaneous tasks, not `n`**, is what "as many as the bound allows" means for this pool
    (and `c19_bound` says never more than `n`). -/
theorem c19_parallelism_new (n q : Nat) (as : List Act) (ts : List Nat) :
    idle (run { maxC := (n : Int) - 1, cap := q } init as) →
    (run { maxC := (n : Int) - 1, cap := q } init as).stopAdd = false → ts.length + 2 ≤ n →
    runningTasks (run { maxC := (n : Int) - 1, cap := q } (run { maxC := (n : Int) - 1, cap := q } init as)
      (ts.map Act.go)) = ts := by
  intro hi hs hlt
  exact c19_parallelism { maxC := (n : Int) - 1, cap := q } rfl as ts hi hs (by simp only; omega)

/-! ### nothing is stranded -/

/-- the dispatcher has taken `<-chClose` -/
@[simp] def dClosedPh : Disp → Bool | .exited | .drain | .drunning _ => true | _ => false

/-- structural facts about `Stop`: the dispatcher only leaves its main loop after `close(chClose)`, which comes
    after the addition; tasks are only dropped after the close; the queue never exceeds its capacity -/
structure SInv (g : Cfg) (s : St) : Prop where
  exited  : dClosedPh s.disp = true → s.closed = true
  closed  : s.closed = true → s.stopAdd = true
  dropped : s.dropped ≠ [] → s.closed = true
  qcap    : s.queue.length ≤ g.cap

theorem sinv_init (g : Cfg) : SInv g init := by constructor <;> simp [init]

theorem sinv_step (g : Cfg) (s s' : St) (a : Act) (h : SInv g s) (hs : step g s a = some s') : SInv g s' := by
  obtain ⟨h1, h2, h3, h4⟩ := h
  cases a with
  | go t => simp only [step] at hs; split at hs <;> cases hs <;> exact ⟨h1, h2, h3, h4⟩
  | goUndo i => simp only [step] at hs; split at hs <;> first | (cases hs; exact ⟨h1, h2, h3, h4⟩) | cases hs
  | goEnq i =>
    simp only [step] at hs
    split at hs
    · split at hs
      · rename_i hlt; cases hs; exact ⟨h1, h2, h3, by simp; omega⟩
      · split at hs
        · rename_i hid; cases hs
          exact ⟨by simp, h2, h3, h4⟩
        · cases hs
    · cases hs
  | goDrop i =>
    simp only [step] at hs
    split at hs
    · split at hs
      · rename_i hc; cases hs; exact ⟨h1, h2, fun _ => hc, h4⟩
      · cases hs
    · cases hs
  | wFinish i p => simp only [step] at hs; split at hs <;> first | (cases hs; exact ⟨h1, h2, h3, h4⟩) | cases hs
  | wTake i =>
    simp only [step] at hs
    split at hs
    · split at hs
      · rename_i t q hq; cases hs; exact ⟨h1, h2, h3, by rw [hq] at h4; simp at h4 ⊢; omega⟩
      · cases hs; exact ⟨h1, h2, h3, h4⟩
    · cases hs
  | wRdv i k =>
    simp only [step] at hs
    split at hs
    · split at hs <;> first | (cases hs; exact ⟨h1, h2, h3, h4⟩) | cases hs
    · cases hs
  | wExit i => simp only [step] at hs; split at hs <;> first | (cases hs; exact ⟨h1, h2, h3, h4⟩) | cases hs
  | dRecv =>
    simp only [step] at hs
    split at hs
    · rename_i t q hd hq; cases hs; exact ⟨by simp, h2, h3, by rw [hq] at h4; simp at h4 ⊢; omega⟩
    · cases hs
  | dExit =>
    simp only [step] at hs
    split at hs
    · split at hs
      · rename_i hc; cases hs; exact ⟨fun _ => hc, h2, h3, h4⟩
      · cases hs
    · cases hs
  | dDrain =>
    simp only [step] at hs
    split at hs
    · rename_i t q hd hq; cases hs
      exact ⟨fun _ => h1 (by simp [hd]), h2, h3, by rw [hq] at h4; simp at h4 ⊢; omega⟩
    · rename_i hd hq; cases hs; exact ⟨fun _ => h1 (by simp [hd]), h2, h3, h4⟩
    · cases hs
  | dFork =>
    simp only [step] at hs
    split at hs
    · split at hs <;> (cases hs; exact ⟨by simp, h2, h3, h4⟩)
    · cases hs
  | dUndo => simp only [step] at hs; split at hs <;> first | (cases hs; exact ⟨by simp, h2, h3, h4⟩) | cases hs
  | dFinish p =>
    simp only [step] at hs
    split at hs
    · cases hs; exact ⟨by simp, h2, h3, h4⟩
    · rename_i t hd; cases hs; exact ⟨fun _ => h1 (by simp [hd]), h2, h3, h4⟩
    · cases hs
  | call t => simp only [step] at hs; cases hs; exact ⟨h1, h2, h3, h4⟩
  | cFinish i p => simp only [step] at hs; split at hs <;> first | (cases hs; exact ⟨h1, h2, h3, h4⟩) | cases hs
  | stopAdd =>
    simp only [step] at hs
    split at hs
    · cases hs
    · cases hs; exact ⟨h1, fun _ => rfl, h3, h4⟩
  | stopClose =>
    simp only [step] at hs
    split at hs
    · rename_i hc; cases hs
      simp at hc
      exact ⟨fun _ => rfl, fun _ => hc.1, fun _ => rfl, h4⟩
    · cases hs

theorem sinv_run (g : Cfg) (as : List Act) : ∀ s, SInv g s → SInv g (run g s as) := by
  induction as with
  | nil => intro s h; exact h
  | cons a as ih =>
    intro s h
    simp only [run]
    split
    · rename_i s' hs; exact ih s' (sinv_step g s s' a h hs)
    · exact ih s h

/-- the steps that are not the harness's / the clients': everything but `go` and `Stop` -/
def Act.internal : Act → Bool
  | .go _ | .call _ | .stopAdd | .stopClose => false
  | _ => true

/-- Tasks are dropped only after `Stop` closed the channel. -/
theorem c19_dropped_only_after_stop (g : Cfg) (as : List Act) :
    let s := run g init as
    s.closed = false → s.dropped = [] := by
  intro s hc
  have h := sinv_run g as init (sinv_init g)
  cases hd : s.dropped with
  | nil => rfl
  | cons x xs =>
    have := h.dropped (by simp only [s] at hd; rw [hd]; simp)
    simp only [s] at hc; rw [hc] at this; cases this

/-- tasks the pool still owes a run: in a `Go` call in flight, in the dispatcher's hands, or in the queue while the
    dispatcher has not returned (what is in the queue after it returned was put there by a `Go` call that raced
    or followed `Stop`: `linv`) -/
def owedTasks (s : St) : List Nat :=
  s.goers.flatMap gTask ++ dPend s.disp ++ (if s.disp = .exited then [] else s.queue)

theorem worker_running_exists : ∀ (ws : List WPh), ws.flatMap wTask ≠ [] →
    ∃ (i : Nat) (t : Nat), ws[i]? = some (WPh.running t) := by
  intro ws
  induction ws with
  | nil => intro hr; simp at hr
  | cons w ws ih =>
    intro hr
    cases w with
    | running t => exact ⟨0, t, rfl⟩
    | idle =>
      obtain ⟨i, t, h⟩ := ih (by simpa [List.flatMap_cons, wTask] using hr)
      exact ⟨i + 1, t, by simpa using h⟩
    | exiting =>
      obtain ⟨i, t, h⟩ := ih (by simpa [List.flatMap_cons, wTask] using hr)
      exact ⟨i + 1, t, by simpa using h⟩

theorem no_stuck (g : Cfg) (s : St) (hS : SInv g s)
    (hwork : owedTasks s ≠ [] ∨ runningTasks s ≠ [] ∨ s.callers ≠ []) :
    ∃ a, Act.internal a = true ∧ (step g s a).isSome = true := by
  -- a task inside `Call` can end
  have hcall : s.callers ≠ [] → ∃ a, Act.internal a = true ∧ (step g s a).isSome = true := by
    intro h
    cases hcs : s.callers with
    | nil => exact absurd hcs h
    | cons x xs => exact ⟨.cFinish 0 false, rfl, by simp [step, hcs]⟩
  by_cases hcs : s.callers ≠ []
  · exact hcall hcs
  have hwork : owedTasks s ≠ [] ∨ runningTasks s ≠ [] := by
    rcases hwork with h | h | h
    · exact .inl h
    · exact .inr h
    · exact absurd h hcs
  -- a Go call in flight can always move: decrement, then send (room / rendezvous) or, after the close, give up
  have hgo : ∀ (x : GoPh) (xs : List GoPh), s.goers = x :: xs → (s.queue = [] ∧ s.disp = .idle) ∨ s.closed = true →
      ∃ a, Act.internal a = true ∧ (step g s a).isSome = true := by
    intro x xs hgs hor
    cases x with
    | failed t => exact ⟨.goUndo 0, rfl, by simp [step, hgs]⟩
    | enq t =>
      rcases hor with ⟨hq, hdi⟩ | hc
      · refine ⟨.goEnq 0, rfl, ?_⟩
        simp only [step, hgs, List.getElem?_cons_zero, hq, List.length_nil]
        by_cases hc : 0 < g.cap
        · simp [hc]
        · have : g.cap = 0 := by omega
          simp [this, hdi]
      · exact ⟨.goDrop 0, rfl, by simp [step, hgs, hc]⟩
  -- a running task on a worker can end
  have hrun : s.workers.flatMap wTask ≠ [] → ∃ a, Act.internal a = true ∧ (step g s a).isSome = true := by
    intro hr
    obtain ⟨i, t, hw⟩ := worker_running_exists s.workers hr
    exact ⟨.wFinish i false, rfl, by simp [step, hw]⟩
  cases hd : s.disp with
  | holding t => exact ⟨.dFork, rfl, by simp only [step, hd]; split <;> simp⟩
  | failed t => exact ⟨.dUndo, rfl, by simp [step, hd]⟩
  | running t => exact ⟨.dFinish false, rfl, by simp [step, hd]⟩
  | drunning t => exact ⟨.dFinish false, rfl, by simp [step, hd]⟩
  | drain =>
    cases hq : s.queue with
    | nil => exact ⟨.dDrain, rfl, by simp [step, hd, hq]⟩
    | cons t q => exact ⟨.dDrain, rfl, by simp [step, hd, hq]⟩
  | idle =>
    cases hq : s.queue with
    | cons t q => exact ⟨.dRecv, rfl, by simp [step, hd, hq]⟩
    | nil =>
      cases hgs : s.goers with
      | cons x xs => exact hgo x xs hgs (.inl ⟨hq, hd⟩)
      | nil =>
        rcases hwork with hp | hr
        · simp [owedTasks, hgs, hq, hd, dPend] at hp
        · simp only [runningTasks, hd, dRun, List.append_nil] at hr
          exact hrun hr
  | exited =>
    have hc : s.closed = true := hS.exited (by simp [hd])
    cases hgs : s.goers with
    | cons x xs => exact hgo x xs hgs (.inr hc)
    | nil =>
      rcases hwork with hp | hr
      · simp [owedTasks, hgs, hd, dPend] at hp
      · simp only [runningTasks, hd, dRun, List.append_nil] at hr
        exact hrun hr

/-- No stranded task, no deadlock — **with or without `Stop`**: in every reachable state, as long as some task is
    owed a run (in a `Go` call, in the dispatcher's hands, in the queue while the dispatcher goroutine lives) or is
    running, an internal step or a task end is enabled: the pool cannot sit on a task. -/
theorem c19_no_stuck (g : Cfg) (as : List Act) :
    (owedTasks (run g init as) ≠ [] ∨ runningTasks (run g init as) ≠ [] ∨ (run g init as).callers ≠ []) →
    ∃ a, Act.internal a = true ∧ (step g (run g init as) a).isSome = true :=
  no_stuck g _ (sinv_run g as init (sinv_init g))

/-! ### ... and every task handed over does run (exactly once) -/

def wWeight : WPh → Nat | .running _ => 4 | .idle => 2 | .exiting => 1
def gWeight : GoPh → Nat | .failed _ => 10 | .enq _ => 9
def dWeight : Disp → Nat
  | .holding _ => 7 | .failed _ => 6 | .running _ => 4 | .drunning _ => 4 | .idle => 2 | .drain => 1 | .exited => 0

/-- a measure that every internal step and every task end decreases -/
def mu (s : St) : Nat :=
  (s.goers.map gWeight).sum + 8 * s.queue.length + (s.workers.map wWeight).sum + dWeight s.disp +
    (s.callers.map fun _ => 1).sum

theorem sum_map_set {α : Type} (f : α → Nat) : ∀ (l : List α) (i : Nat) (x y : α), l[i]? = some x →
    ((l.set i y).map f).sum + f x = (l.map f).sum + f y := by
  intro l
  induction l with
  | nil => intro i x y h; simp at h
  | cons a as ih =>
    intro i x y h
    cases i with
    | zero => simp at h; subst h; simp; omega
    | succ j =>
      simp at h
      have := ih j x y h
      simp at this ⊢; omega

theorem sum_map_eraseIdx {α : Type} (f : α → Nat) : ∀ (l : List α) (i : Nat) (x : α), l[i]? = some x →
    ((l.eraseIdx i).map f).sum + f x = (l.map f).sum := by
  intro l
  induction l with
  | nil => intro i x h; simp at h
  | cons a as ih =>
    intro i x h
    cases i with
    | zero => simp at h; subst h; simp; omega
    | succ j =>
      simp at h
      have := ih j x h
      simp at this ⊢; omega

theorem internal_decreases (g : Cfg) (s s' : St) (a : Act) (ha : Act.internal a = true)
    (hs : step g s a = some s') : mu s' < mu s ∧ s'.handed = s.handed ∧ s'.stopAdd = s.stopAdd ∧ s'.closed = s.closed := by
  cases a with
  | go t => simp [Act.internal] at ha
  | stopAdd => simp [Act.internal] at ha
  | stopClose => simp [Act.internal] at ha
  | call t => simp [Act.internal] at ha
  | cFinish i p =>
    simp only [step] at hs
    split at hs
    · rename_i t hc
      cases hs
      have := sum_map_eraseIdx (fun _ : Nat => 1) s.callers i _ hc
      simp [mu] at this ⊢; omega
    · cases hs
  | goUndo i =>
    simp only [step] at hs
    split at hs
    · rename_i t hg
      cases hs
      have := sum_map_set gWeight s.goers i _ (.enq t) hg
      simp [mu, gWeight] at this ⊢; omega
    · cases hs
  | goEnq i =>
    simp only [step] at hs
    split at hs
    · rename_i t hg
      have := sum_map_eraseIdx gWeight s.goers i _ hg
      split at hs
      · cases hs
        simp [mu, gWeight] at this ⊢; omega
      · split at hs
        · rename_i hidle
          cases hs
          have hd : s.disp = .idle := hidle.2.1
          simp [mu, gWeight, dWeight, hd] at this ⊢; omega
        · cases hs
    · cases hs
  | goDrop i =>
    simp only [step] at hs
    split at hs
    · rename_i t hg
      have := sum_map_eraseIdx gWeight s.goers i _ hg
      split at hs
      · cases hs
        simp [mu, gWeight] at this ⊢; omega
      · cases hs
    · cases hs
  | wFinish i p =>
    simp only [step] at hs
    split at hs
    · rename_i t hw
      cases hs
      have := sum_map_set wWeight s.workers i _ .idle hw
      simp [mu, wWeight] at this ⊢; omega
    · cases hs
  | wTake i =>
    simp only [step] at hs
    split at hs
    · rename_i hw
      split at hs
      · rename_i t q hq
        cases hs
        have := sum_map_set wWeight s.workers i _ (.running t) hw
        simp [mu, wWeight, hq] at this ⊢; omega
      · rename_i hq
        cases hs
        have := sum_map_set wWeight s.workers i _ .exiting hw
        simp [mu, wWeight, hq] at this ⊢; omega
    · cases hs
  | wRdv i k =>
    simp only [step] at hs
    split at hs
    · rename_i t hw hg
      split at hs
      · cases hs
        have h1 := sum_map_set wWeight s.workers i _ (.running t) hw
        have h2 := sum_map_eraseIdx gWeight s.goers k _ hg
        simp [mu, wWeight, gWeight] at h1 h2 ⊢; omega
      · cases hs
    · cases hs
  | wExit i =>
    simp only [step] at hs
    split at hs
    · rename_i hw
      cases hs
      have := sum_map_eraseIdx wWeight s.workers i _ hw
      simp [mu, wWeight] at this ⊢; omega
    · cases hs
  | dRecv =>
    simp only [step] at hs
    split at hs
    · rename_i t q hd hq
      cases hs
      simp [mu, dWeight, hd, hq]; omega
    · cases hs
  | dExit =>
    simp only [step] at hs
    split at hs
    · rename_i hd
      split at hs
      · cases hs; cases g.nodrain <;> simp [mu, dWeight, hd]
      · cases hs
    · cases hs
  | dDrain =>
    simp only [step] at hs
    split at hs
    · rename_i t q hd hq
      cases hs
      simp [mu, dWeight, hd, hq]; omega
    · rename_i hd hq
      cases hs
      simp [mu, dWeight, hd, hq]
    · cases hs
  | dFork =>
    simp only [step] at hs
    split at hs
    · rename_i t hd
      split at hs <;> cases hs <;> (simp [mu, dWeight, wWeight, hd]; try omega)
    · cases hs
  | dUndo =>
    simp only [step] at hs
    split at hs
    · rename_i t hd
      cases hs
      simp [mu, dWeight, hd]
    · cases hs
  | dFinish p =>
    simp only [step] at hs
    split at hs
    · rename_i t hd
      cases hs
      simp [mu, dWeight, hd]
    · rename_i t hd
      cases hs
      simp [mu, dWeight, hd]
    · cases hs

theorem completes_aux (g : Cfg) : ∀ (n : Nat) (s : St), SInv g s → mu s ≤ n →
    ∃ bs, (∀ b ∈ bs, Act.internal b = true) ∧ owedTasks (run g s bs) = [] ∧ runningTasks (run g s bs) = [] ∧
      (run g s bs).handed = s.handed ∧ (run g s bs).closed = s.closed ∧ (run g s bs).callers = [] := by
  intro n
  induction n with
  | zero =>
    intro s hS hm
    by_cases hw : owedTasks s ≠ [] ∨ runningTasks s ≠ [] ∨ s.callers ≠ []
    · obtain ⟨a, ha, hen⟩ := no_stuck g s hS hw
      obtain ⟨s1, hs1⟩ := Option.isSome_iff_exists.mp hen
      have := (internal_decreases g s s1 a ha hs1).1
      omega
    · have hp : owedTasks s = [] := Classical.byContradiction fun h => hw (.inl h)
      have hr : runningTasks s = [] := Classical.byContradiction fun h => hw (.inr (.inl h))
      have hc : s.callers = [] := Classical.byContradiction fun h => hw (.inr (.inr h))
      exact ⟨[], by simp, hp, hr, rfl, rfl, hc⟩
  | succ n ih =>
    intro s hS hm
    by_cases hw : owedTasks s ≠ [] ∨ runningTasks s ≠ [] ∨ s.callers ≠ []
    · obtain ⟨a, ha, hen⟩ := no_stuck g s hS hw
      obtain ⟨s1, hs1⟩ := Option.isSome_iff_exists.mp hen
      obtain ⟨hlt, hh, _, hcl⟩ := internal_decreases g s s1 a ha hs1
      obtain ⟨bs, h1, h2, h3, h4, h5, h6⟩ := ih s1 (sinv_step g s s1 a hS hs1) (by omega)
      refine ⟨a :: bs, ?_, ?_, ?_, ?_, ?_, ?_⟩
      · intro b hb
        rcases List.mem_cons.mp hb with hb | hb
        · rw [hb]; exact ha
        · exact h1 b hb
      all_goals simp only [run, hs1]
      · exact h2
      · exact h3
      · rw [h4, hh]
      · rw [h5, hcl]
      · exact h6
    · have hp : owedTasks s = [] := Classical.byContradiction fun h => hw (.inl h)
      have hr : runningTasks s = [] := Classical.byContradiction fun h => hw (.inr (.inl h))
      have hc : s.callers = [] := Classical.byContradiction fun h => hw (.inr (.inr h))
      exact ⟨[], by simp, hp, hr, rfl, rfl, hc⟩

theorem run_append (g : Cfg) (as bs : List Act) : ∀ s0, run g (run g s0 as) bs = run g s0 (as ++ bs) := by
  induction as with
  | nil => intro s0; rfl
  | cons a as ih =>
    intro s0
    simp only [List.cons_append, run]
    split <;> exact ih _

/-! ### what `Stop` may leave behind: only tasks whose `Go` call raced or followed it -/

theorem mem_gTask_set (l : List GoPh) (i t x : Nat) (h : l[i]? = some (.failed t))
    (hx : x ∈ (l.set i (.enq t)).flatMap gTask) : x ∈ l.flatMap gTask := by
  obtain ⟨a, ha, hxa⟩ := List.mem_flatMap.mp hx
  rcases List.mem_or_eq_of_mem_set ha with ha | ha
  · exact List.mem_flatMap.mpr ⟨a, ha, hxa⟩
  · subst ha
    simp [gTask] at hxa
    subst hxa
    exact List.mem_flatMap.mpr ⟨.failed x, List.mem_of_getElem? h, by simp [gTask]⟩

theorem mem_gTask_erase (l : List GoPh) (i x : Nat) (hx : x ∈ (l.eraseIdx i).flatMap gTask) :
    x ∈ l.flatMap gTask := by
  obtain ⟨a, ha, hxa⟩ := List.mem_flatMap.mp hx
  exact List.mem_flatMap.mpr ⟨a, List.mem_of_mem_eraseIdx ha, hxa⟩

theorem mem_gTask_of_get (l : List GoPh) (i t : Nat) (h : l[i]? = some (.enq t)) : t ∈ l.flatMap gTask :=
  List.mem_flatMap.mpr ⟨.enq t, List.mem_of_getElem? h, by simp [gTask]⟩

/-- the ghosts `inflight` / `late`: before the close both are empty and nothing was dropped; after it every `Go`
    call still in flight is recorded in `inflight`; whatever was dropped, or queued after the close, came from such a
    call; and once the dispatcher has returned (its drain loop saw the queue empty) everything in the queue was put
    there after the close -/
structure LInv (s : St) : Prop where
  pre  : s.closed = false → s.late = [] ∧ s.dropped = [] ∧ s.inflight = []
  goin : s.closed = true → ∀ t ∈ s.goers.flatMap gTask, t ∈ s.inflight
  dl   : ∀ t, t ∈ s.dropped ∨ t ∈ s.late → t ∈ s.inflight
  exq  : s.disp = .exited → ∀ t ∈ s.queue, t ∈ s.late

theorem linv_init : LInv init := by constructor <;> simp [init]

theorem linv_step (g : Cfg) (hnd : g.nodrain = false) (s s' : St) (a : Act) (hS : SInv g s) (h : LInv s)
    (hs : step g s a = some s') : LInv s' := by
  obtain ⟨h1, h2, h3, h4⟩ := h
  cases a with
  | go t =>
    simp only [step] at hs
    split at hs
    · cases hs; exact ⟨h1, h2, h3, h4⟩
    · cases hs
      refine ⟨?_, ?_, ?_, h4⟩
      · intro hc; simp only at hc; simpa [hc] using h1 hc
      · intro hc x hx
        simp only at hc
        simp only [hc, if_true, List.flatMap_append, List.mem_append] at hx ⊢
        rcases hx with hx | hx
        · exact .inl (h2 hc x hx)
        · simp [gTask] at hx; exact .inr (by simp [hx])
      · intro x hx
        have := h3 x hx
        simp only
        split
        · exact List.mem_append.mpr (.inl this)
        · exact this
  | goUndo i =>
    simp only [step] at hs
    split at hs
    · rename_i t hg
      cases hs
      exact ⟨h1, fun hc x hx => h2 hc x (mem_gTask_set s.goers i t x hg hx), h3, h4⟩
    · cases hs
  | goEnq i =>
    simp only [step] at hs
    split at hs
    · rename_i t hg
      split at hs
      · cases hs
        refine ⟨?_, fun hc x hx => h2 hc x (mem_gTask_erase s.goers i x hx), ?_, ?_⟩
        · intro hc; simp only at hc; simpa [hc] using h1 hc
        · intro x hx
          simp only at hx ⊢
          by_cases hc : s.closed = true
          · simp only [hc, if_true, List.mem_append, List.mem_singleton] at hx
            rcases hx with hx | hx | hx
            · exact h3 x (.inl hx)
            · exact h3 x (.inr hx)
            · rw [hx]; exact h2 hc t (mem_gTask_of_get s.goers i t hg)
          · simp only [hc] at hx
            exact h3 x (by simpa using hx)
        · intro he x hx
          simp only at he hx ⊢
          have hc : s.closed = true := hS.exited (by simp [he])
          simp only [hc, if_true, List.mem_append, List.mem_singleton] at hx ⊢
          rcases hx with hx | hx
          · exact .inl (h4 he x hx)
          · exact .inr hx
      · split at hs
        · cases hs
          exact ⟨h1, fun hc x hx => h2 hc x (mem_gTask_erase s.goers i x hx), h3, by simp⟩
        · cases hs
    · cases hs
  | goDrop i =>
    simp only [step] at hs
    split at hs
    · rename_i t hg
      split at hs
      · rename_i hc
        cases hs
        refine ⟨fun hc' => (by simp only at hc'; rw [hc] at hc'; cases hc'),
          fun hc x hx => h2 hc x (mem_gTask_erase s.goers i x hx), ?_, h4⟩
        intro x hx
        simp only [List.mem_append, List.mem_singleton] at hx
        rcases hx with (hx | hx) | hx
        · exact h3 x (.inl hx)
        · rw [hx]; exact h2 hc t (mem_gTask_of_get s.goers i t hg)
        · exact h3 x (.inr hx)
      · cases hs
    · cases hs
  | wFinish i p => simp only [step] at hs; split at hs <;> first | (cases hs; exact ⟨h1, h2, h3, h4⟩) | cases hs
  | wTake i =>
    simp only [step] at hs
    split at hs
    · split at hs
      · rename_i t q hq; cases hs
        exact ⟨h1, h2, h3, fun he x hx => h4 he x (by rw [hq]; exact List.mem_cons_of_mem _ hx)⟩
      · cases hs; exact ⟨h1, h2, h3, h4⟩
    · cases hs
  | wRdv i k =>
    simp only [step] at hs
    split at hs
    · split at hs
      · cases hs; exact ⟨h1, fun hc x hx => h2 hc x (mem_gTask_erase s.goers k x hx), h3, h4⟩
      · cases hs
    · cases hs
  | wExit i => simp only [step] at hs; split at hs <;> first | (cases hs; exact ⟨h1, h2, h3, h4⟩) | cases hs
  | dRecv =>
    simp only [step] at hs
    split at hs
    · cases hs; exact ⟨h1, h2, h3, by simp⟩
    · cases hs
  | dExit =>
    simp only [step] at hs
    split at hs
    · split at hs
      · cases hs; exact ⟨h1, h2, h3, by simp [hnd]⟩
      · cases hs
    · cases hs
  | dDrain =>
    simp only [step] at hs
    split at hs
    · cases hs; exact ⟨h1, h2, h3, by simp⟩
    · rename_i hd hq; cases hs; exact ⟨h1, h2, h3, by simp [hq]⟩
    · cases hs
  | dFork =>
    simp only [step] at hs
    split at hs
    · split at hs <;> (cases hs; exact ⟨h1, h2, h3, by simp⟩)
    · cases hs
  | dUndo => simp only [step] at hs; split at hs <;> first | (cases hs; exact ⟨h1, h2, h3, by simp⟩) | cases hs
  | dFinish p => simp only [step] at hs; split at hs <;> first | (cases hs; exact ⟨h1, h2, h3, by simp⟩) | cases hs
  | call t => simp only [step] at hs; cases hs; exact ⟨h1, h2, h3, h4⟩
  | cFinish i p => simp only [step] at hs; split at hs <;> first | (cases hs; exact ⟨h1, h2, h3, h4⟩) | cases hs
  | stopAdd =>
    simp only [step] at hs
    split at hs
    · cases hs
    · cases hs; exact ⟨h1, h2, h3, h4⟩
  | stopClose =>
    simp only [step] at hs
    split at hs
    · rename_i hc; cases hs
      simp at hc
      have hpre := h1 hc.2
      refine ⟨by simp, fun _ x hx => hx, ?_, h4⟩
      intro x hx
      simp [hpre.1, hpre.2.1] at hx
    · cases hs

theorem linv_run (g : Cfg) (hnd : g.nodrain = false) (as : List Act) :
    ∀ s, SInv g s → LInv s → LInv (run g s as) := by
  induction as with
  | nil => intro s _ h; exact h
  | cons a as ih =>
    intro s hS h
    simp only [run]
    split
    · rename_i s' hs; exact ih s' (sinv_step g s s' a hS hs) (linv_step g hnd s s' a hS h hs)
    · exact ih s hS h

/-- what is left in the queue for good: its contents once the dispatcher goroutine has returned -/
def stranded (s : St) : List Nat := if s.disp = .exited then s.queue else []

/-- Tasks are dropped (their `Go` returned through `<-chClose`) or stranded in the queue only if their `Go` call had
    not returned when `Stop` closed the channel, or was made after that. -/
theorem c19_lost_only_racing_stop (g : Cfg) (hnd : g.nodrain = false) (as : List Act) :
    let s := run g init as
    ∀ t, t ∈ s.dropped ∨ t ∈ stranded s → t ∈ s.inflight := by
  intro s t ht
  have h := linv_run g hnd as init (sinv_init g) linv_init
  rcases ht with ht | ht
  · exact h.dl t (.inl ht)
  · unfold stranded at ht
    split at ht
    · rename_i he; exact h.dl t (.inr (h.exq he t ht))
    · cases ht

/-- Exactly-once, liveness half — **the full statement, `Stop` included**: from every reachable state there is a
    finite continuation consisting only of the pool's own steps and task ends (no new `Go`, no `Stop`) after which
    nothing is owed and nothing is running; then the tasks handed over are, as a multiset, exactly those that have
    run, those whose `Go` gave up at `Stop`, and those stranded in the queue behind the returned dispatcher — and the
    last two kinds only contain tasks whose `Go` call raced or followed `Stop` (`inflight`).  Hence **every task
    whose `Go` had returned before `Stop` has run** (made explicit in `c19_handed_before_stop_runs`); with
    `c19_at_most_once`: exactly once.  Every internal step decreases a measure, so under a fair scheduler with
    terminating tasks every schedule is such a continuation. -/
theorem c19_completes (g : Cfg) (hnd : g.nodrain = false) (as : List Act) :
    ∃ bs, (∀ b ∈ bs, Act.internal b = true) ∧
      let s' := run g (run g init as) bs
      owedTasks s' = [] ∧ runningTasks s' = [] ∧ s'.callers = [] ∧ s'.handed = (run g init as).handed ∧
      (s'.done ++ s'.dropped ++ stranded s').Perm (run g init as).handed ∧
      (∀ t ∈ (run g init as).handed, t ∉ s'.inflight → t ∈ s'.done) := by
  have hS := sinv_run g as init (sinv_init g)
  obtain ⟨bs, h1, h2, h3, h4, _, h6⟩ := completes_aux g (mu (run g init as)) (run g init as) hS (Nat.le_refl _)
  have hrun := run_append g as bs init
  have hcons := c19_conservation g (as ++ bs)
  have hlost := c19_lost_only_racing_stop g hnd (as ++ bs)
  rw [← hrun] at hcons hlost
  have hperm : ((run g (run g init as) bs).done ++ (run g (run g init as) bs).dropped ++
      stranded (run g (run g init as) bs)).Perm (run g init as).handed := by
    rw [← h4]
    refine List.Perm.trans ?_ hcons
    generalize run g (run g init as) bs = s' at h2 h3 h6
    simp only [owedTasks, List.append_eq_nil_iff] at h2
    simp only [runningTasks, List.append_eq_nil_iff] at h3
    obtain ⟨⟨hg, hdp⟩, hq⟩ := h2
    obtain ⟨hw, hdr⟩ := h3
    have hdt : dTask s'.disp = [] := by
      revert hdp hdr; cases s'.disp <;> simp [dTask, dPend, dRun]
    have hqs : s'.queue = stranded s' := by
      unfold stranded
      split at hq
      · rename_i he; simp [he]
      · rename_i he; simp [he, hq]
    simp only [allTasks, hg, hw, hdt, h6, List.flatMap_nil, List.nil_append, List.append_nil, hqs]
    -- stranded ++ done ++ dropped  ~  done ++ dropped ++ stranded
    exact (List.perm_append_comm (l₁ := stranded s') (l₂ := s'.done ++ s'.dropped)).symm.trans
      (by simp [List.append_assoc])
  refine ⟨bs, h1, h2, h3, h6, h4, hperm, ?_⟩
  intro t ht hni
  have hm : t ∈ (run g (run g init as) bs).done ++ (run g (run g init as) bs).dropped ++
      stranded (run g (run g init as) bs) := hperm.mem_iff.mpr ht
  simp only [List.mem_append] at hm
  rcases hm with (hm | hm) | hm
  · exact hm
  · exact absurd (hlost t (.inl hm)) hni
  · exact absurd (hlost t (.inr hm)) hni

/-- the ghost `inflight` made explicit.  A task whose `Go` call is not in flight in a state where the channel is still
    open never enters `inflight` later, whatever happens — as long as the same task is not handed over again. -/
theorem not_inflight_step (g : Cfg) (t : Nat) (s s' : St) (a : Act) (hne : a ≠ .go t)
    (hP : t ∉ s.goers.flatMap gTask ∧ t ∉ s.inflight) (hs : step g s a = some s') :
    t ∉ s'.goers.flatMap gTask ∧ t ∉ s'.inflight := by
  obtain ⟨hg, hi⟩ := hP
  cases a with
  | go t' =>
    have htt : t' ≠ t := fun h => hne (by rw [h])
    simp only [step] at hs
    split at hs
    · cases hs; exact ⟨hg, hi⟩
    · cases hs
      refine ⟨?_, ?_⟩
      · simp only [List.flatMap_append, List.mem_append, not_or]
        exact ⟨hg, by simp [gTask]; exact fun h => htt h.symm⟩
      · simp only
        split
        · simp only [List.mem_append, List.mem_singleton, not_or]; exact ⟨hi, fun h => htt h.symm⟩
        · exact hi
  | goUndo i =>
    simp only [step] at hs
    split at hs
    · rename_i t1 hgi; cases hs
      exact ⟨fun hx => hg (mem_gTask_set s.goers i t1 t hgi hx), hi⟩
    · cases hs
  | goEnq i =>
    simp only [step] at hs
    split at hs
    · split at hs
      · cases hs; exact ⟨fun hx => hg (mem_gTask_erase s.goers i t hx), hi⟩
      · split at hs
        · cases hs; exact ⟨fun hx => hg (mem_gTask_erase s.goers i t hx), hi⟩
        · cases hs
    · cases hs
  | goDrop i =>
    simp only [step] at hs
    split at hs
    · split at hs
      · cases hs; exact ⟨fun hx => hg (mem_gTask_erase s.goers i t hx), hi⟩
      · cases hs
    · cases hs
  | wFinish i p => simp only [step] at hs; split at hs <;> first | (cases hs; exact ⟨hg, hi⟩) | cases hs
  | wTake i =>
    simp only [step] at hs
    split at hs
    · split at hs <;> (cases hs; exact ⟨hg, hi⟩)
    · cases hs
  | wRdv i k =>
    simp only [step] at hs
    split at hs
    · split at hs
      · cases hs; exact ⟨fun hx => hg (mem_gTask_erase s.goers k t hx), hi⟩
      · cases hs
    · cases hs
  | wExit i => simp only [step] at hs; split at hs <;> first | (cases hs; exact ⟨hg, hi⟩) | cases hs
  | dRecv => simp only [step] at hs; split at hs <;> first | (cases hs; exact ⟨hg, hi⟩) | cases hs
  | dExit =>
    simp only [step] at hs
    split at hs
    · split at hs <;> first | (cases hs; exact ⟨hg, hi⟩) | cases hs
    · cases hs
  | dDrain => simp only [step] at hs; split at hs <;> first | (cases hs; exact ⟨hg, hi⟩) | cases hs
  | dFork =>
    simp only [step] at hs
    split at hs
    · split at hs <;> (cases hs; exact ⟨hg, hi⟩)
    · cases hs
  | dUndo => simp only [step] at hs; split at hs <;> first | (cases hs; exact ⟨hg, hi⟩) | cases hs
  | dFinish p => simp only [step] at hs; split at hs <;> first | (cases hs; exact ⟨hg, hi⟩) | cases hs
  | call t' => simp only [step] at hs; cases hs; exact ⟨hg, hi⟩
  | cFinish i p => simp only [step] at hs; split at hs <;> first | (cases hs; exact ⟨hg, hi⟩) | cases hs
  | stopAdd =>
    simp only [step] at hs
    split at hs
    · cases hs
    · cases hs; exact ⟨hg, hi⟩
  | stopClose =>
    simp only [step] at hs
    split at hs
    · cases hs; exact ⟨hg, hg⟩
    · cases hs

theorem not_inflight_run (g : Cfg) (t : Nat) (cs : List Act) (hne : ∀ a ∈ cs, a ≠ .go t) :
    ∀ s, (t ∉ s.goers.flatMap gTask ∧ t ∉ s.inflight) →
      t ∉ (run g s cs).goers.flatMap gTask ∧ t ∉ (run g s cs).inflight := by
  induction cs with
  | nil => intro s h; exact h
  | cons a cs ih =>
    intro s h
    have hne' : ∀ a ∈ cs, a ≠ .go t := fun b hb => hne b (List.mem_cons_of_mem _ hb)
    simp only [run]
    split
    · rename_i s' hs
      exact ih hne' s' (not_inflight_step g t s s' a (hne a (by simp)) h hs)
    · exact ih hne' s h

theorem handed_mono_step (g : Cfg) (s s' : St) (a : Act) (hs : step g s a = some s') (t : Nat)
    (ht : t ∈ s.handed) : t ∈ s'.handed := by
  by_cases hi : Act.internal a = true
  · rw [(internal_decreases g s s' a hi hs).2.1]; exact ht
  · cases a with
    | go t' =>
      simp only [step] at hs
      split at hs <;> (cases hs; exact List.mem_append.mpr (.inl ht))
    | call t' =>
      simp only [step] at hs
      cases hs; exact List.mem_append.mpr (.inl ht)
    | stopAdd =>
      simp only [step] at hs
      split at hs
      · cases hs
      · cases hs; exact ht
    | stopClose =>
      simp only [step] at hs
      split at hs
      · cases hs; exact ht
      · cases hs
    | _ => simp [Act.internal] at hi

theorem handed_mono_run (g : Cfg) (t : Nat) (cs : List Act) : ∀ s, t ∈ s.handed → t ∈ (run g s cs).handed := by
  induction cs with
  | nil => intro s h; exact h
  | cons a cs ih =>
    intro s h
    simp only [run]
    split
    · rename_i s' hs; exact ih s' (handed_mono_step g s s' a hs t h)
    · exact ih s h

/-- **Every task handed to the pool before it is stopped runs** (with `c19_at_most_once`: exactly once).  Take any
    reachable state `s0` in which `Stop` has not closed the channel, and a task `t` that was handed over and whose
    `Go` call has returned (it is not among the `Go` calls in flight).  Whatever happens next — more submissions of
    other tasks, `Stop` at any moment, any scheduling — from the state reached there is a finite continuation of the
    pool's own steps and task ends after which `t` has run. -/
theorem c19_handed_before_stop_runs (g : Cfg) (hnd : g.nodrain = false) (as cs : List Act) (t : Nat)
    (hc : (run g init as).closed = false) (ht : t ∈ (run g init as).handed)
    (hret : t ∉ (run g init as).goers.flatMap gTask) (hne : ∀ a ∈ cs, a ≠ .go t) :
    ∃ bs, (∀ b ∈ bs, Act.internal b = true) ∧ t ∈ (run g (run g (run g init as) cs) bs).done := by
  have hL := linv_run g hnd as init (sinv_init g) linv_init
  have hi0 : t ∉ (run g init as).inflight := by rw [(hL.pre hc).2.2]; simp
  rw [run_append]
  obtain ⟨bs, h1, _, _, _, _, _, h6⟩ := c19_completes g hnd (as ++ cs)
  refine ⟨bs, h1, h6 t ?_ ?_⟩
  · rw [← run_append]; exact handed_mono_run g t cs _ ht
  · have hbs : ∀ a ∈ cs ++ bs, a ≠ .go t := by
      intro a ha
      rcases List.mem_append.mp ha with ha | ha
      · exact hne a ha
      · intro h; have := h1 a ha; rw [h] at this; simp [Act.internal] at this
    have := (not_inflight_run g t (cs ++ bs) hbs (run g init as) ⟨hret, hi0⟩).2
    rw [run_append, ← List.append_assoc, ← run_append g (as ++ cs) bs] at this
    exact this

/-- Corollary, without `Stop`: nothing is dropped or stranded, `done` is a permutation of `handed`. -/
theorem c19_completes_without_stop (g : Cfg) (hnd : g.nodrain = false) (as : List Act)
    (hst : (run g init as).stopAdd = false) :
    ∃ bs, (∀ b ∈ bs, Act.internal b = true) ∧
      let s' := run g (run g init as) bs
      pendingTasks s' = [] ∧ runningTasks s' = [] ∧ s'.dropped = [] ∧ s'.done.Perm (run g init as).handed := by
  have hS := sinv_run g as init (sinv_init g)
  obtain ⟨bs, h1, h2, h3, h4, h5, h6⟩ := completes_aux g (mu (run g init as)) (run g init as) hS (Nat.le_refl _)
  have hS' := sinv_run g bs (run g init as) hS
  have hcl : (run g (run g init as) bs).closed = false := by
    rw [h5]
    cases hc : (run g init as).closed with
    | false => rfl
    | true => have := hS.closed hc; rw [hst] at this; cases this
  have hne : (run g (run g init as) bs).disp ≠ .exited := by
    intro he
    have := hS'.exited (by simp [he])
    rw [hcl] at this; cases this
  have hdrop : (run g (run g init as) bs).dropped = [] := by
    cases hd : (run g (run g init as) bs).dropped with
    | nil => rfl
    | cons x xs =>
      have hc := hS'.dropped (by rw [hd]; simp)
      rw [hcl] at hc; cases hc
  have hcons := c19_conservation g (as ++ bs)
  rw [← run_append] at hcons
  rw [← h4]
  refine ⟨bs, h1, ?_⟩
  show pendingTasks (run g (run g init as) bs) = [] ∧ runningTasks (run g (run g init as) bs) = [] ∧
    (run g (run g init as) bs).dropped = [] ∧
    (run g (run g init as) bs).done.Perm (run g (run g init as) bs).handed
  generalize run g (run g init as) bs = s' at h2 h3 h6 hne hdrop hcons
  simp only [owedTasks, hne, if_false, List.append_eq_nil_iff] at h2
  obtain ⟨⟨hg, hdp⟩, hq⟩ := h2
  refine ⟨by simp [pendingTasks, hg, hq, hdp], h3, hdrop, ?_⟩
  simp only [runningTasks, List.append_eq_nil_iff] at h3
  obtain ⟨hw, hdr⟩ := h3
  have hdt : dTask s'.disp = [] := by
    revert hdp hdr; cases s'.disp <;> simp [dTask, dPend, dRun]
  simpa [allTasks, hg, hq, hw, hdt, hdrop, h6] using hcons

/-! ### the defect that was repaired (pinned tree: `leak = true`) -/

/-- Pinned tree: capacity is lost for good. `New(3, 1)`: an idle state with a non-zero counter is
    reachable — two tasks, the second one goes through the dispatcher whose failed `fork` is never undone. -/
theorem c19_leak_counterexample :
    let g : Cfg := { maxC := 2, cap := 1, leak := true }
    let s := run g init [.go 1, .go 2, .goUndo 0, .goEnq 0, .dRecv, .dFork, .dUndo, .wFinish 0 false, .wTake 0,
                         .wExit 0, .dFinish false]
    idle s ∧ s.stopAdd = false ∧ s.conc = 1 ∧ s.done = [1, 2] := by
  decide

/-- ... after which no submission ever forks again: two tasks handed to the idle pool both end up on
    the dispatcher, one running and one queued — two mutually waiting tasks deadlock. -/
theorem c19_serial_after_leak :
    let g : Cfg := { maxC := 2, cap := 1, leak := true }
    let s0 := run g init [.go 1, .go 2, .goUndo 0, .goEnq 0, .dRecv, .dFork, .dUndo, .wFinish 0 false, .wTake 0,
                          .wExit 0, .dFinish false]
    let s := run g s0 [.go 3, .goUndo 0, .goEnq 0, .dRecv, .dFork, .dUndo, .go 4, .goUndo 0, .goEnq 0]
    runningTasks s = [3] ∧ s.queue = [4] ∧ s.workers = [] ∧ s.goers = [] := by
  decide

/-- the same schedule on the repaired tree: idle with counter 0, and both later tasks run together -/
example :
    let g : Cfg := { maxC := 2, cap := 1 }
    let s0 := run g init [.go 1, .go 2, .goUndo 0, .goEnq 0, .dRecv, .dFork, .dUndo, .wFinish 0 false, .wTake 0,
                          .wExit 0, .dFinish false]
    let s := run g s0 [.go 3, .go 4, .goUndo 0, .goEnq 0, .dRecv, .dFork, .dUndo]
    idle s0 ∧ s0.conc = 0 ∧ runningTasks s = [3, 4] := by
  decide

/-! ### tasks queued at Stop (former finding C19-stop-drop, repaired: the dispatcher drains the queue) -/

/-- Before the repair (`nodrain = true`: the dispatcher returns as soon as its `select` takes `<-chClose`) the full
    statement was **false**: `New(1, 2)`: task 1 runs on the dispatcher, task 2 is accepted into the queue (`Go` has
    returned), `Stop`, task 1 returns, the dispatcher takes `<-chClose` and returns.  Task 2 was handed over before
    `Stop`, is still in the queue, and no step other than a new `Go` is enabled any more. -/
theorem c19_stop_drop_counterexample :
    let g : Cfg := { maxC := 0, cap := 2, nodrain := true }
    let s := run g init [.go 1, .goUndo 0, .goEnq 0, .dRecv, .dFork, .dUndo, .go 2, .goUndo 0, .goEnq 0,
                         .stopAdd, .stopClose, .dFinish false, .dExit]
    s.handed = [1, 2] ∧ s.done = [1] ∧ s.queue = [2] ∧ s.goers = [] ∧ s.workers = [] ∧ s.disp = .exited ∧
      s.inflight = [] ∧ ∀ a, Act.internal a = true → step g s a = none := by
  refine ⟨by decide, by decide, by decide, by decide, by decide, by decide, by decide, ?_⟩
  intro a ha
  cases a <;> simp [Act.internal] at ha <;> simp [run, step, init]

/-- the same schedule on the repaired tree: the dispatcher enters its drain loop and task 2 runs -/
example :
    let g : Cfg := { maxC := 0, cap := 2 }
    let s := run g init [.go 1, .goUndo 0, .goEnq 0, .dRecv, .dFork, .dUndo, .go 2, .goUndo 0, .goEnq 0,
                         .stopAdd, .stopClose, .dFinish false, .dExit, .dDrain, .dFinish false, .dDrain]
    s.handed = [1, 2] ∧ s.done = [1, 2] ∧ s.queue = [] ∧ s.disp = .exited ∧ s.inflight = [] := by
  decide

/-- what `Stop` may still leave behind: a `Go` call that had not returned when `Stop` closed the channel (here: blocked
    on the full queue) gives up — its task is dropped, and it is recorded in `inflight` -/
example :
    let g : Cfg := { maxC := 0, cap := 1 }
    let s := run g init [.go 1, .goUndo 0, .goEnq 0, .dRecv, .dFork, .dUndo, .go 2, .goUndo 0, .goEnq 0,
                         .go 3, .goUndo 0, .stopAdd, .stopClose, .goDrop 0, .dFinish false, .dExit, .dDrain,
                         .dFinish false, .dDrain]
    s.done = [1, 2] ∧ s.dropped = [3] ∧ s.inflight = [3] ∧ s.disp = .exited := by
  decide

end TPool

/-! ### timer.Async: the same hand-over protocol (instance `Kind.async` of the C05 system) -/
namespace ExecQ

/-- Functions passed to `Timer.Async` run in FIFO order, each exactly once: at every moment the functions
    run so far are a prefix of those submitted, and when the drainer goroutine has gone everything ran. -/
theorem c19_async_fifo_exactly_once (as : List Act) :
    let s := run .async init as
    s.done <+: s.acc ∧ (s.drs = [] → s.done = s.acc) ∧ (s.acc.Nodup → s.done.Nodup) :=
  c05_fifo_exactly_once .async as

/-- At most one drainer goroutine, at most one function running, strictly serial history. -/
theorem c19_async_one_at_a_time (as : List Act) :
    let s := run .async init as
    s.drs.length ≤ 1 ∧ (runningJobs s).length ≤ 1 ∧
      ∃ cur, s.log = serial s.done ++ cur ∧ (cur = [] ∨ ∃ j, cur = [.s j] ∧ runningJobs s = [j]) :=
  c05_one_at_a_time .async as

/-- Every `Async` call is accepted (there is no closed state) … -/
theorem c19_async_accepts (s : St) (j : Nat) (must : Bool) :
    ∃ s', step .async s (.submit j must) = some s' ∧ s'.acc = s.acc ++ [j] := by
  simp only [step]
  split
  · rename_i h; simp at h
  · split <;> exact ⟨_, rfl, rfl⟩

/-- … and the drainer goroutine alone runs everything submitted, panics included. -/
theorem c19_async_completes (as : List Act) :
    let s := run .async init as
    ∃ n, (drain .async n s).drs = [] ∧ (drain .async n s).done = s.acc ∧ (drain .async n s).acc = s.acc :=
  c05_completes .async as

end ExecQ
