import NbioVerif.Lemmas.C19Pool
import NbioVerif.Properties.C05
/-! C19: executors — tasks run exactly once, within the bound, FIFO where promised.

Task pool (`TPool`, model of taskpool/taskpool.go **with** the repair of the dispatcher's missing
decrement; `g.leak = false`).  All theorems quantify over every action sequence `as` of the
transition system, i.e. over all submission patterns (bursts above the bound, queue full,
submissions racing `Stop`), task durations and interleavings of submitters, workers and dispatcher.

* `c19_bound`               tasks inside `f()` at the same time ≤ configured bound (bound ≥ 1)
* `c19_conservation`        every task handed over is in exactly one of {`Go` in flight, queue, a worker,
                            the dispatcher, done, dropped-at-Stop} — as a permutation of `handed`
* `c19_at_most_once`        distinct tasks: nothing runs twice, nothing that ran is still pending
* `c19_counter`, `c19_idle_counter_zero`   the counter equation; idle ∧ not stopped ⇒ `concurrent = 0`
* `c19_parallelism`         from an idle pool, as many mutually waiting tasks as a fresh pool runs together
                            (maxC − 1 on workers plus one on the dispatcher) run together again
* `c19_panic_contained`     a panicking task leaves worker/dispatcher exactly where a returning one does
* `c19_no_stuck_partial`    without `Stop`: while a task is pending or running some internal step or task end
                            is enabled (no deadlock, no stranded task)
* `c19_completes_partial`   without `Stop`: a finite continuation of the pool's own steps exists after which every
                            task handed over has run (`done` is a permutation of `handed`); every internal step
                            decreases a measure
* `c19_dropped_only_after_stop`
* `c19_leak_counterexample`, `c19_serial_after_leak`   the pinned tree (`leak = true`): idle with counter 1,
                            after which two mutually waiting tasks can never run together  (repaired: `fix:` commit)
* `c19_stop_drop_counterexample`   full statement "handed before Stop ⇒ runs" fails: a queued task is stranded when
                            the dispatcher takes `<-chClose` (known finding C19-stop-drop)

`timer.Async` (`ExecQ` with `Kind.async`): `c19_async_fifo_exactly_once`, `c19_async_one_at_a_time`,
`c19_async_completes`. -/
namespace TPool

theorem length_flatMap_wTask (l : List WPh) : (l.flatMap wTask).length ≤ l.length := by
  induction l with
  | nil => simp
  | cons x xs ih =>
    have : (wTask x).length ≤ 1 := by cases x <;> simp [wTask]
    simp only [List.flatMap_cons, List.length_append, List.length_cons]; omega

theorem flatMap_running (ts : List Nat) : (ts.map WPh.running).flatMap wTask = ts := by
  induction ts with
  | nil => rfl
  | cons t ts ih => simp [List.flatMap_cons, wTask, ih]

theorem length_dRun (d : Disp) : (dRun d).length ≤ 1 := by cases d <;> simp [dRun]

theorem cinv_reach (g : Cfg) (hl : g.leak = false) (as : List Act) : CInv g (run g init as) :=
  cinv_run g hl as init (cinv_init g)

/-- Bound: with `taskpool.New(n, q)`, `n ≥ 1`, never more than `n` tasks are inside `f()` at the same
    time (in fact never more than `max 1 (n-1)`: `n-2` workers and the dispatcher). -/
theorem c19_bound (n cap : Nat) (hn : 1 ≤ n) (as : List Act) :
    (runningTasks (run { maxC := (n : Int) - 1, cap := cap } init as)).length ≤ n := by
  have h := cinv_reach { maxC := (n : Int) - 1, cap := cap } rfl as
  generalize run { maxC := (n : Int) - 1, cap := cap } init as = s at h ⊢
  have hw := length_flatMap_wTask s.workers
  have hd := length_dRun s.disp
  simp only [runningTasks, List.length_append]
  rcases h.bound with hb | hb
  · rw [hb] at hw ⊢; simp at hw ⊢; omega
  · simp only at hb; omega

/-- The number of worker goroutines stays below `maxConcurrent` (or is zero). -/
theorem c19_workers_bound (g : Cfg) (hl : g.leak = false) (as : List Act) :
    let s := run g init as
    s.workers = [] ∨ (s.workers.length : Int) < g.maxC := (cinv_reach g hl as).bound

/-- The counter equation: `concurrent` = worker goroutines + failed-fork increments not yet undone
    (`Go` calls and dispatcher) + `Stop`'s addend. -/
theorem c19_counter (g : Cfg) (hl : g.leak = false) (as : List Act) :
    let s := run g init as
    s.conc = (s.workers.length : Int) + (nFailed s : Int) + (dFailed s : Int) + stopTerm g s :=
  (cinv_reach g hl as).counter

/-- Idle ⇒ counter = 0: once no worker goroutine exists, no `Go` is in flight and the dispatcher is
    back in its `select`, the counter is exactly 0 again — whatever overload happened before. -/
theorem c19_idle_counter_zero (g : Cfg) (hl : g.leak = false) (as : List Act) :
    idle (run g init as) → (run g init as).stopAdd = false → (run g init as).conc = 0 := by
  have h := (cinv_reach g hl as).counter
  generalize run g init as = s at h ⊢
  intro hi hs
  obtain ⟨hw, _, hg, hd⟩ := hi
  simp [hw, hg, hd, hs, nFailed, dFailed, stopTerm] at h
  exact h

/-- Conservation: the tasks handed over so far are, as a multiset, exactly the tasks found in a `Go`
    call in flight, in the queue, on a worker, in the dispatcher's hands, done, or dropped at `Stop`. -/
theorem c19_conservation (g : Cfg) (as : List Act) :
    (allTasks (run g init as)).Perm (run g init as).handed :=
  List.perm_iff_count.mpr (cons_run g as init cons_init)

/-- Exactly-once, safety half: if the tasks handed over are pairwise distinct then no task is in two
    places at once and none is in one place twice; in particular a task never runs twice, and a task
    that has run is neither queued nor running any more. -/
theorem c19_at_most_once (g : Cfg) (as : List Act) :
    let s := run g init as
    s.handed.Nodup → (allTasks s).Nodup ∧ s.done.Nodup ∧
      (∀ t ∈ s.done, t ∉ s.queue ∧ t ∉ runningTasks s ∧ t ∉ pendingTasks s) := by
  intro s hn
  have hp := c19_conservation g as
  have hnd : (allTasks s).Nodup := hp.nodup_iff.mpr hn
  refine ⟨hnd, ?_, ?_⟩
  · unfold allTasks at hnd
    have := (List.nodup_append.mp hnd).1
    exact (List.nodup_append.mp this).2.1
  · intro t ht
    unfold allTasks at hnd
    -- t ∈ done; every other component is disjoint from done
    have h1 := List.nodup_append.mp hnd          -- (… ++ done) ++ dropped
    have h2 := List.nodup_append.mp h1.1         -- (… ++ dTask) ++ done
    have hdisj := h2.2.2
    have hnot : ∀ x, x ∈ s.goers.flatMap gTask ++ s.queue ++ s.workers.flatMap wTask ++ dTask s.disp → x ≠ t :=
      fun x hx => hdisj x hx t ht
    refine ⟨?_, ?_, ?_⟩
    · intro hq; exact hnot t (by simp [hq]) rfl
    · intro hr
      simp only [runningTasks, List.mem_append] at hr
      rcases hr with hr | hr
      · exact hnot t (by simp only [List.mem_append]; exact .inl (.inr hr)) rfl
      · have : t ∈ dTask s.disp := by
          revert hr; cases s.disp <;> simp [dTask, dRun]
        exact hnot t (by simp only [List.mem_append]; exact .inr this) rfl
    · intro hpd
      simp only [pendingTasks, List.mem_append] at hpd
      rcases hpd with (hpd | hpd) | hpd
      · exact hnot t (by simp only [List.mem_append]; exact .inl (.inl (.inl hpd))) rfl
      · exact hnot t (by simp [hpd]) rfl
      · have : t ∈ dTask s.disp := by
          revert hpd; cases s.disp <;> simp [dTask, dPend]
        exact hnot t (by simp only [List.mem_append]; exact .inr this) rfl

/-- A panicking task is contained: the worker (resp. the dispatcher) is left exactly where a returning
    task leaves it — `caller`'s recover — only the panic count differs. -/
theorem c19_panic_contained (g : Cfg) (s : St) (i : Nat) :
    step g s (.wFinish i true) = (step g s (.wFinish i false)).map (fun s' => { s' with panics := s'.panics + 1 }) ∧
    step g s (.dFinish true) = (step g s (.dFinish false)).map (fun s' => { s' with panics := s'.panics + 1 }) := by
  constructor
  · simp only [step]; split <;> simp
  · simp only [step]; split <;> simp

/-! ### parallelism is available again -/

theorem go_forks (g : Cfg) : ∀ (ts : List Nat) (s : St), s.conc = (s.workers.length : Int) →
    ((s.workers.length + ts.length : Nat) : Int) < g.maxC →
    (run g s (ts.map Act.go)).workers = s.workers ++ ts.map WPh.running ∧
    (run g s (ts.map Act.go)).conc = ((s.workers.length + ts.length : Nat) : Int) ∧
    (run g s (ts.map Act.go)).goers = s.goers ∧ (run g s (ts.map Act.go)).queue = s.queue ∧
    (run g s (ts.map Act.go)).disp = s.disp := by
  intro ts
  induction ts with
  | nil => intro s hc _; simp [run, hc]
  | cons t ts ih =>
    intro s hc hlt
    have hv : s.conc + 1 < g.maxC := by simp at hlt; omega
    simp only [List.map_cons, run, step, hv, if_true]
    have := ih { s with conc := s.conc + 1, workers := s.workers ++ [.running t], handed := s.handed ++ [t] }
      (by simp [hc]) (by simp at hlt ⊢; omega)
    obtain ⟨h1, h2, h3, h4, h5⟩ := this
    refine ⟨by rw [h1]; simp, by rw [h2]; simp; omega, h3, h4, h5⟩

/-- Parallelism after overload: take **any** reachable state in which the pool is idle again and not
    stopped (whatever bursts, full queues and parked `Go` calls came before).  Handing over
    `k < maxConcurrent` tasks starts `k` workers that all run at the same time; so a barrier of that many
    mutually waiting tasks completes, exactly as on a fresh pool. -/
theorem c19_parallelism (g : Cfg) (hl : g.leak = false) (as : List Act) (ts : List Nat) :
    let s := run g init as
    idle s → s.stopAdd = false → (ts.length : Int) < g.maxC →
    runningTasks (run g s (ts.map Act.go)) = ts := by
  intro s hi hs hlt
  have hc := c19_idle_counter_zero g hl as hi hs
  obtain ⟨hw, hq, hg, hd⟩ := hi
  have := go_forks g ts s (by rw [hc, hw]; simp) (by rw [hw]; simpa using hlt)
  obtain ⟨h1, _, _, _, h5⟩ := this
  simp only [runningTasks, h1, h5, hd, hw, List.nil_append, dRun, List.append_nil]
  exact flatMap_running ts

/-- ... and one more runs on the dispatcher: with the workers all busy the next task goes through the
    queue and the dispatcher runs it inline (and its failed `fork` no longer costs a slot: the counter
    is back to the number of workers). -/
theorem c19_parallelism_dispatcher (g : Cfg) (s : St) (t : Nat) (hl : g.leak = false) (hcap : 1 ≤ g.cap)
    (_hc : s.conc = (s.workers.length : Int)) (hfull : ¬ s.conc + 1 < g.maxC)
    (hg : s.goers = []) (hq : s.queue = []) (hd : s.disp = .idle) :
    let s' := run g s [.go t, .goUndo 0, .goEnq 0, .dRecv, .dFork, .dUndo]
    s'.disp = .running t ∧ s'.workers = s.workers ∧ s'.conc = s.conc ∧ s'.queue = [] ∧ s'.goers = [] := by
  have hcap' : 0 < g.cap := hcap
  simp [run, step, hfull, hg, hq, hd, hl, hcap']

/-! ### without Stop nothing is stranded -/

/-- structural facts about `Stop`: the dispatcher only returns after `close(chClose)`, which comes
    after the addition; tasks are only dropped after the close; the queue never exceeds its capacity -/
structure SInv (g : Cfg) (s : St) : Prop where
  exited  : s.disp = .exited → s.closed = true
  closed  : s.closed = true → s.stopAdd = true
  dropped : s.dropped ≠ [] → s.closed = true
  qcap    : s.queue.length ≤ g.cap

theorem sinv_init (g : Cfg) : SInv g init := by constructor <;> simp [init]

theorem sinv_step (g : Cfg) (s s' : St) (a : Act) (h : SInv g s) (hs : step g s a = some s') : SInv g s' := by
  obtain ⟨h1, h2, h3, h4⟩ := h
  cases a with
  | go t => simp only [step] at hs; split at hs <;> cases hs <;> exact ⟨h1, h2, h3, h4⟩
  | goUndo i => simp only [step] at hs; split at hs <;> first | (cases hs; exact ⟨h1, h2, h3, h4⟩) | cases hs
  | goEnq i =>
    simp only [step] at hs
    split at hs
    · split at hs
      · rename_i hlt; cases hs; exact ⟨h1, h2, h3, by simp; omega⟩
      · split at hs
        · rename_i hid; cases hs
          exact ⟨by simp, h2, h3, h4⟩
        · cases hs
    · cases hs
  | goDrop i =>
    simp only [step] at hs
    split at hs
    · split at hs
      · rename_i hc; cases hs; exact ⟨h1, h2, fun _ => hc, h4⟩
      · cases hs
    · cases hs
  | wFinish i p => simp only [step] at hs; split at hs <;> first | (cases hs; exact ⟨h1, h2, h3, h4⟩) | cases hs
  | wTake i =>
    simp only [step] at hs
    split at hs
    · split at hs
      · rename_i t q hq; cases hs; exact ⟨h1, h2, h3, by rw [hq] at h4; simp at h4 ⊢; omega⟩
      · cases hs; exact ⟨h1, h2, h3, h4⟩
    · cases hs
  | wRdv i k =>
    simp only [step] at hs
    split at hs
    · split at hs <;> first | (cases hs; exact ⟨h1, h2, h3, h4⟩) | cases hs
    · cases hs
  | wExit i => simp only [step] at hs; split at hs <;> first | (cases hs; exact ⟨h1, h2, h3, h4⟩) | cases hs
  | dRecv =>
    simp only [step] at hs
    split at hs
    · rename_i t q hd hq; cases hs; exact ⟨by simp, h2, h3, by rw [hq] at h4; simp at h4 ⊢; omega⟩
    · cases hs
  | dExit =>
    simp only [step] at hs
    split at hs
    · split at hs
      · rename_i hc; cases hs; exact ⟨fun _ => hc, h2, h3, h4⟩
      · cases hs
    · cases hs
  | dFork =>
    simp only [step] at hs
    split at hs
    · split at hs <;> (cases hs; exact ⟨by simp, h2, h3, h4⟩)
    · cases hs
  | dUndo => simp only [step] at hs; split at hs <;> first | (cases hs; exact ⟨by simp, h2, h3, h4⟩) | cases hs
  | dFinish p => simp only [step] at hs; split at hs <;> first | (cases hs; exact ⟨by simp, h2, h3, h4⟩) | cases hs
  | stopAdd =>
    simp only [step] at hs
    split at hs
    · cases hs
    · cases hs; exact ⟨h1, fun _ => rfl, h3, h4⟩
  | stopClose =>
    simp only [step] at hs
    split at hs
    · rename_i hc; cases hs
      simp at hc
      exact ⟨fun _ => rfl, fun _ => hc.1, fun _ => rfl, h4⟩
    · cases hs

theorem sinv_run (g : Cfg) (as : List Act) : ∀ s, SInv g s → SInv g (run g s as) := by
  induction as with
  | nil => intro s h; exact h
  | cons a as ih =>
    intro s h
    simp only [run]
    split
    · rename_i s' hs; exact ih s' (sinv_step g s s' a h hs)
    · exact ih s h

/-- the steps that are not the harness's / the clients': everything but `go` and `Stop` -/
def Act.internal : Act → Bool
  | .go _ | .stopAdd | .stopClose => false
  | _ => true

/-- Tasks are dropped only after `Stop` closed the channel. -/
theorem c19_dropped_only_after_stop (g : Cfg) (as : List Act) :
    let s := run g init as
    s.closed = false → s.dropped = [] := by
  intro s hc
  have h := sinv_run g as init (sinv_init g)
  cases hd : s.dropped with
  | nil => rfl
  | cons x xs =>
    have := h.dropped (by simp only [s] at hd; rw [hd]; simp)
    simp only [s] at hc; rw [hc] at this; cases this

theorem no_stuck (g : Cfg) (s : St) (hS : SInv g s) (hst : s.stopAdd = false)
    (hwork : pendingTasks s ≠ [] ∨ runningTasks s ≠ []) :
    ∃ a, Act.internal a = true ∧ (step g s a).isSome = true := by
  have hne : s.disp ≠ .exited := by
    intro he
    have := hS.closed (hS.exited he)
    rw [hst] at this; cases this
  -- the dispatcher, unless blocked in its select on an empty queue, can always move
  have hdisp : (s.disp ≠ .idle ∨ s.queue ≠ []) → ∃ a, Act.internal a = true ∧ (step g s a).isSome = true := by
    intro h
    cases hd : s.disp with
    | idle =>
      rcases h with h | h
      · exact absurd hd h
      · cases hq : s.queue with
        | nil => exact absurd hq h
        | cons t q => exact ⟨.dRecv, rfl, by simp [step, hd, hq]⟩
    | holding t => exact ⟨.dFork, rfl, by simp only [step, hd]; split <;> simp⟩
    | failed t => exact ⟨.dUndo, rfl, by simp [step, hd]⟩
    | running t => exact ⟨.dFinish false, rfl, by simp [step, hd]⟩
    | exited => exact absurd hd hne
  by_cases hdq : s.disp ≠ .idle ∨ s.queue ≠ []
  · exact hdisp hdq
  · have hdi : s.disp = .idle := by
      cases hd : s.disp <;> simp [hd] at hdq ⊢
    have hq : s.queue = [] := by
      cases hq : s.queue <;> simp [hq] at hdq ⊢
    rcases hwork with hp | hr
    · -- pending, dispatcher idle, queue empty: a Go call is in flight
      cases hgs : s.goers with
      | nil => simp [pendingTasks, hgs, hq, hdi, dPend] at hp
      | cons x xs =>
        cases x with
        | failed t => exact ⟨.goUndo 0, rfl, by simp [step, hgs]⟩
        | enq t =>
          refine ⟨.goEnq 0, rfl, ?_⟩
          simp only [step, hgs, List.getElem?_cons_zero, hq, List.length_nil]
          by_cases hc : 0 < g.cap
          · simp [hc]
          · have : g.cap = 0 := by omega
            simp [this, hdi]
    · -- running, dispatcher idle: a worker runs it
      simp only [runningTasks, hdi, dRun, List.append_nil] at hr
      have : ∃ (i : Nat) (t : Nat), s.workers[i]? = some (WPh.running t) := by
        clear hdq hdisp
        generalize s.workers = ws at hr
        induction ws with
        | nil => simp at hr
        | cons w ws ih =>
          cases w with
          | running t => exact ⟨0, t, rfl⟩
          | idle =>
            obtain ⟨i, t, h⟩ := ih (by simpa [List.flatMap_cons, wTask] using hr)
            exact ⟨i + 1, t, by simpa using h⟩
          | exiting =>
            obtain ⟨i, t, h⟩ := ih (by simpa [List.flatMap_cons, wTask] using hr)
            exact ⟨i + 1, t, by simpa using h⟩
      obtain ⟨i, t, hw⟩ := this
      exact ⟨.wFinish i false, rfl, by simp [step, hw]⟩

/-- No stranded task without `Stop` (partial form of "every task handed over runs"): in every reachable
    state in which `Stop` has not been called, as long as some task is pending (in a `Go` call, in the
    queue, in the dispatcher's hands) or running, an internal step or a task end is enabled — there is no
    deadlock, the pool cannot sit idle on a queued task.
    The hypothesis `stopAdd = false` cannot be dropped: `c19_stop_drop_counterexample`. -/
theorem c19_no_stuck_partial (g : Cfg) (as : List Act) :
    (run g init as).stopAdd = false →
    (pendingTasks (run g init as) ≠ [] ∨ runningTasks (run g init as) ≠ []) →
    ∃ a, Act.internal a = true ∧ (step g (run g init as) a).isSome = true :=
  no_stuck g _ (sinv_run g as init (sinv_init g))

/-! ### ... and every task handed over does run (exactly once) -/

def wWeight : WPh → Nat | .running _ => 4 | .idle => 2 | .exiting => 1
def gWeight : GoPh → Nat | .failed _ => 10 | .enq _ => 9
def dWeight : Disp → Nat | .holding _ => 7 | .failed _ => 6 | .running _ => 4 | .idle => 1 | .exited => 0

/-- a measure that every internal step and every task end decreases -/
def mu (s : St) : Nat :=
  (s.goers.map gWeight).sum + 8 * s.queue.length + (s.workers.map wWeight).sum + dWeight s.disp

theorem sum_map_set {α : Type} (f : α → Nat) : ∀ (l : List α) (i : Nat) (x y : α), l[i]? = some x →
    ((l.set i y).map f).sum + f x = (l.map f).sum + f y := by
  intro l
  induction l with
  | nil => intro i x y h; simp at h
  | cons a as ih =>
    intro i x y h
    cases i with
    | zero => simp at h; subst h; simp; omega
    | succ j =>
      simp at h
      have := ih j x y h
      simp at this ⊢; omega

theorem sum_map_eraseIdx {α : Type} (f : α → Nat) : ∀ (l : List α) (i : Nat) (x : α), l[i]? = some x →
    ((l.eraseIdx i).map f).sum + f x = (l.map f).sum := by
  intro l
  induction l with
  | nil => intro i x h; simp at h
  | cons a as ih =>
    intro i x h
    cases i with
    | zero => simp at h; subst h; simp; omega
    | succ j =>
      simp at h
      have := ih j x h
      simp at this ⊢; omega

theorem internal_decreases (g : Cfg) (s s' : St) (a : Act) (ha : Act.internal a = true)
    (hs : step g s a = some s') : mu s' < mu s ∧ s'.handed = s.handed ∧ s'.stopAdd = s.stopAdd := by
  cases a with
  | go t => simp [Act.internal] at ha
  | stopAdd => simp [Act.internal] at ha
  | stopClose => simp [Act.internal] at ha
  | goUndo i =>
    simp only [step] at hs
    split at hs
    · rename_i t hg
      cases hs
      have := sum_map_set gWeight s.goers i _ (.enq t) hg
      simp [mu, gWeight] at this ⊢; omega
    · cases hs
  | goEnq i =>
    simp only [step] at hs
    split at hs
    · rename_i t hg
      have := sum_map_eraseIdx gWeight s.goers i _ hg
      split at hs
      · cases hs
        simp [mu, gWeight] at this ⊢; omega
      · split at hs
        · rename_i hidle
          cases hs
          have hd : s.disp = .idle := hidle.2.1
          simp [mu, gWeight, dWeight, hd] at this ⊢; omega
        · cases hs
    · cases hs
  | goDrop i =>
    simp only [step] at hs
    split at hs
    · rename_i t hg
      have := sum_map_eraseIdx gWeight s.goers i _ hg
      split at hs
      · cases hs
        simp [mu, gWeight] at this ⊢; omega
      · cases hs
    · cases hs
  | wFinish i p =>
    simp only [step] at hs
    split at hs
    · rename_i t hw
      cases hs
      have := sum_map_set wWeight s.workers i _ .idle hw
      simp [mu, wWeight] at this ⊢; omega
    · cases hs
  | wTake i =>
    simp only [step] at hs
    split at hs
    · rename_i hw
      split at hs
      · rename_i t q hq
        cases hs
        have := sum_map_set wWeight s.workers i _ (.running t) hw
        simp [mu, wWeight, hq] at this ⊢; omega
      · rename_i hq
        cases hs
        have := sum_map_set wWeight s.workers i _ .exiting hw
        simp [mu, wWeight, hq] at this ⊢; omega
    · cases hs
  | wRdv i k =>
    simp only [step] at hs
    split at hs
    · rename_i t hw hg
      split at hs
      · cases hs
        have h1 := sum_map_set wWeight s.workers i _ (.running t) hw
        have h2 := sum_map_eraseIdx gWeight s.goers k _ hg
        simp [mu, wWeight, gWeight] at h1 h2 ⊢; omega
      · cases hs
    · cases hs
  | wExit i =>
    simp only [step] at hs
    split at hs
    · rename_i hw
      cases hs
      have := sum_map_eraseIdx wWeight s.workers i _ hw
      simp [mu, wWeight] at this ⊢; omega
    · cases hs
  | dRecv =>
    simp only [step] at hs
    split at hs
    · rename_i t q hd hq
      cases hs
      simp [mu, dWeight, hd, hq]; omega
    · cases hs
  | dExit =>
    simp only [step] at hs
    split at hs
    · rename_i hd
      split at hs
      · cases hs; simp [mu, dWeight, hd]
      · cases hs
    · cases hs
  | dFork =>
    simp only [step] at hs
    split at hs
    · rename_i t hd
      split at hs <;> cases hs <;> (simp [mu, dWeight, wWeight, hd]; try omega)
    · cases hs
  | dUndo =>
    simp only [step] at hs
    split at hs
    · rename_i t hd
      cases hs
      simp [mu, dWeight, hd]
    · cases hs
  | dFinish p =>
    simp only [step] at hs
    split at hs
    · rename_i t hd
      cases hs
      simp [mu, dWeight, hd]
    · cases hs

theorem completes_aux (g : Cfg) : ∀ (n : Nat) (s : St), SInv g s → s.stopAdd = false → mu s ≤ n →
    ∃ bs, (∀ b ∈ bs, Act.internal b = true) ∧ pendingTasks (run g s bs) = [] ∧ runningTasks (run g s bs) = [] ∧
      (run g s bs).handed = s.handed ∧ (run g s bs).stopAdd = false := by
  intro n
  induction n with
  | zero =>
    intro s hS hst hm
    by_cases hw : pendingTasks s ≠ [] ∨ runningTasks s ≠ []
    · obtain ⟨a, ha, hen⟩ := no_stuck g s hS hst hw
      obtain ⟨s1, hs1⟩ := Option.isSome_iff_exists.mp hen
      have := (internal_decreases g s s1 a ha hs1).1
      omega
    · have hp : pendingTasks s = [] := Classical.byContradiction fun h => hw (.inl h)
      have hr : runningTasks s = [] := Classical.byContradiction fun h => hw (.inr h)
      exact ⟨[], by simp, hp, hr, rfl, hst⟩
  | succ n ih =>
    intro s hS hst hm
    by_cases hw : pendingTasks s ≠ [] ∨ runningTasks s ≠ []
    · obtain ⟨a, ha, hen⟩ := no_stuck g s hS hst hw
      obtain ⟨s1, hs1⟩ := Option.isSome_iff_exists.mp hen
      obtain ⟨hlt, hh, hsa⟩ := internal_decreases g s s1 a ha hs1
      obtain ⟨bs, h1, h2, h3, h4, h5⟩ := ih s1 (sinv_step g s s1 a hS hs1) (by rw [hsa]; exact hst) (by omega)
      refine ⟨a :: bs, ?_, ?_, ?_, ?_, ?_⟩
      · intro b hb
        rcases List.mem_cons.mp hb with hb | hb
        · rw [hb]; exact ha
        · exact h1 b hb
      all_goals simp only [run, hs1]
      · exact h2
      · exact h3
      · rw [h4, hh]
      · exact h5
    · have hp : pendingTasks s = [] := Classical.byContradiction fun h => hw (.inl h)
      have hr : runningTasks s = [] := Classical.byContradiction fun h => hw (.inr h)
      exact ⟨[], by simp, hp, hr, rfl, hst⟩

/-- Exactly-once, liveness half (no `Stop`): from every reachable state in which `Stop` has not been
    called there is a finite continuation consisting only of the pool's own steps and task ends (no new
    `Go`, no `Stop`) after which **every task handed over so far has run**: nothing is pending, nothing is
    running, nothing was dropped, and `done` is a permutation of `handed` (with `c19_at_most_once`: each
    exactly once).  Every internal step decreases a measure, so under a fair scheduler with terminating
    tasks every schedule is such a continuation.  The hypothesis `stopAdd = false` is necessary
    (`c19_stop_drop_counterexample`). -/
theorem c19_completes_partial (g : Cfg) (as : List Act) (hst : (run g init as).stopAdd = false) :
    ∃ bs, (∀ b ∈ bs, Act.internal b = true) ∧
      let s' := run g (run g init as) bs
      pendingTasks s' = [] ∧ runningTasks s' = [] ∧ s'.dropped = [] ∧ s'.handed = (run g init as).handed ∧
      s'.done.Perm (run g init as).handed := by
  have hS := sinv_run g as init (sinv_init g)
  obtain ⟨bs, h1, h2, h3, h4, h5⟩ := completes_aux g (mu (run g init as)) (run g init as) hS hst (Nat.le_refl _)
  refine ⟨bs, h1, h2, h3, ?_, h4, ?_⟩
  · -- nothing dropped: the channel was never closed
    have hS' := sinv_run g bs (run g init as) hS
    cases hd : (run g (run g init as) bs).dropped with
    | nil => rfl
    | cons x xs =>
      have hc := hS'.closed (hS'.dropped (by rw [hd]; simp))
      rw [h5] at hc; cases hc
  · -- conservation with every other component empty
    have hrun : run g (run g init as) bs = run g init (as ++ bs) := by
      clear h1 h2 h3 h4 h5 hS hst
      generalize init = s0
      induction as generalizing s0 with
      | nil => rfl
      | cons a as ih =>
        simp only [List.cons_append, run]
        split <;> exact ih _
    have hcons := c19_conservation g (as ++ bs)
    rw [← hrun] at hcons
    rw [← h4]
    have hS' := sinv_run g bs (run g init as) hS
    have hdrop : (run g (run g init as) bs).dropped = [] := by
      cases hd : (run g (run g init as) bs).dropped with
      | nil => rfl
      | cons x xs =>
        have hc := hS'.closed (hS'.dropped (by rw [hd]; simp))
        rw [h5] at hc; cases hc
    have hall : allTasks (run g (run g init as) bs) = (run g (run g init as) bs).done := by
      generalize run g (run g init as) bs = s' at h2 h3 hdrop
      simp only [pendingTasks, List.append_eq_nil_iff] at h2
      simp only [runningTasks, List.append_eq_nil_iff] at h3
      obtain ⟨⟨hg, hq⟩, hdp⟩ := h2
      obtain ⟨hw, hdr⟩ := h3
      have hdt : dTask s'.disp = [] := by
        revert hdp hdr; cases s'.disp <;> simp [dTask, dPend, dRun]
      simp [allTasks, hg, hq, hw, hdt, hdrop]
    rw [hall] at hcons
    exact hcons

/-! ### the defect that was repaired (pinned tree: `leak = true`) -/

/-- Pinned tree: capacity is lost for good. `New(3, 1)`: an idle state with a non-zero counter is
    reachable — two tasks, the second one goes through the dispatcher whose failed `fork` is never undone. -/
theorem c19_leak_counterexample :
    let g : Cfg := { maxC := 2, cap := 1, leak := true }
    let s := run g init [.go 1, .go 2, .goUndo 0, .goEnq 0, .dRecv, .dFork, .dUndo, .wFinish 0 false, .wTake 0,
                         .wExit 0, .dFinish false]
    idle s ∧ s.stopAdd = false ∧ s.conc = 1 ∧ s.done = [1, 2] := by
  decide

/-- ... after which no submission ever forks again: two tasks handed to the idle pool both end up on
    the dispatcher, one running and one queued — two mutually waiting tasks deadlock. -/
theorem c19_serial_after_leak :
    let g : Cfg := { maxC := 2, cap := 1, leak := true }
    let s0 := run g init [.go 1, .go 2, .goUndo 0, .goEnq 0, .dRecv, .dFork, .dUndo, .wFinish 0 false, .wTake 0,
                          .wExit 0, .dFinish false]
    let s := run g s0 [.go 3, .goUndo 0, .goEnq 0, .dRecv, .dFork, .dUndo, .go 4, .goUndo 0, .goEnq 0]
    runningTasks s = [3] ∧ s.queue = [4] ∧ s.workers = [] ∧ s.goers = [] := by
  decide

/-- the same schedule on the repaired tree: idle with counter 0, and both later tasks run together -/
example :
    let g : Cfg := { maxC := 2, cap := 1 }
    let s0 := run g init [.go 1, .go 2, .goUndo 0, .goEnq 0, .dRecv, .dFork, .dUndo, .wFinish 0 false, .wTake 0,
                          .wExit 0, .dFinish false]
    let s := run g s0 [.go 3, .go 4, .goUndo 0, .goEnq 0, .dRecv, .dFork, .dUndo]
    idle s0 ∧ s0.conc = 0 ∧ runningTasks s = [3, 4] := by
  decide

/-! ### tasks queued at Stop (known finding C19-stop-drop) -/

/-- Full statement "every task handed to a pool before it is stopped runs" is **false** on the tree:
    `New(1, 2)`: task 1 runs on the dispatcher, task 2 is accepted into the queue (`Go` has returned),
    `Stop`, task 1 returns, the dispatcher's `select` takes `<-chClose` and returns.  Task 2 was handed
    over before `Stop`, is still in the queue, and no step other than a new `Go` is enabled any more. -/
theorem c19_stop_drop_counterexample :
    let g : Cfg := { maxC := 0, cap := 2 }
    let s := run g init [.go 1, .goUndo 0, .goEnq 0, .dRecv, .dFork, .dUndo, .go 2, .goUndo 0, .goEnq 0,
                         .stopAdd, .stopClose, .dFinish false, .dExit]
    s.handed = [1, 2] ∧ s.done = [1] ∧ s.queue = [2] ∧ s.goers = [] ∧ s.workers = [] ∧ s.disp = .exited ∧
      ∀ a, Act.internal a = true → step g s a = none := by
  refine ⟨by decide, by decide, by decide, by decide, by decide, by decide, ?_⟩
  intro a ha
  cases a <;> simp [Act.internal] at ha <;> simp [run, step, init]

end TPool

/-! ### timer.Async: the same hand-over protocol (instance `Kind.async` of the C05 system) -/
namespace ExecQ

/-- Functions passed to `Timer.Async` run in FIFO order, each exactly once: at every moment the functions
    run so far are a prefix of those submitted, and when the drainer goroutine has gone everything ran. -/
theorem c19_async_fifo_exactly_once (as : List Act) :
    let s := run .async init as
    s.done <+: s.acc ∧ (s.drs = [] → s.done = s.acc) ∧ (s.acc.Nodup → s.done.Nodup) :=
  c05_fifo_exactly_once .async as

/-- At most one drainer goroutine, at most one function running, strictly serial history. -/
theorem c19_async_one_at_a_time (as : List Act) :
    let s := run .async init as
    s.drs.length ≤ 1 ∧ (runningJobs s).length ≤ 1 ∧
      ∃ cur, s.log = serial s.done ++ cur ∧ (cur = [] ∨ ∃ j, cur = [.s j] ∧ runningJobs s = [j]) :=
  c05_one_at_a_time .async as

/-- Every `Async` call is accepted (there is no closed state) … -/
theorem c19_async_accepts (s : St) (j : Nat) (must : Bool) :
    ∃ s', step .async s (.submit j must) = some s' ∧ s'.acc = s.acc ++ [j] := by
  simp only [step]
  split
  · rename_i h; simp at h
  · split <;> exact ⟨_, rfl, rfl⟩

/-- … and the drainer goroutine alone runs everything submitted, panics included. -/
theorem c19_async_completes (as : List Act) :
    let s := run .async init as
    ∃ n, (drain .async n s).drs = [] ∧ (drain .async n s).done = s.acc ∧ (drain .async n s).acc = s.acc :=
  c05_completes .async as

end ExecQ
