import NbioVerif.Model.TPool
import NbioVerif.Properties.C05
/-! C19: executors (model level) — placeholder, theorems follow. -/
namespace TPool

theorem init_idle : idle init := ⟨rfl, rfl, rfl, rfl⟩

end TPool
