import NbioVerif.Lemmas.StopMeasure
/-!
# C18 — Stop terminates and reclaims (model part)

Theorems about the Stop model (`Model/StopM.lean`) over **every** interleaving of registrations (`addConn`'s three
separate statements, dials, transferred conns), closes by anyone, the Async drainer and Stop's own step sequence
(`run` skips actions that are not enabled, so an arbitrary `List Act` is an arbitrary schedule).

Partial by nature: that poller / listener / executor goroutines and descriptors are really released is a runtime
fact the model cannot exhibit (measured by the harness `hstop`). And the liveness statement at full strength —
including registrations racing the snapshot — is **false on the pinned tree** (defect #11):

    theorem c18_stop_progress (as : List Act) :          -- FALSE, see `c18_stop_progress_counterexample`
      let s := run init as
      s.sp ≠ .idle → s.sp ≠ .returned → ∃ a, a.internal = true ∧ (step s a).isSome = true

It is proved with the extra hypothesis `raced = false` (`c18_stop_progress_partial`), and `c18_no_race_when_settled`
says when that hypothesis is guaranteed: no `addConn` in flight when Stop scans and no registration afterwards.
-/
namespace StopM

/-- **Wait-group accounting.** In every reachable state `wgConn` = (1 until Stop's `Done`) + opened conns whose close
    callback has not finished; in particular it is never negative (`WaitGroup` never panics). -/
theorem c18_wg_accounting (as : List Act) :
    let s := run init as
    s.wg = (if pastSnapshot s.sp then 0 else 1) + (openCount s.conns : Int) ∧ 0 ≤ s.wg := by
  intro s
  have h := (inv_run as inv_init).acct.wg
  refine ⟨h, ?_⟩
  rw [h]
  split <;> omega

/-- **Close callback exactly once.** In every reachable state each conn's close callback has run once if the conn
    is done and never otherwise — never twice, whoever closed it (peer, user, timer, Stop, several of them). -/
theorem c18_close_callback_once (as : List Act) (c : Nat) (x : C) :
    let s := run init as
    s.conns[c]? = some x → x.cbs = (if x.ph = .done then 1 else 0) ∧ x.cbs ≤ 1 := by
  intro s hx
  have h := (inv_run as inv_init).acct.cbs c x hx
  refine ⟨h, ?_⟩
  rw [h]; split <;> omega

/-- a close callback is queued in the Async queue exactly while its conn is torn down and not yet notified
    (nothing is lost between teardown and notification, nothing is queued twice) -/
theorem c18_close_callback_queued (as : List Act) (c : Nat) :
    let s := run init as
    s.asyncQ.count (.closeCb c) = cbDue s.conns c :=
  (inv_run as inv_init).acct.cbq c

/-- **Every conn present in the table at the snapshot is closed exactly once and its close callback has finished
    before `Wait` returns.** (`snapIn` is the table content copied by `snapshot`; `pastWait` = Stop is beyond
    `wgConn.Wait()`.) Holds for every schedule, racing registrations included. -/
theorem c18_snapshot_conns_closed (as : List Act) :
    let s := run init as
    pastWait s.sp → ∀ c ∈ s.snapIn, ∃ x, s.conns[c]? = some x ∧ x.ph = .done ∧ x.cbs = 1 := by
  intro s hp c hc
  have hi := inv_run as inv_init
  obtain ⟨x, hx, hd⟩ := hi.reg.doneAfter hp c hc
  exact ⟨x, hx, hd, by have := hi.acct.cbs c x hx; simpa [hd] using this⟩

/-- `snapIn` really is the table at the snapshot -/
theorem c18_snapIn_is_table (s s' : St) (h : step s .snapshot = some s') : s'.snapIn = tableIds s.conns 0 := by
  simp only [step] at h
  split at h
  · cases h; rfl
  · cases h

/-- when `Wait` returns, *every* conn that was ever opened has had its close callback (not only the snapshot's) -/
theorem c18_wait_returns_all_closed (as : List Act) (s' : St) :
    let s := run init as
    step s .waitReturn = some s' → ∀ (c : Nat) (x : C), s'.conns[c]? = some x → x.ph = .accepted ∨ x.ph = .done := by
  intro s h c x hx
  have hi := inv_run as inv_init
  simp only [step] at h
  split at h
  · rename_i hp
    cases h
    have hwg := hi.acct.wg
    have hp1 : (run init as).sp = .waiting := hp.1
    have hp2 : (run init as).wg = 0 := hp.2
    have hps : pastSnapshot (run init as).sp = true := by simp [pastSnapshot, hp1]
    rw [hp2] at hwg
    simp [hps] at hwg
    have hz : openCount (run init as).conns = 0 := by omega
    have := openCount_zero _ hz c x hx
    simp [counted] at this
    by_cases hacc : x.ph = .accepted
    · exact Or.inl hacc
    · exact Or.inr (this hacc)
  · cases h

/-- **Every engine-internal step strictly decreases the measure** (remaining lifecycle steps of the conns + queued
    Async functions + pending scans + Stop's remaining statements): no schedule of internal steps is infinite. -/
theorem c18_internal_step_decreases (s s' : St) (a : Act) (ha : a.internal = true) (hs : step s a = some s') :
    mu s' < mu s := mu_decreases ha hs

/-- hence any run of enabled internal steps from `s` has at most `mu s` steps -/
theorem c18_internal_runs_bounded (s : St) (as : List Act) (h : internalRun s as) : as.length ≤ mu s :=
  internalRun_bounded s as h

/-- **Stop is never stuck, provided no registration raced the snapshot.** In every reachable state in which Stop has
    started, has not returned, and `raced = false`, some engine-internal step is enabled (Stop's next statement, a
    pending scan, an `addConn` continuation, a teardown, or the Async drainer). With `c18_internal_step_decreases`
    and fair scheduling of the engine's own goroutines: Stop returns. -/
theorem c18_stop_progress_partial (as : List Act) :
    let s := run init as
    s.sp ≠ .idle → s.sp ≠ .returned → s.raced = false →
      ∃ a, a ∈ candidates s.conns.length ∧ a.internal = true ∧ (step s a).isSome = true := by
  intro s h0 h1 hr
  have hconn : ∀ (c : Nat) (a : Act), c < s.conns.length → a ∈ [Act.open c, .store c, .register c true, .teardown c, .scan c] →
      a ∈ candidates s.conns.length := by
    intro c a hc ha
    unfold candidates
    exact List.mem_append_right _ (List.mem_flatMap.mpr ⟨c, List.mem_range.mpr hc, ha⟩)
  have hglob : ∀ (a : Act), a ∈ [Act.asyncRun, .stopListeners, .snapshot, .scanEnd, .waitReturn, .onStop, .stopPollers] →
      a ∈ candidates s.conns.length := by
    intro a ha
    unfold candidates
    exact List.mem_append_left _ ha
  have hi : Inv s := inv_run as inv_init
  cases hsp : s.sp with
  | idle => exact absurd hsp h0
  | returned => exact absurd hsp h1
  | listenersStopped => exact ⟨.snapshot, hglob _ (by simp), rfl, by simp [step, hsp]⟩
  | onStop => exact ⟨.onStop, hglob _ (by simp), rfl, by simp [step, hsp]⟩
  | pollers => exact ⟨.stopPollers, hglob _ (by simp), rfl, by simp [step, hsp]⟩
  | scanning =>
    by_cases hall : allScannedBelow s.conns s.toScan = true
    · exact ⟨.scanEnd, hglob _ (by simp), rfl, by simp [step, hsp, hall]⟩
    · -- some conn below `toScan` is unscanned: scan it
      simp only [allScannedBelow, List.all_eq_true, List.mem_range] at hall
      have : ∃ c, c < s.toScan ∧ ¬ ((match s.conns[c]? with | some x => x.scanned | none => true) = true) := by
        apply Classical.byContradiction
        intro hne
        apply hall
        intro c hc
        apply Classical.byContradiction
        intro hcc
        exact hne ⟨c, hc, hcc⟩
      obtain ⟨c, _, hcn⟩ := this
      cases hx : s.conns[c]? with
      | none => simp [hx] at hcn
      | some x =>
        have hlt : c < s.conns.length := (List.getElem?_eq_some_iff.mp hx).1
        refine ⟨.scan c, hconn c _ hlt (by simp), rfl, ?_⟩
        simp only [hx] at hcn
        simp [step, stepScan, hsp, hx, hcn]
  | waiting =>
    by_cases hwg : s.wg = 0
    · exact ⟨.waitReturn, hglob _ (by simp), rfl, by simp [step, hsp, hwg]⟩
    · -- the counter is positive: some conn is counted; whatever its phase, the engine can move it
      have hps : pastSnapshot s.sp = true := by simp [pastSnapshot, hsp]
      have hwg' := hi.acct.wg
      simp [hps] at hwg'
      have hpos : openCount s.conns ≠ 0 := by omega
      have : ∃ (c : Nat) (x : C), s.conns[c]? = some x ∧ counted x.ph = true := by
        apply Classical.byContradiction
        intro hne
        apply hpos
        have hall : ∀ (l : List C), (∀ (c : Nat) (x : C), l[c]? = some x → counted x.ph = false) → openCount l = 0 := by
          intro l
          induction l with
          | nil => intro _; rfl
          | cons y ys ih =>
            intro hl
            have hy := hl 0 y (by simp)
            have := ih (fun c x hx => hl (c + 1) x (by simpa using hx))
            simp [openCount, hy, this]
        apply hall
        intro c x hx
        cases hcx : counted x.ph with
        | false => rfl
        | true => exact absurd ⟨c, x, hx, hcx⟩ hne
      obtain ⟨c, x, hx, hcx⟩ := this
      have hlen : c < s.conns.length := by
        rcases List.getElem?_eq_some_iff.mp hx with ⟨hl, _⟩; exact hl
      cases hph : x.ph with
      | accepted => simp [counted, hph] at hcx
      | done => simp [counted, hph] at hcx
      | opening => exact ⟨.store c, hconn c _ hlen (by simp), rfl, by simp [step, stepStore, hx, hph]⟩
      | tabled => exact ⟨.register c true, hconn c _ hlen (by simp), rfl, by simp [step, stepRegister, hx, hph]⟩
      | closing => exact ⟨.teardown c, hconn c _ hlen (by simp), rfl, by simp [step, stepTeardown, hx, hph]⟩
      | torn =>
        have hq := hi.acct.cbq c
        simp only [cbDue, hx, hph, if_true] at hq
        refine ⟨.asyncRun, hglob _ (by simp), rfl, ?_⟩
        cases hqq : s.asyncQ with
        | nil => rw [hqq] at hq; simp at hq
        | cons j q => cases j <;> simp [step, stepAsync, hqq]
      | live =>
        -- it was scanned (all conns were, as nothing was created after the snapshot) while in the table
        have hcr := hi.reg.created hr hps
        obtain ⟨y, hy, hsy⟩ := hi.reg.below (Or.inl hsp) c (by omega)
        rw [hx] at hy; cases hy
        have hm := hi.reg.caught hr c x hx hsy (by simp [isOpen, hph])
        refine ⟨.asyncRun, hglob _ (by simp), rfl, ?_⟩
        cases hqq : s.asyncQ with
        | nil => rw [hqq] at hm; cases hm
        | cons j q => cases j <;> simp [step, stepAsync, hqq]

/-- **When is there no race?** If Stop's scan starts from a state in which no `addConn` is in flight (no conn
    between `Accept()` and the table store) and no new conn is registered afterwards, `raced` stays false —
    whatever else happens (closes by anyone, the drainer, Stop's own steps). -/
theorem c18_no_race_when_settled (pre post : List Act) :
    let s₁ := run init pre
    Settled s₁ → s₁.raced = false → (∀ a ∈ post, isNew a = false) → (run s₁ post).raced = false := by
  intro s₁ h hr ha
  exact (settled_run post h hr ha).2

theorem run_append (s : St) (as bs : List Act) : run s (as ++ bs) = run (run s as) bs := by
  induction as generalizing s with
  | nil => rfl
  | cons a as ih =>
    simp only [List.cons_append, run]
    split <;> exact ih _

theorem sp_not_idle_step {s s' : St} {a : Act} (h : step s a = some s') (hs : s.sp ≠ .idle) : s'.sp ≠ .idle := by
  cases a with
  | new k => cases k <;> simp only [step, stepNew] at h <;> (try split at h) <;> first | (cases h; exact hs) | cases h
  | «open» c => simp only [step, stepOpen] at h; split at h <;> (try split at h) <;> first | (cases h; exact hs) | cases h
  | store c => simp only [step, stepStore] at h; split at h <;> (try split at h) <;> first | (cases h; exact hs) | cases h
  | register c ok => simp only [step, stepRegister] at h; split at h <;> (try split at h) <;> first | (cases h; exact hs) | cases h
  | flip c => simp only [step, stepFlip] at h; split at h <;> (try split at h) <;> first | (cases h; exact hs) | cases h
  | teardown c => simp only [step, stepTeardown] at h; split at h <;> (try split at h) <;> first | (cases h; exact hs) | cases h
  | asyncRun =>
    simp only [step, stepAsync] at h
    split at h
    · cases h
    · cases h; unfold runCloseConn; split <;> (try split) <;> exact hs
    · cases h; unfold runCloseCb; split <;> exact hs
  | stopListeners => simp only [step] at h; split at h <;> first | (cases h; simp) | cases h
  | snapshot => simp only [step] at h; split at h <;> first | (cases h; simp) | cases h
  | scan c => simp only [step, stepScan] at h; split at h <;> (try split at h) <;> (try split at h) <;> first | (cases h; exact hs) | cases h
  | scanEnd => simp only [step] at h; split at h <;> first | (cases h; simp) | cases h
  | waitReturn => simp only [step] at h; split at h <;> first | (cases h; simp) | cases h
  | onStop => simp only [step] at h; split at h <;> first | (cases h; simp) | cases h
  | stopPollers => simp only [step] at h; split at h <;> first | (cases h; simp) | cases h

theorem sp_not_idle_run (as : List Act) {s : St} (hs : s.sp ≠ .idle) : (run s as).sp ≠ .idle := by
  induction as generalizing s with
  | nil => exact hs
  | cons a as ih =>
    simp only [run]
    split
    · rename_i s' h; exact ih (sp_not_idle_step h hs)
    · exact ih hs

/-- **Stop returns** (assembled). Start from any reachable state in which Stop has been called, no `addConn` is in
    flight (`Settled`) and no registration has raced the snapshot; let the engine's own goroutines run — any schedule of
    engine-internal steps, of any length, in any order — until none of them is enabled any more (`stuck`): then Stop
    has returned. Such a maximal run exists and is short: every internal step decreases `mu`
    (`c18_internal_runs_bounded`). Hypotheses not expressible in the model: the user's OnOpen/OnClose handlers return,
    and the scheduler eventually runs every enabled goroutine (fairness). -/
theorem c18_stop_returns (pre as : List Act) :
    let s₁ := run init pre
    Settled s₁ → s₁.raced = false → s₁.sp ≠ .idle → (∀ a ∈ as, a.internal = true) →
    let s₂ := run s₁ as
    stuck s₂ = true → s₂.sp = .returned := by
  intro s₁ hset hr hsp hint s₂ hstuck
  have hnew : ∀ a ∈ as, isNew a = false := by
    intro a ha
    have := hint a ha
    cases a <;> simp [Act.internal, isNew] at this ⊢
  have hr₂ : s₂.raced = false := (settled_run as hset hr hnew).2
  have hsp₂ : s₂.sp ≠ .idle := sp_not_idle_run as hsp
  have heq : s₂ = run init (pre ++ as) := (run_append init pre as).symm
  apply Classical.byContradiction
  intro hne
  have hp := c18_stop_progress_partial (pre ++ as)
  simp only at hp
  rw [← heq] at hp
  obtain ⟨a, hmem, _, hen⟩ := hp hsp₂ hne hr₂
  simp only [stuck, List.all_eq_true] at hstuck
  have := hstuck a hmem
  rw [Option.isNone_iff_eq_none] at this
  rw [this] at hen
  cases hen

/-- the failure path of `DialAsync` (`addDialer` fails at `addReadWrite`) on the **pinned** tree: the conn had been
    counted (`wgConn.Add(1)`), `closeWithError` ran the full teardown (the close callback is queued and will call
    `wgConn.Done()`), and `DialAsync` itself called `wgConn.Done()` too — two `Done` for one `Add`. -/
def dialFailPinned (s : St) : St :=
  { s with conns := s.conns ++ [{ ph := .torn, inTable := false, scanned := false, cbs := 0 }],
           asyncQ := s.asyncQ ++ [.closeCb s.conns.length],
           wg := s.wg + 1 - 1 }

/-- … which drives the wait-group counter negative (Go panics: "sync: negative WaitGroup counter") as soon as Stop's
    own `Done` and the queued close callback have both run. The merged tree (the lifecycle family's repair: the
    failure path detaches the conn, `c.p = nil`, before `closeWithError`, so the teardown does not notify) makes the
    failure path a no-op on the counter — it is not a step of `step`, and the predicate
    `adddialer_failure_detaches_conn` / `dial_add_before_register_single_done` (vlib/cs_stop.py) ties that to the source. -/
theorem c18_dialfail_pinned_counterexample :
    (run (dialFailPinned init) [.stopListeners, .snapshot, .asyncRun]).wg = -1 := by
  decide

/-- **Defect #11: the full-strength progress statement is false.** A conn whose open callback is still running when
    Stop scans its (still empty) table slot is stored afterwards, is never closed by Stop, and `Wait` blocks for
    ever: Stop is waiting, the counter is 1, the Async queue is empty and no engine-internal step is enabled. -/
theorem c18_stop_progress_counterexample :
    let s := run init [.new .listener, .open 0, .stopListeners, .snapshot, .scan 0, .scanEnd, .store 0,
                       .register 0 true]
    s.sp = .waiting ∧ s.wg = 1 ∧ s.asyncQ = [] ∧ stuck s = true ∧ s.raced = true ∧
      (∀ a ∈ candidates s.conns.length, (step s a).isSome = false) := by
  refine ⟨by decide, by decide, by decide, by decide, by decide, ?_⟩
  decide

/-- the same race through `DialAsync` after the scan: never closed either -/
theorem c18_dial_race_counterexample :
    let s := run init [.stopListeners, .snapshot, .scanEnd, .new .dial]
    s.sp = .waiting ∧ s.wg = 1 ∧ stuck s = true := by
  refine ⟨by decide, by decide, by decide⟩

/-! ## non-vacuity -/

/-- two live conns and one that is being closed by its peer: Stop closes them all and returns -/
example :
    let s := run init [.new .listener, .open 0, .store 0, .register 0 true, .new .dial, .new .transfer, .open 2,
      .store 2, .register 2 true, .flip 2, .stopListeners, .snapshot, .scan 0, .scan 1, .scan 2, .scanEnd,
      .teardown 2, .asyncRun, .asyncRun, .asyncRun, .asyncRun, .asyncRun, .asyncRun, .waitReturn, .onStop,
      .stopPollers]
    s.sp = .returned ∧ s.wg = 0 ∧ s.snapIn = [0, 1, 2] ∧ s.raced = false ∧
      s.conns.map (fun x => (x.ph, x.cbs)) = [(.done, 1), (.done, 1), (.done, 1)] := by
  decide

/-- `Wait` does not return while a close callback is outstanding (`waitReturn` is skipped as disabled) -/
example :
    (run init [.new .dial, .stopListeners, .snapshot, .scan 0, .scanEnd, .asyncRun, .waitReturn]).sp = .waiting := by
  decide

/-- the measure of a small state -/
example : mu (run init [.new .dial, .stopListeners, .snapshot]) = 12 := by decide

/-- hypotheses of `c18_stop_progress_partial` hold in a non-trivial waiting state -/
example :
    let s := run init [.new .dial, .stopListeners, .snapshot, .scan 0, .scanEnd]
    s.sp = .waiting ∧ s.raced = false ∧ s.wg = 1 ∧ s.asyncQ = [.closeConn 0] := by decide

end StopM
