import NbioVerif.Lemmas.WsCbInv
import NbioVerif.Properties.C05
import NbioVerif.Lemmas.SendQInv
/-!
# C14 — WebSocket callbacks ordered and exactly once; concurrent writes stay whole

Part A (`WsCb`): the callback log of a connection, for **every** interleaving of incoming messages, job-queue
drainer steps and the close, is a prefix of `open · msg₀ … msgₖ₋₁ · close` and equals it once the drainer is idle.
The model is the composition of the receive steps with the connection's job queue, which is **C05's `ExecQ`** itself
(`c14_queue_is_execq`), so one-at-a-time / FIFO / exactly once are C05's theorems, cited here.

Part B (`SendQ`): for every interleaving of concurrent `WriteMessage`/`WriteFrame` callers, the send-queue drainer,
conn write failures and `CloseAndClean`, in direct and in queued mode: what the conn has accepted is a prefix of the
concatenation of the **whole** frame groups of the calls that returned nil, in the order of their critical sections,
each group at most once; and exactly that concatenation whenever the drainer is idle and the connection neither
failed nor closed.

Partial: the upgrade paths other than the poller-driven one (blocking with parser, own read loop, transferred to
poller) are sampled by the harness `hwscb`, not modelled; the conn below the ws layer (`nbio.Conn.Write`, C01) is
an environment that accepts a frame whole or fails.
-/

/-! ## Part A — callbacks -/
namespace WsCb
open ExecQ (Ev serial runningJobs)

/-- **The job queue of this model is C05's `ExecQ`.** Every queue state reachable here is the state of an `ExecQ` run
    (instance `conn`), so C05's theorems about `ExecQ.run .conn ExecQ.init bs` apply to it — the theorems below cite
    `c05_one_at_a_time` and `c05_fifo_exactly_once` through this bridge. -/
theorem c14_queue_is_execq (as : List Act) : ∃ bs, (run init as).q = ExecQ.run .conn ExecQ.init bs :=
  run_q_reachable as

/-- **Callback order.** For every interleaving of message arrival, drainer steps and the close: the jobs that have
    completed are a prefix of `open · msg₀ · msg₁ · … · close` (messages in wire order), nothing is skipped, and once
    no drainer is left every accepted job has run. While the connection is open no message is dropped. -/
theorem c14_callback_order (as : List Act) :
    let s := run init as
    s.q.done <+: expected s ∧ (s.q.drs = [] → s.q.done = expected s) ∧
      (s.q.closed = false → s.accMsgs = s.wireMsgs) ∧ s.accMsgs ≤ s.wireMsgs := by
  intro s
  have hi : Inv s := inv_run as inv_init
  obtain ⟨bs, hb⟩ := c14_queue_is_execq as
  have h5 := ExecQ.c05_fifo_exactly_once .conn bs
  simp only at h5
  rw [← hb] at h5
  rw [← hi.acc]
  exact ⟨h5.1, h5.2.1, hi.openAll, hi.le⟩

/-- **One at a time — with starts and ends.** The start/end log of the callbacks is strictly serial: every callback
    has *ended* before the next one *starts* (at most one open start, whose job is the next one of the prescribed
    sequence); there is never more than one drainer. (C05's `c05_one_at_a_time` on this queue, plus the order.) -/
theorem c14_one_at_a_time (as : List Act) :
    let s := run init as
    s.q.drs.length ≤ 1 ∧ (runningJobs s.q).length ≤ 1 ∧
      ∃ cur, s.q.log = serial s.q.done ++ cur ∧
        (cur = [] ∨ ∃ j, cur = [.s j] ∧ runningJobs s.q = [j] ∧ (s.q.done ++ [j]) <+: expected s) := by
  intro s
  have hi : Inv s := inv_run as inv_init
  obtain ⟨bs, hb⟩ := c14_queue_is_execq as
  have h5 := ExecQ.c05_one_at_a_time .conn bs
  simp only at h5
  rw [← hb] at h5
  obtain ⟨h1, h2, cur, hlog, hcur⟩ := h5
  refine ⟨h1, h2, cur, hlog, ?_⟩
  rcases hcur with hc | ⟨j, hc, hr⟩
  · exact Or.inl hc
  · refine Or.inr ⟨j, hc, hr, ?_⟩
    -- the running job is the one right behind `done` in `acc`
    rw [← hi.acc]
    rcases hi.jq.shape with ⟨hd, _⟩ | ⟨x, hd, di⟩
    · have hd' : (run init as).q.drs = [] := hd
      simp [runningJobs, hd'] at hr
    · rw [ExecQ.runningJobs_one _ x hd] at hr
      split at hr
      · rename_i hrun
        simp at hr; subst hr
        obtain ⟨p, _, hget, hacc, _⟩ := di.runs hrun
        rw [← hacc, ExecQ.drop_succ_of_get hget]
        exact ⟨s.q.list.drop (p + 1), by simp⟩
      · simp at hr

/-- **Exactly once.** No callback job completes twice. -/
theorem c14_callbacks_exactly_once (as : List Act) : (run init as).q.done.Nodup := by
  obtain ⟨⟨t, ht⟩, _⟩ := c14_callback_order as
  have := expected_nodup (run init as)
  rw [← ht] at this
  exact (List.nodup_append.mp this).1

/-- **Open first.** The first job to complete is the upgrade job (which calls the open handler). -/
theorem c14_open_first (as : List Act) :
    let s := run init as
    s.q.done ≠ [] → s.q.done.head? = some jobOpen := by
  intro s hne
  obtain ⟨⟨t, ht⟩, _⟩ := c14_callback_order as
  have hi : Inv s := inv_run as inv_init
  cases hu : s.upgraded with
  | false =>
    rw [expected_nil_of_not_upgraded hi hu] at ht
    exact absurd (List.append_eq_nil_iff.mp ht).1 hne
  | true =>
    have he : expected s = jobOpen :: ((List.range s.accMsgs).map jobMsg ++ (if s.notified then [jobClose] else [])) := by
      simp [expected, hu]
    rw [he] at ht
    cases hr : s.q.done with
    | nil => exact absurd hr hne
    | cons a r =>
      rw [hr] at ht
      simp at ht
      simp [ht.1]

theorem mem_serial_start {l : List Nat} {j : Nat} (h : Ev.s j ∈ serial l) : j ∈ l := by
  induction l with
  | nil => simp [serial] at h
  | cons x xs ih =>
    simp only [serial, List.mem_cons] at h
    rcases h with h | h | h
    · cases h; exact List.mem_cons_self ..
    · cases h
    · exact List.mem_cons_of_mem _ (ih h)

/-- **The open callback has completed before any message callback starts.** If the log shows the start of a message
    callback, the upgrade job is among the completed jobs — and the log being serial (`c14_one_at_a_time`), its end
    event precedes that start. -/
theorem c14_open_completes_before_messages (as : List Act) (i : Nat) :
    let s := run init as
    Ev.s (jobMsg i) ∈ s.q.log → jobOpen ∈ s.q.done := by
  intro s hm
  have hi : Inv s := inv_run as inv_init
  obtain ⟨_, _, cur, hlog, hcur⟩ := c14_one_at_a_time as
  have hfirst := c14_open_first as
  have hdone : s.q.done ≠ [] → jobOpen ∈ s.q.done := by
    intro hne
    have := hfirst hne
    cases hd : s.q.done with
    | nil => exact absurd hd hne
    | cons a r => rw [hd] at this; simp at this; subst this; exact List.mem_cons_self ..
  rw [hlog] at hm
  rcases List.mem_append.mp hm with hm | hm
  · exact hdone (by intro he; rw [he] at hm; simp [serial] at hm)
  · rcases hcur with hc | ⟨j, hc, _, hpre⟩
    · rw [hc] at hm; cases hm
    · rw [hc] at hm
      simp at hm; subst hm
      by_cases hne : s.q.done = []
      · -- the message job would be the first job of the prescribed sequence: impossible
        exfalso
        rw [hne] at hpre
        obtain ⟨t, ht⟩ := hpre
        cases hu : s.upgraded with
        | false => rw [expected_nil_of_not_upgraded hi hu] at ht; simp at ht
        | true =>
          have he : expected s = jobOpen :: ((List.range s.accMsgs).map jobMsg ++ (if s.notified then [jobClose] else [])) := by
            simp [expected, hu]
          rw [he] at ht
          simp [jobMsg, jobOpen] at ht
      · exact hdone hne

/-- **Close exactly once, and last.** Once the close job has completed, the sequence is complete: it is exactly
    `open · accepted messages · close` — nothing completes after it, and it completed once. -/
theorem c14_close_once_last (as : List Act) :
    let s := run init as
    jobClose ∈ s.q.done → s.q.done = expected s ∧ s.q.done.getLast? = some jobClose ∧ s.q.done.count jobClose = 1 := by
  intro s hm
  obtain ⟨hp, _⟩ := c14_callback_order as
  have hnd := expected_nodup s
  have hn : s.notified = true := by
    cases hq : s.notified with
    | true => rfl
    | false =>
      have hme : jobClose ∈ expected s := (List.IsPrefix.subset hp) hm
      simp only [expected, hq] at hme
      simp at hme
      rcases hme with hme | hme
      · simp [jobOpen, jobClose] at hme
      · obtain ⟨k, _, hk⟩ := hme
        simp [jobMsg, jobClose] at hk
  have he : expected s = ((if s.upgraded then [jobOpen] else []) ++ (List.range s.accMsgs).map jobMsg) ++ [jobClose] := by
    simp [expected, hn]
  generalize hA : (if s.upgraded then [jobOpen] else []) ++ (List.range s.accMsgs).map jobMsg = A at he
  have hcA : jobClose ∉ A := by
    rw [he] at hnd
    have := (List.nodup_append.mp hnd).2.2
    intro hin
    exact this jobClose hin jobClose (by simp) rfl
  have hlen : s.q.done = (expected s).take s.q.done.length := List.prefix_iff_eq_take.mp hp
  have hfull : s.q.done = expected s := by
    by_cases hle : s.q.done.length ≤ A.length
    · exfalso
      rw [he, List.take_append_of_le_length hle] at hlen
      have : jobClose ∈ A.take s.q.done.length := by rw [← hlen]; exact hm
      exact hcA (List.mem_of_mem_take this)
    · have hlt : (expected s).length ≤ s.q.done.length := by
        rw [he]; simp; omega
      rw [List.take_of_length_le hlt] at hlen
      exact hlen
  refine ⟨hfull, ?_, ?_⟩
  · rw [hfull, he]; simp
  · rw [hfull, he, List.count_append]
    have : A.count jobClose = 0 := List.count_eq_zero_of_not_mem hcA
    simp [this]

/-- **A failed upgrade produces no WebSocket callback at all.** If the connection was already closed when the upgrade
    job was entered (the 101 response cannot be written, `Upgrade` returns the error): no job of this connection is a
    WebSocket callback — no open, no message (none was even parsed), no ws close — and otherwise every completed job
    is one. -/
theorem c14_failed_upgrade_no_callbacks (as : List Act) :
    let s := run init as
    (s.established = some false → callbacks s = [] ∧ s.q.closed = true ∧ s.wireMsgs = 0) ∧
    (s.established ≠ some false → callbacks s = s.q.done) := by
  intro s
  have hi : Inv s := inv_run as inv_init
  constructor
  · intro he
    refine ⟨?_, hi.estF he, hi.noEst (by rw [he]; simp)⟩
    simp [callbacks, isCallback, he]
  · intro he
    have hb : (s.established != some false) = true := by simpa using he
    simp only [callbacks]
    apply List.filter_eq_self.mpr
    intro a _
    simp only [isCallback, hb]

/-- **Defect on the transferred path.** `UpgradeAndTransferConnToPoller` calls the open handler outside the conn's
    job queue, after the conn has been registered with the poller and the 101 response has been written: a message
    callback can complete before the open callback does (and, not being serialised with it, overlap it). The
    full-strength "open first on all upgrade paths" therefore fails there; `c14_open_first` /
    `c14_open_completes_before_messages` are the part that holds (every path on which `Upgrade` runs inside the
    request's job or before the read loop starts). -/
theorem c14_transfer_open_race_counterexample :
    let s := trun tinit [.register, .recv, .q (.spawn 0 false), .q (.start 0), .q (.finish 0 false), .openCb]
    s.log = [jobMsg 0, jobOpen] ∧ s.log.head? ≠ some jobOpen := by
  decide

/-- non-vacuity: two messages, a third arriving after the close flag (dropped), everything drained -/
example :
    let s := run init [.upgrade, .q (.spawn 0 false), .q (.start 0), .recv, .q (.finish 0 false), .recv,
      .q (.next 0 false), .flip, .recv, .q (.start 0), .notify, .q (.finish 0 false), .q (.next 0 false), .q (.start 0),
      .q (.finish 0 false), .q (.next 0 false), .q (.start 0), .q (.finish 0 false), .q (.next 0 false)]
    s.q.done = [jobOpen, jobMsg 0, jobMsg 1, jobClose] ∧ s.q.drs = [] ∧ s.wireMsgs = 3 ∧ s.accMsgs = 2 ∧
      s.established = some true := by
  decide

/-- non-vacuity: the connection is closed before the upgrade job is entered — no callbacks -/
example :
    let s := run init [.upgrade, .flip, .notify, .q (.spawn 0 false), .q (.start 0), .q (.finish 0 false),
      .q (.next 0 false), .q (.start 0), .q (.finish 0 false), .q (.next 0 false)]
    s.established = some false ∧ callbacks s = [] ∧ s.q.done = [jobOpen, jobClose] := by
  decide

end WsCb

/-! ## Part B — writers -/
namespace SendQ

/-- **Nothing is reordered, skipped or duplicated between acceptance and the wire**: in every reachable state, for
    every configuration, what the conn has accepted is a prefix of what was accepted from the callers. -/
theorem c14_wire_prefix_of_accepted (g : Cfg) (as : List Act) :
    let s := run g init as
    s.wire <+: s.acc := by
  intro s
  have hi : Inv g s := inv_run as (inv_init g)
  cases hd : s.dr with
  | sending => exact ⟨_, (hi.sending hd).2⟩
  | sent => exact ⟨_, (hi.sent hd).2⟩
  | idle =>
    by_cases hl : s.list = []
    · rw [hi.idleE hd hl]; exact List.prefix_refl _
    · exact (hi.idleN hd hl).2

/-- **Frames stay whole.** If no call was cut short (`cut = false`), then for every interleaving of writers, drainer,
    failures and close: the wire is a prefix of the concatenation of the whole frame groups of the calls that returned
    nil (in the order of their critical sections); it *is* that concatenation whenever the drainer is idle and the
    connection neither failed nor closed ("exactly once unless the connection closes first"); and no frame occurs
    twice ("at most once"). -/
theorem c14_frames_whole (g : Cfg) (as : List Act) :
    let s := run g init as
    s.cut = false →
      s.wire <+: wholeGroups s.okCalls ∧
      (s.dr = .idle → s.dead = false → s.closed = false → s.wire = wholeGroups s.okCalls) ∧
      s.wire.Nodup := by
  intro s hc
  have hi : Inv g s := inv_run as (inv_init g)
  have hp : s.wire <+: s.acc := c14_wire_prefix_of_accepted g as
  rw [hi.whole hc] at hp
  refine ⟨hp, ?_, ?_⟩
  · intro hd hdead hcl
    by_cases hl : s.list = []
    · rw [hi.idleE hd hl, hi.whole hc]
    · rcases (hi.idleN hd hl).1 with h | h
      · rw [hdead] at h; cases h
      · rw [hcl] at h; cases h
  · obtain ⟨t, ht⟩ := hp
    have := hi.ids.1
    rw [← ht] at this
    exact (List.nodup_append.mp this).1

/-- **No call is ever cut in queued mode** when the queue is unbounded (`BlockingModSendQueueMaxSize = 0`, the
    default) or `WriteMessage` reserves room for the whole message (the repaired tree): hypothesis `cut = false`
    of `c14_frames_whole` holds unconditionally. -/
theorem c14_queued_never_cut (g : Cfg) (as : List Act) (hq : g.queued = true)
    (hb : g.bound = 0 ∨ g.reserve = true) : (run g init as).cut = false :=
  (inv_run as (inv_init g)).nocut hq hb

/-- in direct mode a call can only be cut by a failing conn write, and the connection is dead from then on -/
theorem c14_direct_cut_means_dead (g : Cfg) (as : List Act) (hq : g.queued = false) :
    let s := run g init as
    s.wire = s.acc ∧ (s.cut = true → s.dead = true) := by
  intro s
  have hi : Inv g s := inv_run as (inv_init g)
  obtain ⟨hl, hd⟩ := hi.direct hq
  refine ⟨hi.idleE hd hl, ?_⟩
  -- separate small invariant: cut → dead
  have key : ∀ (as : List Act) (s : St), (s.cut = true → s.dead = true) →
      ((run g s as).cut = true → (run g s as).dead = true) := by
    intro as
    induction as with
    | nil => intro s h; exact h
    | cons a as ih =>
      intro s h
      simp only [run]
      split
      · rename_i s' hs
        apply ih
        cases a with
        | write n errAt =>
          simp only [step] at hs
          split at hs
          · cases hs
          · cases hs
            unfold stepWrite
            split
            · exact h
            · simp only [hq]
              simp only [Bool.not_false, if_true]
              unfold writeDirect
              simp only
              split
              · exact h
              · cases errAt with
                | none => exact h
                | some k =>
                  simp only
                  split
                  · intro _; rfl
                  · exact h
        | send ok =>
          simp only [step, stepSend] at hs
          split at hs
          · split at hs
            · split at hs
              · cases hs; exact h
              · cases hs; intro _; rfl
            · cases hs
          · cases hs
        | advance =>
          simp only [step, stepAdvance] at hs
          split at hs
          · split at hs
            · cases hs; exact h
            · split at hs
              · cases hs; exact h
              · cases hs; exact h
          · cases hs
        | close => simp only [step] at hs; cases hs; intro _; rfl
      · exact ih s h
  exact key as init (by simp [init])

/-- **Defect on the pinned tree (bounded queue).** With `BlockingModSendQueueMaxSize = 2`, a three-fragment message
    is cut after two fragments (`ErrMessageSendQuqueIsFull` is returned, yet the two fragments stay queued and are
    sent); the next message's frame follows them: the wire holds a partial frame group of a call that *failed*,
    which is not a prefix of the whole groups of the calls that succeeded. -/
theorem c14_bounded_queue_partial_counterexample :
    let g : Cfg := { queued := true, bound := 2, reserve := false }
    let s := run g init [.write 3 none, .send true, .advance, .send true, .advance, .write 1 none, .send true, .advance]
    s.wire = [(0, 0), (0, 1), (1, 0)] ∧ s.okCalls = [(1, 1)] ∧ wholeGroups s.okCalls = [(1, 0)] ∧
      s.cut = true ∧ s.dead = false ∧ s.closed = false ∧ s.dr = .idle := by
  decide

/-- the same schedule on the repaired tree (`reserve`): the three-fragment call is refused as a whole -/
example :
    let g : Cfg := { queued := true, bound := 2, reserve := true }
    let s := run g init [.write 3 none, .send true, .advance, .send true, .advance, .write 1 none, .send true, .advance]
    s.wire = [(1, 0)] ∧ s.okCalls = [(1, 1)] ∧ s.cut = false := by
  decide

/-! non-vacuity -/

/-- queued: two callers' fragmented messages, the drainer interleaved with the second call -/
example :
    let g : Cfg := { queued := true, bound := 0, reserve := false }
    let s := run g init [.write 2 none, .send true, .write 3 none, .advance, .send true, .advance, .send true,
                         .advance, .send true, .advance, .send true, .advance]
    s.wire = group 0 2 ++ group 1 3 ∧ s.dr = .idle ∧ s.cut = false ∧ s.list = [] := by
  decide

/-- queued: the conn write fails under the drainer — the wire stays a prefix, later calls are accepted but never sent -/
example :
    let g : Cfg := { queued := true, bound := 0, reserve := false }
    let s := run g init [.write 2 none, .send true, .advance, .send false, .write 1 none]
    s.wire = [(0, 0)] ∧ s.dead = true ∧ s.dr = .idle ∧ s.okCalls = [(0, 2), (1, 1)] := by
  decide

/-- direct: a conn write failing in the middle of a fragmented message cuts it; the conn is dead afterwards -/
example :
    let g : Cfg := { queued := false, bound := 0, reserve := false }
    let s := run g init [.write 2 none, .write 3 (some 1), .write 1 none]
    s.wire = [(0, 0), (0, 1), (1, 0)] ∧ s.cut = true ∧ s.dead = true ∧ s.okCalls = [(0, 2)] := by
  decide

end SendQ
