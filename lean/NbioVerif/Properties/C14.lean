import NbioVerif.Lemmas.WsCbInv
import NbioVerif.Lemmas.SendQInv
/-!
# C14 — WebSocket callbacks ordered and exactly once; concurrent writes stay whole

Part A (`WsCb`): the callback log of a connection, for **every** interleaving of incoming messages, job-queue
drainer steps and the close, is a prefix of `open · msg₀ … msgₖ₋₁ · close` and equals it once the drainer is idle.
The model is the composition of the receive steps with the connection's job queue, which is used as the `JobQ`
transition system itself (so FIFO / exactly once / single drainer are JobQ's theorems, C05).

Part B (`SendQ`): for every interleaving of concurrent `WriteMessage`/`WriteFrame` callers, the send-queue drainer,
conn write failures and `CloseAndClean`, in direct and in queued mode: what the conn has accepted is a prefix of the
concatenation of the **whole** frame groups of the calls that returned nil, in the order of their critical sections,
each group at most once; and exactly that concatenation whenever the drainer is idle and the connection neither
failed nor closed.

Partial: the upgrade paths other than the poller-driven one (blocking with parser, own read loop, transferred to
poller) are sampled by the harness `hwscb`, not modelled; the conn below the ws layer (`nbio.Conn.Write`, C01) is
an environment that accepts a frame whole or fails.
-/

/-! ## Part A — callbacks -/
namespace WsCb

/-- **Callback order.** For every interleaving: the callbacks run so far are a prefix of
    `open · msg₀ · msg₁ · … · close` (messages in wire order, `expected`), nothing is skipped, and once the drainer is
    idle every accepted job has run. While the connection is open no message is dropped (`accMsgs = wireMsgs`). -/
theorem c14_callback_order (as : List Act) :
    let s := run init as
    s.q.ran <+: expected s ∧ (s.q.drainer = none → s.q.ran = expected s) ∧
      (s.q.closed = false → s.accMsgs = s.wireMsgs) ∧ s.accMsgs ≤ s.wireMsgs := by
  intro s
  have hi : Inv s := inv_run as inv_init
  have hj := hi.jq
  refine ⟨?_, ?_, hi.openAll, hi.le⟩
  · rw [← hi.acc]
    cases hd : s.q.drainer with
    | none => rw [(hj.dr_none hd).2]; exact List.prefix_refl _
    | some b =>
      cases b with
      | false => exact ⟨_, (hj.dr_f hd).2⟩
      | true => exact ⟨_, (hj.dr_t hd).2⟩
  · intro hd; rw [← hi.acc]; exact (hj.dr_none hd).2

/-- **Exactly once.** No callback runs twice. -/
theorem c14_callbacks_exactly_once (as : List Act) : (run init as).q.ran.Nodup := by
  obtain ⟨⟨t, ht⟩, _⟩ := c14_callback_order as
  have := expected_nodup (run init as)
  rw [← ht] at this
  exact (List.nodup_append.mp this).1

/-- **Open first.** The first callback of a connection is the open callback: no message or close callback runs
    before the upgrade job (which calls the open handler and, being a queue job, completes before the next one). -/
theorem c14_open_first (as : List Act) :
    let s := run init as
    s.q.ran ≠ [] → s.q.ran.head? = some jobOpen := by
  intro s hne
  obtain ⟨⟨t, ht⟩, _⟩ := c14_callback_order as
  have hi : Inv s := inv_run as inv_init
  cases hu : s.upgraded with
  | false =>
    obtain ⟨ha, hn⟩ := hi.up hu
    have : expected s = [] := by simp [expected, hu, ha, hn]
    rw [this] at ht
    exact absurd (List.append_eq_nil_iff.mp ht).1 hne
  | true =>
    have he : expected s = jobOpen :: ((List.range s.accMsgs).map jobMsg ++ (if s.notified then [jobClose] else [])) := by
      simp [expected, hu]
    rw [he] at ht
    cases hr : s.q.ran with
    | nil => exact absurd hr hne
    | cons a r =>
      rw [hr] at ht
      simp at ht
      simp [ht.1]

/-- **Close exactly once, and last.** Once the close callback has run, the log is complete: it is exactly
    `open · accepted messages · close` — nothing runs after the close callback, and it ran once. -/
theorem c14_close_once_last (as : List Act) :
    let s := run init as
    jobClose ∈ s.q.ran → s.q.ran = expected s ∧ s.q.ran.getLast? = some jobClose ∧ s.q.ran.count jobClose = 1 := by
  intro s hm
  obtain ⟨hp, _⟩ := c14_callback_order as
  have hnd := expected_nodup s
  -- close can only be the last element of `expected`
  have hn : s.notified = true := by
    cases hq : s.notified with
    | true => rfl
    | false =>
      have hme : jobClose ∈ expected s := (List.IsPrefix.subset hp) hm
      simp only [expected, hq] at hme
      simp at hme
      rcases hme with hme | hme
      · simp [jobOpen, jobClose] at hme
      · obtain ⟨k, _, hk⟩ := hme
        simp [jobMsg, jobClose] at hk
  have he : expected s = ((if s.upgraded then [jobOpen] else []) ++ (List.range s.accMsgs).map jobMsg) ++ [jobClose] := by
    simp [expected, hn]
  generalize hA : (if s.upgraded then [jobOpen] else []) ++ (List.range s.accMsgs).map jobMsg = A at he
  have hcA : jobClose ∉ A := by
    rw [he] at hnd
    have := (List.nodup_append.mp hnd).2.2
    intro hin
    exact this jobClose hin jobClose (by simp) rfl
  have hlen : s.q.ran = (expected s).take s.q.ran.length := List.prefix_iff_eq_take.mp hp
  have hfull : s.q.ran = expected s := by
    by_cases hle : s.q.ran.length ≤ A.length
    · exfalso
      rw [he, List.take_append_of_le_length hle] at hlen
      have : jobClose ∈ A.take s.q.ran.length := by rw [← hlen]; exact hm
      exact hcA (List.mem_of_mem_take this)
    · have hlt : (expected s).length ≤ s.q.ran.length := by
        rw [he]; simp; omega
      rw [List.take_of_length_le hlt] at hlen
      exact hlen
  refine ⟨hfull, ?_, ?_⟩
  · rw [hfull, he]; simp
  · rw [hfull, he, List.count_append]
    have : A.count jobClose = 0 := List.count_eq_zero_of_not_mem hcA
    simp [this]

/-- **One at a time.** Callbacks are run by the job queue's single drainer: a drainer exists exactly while jobs are
    pending (so two callbacks of one connection never overlap). -/
theorem c14_single_drainer (as : List Act) :
    let s := run init as
    (s.q.drainer = none ↔ s.q.list = []) := by
  intro s
  have hj := (inv_run (s := init) as inv_init).jq
  constructor
  · intro h; exact (hj.dr_none h).1
  · intro h
    cases hd : s.q.drainer with
    | none => rfl
    | some b =>
      cases b with
      | false => have := (hj.dr_f hd).1; rw [h] at this; simp at this
      | true => have := (hj.dr_t hd).1; rw [h] at this; simp at this

/-- **Defect on the transferred path.** `UpgradeAndTransferConnToPoller` calls the open handler outside the conn's
    job queue, after the conn has been registered with the poller and the 101 response has been written: a message
    callback can complete before the open callback does (and, not being serialised with it, overlap it). The
    full-strength "open first on all upgrade paths" therefore fails there; `c14_open_first` is the part that holds
    (every path on which `Upgrade` runs inside the request's job or before the read loop starts). -/
theorem c14_transfer_open_race_counterexample :
    let s := trun tinit [.register, .recv, .run, .next, .openCb]
    s.log = [jobMsg 0, jobOpen] ∧ s.log.head? ≠ some jobOpen := by
  decide

/-- non-vacuity: two messages, a third arriving after the close flag (dropped), everything drained -/
example :
    let s := run init [.upgrade, .recv, .run, .recv, .next, .flip, .recv, .run, .notify, .next, .run, .next, .run, .next]
    s.q.ran = [jobOpen, jobMsg 0, jobMsg 1, jobClose] ∧ s.q.drainer = none ∧ s.wireMsgs = 3 ∧ s.accMsgs = 2 := by
  decide

end WsCb

/-! ## Part B — writers -/
namespace SendQ

/-- **Nothing is reordered, skipped or duplicated between acceptance and the wire**: in every reachable state, for
    every configuration, what the conn has accepted is a prefix of what was accepted from the callers. -/
theorem c14_wire_prefix_of_accepted (g : Cfg) (as : List Act) :
    let s := run g init as
    s.wire <+: s.acc := by
  intro s
  have hi : Inv g s := inv_run as (inv_init g)
  cases hd : s.dr with
  | sending => exact ⟨_, (hi.sending hd).2⟩
  | sent => exact ⟨_, (hi.sent hd).2⟩
  | idle =>
    by_cases hl : s.list = []
    · rw [hi.idleE hd hl]; exact List.prefix_refl _
    · exact (hi.idleN hd hl).2

/-- **Frames stay whole.** If no call was cut short (`cut = false`), then for every interleaving of writers, drainer,
    failures and close: the wire is a prefix of the concatenation of the whole frame groups of the calls that returned
    nil (in the order of their critical sections); it *is* that concatenation whenever the drainer is idle and the
    connection neither failed nor closed ("exactly once unless the connection closes first"); and no frame occurs
    twice ("at most once"). -/
theorem c14_frames_whole (g : Cfg) (as : List Act) :
    let s := run g init as
    s.cut = false →
      s.wire <+: wholeGroups s.okCalls ∧
      (s.dr = .idle → s.dead = false → s.closed = false → s.wire = wholeGroups s.okCalls) ∧
      s.wire.Nodup := by
  intro s hc
  have hi : Inv g s := inv_run as (inv_init g)
  have hp : s.wire <+: s.acc := c14_wire_prefix_of_accepted g as
  rw [hi.whole hc] at hp
  refine ⟨hp, ?_, ?_⟩
  · intro hd hdead hcl
    by_cases hl : s.list = []
    · rw [hi.idleE hd hl, hi.whole hc]
    · rcases (hi.idleN hd hl).1 with h | h
      · rw [hdead] at h; cases h
      · rw [hcl] at h; cases h
  · obtain ⟨t, ht⟩ := hp
    have := hi.ids.1
    rw [← ht] at this
    exact (List.nodup_append.mp this).1

/-- **No call is ever cut in queued mode** when the queue is unbounded (`BlockingModSendQueueMaxSize = 0`, the
    default) or `WriteMessage` reserves room for the whole message (the repaired tree): hypothesis `cut = false`
    of `c14_frames_whole` holds unconditionally. -/
theorem c14_queued_never_cut (g : Cfg) (as : List Act) (hq : g.queued = true)
    (hb : g.bound = 0 ∨ g.reserve = true) : (run g init as).cut = false :=
  (inv_run as (inv_init g)).nocut hq hb

/-- in direct mode a call can only be cut by a failing conn write, and the connection is dead from then on -/
theorem c14_direct_cut_means_dead (g : Cfg) (as : List Act) (hq : g.queued = false) :
    let s := run g init as
    s.wire = s.acc ∧ (s.cut = true → s.dead = true) := by
  intro s
  have hi : Inv g s := inv_run as (inv_init g)
  obtain ⟨hl, hd⟩ := hi.direct hq
  refine ⟨hi.idleE hd hl, ?_⟩
  -- separate small invariant: cut → dead
  have key : ∀ (as : List Act) (s : St), (s.cut = true → s.dead = true) →
      ((run g s as).cut = true → (run g s as).dead = true) := by
    intro as
    induction as with
    | nil => intro s h; exact h
    | cons a as ih =>
      intro s h
      simp only [run]
      split
      · rename_i s' hs
        apply ih
        cases a with
        | write n errAt =>
          simp only [step] at hs
          split at hs
          · cases hs
          · cases hs
            unfold stepWrite
            split
            · exact h
            · simp only [hq]
              simp only [Bool.not_false, if_true]
              unfold writeDirect
              simp only
              split
              · exact h
              · cases errAt with
                | none => exact h
                | some k =>
                  simp only
                  split
                  · intro _; rfl
                  · exact h
        | send ok =>
          simp only [step, stepSend] at hs
          split at hs
          · split at hs
            · split at hs
              · cases hs; exact h
              · cases hs; intro _; rfl
            · cases hs
          · cases hs
        | advance =>
          simp only [step, stepAdvance] at hs
          split at hs
          · split at hs
            · cases hs; exact h
            · split at hs
              · cases hs; exact h
              · cases hs; exact h
          · cases hs
        | close => simp only [step] at hs; cases hs; intro _; rfl
      · exact ih s h
  exact key as init (by simp [init])

/-- **Defect on the pinned tree (bounded queue).** With `BlockingModSendQueueMaxSize = 2`, a three-fragment message
    is cut after two fragments (`ErrMessageSendQuqueIsFull` is returned, yet the two fragments stay queued and are
    sent); the next message's frame follows them: the wire holds a partial frame group of a call that *failed*,
    which is not a prefix of the whole groups of the calls that succeeded. -/
theorem c14_bounded_queue_partial_counterexample :
    let g : Cfg := { queued := true, bound := 2, reserve := false }
    let s := run g init [.write 3 none, .send true, .advance, .send true, .advance, .write 1 none, .send true, .advance]
    s.wire = [(0, 0), (0, 1), (1, 0)] ∧ s.okCalls = [(1, 1)] ∧ wholeGroups s.okCalls = [(1, 0)] ∧
      s.cut = true ∧ s.dead = false ∧ s.closed = false ∧ s.dr = .idle := by
  decide

/-- the same schedule on the repaired tree (`reserve`): the three-fragment call is refused as a whole -/
example :
    let g : Cfg := { queued := true, bound := 2, reserve := true }
    let s := run g init [.write 3 none, .send true, .advance, .send true, .advance, .write 1 none, .send true, .advance]
    s.wire = [(1, 0)] ∧ s.okCalls = [(1, 1)] ∧ s.cut = false := by
  decide

/-! non-vacuity -/

/-- queued: two callers' fragmented messages, the drainer interleaved with the second call -/
example :
    let g : Cfg := { queued := true, bound := 0, reserve := false }
    let s := run g init [.write 2 none, .send true, .write 3 none, .advance, .send true, .advance, .send true,
                         .advance, .send true, .advance, .send true, .advance]
    s.wire = group 0 2 ++ group 1 3 ∧ s.dr = .idle ∧ s.cut = false ∧ s.list = [] := by
  decide

/-- queued: the conn write fails under the drainer — the wire stays a prefix, later calls are accepted but never sent -/
example :
    let g : Cfg := { queued := true, bound := 0, reserve := false }
    let s := run g init [.write 2 none, .send true, .advance, .send false, .write 1 none]
    s.wire = [(0, 0)] ∧ s.dead = true ∧ s.dr = .idle ∧ s.okCalls = [(0, 2), (1, 1)] := by
  decide

/-- direct: a conn write failing in the middle of a fragmented message cuts it; the conn is dead afterwards -/
example :
    let g : Cfg := { queued := false, bound := 0, reserve := false }
    let s := run g init [.write 2 none, .write 3 (some 1), .write 1 none]
    s.wire = [(0, 0), (0, 1), (1, 0)] ∧ s.cut = true ∧ s.dead = true ∧ s.okCalls = [(0, 2)] := by
  decide

end SendQ
