import NbioVerif.Lemmas.C08Bound
import NbioVerif.Model.ScanChecked
/-! C08: body bound (invariant over the machine) and framing-metadata theorems. -/
namespace Scan
variable {σ ε : Type}

/-- an invariant of the machine's two actions is an invariant of the Parse loop -/
theorem loop_inv (M : Machine σ ε) (Inv : σ → Prop)
    (hb : ∀ st tok c s' u evs, Inv st → M.byteStep st tok c = .ok s' u evs → Inv s')
    (hd : ∀ st d s' u evs, Inv st → M.blockDone st d = .ok s' u evs → Inv s')
    (buf : List UInt8) :
    ∀ (fuel i start : Nat) (st : σ) (acc : List ε), Inv st →
      ∀ acc' st' c', loop M buf fuel i start st acc = ⟨acc', .inl (st', c')⟩ → Inv st' := by
  intro fuel
  induction fuel with
  | zero => intro i start st acc _ acc' st' c' h; simp [loop] at h
  | succ fuel ih =>
    intro i start st acc hI acc' st' c' h
    unfold loop at h
    by_cases hi : i < buf.length
    · simp only [hi, dite_true] at h
      cases hblk : M.block st with
      | some n =>
        simp only [hblk] at h
        by_cases hl : buf.length - start ≥ n
        · simp only [hl, if_true] at h
          cases hbd : M.blockDone st ((buf.drop start).take n) with
          | err e evs => simp [hbd] at h
          | ok s' u evs =>
            simp only [hbd] at h
            exact ih _ _ _ _ (hd _ _ _ _ _ hI hbd) _ _ _ h
        · simp only [hl, if_false] at h
          simp only [Res.mk.injEq, Sum.inl.injEq, Prod.mk.injEq] at h
          obtain ⟨_, h2, _⟩ := h; subst h2; exact hI
      | none =>
        simp only [hblk] at h
        cases hbs : M.byteStep st ((buf.drop start).take (i - start)) buf[i] with
        | err e evs => simp [hbs] at h
        | ok s' u evs =>
          simp only [hbs] at h
          exact ih _ _ _ _ (hb _ _ _ _ _ _ hI hbs) _ _ _ h
    · simp only [hi, dite_false] at h
      simp only [Res.mk.injEq, Sum.inl.injEq, Prod.mk.injEq] at h
      obtain ⟨_, h2, _⟩ := h; subst h2; exact hI

theorem implParse_inv (M : Machine σ ε) (Inv : σ → Prop)
    (hb : ∀ st tok c s' u evs, Inv st → M.byteStep st tok c = .ok s' u evs → Inv s')
    (hd : ∀ st d s' u evs, Inv st → M.blockDone st d = .ok s' u evs → Inv s')
    (st : σ) (cache data : List UInt8) (acc : List ε) (hI : Inv st) acc' st' c'
    (h : implParse M st cache data acc = ⟨acc', .inl (st', c')⟩) : Inv st' := by
  unfold implParse at h
  split at h
  · simp only [Res.mk.injEq, Sum.inl.injEq, Prod.mk.injEq] at h
    obtain ⟨_, h2, _⟩ := h; subst h2; exact hI
  · exact loop_inv M Inv hb hd _ _ _ _ _ _ hI _ _ _ h

end Scan

namespace Http
open Scan

/-! ### what the three framing functions may change -/

theorem parseTE_shape (p p' : P) (h : parseTE p = .ok p') :
    (p.te = [] ∧ p' = p) ∨
    (∃ v, p.te = [v] ∧ (trim v).map toLower = str "chunked" ∧ (p.cl = [] ∨ ∃ q, parseCL p = .ok q) ∧
      p' = { p with te := [], cl := [], chunked := true }) := by
  unfold parseTE at h
  split at h
  · rename_i ht; left; cases h; exact ⟨ht, rfl⟩
  · rename_i v ht
    split at h
    · cases h
    · rename_i hv
      right
      split at h
      · rename_i hc; cases h; exact ⟨v, ht, by simpa using hv, Or.inl hc, rfl⟩
      · split at h
        · cases h
        · rename_i q hq; cases h; exact ⟨v, ht, by simpa using hv, Or.inr ⟨q, hq⟩, rfl⟩
  · cases h

theorem parseCL_shape (p p' : P) (h : parseCL p = .ok p') :
    (p.cl = [] ∧ p' = { p with contentLength := -1 }) ∨
    (∃ v rest l, p.cl = v :: rest ∧ (∀ w ∈ rest, trimRightSpaces w = trimRightSpaces v) ∧
      parseCLValue (trimRightSpaces v) = some l ∧ 0 ≤ l ∧ p' = { p with contentLength := l }) := by
  unfold parseCL at h
  split at h
  · rename_i hc; left; cases h; exact ⟨hc, rfl⟩
  · rename_i v rest hc
    split at h
    · cases h
    · rename_i hany
      split at h
      · cases h
      · rename_i l hl
        split at h
        · cases h
        · rename_i hpos
          right
          cases h
          refine ⟨v, rest, l, hc, ?_, hl, by omega, rfl⟩
          intro w hw
          simp only [List.any_eq_true, bne_iff_ne, ne_eq, not_exists, not_and, Decidable.not_not] at hany
          exact hany w hw

theorem addTrailerKeys_shape (p p' : P) (h : addTrailerKeys p = .ok p') :
    p' = p ∨ (p.chunked = true ∧ (declaredKeys p.tr).any forbiddenTrailer = false ∧
      p' = { p with tr := [], trailer := (declaredKeys p.tr).eraseDups }) := by
  unfold addTrailerKeys at h
  split at h
  · left; cases h; rfl
  · rename_i hc
    split at h
    · left; cases h; rfl
    · simp only at h
      split at h
      · cases h
      · rename_i hf; right; cases h; exact ⟨by simpa using hc, by simpa using hf, rfl⟩

theorem parseChunk_shape (p p' : P) (tok : Bytes) (h : parseChunk p tok = .ok p') :
    p' = p ∨ ∃ n, parseHexSize tok = some n ∧ p' = { p with chunkSize := Int.ofNat n } := by
  unfold parseChunk at h
  split at h
  · split at h
    · rename_i n hn; right; cases h; exact ⟨n, hn, rfl⟩
    · cases h
  · left; cases h; rfl

theorem setSpecial_bodyHeld (p : P) (k v : Bytes) : (setSpecial p k v).bodyHeld = p.bodyHeld := by
  unfold setSpecial
  split <;> (try split) <;> (try split) <;> rfl

/-- validating the framing fields does not touch the bodiless flag -/
theorem endOfHeaders_noBody (p p0 : P) (h : endOfHeaders p = .ok p0) : p0.noBody = p.noBody := by
  simp only [endOfHeaders, bind, Except.bind] at h
  split at h
  · cases h
  · rename_i q1 hq1
    rcases parseTE_shape _ _ hq1 with ⟨_, e⟩ | ⟨_, _, _, _, e⟩ <;>
    rcases parseCL_shape _ _ h with ⟨_, e2⟩ | ⟨_, _, _, _, _, _, _, e2⟩ <;> subst e e2 <;> rfl

theorem noBodyOverride_bodyHeld (p : P) : (noBodyOverride p).bodyHeld = p.bodyHeld := by
  unfold noBodyOverride; split <;> rfl

/-! ### (b) the body bound -/

/-- the body held for the message under construction respects MaxHTTPBodySize -/
def BodyInv (g : Cfg) (p : P) : Prop := g.maxBody > 0 → p.bodyHeld ≤ g.maxBody

/-- a byte step leaves `bodyHeld` alone or resets it (message complete) -/
theorem byteStep_bodyHeld (g : Cfg) (p : P) (tok : Bytes) (c : UInt8) (p' : P) (u : Upd) (evs : List Ev)
    (h : byteStep g p tok c = .ok p' u evs) : p'.bodyHeld = p.bodyHeld ∨ p'.bodyHeld = 0 := by
  unfold byteStep at h
  split at h
  all_goals (simp only [ok, er] at h)
  all_goals (repeat' split at h)
  all_goals first
    | (cases h; done)
    | (cases h; left; rfl)
    | (cases h; right; rfl)
    | (cases h; left; exact setSpecial_bodyHeld _ _ _)
    | (rename_i hp; cases h; rcases parseChunk_shape _ _ _ hp with e | ⟨n, _, e⟩ <;> subst e <;> left <;> rfl)
    | (rename_i h1 _ _ h2
       cases h
       have a : ∀ q q' : P, endOfHeaders q = .ok q' → q'.bodyHeld = q.bodyHeld := by
         intro q q' hq
         simp only [endOfHeaders, bind, Except.bind] at hq
         split at hq
         · cases hq
         · rename_i q1 hq1
           rcases parseTE_shape _ _ hq1 with ⟨_, e⟩ | ⟨_, _, _, _, e⟩ <;>
           rcases parseCL_shape _ _ hq with ⟨_, e2⟩ | ⟨_, _, _, _, _, _, _, e2⟩ <;> subst e e2 <;> rfl
       have b := a _ _ h1
       rcases addTrailerKeys_shape _ _ h2 with e | ⟨_, _, e⟩ <;> subst e <;> left <;> simpa [noBodyOverride_bodyHeld] using b)
    | skip

theorem byteStep_bodyInv (g : Cfg) (p : P) (tok : Bytes) (c : UInt8) (p' : P) (u : Upd) (evs : List Ev)
    (hI : BodyInv g p) (h : byteStep g p tok c = .ok p' u evs) : BodyInv g p' := by
  intro hm
  rcases byteStep_bodyHeld g p tok c p' u evs h with e | e
  · rw [e]; exact hI hm
  · rw [e]; omega

theorem blockDone_bodyInv (g : Cfg) (p : P) (d : Bytes) (p' : P) (u : Upd) (evs : List Ev)
    (_hI : BodyInv g p) (h : blockDone g p d = .ok p' u evs) : BodyInv g p' := by
  intro hm
  unfold blockDone at h
  split at h
  · simp [er] at h
  · rename_i hlim
    have hle : d.length + p.bodyHeld ≤ g.maxBody := by
      simp only [gt_iff_lt, Bool.and_eq_true, decide_eq_true_eq, not_and, Nat.not_lt] at hlim
      exact hlim hm
    simp only [ok, er] at h
    split at h
    · cases h; simp [handleMessage]
    · cases h; simp only; omega
    · cases h

/-! ### (c) framing metadata -/

theorem parseNat_some (base : Nat) (ok : UInt8 → Bool) (b : Bytes) (n : Nat) (h : parseNat base ok b = some n) :
    b ≠ [] ∧ b.all ok = true ∧ n < 2 ^ 62 := by
  unfold parseNat at h
  split at h
  · cases h
  · rename_i hne
    split at h
    · rename_i hall
      simp only at h
      split at h
      · rename_i hlt; cases h; exact ⟨hne, hall, hlt⟩
      · cases h
    · cases h

/-- the strings `strconv.ParseInt(·, 10, 63)` accepts: an optional sign and one or more digits -/
def clShape (b : Bytes) : Bool :=
  match b with
  | 43 :: r => r ≠ [] && r.all isNum
  | 45 :: r => r ≠ [] && r.all isNum
  | _ => b ≠ [] && b.all isNum

theorem parseCLValue_shape (b : Bytes) (l : Int) (h : parseCLValue b = some l) : clShape b = true := by
  unfold parseCLValue at h
  unfold clShape
  split at h
  · rename_i r
    cases hp : parseNat 10 isNum r with
    | none => simp [hp] at h
    | some n => have ⟨a, b, _⟩ := parseNat_some _ _ _ _ hp; simp [a, b]
  · split at h
    · rename_i n hp; have ⟨a, b, _⟩ := parseNat_some _ _ _ _ hp; simp [a, b]
    · split at h
      · rename_i hc; simp [hc.1, hc.2.1]
      · cases h
  · rename_i h1 h2
    cases hp : parseNat 10 isNum b with
    | none => simp [hp] at h
    | some n =>
      have ⟨a, c, _⟩ := parseNat_some _ _ _ _ hp
      split
      · rename_i r; exact absurd rfl (h1 r)
      · rename_i r; exact absurd rfl (h2 r)
      · simp [a, c]

/-- **Content-Length.** If the framing functions accept a header section without chunked coding that has Content-Length
    fields, all their values are equal (trailing spaces aside), the value is `[+-]?DIGIT+` and the length reported is
    its non-negative value: empty, non-numeric, negative, overflowing and differing values are rejected. -/
theorem cl_accepted (p p' : P) (v : Bytes) (rest : List Bytes) (h : endOfHeaders p = .ok p')
    (hte : p.te = []) (hcl : p.cl = v :: rest) :
    clShape (trimRightSpaces v) = true ∧ 0 ≤ p'.contentLength ∧
      parseCLValue (trimRightSpaces v) = some p'.contentLength ∧
      ∀ w ∈ rest, trimRightSpaces w = trimRightSpaces v := by
  simp only [endOfHeaders, bind, Except.bind] at h
  split at h
  · cases h
  · rename_i q hq
    rcases parseTE_shape _ _ hq with ⟨_, e⟩ | ⟨w, e, _⟩
    · subst e
      rcases parseCL_shape _ _ h with ⟨h2, _⟩ | ⟨w, r, l, h1, h2, h3, h4, e2⟩
      · rw [hcl] at h2; cases h2
      · rw [hcl] at h1
        cases h1
        subst e2
        exact ⟨parseCLValue_shape _ _ h3, h4, h3, h2⟩
    · rw [hte] at e; cases e

/-- **Chunk size.** An accepted chunk-size token is one or more hex digits with a value below 2^62 (≤ MaxInt):
    non-hex and overflowing sizes are rejected. -/
theorem chunk_accepted (s : Bytes) (n : Nat) (h : parseHexSize s = some n) :
    s ≠ [] ∧ s.all isHex = true ∧ n < 2 ^ 62 := parseNat_some 16 isHex s n h

/-- **Transfer-Encoding.** If the framing functions accept a header section that has a Transfer-Encoding field, there
    is exactly one such field line and its value is `chunked` (trimmed, case-insensitive): repeated and unsupported
    codings are rejected. -/
theorem te_accepted (p p' : P) (h : endOfHeaders p = .ok p') (hte : p.te ≠ []) :
    ∃ v, p.te = [v] ∧ (trim v).map toLower = str "chunked" ∧ p'.chunked = true := by
  simp only [endOfHeaders, bind, Except.bind] at h
  split at h
  · cases h
  · rename_i q hq
    rcases parseTE_shape _ _ hq with ⟨e, _⟩ | ⟨v, e1, e2, _, e3⟩
    · exact absurd e hte
    · subst e3
      refine ⟨v, e1, e2, ?_⟩
      rcases parseCL_shape _ _ h with ⟨_, e⟩ | ⟨_, _, _, _, _, _, _, e⟩ <;> subst e <;> rfl

/-- **Trailer.** An accepted chunked header section announces no trailer named Transfer-Encoding, Trailer or
    Content-Length. -/
theorem trailer_accepted (p p' : P) (h : addTrailerKeys p = .ok p') (hc : p.chunked = true) (htr : p.tr ≠ []) :
    (declaredKeys p.tr).any forbiddenTrailer = false := by
  unfold addTrailerKeys at h
  simp only [hc, Bool.not_true, Bool.false_eq_true, if_false, htr] at h
  split at h
  · cases h
  · rename_i hf; simpa using hf

/-- the states that wait for the LF of a CR LF pair -/
def lfStates : List PState :=
  [.protoLF, .statusLF, .headerValueLF, .headerOverLF, .chunkSizeLF, .chunkDataLF, .trValueLF, .tailLF]
/-- the states that wait for a CR -/
def crStates : List PState := [.chunkDataCR, .tailCR]

/-- **Missing LF.** In every state that expects the LF of a line end, any other byte is an error. -/
theorem lf_expected (g : Cfg) (p : P) (tok : Bytes) (c : UInt8) (hs : p.st ∈ lfStates) (hc : c ≠ LF) :
    byteStep g p tok c = .err E.lfExpected.code [] := by
  have hc' : (c == LF) = false := by simpa using hc
  simp only [lfStates, List.mem_cons, List.mem_nil_iff, or_false] at hs
  rcases hs with h | h | h | h | h | h | h | h <;> simp [byteStep, h, hc', er]

/-- **Missing CR.** In every state that expects a CR, any other byte is an error. -/
theorem cr_expected (g : Cfg) (p : P) (tok : Bytes) (c : UInt8) (hs : p.st ∈ crStates) (hc : c ≠ CR) :
    byteStep g p tok c = .err E.crExpected.code [] := by
  have hc' : (c == CR) = false := by simpa using hc
  simp only [crStates, List.mem_cons, List.mem_nil_iff, or_false] at hs
  rcases hs with h | h <;> simp [byteStep, h, hc', er]

/-- a bare LF inside a header name, a header value or where a header line starts is an error -/
theorem bare_lf_in_header (g : Cfg) (p : P) (tok : Bytes)
    (hs : p.st = .headerKeyBefore ∨ p.st = .headerKey ∨ p.st = .headerValueBefore ∨ p.st = .headerValue) :
    byteStep g p tok LF = .err E.invalidCharInHeader.code [] := by
  rcases hs with h | h | h | h <;> simp [byteStep, h, er, LF, SP, CR, show isToken 10 = false by decide]

/-- **Content-Length, also under chunked.** Whatever the Transfer-Encoding, accepted Content-Length fields all carry the
    same `[+-]?DIGIT+` value: `Transfer-Encoding: chunked` overrides the length but does not excuse garbage. -/
theorem parseCLValue_lt (b : Bytes) (l : Int) (h : parseCLValue b = some l) : l < 2 ^ 62 := by
  unfold parseCLValue at h
  split at h
  · rename_i r
    cases hp : parseNat 10 isNum r with
    | none => simp [hp] at h
    | some n =>
      have ⟨_, _, hn⟩ := parseNat_some _ _ _ _ hp
      simp only [hp, Option.map_some, Option.some.injEq] at h
      subst h
      have : (n : Int) < 2 ^ 62 := by exact_mod_cast hn
      simpa using this
  · split at h
    · rename_i n hp
      cases h
      have : (0 : Int) ≤ Int.ofNat n := Int.natCast_nonneg n
      have h2 : (0 : Int) < 2 ^ 62 := by decide
      omega
    · split at h
      · cases h
        have h2 : (0 : Int) < 2 ^ 62 := by decide
        omega
      · cases h
  · cases hp : parseNat 10 isNum b with
    | none => simp [hp] at h
    | some n =>
      have ⟨_, _, hn⟩ := parseNat_some _ _ _ _ hp
      simp only [hp, Option.map_some, Option.some.injEq] at h
      subst h
      have : (n : Int) < 2 ^ 62 := by exact_mod_cast hn
      simpa using this

/-- whatever framing is chosen, an accepted header section's Content-Length values all spell the same number, it
    parses (`strconv.ParseInt(·, 10, 63)` shape), is non-negative and below 2^62 — "-5", "99999999999999999999",
    "3, 4" are rejected also when `Transfer-Encoding: chunked` overrides the length -/
theorem cl_accepted_any (p p' : P) (v : Bytes) (rest : List Bytes) (h : endOfHeaders p = .ok p')
    (hcl : p.cl = v :: rest) :
    clShape (trimRightSpaces v) = true ∧ (∀ w ∈ rest, trimRightSpaces w = trimRightSpaces v) ∧
      ∃ l : Int, parseCLValue (trimRightSpaces v) = some l ∧ 0 ≤ l ∧ l < 2 ^ 62 := by
  simp only [endOfHeaders, bind, Except.bind] at h
  split at h
  · cases h
  · rename_i q hq
    rcases parseTE_shape _ _ hq with ⟨_, e⟩ | ⟨w, _, _, hc, _⟩
    · subst e
      rcases parseCL_shape _ _ h with ⟨h2, _⟩ | ⟨w, r, l, h1, h2, h3, h4, _⟩
      · rw [hcl] at h2; cases h2
      · rw [hcl] at h1; cases h1
        exact ⟨parseCLValue_shape _ _ h3, h2, l, h3, h4, parseCLValue_lt _ _ h3⟩
    · rcases hc with hc | ⟨q', hq'⟩
      · rw [hcl] at hc; cases hc
      · rcases parseCL_shape _ _ hq' with ⟨h2, _⟩ | ⟨w, r, l, h1, h2, h3, h4, _⟩
        · rw [hcl] at h2; cases h2
        · rw [hcl] at h1; cases h1
          exact ⟨parseCLValue_shape _ _ h3, h2, l, h3, h4, parseCLValue_lt _ _ h3⟩

/-- **Chunk-size line grammar.** While the size token is being read, a byte that is neither a hex digit nor SP, HTAB,
    `;`, CR is an error; after the size and before any `;`, a byte other than SP, HTAB, `;`, CR is an error; a bare LF
    is an error anywhere on the line. So an accepted chunk-size line is `HEXDIG+ (SP|HTAB)* [";" …] CR`. -/
theorem chunk_line_grammar (g : Cfg) (p : P) (tok : Bytes) (c : UInt8) (hs : p.st = .chunkSize) :
    (c = LF → byteStep g p tok c = .err E.invalidChunkSize.code []) ∧
    (p.chunkSize < 0 → isHex c = false → c ≠ SP → c ≠ 9 → c ≠ 59 → c ≠ CR →
      byteStep g p tok c = .err E.invalidChunkSize.code []) ∧
    (¬ p.chunkSize < 0 → p.chunkExt = false → c ≠ SP → c ≠ 9 → c ≠ 59 → c ≠ CR →
      byteStep g p tok c = .err E.invalidChunkSize.code []) := by
  refine ⟨?_, ?_, ?_⟩
  · intro h; subst h; simp [byteStep, hs, er, LF]
  · intro h1 h2 h3 h4 h5 h6
    by_cases hl : c = LF
    · subst hl; simp [byteStep, hs, er, LF]
    · simp [byteStep, hs, er, hl, h1, h2, h3, h4, h5, h6]
  · intro h1 h2 h3 h4 h5 h6
    by_cases hl : c = LF
    · subst hl; simp [byteStep, hs, er, LF]
    · simp [byteStep, hs, er, hl, h1, h2, h3, h4, h5, h6]

/-- a bare LF is an error in every line-oriented state that is not waiting for it -/
theorem bare_lf_rejected (g : Cfg) (p : P) (tok : Bytes)
    (hs : p.st = .statusBefore ∨ p.st = .status ∨ p.st = .chunkSize ∨ p.st = .trValueBefore ∨ p.st = .trValue ∨
          p.st = .trKeyBefore ∨ p.st = .statusCodeBefore ∨ p.st = .headerKeyBefore ∨ p.st = .headerKey ∨
          p.st = .headerValueBefore ∨ p.st = .headerValue) :
    ∃ e, byteStep g p tok LF = .err e [] := by
  rcases hs with h | h | h | h | h | h | h | h | h | h | h <;>
    simp [byteStep, h, er, LF, SP, CR, show isToken 10 = false by decide, show isNum 10 = false by decide]

end Http
