import NbioVerif.Lemmas.C07Scan
/-! C07 productions: request line and status line. -/
namespace Http
open Scan

/-- shape of a method token the parser accepts: first byte a method character, the rest letters, upper case -/
def methodShape (m : Bytes) : Bool :=
  match m with
  | [] => false
  | m0 :: ms => isValidMethodChar m0 && ms.all (fun c => isAlpha c && c != SP) && m.map toUpper == m

theorem validMethods_shape : validMethods.all methodShape = true := by decide

/-- shape of a version token: no SP / CR inside, does not start with SP -/
def protoShape (pr : Bytes) : Bool :=
  match pr with
  | [] => false
  | c0 :: cs => c0 != SP && cs.all (fun c => c != SP && c != CR)

theorem http1x_cases (pr : Bytes) (h : http1x pr = true) : pr = str "HTTP/1.1" ∨ pr = str "HTTP/1.0" := by
  simpa [http1x] using h

theorem http1x_shape (pr : Bytes) (h : http1x pr = true) : protoShape pr = true ∧ pr.head? = some 72 := by
  rcases http1x_cases pr h with h | h <;> subst h <;> decide

set_option maxRecDepth 8192 in
theorem visible_facts (c : UInt8) (h : visible c = true) : c ≠ SP ∧ c ≠ CR ∧ c ≠ LF := by
  have key := forall_uint8 (fun c => !visible c || (c != SP && c != CR && c != LF)) (by decide) c
  simp only [h, Bool.not_true, Bool.false_or, Bool.and_eq_true, bne_iff_ne, ne_eq] at key
  exact ⟨key.1.1, key.1.2, key.2⟩

set_option maxRecDepth 8192 in
theorem fieldByte_facts (c : UInt8) (h : fieldByte c = true) : c ≠ CR ∧ c ≠ LF := by
  have key := forall_uint8 (fun c => !fieldByte c || (c != CR && c != LF)) (by decide) c
  simp only [h, Bool.not_true, Bool.false_or, Bool.and_eq_true, bne_iff_ne, ne_eq] at key
  exact key

/-- the request-line production: `method SP target SP version CR LF` -/
theorem request_line (g : Cfg) (p : P) (tok : Bytes) (m t pr rest : Bytes) (acc : List Ev)
    (hp : p.st = .methodBefore) (hproto : p.proto = [])
    (hm : validMethods.contains m = true)
    (ht : ∃ t0 ts, t = t0 :: ts ∧ (t0 = 47 ∨ t0 = 42) ∧ ∀ c ∈ ts, c ≠ SP)
    (hpr : protoShape pr = true) (hu : g.urlOk t = true) (hv : g.protoOk pr = true) :
    specFeed (M g) p tok (m ++ [SP] ++ t ++ [SP] ++ pr ++ [CR, LF] ++ rest) acc =
      specFeed (M g) { p with st := .headerKeyBefore } [] rest (acc ++ [.method m, .url t, .proto pr]) := by
  -- method facts
  have hms : methodShape m = true := by
    have := List.all_eq_true.mp validMethods_shape m (by simpa using hm)
    exact this
  obtain ⟨t0, ts, rfl, ht0, hts⟩ := ht
  cases m with
  | nil => simp [methodShape] at hms
  | cons m0 ms =>
  cases pr with
  | nil => simp [protoShape] at hpr
  | cons p0 ps =>
  simp only [methodShape, Bool.and_eq_true, List.all_eq_true, bne_iff_ne, ne_eq, beq_iff_eq] at hms
  obtain ⟨⟨hm0, hmsA⟩, hup⟩ := hms
  simp only [protoShape, Bool.and_eq_true, List.all_eq_true, bne_iff_ne, ne_eq] at hpr
  obtain ⟨hp0, hps⟩ := hpr
  simp only [List.cons_append, List.append_assoc, List.nil_append]
  -- m0
  rw [spec_step g p tok m0 _ acc { p with st := .method } .here [] (by simp [block, hp])
        (by simp [byteStep, hp, hm0, ok])]
  simp only [nextTok_here, List.append_nil]
  -- rest of the method
  rw [scan_keep g { p with st := .method } (by simp [block]) ms
        (by intro c hc tok'; have := hmsA c hc; simp [byteStep, ok, this.1, this.2])]
  -- SP
  rw [spec_step g _ _ SP _ acc { p with st := .pathBefore } .next [.method (m0 :: ms)] (by simp [block])
        (by
          have e : toUpper m0 :: List.map toUpper ms = m0 :: ms := by simpa using hup
          have hm' : m0 :: ms ∈ validMethods := by simpa using hm
          simp [byteStep, ok, e, hm'])]
  simp only [nextTok_next]
  -- t0
  rw [spec_step g _ _ t0 _ _ { p with st := .path } .here [] (by simp [block])
        (by rcases ht0 with h | h <;> subst h <;> simp [byteStep, ok])]
  simp only [nextTok_here, List.append_nil]
  -- rest of the target
  rw [scan_keep g { p with st := .path } (by simp [block]) ts
        (by intro c hc tok'; have := hts c hc; simp [byteStep, ok, this])]
  -- SP
  rw [spec_step g _ _ SP _ _ { p with st := .protoBefore } .next [.url (t0 :: ts)] (by simp [block])
        (by simp [byteStep, ok, hu])]
  simp only [nextTok_next]
  -- p0
  rw [spec_step g _ _ p0 _ _ { p with st := .proto } .here [] (by simp [block])
        (by simp [byteStep, ok, hp0])]
  simp only [nextTok_here, List.append_nil]
  -- rest of the version
  rw [scan_keep g { p with st := .proto } (by simp [block]) ps
        (by intro c hc tok'; have := hps c hc; simp [byteStep, ok, this.1, this.2, hproto])]
  -- CR
  rw [spec_step g _ _ CR _ _ { p with st := .protoLF } .keep [.proto (p0 :: ps)] (by simp [block])
        (by simp [byteStep, ok, hproto, hv, CR, SP])]
  simp only [nextTok_keep]
  -- LF
  rw [spec_step g _ _ LF _ _ { p with st := .headerKeyBefore } .next [] (by simp [block])
        (by simp [byteStep, ok])]
  simp only [nextTok_next, List.append_nil, List.append_assoc, List.cons_append, List.nil_append]

set_option maxRecDepth 8192 in
theorem num_facts (c : UInt8) (h : isNum c = true) : c ≠ SP ∧ digitVal c ≤ 9 := by
  have key := forall_uint8 (fun c => !isNum c || (c != SP && decide (digitVal c ≤ 9))) (by decide) c
  simp only [h, Bool.not_true, Bool.false_or, Bool.and_eq_true, bne_iff_ne, ne_eq, decide_eq_true_eq] at key
  exact key

set_option maxRecDepth 8192 in
theorem alpha_facts (c : UInt8) (h : isAlpha c = true) : c ≠ SP ∧ c ≠ CR ∧ c ≠ LF := by
  have key := forall_uint8 (fun c => !isAlpha c || (c != SP && c != CR && c != LF)) (by decide) c
  simp only [h, Bool.not_true, Bool.false_or, Bool.and_eq_true, bne_iff_ne, ne_eq] at key
  exact ⟨key.1.1, key.1.2, key.2⟩

/-- a three-digit status code parses to its decimal value -/
theorem parse_code (code : Bytes) (hl : code.length = 3) (hd : code.all isNum = true) :
    parseNat 10 isNum code = some (decimal code) := by
  match code, hl with
  | [a, b, c], _ =>
    simp only [List.all_cons, List.all_nil, Bool.and_true, Bool.and_eq_true] at hd
    obtain ⟨ha, hb, hc⟩ := hd
    have := (num_facts a ha).2; have := (num_facts b hb).2; have := (num_facts c hc).2
    simp only [parseNat, decimal, List.all_cons, ha, hb, hc, List.all_nil, List.foldl_cons, List.foldl_nil]
    simp
    omega

/-- the status-line production: `version SP code SP reason CR LF` -/
theorem status_line (g : Cfg) (p : P) (tok : Bytes) (pr code reason rest : Bytes) (acc : List Ev)
    (hp : p.st = .clientProtoBefore) (hproto : p.proto = []) (hstatus : p.status = []) (hsc : p.statusCode = 0)
    (hpr : protoShape pr = true) (hH : pr.head? = some 72) (hv : g.protoOk pr = true)
    (hl : code.length = 3) (hd : code.all isNum = true)
    (hr : reason = [] ∨ ∃ r0 rs, reason = r0 :: rs ∧ isAlpha r0 = true ∧ ∀ c ∈ rs, c ≠ CR ∧ c ≠ LF) :
    ∃ tok', specFeed (M g) p tok (pr ++ [SP] ++ code ++ [SP] ++ reason ++ [CR, LF] ++ rest) acc =
      specFeed (M g) { p with st := .headerKeyBefore, noBody := bodilessStatus (decimal code) } tok' rest
        (acc ++ [.proto pr, .status (decimal code) (trimRightSpaces reason)]) := by
  have hpc := parse_code code hl hd
  cases pr with
  | nil => simp [protoShape] at hpr
  | cons p0 ps =>
  simp only [List.head?_cons, Option.some.injEq] at hH
  subst hH
  simp only [protoShape, Bool.and_eq_true, List.all_eq_true, bne_iff_ne, ne_eq] at hpr
  obtain ⟨_, hps⟩ := hpr
  match code, hl with
  | [c0, c1, c2], _ =>
  simp only [List.all_cons, List.all_nil, Bool.and_true, Bool.and_eq_true] at hd
  obtain ⟨hc0, hc1, hc2⟩ := hd
  simp only [List.cons_append, List.append_assoc, List.nil_append]
  -- 'H'
  rw [spec_step g p tok 72 _ acc { p with st := .clientProto } .here [] (by simp [block, hp])
        (by simp [byteStep, hp, ok])]
  simp only [nextTok_here, List.append_nil]
  -- rest of the version
  rw [scan_keep g { p with st := .clientProto } (by simp [block]) ps
        (by intro c hc tok'; have := hps c hc; simp [byteStep, ok, this.1])]
  -- SP
  rw [spec_step g _ _ SP _ acc { p with st := .statusCodeBefore } .keep [.proto (72 :: ps)] (by simp [block])
        (by simp [byteStep, ok, hproto, hv])]
  simp only [nextTok_keep]
  -- first digit
  rw [spec_step g _ _ c0 _ _ { p with st := .statusCode } .here [] (by simp [block])
        (by simp [byteStep, ok, (num_facts c0 hc0).1, hc0])]
  simp only [nextTok_here, List.append_nil]
  -- two more digits
  rw [spec_step g _ _ c1 _ _ { p with st := .statusCode } .keep [] (by simp [block])
        (by simp [byteStep, ok, (num_facts c1 hc1).1, hc1])]
  rw [spec_step g _ _ c2 _ _ { p with st := .statusCode } .keep [] (by simp [block])
        (by simp [byteStep, ok, (num_facts c2 hc2).1, hc2])]
  simp only [nextTok_keep, List.append_nil, List.cons_append, List.nil_append]
  -- SP
  rw [spec_step g _ _ SP _ _ { p with st := .statusBefore, statusCode := decimal [c0, c1, c2], noBody := bodilessStatus (decimal [c0, c1, c2]) } .keep [] (by simp [block])
        (by simp [byteStep, ok, hpc])]
  simp only [nextTok_keep, List.append_nil]
  rcases hr with hr | ⟨r0, rs, hr, hr0, hrs⟩
  · subst hr
    simp only [List.nil_append]
    -- CR right away: empty reason phrase
    rw [spec_step g _ _ CR _ _ { p with st := .statusLF, noBody := bodilessStatus (decimal [c0, c1, c2]) } .keep [.status (decimal [c0, c1, c2]) []] (by simp [block])
          (by simp [byteStep, ok, hsc, CR, SP, LF])]
    rw [spec_step g _ _ LF _ _ { p with st := .headerKeyBefore, noBody := bodilessStatus (decimal [c0, c1, c2]) } .keep [] (by simp [block])
          (by simp [byteStep, ok])]
    refine ⟨?w, ?h⟩
    case h =>
      congr 1
      · exact rfl
      · simp [trimRightSpaces]
  · subst hr
    simp only [List.cons_append]
    have ⟨a1, a2, a3⟩ := alpha_facts r0 hr0
    rw [spec_step g _ _ r0 _ _ { p with st := .status, statusCode := decimal [c0, c1, c2], noBody := bodilessStatus (decimal [c0, c1, c2]) } .here [] (by simp [block])
          (by simp [byteStep, ok, a1, a2, a3, hr0])]
    simp only [nextTok_here, List.append_nil]
    rw [scan_keep g { p with st := .status, statusCode := decimal [c0, c1, c2], noBody := bodilessStatus (decimal [c0, c1, c2]) } (by simp [block]) rs
          (by intro c hc tok'; have := hrs c hc; simp [byteStep, ok, this.1, this.2])]
    rw [spec_step g _ _ CR _ _ { p with st := .statusLF, noBody := bodilessStatus (decimal [c0, c1, c2]) } .keep
          [.status (decimal [c0, c1, c2]) (trimRightSpaces ([r0] ++ rs))] (by simp [block])
          (by simp [byteStep, ok, hsc, hstatus, CR, LF])]
    rw [spec_step g _ _ LF _ _ { p with st := .headerKeyBefore, noBody := bodilessStatus (decimal [c0, c1, c2]) } .keep [] (by simp [block])
          (by simp [byteStep, ok])]
    refine ⟨?w2, ?h2⟩
    case h2 =>
      congr 1
      · exact rfl
      · simp

end Http
