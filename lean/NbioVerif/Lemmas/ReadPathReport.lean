import NbioVerif.Lemmas.ReadPathCore
/-! ReadPath: `report` (the poller takes an event, gate / dispatch) preserves the core invariant -/
namespace ReadPath

theorem reportOk_spec (g : Cfg) (s : St) (inn out : Bool) (h : reportOk g s inn out = true) :
    s.ps = .idle ∧ s.closed = false ∧ s.k.reg = true ∧ (inn = true ∨ out = true ∨ s.k.rerr = true) ∧
    (s.k.qlen > 0 ∨ s.k.eof = true → inn = true) ∧ (out = true → g.mode = .et) ∧ (g.mode = .os → s.k.armed = true) := by
  simp only [reportOk, Bool.and_eq_true, beq_iff_eq, Bool.or_eq_true, bne_iff_ne, ne_eq,
    Bool.not_eq_eq_eq_not, Bool.not_true] at h
  obtain ⟨⟨⟨⟨⟨⟨a, b⟩, c⟩, d⟩, e⟩, f⟩, k⟩ := h
  refine ⟨a, b, c, ?_, ?_, ?_, ?_⟩
  · rcases d with (d | d) | d
    · exact Or.inl d
    · exact Or.inr (Or.inl d)
    · exact Or.inr (Or.inr d)
  · intro hq
    rcases e with e | e
    · rcases hq with hq | hq
      · omega
      · simp_all
    · exact e
  · intro ho; rcases f with f | f
    · simp_all
    · exact f
  · intro hm; rcases k with k | k
    · exact absurd hm k
    · exact k

theorem gate_cases (s : St) :
    (s.re ≥ 2 ∧ gate s = s) ∨ (s.re = 1 ∧ gate s = { s with re := 2 }) ∨
    (s.re = 0 ∧ gate s = spawnTask { s with re := 1 }) := by
  unfold gate
  split
  · next h => exact Or.inl ⟨h, rfl⟩
  · next h =>
    split
    · next h1 => exact Or.inr (Or.inl ⟨h1, rfl⟩)
    · next h1 => exact Or.inr (Or.inr ⟨by omega, rfl⟩)

theorem dispatch_cases (g : Cfg) (s : St) (fl : Flags) :
    (fl.inn = true ∧ g.isAsync = false ∧ dispatch g s fl = setPs s (.rd 0 fl)) ∨
    (fl.inn = false ∧ dispatch g s fl = setPs s (afterEvent fl)) ∨
    (fl.inn = true ∧ g.isAsync = true ∧ g.mode = .os ∧ dispatch g s fl = setPs (spawnTask s) (afterEvent fl)) ∨
    (fl.inn = true ∧ g.isAsync = true ∧ g.mode = .et ∧ dispatch g s fl = setPs (gate s) (afterEvent fl)) := by
  unfold dispatch
  cases hi : fl.inn
  · exact Or.inr (Or.inl ⟨rfl, by simp⟩)
  · cases ha : g.isAsync
    · exact Or.inl ⟨rfl, rfl, by simp⟩
    · cases hm : g.mode
      · simp [Cfg.isAsync, hm] at ha
      · exact Or.inr (Or.inr (Or.inr ⟨rfl, rfl, rfl, by simp⟩))
      · exact Or.inr (Or.inr (Or.inl ⟨rfl, rfl, rfl, by simp⟩))

theorem psOk_after (g : Cfg) (fl : Flags) : PsOk g (afterEvent fl) := by
  unfold afterEvent
  split
  · next h =>
    refine ⟨fun _ i fl' => by simp, fun i fl' h' => by simp at h', fun _ fl' h' => ?_, fun _ _ fl' h' => ?_⟩
    · cases h'; exact h
    · cases h'; exact Or.inl h
  · exact ⟨fun _ i fl' => by simp, fun i fl' h' => by simp at h', fun _ fl' h' => by simp at h', fun _ _ fl' h' => by simp at h'⟩

theorem psOk_rd0 (g : Cfg) (fl : Flags) (ha : g.isAsync = false) (hi : fl.inn = true) : PsOk g (.rd 0 fl) :=
  ⟨fun h => by simp [ha] at h, fun i fl' h' => by cases h'; exact hi, fun h => by simp [ha] at h, fun _ _ fl' h' => by simp at h'⟩

theorem disarm_frame (g : Cfg) (k : K) :
    (disarm g k).reg = k.reg ∧ (disarm g k).rq = k.rq ∧ (disarm g k).dq = k.dq ∧ (disarm g k).qlen = k.qlen ∧
    (disarm g k).eof = k.eof ∧ (disarm g k).rerr = k.rerr := by
  unfold disarm; cases g.mode <;> simp [K.qlen]

theorem core_report (g : Cfg) (s s' : St) (inn out : Bool) (h : Core g s)
    (hs : report g s inn out = some s') : Core g s' := by
  unfold report at hs
  split at hs
  case isFalse => cases hs
  next hok =>
  obtain ⟨hps, hcl, hreg, hany, hin, hout, harm⟩ := reportOk_spec g s inn out hok
  cases hs
  obtain ⟨hk, hg, hp, hl⟩ := h
  obtain ⟨d1, d2, d3, d4, d5, d6⟩ := disarm_frame g s.k
  have hfi : (flagsOf s inn out).inn = inn := rfl
  have hfe : (flagsOf s inn out).err = s.k.rerr := rfl
  -- the tail of an event that has no IN and is not empty carries a hang-up (EPOLLOUT alone only in ET mode)
  have hgate : ∀ t : St, t.task = s.task → t.re = s.re → t.closed = s.closed → t.overlap = s.overlap →
      g.isAsync = true → g.mode = .et →
      GateOk g (gate t).task (gate t).re (gate t).closed (gate t).overlap ∧
      ((gate t).task = .queued ∨ (∃ v, (gate t).task = .dec v) ∨ ∃ a, (gate t).task = .rd a ∧ (gate t).re ≥ 2) := by
    intro t ht hre hc ho ha hm
    have hal := hg.alive hm hcl
    rcases gate_cases t with ⟨h2, e⟩ | ⟨h1, e⟩ | ⟨h0, e⟩
    · rw [e, ht, hre, hc, ho]
      refine ⟨hg, ?_⟩
      have hne : s.task ≠ .none := fun hn => by have := hal.mp hn; omega
      cases htk : s.task with
      | none => exact absurd htk hne
      | queued => exact Or.inl rfl
      | dec v => exact Or.inr (Or.inl ⟨v, rfl⟩)
      | rd a => exact Or.inr (Or.inr ⟨a, rfl, by omega⟩)
    · rw [e]; simp only [ht, hc, ho]
      have hne : s.task ≠ .none := fun hn => by have := hal.mp hn; omega
      refine ⟨⟨by omega, fun h => by simp [hm] at h, fun h => by simp [ha] at h, hg.noClosedAns, fun _ _ => ?_, hg.noOverlap⟩, ?_⟩
      · constructor
        · intro hn; exact absurd hn hne
        · intro h; omega
      · cases htk : s.task with
        | none => exact absurd htk hne
        | queued => exact Or.inl rfl
        | dec v => exact Or.inr (Or.inl ⟨v, rfl⟩)
        | rd a => exact Or.inr (Or.inr ⟨a, rfl, by omega⟩)
    · rw [e]
      have hn : s.task = .none := hal.mpr (by omega)
      refine ⟨?_, Or.inl rfl⟩
      simp only [spawnTask, ht, hc, ho]
      refine ⟨by omega, fun h => by simp [hm] at h, fun h => by simp [ha] at h, by simp, fun _ _ => by simp, ?_⟩
      simp [hn, hg.noOverlap]
  refine ⟨?_, ?_, ?_, ?_⟩
  · -- KindOk: reg, rq, dq are not touched
    rcases dispatch_cases g (setK s (disarm g s.k)) (flagsOf s inn out) with ⟨_, _, e⟩ | ⟨_, e⟩ | ⟨_, _, _, e⟩ | ⟨_, _, _, e⟩
    · rw [e]; simp only [setPs, setK, d1, d2, d3]; exact hk
    · rw [e]; simp only [setPs, setK, d1, d2, d3]; exact hk
    · rw [e]; simp only [setPs, setK, spawnTask, d1, d2, d3]; exact hk
    · rw [e]
      rcases gate_cases (setK s (disarm g s.k)) with ⟨_, e2⟩ | ⟨_, e2⟩ | ⟨_, e2⟩ <;> rw [e2] <;>
        simp only [setPs, setK, spawnTask, d1, d2, d3] <;> exact hk
  · -- GateOk
    rcases dispatch_cases g (setK s (disarm g s.k)) (flagsOf s inn out) with ⟨_, _, e⟩ | ⟨_, e⟩ | ⟨_, ha, hm, e⟩ | ⟨_, ha, hm, e⟩
    · rw [e]; exact hg
    · rw [e]; exact hg
    · rw [e]; simp only [setPs, setK, spawnTask]
      have hn : s.task = .none := hl.osArmed hm (harm hm)
      refine ⟨hg.re2, hg.osRe, fun h => by simp [ha] at h, by simp, fun h => by simp [hm] at h, ?_⟩
      simp [hn, hg.noOverlap]
    · rw [e]; simp only [setPs]; exact (hgate (setK s (disarm g s.k)) rfl rfl rfl rfl ha hm).1
  · -- PsOk
    rcases dispatch_cases g (setK s (disarm g s.k)) (flagsOf s inn out) with ⟨hi, ha, e⟩ | ⟨_, e⟩ | ⟨_, _, _, e⟩ | ⟨_, _, _, e⟩
    · rw [e]; exact psOk_rd0 g _ ha hi
    · rw [e]; exact psOk_after g _
    · rw [e]; exact psOk_after g _
    · rw [e]; exact psOk_after g _
  · -- LostOk
    cases hm : g.mode with
    | lt => exact ⟨fun h => by simp [hm] at h, fun h => by simp [hm] at h, fun h => by simp [hm] at h, fun h => by simp [hm] at h⟩
    | et =>
      refine ⟨fun h => by simp [hm] at h, fun h => by simp [hm] at h, fun h => by simp [hm] at h, fun _ hq hc => Or.inr ?_⟩
      have hq' : s.k.qlen > 0 := by
        rcases dispatch_cases g (setK s (disarm g s.k)) (flagsOf s inn out) with ⟨_, _, e⟩ | ⟨_, e⟩ | ⟨_, _, _, e⟩ | ⟨_, _, _, e⟩
        · rw [e] at hq; simpa only [setPs, setK, d4] using hq
        · rw [e] at hq; simpa only [setPs, setK, d4] using hq
        · rw [e] at hq; simpa only [setPs, setK, spawnTask, d4] using hq
        · rw [e] at hq
          rcases gate_cases (setK s (disarm g s.k)) with ⟨_, e2⟩ | ⟨_, e2⟩ | ⟨_, e2⟩ <;> rw [e2] at hq <;>
            simpa only [setPs, setK, spawnTask, d4] using hq
      have hinn : inn = true := hin (Or.inl hq')
      rcases dispatch_cases g (setK s (disarm g s.k)) (flagsOf s inn out) with ⟨_, _, e⟩ | ⟨hi, e⟩ | ⟨_, _, hm', e⟩ | ⟨_, ha, _, e⟩
      · rw [e]; exact Or.inl ⟨0, _, rfl⟩
      · rw [hfi, hinn] at hi; cases hi
      · rw [hm] at hm'; cases hm'
      · rw [e]
        simp only [setPs]
        rcases (hgate (setK s (disarm g s.k)) rfl rfl rfl rfl ha hm).2 with h | h | ⟨a, h1, h2⟩
        · exact Or.inr (Or.inr (Or.inl h))
        · exact Or.inr (Or.inr (Or.inr (Or.inl h)))
        · exact Or.inr (Or.inr (Or.inr (Or.inr ⟨a, h1, Or.inr (Or.inr h2)⟩)))
    | os =>
      have hdm : (disarm g s.k).armed = false := by unfold disarm; rw [hm]
      have harm' : ∀ t : St, t = dispatch g (setK s (disarm g s.k)) (flagsOf s inn out) → t.k.armed = false := by
        intro t ht
        rcases dispatch_cases g (setK s (disarm g s.k)) (flagsOf s inn out) with ⟨_, _, e⟩ | ⟨_, e⟩ | ⟨_, _, _, e⟩ | ⟨_, _, hm', e⟩
        · rw [ht, e]; simpa only [setPs, setK] using hdm
        · rw [ht, e]; simpa only [setPs, setK] using hdm
        · rw [ht, e]; simpa only [setPs, setK, spawnTask] using hdm
        · rw [hm] at hm'; cases hm'
      have hA := harm' _ rfl
      refine ⟨?_, fun _ _ _ => ?_, ?_, fun h => by simp [hm] at h⟩
      · intro _ h; rw [hA] at h; cases h
      rotate_left
      · intro _ h; rw [hA] at h; cases h
      rcases dispatch_cases g (setK s (disarm g s.k)) (flagsOf s inn out) with ⟨_, _, e⟩ | ⟨hi, e⟩ | ⟨_, _, _, e⟩ | ⟨_, _, hm', e⟩
      · rw [e]; exact Or.inl ⟨0, _, rfl⟩
      · rw [e]; simp only [setPs]
        rw [hfi] at hi
        have herr : s.k.rerr = true := by
          rcases hany with h | h | h
          · rw [hi] at h; cases h
          · have := hout h; rw [hm] at this; cases this
          · exact h
        have hh : (flagsOf s inn out).hang = true := by simp [Flags.hang, hfe, herr]
        refine Or.inr (Or.inl ⟨flagsOf s inn out, ?_, Or.inl hh⟩)
        simp [afterEvent, hh]
      · rw [e]; simp only [setPs, spawnTask]; exact Or.inr (Or.inr (Or.inl rfl))
      · rw [hm] at hm'; cases hm'

end ReadPath
