import NbioVerif.Lemmas.ReadPathCore
/-! ReadPath: `report` (the poller takes an event, gate / dispatch) preserves the core invariant -/
namespace ReadPath

theorem reportOk_spec (g : Cfg) (s : St) (inn out : Bool) (h : reportOk g s inn out = true) :
    s.ps = .idle ∧ s.closed = false ∧ s.k.reg = true ∧ (inn = true ∨ out = true ∨ s.k.rerr = true) ∧
    (s.k.qlen > 0 ∨ s.k.eof = true → inn = true) ∧ (out = true → g.mode = .et) ∧ (g.mode = .os → s.k.armed = true) := by
  simp only [reportOk, Bool.and_eq_true, beq_iff_eq, Bool.or_eq_true, bne_iff_ne, ne_eq,
    Bool.not_eq_eq_eq_not, Bool.not_true] at h
  obtain ⟨⟨⟨⟨⟨⟨a, b⟩, c⟩, d⟩, e⟩, f⟩, k⟩ := h
  refine ⟨a, b, c, ?_, ?_, ?_, ?_⟩
  · rcases d with (d | d) | d
    · exact Or.inl d
    · exact Or.inr (Or.inl d)
    · exact Or.inr (Or.inr d)
  · intro hq
    rcases e with e | e
    · rcases hq with hq | hq
      · omega
      · simp_all
    · exact e
  · intro ho; rcases f with f | f
    · simp_all
    · exact f
  · intro hm; rcases k with k | k
    · exact absurd hm k
    · exact k

theorem gate_cases (s : St) :
    (s.re ≥ 2 ∧ gate s = s) ∨ (s.re = 1 ∧ gate s = { s with re := 2 }) ∨
    (s.re = 0 ∧ gate s = spawnTask { s with re := 1 }) := by
  unfold gate
  split
  · next h => exact Or.inl ⟨h, rfl⟩
  · next h =>
    split
    · next h1 => exact Or.inr (Or.inl ⟨h1, rfl⟩)
    · next h1 => exact Or.inr (Or.inr ⟨by omega, rfl⟩)

theorem setHup_frame (s : St) (b : Bool) :
    (setHup s b).k = s.k ∧ (setHup s b).closed = s.closed ∧ (setHup s b).re = s.re ∧ (setHup s b).ps = s.ps ∧
    (setHup s b).task = s.task ∧ (setHup s b).overlap = s.overlap ∧ (setHup s b).hup = (s.hup || b) ∧
    (setHup s b).sess = s.sess ∧ (setHup s b).opens = s.opens ∧ (setHup s b).dlv = s.dlv ∧ (setHup s b).sentS = s.sentS ∧
    (setHup s b).sentD = s.sentD ∧ (setHup s b).deqD = s.deqD ∧ (setHup s b).lost = s.lost ∧ (setHup s b).cerr = s.cerr := by
  unfold setHup; cases b <;> simp

theorem dispatch_cases (g : Cfg) (s : St) (fl : Flags) :
    (fl.inn = true ∧ g.isAsync = false ∧ dispatch g s fl = setPs s (.rd 0 fl)) ∨
    (fl.inn = false ∧ dispatch g s fl = setPs s (afterEvent fl)) ∨
    (fl.inn = true ∧ g.isAsync = true ∧ g.mode = .os ∧ dispatch g s fl = setPs (spawnTask (setHup s fl.hang)) .idle) ∨
    (fl.inn = true ∧ g.isAsync = true ∧ g.mode = .et ∧ dispatch g s fl = setPs (gate (setHup s fl.hang)) .idle) := by
  unfold dispatch
  cases hi : fl.inn
  · exact Or.inr (Or.inl ⟨rfl, by simp⟩)
  · cases ha : g.isAsync
    · exact Or.inl ⟨rfl, rfl, by simp⟩
    · cases hm : g.mode
      · simp [Cfg.isAsync, hm] at ha
      · exact Or.inr (Or.inr (Or.inr ⟨rfl, rfl, rfl, by simp⟩))
      · exact Or.inr (Or.inr (Or.inl ⟨rfl, rfl, rfl, by simp⟩))

theorem psOk_idle (g : Cfg) : PsOk g .idle :=
  ⟨fun _ i fl' => by simp, fun i fl' h' => by simp at h', fun _ fl' h' => by simp at h', fun _ _ fl' h' => by simp at h'⟩

theorem psOk_after (g : Cfg) (fl : Flags) : PsOk g (afterEvent fl) := by
  unfold afterEvent
  split
  · next h =>
    refine ⟨fun _ i fl' => by simp, fun i fl' h' => by simp at h', fun _ fl' h' => ?_, fun _ _ fl' h' => ?_⟩
    · cases h'; exact h
    · cases h'; exact Or.inl h
  · exact ⟨fun _ i fl' => by simp, fun i fl' h' => by simp at h', fun _ fl' h' => by simp at h', fun _ _ fl' h' => by simp at h'⟩

theorem psOk_rd0 (g : Cfg) (fl : Flags) (ha : g.isAsync = false) (hi : fl.inn = true) : PsOk g (.rd 0 fl) :=
  ⟨fun h => by simp [ha] at h, fun i fl' h' => by cases h'; exact hi, fun h => by simp [ha] at h, fun _ _ fl' h' => by simp at h'⟩

theorem disarm_frame (g : Cfg) (k : K) :
    (disarm g k).reg = k.reg ∧ (disarm g k).rq = k.rq ∧ (disarm g k).dq = k.dq ∧ (disarm g k).qlen = k.qlen ∧
    (disarm g k).eof = k.eof ∧ (disarm g k).rerr = k.rerr := by
  unfold disarm; cases g.mode <;> simp [K.qlen]

theorem core_report (g : Cfg) (s s' : St) (inn out : Bool) (h : Core g s)
    (hs : report g s inn out = some s') : Core g s' := by
  unfold report at hs
  split at hs
  case isFalse => cases hs
  next hok =>
  obtain ⟨hps, hcl, hreg, hany, hin, hout, harm⟩ := reportOk_spec g s inn out hok
  cases hs
  obtain ⟨hk, hg, hp, hl, hh⟩ := h
  obtain ⟨d1, d2, d3, d4, d5, d6⟩ := disarm_frame g s.k
  have hfi : (flagsOf s inn out).inn = inn := rfl
  have hfe : (flagsOf s inn out).err = s.k.rerr := rfl
  -- the tail of an event that has no IN and is not empty carries a hang-up (EPOLLOUT alone only in ET mode)
  have hgate : ∀ t : St, t.task = s.task → t.re = s.re → t.closed = s.closed → t.overlap = s.overlap →
      g.isAsync = true → g.mode = .et →
      GateOk g (gate t).task (gate t).re (gate t).closed (gate t).overlap ∧
      ((gate t).task = .queued ∨ (∃ v, (gate t).task = .dec v) ∨ ∃ a h, (gate t).task = .rd a h ∧ (gate t).re ≥ 2) := by
    intro t ht hre hc ho ha hm
    have hal := hg.alive hm hcl
    rcases gate_cases t with ⟨h2, e⟩ | ⟨h1, e⟩ | ⟨h0, e⟩
    · rw [e, ht, hre, hc, ho]
      refine ⟨hg, ?_⟩
      have hne : s.task ≠ .none := fun hn => by have := hal.mp hn; omega
      cases htk : s.task with
      | none => exact absurd htk hne
      | queued => exact Or.inl rfl
      | dec v => exact Or.inr (Or.inl ⟨v, rfl⟩)
      | rd a h => exact Or.inr (Or.inr ⟨a, h, rfl, by omega⟩)
    · rw [e]; simp only [ht, hc, ho]
      have hne : s.task ≠ .none := fun hn => by have := hal.mp hn; omega
      refine ⟨⟨by omega, fun h => by simp [hm] at h, fun h => by simp [ha] at h, hg.noClosedAns, fun _ _ => ?_, hg.noOverlap⟩, ?_⟩
      · constructor
        · intro hn; exact absurd hn hne
        · intro h; omega
      · cases htk : s.task with
        | none => exact absurd htk hne
        | queued => exact Or.inl rfl
        | dec v => exact Or.inr (Or.inl ⟨v, rfl⟩)
        | rd a h => exact Or.inr (Or.inr ⟨a, h, rfl, by omega⟩)
    · rw [e]
      have hn : s.task = .none := hal.mpr (by omega)
      refine ⟨?_, Or.inl rfl⟩
      simp only [spawnTask, ht, hc, ho]
      refine ⟨by omega, fun h => by simp [hm] at h, fun h => by simp [ha] at h, by simp, fun _ _ => by simp, ?_⟩
      simp [hn, hg.noOverlap]
  -- the state handed to the gate / to the new task
  obtain ⟨u1, u2, u3, u4, u5, u6, u7, _⟩ := setHup_frame (setK s (disarm g s.k)) (flagsOf s inn out).hang
  have hbacked : (s.hup || (flagsOf s inn out).hang) = true → s.k.eof = true ∨ s.k.rerr = true := by
    intro h
    simp only [Bool.or_eq_true] at h
    rcases h with h | h
    · exact hh.backed h
    · simp only [Flags.hang, flagsOf, Bool.or_eq_true, Bool.and_eq_true] at h
      rcases h with ⟨_, h⟩ | h
      · exact Or.inl h
      · exact Or.inr h
  refine ⟨?_, ?_, ?_, ?_, ?_⟩
  · -- KindOk: reg, rq, dq are not touched
    rcases dispatch_cases g (setK s (disarm g s.k)) (flagsOf s inn out) with ⟨_, _, e⟩ | ⟨_, e⟩ | ⟨_, _, _, e⟩ | ⟨_, _, _, e⟩
    · rw [e]; simp only [setPs, setK, d1, d2, d3]; exact hk
    · rw [e]; simp only [setPs, setK, d1, d2, d3]; exact hk
    · rw [e]; simp only [setPs, spawnTask]; rw [u1]; simp only [setK, d1, d2, d3]; exact hk
    · rw [e]
      rcases gate_cases (setHup (setK s (disarm g s.k)) (flagsOf s inn out).hang) with ⟨_, e2⟩ | ⟨_, e2⟩ | ⟨_, e2⟩ <;> rw [e2] <;>
        simp only [setPs, spawnTask] <;> rw [u1] <;> simp only [setK, d1, d2, d3] <;> exact hk
  · -- GateOk
    rcases dispatch_cases g (setK s (disarm g s.k)) (flagsOf s inn out) with ⟨_, _, e⟩ | ⟨_, e⟩ | ⟨_, ha, hm, e⟩ | ⟨_, ha, hm, e⟩
    · rw [e]; exact hg
    · rw [e]; exact hg
    · rw [e]; simp only [setPs, spawnTask]; rw [u3, u2, u6, u5]
      have hn : s.task = .none := hl.osArmed hm (harm hm)
      refine ⟨hg.re2, hg.osRe, fun h => by simp [ha] at h, by simp, fun h => by simp [hm] at h, ?_⟩
      show (s.overlap || s.task != TS.none) = false
      simp [hn, hg.noOverlap]
    · rw [e]; simp only [setPs]; exact (hgate _ u5 u3 u2 u6 ha hm).1
  · -- PsOk
    rcases dispatch_cases g (setK s (disarm g s.k)) (flagsOf s inn out) with ⟨hi, ha, e⟩ | ⟨_, e⟩ | ⟨_, _, _, e⟩ | ⟨_, _, _, e⟩
    · rw [e]; exact psOk_rd0 g _ ha hi
    · rw [e]; exact psOk_after g _
    · rw [e]; exact psOk_idle g
    · rw [e]; exact psOk_idle g
  · -- LostOk
    cases hm : g.mode with
    | lt => exact ⟨fun h => by simp [hm] at h, fun h => by simp [hm] at h, fun h => by simp [hm] at h, fun h => by simp [hm] at h⟩
    | et =>
      refine ⟨fun h => by simp [hm] at h, fun h => by simp [hm] at h, fun h => by simp [hm] at h, fun _ hq hc => Or.inr ?_⟩
      have hq' : s.k.qlen > 0 := by
        rcases dispatch_cases g (setK s (disarm g s.k)) (flagsOf s inn out) with ⟨_, _, e⟩ | ⟨_, e⟩ | ⟨_, _, _, e⟩ | ⟨_, _, _, e⟩
        · rw [e] at hq; simpa only [setPs, setK, d4] using hq
        · rw [e] at hq; simpa only [setPs, setK, d4] using hq
        · rw [e] at hq; simp only [setPs, spawnTask] at hq; rw [u1] at hq; simpa only [setK, d4] using hq
        · rw [e] at hq
          rcases gate_cases (setHup (setK s (disarm g s.k)) (flagsOf s inn out).hang) with ⟨_, e2⟩ | ⟨_, e2⟩ | ⟨_, e2⟩ <;> rw [e2] at hq <;>
            simp only [setPs, spawnTask] at hq <;> rw [u1] at hq <;> simpa only [setK, d4] using hq
      have hinn : inn = true := hin (Or.inl hq')
      rcases dispatch_cases g (setK s (disarm g s.k)) (flagsOf s inn out) with ⟨_, _, e⟩ | ⟨hi, e⟩ | ⟨_, _, hm', e⟩ | ⟨_, ha, _, e⟩
      · rw [e]; exact Or.inl ⟨0, _, rfl⟩
      · rw [hfi, hinn] at hi; cases hi
      · rw [hm] at hm'; cases hm'
      · rw [e]
        simp only [setPs]
        rcases (hgate _ u5 u3 u2 u6 ha hm).2 with h | h | ⟨a, hx, h1, h2⟩
        · exact Or.inr (Or.inr (Or.inl h))
        · exact Or.inr (Or.inr (Or.inr (Or.inl h)))
        · exact Or.inr (Or.inr (Or.inr (Or.inr ⟨a, hx, h1, Or.inr (Or.inr (Or.inl h2))⟩)))
    | os =>
      have hdm : (disarm g s.k).armed = false := by unfold disarm; rw [hm]
      have hA : (dispatch g (setK s (disarm g s.k)) (flagsOf s inn out)).k.armed = false := by
        rcases dispatch_cases g (setK s (disarm g s.k)) (flagsOf s inn out) with ⟨_, _, e⟩ | ⟨_, e⟩ | ⟨_, _, _, e⟩ | ⟨_, _, hm', e⟩
        · rw [e]; simpa only [setPs, setK] using hdm
        · rw [e]; simpa only [setPs, setK] using hdm
        · rw [e]; simp only [setPs, spawnTask]; rw [u1]; simpa only [setK] using hdm
        · rw [hm] at hm'; cases hm'
      refine ⟨?_, fun _ _ _ => ?_, ?_, fun h => by simp [hm] at h⟩
      · intro _ h; rw [hA] at h; cases h
      rotate_left
      · intro _ h; rw [hA] at h; cases h
      rcases dispatch_cases g (setK s (disarm g s.k)) (flagsOf s inn out) with ⟨_, _, e⟩ | ⟨hi, e⟩ | ⟨_, _, _, e⟩ | ⟨_, _, hm', e⟩
      · rw [e]; exact Or.inl ⟨0, _, rfl⟩
      · rw [e]; simp only [setPs]
        rw [hfi] at hi
        have herr : s.k.rerr = true := by
          rcases hany with h | h | h
          · rw [hi] at h; cases h
          · have := hout h; rw [hm] at this; cases this
          · exact h
        have hh' : (flagsOf s inn out).hang = true := by simp [Flags.hang, hfe, herr]
        refine Or.inr (Or.inl ⟨flagsOf s inn out, ?_, Or.inl hh'⟩)
        simp [afterEvent, hh']
      · rw [e]; simp only [setPs, spawnTask]; exact Or.inr (Or.inr (Or.inl rfl))
      · rw [hm] at hm'; cases hm'
  · -- HupOk
    have hkeof : (setK s (disarm g s.k)).k.eof = s.k.eof := d5
    have hkrerr : (setK s (disarm g s.k)).k.rerr = s.k.rerr := d6
    rcases dispatch_cases g (setK s (disarm g s.k)) (flagsOf s inn out) with ⟨_, _, e⟩ | ⟨_, e⟩ | ⟨_, ha, hm, e⟩ | ⟨_, ha, hm, e⟩
    · rw [e]; simp only [setPs, setK, d5, d6]; exact hh
    · rw [e]; simp only [setPs, setK, d5, d6]; exact hh
    · rw [e]; simp only [setPs, spawnTask]; rw [u7, u1, u3, u2, hkeof, hkrerr]
      have k3 : ∀ a, TS.queued = .rd a true → (s.hup || (flagsOf s inn out).hang) = true := fun a h => by cases h
      exact ⟨fun h => (by simp [ha] at h), hbacked, k3, fun _ _ => Or.inl rfl⟩
    · rw [e]; simp only [setPs]
      obtain ⟨hg1, hg2⟩ := hgate _ u5 u3 u2 u6 ha hm
      generalize ht0 : setHup (setK s (disarm g s.k)) (flagsOf s inn out).hang = t0 at hg1 hg2 u1 u2 u3 u4 u5 u6 u7
      have gk : (gate t0).k = t0.k ∧ (gate t0).hup = t0.hup ∧ (gate t0).closed = t0.closed ∧
          ((gate t0).task = t0.task ∨ (gate t0).task = .queued) := by
        rcases gate_cases t0 with ⟨_, e2⟩ | ⟨_, e2⟩ | ⟨_, e2⟩ <;> rw [e2]
        · exact ⟨rfl, rfl, rfl, Or.inl rfl⟩
        · exact ⟨rfl, rfl, rfl, Or.inl rfl⟩
        · exact ⟨rfl, rfl, rfl, Or.inr rfl⟩
      obtain ⟨g1, g2, g3, g4⟩ := gk
      rw [g1, g2, g3, u1, u7, u2, hkeof, hkrerr]
      refine ⟨fun h => (by simp [ha] at h), hbacked, fun a h => ?_, fun _ _ => ?_⟩
      · rcases g4 with g4 | g4
        · rw [g4, u5] at h
          have : s.hup = true := hh.flag a h
          show ((setK s (disarm g s.k)).hup || (flagsOf s inn out).hang) = true
          simp [setK, this]
        · rw [g4] at h; cases h
      · rcases hg2 with h | h | ⟨a, hx, h1, h2⟩
        · exact Or.inl h
        · exact Or.inr (Or.inl h)
        · exact Or.inr (Or.inr ⟨a, hx, h1, Or.inr h2⟩)

end ReadPath
