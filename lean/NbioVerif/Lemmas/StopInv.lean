import NbioVerif.Model.StopM
/-! Invariants of the Stop model (wait-group accounting, close-callback bookkeeping). -/
namespace StopM

/-- number of conns counted in `wgConn` (opened, close callback not finished) -/
def openCount : List C → Nat
  | [] => 0
  | x :: xs => (if counted x.ph then 1 else 0) + openCount xs

theorem openCount_append (l : List C) (x : C) :
    openCount (l ++ [x]) = openCount l + (if counted x.ph then 1 else 0) := by
  induction l with
  | nil => simp [openCount]
  | cons y ys ih => simp [openCount, ih]; omega

theorem openCount_set (l : List C) (c : Nat) (x x' : C) (h : l[c]? = some x) :
    openCount (l.set c x') + (if counted x.ph then 1 else 0) = openCount l + (if counted x'.ph then 1 else 0) := by
  induction l generalizing c with
  | nil => simp at h
  | cons y ys ih =>
    cases c with
    | zero =>
      simp at h; subst h
      simp [openCount]; omega
    | succ c =>
      simp at h
      have := ih c h
      simp [openCount]; omega

theorem get_setC {s : St} {c : Nat} {x : C} (h : s.conns[c]? = some x) (x' : C) (c' : Nat) :
    (s.setC c x').conns[c']? = if c' = c then some x' else s.conns[c']? := by
  have hlt : c < s.conns.length := by
    rcases List.getElem?_eq_some_iff.mp h with ⟨hl, _⟩; exact hl
  simp only [St.setC, List.getElem?_set]
  by_cases hc : c' = c
  · subst hc; simp [hlt]
  · have : ¬ c = c' := fun e => hc e.symm
    simp [hc, this]

@[simp] theorem setC_len (s : St) (c : Nat) (x : C) : (s.setC c x).conns.length = s.conns.length := by
  simp [St.setC]
@[simp] theorem setC_wg (s : St) (c : Nat) (x : C) : (s.setC c x).wg = s.wg := rfl
@[simp] theorem setC_q (s : St) (c : Nat) (x : C) : (s.setC c x).asyncQ = s.asyncQ := rfl
@[simp] theorem setC_sp (s : St) (c : Nat) (x : C) : (s.setC c x).sp = s.sp := rfl
@[simp] theorem setC_acc (s : St) (c : Nat) (x : C) : (s.setC c x).accepting = s.accepting := rfl
@[simp] theorem setC_toScan (s : St) (c : Nat) (x : C) : (s.setC c x).toScan = s.toScan := rfl
@[simp] theorem setC_snapIn (s : St) (c : Nat) (x : C) : (s.setC c x).snapIn = s.snapIn := rfl
@[simp] theorem setC_raced (s : St) (c : Nat) (x : C) : (s.setC c x).raced = s.raced := rfl
@[simp] theorem setC_conns (s : St) (c : Nat) (x : C) : (s.setC c x).conns = s.conns.set c x := rfl

/-- expected number of `closeCb c` entries in the Async queue -/
def cbDue (l : List C) (c : Nat) : Nat :=
  match l[c]? with
  | some x => if x.ph = .torn then 1 else 0
  | none => 0

/-- **accounting invariant** -/
structure Acct (s : St) : Prop where
  /-- `wgConn` = (1 until Stop's `Done`) + opened − finished close callbacks -/
  wg   : s.wg = (if pastSnapshot s.sp then 0 else 1) + (openCount s.conns : Int)
  /-- a close callback is queued exactly while its conn is torn down and not yet notified -/
  cbq  : ∀ c, s.asyncQ.count (.closeCb c) = cbDue s.conns c
  /-- the close callback ran once iff the conn is done, never twice -/
  cbs  : ∀ (c : Nat) (x : C), s.conns[c]? = some x → x.cbs = if x.ph = .done then 1 else 0

theorem cbDue_append (l : List C) (x : C) (c : Nat) (hx : x.ph ≠ .torn) : cbDue (l ++ [x]) c = cbDue l c := by
  unfold cbDue
  by_cases h : c < l.length
  · simp [List.getElem?_append_left h]
  · have hge : l.length ≤ c := Nat.le_of_not_lt h
    rw [List.getElem?_append_right hge]
    have : l[c]? = none := List.getElem?_eq_none hge
    rw [this]
    by_cases h0 : c - l.length = 0
    · simp [h0, hx]
    · have : ([x] : List C)[c - l.length]? = none := by
        apply List.getElem?_eq_none; simp; omega
      simp [this]

theorem cbDue_set {l : List C} {c : Nat} {x : C} (h : l[c]? = some x) (x' : C) (c' : Nat) :
    cbDue (l.set c x') c' = if c' = c then (if x'.ph = .torn then 1 else 0) else cbDue l c' := by
  have hlt : c < l.length := by
    rcases List.getElem?_eq_some_iff.mp h with ⟨hl, _⟩; exact hl
  unfold cbDue
  by_cases hc : c' = c
  · subst hc; simp [List.getElem?_set, hlt]
  · have : ¬ c = c' := fun e => hc e.symm
    simp [List.getElem?_set, hc, this]

theorem acc_init : Acct init := by
  refine ⟨by simp [init, pastSnapshot, openCount], ?_, ?_⟩
  · intro c; simp [init, cbDue]
  · intro c x h; simp [init] at h

def tornBit (p : Ph) : Nat := if p = .torn then 1 else 0
def cntBit (p : Ph) : Nat := if counted p then 1 else 0

/-- general update lemma: conn `c` goes from `x` to `x'`, the counter moves by `d`, the queue becomes `q` -/
theorem acct_upd {s s' : St} (h : Acct s) {c : Nat} {x : C} (hx : s.conns[c]? = some x) (x' : C) (d : Int)
    (hconns : s'.conns = s.conns.set c x') (hwg : s'.wg = s.wg + d) (hsp : pastSnapshot s'.sp = pastSnapshot s.sp)
    (hd : d + (cntBit x.ph : Int) = (cntBit x'.ph : Int))
    (hq : ∀ c', s'.asyncQ.count (.closeCb c') + (if c' = c then tornBit x.ph else 0)
                = s.asyncQ.count (.closeCb c') + (if c' = c then tornBit x'.ph else 0))
    (hcbs : x'.cbs = if x'.ph = .done then 1 else 0) :
    Acct s' := by
  obtain ⟨h1, h2, h3⟩ := h
  refine ⟨?_, ?_, ?_⟩
  · have := openCount_set s.conns c x x' hx
    rw [hconns, hwg, hsp]
    simp only [cntBit] at hd
    generalize (if counted x.ph = true then 1 else 0 : Nat) = a at *
    generalize (if counted x'.ph = true then 1 else 0 : Nat) = b at *
    by_cases hp : pastSnapshot s.sp = true <;> simp [hp] at h1 ⊢ <;> omega
  · intro c'
    rw [hconns, cbDue_set hx]
    have := hq c'
    rw [h2 c'] at this
    split
    · rename_i hc; subst hc
      simp only [cbDue, hx, if_true, tornBit] at this ⊢
      omega
    · rename_i hc
      simp only [hc, if_false] at this
      omega
  · intro c' y hy
    rw [hconns] at hy
    have hg : (s.conns.set c x')[c']? = if c' = c then some x' else s.conns[c']? := by
      have := get_setC hx x' c'
      simpa using this
    rw [hg] at hy
    split at hy
    · cases hy; exact hcbs
    · exact h3 c' y hy

/-- the conns are untouched -/
theorem acct_same {s s' : St} (h : Acct s) (hconns : s'.conns = s.conns)
    (hwg : s'.wg - (if pastSnapshot s'.sp then 0 else 1) = s.wg - (if pastSnapshot s.sp then 0 else 1))
    (hq : ∀ c', s'.asyncQ.count (.closeCb c') = s.asyncQ.count (.closeCb c')) : Acct s' := by
  obtain ⟨h1, h2, h3⟩ := h
  refine ⟨?_, ?_, ?_⟩
  · rw [hconns]; omega
  · intro c'; rw [hconns, hq c']; exact h2 c'
  · intro c' y hy; rw [hconns] at hy; exact h3 c' y hy

/-- a fresh conn is appended -/
theorem acct_append {s s' : St} (h : Acct s) (x : C) (d : Int) (hconns : s'.conns = s.conns ++ [x])
    (hwg : s'.wg = s.wg + d) (hsp : pastSnapshot s'.sp = pastSnapshot s.sp) (hd : d = (cntBit x.ph : Int))
    (hq : s'.asyncQ = s.asyncQ) (ht : x.ph ≠ .torn) (hcbs : x.cbs = if x.ph = .done then 1 else 0) : Acct s' := by
  obtain ⟨h1, h2, h3⟩ := h
  refine ⟨?_, ?_, ?_⟩
  · rw [hconns, hwg, hsp, openCount_append, hd, h1]
    simp only [cntBit]
    omega
  · intro c'; rw [hconns, hq, cbDue_append _ _ _ ht]; exact h2 c'
  · intro c' y hy
    rw [hconns] at hy
    by_cases hlt : c' < s.conns.length
    · rw [List.getElem?_append_left hlt] at hy; exact h3 c' y hy
    · have hge : s.conns.length ≤ c' := Nat.le_of_not_lt hlt
      rw [List.getElem?_append_right hge] at hy
      by_cases h0 : c' - s.conns.length = 0
      · simp [h0] at hy; subst hy; exact hcbs
      · have : ([x] : List C)[c' - s.conns.length]? = none := by
          apply List.getElem?_eq_none; simp; omega
        rw [this] at hy; cases hy

theorem acct_step {s s' : St} {a : Act} (h : Acct s) (hs : step s a = some s') : Acct s' := by
  cases a with
  | new k =>
    cases k with
    | listener =>
      simp only [step, stepNew] at hs
      split at hs
      · cases hs
        exact acct_append h (fresh .accepted false) 0 rfl (by simp) rfl (by simp [cntBit, fresh, counted]) rfl
          (by simp [fresh]) (by simp [fresh])
      · cases hs
    | transfer =>
      simp only [step, stepNew] at hs; cases hs
      exact acct_append h (fresh .accepted false) 0 rfl (by simp) rfl (by simp [cntBit, fresh, counted]) rfl
        (by simp [fresh]) (by simp [fresh])
    | dial =>
      simp only [step, stepNew] at hs; cases hs
      exact acct_append h (fresh .live true) 1 rfl rfl rfl (by simp [cntBit, fresh, counted]) rfl
        (by simp [fresh]) (by simp [fresh])
  | «open» c =>
    simp only [step, stepOpen] at hs
    split at hs
    · rename_i x hx
      split at hs
      · rename_i hp; cases hs
        refine acct_upd h hx { x with ph := .opening } 1 rfl rfl rfl ?_ ?_ ?_
        · simp [cntBit, counted, hp]
        · intro c'; simp [tornBit, hp]
        · have := h.cbs c x hx; simp [hp] at this; simp [this]
      · cases hs
    · cases hs
  | store c =>
    simp only [step, stepStore] at hs
    split at hs
    · rename_i x hx
      split at hs
      · rename_i hp; cases hs
        refine acct_upd h hx { x with ph := .tabled, inTable := true } 0 rfl (by simp) rfl ?_ ?_ ?_
        · simp [cntBit, counted, hp]
        · intro c'; simp [tornBit, hp]
        · have := h.cbs c x hx; simp [hp] at this; simp [this]
      · cases hs
    · cases hs
  | register c ok =>
    simp only [step, stepRegister] at hs
    split at hs
    · rename_i x hx
      split at hs
      · rename_i hp; cases hs
        have hcb := h.cbs c x hx; simp [hp] at hcb
        cases ok
        · refine acct_upd h hx { x with ph := .closing, inTable := false } 0 (by simp) (by simp) rfl ?_ ?_ ?_
          · simp [cntBit, counted, hp]
          · intro c'; simp [tornBit, hp]
          · simp [hcb]
        · refine acct_upd h hx { x with ph := .live } 0 (by simp) (by simp) rfl ?_ ?_ ?_
          · simp [cntBit, counted, hp]
          · intro c'; simp [tornBit, hp]
          · simp [hcb]
      · cases hs
    · cases hs
  | flip c =>
    simp only [step, stepFlip] at hs
    split at hs
    · rename_i x hx
      split at hs
      · rename_i hp; cases hs
        have hcb := h.cbs c x hx
        have hph : x.ph = .tabled ∨ x.ph = .live := by simpa [isOpen] using hp
        refine acct_upd h hx { x with ph := .closing } 0 rfl (by simp) rfl ?_ ?_ ?_
        · rcases hph with hph | hph <;> simp [cntBit, counted, hph]
        · intro c'; rcases hph with hph | hph <;> simp [tornBit, hph]
        · rcases hph with hph | hph <;> simp [hph] at hcb <;> simp [hcb]
      · cases hs
    · cases hs
  | teardown c =>
    simp only [step, stepTeardown] at hs
    split at hs
    · rename_i x hx
      split at hs
      · rename_i hp; cases hs
        have hcb := h.cbs c x hx; simp [hp] at hcb
        refine acct_upd h hx { x with ph := .torn, inTable := false } 0 rfl (by simp) rfl ?_ ?_ ?_
        · simp [cntBit, counted, hp]
        · intro c'
          simp only [tornBit, hp, List.count_append]
          by_cases hc : c' = c
          · subst hc; simp
          · have : ¬ c = c' := fun e => hc e.symm
            simp [hc, this]
        · simp [hcb]
      · cases hs
    · cases hs
  | asyncRun =>
    simp only [step, stepAsync] at hs
    split at hs
    · cases hs
    · rename_i c q hq
      cases hs
      unfold runCloseConn
      have hcount : ∀ c', q.count (.closeCb c') = s.asyncQ.count (.closeCb c') := by
        intro c'; rw [hq]; simp
      split
      · rename_i x hx
        split
        · rename_i hp
          have hcb := h.cbs c x hx
          have hph : x.ph = .tabled ∨ x.ph = .live := by simpa [isOpen] using hp
          refine acct_upd h hx { x with ph := .torn, inTable := false } 0 rfl (by simp) rfl ?_ ?_ ?_
          · rcases hph with hph | hph <;> simp [cntBit, counted, hph]
          · intro c'
            simp only [List.count_append, hcount]
            by_cases hc : c' = c
            · subst hc; rcases hph with hph | hph <;> simp [tornBit, hph]
            · have : ¬ c = c' := fun e => hc e.symm
              simp [hc, this]
          · rcases hph with hph | hph <;> simp [hph] at hcb <;> simp [hcb]
        · exact acct_same h rfl rfl hcount
      · exact acct_same h rfl rfl hcount
    · rename_i c q hq
      cases hs
      unfold runCloseCb
      have hc1 : s.asyncQ.count (.closeCb c) = q.count (.closeCb c) + 1 := by rw [hq]; simp
      have hcount : ∀ c', c' ≠ c → q.count (.closeCb c') = s.asyncQ.count (.closeCb c') := by
        intro c' hne; rw [hq]
        have : ¬ c = c' := fun e => hne e.symm
        simp [List.count_cons, this]
      have hdue := h.cbq c
      split
      · rename_i x hx
        have hp : x.ph = .torn := by
          simp only [cbDue, hx] at hdue
          by_cases hp : x.ph = .torn
          · exact hp
          · simp [hp] at hdue; omega
        refine acct_upd h hx { x with ph := .done, cbs := x.cbs + 1 } (-1) rfl rfl rfl ?_ ?_ ?_
        · simp [cntBit, counted, hp]
        · intro c'
          by_cases hc : c' = c
          · subst hc; simp [tornBit, hp]; omega
          · simp [hc, hcount c' hc]
        · have := h.cbs c x hx; simp [hp] at this; simp [this]
      · rename_i hx
        simp only [cbDue, hx] at hdue
        omega
  | stopListeners =>
    simp only [step] at hs
    split at hs
    · rename_i hp; cases hs
      exact acct_same h rfl (by simp [pastSnapshot, hp]) (fun _ => rfl)
    · cases hs
  | snapshot =>
    simp only [step] at hs
    split at hs
    · rename_i hp; cases hs
      exact acct_same h rfl (by simp [pastSnapshot, hp]) (fun _ => rfl)
    · cases hs
  | scan c =>
    simp only [step, stepScan] at hs
    split at hs
    · split at hs
      · rename_i x hx
        split at hs
        · cases hs
        · cases hs
          have hcb := h.cbs c x hx
          refine acct_upd h hx { x with scanned := true } 0 rfl (by simp) rfl (by simp) ?_ hcb
          intro c'
          simp only
          split <;> simp [List.count_append]
      · cases hs
    · cases hs
  | scanEnd =>
    simp only [step] at hs
    split at hs
    · rename_i hp; cases hs
      exact acct_same h rfl (by simp [pastSnapshot, hp.1]) (fun _ => rfl)
    · cases hs
  | waitReturn =>
    simp only [step] at hs
    split at hs
    · rename_i hp; cases hs
      exact acct_same h rfl (by simp [pastSnapshot, hp.1]) (fun _ => rfl)
    · cases hs
  | onStop =>
    simp only [step] at hs
    split at hs
    · rename_i hp; cases hs
      exact acct_same h rfl (by simp [pastSnapshot, hp]) (fun _ => rfl)
    · cases hs
  | stopPollers =>
    simp only [step] at hs
    split at hs
    · rename_i hp; cases hs
      exact acct_same h rfl (by simp [pastSnapshot, hp]) (fun _ => rfl)
    · cases hs

theorem acct_run {s : St} (as : List Act) (h : Acct s) : Acct (run s as) := by
  induction as generalizing s with
  | nil => exact h
  | cons a as ih =>
    simp only [run]
    split
    · rename_i s' hs; exact ih (acct_step h hs)
    · exact ih h

end StopM
