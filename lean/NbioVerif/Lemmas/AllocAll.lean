import NbioVerif.Lemmas.AllocOps
/-! Every operation of the three allocators establishes `OpOK`; the aligned allocator's reslice
never goes beyond the capacity. -/
namespace Alloc

/-- facts about a live handle -/
theorem live_facts {g : Cfg} {s : St} (hi : Inv g s) {h : Nat} {x : Handle} (hx : s.lookup h = some x) :
    scratch h s x.rid ∧ x.len ≤ (s.region x.rid).cap ∧ (s.region x.rid).owner = .live h := by
  obtain ⟨h1, h2, h3⟩ := hi.live h x (by simp) hx
  exact ⟨⟨h1, .inr h2⟩, h3, h2⟩

theorem alloc_cap (s : St) (c : Nat) (i : Bytes) : ((s.alloc c i).1.region (s.alloc c i).2).cap = c := by
  rw [alloc_rid, region_alloc_new]

theorem take_length_le (b : Bytes) (n : Nat) : (b.take n).length ≤ n := by simp; omega

/-! ### MemPool -/

theorem mpGet_ok (g : Cfg) (h : Nat) (s s' : St) (size grow rid : Nat) (c : Choice) (hi : InvX g (some h) s)
    (hk : g.kind ≠ .aligned) (hg : mpGet g s size c grow = .ok (s', rid)) :
    InvX g (some h) s' ∧ Ext h s s' ∧ scratch h s' rid ∧ size ≤ (s'.region rid).cap ∧
      (∀ r, r < s.regions.length → (s.region r).owner = .live h → rid ≠ r) := by
  simp only [mpGet] at hg
  cases hpg : poolGet s 0 g.bufSize c with
  | error e => rw [hpg] at hg; cases hg
  | ok p =>
    obtain ⟨s1, rid1⟩ := p
    rw [hpg] at hg
    simp only at hg
    obtain ⟨h1, h2, h3, h4, _, _⟩ := poolGet_ok g h s s1 0 g.bufSize rid1 c hi (fun ha => absurd ha hk) hpg
    split at hg
    · rename_i hlt
      obtain ⟨g1, g2, g3, g4, g5⟩ := goAppend_ok g h s1 s' rid1 rid _ grow _ h1 h3 hk hg
      refine ⟨g1, h2.trans g2, g3, ?_, ?_⟩
      · simp [zeros] at g4; omega
      · intro r hr ho
        rcases g5 with g5 | g5
        · rw [g5]; exact h4 r hr ho
        · have := h2.mono; omega
    · rename_i hge
      obtain ⟨rfl, rfl⟩ := Prod.mk.inj (Except.ok.inj hg)
      exact ⟨h1, h2, h3, by omega, h4⟩

theorem mpMalloc_ok (g : Cfg) (h : Nat) (s s' : St) (size grow : Nat) (c : Choice) (y : Handle) (hi : Inv g s)
    (hk : g.kind ≠ .aligned) (hg : mpMalloc g s size c grow = .ok (s', y)) : OpOK g h s s' y ∧ y.len = size := by
  simp only [mpMalloc] at hg
  split at hg
  · obtain ⟨rfl, rfl⟩ := Prod.mk.inj (Except.ok.inj hg)
    obtain ⟨h1, h2, h3, _⟩ := alloc_ok g h s size [] (hi.exempt h) (fun ha => absurd ha hk)
    exact ⟨OpOK.of_ext h1 h2 h3 (Nat.le_of_eq (alloc_cap s size []).symm), rfl⟩
  · cases hmg : mpGet g s size c grow with
    | error e => rw [hmg] at hg; cases hg
    | ok p =>
      obtain ⟨s1, rid⟩ := p
      rw [hmg] at hg
      simp only at hg
      obtain ⟨rfl, rfl⟩ := Prod.mk.inj (Except.ok.inj hg)
      obtain ⟨h1, h2, h3, h4, _⟩ := mpGet_ok g h s s1 size grow rid c (hi.exempt h) hk hmg
      exact ⟨OpOK.of_ext h1 h2 h3 h4, rfl⟩

theorem mpFree_core (g : Cfg) (h : Nat) (s : St) (x : Handle) (tag : Nat) (hi : InvX g (some h) s)
    (hs : scratch h s x.rid) (hk : g.kind ≠ .aligned) :
    InvX g (some h) (mpFree g s x tag) ∧ (mpFree g s x tag).regions.length = s.regions.length ∧
      (mpFree g s x tag).live = s.live ∧ ∀ r, r ≠ x.rid → (mpFree g s x tag).region r = s.region r := by
  simp only [mpFree]
  split
  · exact poolPut_core g h s 0 tag x.rid hi hs (fun ha => absurd ha hk)
  · exact ⟨hi, rfl, rfl, fun _ _ => rfl⟩

theorem mpRealloc_ok (g : Cfg) (h : Nat) (s s' : St) (x y : Handle) (size grow tag : Nat) (c : Choice)
    (hi : Inv g s) (hx : s.lookup h = some x) (hk : g.kind ≠ .aligned)
    (hg : mpRealloc g s x size c grow tag = .ok (s', y)) : OpOK g h s s' y ∧ y.len = size := by
  obtain ⟨hxs, hxl, hxo⟩ := live_facts hi hx
  simp only [mpRealloc] at hg
  split at hg
  · rename_i hfit
    obtain ⟨rfl, rfl⟩ := Prod.mk.inj (Except.ok.inj hg)
    exact ⟨OpOK.of_ext (hi.exempt h) (Ext.refl h s) hxs hfit, rfl⟩
  · rename_i hnofit
    split at hg
    · cases hmg : mpGet g s size c grow with
      | error e => rw [hmg] at hg; cases hg
      | ok p =>
        obtain ⟨s1, rid⟩ := p
        rw [hmg] at hg
        simp only at hg
        obtain ⟨rfl, rfl⟩ := Prod.mk.inj (Except.ok.inj hg)
        refine ⟨?_, rfl⟩
        obtain ⟨h1, h2, h3, h4, h5⟩ := mpGet_ok g h s s1 size grow rid c (hi.exempt h) hk hmg
        have hne : rid ≠ x.rid := h5 x.rid hxs.1 hxo
        have hfit : 0 + ((s.region x.rid).bytes.take x.len).length ≤ (s1.region rid).cap := by
          have := take_length_le (s.region x.rid).bytes x.len; omega
        obtain ⟨w1, w2⟩ := write_ok g h s1 rid 0 _ h1 h3 hfit
        have ok : OpOK g h s (s1.write rid 0 ((s.region x.rid).bytes.take x.len)) ⟨rid, size⟩ :=
          OpOK.of_ext w1 (h2.trans w2) (w2.scr rid h3) (by show size ≤ _; rw [w2.caps rid h3.1]; exact h4)
        have hxs' := w2.scr x.rid (h2.scr x.rid hxs)
        simp only [mpFree]
        split
        · exact poolPut_ok g h s _ ⟨rid, size⟩ 0 tag x.rid ok hxs' (Ne.symm hne) (fun ha => absurd ha hk)
        · exact ok
    · cases hga : goAppend s x.rid (s.region x.rid).cap (zeros (size - (s.region x.rid).cap)) grow with
      | error e => rw [hga] at hg; cases hg
      | ok p =>
        obtain ⟨s1, rid⟩ := p
        rw [hga] at hg
        simp only at hg
        obtain ⟨rfl, rfl⟩ := Prod.mk.inj (Except.ok.inj hg)
        obtain ⟨g1, g2, g3, g4, _⟩ := goAppend_ok g h s s1 x.rid rid _ grow _ (hi.exempt h) hxs hk hga
        refine ⟨OpOK.of_ext g1 g2 g3 ?_, rfl⟩
        simp [zeros] at g4
        show size ≤ (s1.region rid).cap
        omega

theorem mpAppend_ok (g : Cfg) (h : Nat) (s s' : St) (x y : Handle) (more : Bytes) (grow : Nat)
    (hi : Inv g s) (hx : s.lookup h = some x) (hk : g.kind ≠ .aligned)
    (hg : mpAppend s x more grow = .ok (s', y)) : OpOK g h s s' y ∧ y.len = x.len + more.length := by
  obtain ⟨hxs, _, _⟩ := live_facts hi hx
  simp only [mpAppend] at hg
  cases hga : goAppend s x.rid x.len more grow with
  | error e => rw [hga] at hg; cases hg
  | ok p =>
    obtain ⟨s1, rid⟩ := p
    rw [hga] at hg
    simp only at hg
    obtain ⟨rfl, rfl⟩ := Prod.mk.inj (Except.ok.inj hg)
    obtain ⟨g1, g2, g3, g4, _⟩ := goAppend_ok g h s s1 x.rid rid _ grow _ (hi.exempt h) hxs hk hga
    exact ⟨OpOK.of_ext g1 g2 g3 g4, rfl⟩

/-! ### the size classes of the aligned allocator -/

theorem classOfAux_spec (size : Nat) : ∀ (fuel i : Nat), size ≤ classSize (i + fuel) →
    size ≤ classSize (classOfAux size fuel i) ∧ classOfAux size fuel i ≤ i + fuel := by
  intro fuel
  induction fuel with
  | zero => intro i h; simpa [classOfAux] using h
  | succ n ih =>
    intro i h
    simp only [classOfAux]
    split
    · rename_i hh; exact ⟨hh, by omega⟩
    · have := ih (i + 1) (by rw [show i + 1 + n = i + (n + 1) by omega]; exact h)
      exact ⟨this.1, by omega⟩

theorem classOf_spec (size : Nat) (h : size ≤ maxAligned) :
    size ≤ classSize (classOf size) ∧ classOf size < nClasses := by
  have := classOfAux_spec size (nClasses - 1) 0 (by
    have : classSize (0 + (nClasses - 1)) = maxAligned := by decide
    rw [this]; exact h)
  exact ⟨this.1, by have := this.2; simp [nClasses] at this ⊢; unfold classOf; simp [nClasses]; omega⟩

theorem classOf_classSize : ∀ i, i < nClasses → classOf (classSize i) = i := by decide

theorem classSize_poolable : ∀ i, i < nClasses → classSize i % minAligned = 0 ∧ classSize i ≤ maxAligned := by decide

/-! ### AlignedAllocator -/

theorem alMalloc_ok (g : Cfg) (h : Nat) (s s' : St) (size : Nat) (c : Choice) (y : Handle) (hi : InvX g (some h) s)
    (_hk : g.kind = .aligned) (hg : alMalloc s size c = .ok (s', y)) :
    InvX g (some h) s' ∧ Ext h s s' ∧ scratch h s' y.rid ∧ y.len ≤ (s'.region y.rid).cap ∧ y.len = size ∧
      (∀ r, r < s.regions.length → (s.region r).owner = .live h → y.rid ≠ r) := by
  simp only [alMalloc] at hg
  split at hg
  · rename_i hsz
    cases hpg : poolGet s (classOf size) (classSize (classOf size)) c with
    | error e => rw [hpg] at hg; cases hg
    | ok p =>
      obtain ⟨s1, rid⟩ := p
      rw [hpg] at hg
      simp only at hg
      obtain ⟨h1, h2, h3, h4, _, _⟩ := poolGet_ok g h s s1 (classOf size) _ rid c hi
        (fun _ => ⟨rfl, (classOf_spec size hsz).2⟩) hpg
      split at hg
      · rename_i hfit
        obtain ⟨rfl, rfl⟩ := Prod.mk.inj (Except.ok.inj hg)
        exact ⟨h1, h2, h3, hfit, rfl, h4⟩
      · cases hg
  · rename_i hsz
    obtain ⟨rfl, rfl⟩ := Prod.mk.inj (Except.ok.inj hg)
    obtain ⟨h1, h2, h3, _⟩ := alloc_ok g h s size [] hi (fun _ => .inl (.inl (by omega)))
    refine ⟨h1, h2, h3, Nat.le_of_eq (alloc_cap s size []).symm, rfl, ?_⟩
    intro r hr _; show s.regions.length ≠ r; omega

/-- the reslice `[:size]` of `Malloc` never exceeds the capacity of what the class pool hands out -/
theorem poolGet_no_panic (s : St) (cls newCap : Nat) (c : Choice) : poolGet s cls newCap c ≠ .error .panic := by
  cases c with
  | fresh => simp [poolGet]
  | reuse tag => simp only [poolGet]; split <;> simp

theorem alMalloc_no_panic (g : Cfg) (h : Nat) (s : St) (size : Nat) (c : Choice) (hi : InvX g (some h) s)
    (hk : g.kind = .aligned) : alMalloc s size c ≠ .error .panic := by
  intro hg
  simp only [alMalloc] at hg
  split at hg
  · rename_i hsz
    cases hpg : poolGet s (classOf size) (classSize (classOf size)) c with
    | error e =>
      rw [hpg] at hg
      simp only at hg
      have : e = .panic := by injection hg
      rw [this] at hpg
      exact poolGet_no_panic _ _ _ _ hpg
    | ok p =>
      obtain ⟨s1, rid⟩ := p
      rw [hpg] at hg
      simp only at hg
      obtain ⟨_, _, _, _, h5, _⟩ := poolGet_ok g h s s1 (classOf size) _ rid c hi
        (fun _ => ⟨rfl, (classOf_spec size hsz).2⟩) hpg
      split at hg
      · cases hg
      · rename_i hnf
        have := h5 hk
        have := (classOf_spec size hsz).1
        omega
  · cases hg

theorem alFree_core (g : Cfg) (h : Nat) (s : St) (x : Handle) (tag : Nat) (hi : InvX g (some h) s)
    (hs : scratch h s x.rid) (hk : g.kind = .aligned) :
    InvX g (some h) (alFree s x tag) ∧ (alFree s x tag).regions.length = s.regions.length ∧
      (alFree s x tag).live = s.live ∧ ∀ r, r ≠ x.rid → (alFree s x tag).region r = s.region r := by
  simp only [alFree]
  split
  · exact ⟨hi, rfl, rfl, fun _ _ => rfl⟩
  · rename_i hc
    refine poolPut_core g h s _ tag x.rid hi hs (fun _ => ?_)
    have hac := hi.acap hk x.rid hs.1
    rcases hac with (hbig | ⟨i, hi', hci⟩) | h0 | hmod
    · exfalso; apply hc; right; right; exact hbig
    · rw [hci, classOf_classSize i hi']
    · exfalso; apply hc; left; exact h0
    · exfalso; apply hc; right; left; exact hmod

theorem alFree_ok (g : Cfg) (h : Nat) (s0 s : St) (x y : Handle) (tag : Nat) (ok : OpOK g h s0 s y)
    (hs : scratch h s x.rid) (hne : x.rid ≠ y.rid) (hk : g.kind = .aligned) : OpOK g h s0 (alFree s x tag) y := by
  simp only [alFree]
  split
  · exact ok
  · rename_i hc
    refine poolPut_ok g h s0 s y _ tag x.rid ok hs hne (fun _ => ?_)
    have hac := ok.inv.acap hk x.rid hs.1
    rcases hac with (hbig | ⟨i, hi', hci⟩) | h0 | hmod
    · exfalso; apply hc; right; right; exact hbig
    · rw [hci, classOf_classSize i hi']
    · exfalso; apply hc; left; exact h0
    · exfalso; apply hc; right; left; exact hmod

theorem alRealloc_ok (g : Cfg) (h : Nat) (s s' : St) (x y : Handle) (size tag : Nat) (c : Choice)
    (hi : Inv g s) (hx : s.lookup h = some x) (hk : g.kind = .aligned)
    (hg : alRealloc s x size c tag = .ok (s', y)) : OpOK g h s s' y ∧ y.len = size := by
  obtain ⟨hxs, hxl, hxo⟩ := live_facts hi hx
  simp only [alRealloc] at hg
  split at hg
  · rename_i hfit
    obtain ⟨rfl, rfl⟩ := Prod.mk.inj (Except.ok.inj hg)
    exact ⟨OpOK.of_ext (hi.exempt h) (Ext.refl h s) hxs hfit, rfl⟩
  · rename_i hnofit
    cases hmg : alMalloc s size c with
    | error e => rw [hmg] at hg; cases hg
    | ok p =>
      obtain ⟨s1, y1⟩ := p
      rw [hmg] at hg
      simp only at hg
      obtain ⟨rfl, rfl⟩ := Prod.mk.inj (Except.ok.inj hg)
      obtain ⟨h1, h2, h3, h4, h5, h6⟩ := alMalloc_ok g h s s1 size c y1 (hi.exempt h) hk hmg
      have hne : y1.rid ≠ x.rid := h6 x.rid hxs.1 hxo
      have hfit : 0 + ((s.region x.rid).bytes.take x.len).length ≤ (s1.region y1.rid).cap := by
        have := take_length_le (s.region x.rid).bytes x.len; omega
      obtain ⟨w1, w2⟩ := write_ok g h s1 y1.rid 0 _ h1 h3 hfit
      have ok : OpOK g h s (s1.write y1.rid 0 ((s.region x.rid).bytes.take x.len)) y1 :=
        OpOK.of_ext w1 (h2.trans w2) (w2.scr y1.rid h3) (by rw [w2.caps y1.rid h3.1]; exact h4)
      exact ⟨alFree_ok g h s _ x y1 tag ok (w2.scr x.rid (h2.scr x.rid hxs)) (Ne.symm hne) hk, h5⟩

theorem alAppend_ok (g : Cfg) (h : Nat) (s s' : St) (x y : Handle) (more : Bytes) (tag : Nat) (c : Choice)
    (hi : Inv g s) (hx : s.lookup h = some x) (hk : g.kind = .aligned)
    (hg : alAppend s x more c tag = .ok (s', y)) : OpOK g h s s' y ∧ y.len = x.len + more.length := by
  obtain ⟨hxs, hxl, hxo⟩ := live_facts hi hx
  simp only [alAppend] at hg
  split at hg
  · rename_i hfit
    obtain ⟨rfl, rfl⟩ := Prod.mk.inj (Except.ok.inj hg)
    obtain ⟨w1, w2⟩ := write_ok g h s x.rid x.len more (hi.exempt h) hxs (by omega)
    exact ⟨OpOK.of_ext w1 w2 (w2.scr x.rid hxs) (by show x.len + more.length ≤ _; rw [w2.caps x.rid hxs.1]; omega), rfl⟩
  · rename_i hnofit
    cases hmg : alMalloc s (x.len + more.length) c with
    | error e => rw [hmg] at hg; cases hg
    | ok p =>
      obtain ⟨s1, y1⟩ := p
      rw [hmg] at hg
      simp only at hg
      obtain ⟨rfl, rfl⟩ := Prod.mk.inj (Except.ok.inj hg)
      obtain ⟨h1, h2, h3, h4, h5, h6⟩ := alMalloc_ok g h s s1 _ c y1 (hi.exempt h) hk hmg
      have hne : y1.rid ≠ x.rid := h6 x.rid hxs.1 hxo
      have htl := take_length_le (s.region x.rid).bytes x.len
      obtain ⟨w1, w2⟩ := write_ok g h s1 y1.rid 0 ((s.region x.rid).bytes.take x.len) h1 h3 (by omega)
      have h3' := w2.scr y1.rid h3
      have hcap' := w2.caps y1.rid h3.1
      obtain ⟨v1, v2⟩ := write_ok g h _ y1.rid x.len more w1 h3' (by rw [hcap']; omega)
      have ok : OpOK g h s ((s1.write y1.rid 0 ((s.region x.rid).bytes.take x.len)).write y1.rid x.len more) y1 :=
        OpOK.of_ext v1 ((h2.trans w2).trans v2) (v2.scr y1.rid h3')
          (by rw [v2.caps y1.rid h3'.1, hcap']; exact h4)
      exact ⟨alFree_ok g h s _ x y1 tag ok (v2.scr x.rid (w2.scr x.rid (h2.scr x.rid hxs))) (Ne.symm hne) hk, h5⟩

/-! ### stdAllocator -/

theorem sdRealloc_ok (g : Cfg) (h : Nat) (s : St) (x : Handle) (size : Nat) (hi : Inv g s)
    (hx : s.lookup h = some x) (hk : g.kind ≠ .aligned) :
    OpOK g h s (sdRealloc s x size).1 (sdRealloc s x size).2 ∧ (sdRealloc s x size).2.len = size := by
  obtain ⟨hxs, _, _⟩ := live_facts hi hx
  simp only [sdRealloc]
  split
  · rename_i hfit
    exact ⟨OpOK.of_ext (hi.exempt h) (Ext.refl h s) hxs hfit, rfl⟩
  · obtain ⟨h1, h2, h3, h4⟩ := alloc_ok g h s size ((s.region x.rid).bytes.take x.len) (hi.exempt h)
      (fun ha => absurd ha hk)
    exact ⟨OpOK.of_ext h1 h2 h3 (Nat.le_of_eq (alloc_cap s size _).symm), rfl⟩

/-! ### dispatch on the allocator kind -/

theorem doMalloc_ok (g : Cfg) (h : Nat) (s s' : St) (size grow : Nat) (c : Choice) (y : Handle) (hi : Inv g s)
    (hg : doMalloc g s size c grow = .ok (s', y)) : OpOK g h s s' y ∧ y.len = size := by
  unfold doMalloc at hg
  split at hg
  · rename_i hk; exact mpMalloc_ok g h s s' size grow c y hi (by rw [hk]; simp) hg
  · rename_i hk
    obtain ⟨h1, h2, h3, h4, h5, _⟩ := alMalloc_ok g h s s' size c y (hi.exempt h) hk hg
    exact ⟨OpOK.of_ext h1 h2 h3 h4, h5⟩
  · rename_i hk
    obtain ⟨rfl, rfl⟩ := Prod.mk.inj (Except.ok.inj hg)
    obtain ⟨h1, h2, h3, _⟩ := alloc_ok g h s size [] (hi.exempt h) (fun ha => by rw [hk] at ha; cases ha)
    exact ⟨OpOK.of_ext h1 h2 h3 (Nat.le_of_eq (alloc_cap s size []).symm), rfl⟩

theorem doAppend_ok (g : Cfg) (h : Nat) (s s' : St) (x y : Handle) (more : Bytes) (grow tag : Nat) (c : Choice)
    (hi : Inv g s) (hx : s.lookup h = some x) (hg : doAppend g s x more c grow tag = .ok (s', y)) :
    OpOK g h s s' y ∧ y.len = x.len + more.length := by
  unfold doAppend at hg
  split at hg
  · rename_i hk; exact mpAppend_ok g h s s' x y more grow hi hx (by rw [hk]; simp) hg
  · rename_i hk; exact mpAppend_ok g h s s' x y more grow hi hx (by rw [hk]; simp) hg
  · rename_i hk; exact alAppend_ok g h s s' x y more tag c hi hx hk hg

theorem doRealloc_ok (g : Cfg) (h : Nat) (s s' : St) (x y : Handle) (size grow tag : Nat) (c : Choice)
    (hi : Inv g s) (hx : s.lookup h = some x) (hg : doRealloc g s x size c grow tag = .ok (s', y)) :
    OpOK g h s s' y ∧ y.len = size := by
  unfold doRealloc at hg
  split at hg
  · rename_i hk; exact mpRealloc_ok g h s s' x y size grow tag c hi hx (by rw [hk]; simp) hg
  · rename_i hk; exact alRealloc_ok g h s s' x y size tag c hi hx hk hg
  · rename_i hk
    have e := Except.ok.inj hg
    have := sdRealloc_ok g h s x size hi hx (by rw [hk]; simp)
    rw [e] at this
    exact this

theorem doFree_core (g : Cfg) (h : Nat) (s : St) (x : Handle) (tag : Nat) (hi : Inv g s) (hx : s.lookup h = some x) :
    InvX g (some h) (doFree g s x tag) ∧ (doFree g s x tag).regions.length = s.regions.length ∧
      (doFree g s x tag).live = s.live ∧ ∀ r, r ≠ x.rid → (doFree g s x tag).region r = s.region r := by
  obtain ⟨hxs, _, _⟩ := live_facts hi hx
  unfold doFree
  split
  · rename_i hk; exact mpFree_core g h s x tag (hi.exempt h) hxs (by rw [hk]; simp)
  · rename_i hk; exact alFree_core g h s x tag (hi.exempt h) hxs hk
  · exact ⟨hi.exempt h, rfl, rfl, fun _ _ => rfl⟩

theorem goAppend_no_panic (s : St) (rid keep grow : Nat) (more : Bytes) : goAppend s rid keep more grow ≠ .error .panic := by
  simp only [goAppend]
  split
  · simp
  · split <;> simp

theorem mpGet_no_panic (g : Cfg) (s : St) (size grow : Nat) (c : Choice) : mpGet g s size c grow ≠ .error .panic := by
  simp only [mpGet]
  cases hpg : poolGet s 0 g.bufSize c with
  | error e =>
    simp only
    intro he
    have : e = .panic := by injection he
    rw [this] at hpg
    exact poolGet_no_panic _ _ _ _ hpg
  | ok p =>
    obtain ⟨s1, rid⟩ := p
    simp only
    split
    · exact goAppend_no_panic _ _ _ _ _
    · simp

theorem doMalloc_no_panic (g : Cfg) (s : St) (size grow : Nat) (c : Choice) (hi : Inv g s) :
    doMalloc g s size c grow ≠ .error .panic := by
  unfold doMalloc
  split
  · simp only [mpMalloc]
    split
    · simp
    · cases hmg : mpGet g s size c grow with
      | error e =>
        simp only
        intro he
        have : e = .panic := by injection he
        rw [this] at hmg
        exact mpGet_no_panic _ _ _ _ _ hmg
      | ok p => simp
  · rename_i hk; exact alMalloc_no_panic g 0 s size c (hi.exempt 0) hk
  · simp

end Alloc
