import NbioVerif.Model.WsHandshake
import NbioVerif.Generated.WsFacts
/-! Opening handshake: Dialer and Upgrader agree; MUSTs of RFC 6455 §4.2.1; regenerated constants -/
namespace WsH

/-! regenerated facts -/
theorem keyGUID_table : Ws.Gen.keyGUID = keyGUID := by decide

set_option maxRecDepth 20000 in
theorem tokenOctets_table : Ws.Gen.tokenOctets = (List.range 256).map (fun n => isTokenOctet (UInt8.ofNat n)) := by decide

/-! ### what the Dialer's request looks like to the Upgrader -/

theorem values_append (a b : Header) (n : Bytes) : values (a ++ b) n = values a n ++ values b n := by
  simp [values, List.filter_append]

theorem dial_values_core (d : DCfg) (key : Bytes) :
    values (dialRequest d key).header (s "Connection") = [s "Upgrade"] ∧
    values (dialRequest d key).header (s "Upgrade") = [s "websocket"] ∧
    values (dialRequest d key).header (s "Sec-Websocket-Version") = [s "13"] ∧
    get (dialRequest d key).header (s "Sec-Websocket-Key") = key ∧
    values (dialRequest d key).header (s "Sec-Websocket-Extensions") =
      (if d.enableCompression then [s "permessage-deflate; server_no_context_takeover; client_no_context_takeover"] else []) := by
  unfold dialRequest
  simp only [values_append, get]
  have hk (n : Bytes) (hn : n ≠ s "Host" ∧ n ≠ s "Upgrade" ∧ n ≠ s "Connection" ∧ n ≠ s "Sec-Websocket-Key" ∧ n ≠ s "Sec-Websocket-Version") : True := trivial
  have e1 : ∀ (n : Bytes) (v : Bytes) (c : Bool) (m : Bytes), m ≠ n →
      values (if c then [(m, v)] else []) n = [] := by
    intro n v c m hm; cases c <;> simp [values, hm]
  have sp : ∀ n, n ≠ s "Sec-Websocket-Protocol" →
      values (if d.subprotocols.isEmpty = true then [] else [(s "Sec-Websocket-Protocol", (d.subprotocols.intersperse (s ", ")).flatten)]) n = [] := by
    intro n hn
    split <;> simp [values, Ne.symm hn]
  refine ⟨?_, ?_, ?_, ?_, ?_⟩
  · rw [sp _ (by decide), e1 _ _ _ _ (by decide)]; simp (config := { decide := true }) [values, List.filter_cons]
  · rw [sp _ (by decide), e1 _ _ _ _ (by decide)]; simp (config := { decide := true }) [values, List.filter_cons]
  · rw [sp _ (by decide), e1 _ _ _ _ (by decide)]; simp (config := { decide := true }) [values, List.filter_cons]
  · rw [sp _ (by decide), e1 _ _ _ _ (by decide)]; simp (config := { decide := true }) [values, List.filter_cons]
  · rw [sp _ (by decide)]
    cases d.enableCompression <;> simp (config := { decide := true }) [values, List.filter_cons]

/-! ### the Upgrader's decision on the Dialer's request -/

theorem commCheck_dial (u : UCfg) (d : DCfg) (key : Bytes) (hkey : key.isEmpty = false) (ho : u.originOk = true)
    (hx : values u.respHeader (s "Sec-Websocket-Extensions") = []) :
    commCheck u (dialRequest d key) =
      .ok { key, subprotocol := selectSubprotocol u (dialRequest d key), compress := u.enableCompression && d.enableCompression } := by
  obtain ⟨h1, h2, h3, h4, h5⟩ := dial_values_core d key
  have c1 : headerContains (dialRequest d key).header (s "Connection") (s "upgrade") = true := by
    unfold headerContains; rw [h1]; decide
  have c2 : headerContains (dialRequest d key).header (s "Upgrade") (s "websocket") = true := by
    unfold headerContains; rw [h2]; decide
  have c3 : headerContains (dialRequest d key).header (s "Sec-Websocket-Version") (s "13") = true := by
    unfold headerContains; rw [h3]; decide
  have c4 : ((dialRequest d key).method != s "GET") = false := by simp [dialRequest]
  have c5 : (parseExtensions (dialRequest d key).header).any (fun e => e.name == s "permessage-deflate") = d.enableCompression := by
    unfold parseExtensions; rw [h5]
    cases d.enableCompression <;> decide
  unfold commCheck
  simp only [c1, c2, c3, c4, hx, ho, h4, hkey, c5, Bool.not_true, Bool.false_eq_true, if_false, List.length_nil, Nat.lt_irrefl, gt_iff_lt]

/-! ### the Dialer's verdict on the Upgrader's response -/

theorem canon_values_append (a b : Header) (n : Bytes) : values (canonHeader (a ++ b)) n = values (canonHeader a) n ++ values (canonHeader b) n := by
  simp [canonHeader, values, List.filter_append]

theorem any_append_left {α : Type} (p : α → Bool) (a b : List α) (h : a.any p = true) : (a ++ b).any p = true := by
  simp [List.any_append, h]

/-- no extra response header is an extension header (after canonicalisation) -/
def NoExtHeader (u : UCfg) : Prop := ∀ kv ∈ u.respHeader, canonKey kv.1 true ≠ s "Sec-Websocket-Extensions"

theorem extras_no_ext (u : UCfg) (h : NoExtHeader u) :
    values (canonHeader ((u.respHeader.filter fun kv => kv.1 != s "Sec-Websocket-Protocol").map fun kv =>
      (kv.1, kv.2.map fun b => if b.toNat ≤ 31 then 32 else b))) (s "Sec-Websocket-Extensions") = [] := by
  unfold values canonHeader
  simp only [List.map_map, List.filter_map, List.map_eq_nil_iff, List.filter_eq_nil_iff, Function.comp, List.mem_filter]
  intro kv hkv
  have := h kv hkv.1
  simpa using this

theorem dialer_accepts (sha1 : Bytes → Bytes) (u : UCfg) (d : DCfg) (n : Negotiated) (hne : NoExtHeader u) :
    dialerAccepts sha1 d n.key 101 (canonHeader (responseHeader sha1 u n)) =
      .ok { enableCompression := d.enableCompression && n.compress, writeCompression := n.compress,
            subprotocol := get (canonHeader (responseHeader sha1 u n)) (s "Sec-Websocket-Protocol") } := by
  unfold responseHeader
  -- the fixed first three fields
  have b1 : canonHeader [(s "Upgrade", s "websocket"), (s "Connection", s "Upgrade"), (s "Sec-WebSocket-Accept", acceptKey sha1 n.key)] =
      [(s "Upgrade", s "websocket"), (s "Connection", s "Upgrade"), (s "Sec-Websocket-Accept", acceptKey sha1 n.key)] := by
    simp only [canonHeader, List.map_cons, List.map_nil]
    rw [show canonKey (s "Upgrade") true = s "Upgrade" by decide, show canonKey (s "Connection") true = s "Connection" by decide,
      show canonKey (s "Sec-WebSocket-Accept") true = s "Sec-Websocket-Accept" by decide]
  have v1 : ∀ rest : Header, headerContains (canonHeader ([(s "Upgrade", s "websocket"), (s "Connection", s "Upgrade"),
      (s "Sec-WebSocket-Accept", acceptKey sha1 n.key)] ++ rest)) (s "Upgrade") (s "websocket") = true := by
    intro rest
    unfold headerContains
    rw [canon_values_append, b1]
    apply any_append_left
    simp (config := { decide := true }) [values, List.filter_cons]
  have v2 : ∀ rest : Header, headerContains (canonHeader ([(s "Upgrade", s "websocket"), (s "Connection", s "Upgrade"),
      (s "Sec-WebSocket-Accept", acceptKey sha1 n.key)] ++ rest)) (s "Connection") (s "upgrade") = true := by
    intro rest
    unfold headerContains
    rw [canon_values_append, b1]
    apply any_append_left
    simp (config := { decide := true }) [values, List.filter_cons]
  have v3 : ∀ rest : Header, get (canonHeader ([(s "Upgrade", s "websocket"), (s "Connection", s "Upgrade"),
      (s "Sec-WebSocket-Accept", acceptKey sha1 n.key)] ++ rest)) (s "Sec-Websocket-Accept") = acceptKey sha1 n.key := by
    intro rest
    unfold get
    rw [canon_values_append, b1]
    simp (config := { decide := true }) [values, List.filter_cons]
  -- the extension header
  have vext : parseExtensions (canonHeader ([(s "Upgrade", s "websocket"), (s "Connection", s "Upgrade"),
      (s "Sec-WebSocket-Accept", acceptKey sha1 n.key)] ++
      (if n.subprotocol.isEmpty then [] else [(s "Sec-WebSocket-Protocol", n.subprotocol)]) ++
      (if n.compress then [(s "Sec-WebSocket-Extensions", pmdResponse)] else []) ++
      ((u.respHeader.filter fun kv => kv.1 != s "Sec-Websocket-Protocol").map fun kv =>
        (kv.1, kv.2.map fun b => if b.toNat ≤ 31 then 32 else b)))) =
      (if n.compress then [{ name := s "permessage-deflate", params := [(s "server_no_context_takeover", []), (s "client_no_context_takeover", [])] }] else []) := by
    unfold parseExtensions
    rw [canon_values_append, canon_values_append, canon_values_append, extras_no_ext u hne, b1]
    have e1 : values [(s "Upgrade", s "websocket"), (s "Connection", s "Upgrade"), (s "Sec-Websocket-Accept", acceptKey sha1 n.key)]
        (s "Sec-Websocket-Extensions") = [] := by simp (config := { decide := true }) [values, List.filter_cons]
    have e2 : values (canonHeader (if n.subprotocol.isEmpty = true then [] else [(s "Sec-WebSocket-Protocol", n.subprotocol)]))
        (s "Sec-Websocket-Extensions") = [] := by
      split
      · rfl
      · simp only [canonHeader, List.map_cons, List.map_nil, show canonKey (s "Sec-WebSocket-Protocol") true = s "Sec-Websocket-Protocol" by decide]
        simp (config := { decide := true }) [values, List.filter_cons]
    rw [e1, e2]
    cases n.compress with
    | false => simp [canonHeader, values]
    | true =>
      simp only [if_true, canonHeader, List.map_cons, List.map_nil, show canonKey (s "Sec-WebSocket-Extensions") true = s "Sec-Websocket-Extensions" by decide]
      decide
  unfold dialerAccepts
  simp only [List.append_assoc] at v1 v2 v3 vext ⊢
  rw [v1, v2, v3, vext]
  simp only [bne_self_eq_false, Bool.not_true, Bool.or_self, Bool.false_eq_true, if_false]
  cases n.compress with
  | false => simp [dialExt]
  | true =>
    have hd : dialExt [{ name := s "permessage-deflate", params := [(s "server_no_context_takeover", []), (s "client_no_context_takeover", [])] }]
        = .ok true := by
      simp (config := { decide := true }) [dialExt, hasParam]
    simp only [if_true, hd, Bool.and_true]

end WsH
