import NbioVerif.Model.Deadline
/-! Invariant of the Deadline model M8 on the repaired tree (`flushClears = true`). -/
namespace Deadline

@[simp] theorem t_setT (s : St) (d d' : Dir) (x : T) :
    (s.setT d x).t d' = if d' = d then x else s.t d' := by
  cases d <;> cases d' <;> simp [St.setT, St.t]

@[simp] theorem setT_now (s : St) (d : Dir) (x : T) : (s.setT d x).now = s.now := by cases d <;> rfl
@[simp] theorem setT_closed (s : St) (d : Dir) (x : T) : (s.setT d x).closed = s.closed := by cases d <;> rfl
@[simp] theorem setT_cause (s : St) (d : Dir) (x : T) : (s.setT d x).cause = s.cause := by cases d <;> rfl
@[simp] theorem setT_closedBy (s : St) (d : Dir) (x : T) : (s.setT d x).closedBy = s.closedBy := by cases d <;> rfl
@[simp] theorem setT_pend (s : St) (d : Dir) (x : T) : (s.setT d x).pend = s.pend := by cases d <;> rfl
@[simp] theorem setT_backlog (s : St) (d : Dir) (x : T) : (s.setT d x).backlog = s.backlog := by cases d <;> rfl

@[simp] theorem withPend_t (s : St) (p : List Rec) (d : Dir) : (s.withPend p).t d = s.t d := by cases d <;> rfl
@[simp] theorem withNow_t (s : St) (n : Nat) (d : Dir) : (s.withNow n).t d = s.t d := by cases d <;> rfl
@[simp] theorem withBacklog_t (s : St) (b : Bool) (d : Dir) : (s.withBacklog b).t d = s.t d := by cases d <;> rfl
@[simp] theorem flip_t (s : St) (c : Cause) (b : Option Rec) (d : Dir) : (s.flip c b).t d = s.t d := by cases d <;> rfl
@[simp] theorem withPend_pend (s : St) (p : List Rec) : (s.withPend p).pend = p := rfl
@[simp] theorem withPend_now (s : St) (p : List Rec) : (s.withPend p).now = s.now := rfl
@[simp] theorem withPend_closed (s : St) (p : List Rec) : (s.withPend p).closed = s.closed := rfl
@[simp] theorem withPend_cause (s : St) (p : List Rec) : (s.withPend p).cause = s.cause := rfl
@[simp] theorem withPend_closedBy (s : St) (p : List Rec) : (s.withPend p).closedBy = s.closedBy := rfl
@[simp] theorem withPend_backlog (s : St) (p : List Rec) : (s.withPend p).backlog = s.backlog := rfl
@[simp] theorem withNow_pend (s : St) (n : Nat) : (s.withNow n).pend = s.pend := rfl
@[simp] theorem withNow_now (s : St) (n : Nat) : (s.withNow n).now = n := rfl
@[simp] theorem withNow_closed (s : St) (n : Nat) : (s.withNow n).closed = s.closed := rfl
@[simp] theorem withNow_cause (s : St) (n : Nat) : (s.withNow n).cause = s.cause := rfl
@[simp] theorem withNow_closedBy (s : St) (n : Nat) : (s.withNow n).closedBy = s.closedBy := rfl
@[simp] theorem withNow_backlog (s : St) (n : Nat) : (s.withNow n).backlog = s.backlog := rfl
@[simp] theorem withBacklog_pend (s : St) (b : Bool) : (s.withBacklog b).pend = s.pend := rfl
@[simp] theorem withBacklog_now (s : St) (b : Bool) : (s.withBacklog b).now = s.now := rfl
@[simp] theorem withBacklog_closed (s : St) (b : Bool) : (s.withBacklog b).closed = s.closed := rfl
@[simp] theorem withBacklog_cause (s : St) (b : Bool) : (s.withBacklog b).cause = s.cause := rfl
@[simp] theorem withBacklog_closedBy (s : St) (b : Bool) : (s.withBacklog b).closedBy = s.closedBy := rfl
@[simp] theorem withBacklog_backlog (s : St) (b : Bool) : (s.withBacklog b).backlog = b := rfl
@[simp] theorem flip_pend (s : St) (c : Cause) (b : Option Rec) : (s.flip c b).pend = s.pend := rfl
@[simp] theorem flip_now (s : St) (c : Cause) (b : Option Rec) : (s.flip c b).now = s.now := rfl
@[simp] theorem flip_closed (s : St) (c : Cause) (b : Option Rec) : (s.flip c b).closed = true := rfl
@[simp] theorem flip_cause (s : St) (c : Cause) (b : Option Rec) : (s.flip c b).cause = some c := rfl
@[simp] theorem flip_closedBy (s : St) (c : Cause) (b : Option Rec) : (s.flip c b).closedBy = b := rfl
@[simp] theorem flip_backlog (s : St) (c : Cause) (b : Option Rec) : (s.flip c b).backlog = s.backlog := rfl

/-- a started callback is legitimate: its timer was armed for the deadline then in force, and that deadline had
    been reached when the runtime fired it -/
structure RecOk (now : Nat) (r : Rec) : Prop where
  force : r.inForce = some r.when
  due   : r.when ≤ r.tFire
  past  : r.tFire ≤ now

theorem RecOk.mono {now now' : Nat} {r : Rec} (h : RecOk now r) (hn : now ≤ now') : RecOk now' r :=
  ⟨h.force, h.due, Nat.le_trans h.past hn⟩

structure Inv (s : St) : Prop where
  /-- an active runtime timer is armed for exactly the deadline in force -/
  armed   : s.closed = false → ∀ d w, (s.t d).a = some w → (s.t d).f = some w
  /-- a deadline in force is backed by an active timer or by an already started callback (no lost timer) -/
  inforce : s.closed = false → ∀ d w, (s.t d).f = some w →
              (s.t d).a = some w ∨ ∃ r ∈ s.pend, r.dir = d ∧ r.when = w
  /-- on an open conn every started callback is legitimate (a timer left running by an error close may still fire
      later; its callback finds the conn closed and does nothing) -/
  pend    : s.closed = false → ∀ r ∈ s.pend, RecOk s.now r
  by_     : ∀ r, s.closedBy = some r → RecOk s.now r ∧ s.cause = some (.timeout r.dir)
  cause_to : ∀ d, s.cause = some (.timeout d) → ∃ r, s.closedBy = some r ∧ r.dir = d
  closed_cause : s.closed = true ↔ s.cause.isSome = true
  closed_f : s.closed = true → ∀ d, (s.t d).f = none

theorem inv_init : Inv init := by
  constructor <;> simp [init, St.t] <;> intro d <;> cases d <;> simp

theorem inv_arm {s : St} (h : Inv s) (hc : s.closed = false) (d : Dir) (t : Nat) : Inv (arm s d t) := by
  obtain ⟨h1, h2, h3, h4, h5, h6, h7⟩ := h
  refine ⟨?_, ?_, ?_, ?_, ?_, ?_, ?_⟩
  · intro _ d' w
    simp only [arm, t_setT]
    split
    · intro hw; simpa using hw
    · exact h1 hc d' w
  · intro _ d' w
    simp only [arm, t_setT, setT_pend]
    split
    · intro hw; left; simpa using hw
    · exact h2 hc d' w
  · intro _; simpa [arm] using h3 hc
  · simpa [arm] using h4
  · simpa [arm] using h5
  · simpa [arm] using h6
  · intro hcl; simp [arm, hc] at hcl

theorem inv_stop {s : St} (h : Inv s) (d : Dir) : Inv (stop s d) := by
  obtain ⟨h1, h2, h3, h4, h5, h6, h7⟩ := h
  refine ⟨?_, ?_, ?_, ?_, ?_, ?_, ?_⟩
  · intro hc d' w
    simp only [stop, t_setT]
    split
    · simp
    · exact h1 (by simpa [stop] using hc) d' w
  · intro hc d' w
    simp only [stop, t_setT, setT_pend]
    split
    · simp
    · exact h2 (by simpa [stop] using hc) d' w
  · intro hc; simpa [stop] using h3 (by simpa [stop] using hc)
  · simpa [stop] using h4
  · simpa [stop] using h5
  · simpa [stop] using h6
  · intro hcl d'
    simp only [stop, t_setT]
    split
    · rfl
    · exact h7 (by simpa [stop] using hcl) d'

theorem inv_unforce_closed {s : St} (h : Inv s) (hc : s.closed = true) (d : Dir) : Inv (unforce s d) := by
  obtain ⟨h1, h2, h3, h4, h5, h6, h7⟩ := h
  refine ⟨?_, ?_, ?_, ?_, ?_, ?_, ?_⟩
  · intro hc'; simp [unforce, hc] at hc'
  · intro hc'; simp [unforce, hc] at hc'
  · intro hc'; simp [unforce, hc] at hc'
  · simpa [unforce] using h4
  · simpa [unforce] using h5
  · simpa [unforce] using h6
  · intro _ d'
    simp only [unforce, t_setT]
    split
    · rfl
    · exact h7 hc d'

/-- flipping `closed` with a cause that is not a timeout (user close, I/O error) before the timers are dealt with -/
theorem inv_flip {s : St} (_hc : s.closed = false) (c : Cause) (byRec : Option Rec)
    (hby : ∀ r, byRec = some r → RecOk s.now r ∧ c = .timeout r.dir)
    (hto : ∀ d, c = .timeout d → ∃ r, byRec = some r ∧ r.dir = d) :
    Inv (stop (stop (s.flip c byRec) .r) .w) := by
  refine ⟨?_, ?_, ?_, ?_, ?_, ?_, ?_⟩
  · intro hc'; simp [stop] at hc'
  · intro hc'; simp [stop] at hc'
  · intro hc'; simp [stop] at hc'
  · intro r hr
    simp only [stop, setT_closedBy, setT_now, setT_cause] at hr ⊢
    obtain ⟨a, b⟩ := hby r hr
    exact ⟨a, by rw [b]; rfl⟩
  · intro d hd
    simp only [stop, setT_closedBy, setT_cause] at hd ⊢
    exact hto d (by simpa using hd)
  · simp [stop]
  · intro _ d'
    cases d' <;> simp [stop, St.setT, St.t]

theorem inv_closeWith {s : St} (h : Inv s) (c : Cause) (byRec : Option Rec)
    (hby : ∀ r, byRec = some r → RecOk s.now r ∧ c = .timeout r.dir)
    (hto : ∀ d, c = .timeout d → ∃ r, byRec = some r ∧ r.dir = d) :
    Inv (closeWith s c byRec) := by
  unfold closeWith
  split
  · exact h
  · rename_i hc
    exact inv_flip (by simpa using hc) c byRec hby hto

theorem inv_errClose {s : St} (h : Inv s) (hc : s.closed = false) : Inv (errClose s) := by
  obtain ⟨h1, h2, h3, h4, h5, h6, h7⟩ := h
  have hcause : s.cause = none := by
    cases hq : s.cause with
    | none => rfl
    | some c => have := h6.mpr (by simp [hq]); simp [hc] at this
  have hby : s.closedBy = none := by
    cases hq : s.closedBy with
    | none => rfl
    | some r => have := (h4 r hq).2; simp [hcause] at this
  refine ⟨?_, ?_, ?_, ?_, ?_, ?_, ?_⟩
  · intro hc'; simp [errClose, unforce] at hc'
  · intro hc'; simp [errClose, unforce] at hc'
  · intro hc'; simp [errClose, unforce] at hc'
  · intro r hr; simp [errClose, unforce] at hr
  · intro d hd; simp [errClose, unforce] at hd
  · simp [errClose, unforce]
  · intro _ d
    cases d <;> simp [errClose, unforce, St.setT, St.t]

theorem inv_tick {s : St} (h : Inv s) (n : Nat) : Inv (s.withNow (s.now + n)) := by
  obtain ⟨h1, h2, h3, h4, h5, h6, h7⟩ := h
  refine ⟨h1, h2, ?_, ?_, h5, h6, h7⟩
  · intro hc r hr; exact (h3 hc r hr).mono (Nat.le_add_right _ _)
  · intro r hr; exact ⟨(h4 r hr).1.mono (Nat.le_add_right _ _), (h4 r hr).2⟩

theorem inv_fire {s : St} (h : Inv s) (d : Dir) (w : Nat) (ha : (s.t d).a = some w) (hw : w ≤ s.now) :
    Inv ((s.setT d { s.t d with a := none }).withPend
          (s.pend ++ [{ dir := d, when := w, tFire := s.now, inForce := (s.t d).f }])) := by
  obtain ⟨h1, h2, h3, h4, h5, h6, h7⟩ := h
  refine ⟨?_, ?_, ?_, ?_, ?_, ?_, ?_⟩
  · intro hc d' w'
    have hc' : s.closed = false := by simpa using hc
    simp only [withPend_t, t_setT]
    split
    · simp
    · exact h1 hc' d' w'
  · intro hc d' w'
    have hc' : s.closed = false := by simpa using hc
    simp only [withPend_t, t_setT, withPend_pend]
    split
    · rename_i hd
      subst hd
      intro hf
      right
      refine ⟨_, List.mem_append_right _ (List.mem_singleton.mpr rfl), rfl, ?_⟩
      have := h1 hc' d' w ha
      simp only at hf
      rw [this] at hf
      simpa using hf
    · intro hf
      rcases h2 hc' d' w' hf with ha' | ⟨r, hr, hrd, hrw⟩
      · left; exact ha'
      · right; exact ⟨r, List.mem_append_left _ hr, hrd, hrw⟩
  · intro hc r hr
    have hc' : s.closed = false := by simpa using hc
    simp only [withPend_pend, withPend_now, setT_now] at hr ⊢
    rcases List.mem_append.mp hr with hr | hr
    · exact h3 hc' r hr
    · have := List.mem_singleton.mp hr
      subst this
      exact ⟨by simpa using h1 hc' d w ha, hw, Nat.le_refl _⟩
  · intro r hr; simpa using h4 r (by simpa using hr)
  · intro d' hd; simpa using h5 d' (by simpa using hd)
  · simpa using h6
  · intro hc d'
    have hc' : s.closed = true := by simpa using hc
    simp only [withPend_t, t_setT]
    split
    · rename_i hd; subst hd; simpa using h7 hc' d'
    · exact h7 hc' d'

theorem inv_withBacklog {s : St} (h : Inv s) (b : Bool) : Inv (s.withBacklog b) := by
  obtain ⟨h1, h2, h3, h4, h5, h6, h7⟩ := h
  exact ⟨by simpa using h1, by simpa using h2, by simpa using h3, by simpa using h4, by simpa using h5,
         by simpa using h6, by simpa using h7⟩

theorem inv_withPend_closed {s : St} (h : Inv s) (hc : s.closed = true) (p : List Rec) : Inv (s.withPend p) := by
  obtain ⟨h1, h2, h3, h4, h5, h6, h7⟩ := h
  refine ⟨?_, ?_, ?_, by simpa using h4, by simpa using h5, by simpa using h6, by simpa using h7⟩
  · intro hc'; simp [hc] at hc'
  · intro hc'; simp [hc] at hc'
  · intro hc'; simp [hc] at hc'

theorem inv_cb {s : St} (h : Inv s) (i : Nat) (r : Rec) (hr : s.pend[i]? = some r) :
    Inv (closeWith (s.withPend (s.pend.eraseIdx i)) (.timeout r.dir) (some r)) := by
  unfold closeWith
  split
  · rename_i hc
    exact inv_withPend_closed h (by simpa using hc) _
  · rename_i hc
    have hc' : s.closed = false := by simpa using hc
    have hmem : r ∈ s.pend := List.mem_of_getElem? hr
    apply inv_flip (by simpa using hc')
    · intro r' hr'
      cases hr'
      exact ⟨by simpa using h.pend hc' r hmem, rfl⟩
    · intro d hd
      cases hd
      exact ⟨r, rfl, rfl⟩

theorem inv_step {s s' : St} {o : Op} (h : Inv s) (hs : step fixed s o = some s') : Inv s' := by
  cases o with
  | set d t =>
    simp only [step] at hs; cases hs
    split
    · exact h
    · rename_i hc; exact inv_arm h (by simpa using hc) d t
  | clear d =>
    simp only [step] at hs; cases hs
    split
    · exact h
    · exact inv_stop h d
  | setBoth t =>
    simp only [step] at hs; cases hs
    split
    · exact h
    · rename_i hc
      have hc' : s.closed = false := by simpa using hc
      exact inv_arm (inv_arm h hc' .r t) (by simpa [arm] using hc') .w t
  | clearBoth =>
    simp only [step] at hs; cases hs
    split
    · exact h
    · exact inv_stop (inv_stop h .r) .w
  | ka n =>
    simp only [step] at hs; cases hs
    split
    · exact h
    · rename_i hc; exact inv_arm h (by simpa using hc) .r _
  | wto n =>
    simp only [step] at hs; cases hs
    split
    · exact h
    · rename_i hc; exact inv_arm h (by simpa using hc) .w _
  | dial n =>
    simp only [step] at hs; cases hs
    split
    · exact h
    · rename_i hc; exact inv_arm h (by simpa using hc) .w _
  | connected =>
    simp only [step] at hs; cases hs
    split
    · exact h
    · exact inv_stop h .w
  | write k =>
    simp only [step] at hs; cases hs
    unfold stepWrite
    split
    · exact h
    · rename_i hc
      have hc' : s.closed = false := by simpa using hc
      split
      · cases k
        · exact h
        · exact h
        · exact inv_errClose h hc'
      · cases k
        · exact inv_stop h .w
        · exact inv_withBacklog h true
        · exact inv_errClose h hc'
  | flush k =>
    simp only [step] at hs; cases hs
    unfold stepFlush
    split
    · exact h
    · rename_i hc
      have hc' : s.closed = false := by simpa using hc
      split
      · exact h
      · cases k
        · simp only [fixed]
          exact inv_stop (inv_withBacklog h false) .w
        · exact h
        · exact inv_errClose h hc'
  | close =>
    simp only [step] at hs; cases hs
    apply inv_closeWith h
    · intro r hr; cases hr
    · intro d hd; cases hd
  | tick n =>
    simp only [step] at hs; cases hs
    exact inv_tick h n
  | fire d =>
    simp only [step, stepFire] at hs
    split at hs
    · rename_i w ha
      split at hs
      · rename_i hw; cases hs; exact inv_fire h d w ha hw
      · cases hs
    · cases hs
  | cb i =>
    simp only [step, stepCb] at hs
    split at hs
    · rename_i r hr; cases hs; exact inv_cb h i r hr
    · cases hs

theorem inv_run {s : St} (os : List Op) (h : Inv s) : Inv (run fixed s os) := by
  induction os generalizing s with
  | nil => exact h
  | cons o os ih =>
    simp only [run]
    split
    · rename_i s' hs; exact ih (inv_step h hs)
    · exact ih h

end Deadline
