import NbioVerif.Model.ExecQ
/-! The inductive invariant of the job-queue transition system (both instances). -/
namespace ExecQ

theorem serial_append (a : List Nat) (j : Nat) : serial (a ++ [j]) = serial a ++ [.s j, .e j] := by
  induction a with
  | nil => rfl
  | cons x xs ih => simp [serial, ih]

/-- the closure holds a job it has not entered yet -/
def holding (k : Kind) (x : Drainer) : Prop := x.ph = .ready ∨ (x.ph = .spawned ∧ k = .conn)
/-- the closure is about to execute the locked "take or reset" paragraph -/
def waiting (k : Kind) (x : Drainer) : Prop := x.ph = .finished ∨ (x.ph = .spawned ∧ k = .async)

/-- what is known while the single drainer `x` exists -/
structure DInv (k : Kind) (s : St) (x : Drainer) : Prop where
  ne   : s.list ≠ []
  le   : x.taken ≤ s.list.length
  hold : holding k x → ∃ p, x.taken = p + 1 ∧ s.list[p]? = some x.job ∧
            s.done ++ s.list.drop p = s.acc ∧ s.log = serial s.done
  runs : x.ph = .running → ∃ p, x.taken = p + 1 ∧ s.list[p]? = some x.job ∧
            s.done ++ s.list.drop p = s.acc ∧ s.log = serial s.done ++ [.s x.job]
  wait : waiting k x → s.done ++ s.list.drop x.taken = s.acc ∧ s.log = serial s.done

structure Inv (k : Kind) (s : St) : Prop where
  noCrash : s.crash = false
  shape : (s.drs = [] ∧ s.list = [] ∧ s.done = s.acc ∧ s.log = serial s.done) ∨
          (∃ x, s.drs = [x] ∧ DInv k s x)

theorem inv_init (k : Kind) : Inv k init := ⟨rfl, .inl ⟨rfl, rfl, rfl, rfl⟩⟩

theorem ph_cases (k : Kind) (x : Drainer) : holding k x ∨ x.ph = .running ∨ waiting k x := by
  unfold holding waiting
  cases hp : x.ph <;> cases k <;> simp

/-- a drainer found by index in a one-element list is that element -/
theorem single_get {x y : Drainer} {l : List Drainer} {d : Nat} (h : l = [x]) (hd : l[d]? = some y) :
    d = 0 ∧ y = x := by
  subst h
  cases d with
  | zero => simp at hd; exact ⟨rfl, hd.symm⟩
  | succ n => simp at hd

theorem drop_succ_of_get {l : List Nat} {p j : Nat} (h : l[p]? = some j) : l.drop p = j :: l.drop (p + 1) := by
  have hp : p < l.length := (List.getElem?_eq_some_iff.mp h).1
  rw [List.drop_eq_getElem_cons hp]
  have := (List.getElem?_eq_some_iff.mp h).2
  rw [this]

/-- the locked take paragraph preserves the invariant -/
theorem inv_take (k : Kind) (big : Bool) (s : St) (x : Drainer) (hc : s.crash = false) (hdrs : s.drs = [x])
    (hi : DInv k s x) (hw : waiting k x) : Inv k (take k big s 0 x) := by
  obtain ⟨hacc, hlog⟩ := hi.wait hw
  unfold take
  rw [resetList_nil]
  split
  · rename_i hlen
    have hlen : s.list.length = x.taken := by simpa using hlen
    refine ⟨hc, .inl ⟨?_, rfl, ?_, hlog⟩⟩
    · simp [hdrs]
    · have : s.list.drop x.taken = [] := List.drop_eq_nil_of_le (by omega)
      simpa [this] using hacc
  · rename_i hlen
    have hlen : ¬ s.list.length = x.taken := by simpa using hlen
    have hlt : x.taken < s.list.length := by have := hi.le; omega
    split
    · rename_i j hj
      refine ⟨hc, .inr ⟨⟨x.taken + 1, j, .ready⟩, by simp [hdrs], ?_⟩⟩
      refine ⟨hi.ne, Nat.succ_le_of_lt hlt, ?_, ?_, ?_⟩
      · intro _; exact ⟨x.taken, rfl, hj, hacc, hlog⟩
      · intro h; cases h
      · intro h; rcases h with h | ⟨h, _⟩ <;> cases h
    · rename_i hj
      have := List.getElem?_eq_none_iff.mp hj
      omega

theorem inv_step (k : Kind) (s s' : St) (a : Act) (h : Inv k s) (hs : step k s a = some s') : Inv k s' := by
  obtain ⟨hc, hsh⟩ := h
  cases a with
  | submit j must =>
    simp only [step] at hs
    split at hs
    · cases hs; exact ⟨hc, hsh⟩
    · rcases hsh with ⟨hd, hl, hda, hlog⟩ | ⟨x, hd, hi⟩
      · -- idle: this submitter is the head and creates the drainer
        simp only [hl, List.isEmpty_nil, if_true] at hs
        cases hs
        cases k with
        | conn =>
          refine ⟨hc, .inr ⟨⟨1, j, .spawned⟩, by simp [hd], ?_⟩⟩
          refine ⟨by simp, by simp, ?_, ?_, ?_⟩
          · intro _; exact ⟨0, rfl, by simp, by simp [hda], hlog⟩
          · intro h; cases h
          · intro h; rcases h with h | ⟨_, h⟩ <;> cases h
        | async =>
          refine ⟨hc, .inr ⟨⟨0, j, .spawned⟩, by simp [hd], ?_⟩⟩
          refine ⟨by simp, by simp, ?_, ?_, ?_⟩
          · intro h; rcases h with h | ⟨_, h⟩ <;> cases h
          · intro h; cases h
          · intro _; exact ⟨by simp [hda], hlog⟩
      · -- busy: append only
        have hne : s.list.isEmpty = false := by
          cases hq : s.list with
          | nil => exact absurd hq hi.ne
          | cons _ _ => rfl
        simp only [hne] at hs
        cases hs
        refine ⟨hc, .inr ⟨x, hd, ?_⟩⟩
        refine ⟨by simp, by simp; have := hi.le; omega, ?_, ?_, ?_⟩
        · intro hh
          obtain ⟨p, ht, hg, ha, hlg⟩ := hi.hold hh
          have hp : p < s.list.length := (List.getElem?_eq_some_iff.mp hg).1
          refine ⟨p, ht, ?_, ?_, hlg⟩
          · simp [List.getElem?_append_left hp, hg]
          · simp only
            rw [List.drop_append_of_le_length (by omega), ← List.append_assoc, ha]
        · intro hh
          obtain ⟨p, ht, hg, ha, hlg⟩ := hi.runs hh
          have hp : p < s.list.length := (List.getElem?_eq_some_iff.mp hg).1
          refine ⟨p, ht, ?_, ?_, hlg⟩
          · simp [List.getElem?_append_left hp, hg]
          · simp only
            rw [List.drop_append_of_le_length (by omega), ← List.append_assoc, ha]
        · intro hh
          obtain ⟨ha, hlg⟩ := hi.wait hh
          refine ⟨?_, hlg⟩
          simp only
          rw [List.drop_append_of_le_length hi.le, ← List.append_assoc, ha]
  | spawn d big =>
    simp only [step] at hs
    split at hs
    · rename_i y hy
      rcases hsh with ⟨hd, _⟩ | ⟨x, hd, hi⟩
      · simp [hd] at hy
      · obtain ⟨rfl, rfl⟩ := single_get hd hy
        split at hs
        · rename_i hph
          have hph : y.ph = .spawned := by simpa using hph
          cases k with
          | conn =>
            simp only at hs
            cases hs
            refine ⟨hc, .inr ⟨{ y with ph := .ready }, by simp [hd], ?_⟩⟩
            refine ⟨hi.ne, hi.le, ?_, ?_, ?_⟩
            · intro _; exact hi.hold (.inr ⟨hph, rfl⟩)
            · intro h; cases h
            · intro h; rcases h with h | ⟨h, _⟩ <;> cases h
          | async =>
            simp only at hs
            cases hs
            exact inv_take _ big s y hc hd hi (.inr ⟨hph, rfl⟩)
        · cases hs
    · cases hs
  | start d =>
    simp only [step] at hs
    split at hs
    · rename_i y hy
      rcases hsh with ⟨hd, _⟩ | ⟨x, hd, hi⟩
      · simp [hd] at hy
      · obtain ⟨rfl, rfl⟩ := single_get hd hy
        split at hs
        · rename_i hph
          have hph : y.ph = .ready := by simpa using hph
          cases hs
          obtain ⟨p, ht, hg, ha, hlg⟩ := hi.hold (.inl hph)
          refine ⟨hc, .inr ⟨{ y with ph := .running }, by simp [hd], ?_⟩⟩
          refine ⟨hi.ne, hi.le, ?_, ?_, ?_⟩
          · intro h; rcases h with h | ⟨h, _⟩ <;> cases h
          · intro _; exact ⟨p, ht, hg, ha, by simp [hlg]⟩
          · intro h; rcases h with h | ⟨h, _⟩ <;> cases h
        · cases hs
    · cases hs
  | finish d p =>
    simp only [step] at hs
    split at hs
    · rename_i y hy
      rcases hsh with ⟨hd, _⟩ | ⟨x, hd, hi⟩
      · simp [hd] at hy
      · obtain ⟨rfl, rfl⟩ := single_get hd hy
        split at hs
        · rename_i hph
          have hph : y.ph = .running := by simpa using hph
          cases hs
          obtain ⟨q, ht, hg, ha, hlg⟩ := hi.runs hph
          refine ⟨hc, .inr ⟨{ y with ph := .finished }, by simp [hd], ?_⟩⟩
          refine ⟨hi.ne, hi.le, ?_, ?_, ?_⟩
          · intro h; rcases h with h | ⟨h, _⟩ <;> cases h
          · intro h; cases h
          · intro _
            refine ⟨?_, ?_⟩
            · simp only [ht]
              rw [← ha, drop_succ_of_get hg]; simp
            · simp only [hlg, serial_append]; simp
        · cases hs
    · cases hs
  | next d big =>
    simp only [step] at hs
    split at hs
    · rename_i y hy
      rcases hsh with ⟨hd, _⟩ | ⟨x, hd, hi⟩
      · simp [hd] at hy
      · obtain ⟨rfl, rfl⟩ := single_get hd hy
        split at hs
        · rename_i hph
          have hph : y.ph = .finished := by simpa using hph
          cases hs
          exact inv_take _ big s y hc hd hi (.inl hph)
        · cases hs
    · cases hs
  | close =>
    simp only [step] at hs
    split at hs
    · cases hs
      refine ⟨hc, ?_⟩
      rcases hsh with h | ⟨x, hd, hi⟩
      · exact .inl h
      · exact .inr ⟨x, hd, ⟨hi.ne, hi.le, hi.hold, hi.runs, hi.wait⟩⟩
    · cases hs

theorem inv_run (k : Kind) (as : List Act) : ∀ s, Inv k s → Inv k (run k s as) := by
  induction as with
  | nil => intro s h; exact h
  | cons a as ih =>
    intro s h
    simp only [run]
    split
    · rename_i s' hs; exact ih s' (inv_step k s s' a h hs)
    · exact ih s h

theorem inv_reach (k : Kind) (as : List Act) : Inv k (run k init as) := inv_run k as init (inv_init k)

end ExecQ
