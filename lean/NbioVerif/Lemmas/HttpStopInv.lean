import NbioVerif.Model.HttpStop
/-!
Per-connection invariants of the HTTP engine's bookkeeping (`Model/HttpStop.lean`), proved on the single-conn step
function `cstep` / `closeC` and lifted to every conn of every reachable engine state.
-/
namespace HttpStop

/-- holds on both trees -/
structure CInv (c : C) : Prop where
  map_ins   : c.inMap = true ↔ (c.ins = 1 ∧ c.dels = 0)
  ins_le    : c.ins ≤ 1
  dels_le   : c.dels ≤ c.ins
  acc       : c.ph = .accepted → c.ins = 0 ∧ c.wg = false ∧ c.job = .none ∧ c.opens = 0 ∧ c.closes = 0 ∧ c.closed = false
  ins_open  : c.ph = .inserted → c.opens = 0 ∧ c.closes = 0 ∧ c.job = .none ∧ c.wg = false
  refd      : c.ph = .refused → c.ins = 0 ∧ c.wg = false ∧ c.job = .none ∧ c.closes = 0
  opened    : c.ph = .opened → c.job = .none ∧ c.wg = false ∧ c.closes = 0
  done_out  : c.ph = .done → c.inMap = false
  ran_out   : c.job = .ran → c.inMap = false ∧ c.closes = 1
  notran    : c.kind = .nb → c.job ≠ .ran → c.closes = 0
  blk_cl    : c.kind = .blk → (c.closes = 1 ↔ c.ph = .done) ∧ c.closes ≤ 1
  opens_le  : c.opens ≤ 1
  cl_op     : c.closes ≤ c.opens
  blk_plain : c.kind = .blk → c.job = .none ∧ c.wg = false
  nb_tr     : c.kind = .nb → c.tr = false
  job_cl    : c.job ≠ .none → c.closed = true ∧ c.wg = false
  live_job  : c.kind = .nb → c.ph = .live → c.closed = true → c.job ≠ .none
  wg_ph     : c.wg = true → c.ph = .coreOpen ∨ c.ph = .live ∨ c.ph = .failed ∨ c.ph = .done
  core_nb   : c.ph = .coreOpen ∨ c.ph = .failed → c.kind = .nb
  reg_wg    : c.kind = .nb → c.ph = .coreOpen ∨ c.ph = .live → c.closed = false → c.wg = true
  later_op  : c.ph = .opened ∨ c.ph = .coreOpen ∨ c.ph = .live ∨ c.ph = .failed ∨ c.ph = .done → c.opens = 1

/-- holds on the repaired tree only: a `wgConn` count is held only by an open, registered conn -/
def FInv (c : C) : Prop := c.wg = true → c.kind = .nb ∧ c.closed = false ∧ (c.ph = .coreOpen ∨ c.ph = .live)

theorem cinv_new (k : Kind) : CInv { kind := k } := by
  constructor <;> simp

theorem cinv_late (k : Kind) (b : Bool) : CInv { kind := k, ph := .refused, closed := b } := by
  constructor <;> simp

theorem cinv_closeC (e : Env) {c : C} (h : CInv c) (hp : c.ph ≠ .accepted ∧ c.ph ≠ .refused) : CInv (closeC e c) := by
  obtain ⟨kind, ph, closed, inMap, wg, job, tr, opens, closes, ins, dels⟩ := c
  obtain ⟨h1, h2, h3, h4, h5, h6, h7, h8, h9, h10, h11, h12, h13, h14, h15, h16, h17, h18, h19, h20, h21⟩ := h
  simp only at *
  unfold closeC
  cases closed <;> cases kind <;> cases ph <;> cases e.execOn <;> simp_all <;> (try constructor) <;> simp_all <;> omega

theorem finv_closeC (e : Env) {c : C} (h : FInv c) : FInv (closeC e c) := by
  obtain ⟨kind, ph, closed, inMap, wg, job, tr, opens, closes, ins, dels⟩ := c
  unfold FInv at *
  unfold closeC
  cases closed <;> cases kind <;> cases ph <;> simp_all

theorem cinv_delKey {c : C} : (delKey c).inMap = false ∧ (delKey c).ph = c.ph ∧ (delKey c).kind = c.kind := by
  unfold delKey; split <;> simp_all

set_option maxHeartbeats 1000000 in
theorem cinv_cstep (g : Cfg) (e : Env) {c c' : C} {a : CAct} (h : CInv c) (hs : cstep g e c a = some c') : CInv c' := by
  cases a with
  | close =>
    simp only [cstep] at hs
    split at hs
    · cases hs
    · rename_i hn
      cases hs
      exact cinv_closeC e h ⟨by intro hh; simp [hh] at hn, by intro hh; simp [hh] at hn⟩
  | coreReg ok =>
    simp only [cstep] at hs
    split at hs
    · rename_i hph
      split at hs
      · cases hs
        obtain ⟨kind, ph, closed, inMap, wg, job, tr, opens, closes, ins, dels⟩ := c
        obtain ⟨h1, h2, h3, h4, h5, h6, h7, h8, h9, h10, h11, h12, h13, h14, h15, h16, h17, h18, h19, h20, h21⟩ := h
        rename_i hok
        simp only at *
        subst hph
        constructor <;> simp_all
      · cases hs
        have hc := cinv_closeC e h ⟨by simp [hph], by simp [hph]⟩
        have hnb := h.core_nb (Or.inl hph)
        have hphc : (closeC e c).ph = .coreOpen := by
          unfold closeC; split <;> (try split) <;> (try split) <;> simp [hph]
        have hk : (closeC e c).kind = c.kind := by unfold closeC; split <;> (try split) <;> (try split) <;> rfl
        have hcl : (closeC e c).closed = true := by
          unfold closeC; split
          · simp_all
          · split <;> (try split) <;> rfl
        obtain ⟨h1, h2, h3, h4, h5, h6, h7, h8, h9, h10, h11, h12, h13, h14, h15, h16, h17, h18, h19, h20, h21⟩ := hc
        have hcl0 : (closeC e c).closes = 0 ∨ (closeC e c).job = .ran := by
          cases hkk : c.kind with
          | nb => by_cases hj : (closeC e c).job = .ran
                  · right; exact hj
                  · left; exact h10 (by rw [hk]; exact hkk) hj
          | blk => left
                   have := (h11 (by rw [hk]; exact hkk))
                   have hne : (closeC e c).ph ≠ .done := by
                     unfold closeC; split <;> (try split) <;> (try split) <;> simp [hph]
                   have h1' := this.1
                   have h2' := this.2
                   by_cases hz : (closeC e c).closes = 1
                   · exact absurd (h1'.mp hz) hne
                   · omega
        constructor <;> simp_all
    · cases hs
  | insert =>
    simp only [cstep] at hs
    obtain ⟨kind, ph, closed, inMap, wg, job, tr, opens, closes, ins, dels⟩ := c
    obtain ⟨h1, h2, h3, h4, h5, h6, h7, h8, h9, h10, h11, h12, h13, h14, h15, h16, h17, h18, h19, h20, h21⟩ := h
    simp only at *
    split at hs
    · rename_i hph
      subst hph
      split at hs <;> cases hs <;> constructor <;> simp_all
    · cases hs
  | userOpen =>
    simp only [cstep] at hs
    obtain ⟨kind, ph, closed, inMap, wg, job, tr, opens, closes, ins, dels⟩ := c
    obtain ⟨h1, h2, h3, h4, h5, h6, h7, h8, h9, h10, h11, h12, h13, h14, h15, h16, h17, h18, h19, h20, h21⟩ := h
    simp only at *
    split at hs
    · rename_i hph
      subst hph
      cases hs; constructor <;> simp_all
    · cases hs
  | coreOpen =>
    simp only [cstep] at hs
    obtain ⟨kind, ph, closed, inMap, wg, job, tr, opens, closes, ins, dels⟩ := c
    obtain ⟨h1, h2, h3, h4, h5, h6, h7, h8, h9, h10, h11, h12, h13, h14, h15, h16, h17, h18, h19, h20, h21⟩ := h
    simp only at *
    split at hs
    · rename_i hph
      obtain ⟨hk, hph⟩ := hph
      subst hph; subst hk
      split at hs <;> cases hs <;> constructor <;> simp_all
    · cases hs
  | spawn =>
    simp only [cstep] at hs
    obtain ⟨kind, ph, closed, inMap, wg, job, tr, opens, closes, ins, dels⟩ := c
    obtain ⟨h1, h2, h3, h4, h5, h6, h7, h8, h9, h10, h11, h12, h13, h14, h15, h16, h17, h18, h19, h20, h21⟩ := h
    simp only at *
    split at hs
    · rename_i hph
      obtain ⟨hk, hph⟩ := hph
      subst hph; subst hk
      cases hs; constructor <;> simp_all
    · cases hs
  | transfer =>
    simp only [cstep] at hs
    obtain ⟨kind, ph, closed, inMap, wg, job, tr, opens, closes, ins, dels⟩ := c
    obtain ⟨h1, h2, h3, h4, h5, h6, h7, h8, h9, h10, h11, h12, h13, h14, h15, h16, h17, h18, h19, h20, h21⟩ := h
    simp only at *
    split at hs
    · rename_i hph
      obtain ⟨hk, hph, _⟩ := hph
      subst hph; subst hk
      cases hs; constructor <;> simp_all
    · cases hs
  | delFail =>
    simp only [cstep] at hs
    split at hs
    · rename_i hph
      cases hs
      obtain ⟨kind, ph, closed, inMap, wg, job, tr, opens, closes, ins, dels⟩ := c
      obtain ⟨h1, h2, h3, h4, h5, h6, h7, h8, h9, h10, h11, h12, h13, h14, h15, h16, h17, h18, h19, h20, h21⟩ := h
      simp only at *
      subst hph
      unfold delKey
      cases inMap <;> cases kind <;> simp_all <;> constructor <;> simp_all <;> (try omega)
    · cases hs
  | readerExit =>
    simp only [cstep] at hs
    split at hs
    · rename_i hph
      cases hs
      obtain ⟨kind, ph, closed, inMap, wg, job, tr, opens, closes, ins, dels⟩ := c
      obtain ⟨h1, h2, h3, h4, h5, h6, h7, h8, h9, h10, h11, h12, h13, h14, h15, h16, h17, h18, h19, h20, h21⟩ := h
      simp only at *
      obtain ⟨hk, hph, _⟩ := hph
      subst hph; subst hk
      unfold delKey
      cases inMap <;> simp_all <;> constructor <;> simp_all <;> (try omega)
    · cases hs
  | runJob =>
    simp only [cstep] at hs
    split at hs
    · rename_i hph
      cases hs
      obtain ⟨kind, ph, closed, inMap, wg, job, tr, opens, closes, ins, dels⟩ := c
      obtain ⟨h1, h2, h3, h4, h5, h6, h7, h8, h9, h10, h11, h12, h13, h14, h15, h16, h17, h18, h19, h20, h21⟩ := h
      simp only at *
      subst hph
      unfold delKey
      cases inMap <;> cases kind <;> simp_all <;> constructor <;> simp_all <;> (try omega) <;> (cases ph <;> simp_all)
    · cases hs

theorem finv_cstep (e : Env) {c c' : C} {a : CAct} (hc : CInv c) (h : FInv c) (hs : cstep fixed e c a = some c') : FInv c' := by
  cases a with
  | close =>
    simp only [cstep] at hs
    split at hs
    · cases hs
    · cases hs; exact finv_closeC e h
  | coreReg ok =>
    simp only [cstep] at hs
    split at hs
    · rename_i hph
      split at hs
      · cases hs
        rename_i hok
        intro hw
        have := h hw
        simp_all
      · cases hs
        have hf := finv_closeC e h
        intro hw
        have hw' : (closeC e c).wg = true := hw
        have h3 := hf hw'
        -- the conn was open: closeC released the count; or it was closed: FInv says it held none
        exfalso
        have hcl : (closeC e c).closed = true := by
          unfold closeC; split
          · simp_all
          · split <;> (try split) <;> rfl
        rw [h3.2.1] at hcl; cases hcl
    · cases hs
  | insert =>
    simp only [cstep] at hs
    have ha := hc.acc
    split at hs
    · rename_i hph
      have := ha hph
      split at hs <;> cases hs <;> intro hw <;> simp_all
    · cases hs
  | userOpen =>
    simp only [cstep] at hs
    have ha := hc.ins_open
    split at hs
    · rename_i hph
      have := ha hph
      cases hs; intro hw; simp_all
    · cases hs
  | coreOpen =>
    simp only [cstep] at hs
    have ha := hc.opened
    split at hs
    · rename_i hph
      have := ha hph.2
      split at hs
      · cases hs; intro hw; simp_all
      · rename_i hn
        cases hs; intro hw
        simp only [fixed, Bool.true_and] at hn
        simp_all
    · cases hs
  | spawn =>
    simp only [cstep] at hs
    have ha := hc.blk_plain
    split at hs
    · rename_i hph
      have := ha hph.1
      cases hs; intro hw; simp_all
    · cases hs
  | transfer =>
    simp only [cstep] at hs
    split at hs
    · cases hs; intro hw; exact h hw
    · cases hs
  | delFail =>
    simp only [cstep] at hs
    split at hs
    · rename_i hph
      cases hs
      intro hw
      have hw' : c.wg = true := by
        unfold delKey at hw; split at hw <;> exact hw
      have := h hw'
      simp_all
    · cases hs
  | readerExit =>
    simp only [cstep] at hs
    split at hs
    · rename_i hph
      cases hs
      intro hw
      have hw' : c.wg = true := by
        unfold delKey at hw; split at hw <;> exact hw
      have := hc.blk_plain hph.1
      simp_all
    · cases hs
  | runJob =>
    simp only [cstep] at hs
    split at hs
    · rename_i hph
      cases hs
      intro hw
      have hw' : c.wg = true := by
        unfold delKey at hw; split at hw <;> exact hw
      have := hc.job_cl (by rw [hph]; simp)
      simp_all
    · cases hs

/-! ### every exit path deletes the key -/

theorem settled_out {c : C} (h : CInv c) (hs : settled c = true) : c.inMap = false ∧ c.dels = c.ins := by
  have hm : c.inMap = false := by
    unfold settled at hs
    split at hs
    · rename_i hph
      cases hi : c.inMap with
      | false => rfl
      | true =>
        have := (h.map_ins.mp hi).1
        have := (h.refd hph).1
        omega
    · rename_i hph; exact h.done_out hph
    · rename_i hph
      simp only [decide_eq_true_eq] at hs
      exact (h.ran_out hs.2).1
    · cases hs
  refine ⟨hm, ?_⟩
  have h1 := h.map_ins
  have h2 := h.ins_le
  have h3 := h.dels_le
  rw [hm] at h1
  simp only [Bool.false_eq_true, false_iff, not_and] at h1
  omega

/-- a conn that is not settled can always take a step of its own, unless it is a registered/served conn whose socket
    is still open (it waits for its peer, its user or the sweep) or its close job was dropped by a stopped executor -/
theorem unsettled_can_step (g : Cfg) (e : Env) {c : C} (h : CInv c) (hs : settled c = false) (hj : c.job ≠ .dropped)
    (hw : c.closed = true ∨ c.ph ≠ .live) :
    ∃ a, a ≠ CAct.close ∧ (cstep g e c a).isSome = true := by
  obtain ⟨kind, ph, closed, inMap, wg, job, tr, opens, closes, ins, dels⟩ := c
  have hlive := h.live_job
  have hblk := h.blk_plain
  have href := h.refd
  simp only at *
  cases ph with
  | accepted => exact ⟨.insert, by simp, by simp [cstep]; split <;> simp⟩
  | inserted => exact ⟨.userOpen, by simp, by simp [cstep]⟩
  | opened =>
    cases kind with
    | nb => exact ⟨.coreOpen, by simp, by simp [cstep]; split <;> simp⟩
    | blk => exact ⟨.spawn, by simp, by simp [cstep]⟩
  | coreOpen => exact ⟨.coreReg true, by simp, by simp [cstep]; split <;> simp⟩
  | failed => exact ⟨.delFail, by simp, by simp [cstep]⟩
  | live =>
    have hc : closed = true := by simpa using hw
    cases kind with
    | blk => exact ⟨.readerExit, by simp, by simp [cstep, hc]⟩
    | nb =>
      cases job with
      | none => exact absurd rfl (hlive rfl rfl hc)
      | pending => exact ⟨.runJob, by simp, by simp [cstep]⟩
      | ran => simp [settled] at hs
      | dropped => exact absurd rfl hj
  | done =>
    cases job with
    | pending => exact ⟨.runJob, by simp, by simp [cstep]⟩
    | none => simp [settled] at hs
    | ran => simp [settled] at hs
    | dropped => exact absurd rfl hj
  | refused =>
    have := (href rfl).2.2.1
    subst this
    simp [settled] at hs

/-! ### a bound on the number of steps of one conn -/

def phRank : Ph → Nat
  | .accepted => 6 | .inserted => 5 | .opened => 4 | .coreOpen => 3 | .live => 2 | .failed => 1 | .done => 0 | .refused => 0

def jobRank : Job → Nat
  | .none => 2 | .pending => 1 | .ran => 0 | .dropped => 0

def rank (c : C) : Nat :=
  phRank c.ph + jobRank c.job + (if c.closed then 0 else 1) + (if c.tr then 0 else 1)

theorem rank_closeC_le (e : Env) (c : C) (hj : c.job ≠ .none → c.closed = true) :
    rank (closeC e c) ≤ rank c ∧ (c.closed = false → rank (closeC e c) < rank c) := by
  obtain ⟨kind, ph, closed, inMap, wg, job, tr, opens, closes, ins, dels⟩ := c
  unfold closeC rank
  cases closed <;> cases kind <;> cases ph <;> cases job <;> cases e.execOn <;> cases tr <;> simp_all [phRank, jobRank]

theorem rank_delKey (c : C) : (delKey c).ph = c.ph ∧ (delKey c).job = c.job ∧ (delKey c).closed = c.closed ∧ (delKey c).tr = c.tr := by
  unfold delKey; split <;> simp

/-- every step of a conn (its own steps and a close from anywhere) strictly decreases its rank: a conn takes at most
    11 steps, whatever the schedule -/
theorem cstep_rank_lt (g : Cfg) (e : Env) {c c' : C} {a : CAct} (h : CInv c) (hs : cstep g e c a = some c') :
    rank c' < rank c := by
  cases a with
  | close =>
    simp only [cstep] at hs
    split at hs
    · cases hs
    · rename_i hn
      cases hs
      exact (rank_closeC_le e c (fun hh => (h.job_cl hh).1)).2 (by cases hcc : c.closed <;> simp_all)
  | coreReg ok =>
    simp only [cstep] at hs
    split at hs
    · rename_i hph
      split at hs
      · cases hs; simp [rank, hph, phRank]
      · cases hs
        have h1 := (rank_closeC_le e c (fun hh => (h.job_cl hh).1)).1
        have hphc : (closeC e c).ph = .coreOpen := by
          unfold closeC; split <;> (try split) <;> (try split) <;> simp [hph]
        unfold rank at *
        simp only [hph, hphc, phRank] at *
        omega
    · cases hs
  | insert =>
    simp only [cstep] at hs
    split at hs
    · rename_i hph
      have := (h.acc hph).2.2.2.2.2
      split at hs <;> cases hs <;> simp [rank, hph, phRank, this] <;> omega
    · cases hs
  | userOpen =>
    simp only [cstep] at hs
    split at hs
    · rename_i hph; cases hs; simp [rank, hph, phRank]
    · cases hs
  | coreOpen =>
    simp only [cstep] at hs
    split at hs
    · rename_i hph
      split at hs <;> cases hs <;> simp [rank, hph.2, phRank]
    · cases hs
  | spawn =>
    simp only [cstep] at hs
    split at hs
    · rename_i hph; cases hs; simp [rank, hph.2, phRank]
    · cases hs
  | transfer =>
    simp only [cstep] at hs
    split at hs
    · rename_i hph
      cases hs
      have : c.tr = false := by simpa using hph.2.2.2
      simp [rank, this]
    · cases hs
  | delFail =>
    simp only [cstep] at hs
    split at hs
    · rename_i hph
      cases hs
      obtain ⟨_, h2, h3, h4⟩ := rank_delKey c
      simp [rank, hph, phRank, h2, h3, h4]
    · cases hs
  | readerExit =>
    simp only [cstep] at hs
    split at hs
    · rename_i hph
      cases hs
      obtain ⟨_, h2, h3, h4⟩ := rank_delKey c
      simp only [rank, hph.2.1, phRank, h2, h4]
      cases c.closed <;> cases c.tr <;> simp <;> omega
    · cases hs
  | runJob =>
    simp only [cstep] at hs
    split at hs
    · rename_i hph
      cases hs
      obtain ⟨h1, _, h3, h4⟩ := rank_delKey c
      simp [rank, hph, jobRank, h1, h3, h4]
    · cases hs

end HttpStop
