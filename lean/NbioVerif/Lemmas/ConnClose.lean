import NbioVerif.Lemmas.ConnData
/-! ConnFull: the two steps of a close (`flip` under the mutex, `teardown` by the flipper) — what every
step does to `closed`, `tearPending`, `fdClosed`, `onClose`, and that a closed connection is frozen. -/
namespace ConnFull

/-- the close-related fields -/
def K (s : S) := (s.closed, s.tearPending, s.fdClosed, s.onClose)

theorem K_enqueue (s : S) (b : Bytes) : K (enqueue s b) = K s := by
  unfold enqueue
  split
  · rfl
  · simp only
    split
    · rfl
    · rfl
    · split <;> rfl

theorem K_foldl (bs : List Bytes) : ∀ s : S, K (bs.foldl enqueue s) = K s := by
  induction bs with
  | nil => intro s; rfl
  | cons b bs ih => intro s; rw [List.foldl_cons, ih, K_enqueue]

theorem K_queueRest (bs : List Bytes) : ∀ (s : S) (n : Nat), K (queueRest s n bs) = K s := by
  induction bs with
  | nil => intro s n; rfl
  | cons b bs ih =>
    intro s n
    unfold queueRest
    split
    · rw [ih, K_enqueue]
    · split
      · rw [ih, K_enqueue]
      · rw [ih]

theorem K_kctl (s : S) (a o : Bool) : K (kctl s a o) = K s := by
  unfold kctl; split; rfl; split <;> rfl
theorem K_pModWrite (g : Cfg) (s : S) : K (pModWrite g s) = K s := by
  unfold pModWrite; split; rfl; exact K_kctl _ _ _
theorem K_pResetRead (g : Cfg) (s : S) : K (pResetRead g s) = K s := by
  unfold pResetRead; split; rfl; exact K_kctl _ _ _
theorem K_pAddRead (g : Cfg) (s : S) : K (pAddRead g s) = K s := by
  unfold pAddRead; split <;> exact K_kctl _ _ _
theorem K_pAddReadWrite (g : Cfg) (s : S) : K (pAddReadWrite g s) = K s := K_kctl _ _ _
theorem K_cModWrite (g : Cfg) (s : S) : K (cModWrite g s) = K s := by
  unfold cModWrite; split
  · rw [K_pModWrite]; rfl
  · rfl
theorem K_cResetRead (g : Cfg) (s : S) : K (cResetRead g s) = K s := by
  unfold cResetRead; split
  · rw [K_pResetRead]; rfl
  · rfl
theorem K_resetPollerEvent (g : Cfg) (s : S) : K (resetPollerEvent g s) = K s := by
  unfold resetPollerEvent; split
  · split
    · exact K_pResetRead _ _
    · exact K_pModWrite _ _
  · rfl

theorem K_writeInner (g : Cfg) (s : S) (b : Bytes) (k : KAns) : K (writeInner g s b k).1 = K s := by
  unfold writeInner
  simp only
  repeat' split
  all_goals first | rfl | exact K_enqueue _ _

theorem K_writevInner (g : Cfg) (s : S) (bs : List Bytes) (k : KAns) : K (writevInner g s bs k).1 = K s := by
  unfold writevInner
  simp only
  repeat' split
  all_goals first | rfl | exact K_foldl _ _ | exact K_queueRest _ _ _

theorem K_ghost (s : S) (e y : Bool) : K (ghost s e y) = K s := rfl

/-- what a step does to an OPEN connection, as far as closing is concerned -/
inductive Outcome (s t : S) : Prop
  /-- it stays open -/
  | same (h : K t = K s)
  /-- the flag is flipped, the teardown is left to the flipper (Write / Writev fatal error, closeWithError) -/
  | flipped (hc : t.closed = true) (htp : t.tearPending = true) (hfd : t.fdClosed = s.fdClosed)
      (hoc : t.onClose = s.onClose) (hwl : t.wl = s.wl ∨ True)
  /-- flag and teardown in one critical section (flush / Sendfile fatal error) -/
  | tornDown (hc : t.closed = true) (htp : t.tearPending = s.tearPending) (hfd : t.fdClosed = true)
      (hoc : t.onClose = s.onClose + 1) (hwl : t.wl = [])

theorem Outcome.of_K {s t u : S} (h : Outcome s t) (hk : K u = K t) (hwl : u.wl = t.wl) : Outcome s u := by
  simp only [K, Prod.mk.injEq] at hk
  obtain ⟨k1, k2, k3, k4⟩ := hk
  cases h with
  | same h => exact .same (by simp only [K, Prod.mk.injEq] at h ⊢; exact ⟨k1.trans h.1, k2.trans h.2.1, k3.trans h.2.2.1, k4.trans h.2.2.2⟩)
  | flipped hc htp hfd hoc _ => exact .flipped (k1.trans hc) (k2.trans htp) (k3.trans hfd) (k4.trans hoc) (Or.inr trivial)
  | tornDown hc htp hfd hoc hw => exact .tornDown (k1.trans hc) (k2.trans htp) (k3.trans hfd) (k4.trans hoc) (hwl.trans hw)

theorem outcome_finishCall (g : Cfg) (s : S) (r : S × Ret) (hk : K r.1 = K s) : Outcome s (finishCall g r).1 := by
  simp only [K, Prod.mk.injEq] at hk
  obtain ⟨k1, k2, k3, k4⟩ := hk
  unfold finishCall
  split
  · simp only
    split
    · exact .same (by simp only [K, Prod.mk.injEq]; exact ⟨k1, k2, k3, k4⟩)
    · exact .same (by rw [K_cModWrite]; simp only [K, Prod.mk.injEq]; exact ⟨k1, k2, k3, k4⟩)
  · exact .flipped rfl rfl k3 k4 (Or.inr trivial)

theorem outcome_sendfileLoop (g : Cfg) (ks : List KAns) :
    ∀ (s0 s : S) (off rem : Nat), K s = K s0 → Outcome s0 (sendfileLoop g s off rem ks).1 := by
  induction ks with
  | nil =>
    intro s0 s off rem hk
    unfold sendfileLoop
    split
    · exact .same hk
    · exact .same (by rw [K_cModWrite]; exact hk)
  | cons k ks ih =>
    intro s0 s off rem hk
    unfold sendfileLoop
    split
    · exact .same hk
    split
    · exact .same (by rw [K_cModWrite]; exact hk)
    · exact ih s0 s off rem hk
    · simp only [K, Prod.mk.injEq] at hk
      exact .tornDown rfl hk.2.1 rfl (by show s.onClose + 1 = _; rw [hk.2.2.2]) rfl
    · simp only
      split
      · exact .same hk
      · exact ih s0 _ _ _ (by exact hk)

theorem outcome_flushLoop (g : Cfg) : ∀ (fuel : Nat) (s0 s : S) (ks : List KAns), K s = K s0 →
    Outcome s0 (flushLoop g fuel s ks) := by
  intro fuel
  induction fuel with
  | zero => intro s0 s ks hk; unfold flushLoop; exact .same (by exact hk)
  | succ fuel ih =>
    intro s0 s ks hk
    have closeit : Outcome s0 (closeNow s) := by
      simp only [K, Prod.mk.injEq] at hk
      exact .tornDown rfl hk.2.1 rfl (by show s.onClose + 1 = _; rw [hk.2.2.2]) rfl
    unfold flushLoop
    split
    · exact .same (by rw [K_cResetRead]; exact hk)
    · simp only
      split
      · exact ih s0 s ks hk
      split
      · exact .same hk
      · exact .same hk
      · exact ih s0 s _ hk
      · exact closeit
      · split
        · exact ih s0 s _ hk
        split
        · exact ih s0 _ _ (by exact hk)
        · exact ih s0 _ _ (by exact hk)
    · split
      · exact ih s0 s ks hk
      split
      · exact .same hk
      · exact .same hk
      · exact ih s0 s _ hk
      · exact closeit
      · simp only
        split
        · exact ih s0 s _ hk
        split
        · exact ih s0 _ _ (by exact hk)
        · exact ih s0 _ _ (by exact hk)

theorem outcome_flush (g : Cfg) (s0 s : S) (ks : List KAns) (hk : K s = K s0) : Outcome s0 (flush g s ks) := by
  unfold flush
  split
  · exact .same hk
  split
  · exact .same (by rw [K_cResetRead]; exact hk)
  · exact outcome_flushLoop g _ s0 s ks hk

/-- every step except `teardown`, from an open connection -/
theorem outcome_step (g : Cfg) (s : S) (op : Op) (hop : op ≠ .teardown) : Outcome s (step g s op) := by
  cases op with
  | write b ks =>
    have h : Outcome s (write g s b (directAns ks)).1 := by
      unfold write
      split
      · exact .same rfl
      split
      · exact .same rfl
      · exact outcome_finishCall g s _ (K_writeInner g s b _)
    exact h.of_K rfl rfl
  | writev bs ks =>
    have h : Outcome s (writev g s bs (directAns ks)).1 := by
      unfold writev
      split
      · exact .same rfl
      split
      · exact .same rfl
      · split
        · exact outcome_finishCall g s _ (K_writeInner g s _ _)
        · exact outcome_finishCall g s _ (K_writevInner g s bs _)
    exact h.of_K rfl rfl
  | sendfile off len ks =>
    have h : Outcome s (sendfile g s off len ks).1 := by
      unfold sendfile
      simp only
      repeat' split
      all_goals first | exact .same rfl | exact outcome_sendfileLoop g ks s s off _ rfl
    exact h.of_K rfl rfl
  | register =>
    have h : Outcome s (register g s) := by
      unfold register
      split
      · exact .same rfl
      · split
        · exact .same (K_pAddRead g s)
        · exact .same (K_pAddReadWrite g s)
    exact h.of_K rfl rfl
  | registerDial =>
    have h : Outcome s (registerDial g s) := by
      unfold registerDial
      split
      · exact .same rfl
      · exact .same (by rw [K_pAddReadWrite]; rfl)
    exact h.of_K rfl rfl
  | registerDialNow =>
    have h : Outcome s (registerDialNow g s) := by
      unfold registerDialNow
      split
      · exact .same rfl
      · exact .same (by rw [K_pAddReadWrite]; rfl)
    exact h.of_K rfl rfl
  | evTake o0 i e ks =>
    refine Outcome.of_K (t := evTake g s (o0 && (g.mode != .et || s.edgeDue)) i e ks) ?_ rfl rfl
    generalize (o0 && (g.mode != .et || s.edgeDue)) = o
    simp only [evTake]
    split
    · exact .same rfl
    · have h1 : K (if (g.mode == Mode.oneshot) = true then { s with disarmed := true } else s) = K s := by
        split <;> rfl
      generalize (if (g.mode == Mode.oneshot) = true then { s with disarmed := true } else s) = s1 at h1 ⊢
      have h2 : Outcome s (if (deliverable s o i e).1 = true then
          (if s1.connecting = true then { s1 with connEv := true } else flush g s1 ks) else s1) := by
        split
        · split
          · exact .same (by exact h1)
          · exact outcome_flush g s s1 ks h1
        · exact .same h1
      exact h2.of_K rfl rfl
  | evEnd =>
    simp only [step, evEnd]
    split
    · exact .same rfl
    · have h0 : K (if s.connEv = true then cResetRead g { s with connecting := false, connEv := false } else s) = K s := by
        split
        · rw [K_cResetRead]; rfl
        · rfl
      generalize (if s.connEv = true then cResetRead g { s with connecting := false, connEv := false } else s) = s0 at h0 ⊢
      have h1 : K (if s0.rearm = true then resetPollerEvent g { s0 with rearm := false } else s0) = K s := by
        split
        · rw [K_resetPollerEvent]; exact h0
        · exact h0
      generalize (if s0.rearm = true then resetPollerEvent g { s0 with rearm := false } else s0) = t at h1 ⊢
      simp only [K, Prod.mk.injEq] at h1
      split
      · split
        · exact .same (by simp only [K, Prod.mk.injEq]; exact h1)
        · exact .flipped rfl rfl h1.2.2.1 h1.2.2.2 (Or.inr trivial)
      · exact .same (by simp only [K, Prod.mk.injEq]; exact h1)
  | evConnEnd =>
    simp only [step, evConnEnd]
    split
    · exact .same rfl
    · split
      · exact .same (by rw [K_cResetRead]; rfl)
      · exact .same rfl
  | evRearm =>
    simp only [step, evRearm]
    split
    · exact .same rfl
    · split
      · exact .same (by rw [K_resetPollerEvent]; rfl)
      · exact .same rfl
  | evErrClose =>
    simp only [step, evErrClose]
    split
    · exact .same rfl
    · split
      · split
        · exact .same rfl
        · exact .flipped rfl rfl rfl rfl (Or.inr trivial)
      · exact .same rfl
  | flipClosed =>
    simp only [step, flipClosed]
    split
    · exact .same rfl
    · exact .flipped rfl rfl rfl rfl (Or.inr trivial)
  | teardown => exact absurd rfl hop
  | setWriteDeadline z =>
    simp only [step, setWriteDeadline]
    split <;> exact .same rfl
  | timerExpire =>
    simp only [step, timerExpire]
    split <;> exact .same rfl
  | timerFire =>
    simp only [step, timerFire]
    split
    · exact .same rfl
    · split
      · exact .same rfl
      · exact .flipped rfl rfl rfl rfl (Or.inr trivial)

/-! ### after the flip -/

/-- what only `teardown` may change once the flag is set: the flag itself, the queue, the counter, the
    wire, the accepted stream, the epoll registration and its log, the close bookkeeping, the deadline -/
def Z (s : S) := (s.closed, s.wl, s.left, s.wire, s.accepted, s.ctl, s.onClose, s.tearPending, s.fdClosed,
  s.wTimer, s.isWAdded, s.reg, s.kOut, s.disarmed)

theorem cResetRead_closed (g : Cfg) (s : S) (hc : s.closed = true) : cResetRead g s = s := by
  simp [cResetRead, hc]
theorem resetPollerEvent_closed (g : Cfg) (s : S) (hc : s.closed = true) : resetPollerEvent g s = s := by
  simp [resetPollerEvent, hc]

/-- **frozen**: on a connection whose flag is set, every step except the flipper's `teardown` leaves the
    queue, the counter, the wire, the epoll registration, the close bookkeeping and the timer alone -/
theorem frozen_step (g : Cfg) (s : S) (op : Op) (hc : s.closed = true) (hop : op ≠ .teardown) :
    Z (step g s op) = Z s := by
  cases op with
  | write b ks =>
    simp only [step, writeOp, write]
    split
    · rfl
    · rfl
  | writev bs ks =>
    simp only [step, writevOp, writev]
    split
    · rfl
    · rfl
  | sendfile off len ks =>
    simp only [step, sendfileOp, sendfile]
    split
    · rfl
    · rfl
  | register => simp [step, registerOp, register, hc, ghost, Z]
  | registerDial => simp [step, registerDialOp, registerDial, hc, ghost, Z]
  | registerDialNow => simp [step, registerDialNowOp, registerDialNow, hc, ghost, Z]
  | evTake o i e ks => simp [step, evTakeOp, evTake, deliverable, hc, ghost, Z]
  | evEnd =>
    simp only [step, evEnd]
    split
    · rfl
    · have h0 : (if s.connEv = true then cResetRead g { s with connecting := false, connEv := false } else s).closed = true ∧
          Z (if s.connEv = true then cResetRead g { s with connecting := false, connEv := false } else s) = Z s := by
        split
        · rw [cResetRead_closed g _ (by exact hc)]; exact ⟨hc, rfl⟩
        · exact ⟨hc, rfl⟩
      obtain ⟨hc0, hz0⟩ := h0
      generalize (if s.connEv = true then cResetRead g { s with connecting := false, connEv := false } else s) = s0 at hc0 hz0 ⊢
      have h1 : (if s0.rearm = true then resetPollerEvent g { s0 with rearm := false } else s0).closed = true ∧
          Z (if s0.rearm = true then resetPollerEvent g { s0 with rearm := false } else s0) = Z s := by
        split
        · rw [resetPollerEvent_closed g _ (by exact hc0)]; exact ⟨hc0, hz0⟩
        · exact ⟨hc0, hz0⟩
      obtain ⟨hc1, hz1⟩ := h1
      generalize (if s0.rearm = true then resetPollerEvent g { s0 with rearm := false } else s0) = t at hc1 hz1 ⊢
      split
      · exact hz1
      · exact hz1
  | evConnEnd =>
    simp only [step, evConnEnd]
    split
    · rfl
    · split
      · rw [cResetRead_closed g _ (by exact hc)]; rfl
      · rfl
  | evRearm =>
    simp only [step, evRearm]
    split
    · rfl
    · split
      · rw [resetPollerEvent_closed g _ (by exact hc)]; rfl
      · rfl
  | evErrClose =>
    simp only [step, evErrClose]
    split
    · rfl
    · split
      · rfl
      · rfl
  | flipClosed => simp [step, flipClosed, hc]
  | teardown => exact absurd rfl hop
  | setWriteDeadline z => simp [step, setWriteDeadline, hc]
  | timerExpire =>
    simp only [step, timerExpire]
    split <;> rfl
  | timerFire =>
    simp only [step, timerFire]
    split
    · rfl
    · rfl

/-- the close bookkeeping is consistent -/
structure InvT (s : S) : Prop where
  /-- only a connection whose flag is set has a teardown pending -/
  tp : s.tearPending = true → s.closed = true
  /-- the descriptor is closed only by the teardown: flag set, queue released, nothing pending any more -/
  fcl : s.fdClosed = true → s.closed = true
  fwl : s.fdClosed = true → s.wl = []
  ftp : s.fdClosed = true → s.tearPending = false
  /-- exactly one close notification, issued by the teardown -/
  oc : s.onClose = if s.fdClosed then 1 else 0

theorem invT_init : InvT init := by constructor <;> simp [init]

theorem invT_step (g : Cfg) (s : S) (op : Op) (hi : InvT s) : InvT (step g s op) := by
  by_cases hop : op = .teardown
  · subst hop
    simp only [step, teardown]
    split
    · rename_i ht
      have hfd : s.fdClosed = false := by
        cases h : s.fdClosed
        · rfl
        · have := hi.ftp h; simp [ht] at this
      have hoc := hi.oc
      rw [hfd] at hoc
      constructor <;> simp [hi.tp ht]
      simpa using hoc
    · exact hi
  · cases hc : s.closed with
    | true =>
      have hz := frozen_step g s op hc hop
      simp only [Z, Prod.mk.injEq] at hz
      obtain ⟨z1, z2, _, _, _, _, z7, z8, z9, _⟩ := hz
      exact ⟨by rw [z8, z1]; exact hi.tp, by rw [z9, z1]; exact hi.fcl, by rw [z9, z2]; exact hi.fwl,
        by rw [z9, z8]; exact hi.ftp, by rw [z7, z9]; exact hi.oc⟩
    | false =>
      have htp : s.tearPending = false := by
        cases h : s.tearPending
        · rfl
        · have := hi.tp h; simp [hc] at this
      have hfd : s.fdClosed = false := by
        cases h : s.fdClosed
        · rfl
        · have := hi.fcl h; simp [hc] at this
      have hoc : s.onClose = 0 := by have := hi.oc; rw [hfd] at this; simpa using this
      cases outcome_step g s op hop with
      | same h =>
        simp only [K, Prod.mk.injEq] at h
        obtain ⟨k1, k2, k3, k4⟩ := h
        constructor <;> simp [k1, k2, k3, k4, hc, htp, hfd, hoc]
      | flipped h1 h2 h3 h4 _ =>
        constructor <;> simp [h1, h2, h3, h4, hfd, hoc]
      | tornDown h1 h2 h3 h4 h5 =>
        constructor <;> simp [h1, h2, h3, h4, h5, htp, hoc]

theorem invT_run (g : Cfg) (ops : List Op) : ∀ s : S, InvT s → InvT (run g s ops) := by
  induction ops with
  | nil => intro s h; exact h
  | cons op ops ih => intro s h; exact ih _ (invT_step g s op h)

end ConnFull
