import NbioVerif.Lemmas.WsDecode
/-! The frame loop of Parse: fuel is irrelevant, the cache only matters through its bytes, and feeding a byte stream
    in segments is the same as feeding it whole. -/
namespace Ws
open WsF

/-! ### decoder stability under more input -/

theorem judge_cache (g : Cfg) (s : S) (c : Bytes) (d : Rfc.D1) : judge g { s with cache := c } d = judge g s d := rfl

theorem judge_mkD1_append (g : Cfg) (s : S) (b m : Bytes) (x0 x1 : UInt8) (v hl : Nat) (tb : Bool) (r : NF)
    (h : judge g s (RfcM.mkD1 b x0 x1 v hl tb) = r) (hr : r ≠ .need) :
    judge g s (RfcM.mkD1 (b ++ m) x0 x1 v hl tb) = r := by
  cases tb with
  | true => simpa [RfcM.mkD1, judge] using h
  | false =>
    unfold RfcM.mkD1 at h ⊢
    simp only [Bool.false_eq_true, if_false] at h ⊢
    by_cases hp : b.length < (if x1.toNat ≥ 128 then hl + 4 else hl) + v
    · simp only [hp, if_true] at h
      -- partial on `b`: a verdict other than `need` comes from the size check, which only sees the header
      simp only [judge, Bool.false_eq_true, if_false, if_true] at h
      cases hsz : sizeCheck g (msgLen s) (szHdr (x0.toNat % 16) v) with
      | none => rw [hsz] at h; exact absurd h.symm hr
      | some e =>
        rw [hsz] at h
        have h' : NF.err e = r := h
        by_cases hq : (b ++ m).length < (if x1.toNat ≥ 128 then hl + 4 else hl) + v
        · simp only [hq, if_true, judge, Bool.false_eq_true, if_false, hsz]; exact h'
        · simp only [hq, if_false, judge, Bool.false_eq_true, hsz]; exact h'
    · simp only [hp, if_false] at h
      have hp' : ¬ (b ++ m).length < (if x1.toNat ≥ 128 then hl + 4 else hl) + v := by
        simp only [List.length_append]; omega
      simp only [hp', if_false]
      have e1 : ((b ++ m).drop (if x1.toNat ≥ 128 then hl + 4 else hl)).take v = (b.drop (if x1.toNat ≥ 128 then hl + 4 else hl)).take v := by
        rw [List.drop_append_of_le_length (by omega), List.take_append_of_le_length (by simp only [List.length_drop]; omega)]
      rw [e1]
      by_cases hm : x1.toNat ≥ 128
      · have e2 : ((b ++ m).drop ((if x1.toNat ≥ 128 then hl + 4 else hl) - 4)).take 4 = (b.drop ((if x1.toNat ≥ 128 then hl + 4 else hl) - 4)).take 4 := by
          simp only [hm, if_true] at hp ⊢
          rw [List.drop_append_of_le_length (by omega), List.take_append_of_le_length (by simp only [List.length_drop]; omega)]
        rw [e2]; exact h
      · simp only [hm, decide_false, Bool.false_eq_true, if_false] at h ⊢
        exact h

theorem take_append_ge (rest m : Bytes) (n : Nat) (h : rest.length ≥ n) : (rest ++ m).take n = rest.take n :=
  List.take_append_of_le_length h

/-- a verdict other than "need more" is not changed by more input -/
theorem judge_decode1_append (g : Cfg) (s : S) (b m : Bytes) (r : NF)
    (h : judge g s (RfcM.decode1 b) = r) (hr : r ≠ .need) : judge g s (RfcM.decode1 (b ++ m)) = r := by
  match b with
  | [] => simp [RfcM.decode1, judge] at h; exact absurd h.symm hr
  | [x] => simp [RfcM.decode1, judge] at h; exact absurd h.symm hr
  | x0 :: x1 :: rest =>
    have hcons : (x0 :: x1 :: rest) ++ m = x0 :: x1 :: (rest ++ m) := rfl
    by_cases h126 : x1.toNat % 128 = 126
    · by_cases hr2 : rest.length < 2
      · simp [RfcM.decode1, h126, hr2, judge] at h; exact absurd h.symm hr
      · have hr3 : ¬ (rest.length + m.length < 2) := by omega
        have e : RfcM.decode1 (x0 :: x1 :: rest) = RfcM.mkD1 (x0 :: x1 :: rest) x0 x1 (beDec (rest.take 2)) 4 false := by
          simp [RfcM.decode1, h126, hr2]
        have e' : RfcM.decode1 (x0 :: x1 :: (rest ++ m)) = RfcM.mkD1 (x0 :: x1 :: (rest ++ m)) x0 x1 (beDec (rest.take 2)) 4 false := by
          simp [RfcM.decode1, h126, hr3, take_append_ge rest m 2 (by omega)]
        rw [hcons, e', ← hcons]; rw [e] at h
        exact judge_mkD1_append g s _ m x0 x1 _ 4 false r h hr
    · by_cases h127 : x1.toNat % 128 = 127
      · by_cases hr2 : rest.length < 8
        · simp [RfcM.decode1, h127, hr2, judge] at h; exact absurd h.symm hr
        · have hr3 : ¬ (rest.length + m.length < 8) := by omega
          have e : RfcM.decode1 (x0 :: x1 :: rest) = RfcM.mkD1 (x0 :: x1 :: rest) x0 x1 (beDec (rest.take 8)) 10 (decide (beDec (rest.take 8) ≥ 2 ^ 63)) := by
            simp [RfcM.decode1, h127, hr2]
          have e' : RfcM.decode1 (x0 :: x1 :: (rest ++ m)) = RfcM.mkD1 (x0 :: x1 :: (rest ++ m)) x0 x1 (beDec (rest.take 8)) 10 (decide (beDec (rest.take 8) ≥ 2 ^ 63)) := by
            simp [RfcM.decode1, h127, hr3, take_append_ge rest m 8 (by omega)]
          rw [hcons, e', ← hcons]; rw [e] at h
          exact judge_mkD1_append g s _ m x0 x1 _ 10 _ r h hr
      · have e : RfcM.decode1 (x0 :: x1 :: rest) = RfcM.mkD1 (x0 :: x1 :: rest) x0 x1 (x1.toNat % 128) 2 false := by
          simp [RfcM.decode1, h126, h127]
        have e' : RfcM.decode1 (x0 :: x1 :: (rest ++ m)) = RfcM.mkD1 (x0 :: x1 :: (rest ++ m)) x0 x1 (x1.toNat % 128) 2 false := by
          simp [RfcM.decode1, h126, h127]
        rw [hcons, e', ← hcons]; rw [e] at h
        exact judge_mkD1_append g s _ m x0 x1 _ 2 false r h hr

theorem within_cache (g : Cfg) (s : S) (c : Bytes) (h : Within g s) : Within g { s with cache := c } := h

/-- `nextFrame`: a frame or an error stays what it is when more bytes arrive -/
theorem nextFrame_append (g : Cfg) (s : S) (hw : Within g s) (m : Bytes) (r : NF)
    (h : nextFrame g s = r) (hr : r ≠ .need) : nextFrame g { s with cache := s.cache ++ m } = r := by
  rw [nextFrame_eq_judge g s hw] at h
  rw [nextFrame_eq_judge g _ (within_cache g s _ hw), judge_cache]
  exact judge_decode1_append g s s.cache m r h hr

/-! ### fuel -/

theorem mkHdr_headLen_ge (x0 x1 : UInt8) (n : Int) (hl : Nat) (h : hl ≥ 2) : (mkHdr x0 x1 n hl).headLen ≥ 2 := by
  simp only [mkHdr]; split <;> omega

theorem decodeHdr_headLen (c : Bytes) (h : HdrInfo) (hd : decodeHdr c = some (.ok h)) : h.headLen ≥ 2 := by
  unfold decodeHdr at hd
  split at hd
  · simp only at hd
    repeat' split at hd
    all_goals (first | (cases hd; done) | (cases hd; exact mkHdr_headLen_ge _ _ _ _ (by omega)))
  · cases hd

/-- a frame handed out by nextFrame consumes at least two bytes and no more than the cache holds -/
theorem nextFrame_total (g : Cfg) (s : S) (total op : Nat) (body : Bytes) (fin r1 : Bool)
    (h : nextFrame g s = .frame total op body fin r1) : 2 ≤ total ∧ total ≤ s.cache.length := by
  obtain ⟨hd, hdec, _, _, hc, _, ht, _⟩ := nextFrame_frame_inv g s total op body fin r1 h
  have := decodeHdr_headLen _ _ hdec
  omega

/-- the loop never runs out of fuel: any fuel above the cache length gives the same result -/
theorem frameLoop_fuel (g : Cfg) (e : Env) : ∀ (n k : Nat) (s : S) (acts : List Act), n > s.cache.length →
    frameLoop g e (n + k) s acts = frameLoop g e n s acts := by
  intro n
  induction n with
  | zero => intro k s acts h; omega
  | succ n ih =>
    intro k s acts h
    rw [show n + 1 + k = (n + k) + 1 by omega]
    unfold frameLoop
    cases hnf : nextFrame g s with
    | need => rfl
    | err er => rfl
    | frame total op body fin r1 =>
      simp only
      cases applyFrame g e s.k op body fin r1 with
      | fail k' er => rfl
      | next k' a =>
        simp only
        have := nextFrame_total g s total op body fin r1 hnf
        exact ih k _ _ (by simp only [List.length_drop]; omega)

/-- the frame loop with enough fuel -/
def run (g : Cfg) (e : Env) (s : S) (acts : List Act) : PR := frameLoop g e (s.cache.length + 1) s acts

theorem frameLoop_eq_run (g : Cfg) (e : Env) (n : Nat) (s : S) (acts : List Act) (h : n > s.cache.length) :
    frameLoop g e n s acts = run g e s acts := by
  unfold run
  have := frameLoop_fuel g e (s.cache.length + 1) (n - (s.cache.length + 1)) s acts (by omega)
  rw [show s.cache.length + 1 + (n - (s.cache.length + 1)) = n by omega] at this
  exact this

/-- fuel-free unfolding of the loop -/
theorem run_unfold (g : Cfg) (e : Env) (s : S) (acts : List Act) :
    run g e s acts =
      match nextFrame g s with
      | .need => ⟨s, acts, none⟩
      | .err er => failWith g e s.cache s.k acts er
      | .frame total opcode body fin rsv1 =>
        match applyFrame g e s.k opcode body fin rsv1 with
        | .fail k er => failWith g e s.cache k acts er
        | .next k a => run g e { cache := s.cache.drop total, k } (acts ++ a) := by
  unfold run
  rw [frameLoop]
  cases hnf : nextFrame g s with
  | need => rfl
  | err er => rfl
  | frame total op body fin r1 =>
    simp only
    cases applyFrame g e s.k op body fin r1 with
    | fail k' er => rfl
    | next k' a =>
      simp only
      have := nextFrame_total g s total op body fin r1 hnf
      exact frameLoop_eq_run g e _ _ _ (by simp only [List.length_drop]; omega)

theorem parse_eq_run (g : Cfg) (e : Env) (s : S) (data : Bytes) (hd : data ≠ []) (hl : g.readLimit = 0) :
    parse g e s data = run g e { s with cache := s.cache ++ data } [] := by
  unfold parse run
  simp [hd, hl]

/-! ### the assembly stays within the limit (C15 invariant) -/

def KWithin (g : Cfg) (k : K) : Prop := g.msgLimit > 0 → k.len ≤ g.msgLimit

theorem dispatch_message (g : Cfg) (e : Env) (k : K) (op : Nat) (d : Bytes) : (dispatch g e k op d).1.message = k.message := by
  unfold dispatch
  split <;> rfl

theorem dispatch_len (g : Cfg) (e : Env) (k : K) (op : Nat) (d : Bytes) : (dispatch g e k op d).1.len = k.len := by
  unfold K.len; rw [dispatch_message]

theorem startMsg_message (k : K) (op : Nat) (r1 : Bool) : (startMsg k op r1).message = k.message := by
  unfold startMsg; split <;> rfl

theorem appendBody_len (k : K) (b : Bytes) : (appendBody k b).len = k.len + b.length := by
  by_cases hb : b.length > 0
  · simp only [appendBody, hb, if_true, K.len]
    cases k.message <;> simp
  · have h0 : b.length = 0 := by omega
    rw [h0, Nat.add_zero]
    unfold appendBody
    rw [if_neg hb]

theorem finishMsg_next_len (g : Cfg) (e : Env) (k k' : K) (a : List Act) (h : finishMsg g e k = .next k' a) : k'.len = 0 := by
  unfold finishMsg at h
  simp only at h
  split at h
  all_goals first | (cases h; done) | skip
  cases h
  rw [dispatch_len]
  rfl

/-- shape of the state after a data frame -/
theorem dataFrame_next_len (g : Cfg) (e : Env) (k : K) (op : Nat) (body : Bytes) (fin r1 : Bool) (k' : K) (a : List Act)
    (h : dataFrame g e k op body fin r1 = .next k' a) : k'.len = if fin then 0 else k.len + body.length := by
  unfold dataFrame at h
  simp only at h
  split at h
  · rename_i hfin
    simp only [hfin, if_true]
    exact finishMsg_next_len g e _ k' a h
  · rename_i hfin
    simp only [hfin, Bool.false_eq_true, if_false]
    cases h
    have := appendBody_len (startMsg k op r1) body
    unfold K.len at this ⊢
    simp only [startMsg_message] at this ⊢
    exact this

theorem applyFrame_within (g : Cfg) (e : Env) (s : S) (total op : Nat) (body : Bytes) (fin r1 : Bool) (k' : K) (a : List Act)
    (hw : Within g s) (hnf : nextFrame g s = .frame total op body fin r1)
    (h : applyFrame g e s.k op body fin r1 = .next k' a) : KWithin g k' := by
  intro hl
  unfold applyFrame at h
  split at h
  · rename_i hop
    have hlen := dataFrame_next_len g e s.k op body fin r1 k' a h
    have hc : isControl op = false := by
      unfold isControl
      have : op ≠ 8 ∧ op ≠ 9 ∧ op ≠ 10 := by omega
      simp [this]
    have := nextFrame_fits g s hl total op body fin r1 hnf hc
    rw [hlen]
    split
    · omega
    · exact this
  · split at h
    · cases h
    · cases h
      simp only [dispatch_len]
      exact hw hl

/-! ### segmentation independence -/

/-- continuing a finished run with more input -/
def contWith (g : Cfg) (e : Env) (m : Bytes) (r : PR) : PR :=
  match r.err with
  | none => run g e { r.s with cache := r.s.cache ++ m } r.acts
  | some er => ⟨{ r.s with cache := r.s.cache ++ m }, r.acts, some er⟩

theorem run_append (g : Cfg) (e : Env) : ∀ (n : Nat) (s : S) (acts : List Act) (m : Bytes), s.cache.length ≤ n → Within g s →
    run g e { s with cache := s.cache ++ m } acts = contWith g e m (run g e s acts) := by
  intro n
  induction n with
  | zero =>
    intro s acts m hn hw
    have hc : s.cache = [] := List.eq_nil_of_length_eq_zero (by omega)
    have hnf : nextFrame g s = .need := by simp [nextFrame, decodeHdr, hc]
    rw [run_unfold g e s acts, hnf]
    rfl
  | succ n ih =>
    intro s acts m hn hw
    rw [run_unfold g e s acts]
    cases hnf : nextFrame g s with
    | need => rfl
    | err er =>
      rw [run_unfold, nextFrame_append g s hw m _ hnf (by simp)]
      rfl
    | frame total op body fin r1 =>
      rw [run_unfold, nextFrame_append g s hw m _ hnf (by simp)]
      simp only
      cases haf : applyFrame g e s.k op body fin r1 with
      | fail k' er => rfl
      | next k' a =>
        simp only
        have ht := nextFrame_total g s total op body fin r1 hnf
        have hdrop : (s.cache ++ m).drop total = s.cache.drop total ++ m := List.drop_append_of_le_length ht.2
        rw [hdrop]
        have hw' : Within g { cache := s.cache.drop total, k := k' } := applyFrame_within g e s total op body fin r1 k' a hw hnf haf
        exact ih { cache := s.cache.drop total, k := k' } (acts ++ a) m (by simp only [List.length_drop]; omega) hw'

/-- the accumulated actions are only ever appended to -/
theorem run_acts (g : Cfg) (e : Env) : ∀ (n : Nat) (s : S) (acts : List Act), s.cache.length ≤ n →
    run g e s acts = ⟨(run g e s []).s, acts ++ (run g e s []).acts, (run g e s []).err⟩ := by
  intro n
  induction n with
  | zero =>
    intro s acts hn
    have hc : s.cache = [] := List.eq_nil_of_length_eq_zero (by omega)
    have hnf : nextFrame g s = .need := by simp [nextFrame, decodeHdr, hc]
    rw [run_unfold g e s acts, run_unfold g e s [], hnf]
    simp
  | succ n ih =>
    intro s acts hn
    rw [run_unfold g e s acts, run_unfold g e s []]
    cases hnf : nextFrame g s with
    | need => simp
    | err er => simp [failWith]
    | frame total op body fin r1 =>
      simp only
      cases haf : applyFrame g e s.k op body fin r1 with
      | fail k' er => simp [failWith]
      | next k' a =>
        simp only
        have ht := nextFrame_total g s total op body fin r1 hnf
        have hl : (List.drop total s.cache).length ≤ n := by simp only [List.length_drop]; omega
        rw [ih { cache := s.cache.drop total, k := k' } (acts ++ a) hl, ih { cache := s.cache.drop total, k := k' } ([] ++ a) hl]
        simp [List.append_assoc]

/-- a run that ends without error ends waiting for more input, with the assembly within the limit -/
theorem run_end (g : Cfg) (e : Env) : ∀ (n : Nat) (s : S) (acts : List Act), s.cache.length ≤ n → Within g s →
    (run g e s acts).err = none → nextFrame g (run g e s acts).s = .need ∧ Within g (run g e s acts).s := by
  intro n
  induction n with
  | zero =>
    intro s acts hn hw _
    have hc : s.cache = [] := List.eq_nil_of_length_eq_zero (by omega)
    have hnf : nextFrame g s = .need := by simp [nextFrame, decodeHdr, hc]
    rw [run_unfold g e s acts, hnf]
    exact ⟨hnf, hw⟩
  | succ n ih =>
    intro s acts hn hw
    rw [run_unfold g e s acts]
    cases hnf : nextFrame g s with
    | need => intro _; exact ⟨hnf, hw⟩
    | err er => simp [failWith]
    | frame total op body fin r1 =>
      simp only
      cases haf : applyFrame g e s.k op body fin r1 with
      | fail k' er => simp [failWith]
      | next k' a =>
        simp only
        have ht := nextFrame_total g s total op body fin r1 hnf
        have hw' : Within g { cache := s.cache.drop total, k := k' } := applyFrame_within g e s total op body fin r1 k' a hw hnf haf
        exact ih { cache := s.cache.drop total, k := k' } (acts ++ a) (by simp only [List.length_drop]; omega) hw'

theorem feed_flatten (g : Cfg) (e : Env) (hl : g.readLimit = 0) : ∀ (segs : List Bytes) (s : S) (acts : List Act),
    Within g s → nextFrame g s = .need →
    (feed g e s segs acts).obs = (run g e { s with cache := s.cache ++ segs.flatten } acts).obs := by
  intro segs
  induction segs with
  | nil =>
    intro s acts hw hnf
    simp only [feed, List.flatten_nil, List.append_nil]
    rw [run_unfold, hnf]
  | cons seg segs ih =>
    intro s acts hw hnf
    by_cases hseg : seg = []
    · subst hseg
      have hp : parse g e s [] = ⟨s, [], none⟩ := by simp [parse]
      simp only [feed, hp, List.append_nil, List.flatten_cons, List.nil_append]
      exact ih s acts hw hnf
    · have hp := parse_eq_run g e s seg hseg hl
      have hlen : ({ s with cache := s.cache ++ seg } : S).cache.length ≤ (s.cache ++ seg).length := Nat.le_refl _
      have hw1 : Within g { s with cache := s.cache ++ seg } := hw
      have hra := run_append g e _ { s with cache := s.cache ++ seg } acts segs.flatten hlen hw1
      have hacts := run_acts g e _ { s with cache := s.cache ++ seg } acts hlen
      simp only [List.flatten_cons, ← List.append_assoc]
      rw [show ({ s with cache := s.cache ++ seg ++ segs.flatten } : S) =
            { ({ s with cache := s.cache ++ seg } : S) with cache := ({ s with cache := s.cache ++ seg } : S).cache ++ segs.flatten } from rfl]
      rw [hra, hacts]
      unfold feed
      rw [hp]
      cases herr : (run g e { s with cache := s.cache ++ seg } []).err with
      | some er =>
        simp [contWith, PR.obs, herr]
      | none =>
        simp only [contWith]
        have hend := run_end g e _ { s with cache := s.cache ++ seg } [] hlen hw1 herr
        exact ih _ _ hend.2 hend.1

/-- C06-style statement for the websocket parser: any segmentation of the input gives the same callbacks, replies,
    error and final state as one Parse call on the whole input (ReadLimit aside) -/
theorem feed_segmentation (g : Cfg) (e : Env) (hl : g.readLimit = 0) (segs : List Bytes) (s : S)
    (hw : Within g s) (hnf : nextFrame g s = .need) :
    (feed g e s segs []).obs = (feed g e s [segs.flatten] []).obs := by
  rw [feed_flatten g e hl segs s [] hw hnf, feed_flatten g e hl [segs.flatten] s [] hw hnf]
  simp

end Ws
