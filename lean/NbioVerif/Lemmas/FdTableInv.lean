import NbioVerif.Model.FdTable
namespace FdTable

theorem ok_upd (t : T) (f : Side → Side) (hf : ∀ s, Ok s → Ok (f s)) (h : ∀ s ∈ t.conns, Ok s) :
    ∀ s ∈ (upd t f).conns, Ok s := by
  intro s hs
  simp only [upd, List.mem_map] at hs
  obtain ⟨s0, h0, rfl⟩ := hs
  exact hf s0 (h s0 h0)

theorem ok_step (t : T) (a : Act) (h : ∀ s ∈ t.conns, Ok s) : ∀ s ∈ (step t a).conns, Ok s := by
  cases a with
  | add k slot =>
    intro s hs
    simp only [step, add, List.mem_append, List.mem_singleton] at hs
    rcases hs with hs | rfl
    · exact h s hs
    · simp [Ok]
  | send k b =>
    refine ok_upd t _ (fun s hs => ?_) h
    split
    · simp only [Ok] at hs ⊢; rw [← hs, List.append_assoc]
    · exact hs
  | event slot =>
    simp only [step, event]
    split
    · exact h
    · refine ok_upd t _ (fun s hs => ?_) h
      split
      · simp only [Ok] at hs ⊢; rw [List.append_nil]; exact hs
      · exact hs
  | close k =>
    refine ok_upd t _ (fun s hs => ?_) h
    split
    · exact hs
    · exact hs

/-- Bookkeeping invariant of the table model: at every point of every history, for every conn of the MODEL, handed over ++
    still queued = what its own peer sent. TRUE BY CONSTRUCTION: each `Side` record touches only its own fields and the proof
    never uses `owner` — it would survive any lookup function. It is NOT a proof that the dispatch attributes correctly; that
    is judged by the `side=` correspondence (gatedrv runs this model, `owner` included, against the code) and by the per-conn
    content oracle of `hread`, for synchronous reads only. -/
theorem c02_attribution (as : List Act) : ∀ t, (∀ s ∈ t.conns, Ok s) → ∀ s ∈ (run t as).conns, Ok s := by
  induction as with
  | nil => intro t h; exact h
  | cons a as ih => intro t h; exact ih (step t a) (ok_step t a h)

theorem c02_attribution_init (as : List Act) : ∀ s ∈ (run {} as).conns, s.got ++ s.pend = s.sent :=
  c02_attribution as {} (by intro s hs; cases hs)

/-- non-vacuity: a stale event after the number was reused goes to the new owner, which reads its own bytes -/
example : let t := run {} [.add 1 7, .send 1 [1, 2], .event 7, .close 1, .add 4 7, .send 4 [9], .event 7, .event 7]
    t.conns.map (fun s => (s.k, s.got, s.live)) = [(1, [1, 2], false), (4, [9], true)] := by decide

end FdTable
