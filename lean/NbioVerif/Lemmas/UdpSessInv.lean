import NbioVerif.Model.UdpSess
namespace UdpSess

theorem step_T (s : St) (x : Act) : (step s x).T = s.T := by
  cases x with
  | tick d => rfl
  | dgram a => simp only [step, dgram]; split <;> rfl

/-- C02 (iv) in time: as long as a remote stays active (no gap lets the renewed deadline pass), every one of its
    datagrams is attributed to the SAME session, and that session is still live at the end -/
theorem c02_udp_active_session (a : Nat) (acts : List Act) :
    ∀ (s : St) (i dl : Nat), s.live a = some (i, dl) → Active a s.T dl s.now acts →
      (∃ dl', (run s acts).live a = some (i, dl')) ∧
      (∀ p ∈ (run s acts).attr, p ∈ s.attr ∨ p.1 ≠ a ∨ p.2 = i) := by
  induction acts with
  | nil => intro s i dl h _; exact ⟨⟨dl, h⟩, fun p hp => Or.inl hp⟩
  | cons x xs ih =>
    intro s i dl h hact
    cases x with
    | tick d =>
      simp only [Active] at hact
      have hl : (tick s d).live a = some (i, dl) := by
        simp only [tick, h]
        have : ¬ dl ≤ s.now + d := by omega
        simp [this]
      have := ih (tick s d) i dl hl (by simpa [tick] using hact.2)
      exact ⟨this.1, fun p hp => by simpa [tick] using this.2 p hp⟩
    | dgram b =>
      simp only [Active] at hact
      by_cases hb : b = a
      · subst hb
        rw [if_pos rfl] at hact
        have hl : (dgram s b).live b = some (i, s.now + s.T) := by simp [dgram, h]
        have hattr : (dgram s b).attr = s.attr ++ [(b, i)] := by simp [dgram, h]
        have hn : (dgram s b).now = s.now := by simp [dgram, h]
        have hT : (dgram s b).T = s.T := by simp [dgram, h]
        have := ih (dgram s b) i (s.now + s.T) hl (by rw [hT, hn]; exact hact)
        refine ⟨this.1, fun p hp => ?_⟩
        rcases this.2 p hp with h1 | h1 | h1
        · rw [hattr, List.mem_append, List.mem_singleton] at h1
          rcases h1 with h1 | h1
          · exact Or.inl h1
          · right; right; rw [h1]
        · exact Or.inr (Or.inl h1)
        · exact Or.inr (Or.inr h1)
      · rw [if_neg hb] at hact
        have hab : a ≠ b := fun h' => hb h'.symm
        have hl : (dgram s b).live a = some (i, dl) := by
          simp only [dgram]; split <;> simp [hab, h]
        have hn : (dgram s b).now = s.now := by simp only [dgram]; split <;> rfl
        have hT : (dgram s b).T = s.T := by simp only [dgram]; split <;> rfl
        have := ih (dgram s b) i dl hl (by rw [hT, hn]; exact hact)
        refine ⟨this.1, fun p hp => ?_⟩
        rcases this.2 p hp with h1 | h1 | h1
        · have : p ∈ s.attr ∨ p = (b, (match s.live b with | some (j, _) => j | none => s.next)) := by
            simp only [dgram] at h1
            split at h1 <;> simp_all
          rcases this with h2 | h2
          · exact Or.inl h2
          · right; left; rw [h2]; exact hb
        · exact Or.inr (Or.inl h1)
        · exact Or.inr (Or.inr h1)

/-- non-vacuity: gaps of 0.6 T keep the session; and the deadline is per datagram — renewing only at the session's
    creation (the seeded mutant) would expire it at T -/
example : let s := run { T := 10 } [.dgram 1, .tick 6, .dgram 1, .tick 6, .dgram 1, .tick 6, .dgram 2, .dgram 1]
    s.attr = [(1, 0), (1, 0), (1, 0), (2, 1), (1, 0)] := by decide

/-- a silent remote loses its session; its next datagram opens a new one -/
example : let s := run { T := 10 } [.dgram 1, .tick 10, .dgram 1]
    s.attr = [(1, 0), (1, 1)] := by decide

end UdpSess
