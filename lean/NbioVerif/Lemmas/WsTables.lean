import NbioVerif.Lemmas.RfcM
import NbioVerif.Generated.WsFacts
/-! Regenerated facts (DESIGN §2.4b): the tables `hws facts` tabulates from the real `validFrame` / `validCloseCode`
    on every run are exactly the model's functions, and those are exactly the RFC's predicates.
    A change of the Go functions changes `Generated/WsFacts.lean` and makes these proofs fail. -/
namespace Ws

def cfgOf (compression : Bool) : Cfg :=
  { enableCompression := compression, writeCompression := compression, msgLimit := 0, readLimit := 0, maxFrame := 1, isClient := false }

def codeOf : Option Err → Nat
  | none => 0
  | some e => e.code

def bools : List Bool := [false, true]

/-- the model's `validFrame` tabulated in the order `hws facts` uses -/
def modelFrameTable : List Nat :=
  bools.flatMap fun comp => (List.range 16).flatMap fun op => bools.flatMap fun fin => bools.flatMap fun r1 =>
    bools.flatMap fun r2 => bools.flatMap fun r3 => bools.map fun ex =>
      codeOf (validFrame (cfgOf comp) op fin r1 r2 r3 ex)

set_option maxRecDepth 100000 in
/-- tie: `Conn.validFrame` of the working tree (all 2 × 16 × 2⁵ rows, error class included) = the model's `validFrame` -/
theorem validFrame_table : Gen.validFrameTable = modelFrameTable := by decide

def inIntervals (iv : List (Nat × Nat)) (c : Nat) : Bool := iv.any fun (lo, hi) => lo ≤ c && c ≤ hi

/-- tie: `validCloseCode` of the working tree (all 65 536 codes, as intervals) = the model's `validCloseCode` -/
theorem validCloseCode_table (c : Nat) : validCloseCode c = inIntervals Gen.validCloseIntervals c := by
  simp only [validCloseCode, inIntervals, Gen.validCloseIntervals, List.any_cons, List.any_nil, Bool.or_false]
  rw [Bool.eq_iff_iff]
  simp only [Bool.or_eq_true, Bool.and_eq_true, decide_eq_true_eq]
  omega

/-- the model's close-code predicate is RFC 6455 §7.4.1/§7.4.2 -/
theorem validCloseCode_rfc (c : Nat) : validCloseCode c = RfcM.closeCodeOk c := by
  simp only [validCloseCode, RfcM.closeCodeOk]
  rw [Bool.eq_iff_iff]
  simp only [Bool.or_eq_true, Bool.and_eq_true, decide_eq_true_eq]
  omega

theorem maxControl_table : Gen.maxControlFramePayloadSize = 125 := rfl

theorem flateTail_table : Gen.flateReaderTail = [0, 0, 255, 255, 1, 0, 0, 255, 255] := by decide

end Ws
