import NbioVerif.Lemmas.StopReg
/-! Termination measure of the Stop model and the "no registration in flight" predicate. -/
namespace StopM

def phW : Ph → Nat
  | .accepted => 6 | .opening => 5 | .tabled => 4 | .live => 3 | .closing => 2 | .torn => 1 | .done => 0

def spW : SP → Nat
  | .idle => 6 | .listenersStopped => 5 | .scanning => 4 | .waiting => 3 | .onStop => 2 | .pollers => 1 | .returned => 0

/-- weight of one conn: remaining lifecycle steps (doubled) + its pending scan -/
def cw (x : C) : Nat := 2 * phW x.ph + (if x.scanned then 0 else 2)

def connSum : List C → Nat
  | [] => 0
  | x :: xs => cw x + connSum xs

/-- the measure: everything the engine still has to do by itself -/
def mu (s : St) : Nat := connSum s.conns + s.asyncQ.length + spW s.sp

theorem connSum_set (l : List C) (c : Nat) (x x' : C) (h : l[c]? = some x) :
    connSum (l.set c x') + cw x = connSum l + cw x' := by
  induction l generalizing c with
  | nil => simp at h
  | cons y ys ih =>
    cases c with
    | zero => simp at h; subst h; simp [connSum]; omega
    | succ c => simp at h; have := ih c h; simp [connSum]; omega

/-- every engine-internal step strictly decreases the measure -/
theorem mu_decreases {s s' : St} {a : Act} (ha : a.internal = true) (hs : step s a = some s') : mu s' < mu s := by
  cases a with
  | new k => simp [Act.internal] at ha
  | flip c => simp [Act.internal] at ha
  | «open» c =>
    simp only [step, stepOpen] at hs
    split at hs
    · rename_i x hx
      split at hs
      · rename_i hp; cases hs
        have := connSum_set s.conns c x { x with ph := .opening } hx
        simp only [mu, setC_conns, setC_q, setC_sp]
        simp only [cw, hp, phW] at this
        omega
      · cases hs
    · cases hs
  | store c =>
    simp only [step, stepStore] at hs
    split at hs
    · rename_i x hx
      split at hs
      · rename_i hp; cases hs
        have := connSum_set s.conns c x { x with ph := .tabled, inTable := true } hx
        simp only [mu, setC_conns, setC_q, setC_sp]
        simp only [cw, hp, phW] at this
        omega
      · cases hs
    · cases hs
  | register c ok =>
    simp only [step, stepRegister] at hs
    split at hs
    · rename_i x hx
      split at hs
      · rename_i hp; cases hs
        cases ok
        · have := connSum_set s.conns c x { x with ph := .closing, inTable := false } hx
          simp only [mu, setC_conns, setC_q, setC_sp]
          simp only [cw, hp, phW] at this
          simp; omega
        · have := connSum_set s.conns c x { x with ph := .live } hx
          simp only [mu, setC_conns, setC_q, setC_sp]
          simp only [cw, hp, phW] at this
          simp; omega
      · cases hs
    · cases hs
  | teardown c =>
    simp only [step, stepTeardown] at hs
    split at hs
    · rename_i x hx
      split at hs
      · rename_i hp; cases hs
        have := connSum_set s.conns c x { x with ph := .torn, inTable := false } hx
        simp only [mu, setC_conns, setC_sp, List.length_append, List.length_singleton, List.length_cons, List.length_nil]
        simp only [cw, hp, phW] at this
        omega
      · cases hs
    · cases hs
  | asyncRun =>
    simp only [step, stepAsync] at hs
    split at hs
    · cases hs
    · rename_i c q hq
      cases hs
      unfold runCloseConn
      split
      · rename_i x hx
        split
        · rename_i hp
          have hph : x.ph = .tabled ∨ x.ph = .live := by simpa [isOpen] using hp
          have := connSum_set s.conns c x { x with ph := .torn, inTable := false } hx
          simp only [mu, setC_conns, setC_sp, List.length_append, List.length_singleton, hq, List.length_cons, List.length_nil]
          rcases hph with e | e <;> simp only [cw, e, phW] at this <;> omega
        · simp only [mu, hq, List.length_cons]; omega
      · simp only [mu, hq, List.length_cons]; omega
    · rename_i c q hq
      cases hs
      unfold runCloseCb
      split
      · rename_i x hx
        have := connSum_set s.conns c x { x with ph := .done, cbs := x.cbs + 1 } hx
        simp only [mu, setC_conns, setC_sp, hq, List.length_cons]
        simp only [cw, phW] at this
        omega
      · simp only [mu, hq, List.length_cons]; omega
  | stopListeners =>
    simp only [step] at hs
    split at hs
    · rename_i hp; cases hs; simp only [mu, hp, spW]; omega
    · cases hs
  | snapshot =>
    simp only [step] at hs
    split at hs
    · rename_i hp; cases hs; simp only [mu, hp, spW]; omega
    · cases hs
  | scan c =>
    simp only [step, stepScan] at hs
    split at hs
    · split at hs
      · rename_i x hx
        split at hs
        · cases hs
        · rename_i hsx; cases hs
          have := connSum_set s.conns c x { x with scanned := true } hx
          have hsx' : x.scanned = false := by simpa using hsx
          simp [cw, hsx'] at this
          simp only [mu, setC_conns, setC_sp]
          split <;> simp <;> omega
      · cases hs
    · cases hs
  | scanEnd =>
    simp only [step] at hs
    split at hs
    · rename_i hp; cases hs; simp only [mu, hp.1, spW]; omega
    · cases hs
  | waitReturn =>
    simp only [step] at hs
    split at hs
    · rename_i hp; cases hs; simp only [mu, hp.1, spW]; omega
    · cases hs
  | onStop =>
    simp only [step] at hs
    split at hs
    · rename_i hp; cases hs; simp only [mu, hp, spW]; omega
    · cases hs
  | stopPollers =>
    simp only [step] at hs
    split at hs
    · rename_i hp; cases hs; simp only [mu, hp, spW]; omega
    · cases hs

/-- a run in which every action is internal and enabled -/
def internalRun : St → List Act → Prop
  | _, [] => True
  | s, a :: as => a.internal = true ∧ ∃ s', step s a = some s' ∧ internalRun s' as

theorem internalRun_bounded (s : St) (as : List Act) (h : internalRun s as) : as.length ≤ mu s := by
  induction as generalizing s with
  | nil => simp
  | cons a as ih =>
    obtain ⟨ha, s', hs, hr⟩ := h
    have := mu_decreases ha hs
    have := ih s' hr
    simp; omega

/-- no registration is in flight: no conn is between `Accept()` and the table store -/
def Settled (s : St) : Prop := ∀ (c : Nat) (x : C), s.conns[c]? = some x → ¬ early x.ph

def isNew : Act → Bool
  | .new _ => true
  | _ => false

theorem settled_setC {s : St} (h : Settled s) {c : Nat} {x : C} (hx : s.conns[c]? = some x) (x' : C)
    (hx' : ¬ early x'.ph) : ∀ (c' : Nat) (y : C), (s.conns.set c x')[c']? = some y → ¬ early y.ph := by
  intro c' y hy
  rw [get_set' hx] at hy
  split at hy
  · cases hy; exact hx'
  · exact h c' y hy

/-- without new registrations, "settled" and "no race" persist -/
theorem settled_step {s s' : St} {a : Act} (h : Settled s) (hr : s.raced = false) (ha : isNew a = false)
    (hs : step s a = some s') : Settled s' ∧ s'.raced = false := by
  cases a with
  | new k => simp [isNew] at ha
  | «open» c =>
    simp only [step, stepOpen] at hs
    split at hs
    · rename_i x hx
      split at hs
      · rename_i hp; exact absurd (Or.inl hp) (h c x hx)
      · cases hs
    · cases hs
  | store c =>
    simp only [step, stepStore] at hs
    split at hs
    · rename_i x hx
      split at hs
      · rename_i hp; exact absurd (Or.inr hp) (h c x hx)
      · cases hs
    · cases hs
  | register c ok =>
    simp only [step, stepRegister] at hs
    split at hs
    · rename_i x hx
      split at hs
      · cases hs
        refine ⟨?_, hr⟩
        cases ok
        · exact settled_setC h hx _ (by simp [early])
        · exact settled_setC h hx _ (by simp [early])
      · cases hs
    · cases hs
  | flip c =>
    simp only [step, stepFlip] at hs
    split at hs
    · rename_i x hx
      split at hs
      · cases hs; exact ⟨settled_setC h hx _ (by simp [early]), hr⟩
      · cases hs
    · cases hs
  | teardown c =>
    simp only [step, stepTeardown] at hs
    split at hs
    · rename_i x hx
      split at hs
      · cases hs; exact ⟨settled_setC h hx _ (by simp [early]), hr⟩
      · cases hs
    · cases hs
  | asyncRun =>
    simp only [step, stepAsync] at hs
    split at hs
    · cases hs
    · rename_i c q hq
      cases hs
      unfold runCloseConn
      split
      · rename_i x hx
        split
        · exact ⟨settled_setC h hx _ (by simp [early]), hr⟩
        · exact ⟨h, hr⟩
      · exact ⟨h, hr⟩
    · rename_i c q hq
      cases hs
      unfold runCloseCb
      split
      · rename_i x hx
        exact ⟨settled_setC h hx _ (by simp [early]), hr⟩
      · exact ⟨h, hr⟩
  | stopListeners =>
    simp only [step] at hs
    split at hs
    · cases hs; exact ⟨h, hr⟩
    · cases hs
  | snapshot =>
    simp only [step] at hs
    split at hs
    · cases hs; exact ⟨h, hr⟩
    · cases hs
  | scan c =>
    simp only [step, stepScan] at hs
    split at hs
    · split at hs
      · rename_i x hx
        split at hs
        · cases hs
        · cases hs
          have hne := h c x hx
          refine ⟨settled_setC h hx _ hne, ?_⟩
          simp only [early] at hne
          simp [hr]
          exact ⟨fun e => hne (Or.inl e), fun e => hne (Or.inr e)⟩
      · cases hs
    · cases hs
  | scanEnd =>
    simp only [step] at hs
    split at hs
    · cases hs; exact ⟨h, hr⟩
    · cases hs
  | waitReturn =>
    simp only [step] at hs
    split at hs
    · cases hs; exact ⟨h, hr⟩
    · cases hs
  | onStop =>
    simp only [step] at hs
    split at hs
    · cases hs; exact ⟨h, hr⟩
    · cases hs
  | stopPollers =>
    simp only [step] at hs
    split at hs
    · cases hs; exact ⟨h, hr⟩
    · cases hs

theorem settled_run {s : St} (as : List Act) (h : Settled s) (hr : s.raced = false)
    (ha : ∀ a ∈ as, isNew a = false) : Settled (run s as) ∧ (run s as).raced = false := by
  induction as generalizing s with
  | nil => exact ⟨h, hr⟩
  | cons a as ih =>
    simp only [run]
    have ha' : ∀ a ∈ as, isNew a = false := fun a' h' => ha a' (List.mem_cons_of_mem _ h')
    split
    · rename_i s' hs
      obtain ⟨h1, h2⟩ := settled_step h hr (ha a (List.mem_cons_self ..)) hs
      exact ih h1 h2 ha'
    · exact ih h hr ha'

end StopM
