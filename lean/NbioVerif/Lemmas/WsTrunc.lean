import NbioVerif.Model.WsTrunc
import NbioVerif.Generated.WsFacts
/-! `truncWriter`: specification of the chunked writer -/
namespace Ws

theorem twWrite_spec (w c : Bytes) (hw : w.length ≤ 4) :
    (twWrite w c).1 ++ (twWrite w c).2 = w ++ c ∧ (twWrite w c).2.length = min 4 (w.length + c.length) := by
  unfold twWrite
  simp only
  have hk : (c.take (min (4 - w.length) c.length)).length = min (4 - w.length) c.length := by
    rw [List.length_take]; omega
  have hsplit : c.take (min (4 - w.length) c.length) ++ c.drop (min (4 - w.length) c.length) = c := List.take_append_drop _ _
  by_cases h0 : (c.drop (min (4 - w.length) c.length)).length = 0
  · rw [if_pos h0]
    have hnil : c.drop (min (4 - w.length) c.length) = [] := List.eq_nil_of_length_eq_zero h0
    refine ⟨?_, ?_⟩
    · simp only [List.nil_append]
      rw [hnil, List.append_nil] at hsplit
      rw [hsplit]
    · simp only [List.length_append, hk]
      rw [List.length_drop] at h0
      omega
  · rw [if_neg h0]
    simp only
    -- the buffer is full now
    have hdl : (c.drop (min (4 - w.length) c.length)).length = c.length - min (4 - w.length) c.length := List.length_drop
    have hfull : (w ++ c.take (min (4 - w.length) c.length)).length = 4 := by
      simp only [List.length_append, hk]; omega
    generalize hw1 : w ++ c.take (min (4 - w.length) c.length) = w1 at hfull ⊢
    generalize hc1 : c.drop (min (4 - w.length) c.length) = c1 at h0 hdl ⊢
    have htot : w ++ c = w1 ++ c1 := by rw [← hw1, ← hc1, List.append_assoc, hsplit]
    rw [htot]
    by_cases h4 : c1.length ≥ 4
    · have hm : min c1.length 4 = 4 := by omega
      rw [hm]
      have e1 : w1.take 4 = w1 := List.take_of_length_le (by omega)
      have e2 : w1.drop 4 = [] := List.drop_eq_nil_of_le (by omega)
      rw [e1, e2]
      refine ⟨by simp [List.append_assoc], ?_⟩
      simp only [List.nil_append, List.length_drop]
      omega
    · have hm : min c1.length 4 = c1.length := by omega
      rw [hm]
      simp only [Nat.sub_self, List.take_zero, List.append_nil, List.drop_zero]
      refine ⟨by rw [← List.append_assoc, List.take_append_drop], ?_⟩
      simp only [List.length_append, List.length_drop]
      omega

/-- C12 (truncWriter): however the deflate stream is chunked into `Write` calls, what is passed on followed by what is
    held back is the stream, and what is held back is its last four bytes (all of it while shorter) -/
theorem twWrites_spec : ∀ (cs : List Bytes) (w : Bytes), w.length ≤ 4 →
    (twWrites w cs).1 ++ (twWrites w cs).2 = w ++ cs.flatten ∧ (twWrites w cs).2.length = min 4 (w.length + cs.flatten.length) := by
  intro cs
  induction cs with
  | nil => intro w hw; simp [twWrites]; omega
  | cons c cs ih =>
    intro w hw
    obtain ⟨h1, h2⟩ := twWrite_spec w c hw
    have hw' : (twWrite w c).2.length ≤ 4 := by rw [h2]; omega
    obtain ⟨i1, i2⟩ := ih (twWrite w c).2 hw'
    simp only [twWrites, List.flatten_cons]
    refine ⟨?_, ?_⟩
    · rw [List.append_assoc, i1, ← List.append_assoc, h1, List.append_assoc]
    · rw [i2, h2]
      simp only [List.length_append]
      omega

/-- what the receiver hands to the inflater (`message ++ flateReaderTail`, the constant regenerated from the code) is the
    sender's raw deflate stream — sync-flush marker `00 00 ff ff` included — followed by a final empty stored block:
    `truncWriter` and `flateReaderTail` are inverse on every stream that ends with the marker, however it was chunked -/
theorem trunc_tail (cs : List Bytes) (body : Bytes) (h : cs.flatten = body ++ [0, 0, 255, 255]) :
    (twWrites [] cs).1 ++ Gen.flateReaderTail = cs.flatten ++ [1, 0, 0, 255, 255] := by
  obtain ⟨h1, h2⟩ := twWrites_spec cs [] (by simp)
  simp only [List.nil_append, List.length_nil, Nat.zero_add] at h1 h2
  have hlen : cs.flatten.length = body.length + 4 := by rw [h]; simp
  have h4 : (twWrites [] cs).2.length = 4 := by rw [h2, hlen]; omega
  -- passed-on part = body, held-back part = the marker
  have hsplit : (twWrites [] cs).1 ++ (twWrites [] cs).2 = body ++ [0, 0, 255, 255] := by rw [h1, h]
  have hl1 : (twWrites [] cs).1.length = body.length := by
    have := congrArg List.length hsplit
    simp only [List.length_append, h4, List.length_cons, List.length_nil] at this
    omega
  have hb : (twWrites [] cs).1 = body := by
    have := List.append_inj hsplit hl1
    exact this.1
  rw [hb, h]
  have : Gen.flateReaderTail = [0, 0, 255, 255] ++ [1, 0, 0, 255, 255] := by decide
  rw [this, List.append_assoc]

end Ws
