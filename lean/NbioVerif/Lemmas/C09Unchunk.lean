import NbioVerif.Lemmas.C09Main
/-! Reference decoder of the chunked transfer coding (RFC 7230 §4.1, no chunk extensions) and the round
trip `unchunk (encode ds ++ last-chunk line ++ T) = (concat ds, T)`. -/
namespace Resp

def isHexD (c : UInt8) : Bool :=
  (48 ≤ c.toNat && c.toNat ≤ 57) || (97 ≤ c.toNat && c.toNat ≤ 102) || (65 ≤ c.toNat && c.toNat ≤ 70)
def hexVal (c : UInt8) : Nat :=
  if c.toNat ≤ 57 then c.toNat - 48 else if c.toNat ≥ 97 then c.toNat - 87 else c.toNat - 55
def parseHex (b : Bytes) : Nat := b.foldl (fun a c => a * 16 + hexVal c) 0

/-- reference decoder: chunk-size line, data, CRLF, ... until the size-0 line; returns the body and what
follows the "0\r\n" line (trailer section + final CRLF) -/
def unchunk : Nat → Bytes → Option (Bytes × Bytes)
  | 0, _ => none
  | fuel+1, b =>
    let digits := b.takeWhile isHexD
    if digits = [] then none else
    match b.dropWhile isHexD with
    | 13 :: 10 :: rest =>
      let n := parseHex digits
      if n = 0 then some ([], rest)
      else if rest.length < n + 2 then none
      else if (rest.drop n).take 2 ≠ CRLF then none
      else (unchunk fuel (rest.drop (n + 2))).map fun p => (rest.take n ++ p.1, p.2)
    | _ => none

theorem hexDigit_ok : ∀ m, m < 16 → isHexD (hexDigit m) = true ∧ hexVal (hexDigit m) = m := by decide

theorem parseHex_snoc (a : Bytes) (c : UInt8) : parseHex (a ++ [c]) = parseHex a * 16 + hexVal c := by
  unfold parseHex; simp [List.foldl_append]

theorem hexDigits_spec (f n : Nat) (hf : n < f) :
    parseHex (hexDigits f n) = n ∧ (∀ c ∈ hexDigits f n, isHexD c = true) ∧ hexDigits f n ≠ [] := by
  induction f generalizing n with
  | zero => omega
  | succ f ih =>
    unfold hexDigits
    split
    · rename_i h16
      obtain ⟨h1, h2⟩ := hexDigit_ok n h16
      refine ⟨by simp [parseHex, h2], ?_, by simp⟩
      intro c hc; simp at hc; rw [hc]; exact h1
    · rename_i h16
      have hlt : n / 16 < f := by omega
      obtain ⟨i1, i2, i3⟩ := ih (n / 16) hlt
      obtain ⟨h1, h2⟩ := hexDigit_ok (n % 16) (Nat.mod_lt _ (by decide))
      refine ⟨?_, ?_, by simp⟩
      · rw [parseHex_snoc, i1, h2]; omega
      · intro c hc
        simp only [List.mem_append, List.mem_singleton] at hc
        rcases hc with hc | hc
        · exact i2 c hc
        · rw [hc]; exact h1

/-- sizes the length formatter of the response writer can express -/
def maxChunk : Nat := 0x7FFFFFFF

theorem fmtHex_spec (n : Nat) (hn : n ≤ maxChunk) :
    parseHex (fmtHex n) = n ∧ (∀ c ∈ fmtHex n, isHexD c = true) ∧ fmtHex n ≠ [] := by
  unfold fmtHex
  have : ¬ n > 0x7FFFFFFF := by unfold maxChunk at hn; omega
  rw [if_neg this]
  exact hexDigits_spec (n + 1) n (by omega)

theorem takeWhile_hex (a x : Bytes) (ha : ∀ c ∈ a, isHexD c = true) :
    (a ++ 13 :: x).takeWhile isHexD = a ∧ (a ++ 13 :: x).dropWhile isHexD = 13 :: x := by
  induction a with
  | nil => exact ⟨by simp [List.takeWhile, show isHexD 13 = false by decide], by simp [List.dropWhile, show isHexD 13 = false by decide]⟩
  | cons c t ih =>
    have hc := ha c (List.mem_cons_self ..)
    obtain ⟨i1, i2⟩ := ih (fun c' h' => ha c' (List.mem_cons_of_mem _ h'))
    exact ⟨by simp [List.takeWhile, hc, i1], by simp [List.dropWhile, hc, i2]⟩

/-- **chunked round trip.** Decoding the chunk encoding of non-empty payloads `ds` (each at most
2^31-1 bytes) followed by the last-chunk line and anything `T` gives back exactly `concat ds` and `T`. -/
theorem unchunk_encode (ds : List Bytes) (T : Bytes) (hne : ∀ d ∈ ds, d ≠ []) (hsz : ∀ d ∈ ds, d.length ≤ maxChunk) :
    unchunk (ds.length + 1) ((ds.map chunkEnc).flatten ++ (str "0\r\n" ++ T)) = some (ds.flatten, T) := by
  induction ds with
  | nil =>
    simp only [List.map_nil, List.flatten_nil, List.nil_append, List.length_nil, Nat.zero_add]
    have e0 : str "0\r\n" = [48, 13, 10] := by decide
    have e : str "0\r\n" ++ T = [48] ++ 13 :: (10 :: T) := by rw [e0]; rfl
    rw [e]
    unfold unchunk
    obtain ⟨t1, t2⟩ := takeWhile_hex [48] (10 :: T) (by decide)
    simp only [t1, t2]
    simp [parseHex, hexVal]
  | cons d ds ih =>
    have hd := hne d (List.mem_cons_self ..)
    have hs := hsz d (List.mem_cons_self ..)
    obtain ⟨f1, f2, f3⟩ := fmtHex_spec d.length hs
    have ih' := ih (fun x hx => hne x (List.mem_cons_of_mem _ hx)) (fun x hx => hsz x (List.mem_cons_of_mem _ hx))
    have e : ((d :: ds).map chunkEnc).flatten ++ (str "0\r\n" ++ T) =
        fmtHex d.length ++ 13 :: (10 :: (d ++ (13 :: 10 :: ((ds.map chunkEnc).flatten ++ (str "0\r\n" ++ T))))) := by
      simp [chunkEnc, chunkHdr, CRLF, List.append_assoc]
    rw [e]
    unfold unchunk
    obtain ⟨t1, t2⟩ := takeWhile_hex (fmtHex d.length) (10 :: (d ++ (13 :: 10 :: ((ds.map chunkEnc).flatten ++ (str "0\r\n" ++ T))))) f2
    simp only [t1, t2, f1]
    have hl : d.length ≠ 0 := by
      intro hc; exact hd (List.eq_nil_of_length_eq_zero hc)
    simp only [f3, ↓reduceIte, hl, List.length_cons, List.length_append]
    have h1 : ¬ (d.length + ((((ds.map chunkEnc).flatten).length + ((str "0\r\n").length + T.length)) + 1 + 1) < d.length + 2) := by omega
    simp only [h1, ↓reduceIte, List.drop_left', List.drop_append_of_le_length, Nat.le_refl]
    simp [CRLF, List.take_append_of_le_length, List.drop_append_of_le_length, ih']

end Resp
