import NbioVerif.Model.ReadPath
/-! ReadPath: the UDP session key (byte-level model of `getUDPNetAddrKey`) is injective within an address family -/
namespace ReadPath

/-- addresses a socket can report: 16-byte IPv6 address, port a `uint16`, zone a `uint32` -/
def Addr.wf : Addr → Prop
  | .v4 _ _ _ _ p => p < 65536
  | .v6 ip p z => ip.length = 16 ∧ p < 65536 ∧ z < 4294967296

def Addr.sameFamily : Addr → Addr → Prop
  | .v4 .., .v4 .. => True
  | .v6 .., .v6 .. => True
  | _, _ => False

theorem ofNat_inj (x y : Nat) (hx : x < 256) (hy : y < 256) (h : UInt8.ofNat x = UInt8.ofNat y) : x = y := by
  have := congrArg UInt8.toNat h
  simp only [UInt8.toNat_ofNat'] at this
  omega

theorem le16_inj (p q : Nat) (hp : p < 65536) (hq : q < 65536) (h : le16 p = le16 q) : p = q := by
  simp only [le16, List.cons.injEq, and_true] at h
  have h1 := ofNat_inj _ _ (by omega) (by omega) h.1
  have h2 := ofNat_inj _ _ (by omega) (by omega) h.2
  omega

theorem le32_inj (p q : Nat) (hp : p < 4294967296) (hq : q < 4294967296) (h : le32 p = le32 q) : p = q := by
  simp only [le32, List.cons.injEq, and_true] at h
  have h1 := ofNat_inj _ _ (by omega) (by omega) h.1
  have h2 := ofNat_inj _ _ (by omega) (by omega) h.2.1
  have h3 := ofNat_inj _ _ (by omega) (by omega) h.2.2.1
  have h4 := ofNat_inj _ _ (by omega) (by omega) h.2.2.2
  omega

/-- C02 (iv): `getUDPNetAddrKey a = getUDPNetAddrKey b ↔ a = b` within an address family -/
theorem udpKey_inj (a b : Addr) (ha : a.wf) (hb : b.wf) (hf : a.sameFamily b) : udpKey a = udpKey b ↔ a = b := by
  constructor
  · intro h
    cases a with
    | v4 a1 a2 a3 a4 p =>
      cases b with
      | v4 b1 b2 b3 b4 q =>
        simp only [udpKey, List.cons_append, List.nil_append, List.cons.injEq] at h
        obtain ⟨h1, h2, h3, h4, h5⟩ := h
        rw [List.append_assoc, List.append_assoc] at h5
        have h6 := List.append_cancel_left h5
        have h7 : le16 p = le16 q := List.append_inj_left h6 (by simp [le16])
        have := le16_inj p q ha hb h7
        subst h1 h2 h3 h4 this; rfl
      | v6 ip q z => exact hf.elim
    | v6 ip p z =>
      cases b with
      | v4 b1 b2 b3 b4 q => exact hf.elim
      | v6 ip' q z' =>
        obtain ⟨l1, p1, z1⟩ := ha
        obtain ⟨l2, p2, z2⟩ := hb
        simp only [udpKey, l1, l2, Nat.sub_self, List.replicate_zero, List.append_nil] at h
        have t1 : ip.take 16 = ip := List.take_of_length_le (by omega)
        have t2 : ip'.take 16 = ip' := List.take_of_length_le (by omega)
        rw [t1, t2, List.append_assoc, List.append_assoc] at h
        have hip := List.append_inj_left h (by omega)
        have hrest := List.append_inj_right h (by omega)
        have hp := List.append_inj_left hrest (by simp [le16])
        have hz := List.append_inj_right hrest (by simp [le16])
        have := le16_inj p q p1 p2 hp
        have := le32_inj z z' z1 z2 hz
        subst hip; subst_vars; rfl
  · intro h; rw [h]

/-- across families the key is NOT injective (an IPv4 remote and an IPv6 remote whose address starts with the same
    four bytes and is otherwise zero); one socket only ever reports one family -/
example : udpKey (.v4 1 2 3 4 80) = udpKey (.v6 [1, 2, 3, 4, 0, 0, 0, 0, 0, 0, 0, 0, 0, 0, 0, 0] 80 0) := by decide

end ReadPath
