import NbioVerif.Model.Resp
import NbioVerif.Model.OwnConn
import NbioVerif.Generated.Src_RespConst
import NbioVerif.Generated.Src_ConnConst
/-! Bridge between the hand-written response / ownership models and the constants `tools/go2lean` translates from
the Go source (docs/go2lean.md): the 64 KiB threshold every buffering decision of `Response.Write`, `writeChunk`
and `flush` compares with, and the merge limit of the core Conn's write queue as the ownership twin `OwnC` uses it.
A change of either constant in the Go source breaks these proof obligations. -/

namespace Resp

/-- `maxPacket` (thresholds of `write`, `writeChunk`, `appendBody`, `appendTail`, `takeHead`, `mergeBody` — and of the
ownership twin `Own`, which uses the same definition) is the source constant `maxPacketSize` of nbhttp/response.go -/
theorem src_maxPacket : (maxPacket : Int) = Src.RespConst.maxPacketSize := by decide

end Resp

namespace OwnC

/-- the write-queue twin merges into the tail buffer up to the source constant `maxWriteCacheOrFlushSize` -/
theorem src_maxCache : (maxCache : Int) = Src.ConnConst.maxWriteCacheOrFlushSize := by decide

end OwnC
