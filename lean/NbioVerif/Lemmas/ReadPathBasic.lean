import NbioVerif.Model.ReadPath
/-! ReadPath: spec lemma of `doRead` (one case per kernel answer) and the two bookkeeping invariants
(`Kind`: a stream conn has no datagram queue and vice versa; `Flg`: the flags of the event being handled are
backed by the kernel state) -/
namespace ReadPath

/-- all the ways `ReadAndGetConn` can answer, with the resulting state spelled out -/
inductive ReadRel (g : Cfg) (s : St) : Ans → St → Prop
  | closed : s.closed = true → ReadRel g s .closed s
  | eintr : s.closed = false → s.k.intr > 0 →
      ReadRel g s .eintr { s with reads := s.reads + 1, k := { s.k with intr := s.k.intr - 1 } }
  | dgram (a : Addr) (d : List UInt8) (rest : List (Addr × List UInt8)) :
      s.closed = false → s.k.intr = 0 → g.udp = true → s.k.dq = (a, d) :: rest →
      ReadRel g s (.data (some a) (d.take g.rbs)) { s with reads := s.reads + 1, k := { s.k with dq := rest } }
  | derr : s.closed = false → s.k.intr = 0 → g.udp = true → s.k.dq = [] → s.k.rerr = true →
      ReadRel g s .err { s with reads := s.reads + 1 }
  | dagain : s.closed = false → s.k.intr = 0 → g.udp = true → s.k.dq = [] → s.k.rerr = false →
      ReadRel g s .eagain { s with reads := s.reads + 1, idle := s.idle + 1 }
  | bytes : s.closed = false → s.k.intr = 0 → g.udp = false → s.k.rq ≠ [] →
      ReadRel g s (.data none (s.k.rq.take g.rbs)) { s with reads := s.reads + 1, k := { s.k with rq := s.k.rq.drop g.rbs } }
  | serr : s.closed = false → s.k.intr = 0 → g.udp = false → s.k.rq = [] → s.k.rerr = true →
      ReadRel g s .err { s with reads := s.reads + 1 }
  | szero : s.closed = false → s.k.intr = 0 → g.udp = false → s.k.rq = [] → s.k.rerr = false → s.k.eof = true →
      ReadRel g s .zero { s with reads := s.reads + 1 }
  | sagain : s.closed = false → s.k.intr = 0 → g.udp = false → s.k.rq = [] → s.k.rerr = false → s.k.eof = false →
      ReadRel g s .eagain { s with reads := s.reads + 1, idle := s.idle + 1 }

theorem doRead_rel (g : Cfg) (s : St) : ReadRel g s (doRead g s).1 (doRead g s).2 := by
  unfold doRead
  split
  · next hc => exact .closed hc
  · next hc =>
    have hc' : s.closed = false := by simpa using hc
    dsimp only
    split
    · next hi => exact .eintr hc' hi
    · next hi =>
      have hi0 : s.k.intr = 0 := by omega
      split
      · next hu =>
        split
        · next a d rest hd => exact .dgram a d rest hc' hi0 hu hd
        · next hd =>
          split
          · next he => exact .derr hc' hi0 hu hd he
          · next he => exact .dagain hc' hi0 hu hd (by simpa using he)
      · next hu =>
        have hu' : g.udp = false := by simpa using hu
        split
        · next hq =>
          split
          · next he => exact .serr hc' hi0 hu' hq he
          · next he =>
            split
            · next hf => exact .szero hc' hi0 hu' hq (by simpa using he) hf
            · next hf => exact .sagain hc' hi0 hu' hq (by simpa using he) (by simpa using hf)
        · next x rest hq =>
          have hne : s.k.rq ≠ [] := by rw [hq]; simp
          exact .bytes hc' hi0 hu' hne

theorem doRead_rel' (g : Cfg) (s : St) (a : Ans) (t : St) (h : doRead g s = (a, t)) : ReadRel g s a t := by
  have := doRead_rel g s
  rw [h] at this
  exact this

/-- what `doRead` never touches -/
theorem doRead_frame (g : Cfg) (s : St) :
    let t := (doRead g s).2
    t.closed = s.closed ∧ t.cerr = s.cerr ∧ t.re = s.re ∧ t.ps = s.ps ∧ t.task = s.task ∧ t.sess = s.sess ∧
    t.opens = s.opens ∧ t.dlv = s.dlv ∧ t.sentS = s.sentS ∧ t.sentD = s.sentD ∧ t.deqD = s.deqD ∧ t.mods = s.mods ∧
    t.overlap = s.overlap ∧ t.lost = s.lost ∧ t.k.eof = s.k.eof ∧ t.k.rerr = s.k.rerr ∧ t.k.reg = s.k.reg ∧
    t.k.armed = s.k.armed ∧ t.k.edge = s.k.edge := by
  rcases hd : doRead g s with ⟨a, t⟩
  have h := doRead_rel' g s a t hd
  cases h <;> simp

theorem doRead_hup (g : Cfg) (s : St) : (doRead g s).2.hup = s.hup := by
  rcases hd : doRead g s with ⟨a, t⟩
  have h := doRead_rel' g s a t hd
  cases h <;> simp

/-- `doRead` answers `.closed` exactly on a closed conn -/
theorem doRead_closed_iff (g : Cfg) (s : St) : (doRead g s).1 = .closed ↔ s.closed = true := by
  unfold doRead
  split
  · simp_all
  · next hc =>
    dsimp only
    constructor
    · intro h
      repeat' split at h
      all_goals simp at h
    · intro h; exact absurd h hc

/-- does the loop go round again after this answer? -/
def Ans.again (g : Cfg) : Ans → Bool
  | .data _ b => !(b.length < g.rbs && !g.udp)
  | .eintr => true
  | _ => false

end ReadPath
