import NbioVerif.Model.Own
/-! Ownership invariant of the response-writer twin (`Own`): projection lemmas of the heap
operations and one preservation lemma per twin function. -/
namespace Own

namespace Heap
@[simp] theorem log_live (h : Heap) (e) : (h.log e).live = h.live := by
  unfold log; split
  · split <;> rfl
  · rfl
@[simp] theorem log_bad (h : Heap) (e) : (h.log e).bad = h.bad := by
  unfold log; split
  · split <;> rfl
  · rfl
@[simp] theorem log_next (h : Heap) (e) : (h.log e).next = h.next := by
  unfold log; split
  · split <;> rfl
  · rfl
@[simp] theorem flag_live (h : Heap) (b) : (h.flag b).live = h.live := by unfold flag; split <;> rfl
@[simp] theorem flag_next (h : Heap) (b) : (h.flag b).next = h.next := by unfold flag; split <;> rfl

@[simp] theorem touch_live (h : Heap) (id e) : (h.touch id e).live = h.live := by
  unfold touch; split
  · split <;> simp
  · simp
@[simp] theorem touch_next (h : Heap) (id e) : (h.touch id e).next = h.next := by
  unfold touch; split
  · split <;> simp
  · simp
theorem touch_bad (h : Heap) (id e) (hl : h.live id = true) : (h.touch id e).bad = h.bad := by
  unfold touch; rw [if_pos hl]; split <;> simp

@[simp] theorem free_next (h : Heap) (id) : (h.free id).next = h.next := by
  unfold free; split <;> simp
theorem free_bad (h : Heap) (id) (hl : h.live id = true) : (h.free id).bad = h.bad := by
  unfold free; rw [if_pos hl]; simp
theorem free_live (h : Heap) (id) (hl : h.live id = true) : (h.free id).live = fun x => x != id && h.live x := by
  unfold free; rw [if_pos hl]; simp
theorem free_live_at (h : Heap) (id x) (hl : h.live id = true) : (h.free id).live x = (x != id && h.live x) := by
  rw [free_live h id hl]
/-- whatever happens, Free never makes anything live -/
theorem free_live_le (h : Heap) (id x) (hx : (h.free id).live x = true) : h.live x = true := by
  unfold free at hx; split at hx
  · simp at hx; exact hx.2
  · simpa using hx

@[simp] theorem malloc_id (h : Heap) (n) : (h.malloc n).2 = h.next := rfl
@[simp] theorem malloc_next (h : Heap) (n) : (h.malloc n).1.next = h.next + 1 := by simp [malloc]
@[simp] theorem malloc_bad (h : Heap) (n) : (h.malloc n).1.bad = h.bad := by simp [malloc]
@[simp] theorem malloc_live (h : Heap) (n) : (h.malloc n).1.live = fun x => x == h.next || h.live x := by simp [malloc]
end Heap

/-! ### O-level projections -/
section proj
variable (o : O) (id : Nat)

@[simp] theorem touch_buffer (e) : (o.touch id e).buffer = o.buffer := rfl
@[simp] theorem touch_body (e) : (o.touch id e).bodyBuffer = o.bodyBuffer := rfl
@[simp] theorem touch_written (e) : (o.touch id e).bodyWritten = o.bodyWritten := rfl
@[simp] theorem touch_henc (e) : (o.touch id e).headEncoded = o.headEncoded := rfl
@[simp] theorem touch_att (e) : (o.touch id e).attempts = o.attempts := rfl
@[simp] theorem touch_heap (e) : (o.touch id e).heap = o.heap.touch id e := rfl
@[simp] theorem append_eq : o.append id = o.touch id (some (.append id)) := rfl
@[simp] theorem free_buffer : (o.free id).buffer = o.buffer := rfl
@[simp] theorem free_body : (o.free id).bodyBuffer = o.bodyBuffer := rfl
@[simp] theorem free_written : (o.free id).bodyWritten = o.bodyWritten := rfl
@[simp] theorem free_henc : (o.free id).headEncoded = o.headEncoded := rfl
@[simp] theorem free_att : (o.free id).attempts = o.attempts := rfl
@[simp] theorem free_heap : (o.free id).heap = o.heap.free id := rfl
@[simp] theorem malloc_buffer (n) : (o.malloc n).1.buffer = o.buffer := rfl
@[simp] theorem malloc_body (n) : (o.malloc n).1.bodyBuffer = o.bodyBuffer := rfl
@[simp] theorem malloc_written (n) : (o.malloc n).1.bodyWritten = o.bodyWritten := rfl
@[simp] theorem malloc_henc (n) : (o.malloc n).1.headEncoded = o.headEncoded := rfl
@[simp] theorem malloc_att (n) : (o.malloc n).1.attempts = o.attempts := rfl
@[simp] theorem malloc_heap (n) : (o.malloc n).1.heap = (o.heap.malloc n).1 := rfl
@[simp] theorem malloc_snd (n) : (o.malloc n).2 = o.heap.next := rfl

variable (e : Env) (src : Option Nat) (len : Nat)
@[simp] theorem send_buffer : (send e o src len).1.buffer = o.buffer := by
  unfold send; dsimp only; (repeat' split) <;> rfl
@[simp] theorem send_body : (send e o src len).1.bodyBuffer = o.bodyBuffer := by
  unfold send; dsimp only; (repeat' split) <;> rfl
@[simp] theorem send_written : (send e o src len).1.bodyWritten = o.bodyWritten := by
  unfold send; dsimp only; (repeat' split) <;> rfl
@[simp] theorem send_henc : (send e o src len).1.headEncoded = o.headEncoded := by
  unfold send; dsimp only; (repeat' split) <;> rfl
@[simp] theorem send_live : (send e o src len).1.heap.live = o.heap.live := by
  unfold send; dsimp only; (repeat' split) <;> simp
@[simp] theorem send_next : (send e o src len).1.heap.next = o.heap.next := by
  unfold send; dsimp only; (repeat' split) <;> simp
theorem send_bad (hl : ∀ id, src = some id → o.heap.live id = true) :
    (send e o src len).1.heap.bad = o.heap.bad := by
  unfold send; dsimp only; repeat' split
  all_goals first | rfl | (simp; done) | (simp; exact Heap.touch_bad _ _ _ (hl _ rfl))
end proj

end Own

/-! ### the invariant -/
namespace Own
open Resp (maxPacket WRes RKind)

variable {B : Nat} {S : Nat → Bool}

/-- no violation so far; ids are handed out in increasing order; each owner field of the response
holds a live buffer; the two fields never hold the same buffer -/
structure Inv (B : Nat) (S : Nat → Bool) (o : O) : Prop where
  ok : o.heap.bad = none
  fresh : ∀ x, o.heap.live x = true → x < o.heap.next
  b1 : ∀ id n, o.buffer = some (id, n) → o.heap.live id = true
  b2 : ∀ id n, o.bodyBuffer = some (id, n) → o.heap.live id = true
  ne : ∀ a m b n, o.buffer = some (a, m) → o.bodyBuffer = some (b, n) → a ≠ b
  own1 : ∀ id n, o.buffer = some (id, n) → B ≤ id
  own2 : ∀ id n, o.bodyBuffer = some (id, n) → B ≤ id
  frame : ∀ x, x < B → S x = true → o.heap.live x = true
  basele : B ≤ o.heap.next

/-- `id` is a live buffer held in a local variable: no owner field refers to it -/
structure Held (B : Nat) (o : O) (id : Nat) : Prop where
  live : o.heap.live id = true
  own : B ≤ id
  nb : ∀ m, o.buffer ≠ some (id, m)
  nbb : ∀ n, o.bodyBuffer ≠ some (id, n)

/-- closes the conjuncts of `Inv` / `Held`: rewrite the heap projections, then first-order reasoning
about ids (freshness, distinctness) by `grind` -/
macro "own_auto" : tactic => `(tactic|
  (constructor <;> simp_all [Heap.touch_bad, Heap.free_bad, Heap.free_live, send_bad] <;>
   grind [Heap.touch_bad, Heap.free_bad, Heap.free_live_at, send_bad]))

theorem inv_init : Inv 0 S {} := by constructor <;> simp

theorem encodeHead_inv (e : Env) (o : O) (h : Inv B S o) : Inv B S (encodeHead e o) := by
  obtain ⟨h1, h2, h3, h4, h5, h6, h7, h8, h9⟩ := h
  unfold encodeHead
  dsimp only
  split
  · constructor <;> assumption
  · own_auto

theorem chunkTail_inv (e : Env) (o : O) (id n0 l : Nat) (h : Inv B S o) (hh : Held B o id) :
    Inv B S (chunkTail e o id n0 l).1 := by
  obtain ⟨h1, h2, h3, h4, h5, h6, h7, h8, h9⟩ := h
  obtain ⟨g1, g0, g2, g3⟩ := hh
  unfold chunkTail
  dsimp only
  (repeat' split) <;> own_auto

theorem writeChunk_inv (e : Env) (o : O) (l : Nat) (h : Inv B S o) : Inv B S (writeChunk e o l).1 := by
  have h' := encodeHead_inv e o h
  unfold writeChunk
  dsimp only
  generalize encodeHead e o = o1 at *
  obtain ⟨h1, h2, h3, h4, h5, h6, h7, h8, h9⟩ := h'
  split
  · split
    · own_auto
    · split
      · apply chunkTail_inv <;> own_auto
      · own_auto
  · split
    · own_auto
    · apply chunkTail_inv <;> own_auto

theorem takeHead_inv (e : Env) (o : O) (l cl : Nat) (h : Inv B S o) : Inv B S (takeHead e o l cl).1 := by
  unfold takeHead
  split
  · have h' := encodeHead_inv e o h
    dsimp only
    generalize encodeHead e o = o1 at *
    obtain ⟨h1, h2, h3, h4, h5, h6, h7, h8, h9⟩ := h'
    (repeat' split) <;> own_auto
  · exact h

theorem appendTail_inv (e : Env) (o : O) (id bl l cl : Nat) (h : Inv B S o)
    (hl : o.heap.live id = true) (hown : B ≤ id) (hnb : ∀ m, o.buffer ≠ some (id, m)) :
    Inv B S (appendTail e o id bl l cl).1 := by
  obtain ⟨h1, h2, h3, h4, h5, h6, h7, h8, h9⟩ := h
  unfold appendTail
  dsimp only
  (repeat' split) <;> own_auto

theorem sendDirect_inv (e : Env) (o : O) (l : Nat) (h : Inv B S o) : Inv B S (sendDirect e o l).1 := by
  obtain ⟨h1, h2, h3, h4, h5, h6, h7, h8, h9⟩ := h
  unfold sendDirect
  dsimp only
  (repeat' split) <;> own_auto

/-- side conditions (liveness of a held id, distinctness) -/
macro "own_side" : tactic => `(tactic|
  first
  | (simp_all [Heap.touch_bad, Heap.free_bad, Heap.free_live, send_bad]; done)
  | (simp_all [Heap.touch_bad, Heap.free_bad, Heap.free_live, send_bad]; grind)
  | grind)

theorem sendCached_inv (e : Env) (o : O) (id bl : Nat) (h : Inv B S o) (hb : o.bodyBuffer = some (id, bl)) :
    Inv B S (sendCached e o id bl).1 ∧
      ((sendCached e o id bl).2 = true → ∃ n, (sendCached e o id bl).1.bodyBuffer = some (id, n)) := by
  obtain ⟨h1, h2, h3, h4, h5, h6, h7, h8, h9⟩ := h
  unfold sendCached
  dsimp only
  (repeat' split) <;> refine ⟨?_, ?_⟩ <;> first | own_auto | own_side

theorem appendBody_inv (e : Env) (o : O) (l cl : Nat) (h : Inv B S o) : Inv B S (appendBody e o l cl).1 := by
  unfold appendBody
  split
  · split
    · apply sendDirect_inv
      obtain ⟨h1, h2, h3, h4, h5, h6, h7, h8, h9⟩ := h
      own_auto
    · dsimp only
      obtain ⟨h1, h2, h3, h4, h5, h6, h7, h8, h9⟩ := h
      apply appendTail_inv
      · own_auto
      · own_side
      · own_side
      · own_side
  · rename_i id bl hb
    split
    · have hs := sendCached_inv e o id bl h hb
      split
      · rename_i o2 hsc
        rw [hsc] at hs
        exact hs.1
      · rename_i o2 hsc
        rw [hsc] at hs
        obtain ⟨⟨h1, h2, h3, h4, h5, h6, h7, h8, h9⟩, hs2⟩ := hs
        obtain ⟨n, hn⟩ := hs2 rfl
        dsimp only at hn
        split
        · apply sendDirect_inv
          own_auto
        · apply appendTail_inv
          · constructor <;> assumption
          · own_side
          · own_side
          · own_side
    · obtain ⟨h1, h2, h3, h4, h5, h6, h7, h8, h9⟩ := h
      apply appendTail_inv
      · constructor <;> assumption
      · own_side
      · own_side
      · own_side

theorem write_inv (e : Env) (o : O) (l : Nat) (h : Inv B S o) : Inv B S (write e o l).1 := by
  unfold write
  split
  · exact h
  · split
    · exact writeChunk_inv e o l h
    · split
      · exact h
      · split
        · exact h
        · have ht := takeHead_inv e o l ‹Nat› h
          split
          · rename_i o2 hsc; rw [hsc] at ht; exact ht
          · rename_i o2 hsc; rw [hsc] at ht; exact appendBody_inv e o2 l _ ht

theorem copyLoop_inv (e : Env) (f : Nat) (o : O) (rem w : Nat) (h : Inv B S o) : Inv B S (copyLoop e f o rem w).1 := by
  induction f generalizing o rem w with
  | zero => exact h
  | succ f ih =>
    unfold copyLoop
    dsimp only
    split
    · exact h
    · have hs : Inv B S (send e o none (min rem 32768)).1 := by
        obtain ⟨h1, h2, h3, h4, h5, h6, h7, h8, h9⟩ := h
        own_auto
      split
      · exact ih _ _ _ hs
      · exact hs

theorem sendFile_inv (e : Env) (o : O) (h : Inv B S o) : Inv B S (sendFile e o).1 := by
  obtain ⟨h1, h2, h3, h4, h5, h6, h7, h8, h9⟩ := h
  unfold sendFile
  dsimp only
  own_auto

theorem sendHeadFirst_inv (e : Env) (o : O) (h : Inv B S o) : Inv B S (sendHeadFirst e o).1 := by
  obtain ⟨h1, h2, h3, h4, h5, h6, h7, h8, h9⟩ := h
  unfold sendHeadFirst
  dsimp only
  (repeat' split) <;> own_auto

theorem sendBodyFirst_inv (e : Env) (o : O) (h : Inv B S o) : Inv B S (sendBodyFirst e o).1 := by
  obtain ⟨h1, h2, h3, h4, h5, h6, h7, h8, h9⟩ := h
  unfold sendBodyFirst
  dsimp only
  (repeat' split) <;> own_auto

theorem readCopy_inv (e : Env) (o : O) (k : RKind) (n : Nat) (h : Inv B S o) : Inv B S (readCopy e o k n).1 := by
  unfold readCopy
  dsimp only
  split
  · exact h
  · split
    · have := sendFile_inv e _ h
      split <;> exact this
    · have := copyLoop_inv e (n + 1) _ n 0 h
      split <;> exact this

theorem readFrom_inv (e : Env) (o : O) (k : RKind) (n : Nat) (h : Inv B S o) : Inv B S (readFrom e o k n).1 := by
  have h1 := sendHeadFirst_inv e _ (encodeHead_inv e o h)
  have h2 := sendBodyFirst_inv e _ h1
  unfold readFrom
  dsimp only
  split
  · exact h1
  · split
    · exact h2
    · exact readCopy_inv e _ k n h2

theorem flushBuf_inv (e : Env) (o : O) (h : Inv B S o) : Inv B S (flushBuf e o) := by
  obtain ⟨h1, h2, h3, h4, h5, h6, h7, h8, h9⟩ := h
  unfold flushBuf
  dsimp only
  (repeat' split) <;> own_auto

theorem flushBodyBuf_inv (e : Env) (o : O) (h : Inv B S o) : Inv B S (flushBodyBuf e o) := by
  obtain ⟨h1, h2, h3, h4, h5, h6, h7, h8, h9⟩ := h
  unfold flushBodyBuf
  dsimp only
  (repeat' split) <;> own_auto

theorem flushOp_inv (e : Env) (o : O) (h : Inv B S o) : Inv B S (flushOp e o) :=
  flushBodyBuf_inv e _ (flushBuf_inv e _ (encodeHead_inv e o h))

theorem mergeBody_inv (e : Env) (o : O) (hid hl : Nat) (h : Inv B S o) (hb : o.buffer = some (hid, hl)) :
    Inv B S (mergeBody e o hid hl).1 := by
  unfold mergeBody
  cases hbb : o.bodyBuffer with
  | none => exact h
  | some b =>
    obtain ⟨bid, bl⟩ := b
    obtain ⟨h1, h2, h3, h4, h5, h6, h7, h8, h9⟩ := h
    have hne : hid ≠ bid := h5 _ _ _ _ hb hbb
    have hne' : bid ≠ hid := fun hc => hne hc.symm
    have l1 := h3 _ _ hb
    have l2 := h4 _ _ hbb
    dsimp only
    (repeat' split) <;> own_auto

theorem sendFreeBuffer_inv (e : Env) (o : O) (h : Inv B S o) : Inv B S (sendFreeBuffer e o).1 := by
  obtain ⟨h1, h2, h3, h4, h5, h6, h7, h8, h9⟩ := h
  unfold sendFreeBuffer
  dsimp only
  (repeat' split) <;> own_auto

theorem sendFreeBody_inv (e : Env) (o : O) (h : Inv B S o) : Inv B S (sendFreeBody e o).1 := by
  obtain ⟨h1, h2, h3, h4, h5, h6, h7, h8, h9⟩ := h
  unfold sendFreeBody
  dsimp only
  (repeat' split) <;> own_auto

theorem mergeStep_inv (e : Env) (o : O) (h : Inv B S o) : Inv B S (mergeStep e o).1 := by
  unfold mergeStep
  split
  · exact mergeBody_inv e o _ _ h ‹_›
  · exact h

theorem flushIdentity_inv (e : Env) (o : O) (h : Inv B S o) : Inv B S (flushIdentity e o).1 := by
  unfold flushIdentity
  dsimp only
  have hm := mergeStep_inv e o h
  have hb := sendFreeBuffer_inv e _ hm
  split
  · exact hm
  · split
    · exact hb
    · exact sendFreeBody_inv e _ hb

theorem flushChunked_inv (e : Env) (o : O) (h : Inv B S o) : Inv B S (flushChunked e o).1 := by
  obtain ⟨h1, h2, h3, h4, h5, h6, h7, h8, h9⟩ := h
  unfold flushChunked
  dsimp only
  (repeat' split) <;> own_auto

theorem releaseBuf_inv (o : O) (h : Inv B S o) : Inv B S (releaseBuf o) := by
  obtain ⟨h1, h2, h3, h4, h5, h6, h7, h8, h9⟩ := h
  unfold releaseBuf
  dsimp only
  (repeat' split) <;> own_auto

theorem releaseBody_inv (o : O) (h : Inv B S o) : Inv B S (releaseBody o) := by
  obtain ⟨h1, h2, h3, h4, h5, h6, h7, h8, h9⟩ := h
  unfold releaseBody
  dsimp only
  (repeat' split) <;> own_auto

theorem release_inv (o : O) (h : Inv B S o) : Inv B S (release o) := releaseBody_inv _ (releaseBuf_inv o h)

theorem finishFlush_inv (e : Env) (o : O) (h : Inv B S o) : Inv B S (finishFlush e o).1 := by
  unfold finishFlush
  dsimp only
  split
  · exact flushChunked_inv e _ (encodeHead_inv e o h)
  · exact flushIdentity_inv e _ (encodeHead_inv e o h)

theorem finish_inv (e : Env) (o : O) (h : Inv B S o) : Inv B S (finish e o).1 := by
  unfold finish
  exact release_inv _ (finishFlush_inv e o h)

/-- after releaseResponse no owner field holds anything -/
theorem release_empty (o : O) : (release o).buffer = none ∧ (release o).bodyBuffer = none := by
  unfold release releaseBody releaseBuf
  dsimp only
  (repeat' split) <;> simp_all

theorem step_inv (e : Env) (o : O) (op : Op) (h : Inv B S o) : Inv B S (step e o op).1 := by
  cases op with
  | write l => exact write_inv e o l h
  | flush => exact flushOp_inv e o h
  | readFrom k n => exact readFrom_inv e o k n h
  | finish => exact finish_inv e o h

theorem run_inv (o : O) (prog : List (Env × Op)) (h : Inv B S o) : Inv B S (run o prog) := by
  induction prog generalizing o with
  | nil => exact h
  | cons p rest ih => exact ih _ (step_inv p.1 o p.2 h)

end Own

namespace Own
/-- releaseResponse really returns what the response held: those buffers are dead afterwards -/
theorem release_dead {B : Nat} {S : Nat → Bool} (o : O) (h : Inv B S o) :
    (∀ id n, o.buffer = some (id, n) → (release o).heap.live id = false) ∧
    (∀ id n, o.bodyBuffer = some (id, n) → (release o).heap.live id = false) := by
  obtain ⟨h1, h2, h3, h4, h5, h6, h7, h8, h9⟩ := h
  unfold release releaseBuf releaseBody O.free
  constructor
  · intro id n hb
    have hl := h3 id n hb
    rw [hb]
    dsimp only
    cases hbb : o.bodyBuffer with
    | none => simp [Heap.free_live_at _ _ _ hl]
    | some p =>
      obtain ⟨b, m⟩ := p
      have hne := h5 id n b m hb hbb
      have hlb := h4 b m hbb
      have hlb' : (o.heap.free id).live b = true := by
        rw [Heap.free_live_at _ _ _ hl]; simp [hlb, Ne.symm hne]
      dsimp only
      rw [Heap.free_live_at _ _ _ hlb', Heap.free_live_at _ _ _ hl]
      simp
  · intro id n hbb
    have hl := h4 id n hbb
    cases hb : o.buffer with
    | none =>
      dsimp only
      rw [hbb]
      dsimp only
      simp [Heap.free_live_at _ _ _ hl]
    | some p =>
      obtain ⟨a, m⟩ := p
      have hne := h5 a m id n hb hbb
      have hla := h3 a m hb
      have hl' : (o.heap.free a).live id = true := by
        rw [Heap.free_live_at _ _ _ hla]; simp [hl, Ne.symm hne]
      dsimp only
      rw [hbb]
      dsimp only
      rw [Heap.free_live_at _ _ _ hl']
      simp
end Own
