import NbioVerif.Model.Pipeline
/-! C10 (a): invariant of the per-connection pipeline and the facts about `W` / `answered` it needs -/
namespace Pipeline
variable {α : Type}

/-! ### W: concatenated responses of a prefix of the requests -/

theorem W_zero (l : List (Req α)) : W l 0 = [] := by simp [W]

theorem W_succ (l : List (Req α)) (j : Nat) (r : Req α) (h : l[j]? = some r) :
    W l (j + 1) = W l j ++ r.resp := by
  simp [W, List.take_add_one, h]

theorem W_prefix (l : List (Req α)) {i j : Nat} (h : i ≤ j) : W l i <+: W l j := by
  obtain ⟨t, ht⟩ := List.take_prefix_take_left (l := l) h
  refine ⟨(t.map Req.resp).flatten, ?_⟩
  simp [W, ← ht]

theorem W_all (l : List (Req α)) : W l l.length = (l.map Req.resp).flatten := by simp [W]

/-! ### answered: index after the first closing request -/

/-- no request with index `< j` has a true close decision -/
def noCloseBefore (l : List (Req α)) (j : Nat) : Prop :=
  ∀ k r, k < j → l[k]? = some r → r.close = false

theorem noCloseBefore_tail {r : Req α} {rs : List (Req α)} {j : Nat}
    (h : noCloseBefore (r :: rs) (j + 1)) : r.close = false ∧ noCloseBefore rs j := by
  refine ⟨h 0 r (by omega) (by simp), ?_⟩
  intro k r' hk hr'
  exact h (k + 1) r' (by omega) (by simpa using hr')

theorem answered_le : ∀ (l : List (Req α)), answered l ≤ l.length
  | [] => by simp [answered]
  | r :: rs => by
    have := answered_le rs
    simp only [answered]; split <;> simp <;> omega

theorem answered_ge : ∀ (l : List (Req α)) (j : Nat), noCloseBefore l j → j ≤ l.length → j ≤ answered l
  | _, 0, _, _ => Nat.zero_le _
  | [], j + 1, _, hl => by simp at hl
  | r :: rs, j + 1, h, hl => by
    obtain ⟨h0, ht⟩ := noCloseBefore_tail h
    have := answered_ge rs j ht (by simpa using hl)
    simp only [answered, h0]; simp; omega

theorem answered_eq : ∀ (l : List (Req α)) (j : Nat) (r : Req α),
    noCloseBefore l j → l[j]? = some r → r.close = true → answered l = j + 1
  | [], _, _, _, hr, _ => by simp at hr
  | r0 :: rs, 0, r, _, hr, hc => by
    simp at hr; subst hr; simp [answered, hc]
  | r0 :: rs, j + 1, r, h, hr, hc => by
    obtain ⟨h0, ht⟩ := noCloseBefore_tail h
    have := answered_eq rs j r ht (by simpa using hr) hc
    simp only [answered, h0]; simp; omega

theorem answered_all : ∀ (l : List (Req α)), noCloseBefore l l.length →
    answered l = l.length ∧ l.any Req.close = false
  | [], _ => by simp [answered]
  | r :: rs, h => by
    obtain ⟨h0, ht⟩ := noCloseBefore_tail (j := rs.length) (by simpa using h)
    obtain ⟨h1, h2⟩ := answered_all rs ht
    simp only [answered, h0]; simp [h1, h2, h0]; omega

theorem any_close_of_get (l : List (Req α)) (j : Nat) (r : Req α) (hr : l[j]? = some r)
    (hc : r.close = true) : l.any Req.close = true := by
  rw [List.any_eq_true]
  exact ⟨r, List.mem_of_getElem? hr, hc⟩

/-- with no closing request among the first `j` and request `j` present, at least `j+1` are answered -/
theorem answered_gt (l : List (Req α)) (j : Nat) (r : Req α)
    (h : noCloseBefore l j) (hr : l[j]? = some r) : j + 1 ≤ answered l := by
  cases hc : r.close with
  | true => rw [answered_eq l j r h hr hc]; exact Nat.le_refl _
  | false =>
    have hlt : j < l.length := by
      have := List.getElem?_eq_some_iff.mp hr; obtain ⟨h1, _⟩ := this; exact h1
    apply answered_ge l (j + 1) _ hlt
    intro k r' hk hr'
    by_cases hkj : k = j
    · subst hkj; rw [hr] at hr'; cases hr'; exact hc
    · exact h k r' (by omega) hr'

/-! ### the invariant -/

structure Inv (cfg : Cfg α) (s : St α) : Prop where
  q_range  : s.queue = List.range' s.fin s.queue.length
  acc_le   : s.fin + s.queue.length ≤ s.next
  next_le  : s.next ≤ cfg.reqs.length
  acc_eq   : (s.closed = false ∨ cfg.sync = true) → s.fin + s.queue.length = s.next
  cur_some : ∀ rem, s.cur = some rem → s.queue ≠ [] ∧ ∃ r pre, cfg.reqs[s.fin]? = some r ∧
               r.pieces = pre ++ rem ∧
               (s.closed = false → s.wire ++ s.pending = W cfg.reqs s.fin ++ pre.flatten)
  cur_none : s.cur = none → s.closed = false → s.wire ++ s.pending = W cfg.reqs s.fin
  no_close : s.closed = false → noCloseBefore cfg.reqs s.fin
  pend     : s.closed = true → s.pending = []
  pre      : s.closed = true → s.wire <+: ideal cfg
  by_srv   : s.byServer = true → s.closed = true ∧ willClose cfg = true ∧
               answered cfg.reqs ≤ s.fin ∧ (s.dropped = false → s.wire = ideal cfg)
  why      : s.closed = true → s.byServer = true ∨ s.ext = true
  handled  : s.handled = List.range (s.fin + (if s.cur.isSome then 1 else 0))

theorem inv_init (cfg : Cfg α) : Inv cfg (init : St α) := by
  constructor <;> simp [init, W_zero, noCloseBefore]

/-- taken ++ queued is a prefix of the ideal stream while the connection is open -/
theorem total_prefix_of_inv {cfg : Cfg α} {s : St α} (h : Inv cfg s) (hc : s.closed = false) :
    s.wire ++ s.pending <+: ideal cfg := by
  have hn := h.no_close hc
  cases hcur : s.cur with
  | none =>
    rw [h.cur_none hcur hc]
    apply W_prefix
    apply answered_ge _ _ hn
    have := h.acc_le; have := h.next_le; omega
  | some rem =>
    obtain ⟨_, r, pre, hr, hp, hw⟩ := h.cur_some rem hcur
    rw [hw hc]
    have h1 : W cfg.reqs s.fin ++ pre.flatten <+: W cfg.reqs (s.fin + 1) := by
      rw [W_succ _ _ r hr]
      refine ⟨rem.flatten, ?_⟩
      simp [Req.resp, hp]
    exact h1.trans (W_prefix _ (answered_gt _ _ r hn hr))

/-- the wire is a prefix of the ideal stream in every state satisfying the invariant -/
theorem wire_prefix_of_inv {cfg : Cfg α} {s : St α} (h : Inv cfg s) : s.wire <+: ideal cfg := by
  cases hc : s.closed with
  | true => exact h.pre hc
  | false => exact (List.prefix_append _ _).trans (total_prefix_of_inv h hc)

theorem head_of_range' {q : List Nat} {k f : Nat} {t : List Nat} (hq : q = List.range' f q.length)
    (hk : q = k :: t) : k = f ∧ t = List.range' (f + 1) t.length := by
  subst hk
  simp only [List.length_cons, List.range'_succ] at hq
  injection hq with h1 h2
  exact ⟨h1, h2⟩

theorem inv_step {cfg : Cfg α} {s s' : St α} (a : Act) (h : Inv cfg s) (hs : step cfg s a = some s') :
    Inv cfg s' := by
  cases a with
  | parse =>
    simp only [step] at hs
    split at hs
    · rename_i hlt
      split at hs
      · rename_i hcl
        cases hs
        simp only [Bool.and_eq_true, Bool.not_eq_true'] at hcl
        obtain ⟨hc, hsy⟩ := hcl
        exact { h with
          acc_le := by have := h.acc_le; simp only; omega
          next_le := by simp only; omega
          acc_eq := by intro hh; simp only at hh; rcases hh with hh | hh <;> simp_all }
      · rename_i hcl
        cases hs
        have hor : s.closed = false ∨ cfg.sync = true := by
          cases hc : s.closed <;> cases hy : cfg.sync <;> simp_all
        have he := h.acc_eq hor
        exact { h with
          q_range := by
            simp only [List.length_append, List.length_cons, List.length_nil]
            rw [List.range'_concat, ← h.q_range]; simp; omega
          acc_le := by simp only [List.length_append, List.length_cons, List.length_nil]; omega
          next_le := by simp only; omega
          acc_eq := by intro _; simp only [List.length_append, List.length_cons, List.length_nil]; omega
          cur_some := by
            intro rem hr
            obtain ⟨_, hx⟩ := h.cur_some rem hr
            exact ⟨by simp, hx⟩ }
    · cases hs
  | start =>
    simp only [step] at hs
    split at hs
    · rename_i k t hcur hq
      split at hs
      · rename_i r hr
        cases hs
        obtain ⟨hk, _⟩ := head_of_range' h.q_range hq
        subst hk
        exact { h with
          cur_some := by
            intro rem hrem
            simp only [Option.some.injEq] at hrem
            subst hrem
            refine ⟨by simp [hq], r, [], hr, by simp, ?_⟩
            intro hc; simp [h.cur_none hcur hc]
          cur_none := by intro hh; simp at hh
          handled := by
            have := h.handled
            simp only [hcur] at this
            simp only [Option.isSome_some, if_true]
            rw [List.range_succ, this]; simp }
      · cases hs
    · cases hs
  | write k =>
    simp only [step] at hs
    split at hs
    · rename_i p ps hcur
      obtain ⟨hq, r, pre, hr, hp, hw⟩ := h.cur_some _ hcur
      have hhandled : s.handled = List.range (s.fin + 1) := by
        have := h.handled; simp only [hcur] at this; simpa using this
      split at hs
      · -- closed: the write fails
        rename_i hc
        cases hs
        exact { h with
          cur_some := by
            intro rem hrem
            simp only [Option.some.injEq] at hrem
            subst hrem
            exact ⟨hq, r, pre ++ [p], hr, by simp [hp], by intro hh; rw [hc] at hh; cases hh⟩
          cur_none := by intro hh; simp at hh
          handled := by simpa using hhandled }
      · rename_i hc
        have hc' : s.closed = false := by simpa using hc
        split at hs
        · -- empty write list: the kernel takes a part, the rest is queued
          rename_i hpe
          have hpe' : s.pending = [] := by simpa using hpe
          cases hs
          exact { h with
            cur_some := by
              intro rem hrem
              simp only [Option.some.injEq] at hrem
              subst hrem
              refine ⟨hq, r, pre ++ [p], hr, by simp [hp], ?_⟩
              intro _
              have := hw hc'
              rw [hpe', List.append_nil] at this
              simp only [List.append_assoc, List.take_append_drop, this]
              simp
            cur_none := by intro hh; simp at hh
            pend := by intro hh; have : s.closed = true := hh; rw [hc'] at this; cases this
            pre := by intro hh; have : s.closed = true := hh; rw [hc'] at this; cases this
            by_srv := by
              intro hb
              have := (h.by_srv hb).1; rw [hc'] at this; cases this
            handled := by simpa using hhandled }
        · -- behind a backlog: queued whole
          cases hs
          exact { h with
            cur_some := by
              intro rem hrem
              simp only [Option.some.injEq] at hrem
              subst hrem
              refine ⟨hq, r, pre ++ [p], hr, by simp [hp], ?_⟩
              intro _
              have := hw hc'
              simp only [← List.append_assoc, this]
              simp
            cur_none := by intro hh; simp at hh
            pend := by intro hh; have : s.closed = true := hh; rw [hc'] at this; cases this
            handled := by simpa using hhandled }
    · cases hs
  | flush k =>
    simp only [step] at hs
    split at hs
    · rename_i hg
      simp only [Bool.and_eq_true, Bool.not_eq_true', decide_eq_true_eq] at hg
      obtain ⟨⟨hc, _⟩, _⟩ := hg
      cases hs
      have hkeep : s.wire ++ List.take k s.pending ++ List.drop k s.pending = s.wire ++ s.pending := by
        rw [List.append_assoc, List.take_append_drop]
      exact { h with
        cur_some := by
          intro rem hrem
          obtain ⟨h1, r, pre, h2, h3, h4⟩ := h.cur_some rem hrem
          exact ⟨h1, r, pre, h2, h3, by intro hh; simp only; rw [hkeep]; exact h4 hh⟩
        cur_none := by intro h1 h2; simp only; rw [hkeep]; exact h.cur_none h1 h2
        pend := by intro hh; have : s.closed = true := hh; rw [hc] at this; cases this
        pre := by intro hh; have : s.closed = true := hh; rw [hc] at this; cases this
        by_srv := by
          intro hb
          have := (h.by_srv hb).1; rw [hc] at this; cases this }
    · cases hs
  | finish =>
    simp only [step] at hs
    split at hs
    · rename_i k q hcur hq
      cases hs
      obtain ⟨hk, hqt⟩ := head_of_range' h.q_range hq
      subst hk
      obtain ⟨_, r, pre, hr, hp, hw⟩ := h.cur_some _ hcur
      simp only [List.append_nil] at hp
      have hlen : s.queue.length = q.length + 1 := by rw [hq]; simp
      have htot : s.closed = false → s.wire ++ s.pending = W cfg.reqs (s.fin + 1) := by
        intro hc; rw [hw hc, W_succ _ _ r hr, Req.resp, hp]
      simp only [hr]
      refine
        { q_range := hqt
          acc_le := by have := h.acc_le; simp only; omega
          next_le := h.next_le
          acc_eq := ?_, cur_some := by intro rem hh; simp at hh
          cur_none := ?_, no_close := ?_, pend := ?_, pre := ?_, by_srv := ?_, why := ?_
          handled := by have := h.handled; simp only [hcur] at this; simpa using this }
      · intro hh
        have : s.closed = false ∨ cfg.sync = true := by
          rcases hh with hh | hh
          · left; simp only [Bool.or_eq_false_iff] at hh; exact hh.1
          · right; exact hh
        have := h.acc_eq this; simp only; omega
      · intro _ hc
        simp only [Bool.or_eq_false_iff] at hc
        simp only [hc.1, hc.2]
        simpa using htot hc.1
      · intro hc
        simp only [Bool.or_eq_false_iff] at hc
        intro k r' hk hr'
        have hk' : k < s.fin + 1 := hk
        by_cases hkf : k = s.fin
        · subst hkf; rw [hr] at hr'; cases hr'; exact hc.2
        · exact h.no_close hc.1 k r' (by omega) hr'
      · intro hc
        cases hcl : s.closed with
        | true => simp [h.pend hcl]
        | false =>
          simp only [hcl, Bool.false_or] at hc
          simp [hc]
      · intro hc
        cases hcl : s.closed with
        | true => exact h.pre hcl
        | false =>
          simp only [hcl, Bool.false_or] at hc
          simp only [ideal]
          rw [answered_eq _ _ r (h.no_close hcl) hr hc, ← htot hcl]
          exact List.prefix_append _ _
      · intro hb
        simp only [Bool.or_eq_true, Bool.and_eq_true, Bool.not_eq_true'] at hb
        rcases hb with hb | ⟨hc, hcl⟩
        · obtain ⟨h1, h2, h3, h4⟩ := h.by_srv hb
          refine ⟨by simp [h1], h2, by simp only; omega, ?_⟩
          intro hd
          have hd' : s.dropped = false := by
            cases hdd : s.dropped with
            | false => rfl
            | true => simp [hdd] at hd
          exact h4 hd'
        · refine ⟨by simp [hc], any_close_of_get _ _ r hr hc, ?_, ?_⟩
          · simp only; rw [answered_eq _ _ r (h.no_close hcl) hr hc]; exact Nat.le_refl _
          · intro hd
            simp only [hc, hcl, Bool.not_false, Bool.and_self, Bool.true_and, Bool.or_eq_false_iff,
              Bool.not_eq_false'] at hd
            have hpe : s.pending = [] := by simpa using hd.2
            simp only [ideal]
            rw [answered_eq _ _ r (h.no_close hcl) hr hc, ← htot hcl, hpe, List.append_nil]
      · intro hc
        cases hcl : s.closed with
        | true =>
          rcases h.why hcl with hb | he
          · left; simp [hb]
          · right; exact he
        | false =>
          simp only [hcl, Bool.false_or] at hc
          left; simp [hc]
    · cases hs
  | extClose =>
    simp only [step] at hs
    cases hs
    have hpre := wire_prefix_of_inv h
    exact { h with
      acc_eq := by
        intro hh; simp only at hh
        rcases hh with hh | hh
        · cases hh
        · exact h.acc_eq (Or.inr hh)
      cur_some := by
        intro rem hrem
        obtain ⟨h1, r, pre, h2, h3, _⟩ := h.cur_some rem hrem
        exact ⟨h1, r, pre, h2, h3, by intro hh; cases hh⟩
      cur_none := by intro _ hh; cases hh
      no_close := by intro hh; cases hh
      pend := fun _ => rfl
      pre := fun _ => hpre
      by_srv := by
        intro hb
        obtain ⟨h1, h2, h3, h4⟩ := h.by_srv hb
        refine ⟨rfl, h2, h3, ?_⟩
        intro hd
        simp only [h.pend h1, List.isEmpty_nil, Bool.not_true, Bool.or_false] at hd
        exact h4 hd
      why := fun _ => Or.inr rfl }

theorem inv_run {cfg : Cfg α} (acts : List Act) : ∀ {s : St α}, Inv cfg s → Inv cfg (run cfg s acts) := by
  induction acts with
  | nil => intro s h; exact h
  | cons a as ih =>
    intro s h
    simp only [run]
    split
    · rename_i s' hs; exact ih (inv_step a h hs)
    · exact ih h

/-! ### frame facts of single steps -/

theorem step_closed {cfg : Cfg α} {s s' : St α} (a : Act) (hs : step cfg s a = some s')
    (hc : s.closed = true) : s'.closed = true ∧ s'.wire = s.wire := by
  cases a <;> simp only [step] at hs
  · split at hs
    · split at hs <;> cases hs <;> exact ⟨hc, rfl⟩
    · cases hs
  · split at hs
    · split at hs
      · cases hs; exact ⟨hc, rfl⟩
      · cases hs
    · cases hs
  · split at hs
    · simp only [hc, if_true] at hs; cases hs; exact ⟨rfl, rfl⟩
    · cases hs
  · simp [hc] at hs
  · split at hs
    · cases hs; simp [hc]
    · cases hs
  · cases hs; simp

theorem step_ext {cfg : Cfg α} {s s' : St α} (a : Act) (hs : step cfg s a = some s')
    (ha : a ≠ .extClose) : s'.ext = s.ext := by
  cases a <;> simp only [step] at hs
  · split at hs
    · split at hs <;> cases hs <;> rfl
    · cases hs
  · split at hs
    · split at hs
      · cases hs; rfl
      · cases hs
    · cases hs
  · split at hs
    · split at hs
      · cases hs; rfl
      · split at hs <;> cases hs <;> rfl
    · cases hs
  · split at hs
    · cases hs; rfl
    · cases hs
  · split at hs
    · cases hs; rfl
    · cases hs
  · exact absurd rfl ha

/-- `dropped` is only ever set by a step that closes (or on an already closed connection) -/
theorem step_dropped {cfg : Cfg α} {s s' : St α} (a : Act) (hs : step cfg s a = some s')
    (h : s.dropped = true → s.closed = true) : s'.dropped = true → s'.closed = true := by
  cases a with
  | parse =>
    simp only [step] at hs
    split at hs
    · split at hs <;> cases hs <;> exact h
    · cases hs
  | start =>
    simp only [step] at hs
    split at hs
    · split at hs
      · cases hs; exact h
      · cases hs
    · cases hs
  | write k =>
    simp only [step] at hs
    split at hs
    · split at hs
      · cases hs; exact h
      · split at hs <;> cases hs <;> exact h
    · cases hs
  | flush k =>
    simp only [step] at hs
    split at hs
    · cases hs; exact h
    · cases hs
  | finish =>
    simp only [step] at hs
    split at hs
    · cases hs
      intro hd
      simp only [Bool.or_eq_true, Bool.and_eq_true] at hd ⊢
      rcases hd with hd | ⟨⟨hc, _⟩, _⟩
      · left; exact h hd
      · right; exact hc
    · cases hs
  | extClose =>
    simp only [step] at hs
    cases hs; intro _; rfl

theorem run_dropped {cfg : Cfg α} (acts : List Act) : ∀ (s : St α), (s.dropped = true → s.closed = true) →
    (run cfg s acts).dropped = true → (run cfg s acts).closed = true := by
  induction acts with
  | nil => intro s h; exact h
  | cons a as ih =>
    intro s h
    simp only [run]
    split
    · rename_i s' hs; exact ih s' (step_dropped a hs h)
    · exact ih s h

/-- the kernel takes every write in full: no backlog ever forms, so no close can drop anything -/
theorem step_full {cfg : Cfg α} {s s' : St α} (a : Act) (hs : step cfg s a = some s')
    (ha : ∀ k, a ≠ .write (some k)) (hp : s.pending = []) (hd : s.dropped = false) :
    s'.pending = [] ∧ s'.dropped = false := by
  cases a with
  | parse =>
    simp only [step] at hs
    split at hs
    · split at hs <;> cases hs <;> exact ⟨hp, hd⟩
    · cases hs
  | start =>
    simp only [step] at hs
    split at hs
    · split at hs
      · cases hs; exact ⟨hp, hd⟩
      · cases hs
    · cases hs
  | write k =>
    cases k with
    | some k => exact absurd rfl (ha k)
    | none =>
      simp only [step] at hs
      split at hs
      · split at hs
        · cases hs; exact ⟨hp, hd⟩
        · split at hs
          · cases hs; simp [hd]
          · rename_i hne; simp [hp] at hne
      · cases hs
  | flush k =>
    simp [step, hp] at hs
  | finish =>
    simp only [step] at hs
    split at hs
    · cases hs; simp [hp, hd]
    · cases hs
  | extClose =>
    simp only [step] at hs
    cases hs; simp [hp, hd]

end Pipeline
