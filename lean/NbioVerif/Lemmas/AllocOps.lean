import NbioVerif.Lemmas.AllocInv
/-! The allocator operations establish `OpOK`: the exempted invariant, the frame conditions, and a
scratch region large enough for the handle they return. -/
namespace Alloc

/-- general form of a region modification on behalf of `h`: the region is not owned by another live
    handle, no (remaining) pool entry refers to it, capacity and length invariant are kept and the new
    owner is `none` or `live h` -/
theorem modify_gen (g : Cfg) (h : Nat) (s : St) (rid : Nat) (f : Region → Region) (hi : InvX g (some h) s)
    (hr : rid < s.regions.length) (hnl : ∀ k, k ≠ h → (s.region rid).owner ≠ .live k)
    (hnp : ∀ e, e ∈ s.pool → e.rid ≠ rid)
    (hcap : (f (s.region rid)).cap = (s.region rid).cap)
    (hlen : (f (s.region rid)).bytes.length = (s.region rid).cap)
    (hown : (f (s.region rid)).owner = .none ∨ (f (s.region rid)).owner = .live h) :
    InvX g (some h) (s.modify rid f) ∧ Ext h s (s.modify rid f) ∧ scratch h (s.modify rid f) rid := by
  have hself := region_modify_self s rid f hr
  have hoth := fun r (hne : r ≠ rid) => region_modify_other s rid r f hne
  refine ⟨?_, ?_, ⟨by simpa using hr, by rw [hself]; exact hown⟩⟩
  · constructor
    · intro r hr'
      simp at hr'
      by_cases h1 : r = rid
      · subst h1; rw [hself, hcap]; exact hlen
      · rw [hoth r h1]; exact hi.regs r hr'
    · intro k x hk hl
      have hl' : s.lookup k = some x := by simpa [St.lookup] using hl
      obtain ⟨h1, h2, h3⟩ := hi.live k x hk hl'
      have hne : x.rid ≠ rid := by
        intro he; rw [he] at h2; exact hnl k (by intro hk'; exact hk (by rw [hk'])) h2
      rw [hoth x.rid hne]; exact ⟨by simpa using h1, h2, h3⟩
    · intro e he
      obtain ⟨h1, h2⟩ := hi.pool e he
      rw [hoth e.rid (hnp e he)]; exact ⟨by simpa using h1, h2⟩
    · intro ha r hr'
      simp at hr'
      by_cases h1 : r = rid
      · subst h1; rw [hself, hcap]; exact hi.acap ha r hr'
      · rw [hoth r h1]; exact hi.acap ha r hr'
    · intro ha e he
      rw [hoth e.rid (hnp e he)]; exact hi.acls ha e he
  · refine ⟨by simp, rfl, ?_, ?_, ?_⟩
    · intro r k _ hok hk
      have hne : r ≠ rid := by intro he; rw [he] at hok; exact hnl k hk hok
      exact hoth r hne
    · intro r _
      by_cases h1 : r = rid
      · subst h1; rw [hself, hcap]
      · rw [hoth r h1]
    · intro r ⟨hr', ho'⟩
      refine ⟨by simpa using hr', ?_⟩
      by_cases h1 : r = rid
      · subst h1; rw [hself]; exact hown
      · rw [hoth r h1]; exact ho'

/-- `pool.Get`: the region obtained is scratch for `h`, is not `h`'s current region, and — for the aligned
    allocator, whose `New` makes exactly the class size — has the class's capacity -/
theorem poolGet_ok (g : Cfg) (h : Nat) (s s' : St) (cls newCap rid : Nat) (c : Choice) (hi : InvX g (some h) s)
    (hc : g.kind = .aligned → newCap = classSize cls ∧ cls < nClasses)
    (hg : poolGet s cls newCap c = .ok (s', rid)) :
    InvX g (some h) s' ∧ Ext h s s' ∧ scratch h s' rid ∧
      (∀ r, r < s.regions.length → (s.region r).owner = .live h → rid ≠ r) ∧
      (g.kind = .aligned → (s'.region rid).cap = classSize cls) ∧
      (g.kind ≠ .aligned → 0 < newCap → 0 < (s'.region rid).cap ∨ ∃ e ∈ s.pool, e.rid = rid) := by
  cases c with
  | fresh =>
    simp only [poolGet] at hg
    cases hg
    obtain ⟨h1, h2, h3, h4⟩ := alloc_ok g h s newCap [] hi
      (fun ha => .inl (.inr ⟨cls, (hc ha).2, (hc ha).1⟩))
    refine ⟨h1, h2, h3, ?_, ?_, ?_⟩
    · intro r hr _; show s.regions.length ≠ r; omega
    · intro ha; exact h4.trans (hc ha).1
    · intro _ hp; left
      show 0 < ((s.alloc newCap []).1.region s.regions.length).cap
      rw [h4]; exact hp
  | reuse tag =>
    simp only [poolGet] at hg
    split at hg
    · rename_i e he
      cases hg
      have hmem : e ∈ s.pool := List.mem_of_find?_eq_some he
      have his : PEnt.is tag cls e = true := List.find?_some he
      obtain ⟨her, heo⟩ := hi.pool e hmem
      -- the state with the entries removed
      let s1 : St := { s with pool := s.pool.filter (fun e => !PEnt.is tag cls e) }
      have hi1 : InvX g (some h) s1 := by
        refine ⟨hi.regs, hi.live, ?_, hi.acap, ?_⟩
        · intro e' he'; exact hi.pool e' (List.mem_filter.mp he').1
        · intro ha e' he'; exact hi.acls ha e' (List.mem_filter.mp he').1
      have hnp : ∀ e', e' ∈ s1.pool → e'.rid ≠ e.rid := by
        intro e' he' heq
        obtain ⟨hm, hf⟩ := List.mem_filter.mp he'
        have ho' := (hi.pool e' hm).2
        have hreg : s.region e'.rid = s.region e.rid := by rw [heq]
        rw [hreg, heo] at ho'
        injection ho' with ht hc'
        have h1 : PEnt.is tag cls e' = true := by
          simp only [PEnt.is, Bool.and_eq_true, beq_iff_eq] at his ⊢
          exact ⟨by rw [← ht]; exact his.1, by rw [← hc']; exact his.2⟩
        simp [h1] at hf
      have hnl : ∀ k, k ≠ h → (s1.region e.rid).owner ≠ .live k := by
        intro k _ hk; have : (s.region e.rid).owner = .live k := hk; rw [heo] at this; cases this
      obtain ⟨h1, h2, h3⟩ := modify_gen g h s1 e.rid (fun r => { r with owner := .none }) hi1 her hnl hnp rfl
        (hi.regs e.rid her) (.inl rfl)
      have hext : Ext h s (s1.own e.rid .none) := by
        have : Ext h s s1 := ⟨Nat.le_refl _, rfl, fun _ _ _ _ _ => rfl, fun _ _ => rfl, fun _ x => x⟩
        exact this.trans h2
      refine ⟨h1, hext, h3, ?_, ?_, ?_⟩
      · intro r _ ho hne; rw [← hne] at ho; rw [heo] at ho; cases ho
      · intro ha
        have : (s1.own e.rid .none).region e.rid = { s.region e.rid with owner := .none } :=
          region_modify_self s1 e.rid _ her
        rw [this]
        have hcls : e.cls = cls := by
          simp only [PEnt.is, Bool.and_eq_true, beq_iff_eq] at his; exact his.2
        rw [← hcls]; exact hi.acls ha e hmem
      · intro _ _; right; exact ⟨e, hmem, rfl⟩
    · cases hg

/-- Go `append` on a scratch region: the result region is scratch, holds at least `keep + |more|` bytes -/
theorem goAppend_ok (g : Cfg) (h : Nat) (s s' : St) (rid rid' keep grow : Nat) (more : Bytes)
    (hi : InvX g (some h) s) (hs : scratch h s rid) (hk : g.kind ≠ .aligned)
    (hg : goAppend s rid keep more grow = .ok (s', rid')) :
    InvX g (some h) s' ∧ Ext h s s' ∧ scratch h s' rid' ∧ keep + more.length ≤ (s'.region rid').cap ∧
      (rid' = rid ∨ s.regions.length ≤ rid') := by
  simp only [goAppend] at hg
  split at hg
  · rename_i hfit
    cases hg
    obtain ⟨h1, h2⟩ := write_ok g h s rid keep more hi hs hfit
    exact ⟨h1, h2, h2.scr rid hs, by rw [h2.caps rid hs.1]; exact hfit, .inl rfl⟩
  · split at hg
    · cases hg
    · rename_i hgrow
      cases hg
      obtain ⟨h1, h2, h3, h4⟩ := alloc_ok g h s grow ((s.region rid).bytes.take keep ++ more) hi
        (fun ha => absurd ha hk)
      refine ⟨h1, h2, h3, ?_, .inr (Nat.le_refl _)⟩
      show keep + more.length ≤ ((s.alloc grow ((s.region rid).bytes.take keep ++ more)).1.region s.regions.length).cap
      rw [h4]; omega

/-- the result of an allocator operation on behalf of `h`, before the handle table is updated -/
structure OpOK (g : Cfg) (h : Nat) (s0 s : St) (y : Handle) : Prop where
  inv  : InvX g (some h) s
  mono : s0.regions.length ≤ s.regions.length
  live : s.live = s0.live
  keep : ∀ rid k, rid < s0.regions.length → (s0.region rid).owner = .live k → k ≠ h → s.region rid = s0.region rid
  yscr : scratch h s y.rid
  ylen : y.len ≤ (s.region y.rid).cap

theorem OpOK.of_ext {g : Cfg} {h : Nat} {s0 s : St} {y : Handle} (hi : InvX g (some h) s) (e : Ext h s0 s)
    (hs : scratch h s y.rid) (hl : y.len ≤ (s.region y.rid).cap) : OpOK g h s0 s y :=
  ⟨hi, e.mono, e.live, e.keep, hs, hl⟩

/-- `pool.Put` of a scratch region: the exempted invariant holds again, nothing else moves -/
theorem poolPut_core (g : Cfg) (h : Nat) (s : St) (cls tag rid : Nat) (hi : InvX g (some h) s)
    (hs : scratch h s rid) (hcls : g.kind = .aligned → (s.region rid).cap = classSize cls) :
    InvX g (some h) (poolPut s cls tag rid) ∧ (poolPut s cls tag rid).regions.length = s.regions.length ∧
      (poolPut s cls tag rid).live = s.live ∧ ∀ r, r ≠ rid → (poolPut s cls tag rid).region r = s.region r := by
  obtain ⟨hr, ho⟩ := hs
  have hnl : ∀ k, k ≠ h → (s.region rid).owner ≠ .live k := by
    intro k hk he; rcases ho with ho | ho <;> rw [ho] at he <;> cases he; exact hk rfl
  have hnp : ∀ e, e ∈ s.pool → e.rid ≠ rid := by
    intro e he heq
    have := (hi.pool e he).2
    rw [heq] at this
    rcases ho with ho | ho <;> rw [ho] at this <;> cases this
  have hself : (s.own rid (.pooled tag cls)).region rid = { s.region rid with owner := .pooled tag cls } :=
    region_own_self s rid _ hr
  have hoth := fun r (hne : r ≠ rid) => region_own_other s rid r (Owner.pooled tag cls) hne
  have hregion : ∀ r, (poolPut s cls tag rid).region r = (s.own rid (.pooled tag cls)).region r := fun _ => rfl
  have hlen : (poolPut s cls tag rid).regions.length = s.regions.length := by simp [poolPut, St.own]
  refine ⟨?_, hlen, rfl, fun r hne => by rw [hregion, hoth r hne]⟩
  constructor
  · intro r hr'
    rw [hlen] at hr'
    rw [hregion]
    by_cases h1 : r = rid
    · subst h1; rw [hself]; exact hi.regs r hr'
    · rw [hoth r h1]; exact hi.regs r hr'
  · intro k x hk hl
    have hl' : s.lookup k = some x := by simpa [St.lookup, poolPut, St.own] using hl
    obtain ⟨h1, h2, h3⟩ := hi.live k x hk hl'
    have hne' : x.rid ≠ rid := by
      intro he; rw [he] at h2; exact hnl k (by intro hk'; exact hk (by rw [hk'])) h2
    rw [hregion, hoth x.rid hne', hlen]; exact ⟨h1, h2, h3⟩
  · intro e he
    rw [hlen, hregion]
    simp only [poolPut, List.mem_cons] at he
    rcases he with he | he
    · subst he; exact ⟨hr, by rw [hself]⟩
    · rw [hoth e.rid (hnp e he)]; exact hi.pool e he
  · intro ha r hr'
    rw [hlen] at hr'
    rw [hregion]
    by_cases h1 : r = rid
    · subst h1; rw [hself]; exact hi.acap ha r hr'
    · rw [hoth r h1]; exact hi.acap ha r hr'
  · intro ha e he
    rw [hregion]
    simp only [poolPut, List.mem_cons] at he
    rcases he with he | he
    · subst he; rw [hself]; exact hcls ha
    · rw [hoth e.rid (hnp e he)]; exact hi.acls ha e he

/-- `pool.Put` of a scratch region other than the one the operation returns -/
theorem poolPut_ok (g : Cfg) (h : Nat) (s0 s : St) (y : Handle) (cls tag rid : Nat) (ok : OpOK g h s0 s y)
    (hs : scratch h s rid) (hne : rid ≠ y.rid) (hcls : g.kind = .aligned → (s.region rid).cap = classSize cls) :
    OpOK g h s0 (poolPut s cls tag rid) y := by
  obtain ⟨h1, hlen, hlive, hoth⟩ := poolPut_core g h s cls tag rid ok.inv hs hcls
  have hnl : ∀ k, k ≠ h → (s.region rid).owner ≠ .live k := by
    intro k hk he; rcases hs.2 with ho | ho <;> rw [ho] at he <;> cases he; exact hk rfl
  refine ⟨h1, by rw [hlen]; exact ok.mono, by rw [hlive]; exact ok.live, ?_, ?_, ?_⟩
  · intro r k hr' hok hk
    have h2 := ok.keep r k hr' hok hk
    have hne' : r ≠ rid := by
      intro he
      rw [he] at h2 hok
      rw [h2] at hnl
      exact hnl k hk hok
    rw [hoth r hne']; exact h2
  · obtain ⟨h2, h3⟩ := ok.yscr
    exact ⟨by rw [hlen]; exact h2, by rw [hoth y.rid (Ne.symm hne)]; exact h3⟩
  · rw [hoth y.rid (Ne.symm hne)]; exact ok.ylen

/-- updating the handle table re-establishes the full invariant -/
theorem bind_ok (g : Cfg) (h : Nat) (s0 s : St) (y : Handle) (ok : OpOK g h s0 s y) : Inv g (s.bind h y) := by
  obtain ⟨hr, ho⟩ := ok.yscr
  have hi := ok.inv
  have hnl : ∀ k, k ≠ h → (s.region y.rid).owner ≠ .live k := by
    intro k hk he; rcases ho with ho | ho <;> rw [ho] at he <;> cases he; exact hk rfl
  have hnp : ∀ e, e ∈ s.pool → e.rid ≠ y.rid := by
    intro e he heq
    have := (hi.pool e he).2
    rw [heq] at this
    rcases ho with ho | ho <;> rw [ho] at this <;> cases this
  obtain ⟨h1, _, _⟩ := modify_gen g h s y.rid (fun r => { r with owner := .live h }) hi hr hnl hnp rfl
    (hi.regs y.rid hr) (.inr rfl)
  have hself : (s.own y.rid (.live h)).region y.rid = { s.region y.rid with owner := .live h } :=
    region_own_self s y.rid _ hr
  have hregion : ∀ r, (s.bind h y).region r = (s.own y.rid (.live h)).region r := fun _ => rfl
  have hlen : (s.bind h y).regions.length = (s.own y.rid (.live h)).regions.length := rfl
  refine ⟨h1.regs, ?_, h1.pool, h1.acap, h1.acls⟩
  intro k x _ hl
  by_cases hk : k = h
  · subst hk
    rw [lookup_bind_self] at hl
    cases hl
    rw [hregion, hself, hlen]
    exact ⟨by simpa [St.own] using hr, rfl, ok.ylen⟩
  · rw [lookup_bind_other s h k y hk] at hl
    have hl' : (s.own y.rid (.live h)).lookup k = some x := by simpa [St.lookup, St.own] using hl
    exact h1.live k x (by simp; exact hk) hl'

theorem remove_ok (g : Cfg) (h : Nat) (s : St) (hi : InvX g (some h) s) : Inv g (s.remove h) := by
  refine ⟨hi.regs, ?_, hi.pool, hi.acap, hi.acls⟩
  intro k x _ hl
  by_cases hk : k = h
  · subst hk; rw [lookup_remove_self] at hl; cases hl
  · rw [lookup_remove_other s h k hk] at hl
    exact hi.live k x (by simp; exact hk) hl

end Alloc
