import NbioVerif.Lemmas.C11Body
import NbioVerif.Model.OwnConn
/-! Ownership invariant of the write queue twin (`OwnC`). -/
namespace OwnC
open Own (Heap RInv rinv_touch rinv_malloc_body rinv_free_head)

/-- the pooled buffers the write list holds, in order -/
def cids : List CItem → List Nat
  | [] => []
  | .buf id _ _ _ :: rest => id :: cids rest
  | .file _ :: rest => cids rest

theorem cids_append (a b : List CItem) : cids (a ++ b) = cids a ++ cids b := by
  induction a with
  | nil => rfl
  | cons x t ih => cases x <;> simp [cids, ih]

/-- the invariant: no flag, fresh ids, every queued buffer live, no buffer queued twice -/
def CInv (s : CS) : Prop := RInv s.heap none (cids s.wl)

theorem rinv_tail (h : Heap) (id : Nat) (rest : List Nat) (hi : RInv h none (id :: rest)) : RInv h none rest :=
  ⟨hi.ok, hi.fresh, hi.cl, fun i hi' => hi.bl i (List.mem_cons_of_mem _ hi'), (List.nodup_cons.mp hi.nd).2,
    (by intro i hc; cases hc)⟩

/-- replacing a live queued buffer `id` (last in the list) by a fresh one: Malloc, reslice, copy, Free,
Append -/
theorem rinv_grow_last (h : Heap) (pre : List Nat) (id n : Nat) (hi : RInv h none (pre ++ [id])) :
    RInv (((((h.malloc n).1.touch h.next none).touch id none).free id).touch h.next (some (.append h.next)))
      none (pre ++ [h.next]) := by
  obtain ⟨h1, h2, _, h4, h5, _⟩ := hi
  have hlid : h.live id = true := h4 id (by simp)
  have hne : id ≠ h.next := by have := h2 id hlid; omega
  have l1 : (h.malloc n).1.live h.next = true := by simp
  have l2 : ((h.malloc n).1.touch h.next none).live id = true := by simp [hlid]
  have l3 : (((h.malloc n).1.touch h.next none).touch id none).live id = true := by simp [hlid]
  have l4 : ((((h.malloc n).1.touch h.next none).touch id none).free id).live h.next = true := by
    rw [Heap.free_live_at _ _ _ l3]; simp [Ne.symm hne]
  have hnd := List.nodup_append.mp h5
  refine ⟨?_, ?_, (by intro i hc; cases hc), ?_, ?_, (by intro i hc; cases hc)⟩
  · rw [Heap.touch_bad _ _ _ l4, Heap.free_bad _ _ l3, Heap.touch_bad _ _ _ l2, Heap.touch_bad _ _ _ l1]
    simpa using h1
  · intro x hx
    simp only [Heap.touch_live, Heap.touch_next, Heap.free_next, Heap.malloc_next] at hx ⊢
    have := Heap.free_live_le _ _ _ hx
    simp at this
    rcases this with hx' | hx'
    · omega
    · have := h2 x hx'; omega
  · intro i hi'
    simp only [Heap.touch_live]
    rw [Heap.free_live_at _ _ _ l3]
    simp only [List.mem_append, List.mem_singleton] at hi'
    rcases hi' with hi' | hi'
    · have hne2 : i ≠ id := by
        intro hc; subst hc
        exact hnd.2.2 i hi' i (by simp) rfl
      simp [hne2, h4 i (by simp [hi'])]
    · subst hi'; simp [Ne.symm hne]
  · rw [List.nodup_append]
    refine ⟨hnd.1, by simp, ?_⟩
    intro a ha b hb
    simp at hb; subst hb
    intro hc; subst hc
    have := h2 _ (h4 _ (List.mem_append_left _ ha)); omega

theorem mergeLast_inv (capOf : Nat → Nat) (h : Heap) (wl : List CItem) (n : Nat) (hi : RInv h none (cids wl))
    (h' : Heap) (wl' : List CItem) (hm : mergeLast capOf h wl n = some (h', wl')) : RInv h' none (cids wl') := by
  -- generalised over a prefix of ids that stays in front
  have key : ∀ (wl : List CItem) (pre : List Nat) (h' : Heap) (wl' : List CItem),
      RInv h none (pre ++ cids wl) → mergeLast capOf h wl n = some (h', wl') → RInv h' none (pre ++ cids wl') := by
    intro wl
    induction wl with
    | nil => intro pre h' wl' _ hm; simp [mergeLast] at hm
    | cons t rest ih =>
      intro pre h' wl' hi hm
      cases rest with
      | nil =>
        cases t with
        | file r => simp [mergeLast] at hm
        | buf id len off cap =>
          unfold mergeLast at hm
          split at hm
          · cases hm
          · split at hm
            · simp only [Option.some.injEq, Prod.mk.injEq] at hm
              obtain ⟨e1, e2⟩ := hm
              subst e1; subst e2
              have := rinv_grow_last h pre id (len + n) (by simpa [cids] using hi)
              simpa [cids] using this
            · simp only [Option.some.injEq, Prod.mk.injEq] at hm
              obtain ⟨e1, e2⟩ := hm
              subst e1; subst e2
              have hl : h.live id = true := hi.bl id (by simp [cids])
              have := rinv_touch h none _ id (some (.append id)) hi hl
              simpa [cids] using this
      | cons t2 r2 =>
        unfold mergeLast at hm
        simp only [Option.map_eq_some_iff] at hm
        obtain ⟨p, hp, he⟩ := hm
        obtain ⟨ph, pwl⟩ := p
        simp only [Prod.mk.injEq] at he
        obtain ⟨e1, e2⟩ := he
        subst e1; subst e2
        cases t with
        | file r =>
          have := ih pre ph pwl (by simpa [cids] using hi) hp
          simpa [cids] using this
        | buf id len off cap =>
          have := ih (pre ++ [id]) ph pwl (by simpa [cids, List.append_assoc] using hi) hp
          simpa [cids, List.append_assoc] using this
  have := key wl [] h' wl' (by simpa using hi) hm
  simpa using this

theorem enqueue_inv (capOf : Nat → Nat) (s : CS) (n : Nat) (h : CInv s) : CInv (enqueue capOf s n) := by
  unfold enqueue
  split
  · exact h
  · dsimp only
    cases hm : mergeLast capOf s.heap s.wl n with
    | some p =>
      obtain ⟨h', wl'⟩ := p
      exact mergeLast_inv capOf s.heap s.wl n h h' wl' hm
    | none =>
      dsimp only
      unfold CInv at *
      dsimp only
      rw [cids_append]
      obtain ⟨m1, m2⟩ := rinv_malloc_body s.heap none (cids s.wl) n h
      exact rinv_touch _ none _ _ none m1 m2

theorem releaseAll_inv (h : Heap) (wl : List CItem) (hi : RInv h none (cids wl)) : RInv (releaseAll h wl) none [] := by
  induction wl generalizing h with
  | nil => exact hi
  | cons t rest ih =>
    cases t with
    | buf id len off cap => unfold releaseAll; exact ih _ (rinv_free_head h none id _ hi)
    | file r => unfold releaseAll; exact ih _ hi

theorem closeNow_inv (s : CS) (h : CInv s) : CInv (closeNow s) := releaseAll_inv s.heap s.wl h

theorem finishCall_inv (r : CS × CErr) (h : CInv r.1) : CInv (finishCall r).1 := by
  unfold finishCall
  split
  · exact h
  · exact closeNow_inv r.1 h

theorem directLog_inv (s : CS) (ks : List KAns) (h : CInv s) : CInv { s with heap := (directLog s.heap ks).1 } := by
  have hlog : ∀ s : CS, CInv s → CInv { s with heap := s.heap.log (.write none) } := by
    intro s h
    unfold CInv at *
    exact ⟨by simpa using h.ok, by simpa using h.fresh, h.cl, by simpa using h.bl, h.nd, h.dj⟩
  induction ks generalizing s with
  | nil => exact hlog s h
  | cons k t ih =>
    cases k with
    | eintr => exact ih { s with heap := s.heap.log (.write none) } (hlog s h)
    | wrote n => exact hlog s h
    | eagain => exact hlog s h
    | fail => exact hlog s h

theorem writeInner_inv (capOf : Nat → Nat) (maxWB : Nat) (s : CS) (n : Nat) (ks : List KAns) (h : CInv s) :
    CInv (writeInner capOf maxWB s n ks).1 := by
  unfold writeInner
  have hlog := directLog_inv s ks h
  dsimp only
  (repeat' split) <;> first | exact h | exact hlog | exact enqueue_inv capOf _ _ hlog | exact enqueue_inv capOf _ _ h

theorem write_inv (capOf : Nat → Nat) (maxWB : Nat) (s : CS) (n : Nat) (ks : List KAns) (h : CInv s) :
    CInv (write capOf maxWB s n ks).1 := by
  unfold write
  split
  · exact h
  · exact finishCall_inv _ (writeInner_inv capOf maxWB s n ks h)

theorem queueRest_inv (capOf : Nat → Nat) (bs : List Nat) (s : CS) (n : Nat) (h : CInv s) :
    CInv (queueRest capOf s n bs) := by
  induction bs generalizing s n with
  | nil => exact h
  | cons b rest ih =>
    unfold queueRest
    (repeat' split) <;> first | exact ih _ _ (enqueue_inv capOf _ _ h) | exact ih _ _ h

theorem foldl_enqueue_inv (capOf : Nat → Nat) (bs : List Nat) (s : CS) (h : CInv s) :
    CInv (bs.foldl (enqueue capOf) s) := by
  induction bs generalizing s with
  | nil => exact h
  | cons b rest ih => exact ih _ (enqueue_inv capOf s b h)

theorem writevInner_inv (capOf : Nat → Nat) (maxWB : Nat) (s : CS) (bs : List Nat) (k : KAns) (h : CInv s) :
    CInv (writevInner capOf maxWB s bs k).1 := by
  unfold writevInner
  dsimp only
  (repeat' split) <;> first | exact h | exact foldl_enqueue_inv capOf bs s h | exact queueRest_inv capOf bs s _ h

theorem writev_inv (capOf : Nat → Nat) (maxWB : Nat) (s : CS) (bs : List Nat) (ks : List KAns) (h : CInv s) :
    CInv (writev capOf maxWB s bs ks).1 := by
  unfold writev
  split
  · exact h
  · split
    · exact finishCall_inv _ (writeInner_inv capOf maxWB s _ ks h)
    · exact finishCall_inv _ (writevInner_inv capOf maxWB s bs _ h)

theorem enqueueFile_inv (s : CS) (rem : Nat) (h : CInv s) : CInv (enqueueFile s rem) := by
  unfold enqueueFile CInv at *
  dsimp only
  rw [cids_append]
  simpa [cids] using h

theorem sendfileLoop_inv (ks : List KAns) (s : CS) (rem : Nat) (h : CInv s) : CInv (sendfileLoop s rem ks).1 := by
  induction ks generalizing s rem with
  | nil => unfold sendfileLoop; split <;> first | exact h | exact enqueueFile_inv s rem h
  | cons k rest ih =>
    unfold sendfileLoop
    split
    · exact h
    · split
      · exact enqueueFile_inv s rem h
      · exact ih s rem h
      · exact closeNow_inv s h
      · dsimp only
        split
        · exact h
        · exact ih s _ h

theorem sendfile_inv (s : CS) (rem : Nat) (ks : List KAns) (h : CInv s) : CInv (sendfile s rem ks).1 := by
  unfold sendfile
  dsimp only
  (repeat' split) <;> first | exact h | exact enqueueFile_inv s rem h | exact sendfileLoop_inv ks s rem h

theorem flushLoop_inv (fuel : Nat) (s : CS) (ks : List KAns) (h : CInv s) : CInv (flushLoop fuel s ks) := by
  induction fuel generalizing s ks with
  | zero => exact h
  | succ f ih =>
    unfold flushLoop
    cases hw : s.wl with
    | nil => exact h
    | cons t tl =>
      cases t with
      | buf id len off cap =>
        dsimp only
        have hi : RInv s.heap none (id :: cids tl) := by unfold CInv at h; rw [hw] at h; simpa [cids] using h
        have hl : s.heap.live id = true := hi.bl id (by simp)
        have ht : RInv (s.heap.touch id (some (.write (some id)))) none (id :: cids tl) :=
          rinv_touch s.heap none _ id _ hi hl
        have hs1 : CInv { wl := .buf id len off cap :: tl, left := s.left, closed := s.closed,
                          heap := s.heap.touch id (some (.write (some id))) } := by
          unfold CInv; dsimp only; simpa [cids] using ht
        cases ks with
        | nil => exact hs1
        | cons k rest =>
          cases k with
          | eagain => exact hs1
          | eintr => exact ih _ _ hs1
          | fail => exact closeNow_inv _ hs1
          | wrote n0 =>
            dsimp only
            split
            · exact ih _ _ hs1
            · split
              · apply ih
                unfold CInv
                dsimp only
                exact rinv_free_head _ none id _ ht
              · apply ih
                unfold CInv
                dsimp only
                simpa [cids] using ht
      | file rem =>
        dsimp only
        have hi : RInv s.heap none (cids tl) := by unfold CInv at h; rw [hw] at h; simpa [cids] using h
        split
        · exact h
        · cases ks with
          | nil => exact h
          | cons k rest =>
            cases k with
            | eagain => exact h
            | eintr => exact ih _ _ h
            | fail => exact closeNow_inv _ h
            | wrote n0 =>
              dsimp only
              split
              · exact ih _ _ h
              · split
                · apply ih; unfold CInv; dsimp only; exact hi
                · apply ih; unfold CInv; dsimp only; simpa [cids] using hi

theorem flush_inv (s : CS) (ks : List KAns) (h : CInv s) : CInv (flush s ks) := by
  unfold flush
  (repeat' split) <;> first | exact h | exact flushLoop_inv _ s ks h

theorem close_inv (s : CS) (h : CInv s) : CInv (close s) := by
  unfold close
  split
  · exact h
  · exact closeNow_inv s h

theorem cstep_inv (capOf : Nat → Nat) (maxWB : Nat) (s : CS) (op : COp) (h : CInv s) : CInv (cstep capOf maxWB s op) := by
  cases op with
  | write n k => exact write_inv capOf maxWB s n k h
  | writev bs k => exact writev_inv capOf maxWB s bs k h
  | sendfile rem ks => exact sendfile_inv s rem ks h
  | flush ks => exact flush_inv s ks h
  | close => exact close_inv s h

theorem crun_inv (capOf : Nat → Nat) (maxWB : Nat) (ops : List COp) (s : CS) (h : CInv s) :
    CInv (crun capOf maxWB s ops) := by
  unfold crun
  induction ops generalizing s with
  | nil => exact h
  | cons op rest ih => exact ih _ (cstep_inv capOf maxWB s op h)

theorem cinv_init : CInv {} :=
  ⟨rfl, (by intro x hx; cases hx), (by intro id hid; cases hid), (by intro id hid; cases hid), List.nodup_nil,
    (by intro id hid; cases hid)⟩

end OwnC
