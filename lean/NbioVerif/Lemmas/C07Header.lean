import NbioVerif.Lemmas.C07Start
/-! C07 productions: a header line, the header section, and what the parser has recorded at the blank line. -/
namespace Http
open Scan

/-- parser state after a header field has been recorded -/
def afterHdr (p : P) (k v : Bytes) : P := { setSpecial p k v with headerExists := true }

/-- what the parser needs from a header field as written -/
def Hdr.parsable (h : Hdr) : Prop :=
  h.name ≠ [] ∧ (∀ c ∈ h.name, isToken c = true) ∧ (∀ c ∈ h.value, c ≠ CR ∧ c ≠ LF) ∧ h.value.head? ≠ some SP

theorem Hdr.wf_parsable (h : Hdr) (hw : h.wf = true) : h.parsable := by
  simp only [Hdr.wf, Bool.and_eq_true, decide_eq_true_eq, List.all_eq_true, bne_iff_ne, ne_eq] at hw
  obtain ⟨⟨⟨h1, h2⟩, h3⟩, h4⟩ := hw
  exact ⟨h1, h2, fun c hc => fieldByte_facts c (h3 c hc), h4⟩

/-- the header-line production: `name ":" SP* value CR LF` -/
theorem header_line (g : Cfg) (p : P) (tok : Bytes) (h : Hdr) (rest : Bytes) (acc : List Ev)
    (hp : p.st = .headerKeyBefore) (hkey : p.hKey = []) (hval : p.hVal = []) (hh : h.parsable) :
    specFeed (M g) p tok (h.render ++ rest) acc =
      specFeed (M g) (afterHdr p h.key h.evValue) [] rest (acc ++ [.header h.key h.evValue]) := by
  obtain ⟨name, pad, value⟩ := h
  obtain ⟨hne, hname, hvalue, hhead⟩ := hh
  simp only at hne hname hvalue hhead
  cases name with
  | nil => exact absurd rfl hne
  | cons k0 ks =>
  have ⟨a1, _, a3, a4⟩ := tok_facts k0 (hname k0 (by simp))
  simp only [Hdr.render, Hdr.key, Hdr.evValue, List.cons_append, List.append_assoc, List.nil_append, crlf]
  -- first name byte
  rw [spec_step g p tok k0 _ acc { p with st := .headerKey, headerExists := true } .here [] (by simp [block, hp])
        (by simp [byteStep, hp, a1, a3, a4, hname k0 (by simp), ok])]
  simp only [nextTok_here, List.append_nil]
  -- rest of the name
  rw [scan_keep g { p with st := .headerKey, headerExists := true } (by simp [block]) ks
        (by intro c hc tok'
            have ⟨b1, b2, b3, b4⟩ := tok_facts c (hname c (by simp [hc]))
            simp [byteStep, ok, b1, b2, b3, b4, hname c (by simp [hc])])]
  -- ':'
  rw [spec_step g _ _ 58 _ acc
        { p with st := .headerValueBefore, headerExists := true, hKey := canonicalKey ([k0] ++ ks) } .next []
        (by simp [block]) (by simp [byteStep, ok, hkey, SP])]
  simp only [nextTok_next, List.append_nil, List.singleton_append]
  -- padding
  rw [scan_keep g { p with st := .headerValueBefore, headerExists := true, hKey := canonicalKey (k0 :: ks) }
        (by simp [block]) (List.replicate pad SP)
        (by intro c hc tok'; have := List.eq_of_mem_replicate hc; subst this; simp [byteStep, ok])]
  simp only [List.nil_append]
  cases value with
  | nil =>
    simp only [List.nil_append, if_true]
    rw [spec_step g _ _ CR _ acc _ .next [.header (canonicalKey (k0 :: ks)) (List.replicate pad SP)] (by simp [block])
          (by simp only [byteStep, ok, hval]; simp [CR, SP]; rfl)]
    rw [spec_step g _ _ LF _ _ _ .next [] (by simp [block]) (by simp only [byteStep, ok]; simp; rfl)]
    simp only [nextTok_next, List.append_nil]
    congr 1
    cases p
    simp only at hp hkey hval
    subst hp hkey hval
    simp only [afterHdr, setSpecial]
    split <;> (try split) <;> (try split) <;> simp [SP]
  | cons v0 vs =>
    have hv0 : v0 ≠ SP := by simpa using hhead
    have ⟨c1, c2⟩ := hvalue v0 (by simp)
    simp only [List.cons_append, reduceCtorEq, if_false]
    rw [spec_step g _ _ v0 _ acc
          { p with st := .headerValue, headerExists := true, hKey := canonicalKey (k0 :: ks) } .here []
          (by simp [block]) (by simp [byteStep, ok, hv0, c1, c2])]
    simp only [nextTok_here, List.append_nil]
    rw [scan_keep g { p with st := .headerValue, headerExists := true, hKey := canonicalKey (k0 :: ks) }
          (by simp [block]) vs
          (by intro c hc tok'; have := hvalue c (by simp [hc]); simp [byteStep, ok, this.1, this.2])]
    rw [spec_step g _ _ CR _ acc _ .next [.header (canonicalKey (k0 :: ks)) (v0 :: vs)] (by simp [block])
          (by simp only [byteStep, ok, hval]; simp; rfl)]
    rw [spec_step g _ _ LF _ _ _ .next [] (by simp [block]) (by simp only [byteStep, ok]; simp; rfl)]
    simp only [nextTok_next, List.append_nil]
    congr 1
    cases p
    simp only at hp hkey hval
    subst hp hkey hval
    simp only [afterHdr, setSpecial]
    split <;> (try split) <;> (try split) <;> simp [SP]

/-! ### the header section -/

def fieldsOf (hs : List Hdr) : List (Bytes × Bytes) := hs.map fun h => (h.key, h.evValue)

def afterHdrs (p : P) (hs : List Hdr) : P := hs.foldl (fun p h => afterHdr p h.key h.evValue) p

theorem afterHdr_fields (p : P) (k v : Bytes) :
    (afterHdr p k v).st = p.st ∧ (afterHdr p k v).hKey = p.hKey ∧ (afterHdr p k v).hVal = p.hVal := by
  simp only [afterHdr, setSpecial]
  split <;> (try split) <;> (try split) <;> simp

theorem header_lines (g : Cfg) (hs : List Hdr) :
    ∀ (p : P) (tok rest : Bytes) (acc : List Ev),
      p.st = .headerKeyBefore → p.hKey = [] → p.hVal = [] → (∀ h ∈ hs, h.parsable) →
      ∃ tok', specFeed (M g) p tok ((hs.map Hdr.render).flatten ++ rest) acc =
        specFeed (M g) (afterHdrs p hs) tok' rest (acc ++ hs.map (fun h => Ev.header h.key h.evValue)) := by
  induction hs with
  | nil => intro p tok rest acc _ _ _ _; exact ⟨tok, by simp [afterHdrs]⟩
  | cons h hs ih =>
    intro p tok rest acc hp hk hv hall
    have ⟨f1, f2, f3⟩ := afterHdr_fields p h.key h.evValue
    obtain ⟨tok', e⟩ := ih (afterHdr p h.key h.evValue) [] rest (acc ++ [.header h.key h.evValue])
      (by rw [f1, hp]) (by rw [f2, hk]) (by rw [f3, hv]) (fun x hx => hall x (by simp [hx]))
    refine ⟨tok', ?_⟩
    simp only [List.map_cons, List.flatten_cons, List.append_assoc]
    rw [header_line g p tok h _ acc hp hk hv (hall h (by simp)), e]
    simp [afterHdrs]

theorem valuesOf_cons (k v : Bytes) (fs : List (Bytes × Bytes)) (K : Bytes) :
    valuesOf ((k, v) :: fs) K = if k == K then v :: valuesOf fs K else valuesOf fs K := by
  simp only [valuesOf, List.filter_cons]
  split <;> simp

theorem names_distinct :
    str "Transfer-Encoding" ≠ str "Trailer" ∧ str "Transfer-Encoding" ≠ str "Content-Length" ∧
    str "Trailer" ≠ str "Content-Length" := by decide

/-- what the parser has recorded when it reaches the blank line: the values of the three framing fields -/
theorem afterHdrs_eq (hs : List Hdr) : ∀ (p : P),
    afterHdrs p hs =
      { p with te := p.te ++ valuesOf (fieldsOf hs) (str "Transfer-Encoding"),
               tr := p.tr ++ valuesOf (fieldsOf hs) (str "Trailer"),
               cl := p.cl ++ valuesOf (fieldsOf hs) (str "Content-Length"),
               headerExists := p.headerExists || !hs.isEmpty } := by
  induction hs with
  | nil => intro p; simp [afterHdrs, fieldsOf, valuesOf]
  | cons h hs ih =>
    intro p
    have ⟨d1, d2, d3⟩ := names_distinct
    have step : afterHdrs p (h :: hs) = afterHdrs (afterHdr p h.key h.evValue) hs := by simp [afterHdrs]
    rw [step, ih]
    simp only [fieldsOf, List.map_cons, valuesOf_cons, afterHdr, setSpecial]
    by_cases h1 : h.key = str "Transfer-Encoding"
    · simp [h1, d1, d2]
    · by_cases h2 : h.key = str "Trailer"
      · simp [h2, d1.symm, d3]
      · by_cases h3 : h.key = str "Content-Length"
        · simp [h3, d2.symm, d3.symm]
        · simp [h1, h2, h3]

end Http
