import NbioVerif.Properties.C06
/-! probe: one production of C07 — feeding a well-formed header line to the spec machine yields exactly
    one `header` event with the canonical key and the value, and returns to `headerKeyBefore` with an empty token -/
namespace Http
open Scan

abbrev M (g : Cfg) := machine g

theorem tok_facts (c : UInt8) (h : isToken c = true) : c ≠ SP ∧ c ≠ 58 ∧ c ≠ CR ∧ c ≠ LF := by
  have hn : c.toNat ≠ 32 ∧ c.toNat ≠ 58 ∧ c.toNat ≠ 13 ∧ c.toNat ≠ 10 := by
    simp only [isToken, isNum, isAlpha, isUpper, isLower, Bool.or_eq_true, Bool.and_eq_true, decide_eq_true_eq,
      List.contains_eq_mem, List.mem_cons, List.mem_nil_iff, or_false] at h
    omega
  refine ⟨?_, ?_, ?_, ?_⟩ <;> (intro e; subst e; simp [SP, CR, LF] at hn)

/-- one spec step in a non-block state -/
theorem spec_cons (g : Cfg) (p : P) (tok : Bytes) (c : UInt8) (cs : Bytes) (acc : List Ev)
    (hb : block p = none) :
    specFeed (M g) p tok (c :: cs) acc =
      match byteStep g p tok c with
      | .ok s' u evs => specFeed (M g) s' (match u with | .keep => tok ++ [c] | .here => [c] | .next => []) cs (acc ++ evs)
      | .err e evs => ⟨acc ++ evs, .inr e⟩ := by
  simp only [specFeed, specByte, machine, hb]
  cases byteStep g p tok c <;> rfl

/-- scanning token characters of a header name -/
theorem headerKey_scan (g : Cfg) (ks : Bytes) (hk : ∀ c ∈ ks, isToken c = true) :
    ∀ (p : P) (tok rest : Bytes) (acc : List Ev), p.st = .headerKey →
      specFeed (M g) p tok (ks ++ rest) acc = specFeed (M g) p (tok ++ ks) rest acc := by
  induction ks with
  | nil => intro p tok rest acc _; simp
  | cons c cs ih =>
    intro p tok rest acc hp
    have ⟨h1, h2, h3, h4⟩ := tok_facts c (hk c (by simp))
    have hb : block p = none := by simp [block, hp]
    rw [List.cons_append, spec_cons g p tok c _ acc hb]
    have hstep : byteStep g p tok c = .ok p .keep [] := by
      simp [byteStep, hp, h1, h2, h3, h4, hk c (by simp), ok]
    rw [hstep]
    simp only [List.append_nil]
    rw [ih (fun x hx => hk x (by simp [hx])) p (tok ++ [c]) rest acc hp]
    simp

/-- scanning the characters of a header value -/
theorem headerValue_scan (g : Cfg) (vs : Bytes) (hv : ∀ c ∈ vs, c ≠ CR ∧ c ≠ LF) :
    ∀ (p : P) (tok rest : Bytes) (acc : List Ev), p.st = .headerValue →
      specFeed (M g) p tok (vs ++ rest) acc = specFeed (M g) p (tok ++ vs) rest acc := by
  induction vs with
  | nil => intro p tok rest acc _; simp
  | cons c cs ih =>
    intro p tok rest acc hp
    have ⟨h1, h2⟩ := hv c (by simp)
    have hb : block p = none := by simp [block, hp]
    rw [List.cons_append, spec_cons g p tok c _ acc hb]
    have hstep : byteStep g p tok c = .ok p .keep [] := by
      simp [byteStep, hp, h1, h2, ok]
    rw [hstep]
    simp only [List.append_nil]
    rw [ih (fun x hx => hv x (by simp [hx])) p (tok ++ [c]) rest acc hp]
    simp

/-- the header-line production: `k0 ks ':' ' ' v0 vs CR LF` -/
theorem header_line (g : Cfg) (p : P) (tok : Bytes) (k0 : UInt8) (ks : Bytes) (v0 : UInt8) (vs rest : Bytes)
    (acc : List Ev)
    (hp : p.st = .headerKeyBefore) (hkey : p.hKey = []) (hval : p.hVal = [])
    (hk0 : isToken k0 = true) (hks : ∀ c ∈ ks, isToken c = true)
    (hv0 : v0 ≠ SP ∧ v0 ≠ CR ∧ v0 ≠ LF) (hvs : ∀ c ∈ vs, c ≠ CR ∧ c ≠ LF) :
    specFeed (M g) p tok (k0 :: ks ++ [58, SP] ++ v0 :: vs ++ [CR, LF] ++ rest) acc =
      specFeed (M g)
        { setSpecial { p with headerExists := true, hKey := canonicalKey (k0 :: ks) } (canonicalKey (k0 :: ks)) (v0 :: vs)
            with hKey := [], hVal := [], st := .headerKeyBefore, headerExists := true }
        [] rest (acc ++ [.header (canonicalKey (k0 :: ks)) (v0 :: vs)]) := by
  have ⟨a1, a2, a3, a4⟩ := tok_facts k0 hk0
  -- first key char
  have hb0 : block p = none := by simp [block, hp]
  simp only [List.cons_append, List.append_assoc]
  rw [spec_cons g p tok k0 _ acc hb0]
  have s1 : byteStep g p tok k0 = .ok { p with st := .headerKey, headerExists := true } .here [] := by
    simp [byteStep, hp, a1, a3, a4, hk0, ok]
  rw [s1]; simp only [List.append_nil]
  -- rest of key
  rw [headerKey_scan g ks hks _ [k0] _ acc rfl]
  -- ':'
  rw [spec_cons g _ _ 58 _ acc (by simp [block])]
  simp only [byteStep, ok, show ((58 : UInt8) == SP) = false by decide, show ((58:UInt8) == 58) = true by decide,
    Bool.false_eq_true, if_false, if_true, hkey, List.singleton_append, List.append_nil]
  -- ' '
  rw [spec_cons g _ _ SP _ acc (by simp [block])]
  simp only [byteStep, ok, show (SP == SP) = true by decide, if_true, List.append_nil, List.nil_append]
  -- first value char
  rw [spec_cons g _ _ v0 _ acc (by simp [block])]
  have ⟨b1, b2, b3⟩ := hv0
  simp only [byteStep, ok, b1, b2, b3, beq_iff_eq, if_false, List.append_nil]
  -- rest of value
  rw [headerValue_scan g vs hvs _ [v0] _ acc rfl]
  -- CR
  rw [spec_cons g _ _ CR _ acc (by simp [block])]
  simp only [byteStep, ok, show (CR == CR) = true by decide, if_true, hval, List.singleton_append]
  -- LF
  rw [spec_cons g _ _ LF _ _ (by simp [block])]
  simp only [byteStep, ok, show (LF == LF) = true by decide, if_true, List.append_nil]
  congr 1
  simp only [setSpecial]
  split <;> (try split) <;> (try split) <;> simp

end Http
