import NbioVerif.Lemmas.HttpWF
/-! probe: C06 assembled — sequential Parse calls over any segmentation = one Parse call (model level) -/
namespace Scan
variable {σ ε : Type}

def Good (M : Machine σ ε) (st : σ) (tok : List UInt8) : Prop := ∀ n, M.block st = some n → tok.length < n

theorem specByte_good (M : Machine σ ε) (wf : WF M) (st : σ) (tok : List UInt8) (c : UInt8)
    (hg : Good M st tok) (s' : σ) (u : Upd) (evs : List ε) (tok' : List UInt8)
    (h : specByte M st tok c = (.ok s' u evs, tok')) : Good M s' tok' := by
  unfold specByte at h
  split at h
  · rename_i n hb
    simp only at h
    split at h
    · -- block completed: tok' = []
      have h2 := congrArg Prod.snd h
      simp only at h2
      subst h2
      intro m hm; have := wf.pos _ _ hm; simpa using this
    · rename_i hlt
      cases h
      intro m hm
      rw [hb] at hm; cases hm
      simp at hlt ⊢; omega
  · rename_i hb
    split at h
    · rename_i s1 u1 evs1 hbs
      cases h
      intro m hm
      have hu := wf.enter_byte _ _ _ _ _ _ m hbs hm
      subst hu
      have := wf.pos _ _ hm
      simpa using this
    · cases h

theorem specFeed_good (M : Machine σ ε) (wf : WF M) :
    ∀ (data : List UInt8) (st : σ) (tok : List UInt8) (acc : List ε), Good M st tok →
      ∀ acc' st' tok', specFeed M st tok data acc = ⟨acc', .inl (st', tok')⟩ → Good M st' tok' := by
  intro data
  induction data with
  | nil =>
    intro st tok acc hg acc' st' tok' h
    simp [specFeed] at h
    obtain ⟨_, h1, h2⟩ := h
    subst h1; subst h2; exact hg
  | cons c cs ih =>
    intro st tok acc hg acc' st' tok' h
    simp only [specFeed] at h
    split at h
    · rename_i s1 u1 evs1 tok1 hsb
      exact ih s1 tok1 _ (specByte_good M wf st tok c hg s1 u1 evs1 tok1 hsb) acc' st' tok' h
    · cases h

/-- feeding a list of segments one Parse call at a time -/
def feedAll (M : Machine σ ε) : σ → List UInt8 → List (List UInt8) → List ε → Res σ ε
  | st, cache, [], acc => ⟨acc, .inl (st, cache)⟩
  | st, cache, seg :: segs, acc =>
    match implParse M st cache seg acc with
    | ⟨acc', .inl (st', cache')⟩ => feedAll M st' cache' segs acc'
    | r => r

theorem feedAll_eq_spec (M : Machine σ ε) (wf : WF M) :
    ∀ (segs : List (List UInt8)) (st : σ) (cache : List UInt8) (acc : List ε), Good M st cache →
      feedAll M st cache segs acc = specFeed M st cache segs.flatten acc := by
  intro segs
  induction segs with
  | nil => intro st cache acc _; simp [feedAll, specFeed]
  | cons seg segs ih =>
    intro st cache acc hg
    simp only [feedAll, List.flatten_cons]
    rw [implParse_eq_spec M wf st cache seg acc hg, specFeed_append]
    cases hres : specFeed M st cache seg acc with
    | mk acc' fin =>
      cases fin with
      | inl pr =>
        obtain ⟨st', cache'⟩ := pr
        simp only
        exact ih st' cache' acc' (specFeed_good M wf seg st cache acc hg acc' st' cache' hres)
      | inr e => simp

/-- C06 (model level): any segmentation of a byte stream gives the same events, error and final
    state as a single Parse call on the whole stream. -/
theorem c06_segmentation_independent (M : Machine σ ε) (wf : WF M) (st : σ) (segs : List (List UInt8)) :
    feedAll M st [] segs [] = feedAll M st [] [segs.flatten] [] := by
  have hg : Good M st [] := fun n hn => wf.pos _ _ hn
  rw [feedAll_eq_spec M wf segs st [] [] hg, feedAll_eq_spec M wf [segs.flatten] st [] [] hg]
  simp

end Scan

namespace Http
open Scan

/-- C06 for the nbhttp parser model, server and client side, any body limit, any processor verdicts -/
theorem c06_http (g : Cfg) (segs : List (List UInt8)) :
    feedAll (machine g) (init g) [] segs [] = feedAll (machine g) (init g) [] [segs.flatten] [] :=
  c06_segmentation_independent (machine g) (wf g) (init g) segs

end Http
