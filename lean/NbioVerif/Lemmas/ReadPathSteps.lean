import NbioVerif.Lemmas.ReadPathReport
/-! ReadPath: poller steps and task steps preserve the core invariant -/
namespace ReadPath

theorem session_frame (s : St) (a : Addr) :
    let t := (session s a).2
    t.k = s.k ∧ t.closed = s.closed ∧ t.cerr = s.cerr ∧ t.re = s.re ∧ t.ps = s.ps ∧ t.task = s.task ∧
    t.overlap = s.overlap ∧ t.mods = s.mods ∧ t.lost = s.lost ∧ t.sentS = s.sentS ∧ t.sentD = s.sentD ∧
    t.dlv = s.dlv ∧ t.deqD = s.deqD ∧ t.reads = s.reads ∧ t.idle = s.idle := by
  unfold session
  split <;> simp

/-- what `consume` never touches, and what it does to `closed` -/
theorem consume_frame (g : Cfg) (s : St) (a : Ans) :
    let t := (consume g s a).2
    t.k = s.k ∧ t.re = s.re ∧ t.ps = s.ps ∧ t.task = s.task ∧ t.overlap = s.overlap ∧ t.mods = s.mods ∧
    t.lost = s.lost ∧ t.sentS = s.sentS ∧ t.sentD = s.sentD ∧ t.reads = s.reads ∧ t.idle = s.idle ∧
    (t.closed = s.closed ∨ (a = .err ∧ t.closed = true)) := by
  unfold consume
  cases a with
  | data src b =>
    cases src with
    | none => dsimp only; split <;> split <;> simp
    | some x =>
      obtain ⟨h1, h2, h3, h4, h5, h6, h7, h8, h9, h10, h11, h12, h13, h14, h15⟩ := session_frame s x
      dsimp only
      split <;> split <;> simp [*]
  | zero => simp
  | eagain => simp
  | eintr => simp
  | closed => simp
  | err =>
    simp only [closeWith]
    split <;> simp_all

theorem session_hup (s : St) (a : Addr) : (session s a).2.hup = s.hup := by
  unfold session; split <;> simp

theorem consume_hup (g : Cfg) (s : St) (a : Ans) : (consume g s a).2.hup = s.hup := by
  unfold consume
  cases a with
  | data src b =>
    cases src with
    | none => dsimp only; split <;> split <;> simp
    | some x => dsimp only; split <;> split <;> simp [session_hup]
  | zero => simp
  | eagain => simp
  | eintr => simp
  | closed => simp
  | err => simp only [closeWith]; split <;> simp

theorem rearm_hup (s : St) : (rearm s).hup = s.hup := by unfold rearm; split <;> simp
theorem closeHang_hup (s : St) : (closeHang s).hup = s.hup := by unfold closeHang; split <;> simp

theorem hupOk_closed (g : Cfg) (hup eof rerr : Bool) (task : TS) (re : Nat) (c c' : Bool)
    (h : HupOk g hup eof rerr task re c) (hc : c' = c ∨ c' = true) : HupOk g hup eof rerr task re c' := by
  rcases hc with hc | hc
  · rw [hc]; exact h
  · subst hc
    exact ⟨h.sync, h.backed, h.flag, fun _ h' => (by cases h')⟩

theorem consume_next (g : Cfg) (s : St) (a : Ans) :
    ((consume g s a).1 = .again ↔ a.again g = true) ∧
    ((consume g s a).1 = .dead ↔ (a = .err ∨ a = .closed)) := by
  unfold consume Ans.again
  cases a with
  | data src b =>
    cases src with
    | none =>
      dsimp only; split
      · simp_all
      · next h => simp_all; by_cases hb : b.length < g.rbs
                  · exact Or.inr (h hb)
                  · exact Or.inl (by omega)
    | some x =>
      dsimp only; split
      · simp_all
      · next h => simp_all; by_cases hb : b.length < g.rbs
                  · exact Or.inr (h hb)
                  · exact Or.inl (by omega)
  | zero => simp
  | eagain => simp
  | eintr => simp
  | closed => simp
  | err => simp

theorem consume_err_closed (g : Cfg) (s : St) : (consume g s .err).2.closed = true := by
  simp only [consume, closeWith]; split <;> simp_all

theorem gateOk_closed (g : Cfg) (task : TS) (re : Nat) (c c' o : Bool) (h : GateOk g task re c o)
    (hc : c' = c ∨ c' = true) : GateOk g task re c' o := by
  rcases hc with hc | hc
  · rw [hc]; exact h
  · subst hc
    exact ⟨h.re2, h.osRe, h.sync, h.noClosedAns, fun _ h' => (by cases h'), h.noOverlap⟩

theorem rearm_frame (s : St) :
    (rearm s).closed = s.closed ∧ (rearm s).re = s.re ∧ (rearm s).ps = s.ps ∧ (rearm s).task = s.task ∧
    (rearm s).overlap = s.overlap ∧ (rearm s).k.reg = s.k.reg ∧ (rearm s).k.rq = s.k.rq ∧ (rearm s).k.dq = s.k.dq ∧
    (rearm s).k.qlen = s.k.qlen ∧ (rearm s).lost = s.lost ∧ (rearm s).k.eof = s.k.eof ∧ (rearm s).k.rerr = s.k.rerr := by
  unfold rearm; split <;> simp [K.qlen]

theorem rearm_armed (s : St) (hc : s.closed = false) :
    (rearm s).k.armed = true ∧ ((rearm s).k.qlen > 0 → (rearm s).k.edge = true) := by
  unfold rearm
  simp only [hc, Bool.false_eq_true, ↓reduceIte, true_and]
  intro h
  simp only [K.qlen] at h
  simp [K.readable, K.qlen]
  omega

theorem rearm_closed (s : St) (hc : s.closed = true) : rearm s = s := by
  unfold rearm; simp [hc]

theorem closeHang_frame (s : St) :
    (closeHang s).k = s.k ∧ (closeHang s).re = s.re ∧ (closeHang s).ps = s.ps ∧ (closeHang s).task = s.task ∧
    (closeHang s).overlap = s.overlap ∧ (closeHang s).closed = true := by
  unfold closeHang; split <;> simp_all

/-- the queue never grows by a read, and an answer that ends the loop found it empty -/
theorem doRead_queue (g : Cfg) (s : St) (hk : KindOk g s.k.reg s.k.rq s.k.dq) :
    (doRead g s).2.k.qlen ≤ s.k.qlen ∧ (doRead g s).2.k.reg = s.k.reg ∧
    KindOk g (doRead g s).2.k.reg (doRead g s).2.k.rq (doRead g s).2.k.dq ∧
    ((doRead g s).1.again g = false → (doRead g s).1 ≠ .closed → (doRead g s).2.k.qlen = 0) := by
  rcases hd : doRead g s with ⟨a, t⟩
  have h := doRead_rel' g s a t hd
  obtain ⟨k1, k2, k3⟩ := hk
  cases h with
  | closed hc => exact ⟨Nat.le_refl _, rfl, ⟨k1, k2, k3⟩, fun _ h => absurd rfl h⟩
  | eintr hc hi => exact ⟨by simp [K.qlen], rfl, ⟨k1, k2, k3⟩, fun h => by simp [Ans.again] at h⟩
  | dgram x d rest hc hi hu hq =>
    refine ⟨by simp [K.qlen, hq], rfl, ⟨k1, fun h => by simp [hu] at h, k3⟩, fun h => ?_⟩
    simp [Ans.again, hu] at h
  | derr hc hi hu hq he => exact ⟨Nat.le_refl _, rfl, ⟨k1, k2, k3⟩, fun _ _ => by simp [K.qlen, hq, k3 hu]⟩
  | dagain hc hi hu hq he => exact ⟨Nat.le_refl _, rfl, ⟨k1, k2, k3⟩, fun _ _ => by simp [K.qlen, hq, k3 hu]⟩
  | bytes hc hi hu hq =>
    refine ⟨(by simp only [K.qlen, List.length_drop]; omega), rfl, ⟨k1, k2, fun h => by simp [hu] at h⟩, fun h _ => ?_⟩
    simp only [Ans.again, hu, Bool.not_false, Bool.and_true, Bool.not_eq_eq_eq_not, Bool.not_false,
      decide_eq_true_eq, List.length_take] at h
    simp only [K.qlen, List.length_drop, k2 hu, List.length_nil, Nat.add_zero]
    omega
  | serr hc hi hu hq he => exact ⟨Nat.le_refl _, rfl, ⟨k1, k2, k3⟩, fun _ _ => by simp [K.qlen, hq, k2 hu]⟩
  | szero hc hi hu hq he hf => exact ⟨Nat.le_refl _, rfl, ⟨k1, k2, k3⟩, fun _ _ => by simp [K.qlen, hq, k2 hu]⟩
  | sagain hc hi hu hq he hf => exact ⟨Nat.le_refl _, rfl, ⟨k1, k2, k3⟩, fun _ _ => by simp [K.qlen, hq, k2 hu]⟩

theorem owes_of_task (g : Cfg) (ps ps' : PS) (task : TS) (re : Nat)
    (h : owes g ps task re) (hps : (∀ i fl, ps ≠ .rd i fl) ∧ ∀ fl, ps = .fin fl → False) : owes g ps' task re := by
  rcases h with ⟨i, fl, h⟩ | ⟨fl, h, _⟩ | h | h | h
  · exact absurd h (hps.1 i fl)
  · exact (hps.2 fl h).elim
  · exact Or.inr (Or.inr (Or.inl h))
  · exact Or.inr (Or.inr (Or.inr (Or.inl h)))
  · exact Or.inr (Or.inr (Or.inr (Or.inr h)))

theorem core_pstep (g : Cfg) (s s' : St) (h : Core g s) (hs : pstep g s = some s') : Core g s' := by
  obtain ⟨hk, hg, hp, hl, hh⟩ := h
  unfold pstep at hs
  split at hs
  · cases hs
  · next i fl hps =>
    cases hs
    have hasync : g.isAsync = false := by
      cases ha : g.isAsync
      · rfl
      · exact absurd hps (hp.asyncPs ha i fl)
    have hinn := hp.rdInn i fl hps
    obtain ⟨f1, f2, f3, f4, f5, f6, f7, f8, f9, f10, f11, f12, f13, f14, f15, f16, f17, f18, f19⟩ := doRead_frame g s
    obtain ⟨q1, q2, q3, q4⟩ := doRead_queue g s hk
    have hdc := doRead_closed_iff g s
    rcases hd : doRead g s with ⟨a, s1⟩
    rw [hd] at f1 f2 f3 f4 f5 f6 f7 f8 f9 f10 f11 f12 f13 f14 f15 f16 f17 f18 f19 q1 q2 q3 q4 hdc
    simp only at f1 f2 f3 f4 f5 f6 f7 f8 f9 f10 f11 f12 f13 f14 f15 f16 f17 f18 f19 q1 q2 q3 q4 hdc
    obtain ⟨c1, c2, c3, c4, c5, c6, c7, c8, c9, c10, c11, c12⟩ := consume_frame g s1 a
    obtain ⟨n1, n2⟩ := consume_next g s1 a
    have herr := consume_err_closed g s1
    rcases hc : consume g s1 a with ⟨nx, s2⟩
    rw [hc] at c1 c2 c3 c4 c5 c6 c7 c8 c9 c10 c11 c12 n1 n2
    simp only at c1 c2 c3 c4 c5 c6 c7 c8 c9 c10 c11 c12 n1 n2
    have hcl : s2.closed = s.closed ∨ s2.closed = true := by
      rcases c12 with h | ⟨_, h⟩
      · left; rw [h, f1]
      · right; exact h
    have hhup : s2.hup = s.hup := by
      have := consume_hup g s1 a; rw [hc] at this; simp only at this
      have h2 := doRead_hup g s; rw [hd] at h2; simp only at h2
      rw [this, h2]
    simp only [setPs]
    refine ⟨?_, ?_, ?_, ?_, ?_⟩
    rotate_right
    · rw [hhup, c1, f15, f16, c4, c2, f5, f3]; exact hupOk_closed g _ _ _ _ _ _ _ hh hcl
    · rw [c1]; exact q3
    · rw [c4, c2, c5, f5, f3, f13]; exact gateOk_closed g _ _ _ _ _ hg hcl
    · -- PsOk of the next position
      cases nx with
      | again =>
        simp only [nextPs]
        split
        · exact ⟨fun h => (by simp [hasync] at h), fun _ _ h => by simp at h, fun h => (by simp [hasync] at h),
            fun _ _ fl' h' => by cases h'; exact Or.inr hinn⟩
        · exact ⟨fun h => (by simp [hasync] at h), fun _ fl' h' => by cases h'; exact hinn, fun h => (by simp [hasync] at h),
            fun _ _ _ h => by simp at h⟩
      | brk => exact ⟨fun h => (by simp [hasync] at h), fun _ _ h => by simp [nextPs] at h, fun h => (by simp [hasync] at h),
            fun _ _ fl' h' => by simp only [nextPs] at h'; cases h'; exact Or.inr hinn⟩
      | dead => exact ⟨fun h => (by simp [hasync] at h), fun _ _ h => by simp [nextPs] at h, fun h => (by simp [hasync] at h),
            fun _ _ fl' h' => by simp only [nextPs] at h'; cases h'; exact Or.inr hinn⟩
    · -- LostOk
      rw [c1, c4, c2, f18, f19, f5, f3]
      have hsync := hg.sync hasync
      refine ⟨fun hm ha => by rw [hsync.1], fun hm ha hcl' => ?_, fun hm ha hq => hl.osEdge hm ha (by omega), fun hm hq hcl' => ?_⟩
      · -- one-shot, disarmed: the loop goes on or the tail will re-arm
        cases nx with
        | again =>
          simp only [nextPs]
          split
          · exact Or.inr (Or.inl ⟨fl, rfl, Or.inr ⟨hm, hasync, hinn⟩⟩)
          · exact Or.inl ⟨_, _, rfl⟩
        | brk => exact Or.inr (Or.inl ⟨fl, rfl, Or.inr ⟨hm, hasync, hinn⟩⟩)
        | dead => exact Or.inr (Or.inl ⟨fl, rfl, Or.inr ⟨hm, hasync, hinn⟩⟩)
      · -- ET: the loop only ends on an empty queue (or closes the conn)
        cases nx with
        | again =>
          have hcap : loopCap g fl = none := by simp [loopCap, hm]
          simp only [nextPs, hcap, capReached]
          exact Or.inr (Or.inl ⟨_, _, rfl⟩)
        | brk =>
          exfalso
          have hna : a.again g = false := by
            cases hag : a.again g
            · rfl
            · have := n1.mpr hag; cases this
          have hnc : a ≠ .closed := fun h => by have := n2.mpr (Or.inr h); cases this
          have := q4 hna hnc
          omega
        | dead =>
          exfalso
          rcases n2.mp rfl with h | h
          · subst h; rw [hc] at herr; simp only at herr; rw [herr] at hcl'; cases hcl'
          · have hsc := hdc.mp h
            rcases hcl with h' | h'
            · rw [h', hsc] at hcl'; cases hcl'
            · rw [h'] at hcl'; cases hcl'
  · next fl hps =>
    cases hs
    obtain ⟨r1, r2, r3, r4, r5, r6, r7, r8, r9, r10, r11, r12⟩ := rearm_frame s
    -- the state after the optional re-arm
    have hmid : ∃ s1 : St, (if (!g.isAsync && g.mode == .os && fl.inn) = true then rearm s else s) = s1 ∧
        s1.closed = s.closed ∧ s1.re = s.re ∧ s1.task = s.task ∧ s1.overlap = s.overlap ∧ s1.k.reg = s.k.reg ∧
        s1.k.rq = s.k.rq ∧ s1.k.dq = s.k.dq ∧ s1.k.qlen = s.k.qlen ∧
        (((!g.isAsync && g.mode == .os && fl.inn) = true ∧ s.closed = false ∧ s1.k.armed = true ∧ (s1.k.qlen > 0 → s1.k.edge = true)) ∨
         (((!g.isAsync && g.mode == .os && fl.inn) = false ∨ s.closed = true) ∧ s1.k.armed = s.k.armed ∧ s1.k.edge = s.k.edge)) := by
      by_cases hr : (!g.isAsync && g.mode == .os && fl.inn) = true
      · refine ⟨rearm s, by rw [if_pos hr], r1, r2, r4, r5, r6, r7, r8, r9, ?_⟩
        cases hcs : s.closed
        · exact Or.inl ⟨hr, rfl, (rearm_armed s hcs).1, (rearm_armed s hcs).2⟩
        · rw [rearm_closed s hcs]; exact Or.inr ⟨Or.inr rfl, rfl, rfl⟩
      · refine ⟨s, by rw [if_neg hr], rfl, rfl, rfl, rfl, rfl, rfl, rfl, rfl, Or.inr ⟨Or.inl (by simpa using hr), rfl, rfl⟩⟩
    obtain ⟨s1, e1, m1, m2, m3, m4, m5, m6, m7, m8, m9⟩ := hmid
    obtain ⟨h1, h2, h3, h4, h5, h6⟩ := closeHang_frame s1
    -- the state after the optional close
    have hfin : ∃ s2 : St, finish g s fl = s2 ∧ s2.k = s1.k ∧ s2.re = s1.re ∧ s2.task = s1.task ∧ s2.overlap = s1.overlap ∧
        ((fl.hang = true ∧ s2.closed = true) ∨ (fl.hang = false ∧ s2.closed = s1.closed)) := by
      unfold finish
      simp only [e1]
      cases hh : fl.hang
      · exact ⟨s1, by simp, rfl, rfl, rfl, rfl, Or.inr ⟨rfl, rfl⟩⟩
      · exact ⟨closeHang s1, by simp, h1, h2, h4, h5, Or.inl ⟨rfl, h6⟩⟩
    obtain ⟨s2, e2, k1, k2, k3, k4, k5⟩ := hfin
    rw [e2]
    simp only [setPs]
    have hcl : s2.closed = s.closed ∨ s2.closed = true := by
      rcases k5 with ⟨_, h⟩ | ⟨_, h⟩
      · exact Or.inr h
      · exact Or.inl (by rw [h, m1])
    have hhup2 : s2.hup = s.hup ∧ s2.k.eof = s.k.eof ∧ s2.k.rerr = s.k.rerr := by
      have e3 : finish g s fl = s2 := e2
      have : (finish g s fl).hup = s.hup ∧ (finish g s fl).k.eof = s.k.eof ∧ (finish g s fl).k.rerr = s.k.rerr := by
        unfold finish rearm closeHang; dsimp only; repeat' split
        all_goals simp
      rw [e3] at this; exact this
    refine ⟨?_, ?_, ?_, ?_, ?_⟩
    rotate_right
    · rw [hhup2.1, hhup2.2.1, hhup2.2.2, k3, k2, m3, m2]; exact hupOk_closed g _ _ _ _ _ _ _ hh hcl
    · rw [k1, m5, m6, m7]; exact hk
    · rw [k3, k2, k4, m3, m2, m4]; exact gateOk_closed g _ _ _ _ _ hg hcl
    · exact ⟨fun _ _ _ h => by simp at h, fun _ _ h => by simp at h, fun _ _ h => by simp at h, fun _ _ _ h => by simp at h⟩
    · rw [k1, k3, k2, m8, m3, m2]
      refine ⟨fun hm ha => ?_, fun hm ha hcl' => ?_, fun hm ha hq => ?_, fun hm hq hcl' => ?_⟩
      · rcases m9 with ⟨hr, _⟩ | ⟨_, ha', _⟩
        · have : g.isAsync = false := by
            simp only [Bool.and_eq_true, Bool.not_eq_eq_eq_not, Bool.not_true] at hr; exact hr.1.1
          exact (hg.sync this).1
        · exact hl.osArmed hm (by rw [← ha']; exact ha)
      · exfalso
        rcases k5 with ⟨_, h⟩ | ⟨hh, h⟩
        · rw [h] at hcl'; cases hcl'
        · rcases m9 with ⟨_, _, ha', _⟩ | ⟨hr, _, _⟩
          · rw [ha'] at ha; cases ha
          · rcases hr with hr | hr
            · -- no re-arm and no hang-up: impossible for a one-shot tail
              cases hasy : g.isAsync
              · rcases hp.finSync hm hasy fl hps with h' | h'
                · rw [hh] at h'; cases h'
                · simp [hasy, hm, h'] at hr
              · have := hp.finAsync hasy fl hps; rw [hh] at this; cases this
            · rw [h, m1, hr] at hcl'; cases hcl'
      · rcases m9 with ⟨_, _, _, he⟩ | ⟨_, ha', he'⟩
        · exact he (by omega)
        · rw [he']; exact hl.osEdge hm (by rw [← ha']; exact ha) hq
      · rcases k5 with ⟨_, h⟩ | ⟨hh, h⟩
        · rw [h] at hcl'; cases hcl'
        · rcases m9 with ⟨hr, _⟩ | ⟨_, _, he'⟩
          · simp [hm] at hr
          · rw [he']
            rcases hl.nolostET hm hq (by rw [← m1, ← h]; exact hcl') with h' | h'
            · exact Or.inl h'
            · right
              rcases h' with ⟨i, fl', h'⟩ | ⟨fl', h', hx⟩ | h' | h' | h'
              · rw [hps] at h'; cases h'
              · rw [hps] at h'; cases h'
                rcases hx with hx | ⟨hx, _⟩
                · rw [hh] at hx; cases hx
                · rw [hm] at hx; cases hx
              · exact Or.inr (Or.inr (Or.inl h'))
              · exact Or.inr (Or.inr (Or.inr (Or.inl h')))
              · exact Or.inr (Or.inr (Or.inr (Or.inr h')))

theorem lostOk_closed (g : Cfg) (armed edge : Bool) (q : Nat) (ps : PS) (task : TS) (re : Nat) (c c' : Bool)
    (h : LostOk g armed edge q ps task re c) (hc : c' = c ∨ c' = true) : LostOk g armed edge q ps task re c' := by
  rcases hc with hc | hc
  · rw [hc]; exact h
  · subst hc
    exact ⟨h.osArmed, fun _ _ h' => (by cases h'), h.osEdge, fun _ _ h' => (by cases h')⟩

/-- a live task performs its next read; `h` = the hang-up flag of the round: only set if `hup` is, and if `hup` is
    set on an open conn the round either knows (`h`) or will go round again (`re ≥ 2`) -/
theorem core_taskRead (g : Cfg) (s : St) (h : Bool) (hk : KindOk g s.k.reg s.k.rq s.k.dq)
    (hg : GateOk g s.task s.re s.closed s.overlap) (hp : PsOk g s.ps)
    (hl : LostOk g s.k.armed s.k.edge s.k.qlen s.ps s.task s.re s.closed)
    (hh : HupOk g s.hup s.k.eof s.k.rerr s.task s.re s.closed) (hne : s.task ≠ .none)
    (H1 : h = true → s.hup = true) (H2 : s.hup = true → s.closed = false → h = true ∨ s.re ≥ 2) :
    Core g (taskRead g s h) := by
  have hasync : g.isAsync = true := by
    cases ha : g.isAsync
    · exact absurd (hg.sync ha).1 hne
    · rfl
  unfold taskRead
  split
  · next hc =>
    simp only [setTask]
    refine ⟨hk, ⟨hg.re2, hg.osRe, fun h => (by simp [hasync] at h), by simp, fun _ h => (by rw [hc] at h; cases h), hg.noOverlap⟩, hp,
      ⟨fun _ _ => rfl, fun _ _ h => (by rw [hc] at h; cases h), hl.osEdge, fun _ _ h => (by rw [hc] at h; cases h)⟩,
      ⟨hh.sync, hh.backed, fun a h' => (by cases h'), fun _ h' => (by rw [hc] at h'; cases h')⟩⟩
  · next hc =>
    have hc' : s.closed = false := by simpa using hc
    obtain ⟨f1, f2, f3, f4, f5, f6, f7, f8, f9, f10, f11, f12, f13, f14, f15, f16, f17, f18, f19⟩ := doRead_frame g s
    obtain ⟨q1, q2, q3, q4⟩ := doRead_queue g s hk
    have hdc := doRead_closed_iff g s
    have fhup := doRead_hup g s
    rcases hd : doRead g s with ⟨a, s1⟩
    rw [hd] at f1 f2 f3 f4 f5 f6 f7 f8 f9 f10 f11 f12 f13 f14 f15 f16 f17 f18 f19 q1 q2 q3 q4 hdc fhup
    simp only at f1 f2 f3 f4 f5 f6 f7 f8 f9 f10 f11 f12 f13 f14 f15 f16 f17 f18 f19 q1 q2 q3 q4 hdc fhup
    have hac : a ≠ .closed := fun h => by have := hdc.mp h; rw [hc'] at this; cases this
    simp only [setTask]
    refine ⟨q3, ?_, by rw [f4]; exact hp, ?_, ?_⟩
    · rw [f3, f1, f13]
      refine ⟨hg.re2, hg.osRe, fun h => (by simp [hasync] at h), fun h' hx => (by cases hx; exact hac rfl), fun hm hcl => ?_, hg.noOverlap⟩
      constructor
      · intro h; cases h
      · intro h; exact absurd ((hg.alive hm hcl).mpr h) hne
    · rw [f18, f19, f4, f3, f1]
      refine ⟨fun hm ha => absurd (hl.osArmed hm ha) hne, fun hm _ _ => Or.inr (Or.inr (Or.inr (Or.inr ⟨a, h, rfl, Or.inl hm⟩))),
        fun hm ha hq => hl.osEdge hm ha (by have hq' : s1.k.qlen > 0 := hq; omega), fun hm hq hcl => ?_⟩
      have hq' : s1.k.qlen > 0 := hq
      cases hag : a.again g
      · have := q4 hag hac; omega
      · exact Or.inr (Or.inr (Or.inr (Or.inr (Or.inr ⟨a, h, rfl, Or.inr (Or.inl hag)⟩))))
    · rw [fhup, f15, f16, f3, f1]
      refine ⟨hh.sync, hh.backed, fun a' hx => ?_, fun hu hcl => Or.inr (Or.inr ⟨a, h, rfl, H2 hu hcl⟩)⟩
      simp only [TS.rd.injEq] at hx
      exact H1 hx.2

theorem core_tstep (g : Cfg) (s s' : St) (h : Core g s) (hs : tstep g s = some s') : Core g s' := by
  obtain ⟨hk, hg, hp, hl, hh⟩ := h
  unfold tstep at hs
  split at hs
  · cases hs
  · next ht => cases hs; exact core_taskRead g s s.hup hk hg hp hl hh (by rw [ht]; simp) (fun h => h) (fun h _ => Or.inl h)
  · next a hr ht =>
    cases hs
    have hasync : g.isAsync = true := by
      cases ha : g.isAsync
      · have := (hg.sync ha).1; rw [ht] at this; cases this
      · rfl
    have hmode : g.mode = .os ∨ g.mode = .et := by
      cases hm : g.mode
      · simp [Cfg.isAsync, hm] at hasync
      · exact Or.inr rfl
      · exact Or.inl rfl
    obtain ⟨c1, c2, c3, c4, c5, c6, c7, c8, c9, c10, c11, c12⟩ := consume_frame g s a
    obtain ⟨n1, n2⟩ := consume_next g s a
    have herr := consume_err_closed g s
    have chup := consume_hup g s a
    rcases hc : consume g s a with ⟨nx, s2⟩
    rw [hc] at c1 c2 c3 c4 c5 c6 c7 c8 c9 c10 c11 c12 n1 n2 chup
    simp only at c1 c2 c3 c4 c5 c6 c7 c8 c9 c10 c11 c12 n1 n2 chup
    have hcl : s2.closed = s.closed ∨ s2.closed = true := by
      rcases c12 with h | ⟨_, h⟩
      · exact Or.inl h
      · exact Or.inr h
    have hk2 : KindOk g s2.k.reg s2.k.rq s2.k.dq := by rw [c1]; exact hk
    have hg2 : GateOk g s2.task s2.re s2.closed s2.overlap := by
      rw [c4, c2, c5]; exact gateOk_closed g _ _ _ _ _ hg hcl
    have hp2 : PsOk g s2.ps := by rw [c3]; exact hp
    have hl2 : LostOk g s2.k.armed s2.k.edge s2.k.qlen s2.ps s2.task s2.re s2.closed := by
      rw [c1, c3, c4, c2]; exact lostOk_closed g _ _ _ _ _ _ _ _ hl hcl
    have hh2 : HupOk g s2.hup s2.k.eof s2.k.rerr s2.task s2.re s2.closed := by
      rw [chup, c1, c4, c2]; exact hupOk_closed g _ _ _ _ _ _ _ hh hcl
    -- what the invariant says about this round's flag
    have HR1 : hr = true → s2.hup = true := by
      intro h'; subst h'; rw [chup]; exact hh.flag a ht
    have HR2 : s2.hup = true → s2.closed = false → hr = true ∨ s2.re ≥ 2 := by
      intro hu hcl'
      rcases hh2.owed hu hcl' with h' | ⟨v, h'⟩ | ⟨a', h'', h', hx⟩
      · rw [c4, ht] at h'; cases h'
      · rw [c4, ht] at h'; cases h'
      · rw [c4, ht] at h'; cases h'; exact hx
    cases nx with
    | again => exact core_taskRead g s2 hr hk2 hg2 hp2 hl2 hh2 (by rw [c4, ht]; simp) HR1 HR2
    | dead =>
      simp only [taskNext, setTask]
      have hclosed : s2.closed = true := by
        rcases n2.mp rfl with h | h
        · subst h; rw [hc] at herr; exact herr
        · subst h; exact absurd ht (hg.noClosedAns hr)
      refine ⟨hk2, ⟨hg2.re2, hg2.osRe, fun h => (by simp [hasync] at h), by simp, fun _ h => (by rw [hclosed] at h; cases h), hg2.noOverlap⟩, hp2,
        ⟨fun _ _ => rfl, fun _ _ h => (by rw [hclosed] at h; cases h), hl2.osEdge, fun _ _ h => (by rw [hclosed] at h; cases h)⟩,
        ⟨hh2.sync, hh2.backed, fun a' hx => (by cases hx), fun _ h => (by rw [hclosed] at h; cases h)⟩⟩
    | brk =>
      have hna : a.again g = false := by
        cases hag : a.again g
        · rfl
        · have := n1.mpr hag; cases this
      have hcs : s2.closed = s.closed := by
        rcases c12 with h | ⟨h, _⟩
        · exact h
        · have := n2.mpr (Or.inl h); cases this
      simp only [taskNext]
      cases hr with
      | true =>
        -- the hang-up was there before this round: close
        simp only [↓reduceIte, setTask]
        obtain ⟨x1, x2, x3, x4, x5, x6⟩ := closeHang_frame s2
        have xh := closeHang_hup s2
        refine ⟨by rw [x1]; exact hk2, ?_, by rw [x3]; exact hp2, ?_, ?_⟩
        · rw [x2, x6, x5]
          exact ⟨hg2.re2, hg2.osRe, fun h => (by simp [hasync] at h), by simp, fun _ h => (by cases h), hg2.noOverlap⟩
        · rw [x1, x3, x2, x6]
          exact ⟨fun _ _ => rfl, fun _ _ h => (by cases h), hl2.osEdge, fun _ _ h => (by cases h)⟩
        · rw [xh, x1, x2, x6]
          exact ⟨hh2.sync, hh2.backed, fun a' hx => (by cases hx), fun _ h => (by cases h)⟩
      | false =>
      simp only [Bool.false_eq_true, ↓reduceIte]
      have hnohup : s2.hup = true → s2.closed = false → s2.re ≥ 2 := fun hu hcl' => by
        rcases HR2 hu hcl' with h | h
        · cases h
        · exact h
      rcases hmode with hm | hm
      · -- one-shot: re-arm and return
        simp only [hm, beq_self_eq_true, ↓reduceIte, setTask]
        obtain ⟨r1, r2, r3, r4, r5, r6, r7, r8, r9, r10, r11, r12⟩ := rearm_frame s2
        have rh := rearm_hup s2
        refine ⟨by rw [r6, r7, r8]; exact hk2, ?_, by rw [r3]; exact hp2, ?_, ?_⟩
        · rw [r2, r1, r5]
          exact ⟨hg2.re2, hg2.osRe, fun h => (by simp [hasync] at h), by simp, fun h => (by rw [hm] at h; cases h), hg2.noOverlap⟩
        · rw [r9, r3, r2, r1]
          refine ⟨fun _ _ => rfl, fun _ ha hcl' => ?_, fun _ ha hq => ?_, fun h => (by rw [hm] at h; cases h)⟩
          · have := (rearm_armed s2 hcl').1; rw [this] at ha; cases ha
          · cases hcc : s2.closed
            · exact (rearm_armed s2 hcc).2 (by rw [r9]; exact hq)
            · rw [rearm_closed s2 hcc] at ha ⊢; exact hl2.osEdge hm ha hq
        · rw [rh, r11, r12, r2, r1]
          refine ⟨hh2.sync, hh2.backed, fun a' hx => (by cases hx), fun hu hcl' => ?_⟩
          have := hnohup hu hcl'
          have := hg2.osRe hm
          omega
      · -- ET: decrement, return iff the counter reached 0
        have hmne : (g.mode == Mode.os) = false := by rw [hm]; rfl
        simp only [hmne, Bool.false_eq_true, ↓reduceIte]
        split
        · next h0 =>
          simp only [setTask]
          refine ⟨hk2, ⟨(by show (0:Nat) ≤ 2; omega), fun _ => rfl, fun h => (by simp [hasync] at h), by simp, fun _ _ => by simp, hg2.noOverlap⟩, hp2,
            ⟨fun h => (by rw [hm] at h; cases h), fun h => (by rw [hm] at h; cases h), fun h => (by rw [hm] at h; cases h), fun _ hq hcl' => ?_⟩,
            ⟨hh2.sync, hh2.backed, fun a' hx => (by cases hx), fun hu hcl' => ?_⟩⟩
          · rcases hl2.nolostET hm hq hcl' with h' | h'
            · exact Or.inl h'
            · right
              rcases h' with ⟨i, fl', h'⟩ | ⟨fl', h', hx⟩ | h' | ⟨v, h'⟩ | ⟨a', hr', h', hx⟩
              · exact absurd h' (hp2.asyncPs hasync i fl')
              · exact Or.inr (Or.inl ⟨fl', h', hx⟩)
              · rw [c4, ht] at h'; cases h'
              · rw [c4, ht] at h'; cases h'
              · rw [c4, ht] at h'; cases h'
                rcases hx with hx | hx | hx | hx
                · rw [hm] at hx; cases hx
                · rw [hna] at hx; cases hx
                · omega
                · cases hx
          · have := hnohup hu hcl'; omega
        · next h0 =>
          simp only [setTask]
          refine ⟨hk2, ⟨(by have := hg2.re2; show s2.re - 1 ≤ 2; omega), fun h => (by rw [hm] at h; cases h), fun h => (by simp [hasync] at h), by simp, fun _ _ => ?_, hg2.noOverlap⟩, hp2,
            ⟨fun h => (by rw [hm] at h; cases h), fun h => (by rw [hm] at h; cases h), fun h => (by rw [hm] at h; cases h),
             fun _ _ _ => Or.inr (Or.inr (Or.inr (Or.inr (Or.inl ⟨_, rfl⟩))))⟩,
            ⟨hh2.sync, hh2.backed, fun a' hx => (by cases hx), fun _ _ => Or.inr (Or.inl ⟨_, rfl⟩)⟩⟩
          constructor
          · intro h; cases h
          · intro h; exact absurd h h0
  · next v ht => cases hs; exact core_taskRead g s s.hup hk hg hp hl hh (by rw [ht]; simp) (fun h => h) (fun h _ => Or.inl h)

theorem core_step (g : Cfg) (s s' : St) (a : Act) (h : Core g s) (hs : step g s a = some s') : Core g s' := by
  cases a with
  | report i o => exact core_report g s s' i o h hs
  | pstep => exact core_pstep g s s' h hs
  | tstep => exact core_tstep g s s' h hs
  | push b => exact core_env g s s' _ rfl (fun _ _ h => by cases h) h hs
  | dgram a b => exact core_env g s s' _ rfl (fun _ _ h => by cases h) h hs
  | eof => exact core_env g s s' _ rfl (fun _ _ h => by cases h) h hs
  | rderr => exact core_env g s s' _ rfl (fun _ _ h => by cases h) h hs
  | intr n => exact core_env g s s' _ rfl (fun _ _ h => by cases h) h hs
  | stale => exact core_env g s s' _ rfl (fun _ _ h => by cases h) h hs

theorem core_run (g : Cfg) (as : List Act) : ∀ s, Core g s → Core g (run g s as) := by
  induction as with
  | nil => intro s h; exact h
  | cons a as ih =>
    intro s h
    simp only [run]
    split
    · next s' hs => exact ih s' (core_step g s s' a h hs)
    · exact ih s h

end ReadPath
