import NbioVerif.Lemmas.WsLoop
/-! C15: size limits — the inflate loop, delivered messages, the 1009 reply, the cache bound -/
namespace Ws
open WsF

/-! ### readAll -/

theorem probe_ok (buf : Bytes) : ∀ (steps : List RdStep) (b : Bytes), probe buf steps = .ok b → b = buf := by
  intro steps
  induction steps with
  | nil => intro b h; cases h
  | cons st rest ih =>
    intro b h
    unfold probe at h
    split at h
    · cases h
    · split at h
      · cases h; rfl
      · split at h
        · cases h
        · exact ih b h

theorem clampEnd_le (L cap : Nat) (hL : L > 0) : clampEnd L cap ≤ L := by
  unfold clampEnd; split <;> omega

theorem readLoop_bound (L : Nat) (hL : L > 0) : ∀ (steps : List RdStep) (buf rest : Bytes) (need : Nat) (same : Option Nat) (b : Bytes),
    buf.length ≤ L → readLoop L steps buf rest need same = .ok b → b.length ≤ L := by
  intro steps
  induction steps with
  | nil => intro buf rest need same b _ h; cases h
  | cons st steps ih =>
    intro buf rest need same b hb h
    unfold readLoop at h
    simp only at h
    by_cases hc : (capOk st need same && readOk st (clampEnd L st.cap - buf.length) rest.length) = false
    · rw [if_pos hc] at h; cases h
    · rw [if_neg hc] at h
      have hn : st.n ≤ clampEnd L st.cap - buf.length := by
        simp only [Bool.and_eq_false_iff, not_or, Bool.not_eq_false] at hc
        have := hc.2
        simp only [readOk, Bool.and_eq_true, decide_eq_true_eq] at this
        exact this.1.1
      have hlen : (buf ++ rest.take st.n).length ≤ L := by
        have := clampEnd_le L st.cap hL
        simp only [List.length_append, List.length_take]
        omega
      by_cases h1 : (st.st == 1) = true
      · rw [if_pos h1] at h; cases h; exact hlen
      · rw [if_neg h1] at h
        by_cases h2 : (st.st != 0) = true
        · rw [if_pos h2] at h; cases h
        · rw [if_neg h2] at h
          by_cases h3 : ((buf ++ rest.take st.n).length == clampEnd L st.cap) = true
          · rw [if_pos h3] at h
            by_cases h4 : L > 0 ∧ (buf ++ rest.take st.n).length + 1 > L
            · rw [if_pos h4] at h; rw [probe_ok _ _ _ h]; exact hlen
            · rw [if_neg h4] at h; exact ih _ _ _ _ b hlen h
          · rw [if_neg h3] at h; exact ih _ _ _ _ b hlen h

/-- C15: whatever the inflater produces, however it chunks it and whatever capacities the allocator hands out,
    `readAll` never returns more than the limit -/
theorem readAll_bound (L size : Nat) (o : InflObs) (b : Bytes) (hL : L > 0) (h : readAll L size o = .ok b) : b.length ≤ L := by
  unfold readAll at h
  exact readLoop_bound L hL _ _ _ _ _ b (by simp) h

/-- bytes in the inflate buffer when the loop ends, whatever the outcome -/
def RA.held : RA → Nat
  | .ok b => b.length
  | .tooLarge h => h
  | .failed h => h
  | .stuck => 0

theorem probe_held (buf : Bytes) : ∀ (steps : List RdStep), (probe buf steps).held ≤ buf.length := by
  intro steps
  induction steps with
  | nil => simp [probe, RA.held]
  | cons st rest ih =>
    unfold probe
    split
    · simp [RA.held]
    · split
      · simp [RA.held]
      · split
        · simp [RA.held]
        · exact ih

theorem readLoop_held (L : Nat) (hL : L > 0) : ∀ (steps : List RdStep) (buf rest : Bytes) (need : Nat) (same : Option Nat),
    buf.length ≤ L → (readLoop L steps buf rest need same).held ≤ L := by
  intro steps
  induction steps with
  | nil => intro buf rest need same _; simp [readLoop, RA.held]
  | cons st steps ih =>
    intro buf rest need same hb
    unfold readLoop
    simp only
    by_cases hc : (capOk st need same && readOk st (clampEnd L st.cap - buf.length) rest.length) = false
    · rw [if_pos hc]; simp [RA.held]
    · rw [if_neg hc]
      have hn : st.n ≤ clampEnd L st.cap - buf.length := by
        simp only [Bool.and_eq_false_iff, not_or, Bool.not_eq_false] at hc
        have := hc.2
        simp only [readOk, Bool.and_eq_true, decide_eq_true_eq] at this
        exact this.1.1
      have hlen : (buf ++ rest.take st.n).length ≤ L := by
        have := clampEnd_le L st.cap hL
        simp only [List.length_append, List.length_take]
        omega
      by_cases h1 : (st.st == 1) = true
      · rw [if_pos h1]; exact hlen
      · rw [if_neg h1]
        by_cases h2 : (st.st != 0) = true
        · rw [if_pos h2]; exact hlen
        · rw [if_neg h2]
          by_cases h3 : ((buf ++ rest.take st.n).length == clampEnd L st.cap) = true
          · rw [if_pos h3]
            by_cases h4 : L > 0 ∧ (buf ++ rest.take st.n).length + 1 > L
            · rw [if_pos h4]; exact Nat.le_trans (probe_held _ _) hlen
            · rw [if_neg h4]; exact ih _ _ _ _ hlen
          · rw [if_neg h3]; exact ih _ _ _ _ hlen

/-- C15: the inflate buffer never holds more than the limit, whether the message is accepted, refused as too large
    (the bomb itself) or the inflater fails -/
theorem readAll_held (L size : Nat) (o : InflObs) (hL : L > 0) : (readAll L size o).held ≤ L := by
  unfold readAll
  exact readLoop_held L hL _ _ _ _ _ (by simp)

/-- C15 (progress of the loop): when the buffer is full and still below the limit it grows by at least one byte -/
theorem growBy_pos (L l : Nat) (hl : l > 0) (hL : L = 0 ∨ l + 1 ≤ L) : growBy L l > 0 := by
  unfold growBy
  simp only
  split <;> split <;> omega

/-- C15 (progress of the loop): growth never goes beyond the limit -/
theorem growBy_le (L l : Nat) (hL : L > 0) (hl : l ≤ L) : l + growBy L l ≤ L := by
  unfold growBy
  simp only
  split <;> split <;> omega

/-! ### what gets delivered -/

theorem send_writes (g : Cfg) (e : Env) (k : K) (op : Nat) (d : Bytes) : ∀ a ∈ send g e k op d, ∃ b, a = .write b := by
  intro a ha
  unfold send at ha
  split at ha
  · cases ha
  · split at ha
    · simp only [List.mem_map] at ha
      obtain ⟨b, _, hb⟩ := ha
      exact ⟨b, hb.symm⟩
    · cases ha

/-- the default handlers deliver exactly the message they were given, and only text and binary ones -/
theorem handleWs_deliver (g : Cfg) (e : Env) (k : K) (op : Nat) (d : Bytes) (t : Nat) (p : Bytes)
    (h : Act.deliver t p ∈ (handleWs g e k op d).1) : p = d ∧ t = op ∧ (op = 1 ∨ op = 2) := by
  have hs : ∀ (op' : Nat) (d' : Bytes) (l : List Act), Act.deliver t p ∈ send g e k op' d' ++ l → Act.deliver t p ∈ l := by
    intro op' d' l hm
    rcases List.mem_append.mp hm with hm | hm
    · obtain ⟨b, hb⟩ := send_writes g e k op' d' _ hm; cases hb
    · exact hm
  unfold handleWs at h
  simp only at h
  split at h
  · simp only [List.mem_singleton] at h; cases h; exact ⟨rfl, rfl, Or.inr rfl⟩
  · split at h
    · have := hs _ _ _ h; simp at this
    · simp only [List.mem_singleton] at h; cases h; exact ⟨rfl, rfl, Or.inl rfl⟩
  · obtain ⟨b, hb⟩ := send_writes g e k _ _ _ h; cases hb
  · cases h
  · repeat' split at h
    all_goals (have := hs _ _ _ h; simp at this)
  · simp at h

theorem dispatch_deliver (g : Cfg) (e : Env) (k : K) (op : Nat) (d : Bytes) (t : Nat) (p : Bytes)
    (h : Act.deliver t p ∈ (dispatch g e k op d).2) : p = d ∧ t = op ∧ (op = 1 ∨ op = 2) := by
  unfold dispatch at h
  split at h
  · cases h
  · exact handleWs_deliver g e k op d t p h

theorem getD_len (k : K) : (k.message.getD []).length = k.len := by
  unfold K.len; cases k.message <;> rfl

theorem finishMsg_deliver (g : Cfg) (e : Env) (k k' : K) (a : List Act) (hk : KWithin g k) (hL : g.msgLimit > 0)
    (h : finishMsg g e k = .next k' a) (t : Nat) (p : Bytes) (hp : Act.deliver t p ∈ a) : p.length ≤ g.msgLimit := by
  unfold finishMsg at h
  simp only at h
  split at h
  all_goals first | (cases h; done) | skip
  rename_i out hout
  cases h
  have hpd := (dispatch_deliver g e _ _ _ t p hp).1
  subst hpd
  split at hout
  · exact readAll_bound _ _ _ _ hL hout
  · cases hout
    rw [getD_len]; exact hk hL

def DelivOK (g : Cfg) (acts : List Act) : Prop := g.msgLimit > 0 → ∀ t p, Act.deliver t p ∈ acts → p.length ≤ g.msgLimit

theorem applyFrame_deliver (g : Cfg) (e : Env) (s : S) (total op : Nat) (body : Bytes) (fin r1 : Bool) (k' : K) (a : List Act)
    (hw : Within g s) (hnf : nextFrame g s = .frame total op body fin r1)
    (h : applyFrame g e s.k op body fin r1 = .next k' a) : DelivOK g a := by
  intro hL t p hp
  unfold applyFrame at h
  split at h
  · rename_i hop
    have hc : isControl op = false := by
      unfold isControl
      have : op ≠ 8 ∧ op ≠ 9 ∧ op ≠ 10 := by omega
      simp [this]
    have hfit := nextFrame_fits g s hL total op body fin r1 hnf hc
    unfold dataFrame at h
    simp only at h
    split at h
    · have hk : KWithin g (appendBody (startMsg s.k op r1) body) := by
        intro _
        rw [appendBody_len]
        have : (startMsg s.k op r1).len = s.k.len := by unfold K.len; rw [startMsg_message]
        rw [this]; exact hfit
      exact finishMsg_deliver g e _ k' a hk hL h t p hp
    · cases h; cases hp
  · split at h
    · cases h
    · cases h
      have := (dispatch_deliver g e _ _ _ t p hp).2.2
      omega

theorem closeReply_writes (g : Cfg) (e : Env) (k : K) (er : Err) : ∀ a ∈ closeReply g e k er, ∃ b, a = .write b := by
  intro a ha
  unfold closeReply at ha
  split at ha
  · exact send_writes _ _ _ _ _ a ha
  · split at ha
    · exact send_writes _ _ _ _ _ a ha
    · cases ha

theorem delivOK_append (g : Cfg) (a b : List Act) (ha : DelivOK g a) (hb : DelivOK g b) : DelivOK g (a ++ b) := by
  intro hL t p hp
  rcases List.mem_append.mp hp with h | h
  · exact ha hL t p h
  · exact hb hL t p h

theorem delivOK_failWith (g : Cfg) (e : Env) (c : Bytes) (k : K) (acts : List Act) (er : Err) (ha : DelivOK g acts) :
    DelivOK g (failWith g e c k acts er).acts := by
  unfold failWith
  simp only
  apply delivOK_append g _ _ ha
  intro _ t p hp
  obtain ⟨b, hb⟩ := closeReply_writes g e k er _ hp
  cases hb

/-- invariant of the loop: every delivered message and the assembly are within the limit, error or not -/
theorem run_limits (g : Cfg) (e : Env) : ∀ (n : Nat) (s : S) (acts : List Act), s.cache.length ≤ n → Within g s → DelivOK g acts →
    DelivOK g (run g e s acts).acts ∧ Within g (run g e s acts).s ∧ (run g e s acts).s.cache.length ≤ s.cache.length := by
  intro n
  induction n with
  | zero =>
    intro s acts hn hw ha
    have hc : s.cache = [] := List.eq_nil_of_length_eq_zero (by omega)
    have hnf : nextFrame g s = .need := by simp [nextFrame, decodeHdr, hc]
    rw [run_unfold g e s acts, hnf]
    exact ⟨ha, hw, Nat.le_refl _⟩
  | succ n ih =>
    intro s acts hn hw ha
    rw [run_unfold g e s acts]
    cases hnf : nextFrame g s with
    | need => exact ⟨ha, hw, Nat.le_refl _⟩
    | err er => exact ⟨delivOK_failWith g e _ _ _ _ ha, hw, Nat.le_refl _⟩
    | frame total op body fin r1 =>
      simp only
      cases haf : applyFrame g e s.k op body fin r1 with
      | fail k' er =>
        refine ⟨delivOK_failWith g e _ _ _ _ ha, ?_, Nat.le_refl _⟩
        intro hL
        show k'.len ≤ g.msgLimit
        unfold applyFrame at haf
        split at haf
        · unfold dataFrame at haf
          simp only at haf
          split at haf
          · unfold finishMsg at haf
            simp only at haf
            split at haf
            all_goals first | (cases haf; simp [K.len]; done) | cases haf
          · cases haf
        · split at haf
          · cases haf; exact hw hL
          · cases haf
      | next k' a =>
        simp only
        have ht := nextFrame_total g s total op body fin r1 hnf
        have hw' : Within g { cache := s.cache.drop total, k := k' } := applyFrame_within g e s total op body fin r1 k' a hw hnf haf
        have hd := applyFrame_deliver g e s total op body fin r1 k' a hw hnf haf
        have := ih { cache := s.cache.drop total, k := k' } (acts ++ a) (by simp only [List.length_drop]; omega) hw' (delivOK_append g _ _ ha hd)
        refine ⟨this.1, this.2.1, ?_⟩
        have h3 := this.2.2
        simp only [List.length_drop] at h3
        omega

/-! ### Parse calls and sequences of Parse calls -/

theorem parse_cases (g : Cfg) (e : Env) (s : S) (data : Bytes) :
    parse g e s data = ⟨s, [], none⟩ ∨ parse g e s data = ⟨s, [], some .tooLong⟩ ∨
    (parse g e s data = run g e { s with cache := s.cache ++ data } [] ∧
      (g.readLimit > 0 → s.cache ≠ [] → s.cache.length + data.length ≤ g.readLimit)) := by
  unfold parse
  by_cases hd : data = []
  · left; simp [hd]
  · by_cases hl : (decide (g.readLimit > 0) && decide (s.cache ≠ []) && decide (s.cache.length + data.length > g.readLimit)) = true
    · right; left
      simp only [beq_iff_eq, hd, if_false]
      rw [if_pos (by simpa using hl)]
    · right; right
      simp only [beq_iff_eq, hd, if_false]
      rw [if_neg (by simpa using hl)]
      refine ⟨rfl, ?_⟩
      intro h1 h2
      simp only [Bool.and_eq_true, decide_eq_true_eq, not_and, Nat.not_lt] at hl
      exact hl ⟨h1, h2⟩

/-- bound on the unparsed cache: the read limit, except that one read into an empty cache may be kept whole -/
def CacheOK (g : Cfg) (B : Nat) (s : S) : Prop := g.readLimit > 0 → s.cache.length ≤ max g.readLimit B

theorem parse_limits (g : Cfg) (e : Env) (s : S) (data : Bytes) (B : Nat) (hw : Within g s) (hc : CacheOK g B s) (hB : data.length ≤ B) :
    DelivOK g (parse g e s data).acts ∧ Within g (parse g e s data).s ∧ CacheOK g B (parse g e s data).s := by
  have hnil : DelivOK g [] := by intro _ t p hp; cases hp
  rcases parse_cases g e s data with h | h | ⟨h, hrl⟩
  · rw [h]; exact ⟨hnil, hw, hc⟩
  · rw [h]; exact ⟨hnil, hw, hc⟩
  · rw [h]
    have := run_limits g e _ { s with cache := s.cache ++ data } [] (Nat.le_refl _) hw hnil
    refine ⟨this.1, this.2.1, ?_⟩
    intro hr
    have h3 : (run g e { s with cache := s.cache ++ data } []).s.cache.length ≤ (s.cache ++ data).length := this.2.2
    have h4 : (s.cache ++ data).length ≤ max g.readLimit B := by
      by_cases hcn : s.cache = []
      · rw [hcn]; simp only [List.nil_append]; omega
      · have := hrl hr hcn; simp only [List.length_append]; omega
    omega

theorem feed_limits (g : Cfg) (e : Env) (B : Nat) : ∀ (segs : List Bytes) (s : S) (acts : List Act),
    (∀ seg ∈ segs, seg.length ≤ B) → Within g s → CacheOK g B s → DelivOK g acts →
    DelivOK g (feed g e s segs acts).acts ∧ Within g (feed g e s segs acts).s ∧ CacheOK g B (feed g e s segs acts).s := by
  intro segs
  induction segs with
  | nil => intro s acts _ hw hc ha; exact ⟨ha, hw, hc⟩
  | cons seg segs ih =>
    intro s acts hB hw hc ha
    have hp := parse_limits g e s seg B hw hc (hB seg (List.mem_cons_self ..))
    unfold feed
    cases herr : (parse g e s seg).err with
    | some er => exact ⟨delivOK_append g _ _ ha hp.1, hp.2.1, hp.2.2⟩
    | none =>
      exact ih _ _ (fun x hx => hB x (List.mem_cons_of_mem _ hx)) hp.2.1 hp.2.2 (delivOK_append g _ _ ha hp.1)

theorem length_le_sum (segs : List Bytes) : ∀ seg ∈ segs, seg.length ≤ (segs.map List.length).sum := by
  induction segs with
  | nil => intro seg h; cases h
  | cons x xs ih =>
    intro seg h
    simp only [List.map_cons, List.sum_cons]
    rcases List.mem_cons.mp h with h | h
    · subst h; omega
    · have := ih seg h; omega

/-! ### the 1009 reply -/

def tooBigReason (er : Err) : Bytes :=
  if er == .tooLarge then str "message exceeds the configured limit" else str "websocket: control frame length > 125"

theorem failWith_1009 (g : Cfg) (e : Env) (c : Bytes) (k : K) (acts : List Act) (er : Err)
    (her : er = .tooLarge ∨ er = .controlTooBig) (hk : k.connClosed = false) :
    Act.write (encodeFrame g.isClient (e.keyAt k.nwrites) 8 true true (be16 1009 ++ tooBigReason er) false)
      ∈ (failWith g e c k acts er).acts := by
  unfold failWith closeReply
  simp only
  apply List.mem_append_right
  rcases her with h | h <;> subst h
  · simp only [beq_self_eq_true, if_true, send, hk, Bool.false_eq_true, if_false, tooBigReason]
    have : writeMessage g e k.nwrites 8 (be16 1009 ++ str "message exceeds the configured limit") =
        .ok [encodeFrame g.isClient (e.keyAt k.nwrites) 8 true true (be16 1009 ++ str "message exceeds the configured limit") false] := by
      unfold writeMessage
      have h1 : isControl 8 = true := by decide
      have h2 : ¬ (be16 1009 ++ str "message exceeds the configured limit").length > 125 := by decide
      simp only [h1, if_true, h2, if_false]
    rw [this]
    simp
  · have hne : (Err.controlTooBig == Err.tooLarge) = false := by decide
    simp only [hne, Bool.false_eq_true, if_false, beq_self_eq_true, if_true, send, hk, tooBigReason]
    have : writeMessage g e k.nwrites 8 (be16 1009 ++ str "websocket: control frame length > 125") =
        .ok [encodeFrame g.isClient (e.keyAt k.nwrites) 8 true true (be16 1009 ++ str "websocket: control frame length > 125") false] := by
      unfold writeMessage
      have h1 : isControl 8 = true := by decide
      have h2 : ¬ (be16 1009 ++ str "websocket: control frame length > 125").length > 125 := by decide
      simp only [h1, if_true, h2, if_false]
    rw [this]
    simp

/-- a run that ends with an error ends through the error exit (`failWith`), unless the fuel ran out -/
theorem run_err (g : Cfg) (e : Env) : ∀ (n : Nat) (s : S) (acts : List Act) (er : Err), s.cache.length ≤ n →
    (run g e s acts).err = some er → ∃ c k acts', run g e s acts = failWith g e c k acts' er := by
  intro n
  induction n with
  | zero =>
    intro s acts er hn h
    have hc : s.cache = [] := List.eq_nil_of_length_eq_zero (by omega)
    have hnf : nextFrame g s = .need := by simp [nextFrame, decodeHdr, hc]
    rw [run_unfold g e s acts, hnf] at h
    cases h
  | succ n ih =>
    intro s acts er hn h
    rw [run_unfold g e s acts] at h ⊢
    cases hnf : nextFrame g s with
    | need => rw [hnf] at h; cases h
    | err er' =>
      rw [hnf] at h
      have : er' = er := by simpa [failWith] using h
      subst this
      exact ⟨_, _, _, rfl⟩
    | frame total op body fin r1 =>
      rw [hnf] at h
      simp only at h ⊢
      cases haf : applyFrame g e s.k op body fin r1 with
      | fail k' er' =>
        rw [haf] at h
        have : er' = er := by simpa [failWith] using h
        subst this
        exact ⟨_, _, _, rfl⟩
      | next k' a =>
        rw [haf] at h
        simp only at h ⊢
        have ht := nextFrame_total g s total op body fin r1 hnf
        exact ih _ _ er (by simp only [List.length_drop]; omega) h

/-- C15: a size violation is answered with a close frame carrying code 1009 (while the conn can still be written) -/
theorem run_1009 (g : Cfg) (e : Env) (s : S) (acts : List Act) (er : Err)
    (h : (run g e s acts).err = some er) (her : er = .tooLarge ∨ er = .controlTooBig)
    (hk : (run g e s acts).s.k.connClosed = false) :
    ∃ key, Act.write (encodeFrame g.isClient key 8 true true (be16 1009 ++ tooBigReason er) false) ∈ (run g e s acts).acts := by
  obtain ⟨c, k, acts', hr⟩ := run_err g e _ s acts er (Nat.le_refl _) h
  rw [hr] at hk ⊢
  have hk' : k.connClosed = false := by simpa [failWith] using hk
  exact ⟨_, failWith_1009 g e c k acts' er her hk'⟩

/-- C15: a data frame whose declared length does not fit with what is assembled is refused as soon as its header is complete -/
theorem oversize_refused (g : Cfg) (s : S) (h : HdrInfo) (hd : decodeHdr s.cache = some (.ok h)) (hc : isControl h.opcode = false)
    (hL : g.msgLimit > 0) (hbig : (msgLen s : Int) + h.bodyLen > g.msgLimit) : nextFrame g s = .err .tooLarge := by
  unfold nextFrame
  rw [hd]
  simp only
  have : sizeCheck g (msgLen s) h = some .tooLarge := by
    unfold sizeCheck tooLarge
    simp [hc, hL, hbig]
  rw [this]

/-- C15: a control frame declaring more than 125 bytes is refused as soon as its header is complete -/
theorem control_oversize_refused (g : Cfg) (s : S) (h : HdrInfo) (hd : decodeHdr s.cache = some (.ok h)) (hc : isControl h.opcode = true)
    (hbig : h.bodyLen > 125) : nextFrame g s = .err .controlTooBig := by
  unfold nextFrame
  rw [hd]
  simp only
  have : sizeCheck g (msgLen s) h = some .controlTooBig := by
    unfold sizeCheck
    simp [hc, hbig]
  rw [this]

/-! ### the unparsed cache is bounded by the message limit as well -/

theorem mkHdr_headLen_le (x0 x1 : UInt8) (n : Int) (hl : Nat) (h : hl ≤ 10) : (mkHdr x0 x1 n hl).headLen ≤ 14 := by
  simp only [mkHdr]; split <;> omega

theorem decodeHdr_neg_len (c : Bytes) (h : HdrInfo) (hd : decodeHdr c = some (.ok h)) (hb : ¬ h.bodyLen ≥ 0) : c.length < 10 := by
  match c, hd with
  | [], hd => simp
  | [x], hd => simp
  | x0 :: x1 :: rest, hd =>
    unfold decodeHdr at hd
    simp only at hd
    by_cases h126 : (x1.toNat % 128 == 126) = true
    · rw [if_pos h126] at hd
      by_cases hr : rest.length ≥ 2
      · rw [if_pos hr] at hd; cases hd; simp [mkHdr] at hb
      · rw [if_neg hr] at hd; simp only [List.length_cons]; omega
    · rw [if_neg h126] at hd
      by_cases h127 : (x1.toNat % 128 == 127) = true
      · rw [if_pos h127] at hd
        by_cases hr : rest.length ≥ 8
        · rw [if_pos hr] at hd
          split at hd
          · cases hd
          · cases hd; simp [mkHdr] at hb
        · rw [if_neg hr] at hd; simp only [List.length_cons]; omega
      · rw [if_neg h127] at hd; cases hd; simp [mkHdr] at hb; omega

/-- while Parse waits for more input, what it keeps is an incomplete header (< 14 bytes) or an incomplete frame whose
    declared payload passed the size checks: at most 125 bytes for a control frame, at most what the message limit
    still admits otherwise -/
theorem need_cache_lt (g : Cfg) (s : S) (hL : g.msgLimit > 0) (h : nextFrame g s = .need) :
    s.cache.length < 14 + max 125 (g.msgLimit - msgLen s) := by
  have hmax : 125 ≤ max 125 (g.msgLimit - msgLen s) := Nat.le_max_left _ _
  have hmax2 : g.msgLimit - msgLen s ≤ max 125 (g.msgLimit - msgLen s) := Nat.le_max_right _ _
  unfold nextFrame at h
  split at h
  · -- fewer than two bytes
    rename_i hd
    unfold decodeHdr at hd
    split at hd
    · simp only at hd; repeat' split at hd
      all_goals cases hd
    · rename_i hne
      match hc : s.cache with
      | [] => simp only [List.length_nil]; omega
      | [x] => simp only [List.length_cons, List.length_nil]; omega
      | x0 :: x1 :: r => exact absurd hc (by intro hh; exact hne x0 x1 r hh)
  · cases h
  · rename_i hd hdec
    split at h
    · cases h
    · rename_i hsz
      have hhl : hd.headLen ≤ 14 := by
        unfold decodeHdr at hdec
        split at hdec
        · simp only at hdec
          repeat' split at hdec
          all_goals (first | (cases hdec; done) | (cases hdec; exact mkHdr_headLen_le _ _ _ _ (by omega)))
        · cases hdec
      split at h
      · split at h <;> cases h
      · rename_i hnot
        by_cases hb : hd.bodyLen ≥ 0
        · have hlt : s.cache.length < hd.headLen + hd.bodyLen.toNat :=
            Nat.lt_of_not_le (fun hge => hnot ⟨hb, hge⟩)
          -- the declared length passed the size checks
          have hbody : hd.bodyLen.toNat ≤ 125 ∨ hd.bodyLen.toNat ≤ g.msgLimit - msgLen s := by
            unfold sizeCheck at hsz
            by_cases hc : isControl hd.opcode = true
            · simp only [hc, Bool.not_true, Bool.false_and, Bool.false_eq_true, if_false, Bool.and_true] at hsz
              split at hsz
              · cases hsz
              · rename_i hn; simp only [decide_eq_true_eq] at hn; left; omega
            · have hc' : isControl hd.opcode = false := by simpa using hc
              simp only [hc', Bool.not_false, Bool.true_and, Bool.and_false, Bool.false_eq_true, if_false] at hsz
              split at hsz
              · cases hsz
              · rename_i hn
                simp only [tooLarge, hL, decide_true, Bool.true_and, decide_eq_true_eq] at hn
                right; omega
          rcases hbody with hbody | hbody <;> omega
        · -- extended length incomplete: at most 9 bytes cached
          have := decodeHdr_neg_len s.cache hd hdec hb
          omega

theorem parse_need (g : Cfg) (e : Env) (s : S) (data : Bytes) (hw : Within g s) (hn : nextFrame g s = .need)
    (he : (parse g e s data).err = none) : nextFrame g (parse g e s data).s = .need ∧ Within g (parse g e s data).s := by
  rcases parse_cases g e s data with h | h | ⟨h, _⟩
  · rw [h]; exact ⟨hn, hw⟩
  · rw [h] at he; cases he
  · rw [h] at he ⊢
    exact run_end g e _ { s with cache := s.cache ++ data } [] (Nat.le_refl _) hw he

theorem feed_need (g : Cfg) (e : Env) : ∀ (segs : List Bytes) (s : S) (acts : List Act), Within g s → nextFrame g s = .need →
    (feed g e s segs acts).err = none → nextFrame g (feed g e s segs acts).s = .need := by
  intro segs
  induction segs with
  | nil => intro s acts _ hn _; exact hn
  | cons seg segs ih =>
    intro s acts hw hn he
    unfold feed at he ⊢
    cases herr : (parse g e s seg).err with
    | some er => rw [herr] at he; cases he
    | none =>
      rw [herr] at he
      simp only at he ⊢
      have := parse_need g e s seg hw hn herr
      exact ih _ _ this.2 this.1 he

end Ws
