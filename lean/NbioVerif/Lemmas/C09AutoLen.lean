import NbioVerif.Lemmas.C09Main
/-! `hasBody` along a body phase: once a non-empty write has been made it stays set (the automatic
Content-Length of the head encoder depends on it). -/
namespace Resp

theorem writeHeader_hasBody (r : R) (c : Nat) (st : Bytes) : (writeHeader r c st).hasBody = r.hasBody := by
  unfold writeHeader; dsimp only; repeat' split
  all_goals rfl

theorem checkChunked_hasBody (g : Cfg) (r : R) : (checkChunked g r).hasBody = r.hasBody := by
  unfold checkChunked; dsimp only; repeat' split
  all_goals rfl

theorem contentLength_hasBody (r : R) : (contentLength r).1.hasBody = r.hasBody := by
  unfold contentLength; dsimp only; repeat' split
  all_goals rfl

theorem writeBody_hasBody (g : Cfg) (r : R) (d : Bytes) : (writeBody g r d).1.hasBody = r.hasBody := by
  unfold writeBody
  split
  · simp
  · have hc := contentLength_hasBody r
    generalize contentLength r = p at *
    obtain ⟨r1, v⟩ := p
    cases v with
    | none => exact hc
    | some cl =>
      dsimp only at hc ⊢
      unfold writeIdent
      split
      · exact hc
      · have ht := takeHead_hasBody g r1 d.length cl
        generalize takeHead g r1 d.length cl = q at *
        obtain ⟨r2, ok⟩ := q
        cases ok with
        | false => dsimp only at ht ⊢; rw [ht, hc]
        | true => dsimp only at ht ⊢; rw [appendBody_hasBody, ht, hc]

theorem write_hasBody_ne (g : Cfg) (r : R) (d : Bytes) (hne : d ≠ []) : (write g r d).1.hasBody = true := by
  have hl : (d.length == 0) = false := by
    cases d with
    | nil => exact absurd rfl hne
    | cons a t => rfl
  unfold write
  rw [hl]
  simp only [Bool.false_eq_true, ↓reduceIte]
  rw [writeBody_hasBody]

theorem write_hasBody_mono (g : Cfg) (r : R) (d : Bytes) (h : r.hasBody = true) : (write g r d).1.hasBody = true := by
  by_cases hne : d = []
  · subst hne; simpa [write] using h
  · exact write_hasBody_ne g r d hne

theorem flushOp_hasBody (g : Cfg) (r : R) : (flushOp g r).hasBody = r.hasBody := by
  unfold flushOp
  rw [flushBodyBuf_hasBody, flushBuf_hasBody, eoncodeHead_hasBody, markDelim_hasBody, checkChunked_hasBody]
  exact writeHeader_hasBody r 200 stOK

theorem runB_hasBody (g : Cfg) (ops : List BOp) (r : R)
    (h : r.hasBody = true ∨ (runB g r ops).2.flatten ≠ []) : (runB g r ops).1.hasBody = true := by
  induction ops generalizing r with
  | nil =>
    rcases h with h | h
    · exact h
    · simp [runB] at h
  | cons op t ih =>
    cases op with
    | write d =>
      simp only [runB] at h ⊢
      have hm := write_hasBody_mono g r d
      have hn := write_hasBody_ne g r d
      generalize write g r d = p at *
      obtain ⟨r', w⟩ := p
      dsimp only at h hm hn ⊢
      apply ih
      rcases h with h | h
      · exact Or.inl (hm h)
      · by_cases hd : d = []
        · subst hd
          right
          cases w <;> simpa using h
        · exact Or.inl (hn hd)
    | flush =>
      simp only [runB, BOp.toOp, step] at h ⊢
      apply ih
      rcases h with h | h
      · exact Or.inl (by rw [flushOp_hasBody]; exact h)
      · exact Or.inr h
    | setH k v => simp only [runB, BOp.toOp, step] at h ⊢; exact ih _ h
    | addH k v => simp only [runB, BOp.toOp, step] at h ⊢; exact ih _ h
    | delH k => simp only [runB, BOp.toOp, step] at h ⊢; exact ih _ h

/-- `closeDelim` is set by Flush only -/
theorem runB_closeDelim_noflush (g : Cfg) (ops : List BOp) (r : R) (hnf : ∀ op ∈ ops, op ≠ .flush) :
    (runB g r ops).1.closeDelim = r.closeDelim := by
  induction ops generalizing r with
  | nil => rfl
  | cons op t ih =>
    have hnf' : ∀ op ∈ t, op ≠ .flush := fun o ho => hnf o (List.mem_cons_of_mem _ ho)
    cases op with
    | write d =>
      simp only [runB]
      have := write_closeDelim g r d
      generalize write g r d = p at *
      obtain ⟨r', w⟩ := p
      dsimp only at this ⊢
      rw [ih r' hnf', this]
    | flush => exact absurd rfl (hnf .flush (List.mem_cons_self ..))
    | setH k v => simp only [runB, BOp.toOp, step]; exact ih _ hnf'
    | addH k v => simp only [runB, BOp.toOp, step]; exact ih _ hnf'
    | delH k => simp only [runB, BOp.toOp, step]; exact ih _ hnf'

/-- …and never reset -/
theorem runB_closeDelim_mono (g : Cfg) (ops : List BOp) (r : R) (h : r.closeDelim = true) :
    (runB g r ops).1.closeDelim = true := by
  induction ops generalizing r with
  | nil => exact h
  | cons op t ih =>
    cases op with
    | write d =>
      simp only [runB]
      have := write_closeDelim g r d
      generalize write g r d = p at *
      obtain ⟨r', w⟩ := p
      dsimp only at this ⊢
      exact ih r' (by rw [this]; exact h)
    | flush =>
      simp only [runB, BOp.toOp, step]
      apply ih
      unfold flushOp
      simp only [flushBodyBuf_closeDelim, flushBuf_closeDelim, eoncodeHead_closeDelim]
      apply markDelim_mono
      unfold writeHeader200
      simp [h]
    | setH k v => simp only [runB, BOp.toOp, step]; exact ih _ h
    | addH k v => simp only [runB, BOp.toOp, step]; exact ih _ h
    | delH k => simp only [runB, BOp.toOp, step]; exact ih _ h

end Resp
