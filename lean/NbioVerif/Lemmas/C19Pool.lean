import NbioVerif.Model.TPool
/-! Inductive invariants of the task-pool transition system: the counter equation, the worker
bound, and conservation of tasks (by counting). -/
namespace TPool

/-! ### list helpers -/

theorem count_flatMap_set {α : Type} (f : α → List Nat) (t : Nat) :
    ∀ (l : List α) (i : Nat) (x y : α), l[i]? = some x →
      ((l.set i y).flatMap f).count t + (f x).count t = (l.flatMap f).count t + (f y).count t := by
  intro l
  induction l with
  | nil => intro i x y h; simp at h
  | cons a as ih =>
    intro i x y h
    cases i with
    | zero =>
      simp at h; subst h
      simp [List.flatMap_cons, List.count_append]; omega
    | succ j =>
      simp at h
      have := ih j x y h
      simp [List.flatMap_cons, List.count_append] at this ⊢; omega

theorem count_flatMap_eraseIdx {α : Type} (f : α → List Nat) (t : Nat) :
    ∀ (l : List α) (i : Nat) (x : α), l[i]? = some x →
      ((l.eraseIdx i).flatMap f).count t + (f x).count t = (l.flatMap f).count t := by
  intro l
  induction l with
  | nil => intro i x h; simp at h
  | cons a as ih =>
    intro i x h
    cases i with
    | zero =>
      simp at h; subst h
      simp [List.flatMap_cons, List.count_append]; omega
    | succ j =>
      simp at h
      have := ih j x h
      simp [List.flatMap_cons, List.count_append] at this ⊢; omega

def isFailed : GoPh → Bool | .failed _ => true | .enq _ => false
def nFailed (s : St) : Nat := (s.goers.filter isFailed).length

theorem filter_set_failed_enq (l : List GoPh) (i t : Nat) (h : l[i]? = some (.failed t)) :
    ((l.set i (.enq t)).filter isFailed).length + 1 = (l.filter isFailed).length := by
  induction l generalizing i with
  | nil => simp at h
  | cons x xs ih =>
    cases i with
    | zero => simp at h; subst h; simp [isFailed, List.filter_cons]
    | succ j =>
      simp at h
      have := ih j h
      cases hx : isFailed x <;> simp [hx] <;> omega

theorem filter_erase_enq (l : List GoPh) (i t : Nat) (h : l[i]? = some (.enq t)) :
    ((l.eraseIdx i).filter isFailed).length = (l.filter isFailed).length := by
  induction l generalizing i with
  | nil => simp at h
  | cons x xs ih =>
    cases i with
    | zero => simp at h; subst h; simp [isFailed]
    | succ j =>
      simp at h
      have := ih j h
      cases hx : isFailed x <;> simp [hx] <;> omega

/-! ### the counter equation and the worker bound -/

def dFailed (s : St) : Nat := match s.disp with | .failed _ => 1 | _ => 0
def stopTerm (g : Cfg) (s : St) : Int := if s.stopAdd then g.maxC else 0

/-- `concurrent` = live workers + increments of failed forks not yet undone + `Stop`'s addend;
    and a worker is only ever started below the bound -/
structure CInv (g : Cfg) (s : St) : Prop where
  counter : s.conc = (s.workers.length : Int) + (nFailed s : Int) + (dFailed s : Int) + stopTerm g s
  bound   : s.workers = [] ∨ (s.workers.length : Int) < g.maxC

theorem cinv_init (g : Cfg) : CInv g init := by
  constructor <;> simp [init, nFailed, dFailed, stopTerm]

theorem fork_bound (g : Cfg) (s : St) (h : CInv g s) (hv : s.conc + 1 < g.maxC) :
    ((s.workers.length + 1 : Nat) : Int) < g.maxC := by
  have hc := h.counter
  unfold stopTerm at hc
  split at hc <;> omega

theorem cinv_step (g : Cfg) (hl : g.leak = false) (s s' : St) (a : Act) (h : CInv g s)
    (hs : step g s a = some s') : CInv g s' := by
  have hc := h.counter
  have hb := h.bound
  cases a with
  | go t =>
    simp only [step] at hs
    split at hs
    · rename_i hv
      have := fork_bound g s h hv
      cases hs
      constructor
      · simp [nFailed, dFailed, stopTerm] at hc ⊢; omega
      · right; simpa using this
    · cases hs
      constructor
      · have e : (List.filter isFailed [GoPh.failed t]).length = 1 := by simp [isFailed, List.filter_cons]
        simp [nFailed, dFailed, stopTerm, List.filter_append, e] at hc ⊢; omega
      · exact hb
  | goUndo i =>
    simp only [step] at hs
    split at hs
    · rename_i t hg
      cases hs
      have := filter_set_failed_enq s.goers i t hg
      constructor
      · simp [nFailed, dFailed, stopTerm] at hc ⊢; omega
      · exact hb
    · cases hs
  | goEnq i =>
    simp only [step] at hs
    split at hs
    · rename_i t hg
      have := filter_erase_enq s.goers i t hg
      split at hs
      · cases hs
        exact ⟨by simp [nFailed, dFailed, stopTerm] at hc ⊢; omega, hb⟩
      · split at hs
        · rename_i hidle
          cases hs
          have hd : s.disp = .idle := hidle.2.1
          exact ⟨by simp [nFailed, dFailed, stopTerm, hd] at hc ⊢; omega, hb⟩
        · cases hs
    · cases hs
  | goDrop i =>
    simp only [step] at hs
    split at hs
    · rename_i t hg
      have := filter_erase_enq s.goers i t hg
      split at hs
      · cases hs
        exact ⟨by simp [nFailed, dFailed, stopTerm] at hc ⊢; omega, hb⟩
      · cases hs
    · cases hs
  | wFinish i p =>
    simp only [step] at hs
    split at hs
    · cases hs
      exact ⟨by simpa [nFailed, dFailed, stopTerm] using hc, by
        rcases hb with hb | hb
        · left; simp [hb]
        · right; simpa using hb⟩
    · cases hs
  | wTake i =>
    simp only [step] at hs
    split at hs
    · split at hs <;> cases hs <;>
        exact ⟨by simpa [nFailed, dFailed, stopTerm] using hc, by
          rcases hb with hb | hb
          · left; simp [hb]
          · right; simpa using hb⟩
    · cases hs
  | wRdv i k =>
    simp only [step] at hs
    split at hs
    · rename_i t hw hg
      have := filter_erase_enq s.goers k t hg
      split at hs
      · cases hs
        exact ⟨by simp [nFailed, dFailed, stopTerm] at hc ⊢; omega, by
          rcases hb with hb | hb
          · left; simp [hb]
          · right; simpa using hb⟩
      · cases hs
    · cases hs
  | wExit i =>
    simp only [step] at hs
    split at hs
    · rename_i hw
      cases hs
      have hi : i < s.workers.length := (List.getElem?_eq_some_iff.mp hw).1
      constructor
      · simp [nFailed, dFailed, stopTerm, List.length_eraseIdx, hi] at hc ⊢; omega
      · rcases hb with hb | hb
        · left; simp [hb]
        · right; simp [List.length_eraseIdx, hi]; omega
    · cases hs
  | dRecv =>
    simp only [step] at hs
    split at hs
    · rename_i hd _
      cases hs
      exact ⟨by simp [nFailed, dFailed, stopTerm, hd] at hc ⊢; omega, hb⟩
    · cases hs
  | dExit =>
    simp only [step] at hs
    split at hs
    · rename_i hd
      split at hs
      · cases hs
        exact ⟨by cases g.nodrain <;> (simp [nFailed, dFailed, stopTerm, hd] at hc ⊢; omega), hb⟩
      · cases hs
    · cases hs
  | dDrain =>
    simp only [step] at hs
    split at hs
    · rename_i t q hd _
      cases hs
      exact ⟨by simp [nFailed, dFailed, stopTerm, hd] at hc ⊢; omega, hb⟩
    · rename_i hd _
      cases hs
      exact ⟨by simp [nFailed, dFailed, stopTerm, hd] at hc ⊢; omega, hb⟩
    · cases hs
  | dFork =>
    simp only [step] at hs
    split at hs
    · rename_i t hd
      split at hs
      · rename_i hv
        have := fork_bound g s h hv
        cases hs
        constructor
        · simp [nFailed, dFailed, stopTerm, hd] at hc ⊢; omega
        · right; simpa using this
      · cases hs
        exact ⟨by simp [nFailed, dFailed, stopTerm, hd] at hc ⊢; omega, hb⟩
    · cases hs
  | dUndo =>
    simp only [step] at hs
    split at hs
    · rename_i t hd
      cases hs
      exact ⟨by simp [nFailed, dFailed, stopTerm, hd, hl] at hc ⊢; omega, hb⟩
    · cases hs
  | dFinish p =>
    simp only [step] at hs
    split at hs
    · rename_i t hd
      cases hs
      exact ⟨by simp [nFailed, dFailed, stopTerm, hd] at hc ⊢; omega, hb⟩
    · rename_i t hd
      cases hs
      exact ⟨by simp [nFailed, dFailed, stopTerm, hd] at hc ⊢; omega, hb⟩
    · cases hs
  | call t =>
    simp only [step] at hs
    cases hs
    exact ⟨by simpa [nFailed, dFailed, stopTerm] using hc, hb⟩
  | cFinish i p =>
    simp only [step] at hs
    split at hs
    · cases hs
      exact ⟨by simpa [nFailed, dFailed, stopTerm] using hc, hb⟩
    · cases hs
  | stopAdd =>
    simp only [step] at hs
    split at hs
    · cases hs
    · rename_i hsa
      cases hs
      exact ⟨by simp [nFailed, dFailed, stopTerm, hsa] at hc ⊢; omega, hb⟩
  | stopClose =>
    simp only [step] at hs
    split at hs
    · cases hs
      exact ⟨by simpa [nFailed, dFailed, stopTerm] using hc, hb⟩
    · cases hs

theorem cinv_run (g : Cfg) (hl : g.leak = false) (as : List Act) : ∀ s, CInv g s → CInv g (run g s as) := by
  induction as with
  | nil => intro s h; exact h
  | cons a as ih =>
    intro s h
    simp only [run]
    split
    · rename_i s' hs; exact ih s' (cinv_step g hl s s' a h hs)
    · exact ih s h

/-! ### conservation of tasks -/

/-- every place a task can be -/
def allTasks (s : St) : List Nat :=
  s.goers.flatMap gTask ++ s.queue ++ s.workers.flatMap wTask ++ dTask s.disp ++ s.done ++ s.dropped ++
    s.callers.flatMap cTask

/-- each task handed over is in exactly as many places as it was handed over times -/
def Cons (s : St) : Prop := ∀ t, (allTasks s).count t = s.handed.count t

theorem cons_init : Cons init := by intro t; simp [allTasks, init, dTask]

theorem cons_step (g : Cfg) (s s' : St) (a : Act) (h : Cons s) (hs : step g s a = some s') : Cons s' := by
  intro t0
  have h0 := h t0
  unfold allTasks at h0 ⊢
  cases a with
  | go t =>
    simp only [step] at hs
    split at hs <;> cases hs <;>
      (simp [List.count_append, List.flatMap_append, wTask, gTask, List.count_cons] at h0 ⊢; omega)
  | goUndo i =>
    simp only [step] at hs
    split at hs
    · rename_i t hg
      cases hs
      have := count_flatMap_set gTask t0 s.goers i _ (.enq t) hg
      simp [List.count_append, gTask] at h0 this ⊢; omega
    · cases hs
  | goEnq i =>
    simp only [step] at hs
    split at hs
    · rename_i t hg
      have := count_flatMap_eraseIdx gTask t0 s.goers i _ hg
      split at hs
      · cases hs
        simp [List.count_append, gTask, List.count_cons] at h0 this ⊢; omega
      · split at hs
        · rename_i hidle
          cases hs
          have hd : s.disp = .idle := hidle.2.1
          simp [List.count_append, gTask, dTask, hd, List.count_cons] at h0 this ⊢; omega
        · cases hs
    · cases hs
  | goDrop i =>
    simp only [step] at hs
    split at hs
    · rename_i t hg
      have := count_flatMap_eraseIdx gTask t0 s.goers i _ hg
      split at hs
      · cases hs
        simp [List.count_append, gTask, List.count_cons] at h0 this ⊢; omega
      · cases hs
    · cases hs
  | wFinish i p =>
    simp only [step] at hs
    split at hs
    · rename_i t hw
      cases hs
      have := count_flatMap_set wTask t0 s.workers i _ .idle hw
      simp [List.count_append, wTask, List.count_cons] at h0 this ⊢; omega
    · cases hs
  | wTake i =>
    simp only [step] at hs
    split at hs
    · rename_i hw
      split at hs
      · rename_i t q hq
        cases hs
        have := count_flatMap_set wTask t0 s.workers i _ (.running t) hw
        simp [List.count_append, wTask, hq, List.count_cons] at h0 this ⊢; omega
      · rename_i hq
        cases hs
        have := count_flatMap_set wTask t0 s.workers i _ .exiting hw
        simp [List.count_append, wTask, hq] at h0 this ⊢; omega
    · cases hs
  | wRdv i k =>
    simp only [step] at hs
    split at hs
    · rename_i t hw hg
      split at hs
      · cases hs
        have h1 := count_flatMap_set wTask t0 s.workers i _ (.running t) hw
        have h2 := count_flatMap_eraseIdx gTask t0 s.goers k _ hg
        simp [List.count_append, wTask, gTask, List.count_cons] at h0 h1 h2 ⊢; omega
      · cases hs
    · cases hs
  | wExit i =>
    simp only [step] at hs
    split at hs
    · rename_i hw
      cases hs
      have := count_flatMap_eraseIdx wTask t0 s.workers i _ hw
      simp [List.count_append, wTask] at h0 this ⊢; omega
    · cases hs
  | dRecv =>
    simp only [step] at hs
    split at hs
    · rename_i t q hd hq
      cases hs
      simp [List.count_append, dTask, hd, hq, List.count_cons] at h0 ⊢; omega
    · cases hs
  | dExit =>
    simp only [step] at hs
    split at hs
    · rename_i hd
      split at hs
      · cases hs
        cases g.nodrain <;> (simp [List.count_append, dTask, hd] at h0 ⊢; omega)
      · cases hs
    · cases hs
  | dDrain =>
    simp only [step] at hs
    split at hs
    · rename_i t q hd hq
      cases hs
      simp [List.count_append, dTask, hd, hq, List.count_cons] at h0 ⊢; omega
    · rename_i hd hq
      cases hs
      simp [List.count_append, dTask, hd, hq] at h0 ⊢; omega
    · cases hs
  | dFork =>
    simp only [step] at hs
    split at hs
    · rename_i t hd
      split at hs <;> cases hs <;>
        (simp [List.count_append, List.flatMap_append, dTask, wTask, hd, List.count_cons] at h0 ⊢; omega)
    · cases hs
  | dUndo =>
    simp only [step] at hs
    split at hs
    · rename_i t hd
      cases hs
      simp [List.count_append, dTask, hd] at h0 ⊢; omega
    · cases hs
  | dFinish p =>
    simp only [step] at hs
    split at hs
    · rename_i t hd
      cases hs
      simp [List.count_append, dTask, hd, List.count_cons] at h0 ⊢; omega
    · rename_i t hd
      cases hs
      simp [List.count_append, dTask, hd, List.count_cons] at h0 ⊢; omega
    · cases hs
  | call t =>
    simp only [step] at hs
    cases hs
    simp [List.count_append, List.flatMap_append, cTask, List.count_cons] at h0 ⊢; omega
  | cFinish i p =>
    simp only [step] at hs
    split at hs
    · rename_i t hc
      cases hs
      have := count_flatMap_eraseIdx cTask t0 s.callers i _ hc
      simp [List.count_append, cTask, List.count_cons] at h0 this ⊢; omega
    · cases hs
  | stopAdd =>
    simp only [step] at hs
    split at hs
    · cases hs
    · cases hs; simpa [List.count_append] using h0
  | stopClose =>
    simp only [step] at hs
    split at hs
    · cases hs; simpa [List.count_append] using h0
    · cases hs

theorem cons_run (g : Cfg) (as : List Act) : ∀ s, Cons s → Cons (run g s as) := by
  induction as with
  | nil => intro s h; exact h
  | cons a as ih =>
    intro s h
    simp only [run]
    split
    · rename_i s' hs; exact ih s' (cons_step g s s' a h hs)
    · exact ih s h

end TPool
