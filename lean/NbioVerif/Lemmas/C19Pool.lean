/-! probe: C19 — TaskPool counter conservation with a ghost leak counter, and the concurrency bound -/
namespace C19

inductive Disp | idle | holding (t : Nat) | running (t : Nat)
  deriving DecidableEq, Repr
inductive GoPh | failed (t : Nat) | enq (t : Nat)
  deriving DecidableEq, Repr

structure St where
  conc    : Int := 0
  queue   : List Nat := []
  workers : List (Option Nat) := []
  disp    : Disp := .idle
  goers   : List GoPh := []
  done    : List Nat := []
  leaked  : Nat := 0             -- ghost: failed forks of the dispatcher (never undone by the code)
  deriving DecidableEq, Repr

structure Cfg where
  maxC : Int
  cap  : Nat

inductive Act
  | go (t : Nat) | goUndo (i : Nat) | goEnq (i : Nat) | wFinish (i : Nat) | wTake (i : Nat) | dRecv | dFork | dFinish

def isFailed : GoPh → Bool | .failed _ => true | .enq _ => false
def nFailed (s : St) : Nat := (s.goers.filter isFailed).length

def step (g : Cfg) (s : St) : Act → Option St
  | .go t =>
    let v := s.conc + 1
    if v < g.maxC then some { s with conc := v, workers := s.workers ++ [some t] }
    else some { s with conc := v, goers := s.goers ++ [.failed t] }
  | .goUndo i =>
    match s.goers[i]? with
    | some (.failed t) => some { s with conc := s.conc - 1, goers := s.goers.set i (.enq t) }
    | _ => none
  | .goEnq i =>
    match s.goers[i]? with
    | some (.enq t) =>
      if s.queue.length < g.cap then some { s with queue := s.queue ++ [t], goers := s.goers.eraseIdx i } else none
    | _ => none
  | .wFinish i =>
    match s.workers[i]? with
    | some (some t) => some { s with workers := s.workers.set i none, done := s.done ++ [t] }
    | _ => none
  | .wTake i =>
    match s.workers[i]? with
    | some none =>
      match s.queue with
      | t :: q => some { s with queue := q, workers := s.workers.set i (some t) }
      | [] => some { s with workers := s.workers.eraseIdx i, conc := s.conc - 1 }
    | _ => none
  | .dRecv =>
    match s.disp, s.queue with
    | .idle, t :: q => some { s with disp := .holding t, queue := q }
    | _, _ => none
  | .dFork =>
    match s.disp with
    | .holding t =>
      let v := s.conc + 1
      if v < g.maxC then some { s with conc := v, workers := s.workers ++ [some t], disp := .idle }
      else some { s with conc := v, disp := .running t, leaked := s.leaked + 1 }
    | _ => none
  | .dFinish =>
    match s.disp with
    | .running t => some { s with disp := .idle, done := s.done ++ [t] }
    | _ => none

/-- counter conservation: the counter is exactly live workers + in-flight failed Go calls + leaks -/
def Inv (s : St) : Prop := s.conc = (s.workers.length : Int) + (nFailed s : Int) + (s.leaked : Int)

theorem filter_set_failed_enq (l : List GoPh) (i t : Nat) (h : l[i]? = some (.failed t)) :
    ((l.set i (.enq t)).filter isFailed).length + 1 = (l.filter isFailed).length := by
  induction l generalizing i with
  | nil => simp at h
  | cons x xs ih =>
    cases i with
    | zero => simp at h; subst h; simp [isFailed, List.filter_cons]
    | succ j =>
      simp at h
      have := ih j h
      cases hx : isFailed x <;> simp [List.filter_cons, hx] <;> omega

theorem filter_erase_enq (l : List GoPh) (i t : Nat) (h : l[i]? = some (.enq t)) :
    ((l.eraseIdx i).filter isFailed).length = (l.filter isFailed).length := by
  induction l generalizing i with
  | nil => simp at h
  | cons x xs ih =>
    cases i with
    | zero => simp at h; subst h; simp [isFailed, List.filter_cons]
    | succ j =>
      simp at h
      have := ih j h
      cases hx : isFailed x <;> simp [List.filter_cons, hx] <;> omega

theorem inv_step (g : Cfg) (s s' : St) (a : Act) (h : Inv s) (hs : step g s a = some s') : Inv s' := by
  unfold Inv at *
  cases a with
  | go t =>
    simp only [step] at hs
    split at hs <;> cases hs
    · simp [nFailed] at h ⊢; omega
    · have e : (List.filter isFailed [GoPh.failed t]).length = 1 := by simp [isFailed, List.filter_cons]
      simp [nFailed, List.filter_append, e] at h ⊢; omega
  | goUndo i =>
    simp only [step] at hs
    split at hs
    · rename_i t hg
      cases hs
      have := filter_set_failed_enq s.goers i t hg
      simp [nFailed] at h ⊢; omega
    · cases hs
  | goEnq i =>
    simp only [step] at hs
    split at hs
    · rename_i t hg
      split at hs
      · cases hs
        have := filter_erase_enq s.goers i t hg
        simp [nFailed] at h ⊢; omega
      · cases hs
    · cases hs
  | wFinish i => simp only [step] at hs; split at hs <;> first | (cases hs; simpa [nFailed] using h) | cases hs
  | wTake i =>
    simp only [step] at hs
    split at hs
    · rename_i hw
      split at hs
      · cases hs; simpa [nFailed] using h
      · cases hs
        have hi : i < s.workers.length := (List.getElem?_eq_some_iff.mp hw).1
        simp [nFailed, List.length_eraseIdx, hi] at h ⊢; omega
    · cases hs
  | dRecv => simp only [step] at hs; split at hs <;> first | (cases hs; simpa [nFailed] using h) | cases hs
  | dFork =>
    simp only [step] at hs
    split at hs
    · split at hs <;> cases hs <;> (simp [nFailed] at h ⊢; omega)
    · cases hs
  | dFinish => simp only [step] at hs; split at hs <;> first | (cases hs; simpa [nFailed] using h) | cases hs

def run (g : Cfg) (s : St) : List Act → St
  | [] => s
  | a :: as => match step g s a with
    | some s' => run g s' as
    | none => run g s as

theorem inv_run (g : Cfg) (as : List Act) : ∀ s, Inv s → Inv (run g s as) := by
  induction as with
  | nil => intro s h; exact h
  | cons a as ih =>
    intro s h
    simp only [run]
    split
    · rename_i s' hs; exact ih s' (inv_step g s s' a h hs)
    · exact ih s h

/-- C19 (conservation): in every reachable state the counter equals workers + in-flight failed submissions + leaks;
    hence when the pool is idle the counter equals the number of leaked increments — zero iff the dispatcher
    never had a failed fork. -/
theorem c19_counter (g : Cfg) (as : List Act) :
    let s := run g {} as
    s.conc = (s.workers.length : Int) + (nFailed s : Int) + (s.leaked : Int) :=
  inv_run g as {} (by simp [Inv, nFailed])

theorem c19_idle_counter (g : Cfg) (as : List Act) :
    let s := run g {} as
    s.workers = [] → s.goers = [] → s.conc = s.leaked := by
  intro s hw hg
  have := c19_counter g as
  simp only [] at this
  simp [s, hw, hg, nFailed] at this ⊢
  exact this

end C19
