import NbioVerif.Lemmas.DeadlineInv
/-! Step lemmas of the Deadline model used by Properties/C16: closed is final, `Quiet d` (nothing of `d` can fire any
more) and `Only d t'` (everything of `d` is for `t'`) are preserved by every step that does not arm `d`. -/
namespace Deadline

/-! ## generic step facts (any tree) -/

theorem closeWith_closed (s : St) (c : Cause) (b : Option Rec) (h : s.closed = true) : closeWith s c b = s := by
  simp [closeWith, h]

/-- the first closing cause wins: once `closed` is set, no step changes `closed` or the cause -/
theorem step_closed_stable {g : Cfg} {s s' : St} {o : Op} (hs : step g s o = some s') (hc : s.closed = true) :
    s'.closed = true ∧ s'.cause = s.cause := by
  cases o with
  | set d t => simp [step, hc] at hs; cases hs; exact ⟨hc, rfl⟩
  | clear d => simp [step, hc] at hs; cases hs; exact ⟨hc, rfl⟩
  | setBoth t => simp [step, hc] at hs; cases hs; exact ⟨hc, rfl⟩
  | clearBoth => simp [step, hc] at hs; cases hs; exact ⟨hc, rfl⟩
  | ka n => simp [step, hc] at hs; cases hs; exact ⟨hc, rfl⟩
  | wto n => simp [step, hc] at hs; cases hs; exact ⟨hc, rfl⟩
  | dial n => simp [step, hc] at hs; cases hs; exact ⟨hc, rfl⟩
  | connected => simp [step, hc] at hs; cases hs; exact ⟨hc, rfl⟩
  | write k => simp [step, stepWrite, hc] at hs; cases hs; exact ⟨hc, rfl⟩
  | flush k => simp [step, stepFlush, hc] at hs; cases hs; exact ⟨hc, rfl⟩
  | close => simp [step, closeWith, hc] at hs; cases hs; exact ⟨hc, rfl⟩
  | tick n => simp [step] at hs; cases hs; exact ⟨hc, rfl⟩
  | fire d =>
    simp only [step, stepFire] at hs
    split at hs
    · split at hs
      · cases hs; exact ⟨by simpa using hc, by simp⟩
      · cases hs
    · cases hs
  | cb i =>
    simp only [step, stepCb] at hs
    split at hs
    · cases hs
      rw [closeWith_closed _ _ _ (by simpa using hc)]
      exact ⟨by simpa using hc, by simp⟩
    · cases hs

theorem run_closed_stable {g : Cfg} (os : List Op) {s : St} (hc : s.closed = true) :
    (run g s os).closed = true ∧ (run g s os).cause = s.cause := by
  induction os generalizing s with
  | nil => exact ⟨hc, rfl⟩
  | cons o os ih =>
    simp only [run]
    split
    · rename_i s' hs
      obtain ⟨a, b⟩ := step_closed_stable hs hc
      obtain ⟨c, d⟩ := ih a
      exact ⟨c, d.trans b⟩
    · exact ih hc

/-- ops that arm direction `d` -/
def arms (d : Dir) : Op → Bool
  | .set d' _ => d' == d
  | .setBoth _ => true
  | .ka _ => d == .r
  | .wto _ => d == .w
  | .dial _ => d == .w
  | _ => false

/-- "nothing of `d` can fire any more": no active timer, no started callback, not closed by `d` -/
structure Quiet (d : Dir) (s : St) : Prop where
  a    : (s.t d).a = none
  pend : ∀ r ∈ s.pend, r.dir ≠ d
  cause : s.cause ≠ some (.timeout d)

theorem quiet_stop {d : Dir} {s : St} (h : Quiet d s) (d' : Dir) : Quiet d (stop s d') := by
  obtain ⟨h1, h2, h3⟩ := h
  refine ⟨?_, by simpa [stop] using h2, by simpa [stop] using h3⟩
  simp only [stop, t_setT]; split <;> simp [h1]

theorem quiet_unforce {d : Dir} {s : St} (h : Quiet d s) (d' : Dir) : Quiet d (unforce s d') := by
  obtain ⟨h1, h2, h3⟩ := h
  refine ⟨?_, by simpa [unforce] using h2, by simpa [unforce] using h3⟩
  simp only [unforce, t_setT]; split
  · rename_i hd; subst hd; simpa using h1
  · exact h1

theorem quiet_flip {d : Dir} {s : St} (h : Quiet d s) (c : Cause) (b : Option Rec) (hc : c ≠ .timeout d) :
    Quiet d (s.flip c b) := by
  obtain ⟨h1, h2, h3⟩ := h
  exact ⟨by simpa using h1, by simpa using h2, by simpa using hc⟩

theorem quiet_closeWith {d : Dir} {s : St} (h : Quiet d s) (c : Cause) (b : Option Rec) (hc : c ≠ .timeout d) :
    Quiet d (closeWith s c b) := by
  unfold closeWith
  split
  · exact h
  · exact quiet_stop (quiet_stop (quiet_flip h c b hc) .r) .w

theorem quiet_errClose {d : Dir} {s : St} (h : Quiet d s) : Quiet d (errClose s) := by
  unfold errClose
  exact quiet_unforce (quiet_unforce (quiet_flip h .ioerr none (by simp)) .r) .w

theorem quiet_arm_other {d d' : Dir} {s : St} (h : Quiet d s) (hd : d' ≠ d) (t : Nat) : Quiet d (arm s d' t) := by
  obtain ⟨h1, h2, h3⟩ := h
  refine ⟨?_, by simpa [arm] using h2, by simpa [arm] using h3⟩
  simp only [arm, t_setT]
  split
  · rename_i he; exact absurd he.symm hd
  · exact h1

theorem quiet_step {g : Cfg} {d : Dir} {s s' : St} {o : Op} (h : Quiet d s) (ho : arms d o = false)
    (hs : step g s o = some s') : Quiet d s' := by
  cases o with
  | set d' t =>
    simp only [step] at hs; cases hs
    split
    · exact h
    · exact quiet_arm_other h (by simpa [arms] using ho) t
  | clear d' =>
    simp only [step] at hs; cases hs
    split
    · exact h
    · exact quiet_stop h d'
  | setBoth t => simp [arms] at ho
  | clearBoth =>
    simp only [step] at hs; cases hs
    split
    · exact h
    · exact quiet_stop (quiet_stop h .r) .w
  | ka n =>
    simp only [step] at hs; cases hs
    split
    · exact h
    · exact quiet_arm_other h (by intro he; subst he; simp [arms] at ho) _
  | wto n =>
    simp only [step] at hs; cases hs
    split
    · exact h
    · exact quiet_arm_other h (by intro he; subst he; simp [arms] at ho) _
  | dial n =>
    simp only [step] at hs; cases hs
    split
    · exact h
    · exact quiet_arm_other h (by intro he; subst he; simp [arms] at ho) _
  | connected =>
    simp only [step] at hs; cases hs
    split
    · exact h
    · exact quiet_stop h .w
  | write k =>
    simp only [step] at hs; cases hs
    unfold stepWrite
    split
    · exact h
    · split
      · cases k
        · exact h
        · exact h
        · exact quiet_errClose h
      · cases k
        · exact quiet_stop h .w
        · exact ⟨by simpa using h.a, by simpa using h.pend, by simpa using h.cause⟩
        · exact quiet_errClose h
  | flush k =>
    simp only [step] at hs; cases hs
    unfold stepFlush
    split
    · exact h
    · split
      · exact h
      · cases k
        · have hb : Quiet d (s.withBacklog false) :=
            ⟨by simpa using h.a, by simpa using h.pend, by simpa using h.cause⟩
          simp only
          split
          · exact quiet_stop hb .w
          · exact quiet_unforce hb .w
        · exact h
        · exact quiet_errClose h
  | close =>
    simp only [step] at hs; cases hs
    exact quiet_closeWith h .user none (by simp)
  | tick n =>
    simp only [step] at hs; cases hs
    exact ⟨by simpa using h.a, by simpa using h.pend, by simpa using h.cause⟩
  | fire d' =>
    simp only [step, stepFire] at hs
    split at hs
    · rename_i w ha
      split at hs
      · cases hs
        have hne : d' ≠ d := by
          intro he; subst he; rw [h.a] at ha; cases ha
        refine ⟨?_, ?_, by simpa using h.cause⟩
        · simp only [withPend_t, t_setT]
          split
          · rename_i he; exact absurd he.symm hne
          · exact h.a
        · intro r hr
          simp only [withPend_pend] at hr
          rcases List.mem_append.mp hr with hr | hr
          · exact h.pend r hr
          · have := List.mem_singleton.mp hr; subst this; exact hne
      · cases hs
    · cases hs
  | cb i =>
    simp only [step, stepCb] at hs
    split at hs
    · rename_i r hr
      cases hs
      have hmem : r ∈ s.pend := List.mem_of_getElem? hr
      have hb : Quiet d (s.withPend (s.pend.eraseIdx i)) :=
        ⟨by simpa using h.a,
         fun r' hr' => h.pend r' (List.mem_of_mem_eraseIdx (by simpa using hr')),
         by simpa using h.cause⟩
      exact quiet_closeWith hb _ _ (by
        intro he; cases he; exact h.pend r hmem rfl)
    · cases hs

theorem quiet_run {g : Cfg} {d : Dir} (os : List Op) {s : St} (h : Quiet d s) (ho : ∀ o ∈ os, arms d o = false) :
    Quiet d (run g s os) := by
  induction os generalizing s with
  | nil => exact h
  | cons o os ih =>
    simp only [run]
    have ho' : ∀ o ∈ os, arms d o = false := fun o' h' => ho o' (List.mem_cons_of_mem _ h')
    split
    · rename_i s' hs
      exact ih (quiet_step h (ho o (List.mem_cons_self ..)) hs) ho'
    · exact ih h ho'

/-- "every timer, started callback and closing record of `d` is for `t'`" -/
structure Only (d : Dir) (t' : Nat) (s : St) : Prop where
  a    : (s.t d).a = none ∨ (s.t d).a = some t'
  pend : ∀ r ∈ s.pend, r.dir = d → r.when = t'
  by_  : ∀ r, s.closedBy = some r → r.dir = d → r.when = t'

theorem only_stop {d : Dir} {t' : Nat} {s : St} (h : Only d t' s) (d' : Dir) : Only d t' (stop s d') := by
  refine ⟨?_, by simpa [stop] using h.pend, by simpa [stop] using h.by_⟩
  simp only [stop, t_setT]; split
  · left; rfl
  · exact h.a

theorem only_unforce {d : Dir} {t' : Nat} {s : St} (h : Only d t' s) (d' : Dir) : Only d t' (unforce s d') := by
  refine ⟨?_, by simpa [unforce] using h.pend, by simpa [unforce] using h.by_⟩
  simp only [unforce, t_setT]; split
  · rename_i hd; subst hd; simpa using h.a
  · exact h.a

theorem only_arm_other {d d' : Dir} {t' : Nat} {s : St} (h : Only d t' s) (hd : d' ≠ d) (t : Nat) :
    Only d t' (arm s d' t) := by
  refine ⟨?_, by simpa [arm] using h.pend, by simpa [arm] using h.by_⟩
  simp only [arm, t_setT]; split
  · rename_i he; exact absurd he.symm hd
  · exact h.a

theorem only_flip {d : Dir} {t' : Nat} {s : St} (h : Only d t' s) (c : Cause) (b : Option Rec)
    (hb : ∀ r, b = some r → r.dir = d → r.when = t') : Only d t' (s.flip c b) :=
  ⟨by simpa using h.a, by simpa using h.pend, by simpa using hb⟩

theorem only_closeWith {d : Dir} {t' : Nat} {s : St} (h : Only d t' s) (c : Cause) (b : Option Rec)
    (hb : ∀ r, b = some r → r.dir = d → r.when = t') : Only d t' (closeWith s c b) := by
  unfold closeWith
  split
  · exact h
  · exact only_stop (only_stop (only_flip h c b hb) .r) .w

theorem only_errClose {d : Dir} {t' : Nat} {s : St} (h : Only d t' s) (_hby : s.closedBy = none) :
    Only d t' (errClose s) := by
  unfold errClose
  exact only_unforce (only_unforce (only_flip h .ioerr none (by intro r hr; cases hr)) .r) .w

theorem only_step {g : Cfg} {d : Dir} {t' : Nat} {s s' : St} {o : Op} (h : Only d t' s)
    (hcb : s.closed = false → s.closedBy = none) (ho : arms d o = false)
    (hs : step g s o = some s') : Only d t' s' := by
  cases o with
  | set d' t =>
    simp only [step] at hs; cases hs
    split
    · exact h
    · exact only_arm_other h (by simpa [arms] using ho) t
  | clear d' =>
    simp only [step] at hs; cases hs
    split
    · exact h
    · exact only_stop h d'
  | setBoth t => simp [arms] at ho
  | clearBoth =>
    simp only [step] at hs; cases hs
    split
    · exact h
    · exact only_stop (only_stop h .r) .w
  | ka n =>
    simp only [step] at hs; cases hs
    split
    · exact h
    · exact only_arm_other h (by intro he; subst he; simp [arms] at ho) _
  | wto n =>
    simp only [step] at hs; cases hs
    split
    · exact h
    · exact only_arm_other h (by intro he; subst he; simp [arms] at ho) _
  | dial n =>
    simp only [step] at hs; cases hs
    split
    · exact h
    · exact only_arm_other h (by intro he; subst he; simp [arms] at ho) _
  | connected =>
    simp only [step] at hs; cases hs
    split
    · exact h
    · exact only_stop h .w
  | write k =>
    simp only [step] at hs; cases hs
    unfold stepWrite
    split
    · exact h
    · rename_i hc
      have hby := hcb (by simpa using hc)
      split
      · cases k
        · exact h
        · exact h
        · exact only_errClose h hby
      · cases k
        · exact only_stop h .w
        · exact ⟨by simpa using h.a, by simpa using h.pend, by simpa using h.by_⟩
        · exact only_errClose h hby
  | flush k =>
    simp only [step] at hs; cases hs
    unfold stepFlush
    split
    · exact h
    · rename_i hc
      have hby := hcb (by simpa using hc)
      split
      · exact h
      · cases k
        · have hb : Only d t' (s.withBacklog false) :=
            ⟨by simpa using h.a, by simpa using h.pend, by simpa using h.by_⟩
          simp only
          split
          · exact only_stop hb .w
          · exact only_unforce hb .w
        · exact h
        · exact only_errClose h hby
  | close =>
    simp only [step] at hs; cases hs
    exact only_closeWith h .user none (by intro r hr; cases hr)
  | tick n =>
    simp only [step] at hs; cases hs
    exact ⟨by simpa using h.a, by simpa using h.pend, by simpa using h.by_⟩
  | fire d' =>
    simp only [step, stepFire] at hs
    split at hs
    · rename_i w hw
      split at hs
      · cases hs
        refine ⟨?_, ?_, by simpa using h.by_⟩
        · simp only [withPend_t, t_setT]; split
          · left; rfl
          · exact h.a
        · intro r hr hrd
          simp only [withPend_pend] at hr
          rcases List.mem_append.mp hr with hr | hr
          · exact h.pend r hr hrd
          · have := List.mem_singleton.mp hr; subst this
            simp only at hrd; subst hrd
            rcases h.a with ha | ha
            · rw [ha] at hw; cases hw
            · rw [ha] at hw; cases hw; rfl
      · cases hs
    · cases hs
  | cb i =>
    simp only [step, stepCb] at hs
    split at hs
    · rename_i r hr
      cases hs
      have hmem : r ∈ s.pend := List.mem_of_getElem? hr
      have hb : Only d t' (s.withPend (s.pend.eraseIdx i)) :=
        ⟨by simpa using h.a,
         fun r' hr' => h.pend r' (List.mem_of_mem_eraseIdx (by simpa using hr')),
         by simpa using h.by_⟩
      exact only_closeWith hb _ _ (by intro r' hr' hd'; cases hr'; exact h.pend r hmem hd')
    · cases hs

theorem only_run {d : Dir} {t' : Nat} (os : List Op) {s : St} (h : Only d t' s) (hi : Inv s)
    (ho : ∀ o ∈ os, arms d o = false) : Only d t' (run fixed s os) := by
  induction os generalizing s with
  | nil => exact h
  | cons o os ih =>
    simp only [run]
    have ho' : ∀ o ∈ os, arms d o = false := fun o' h' => ho o' (List.mem_cons_of_mem _ h')
    have hcb : s.closed = false → s.closedBy = none := by
      intro hc
      cases hq : s.closedBy with
      | none => rfl
      | some r =>
        have := (hi.by_ r hq).2
        have hcl := hi.closed_cause.mpr (by simp [this])
        simp [hc] at hcl
    split
    · rename_i s' hs
      exact ih (only_step h hcb (ho o (List.mem_cons_self ..)) hs) (inv_step hi hs) ho'
    · exact ih h hi ho'


end Deadline
