import NbioVerif.Model.SendQ
/-! Invariant of the WebSocket writer model: what is on the wire is always a prefix of what was accepted, in order. -/
namespace SendQ

theorem wholeGroups_append (cs : List (Nat × Nat)) (w n : Nat) :
    wholeGroups (cs ++ [(w, n)]) = wholeGroups cs ++ group w n := by
  simp [wholeGroups]

theorem mem_group {w n : Nat} {f : Frame} (h : f ∈ group w n) : f.1 = w ∧ f.2 < n := by
  simp only [group, List.mem_map, List.mem_range] at h
  obtain ⟨k, hk, rfl⟩ := h
  exact ⟨rfl, hk⟩

theorem group_nodup (w n : Nat) : (group w n).Nodup := by
  unfold group
  induction n with
  | zero => simp
  | succ n ih =>
    rw [List.range_succ, List.map_append, List.nodup_append]
    refine ⟨ih, by simp, ?_⟩
    intro a ha b hb
    simp only [List.mem_map, List.mem_range] at ha
    obtain ⟨k, hk, rfl⟩ := ha
    simp at hb
    subst hb
    intro e
    cases e
    omega

structure Inv (g : Cfg) (s : St) : Prop where
  sending : s.dr = .sending → s.idx < s.list.length ∧ s.wire ++ s.list.drop s.idx = s.acc
  sent    : s.dr = .sent → s.idx < s.list.length ∧ s.wire ++ s.list.drop (s.idx + 1) = s.acc
  idleE   : s.dr = .idle → s.list = [] → s.wire = s.acc
  idleN   : s.dr = .idle → s.list ≠ [] → (s.dead = true ∨ s.closed = true) ∧ s.wire <+: s.acc
  direct  : g.queued = false → s.list = [] ∧ s.dr = .idle
  whole   : s.cut = false → s.acc = wholeGroups s.okCalls
  ids     : (wholeGroups s.okCalls).Nodup ∧ ∀ f ∈ wholeGroups s.okCalls, f.1 < s.nextId
  nocut   : g.queued = true → (g.bound = 0 ∨ g.reserve = true) → s.cut = false

theorem inv_init (g : Cfg) : Inv g init := by
  refine ⟨?_, ?_, ?_, ?_, ?_, ?_, ?_, ?_⟩ <;> simp [init, wholeGroups]

theorem fits_le (g : Cfg) (len n : Nat) : fits g len n ≤ n := by
  unfold fits; split
  · exact Nat.le_refl _
  · exact Nat.min_le_left _ _

theorem fits_unbounded (g : Cfg) (len n : Nat) (h : g.bound = 0) : fits g len n = n := by
  simp [fits, h]

theorem group_ne_nil {w m : Nat} (h : 0 < m) : group w m ≠ [] := by
  cases m with
  | zero => omega
  | succ m => simp [group, List.range_succ]

theorem ids_append {cs : List (Nat × Nat)} {nid : Nat}
    (h : (wholeGroups cs).Nodup ∧ ∀ f ∈ wholeGroups cs, f.1 < nid) (n : Nat) :
    (wholeGroups (cs ++ [(nid, n)])).Nodup ∧ ∀ f ∈ wholeGroups (cs ++ [(nid, n)]), f.1 < nid + 1 := by
  rw [wholeGroups_append]
  refine ⟨?_, ?_⟩
  · rw [List.nodup_append]
    refine ⟨h.1, group_nodup _ _, ?_⟩
    intro a ha b hb e
    subst e
    have := h.2 a ha
    have := (mem_group hb).1
    omega
  · intro f hf
    rcases List.mem_append.mp hf with hf | hf
    · have := h.2 f hf; omega
    · have := (mem_group hf).1; omega

theorem ids_mono {cs : List (Nat × Nat)} {nid : Nat}
    (h : (wholeGroups cs).Nodup ∧ ∀ f ∈ wholeGroups cs, f.1 < nid) :
    (wholeGroups cs).Nodup ∧ ∀ f ∈ wholeGroups cs, f.1 < nid + 1 :=
  ⟨h.1, fun f hf => Nat.lt_succ_of_lt (h.2 f hf)⟩

theorem group_length (w m : Nat) : (group w m).length = m := by simp [group]

theorem inv_bump {g : Cfg} {s : St} (h : Inv g s) : Inv g (bump s) := by
  obtain ⟨h1, h2, h3, h4, h5, h6, h7, h8⟩ := h
  exact ⟨h1, h2, h3, h4, h5, h6, ids_mono h7, h8⟩

/-- direct mode, the whole group reached the conn -/
def directOk (s : St) (n : Nat) : St :=
  { s with nextId := s.nextId + 1, wire := s.wire ++ group s.nextId n, acc := s.acc ++ group s.nextId n,
           okCalls := s.okCalls ++ [(s.nextId, n)] }

theorem inv_directOk {g : Cfg} {s : St} (h : Inv g s) (hq : g.queued = false) (n : Nat) : Inv g (directOk s n) := by
  obtain ⟨h1, h2, h3, h4, h5, h6, h7, h8⟩ := h
  obtain ⟨hl, hd⟩ := h5 hq
  have hwa : s.wire = s.acc := h3 hd hl
  unfold directOk
  refine ⟨?_, ?_, ?_, ?_, ?_, ?_, ?_, ?_⟩
  · intro hdr; simp [hd] at hdr
  · intro hdr; simp [hd] at hdr
  · intro _ _; simp [hwa]
  · intro _ hne; exact absurd hl hne
  · intro _; exact ⟨hl, hd⟩
  · intro hc; simp only at hc ⊢; rw [wholeGroups_append, h6 hc]
  · exact ids_append h7 n
  · intro hq'; rw [hq] at hq'; cases hq'

theorem inv_writeDirect {g : Cfg} {s : St} (h : Inv g s) (hq : g.queued = false) (n : Nat) (errAt : Option Nat) :
    Inv g (writeDirect s n errAt) := by
  have hb := inv_bump h
  have hok := inv_directOk h hq n
  obtain ⟨h1, h2, h3, h4, h5, h6, h7, h8⟩ := h
  obtain ⟨hl, hd⟩ := h5 hq
  have hwa : s.wire = s.acc := h3 hd hl
  unfold writeDirect
  simp only
  split
  · exact hb
  · cases errAt with
    | none => exact hok
    | some k =>
      simp only
      split
      · refine ⟨?_, ?_, ?_, ?_, ?_, ?_, ?_, ?_⟩
        · intro hdr; simp [hd] at hdr
        · intro hdr; simp [hd] at hdr
        · intro _ _; simp [hwa]
        · intro _ hne; exact absurd hl hne
        · intro _; exact ⟨hl, hd⟩
        · intro hc
          simp only [Bool.or_eq_false_iff, decide_eq_false_iff_not] at hc
          have hk : k = 0 := by omega
          subst hk
          simp only [group, List.range_zero, List.map_nil, List.append_nil]
          exact h6 hc.1
        · exact ids_mono h7
        · intro hq'; rw [hq] at hq'; cases hq'
      · exact hok

theorem inv_writeQueued {g : Cfg} {s : St} (h : Inv g s) (hq : g.queued = true) (hcl : s.closed = false) (n : Nat) :
    Inv g (writeQueued g s n) := by
  have hb := inv_bump h
  obtain ⟨h1, h2, h3, h4, h5, h6, h7, h8⟩ := h
  unfold writeQueued
  simp only
  split
  · exact hb
  · rename_i hres
    have hmn : fits g s.list.length n ≤ n := fits_le g _ n
    generalize hm : fits g s.list.length n = m at *
    have hglen : (group s.nextId m).length = m := group_length _ _
    refine ⟨?_, ?_, ?_, ?_, ?_, ?_, ?_, ?_⟩
    · -- sending
      intro hdr
      simp only at hdr ⊢
      by_cases hst : (s.list.isEmpty && decide (0 < m)) = true
      · simp only [hst, if_true]
        simp only [Bool.and_eq_true, List.isEmpty_iff, decide_eq_true_eq] at hst
        obtain ⟨hl, hm0⟩ := hst
        have hdi : s.dr = .idle := by
          cases hd : s.dr with
          | idle => rfl
          | sending => have := (h1 hd).1; simp [hl] at this
          | sent => have := (h2 hd).1; simp [hl] at this
        have := h3 hdi hl
        simp [hl, hglen, hm0, this]
      · simp only [hst] at hdr ⊢
        simp only [Bool.false_eq_true, if_false] at hdr ⊢
        obtain ⟨a, b⟩ := h1 hdr
        refine ⟨by simp; omega, ?_⟩
        rw [List.drop_append_of_le_length (by omega), ← List.append_assoc, b]
    · -- sent
      intro hdr
      simp only at hdr ⊢
      by_cases hst : (s.list.isEmpty && decide (0 < m)) = true
      · simp [hst] at hdr
      · simp only [hst] at hdr ⊢
        simp only [Bool.false_eq_true, if_false] at hdr ⊢
        obtain ⟨a, b⟩ := h2 hdr
        refine ⟨by simp; omega, ?_⟩
        rw [List.drop_append_of_le_length (by omega), ← List.append_assoc, b]
    · -- idle, empty
      intro hdr hl'
      simp only at hdr hl' ⊢
      by_cases hst : (s.list.isEmpty && decide (0 < m)) = true
      · simp [hst] at hdr
      · simp only [hst, Bool.false_eq_true, if_false] at hdr
        have hl : s.list = [] := (List.append_eq_nil_iff.mp hl').1
        have hg : group s.nextId m = [] := (List.append_eq_nil_iff.mp hl').2
        rw [hg]; simp [h3 hdr hl]
    · -- idle, non-empty
      intro hdr hl'
      simp only at hdr hl' ⊢
      by_cases hst : (s.list.isEmpty && decide (0 < m)) = true
      · simp [hst] at hdr
      · simp only [hst, Bool.false_eq_true, if_false] at hdr
        have hl : s.list ≠ [] := by
          intro hl
          have hm0 : ¬ 0 < m := by
            intro hm0; apply hst; simp [hl, hm0]
          have : m = 0 := by omega
          subst this
          simp [hl, group] at hl'
        obtain ⟨a, b⟩ := h4 hdr hl
        refine ⟨a, ?_⟩
        obtain ⟨t, ht⟩ := b
        exact ⟨t ++ group s.nextId m, by rw [← List.append_assoc, ht]⟩
    · intro hq'; rw [hq] at hq'; cases hq'
    · -- whole
      intro hc
      simp only [Bool.or_eq_false_iff, Bool.and_eq_false_iff, decide_eq_false_iff_not] at hc
      obtain ⟨hc0, hc1⟩ := hc
      simp only
      by_cases hmn' : m = n
      · simp only [hmn', if_true]
        rw [wholeGroups_append, h6 hc0]
      · simp only [hmn', if_false]
        have : m = 0 := by omega
        subst this
        simp [group, h6 hc0]
    · -- ids
      simp only
      by_cases hmn' : m = n
      · simp only [hmn', if_true]; exact ids_append h7 n
      · simp only [hmn', if_false]; exact ids_mono h7
    · -- nocut
      intro _ hbr
      simp only [Bool.or_eq_false_iff, Bool.and_eq_false_iff, decide_eq_false_iff_not]
      refine ⟨h8 hq hbr, ?_⟩
      rcases hbr with hb0 | hr
      · right
        have := fits_unbounded g s.list.length n hb0
        omega
      · right
        simp only [hr, Bool.true_and, decide_eq_true_eq] at hres
        exact hres

theorem inv_step {g : Cfg} {s s' : St} {a : Act} (h : Inv g s) (hs : step g s a = some s') : Inv g s' := by
  cases a with
  | write n errAt =>
    simp only [step] at hs
    split at hs
    · cases hs
    · cases hs
      unfold stepWrite
      split
      · exact inv_bump h
      · rename_i hcl
        split
        · rename_i hq
          exact inv_writeDirect h (by simpa using hq) n errAt
        · rename_i hq
          exact inv_writeQueued h (by simpa using hq) (by simpa using hcl) n
  | send ok =>
    obtain ⟨h1, h2, h3, h4, h5, h6, h7, h8⟩ := h
    simp only [step, stepSend] at hs
    split at hs
    · rename_i hdr
      obtain ⟨hl, hw⟩ := h1 hdr
      split at hs
      · rename_i f hf
        have hdrop : s.list.drop s.idx = f :: s.list.drop (s.idx + 1) := by
          rw [List.drop_eq_getElem_cons hl]
          simp [List.getElem?_eq_getElem hl] at hf
          rw [hf]
        split at hs
        · cases hs
          refine ⟨?_, ?_, ?_, ?_, ?_, h6, h7, h8⟩
          · intro hd; cases hd
          · intro _; refine ⟨hl, ?_⟩
            simp only
            rw [← hw, hdrop]; simp
          · intro hd; cases hd
          · intro hd; cases hd
          · intro hq; have := (h5 hq).2; rw [hdr] at this; cases this
        · cases hs
          refine ⟨?_, ?_, ?_, ?_, ?_, h6, h7, h8⟩
          · intro hd; cases hd
          · intro hd; cases hd
          · intro _ hl'; simp only at hl'; rw [hl'] at hl; simp at hl
          · intro _ _; exact ⟨Or.inl rfl, ⟨_, hw⟩⟩
          · intro hq; have := (h5 hq).2; rw [hdr] at this; cases this
      · cases hs
    · cases hs
  | advance =>
    obtain ⟨h1, h2, h3, h4, h5, h6, h7, h8⟩ := h
    simp only [step, stepAdvance] at hs
    split at hs
    · rename_i hdr
      obtain ⟨hl, hw⟩ := h2 hdr
      split at hs
      · rename_i hc
        cases hs
        refine ⟨?_, ?_, ?_, ?_, ?_, h6, h7, h8⟩
        · intro hd; cases hd
        · intro hd; cases hd
        · intro _ hl'; simp only at hl'; rw [hl'] at hl; simp at hl
        · intro _ _; exact ⟨Or.inr hc, ⟨_, hw⟩⟩
        · intro hq; have := (h5 hq).2; rw [hdr] at this; cases this
      · split at hs
        · rename_i he
          cases hs
          refine ⟨?_, ?_, ?_, ?_, ?_, h6, h7, h8⟩
          · intro hd; cases hd
          · intro hd; cases hd
          · intro _ _
            simp only
            rw [← hw, List.drop_of_length_le (by omega)]; simp
          · intro _ hne; exact absurd rfl hne
          · intro _; exact ⟨rfl, rfl⟩
        · rename_i he
          cases hs
          refine ⟨?_, ?_, ?_, ?_, ?_, h6, h7, h8⟩
          · intro _; exact ⟨by simp only; omega, hw⟩
          · intro hd; cases hd
          · intro hd; cases hd
          · intro hd; cases hd
          · intro hq; have := (h5 hq).2; rw [hdr] at this; cases this
    · cases hs
  | close =>
    obtain ⟨h1, h2, h3, h4, h5, h6, h7, h8⟩ := h
    simp only [step] at hs; cases hs
    refine ⟨h1, h2, h3, ?_, h5, h6, h7, h8⟩
    intro hd hl
    exact ⟨Or.inr rfl, (h4 hd hl).2⟩

theorem inv_run {g : Cfg} {s : St} (as : List Act) (h : Inv g s) : Inv g (run g s as) := by
  induction as generalizing s with
  | nil => exact h
  | cons a as ih =>
    simp only [run]
    split
    · rename_i s' hs; exact ih (inv_step h hs)
    · exact ih h

end SendQ
