import NbioVerif.Lemmas.C11Body
import NbioVerif.Model.OwnWs
/-! Ownership invariant of the websocket twin (`OwnW`): for every interleaving (list of actions) the heap
never flags, and the buffers in the send queue, in the sender goroutine's hand, in `bytesCached`, in
`message` and in Parse's local variables are live and pairwise distinct. -/
namespace OwnW
open Own (Heap RInv rinv_touch rinv_free_head)

def oid : Option (Nat × Nat) → List Nat
  | some (id, _) => [id]
  | none => []

/-- every pooled buffer the connection holds, owner by owner -/
def owned (s : S) : List Nat :=
  s.qrest ++ s.inflight.toList ++ oid s.cache ++ oid s.message ++ s.held ++ s.jobs

def WInv (s : S) : Prop := RInv s.heap none (owned s)

/-! ### generic steps: the owner list may be reordered and entries may be dropped (a leak is not a violation) -/

theorem rinv_sub (h : Heap) (b b' : List Nat) (hi : RInv h none b) (nd : b'.Nodup) (sub : ∀ x ∈ b', x ∈ b) :
    RInv h none b' :=
  ⟨hi.ok, hi.fresh, hi.cl, fun i hi' => hi.bl i (sub i hi'), nd, by intro i hc; cases hc⟩

theorem rinv_perm (h : Heap) (b b' : List Nat) (hi : RInv h none b) (hp : b.Perm b') : RInv h none b' :=
  rinv_sub h b b' hi (hp.nodup_iff.mp hi.nd) (fun _ hx => hp.mem_iff.mpr hx)

/-- two concatenations of the same pieces -/
macro "perm_auto" : tactic =>
  `(tactic| (simp only [List.perm_iff_count, List.count_append, List.count_cons, List.count_nil]; intro x; omega))

theorem nodup_of_count_le (b b' : List Nat) (hb : b.Nodup) (hc : ∀ x, b'.count x ≤ b.count x) : b'.Nodup := by
  rw [List.nodup_iff_count] at *
  intro a; exact Nat.le_trans (hc a) (hb a)

theorem mem_of_count_le (b b' : List Nat) (hc : ∀ x, b'.count x ≤ b.count x) : ∀ x ∈ b', x ∈ b := by
  intro x hx
  have h1 : 0 < b'.count x := List.count_pos_iff.mpr hx
  exact List.count_pos_iff.mp (Nat.lt_of_lt_of_le h1 (hc x))

/-- the owner list may be reordered and entries dropped: stated on multiplicities (arithmetic instead of list reasoning) -/
theorem rinv_count (h : Heap) (b b' : List Nat) (hi : RInv h none b) (hc : ∀ x, b'.count x ≤ b.count x) : RInv h none b' :=
  rinv_sub h b b' hi (nodup_of_count_le b b' hi.nd hc) (mem_of_count_le b b' hc)

macro "count_auto" : tactic =>
  `(tactic| (intro x; simp only [List.count_append, List.count_cons, List.count_nil, Option.toList_some, Option.toList_none];
             omega))

theorem rinv_free_sub (h : Heap) (b b' : List Nat) (id : Nat) (hi : RInv h none b) (hid : id ∈ b) (nd : b'.Nodup)
    (sub : ∀ x ∈ b', x ∈ b ∧ x ≠ id) : RInv (h.free id) none b' := by
  have hl : h.live id = true := hi.bl id hid
  refine ⟨(by rw [Heap.free_bad _ _ hl]; exact hi.ok), ?_, (by intro i hc; cases hc), ?_, nd, (by intro i hc; cases hc)⟩
  · intro x hx; simpa using hi.fresh x (Heap.free_live_le _ _ _ hx)
  · intro i hi'
    rw [Heap.free_live_at _ _ _ hl]
    simp [(sub i hi').2, hi.bl i (sub i hi').1]

theorem rinv_free_count (h : Heap) (b b' : List Nat) (id : Nat) (hi : RInv h none b) (hid : id ∈ b)
    (hc : ∀ x, b'.count x + [id].count x ≤ b.count x) : RInv (h.free id) none b' := by
  have hnd := hi.nd
  rw [List.nodup_iff_count] at hnd
  refine rinv_free_sub h b b' id hi hid (nodup_of_count_le b b' hi.nd (fun x => by have := hc x; omega)) ?_
  intro x hx
  have h1 : 0 < b'.count x := List.count_pos_iff.mpr hx
  refine ⟨List.count_pos_iff.mp (by have := hc x; omega), ?_⟩
  intro he
  subst he
  have h2 := hc x
  have h3 := hnd x
  simp at h2
  omega

theorem rinv_malloc_sub (h : Heap) (b b' : List Nat) (n : Nat) (hi : RInv h none b) (nd : b'.Nodup)
    (sub : ∀ x ∈ b', x ∈ b ∨ x = h.next) : RInv (h.malloc n).1 none b' := by
  refine ⟨(by simpa using hi.ok), ?_, (by intro i hc; cases hc), ?_, nd, (by intro i hc; cases hc)⟩
  · intro x hx
    simp at hx
    rcases hx with hx | hx
    · simp; omega
    · have := hi.fresh x hx; simp; omega
  · intro i hi'
    simp
    rcases sub i hi' with h1 | h1
    · exact Or.inr (hi.bl i h1)
    · exact Or.inl h1

theorem rinv_touch_mem (h : Heap) (b : List Nat) (id : Nat) (e) (hi : RInv h none b) (hid : id ∈ b) :
    RInv (h.touch id e) none b := rinv_touch h none b id e hi (hi.bl id hid)

/-- a fresh id is not among the owners -/
theorem rinv_next_notin (h : Heap) (b : List Nat) (hi : RInv h none b) : h.next ∉ b := by
  intro hc; have := hi.fresh _ (hi.bl _ hc); omega

/-- Malloc + first use, the new buffer joins the owners -/
theorem rinv_malloc_cons (h : Heap) (b : List Nat) (n : Nat) (e) (hi : RInv h none b) :
    RInv ((h.malloc n).1.touch h.next e) none (h.next :: b) := by
  have hn := rinv_next_notin h b hi
  have h1 : RInv (h.malloc n).1 none (h.next :: b) :=
    rinv_malloc_sub h b _ n hi (List.nodup_cons.mpr ⟨hn, hi.nd⟩) (by grind)
  exact rinv_touch_mem _ _ h.next e h1 (by simp)

theorem rinv_freeIds (h : Heap) (ids X : List Nat) (hi : RInv h none (ids ++ X)) : RInv (freeIds h ids) none X := by
  induction ids generalizing h with
  | nil => simpa [freeIds] using hi
  | cons id rest ih =>
    unfold freeIds
    exact ih _ (rinv_free_head h none id _ hi)

theorem rinv_freeOpt (h : Heap) (c : Option (Nat × Nat)) (X : List Nat) (hi : RInv h none (oid c ++ X)) :
    RInv (freeOpt h c) none X := by
  match c with
  | none => simpa [freeOpt, oid] using hi
  | some (id, _) => exact rinv_free_head h none id _ hi

/-! ### send path -/

theorem writeFrame_inv (g : Cfg) (s : S) (size : Nat) (ok : Bool) (hi : WInv s) : WInv (writeFrame g s size ok).1 := by
  have hn := rinv_next_notin _ _ hi
  have hm := rinv_malloc_cons s.heap (owned s) size none hi
  unfold WInv at *
  unfold writeFrame
  simp only [Heap.malloc_id]
  split
  · split
    · exact rinv_free_head _ none _ _ hm
    · split
      · exact rinv_count _ _ _ hm (by simp only [owned]; count_auto)
      · exact rinv_count _ _ _ hm (by simp only [owned]; count_auto)
  · exact rinv_free_head _ none _ _ (rinv_touch_mem _ _ s.heap.next _ hm (by simp))

theorem writeFrame_held (g : Cfg) (s : S) (size : Nat) (ok : Bool) : (writeFrame g s size ok).1.held = s.held := by
  unfold writeFrame; dsimp only; (repeat' split) <;> rfl

theorem writeFrame_jobs (g : Cfg) (s : S) (size : Nat) (ok : Bool) : (writeFrame g s size ok).1.jobs = s.jobs := by
  unfold writeFrame; dsimp only; (repeat' split) <;> rfl

theorem sendFrames_inv (g : Cfg) (fr : List (Nat × Bool)) (s : S) (hi : WInv s) : WInv (sendFrames g s fr) := by
  induction fr generalizing s with
  | nil => exact hi
  | cons f rest ih =>
    unfold sendFrames
    dsimp only
    split
    · exact ih _ (writeFrame_inv g s _ _ hi)
    · exact writeFrame_inv g s _ _ hi

theorem sendFrames_held (g : Cfg) (fr : List (Nat × Bool)) (s : S) : (sendFrames g s fr).held = s.held := by
  induction fr generalizing s with
  | nil => rfl
  | cons f rest ih =>
    unfold sendFrames
    dsimp only
    split
    · rw [ih, writeFrame_held]
    · exact writeFrame_held ..

theorem sendFrames_jobs (g : Cfg) (fr : List (Nat × Bool)) (s : S) : (sendFrames g s fr).jobs = s.jobs := by
  induction fr generalizing s with
  | nil => rfl
  | cons f rest ih =>
    unfold sendFrames
    dsimp only
    split
    · rw [ih, writeFrame_jobs]
    · exact writeFrame_jobs ..

theorem send_jobs (g : Cfg) (s : S) (ctl) (fr) : (send g s ctl fr).jobs = s.jobs := by
  unfold send; (repeat' split)
  · rfl
  · rfl
  · exact sendFrames_jobs g fr s

theorem send_inv (g : Cfg) (s : S) (ctl) (fr) (hi : WInv s) : WInv (send g s ctl fr) := by
  unfold send; (repeat' split)
  · exact hi
  · exact hi
  · exact sendFrames_inv g fr s hi

theorem send_held (g : Cfg) (s : S) (ctl) (fr) : (send g s ctl fr).held = s.held := by
  unfold send; (repeat' split)
  · rfl
  · rfl
  · exact sendFrames_held g fr s

theorem dStart_inv (s : S) (hi : WInv s) : WInv (dStart s) := by
  unfold dStart
  split
  · next id hp hf =>
    unfold WInv at *
    show RInv (s.heap.touch id (some (.write (some id)))) none (owned s)
    exact rinv_touch_mem s.heap (owned s) id _ hi (by simp [owned, hf])
  · exact hi

theorem dEnd_inv (s : S) (ok : Bool) (hi : WInv s) : WInv (dEnd s ok) := by
  unfold dEnd
  split
  · next id hp hf =>
    unfold WInv at *
    show RInv (s.heap.touch id none) none (owned s)
    exact rinv_touch_mem s.heap (owned s) id _ hi (by simp [owned, hf])
  · exact hi

theorem dFree_inv (s : S) (hi : WInv s) : WInv (dFree s) := by
  unfold dFree
  split
  · next ok id hp hf =>
    unfold WInv at *
    refine rinv_free_sub _ (owned s) _ id hi (by simp [owned, hf]) ?_ ?_
    · have := hi.nd; simp only [owned, hf] at *; grind
    · have := hi.nd; simp only [owned, hf] at *; grind
  · exact hi

theorem dAdvance_inv (s : S) (hi : WInv s) : WInv (dAdvance s) := by
  unfold dAdvance
  split
  · split
    · exact hi
    · split
      · next hq =>
        unfold WInv at *
        exact rinv_count _ _ _ hi (by simp only [owned, hq]; count_auto)
      · next id rest hq =>
        unfold WInv at *
        exact rinv_count _ _ _ hi (by simp only [owned, hq]; count_auto)
  · exact hi

theorem close_inv (s : S) (hi : WInv s) : WInv (close s) := by
  unfold close
  split
  · exact hi
  · unfold WInv at *
    have h0 : RInv s.heap none (s.qrest ++ (oid s.cache ++ (oid s.message ++ (s.inflight.toList ++ s.held ++ s.jobs)))) := by
      exact rinv_count _ _ _ hi (by simp only [owned]; count_auto)
    have h1 := rinv_freeOpt _ _ _ (rinv_freeOpt _ _ _ (rinv_freeIds _ _ _ h0))
    simpa [owned, oid] using h1

/-! ### receive path -/

theorem rxAppend_inv (s : S) (n : Nat) (hi : WInv s) : WInv (rxAppend s n) := by
  unfold rxAppend
  split
  · exact hi
  · split
    · next hc =>
      unfold WInv at *
      have hm := rinv_malloc_cons s.heap (owned s) n none hi
      simp only [Heap.malloc_id]
      exact rinv_count _ _ _ hm (by simp only [owned, hc, oid]; count_auto)
    · next id len hc =>
      unfold WInv at *
      have : owned { s with cache := some (id, len + n), heap := s.heap.touch id (some (.append id)) } = owned s := by
        simp [owned, hc, oid]
      rw [this]
      show RInv (s.heap.touch id (some (.append id))) none (owned s)
      exact rinv_touch_mem _ _ id _ hi (by simp [owned, hc, oid])

theorem rxCopy_inv (g : Cfg) (h : Heap) (cid : Nat) (f : FrameInfo) (b : List Nat) (hi : RInv h none b) (hc : cid ∈ b) :
    RInv (rxCopy g h cid f).1 none ((rxCopy g h cid f).2 ++ b) := by
  unfold rxCopy
  dsimp only
  have h1 : RInv (if f.bl > 0 then h.touch cid none else h) none b := by
    split
    · exact rinv_touch_mem _ _ cid _ hi hc
    · exact hi
  have hnext : (if f.bl > 0 then h.touch cid none else h).next = h.next := by split <;> simp
  split
  · have := rinv_malloc_cons _ b f.bl none h1
    simpa [hnext] using this
  · simpa using h1

theorem rxGrow_inv (h : Heap) (msg : Option (Nat × Nat)) (bl : Nat) (X : List Nat) (hi : RInv h none (oid msg ++ X)) :
    RInv (rxGrow h msg bl).1 none (oid (rxGrow h msg bl).2 ++ X) := by
  unfold rxGrow
  split
  · split
    · have := rinv_malloc_cons h _ bl none hi
      simpa [oid] using this
    · next mid ml =>
      show RInv (h.touch mid (some (.append mid))) none (oid (some (mid, ml)) ++ X)
      exact rinv_touch_mem _ _ mid _ hi (by simp [oid])
  · exact hi

theorem rxAssemble_inv (h : Heap) (msg : Option (Nat × Nat)) (f : FrameInfo) (X : List Nat)
    (hi : RInv h none (oid msg ++ X)) :
    RInv (rxAssemble h msg f).1 none (oid (rxAssemble h msg f).2.1 ++ ((rxAssemble h msg f).2.2 ++ X)) := by
  unfold rxAssemble
  split
  · split
    · have hm := rinv_malloc_cons h _ f.bl none hi
      simp only [Heap.malloc_id]
      exact rinv_count _ _ _ hm (by count_auto)
    · simpa using hi
  · have hg := rxGrow_inv h msg f.bl X hi
    generalize rxGrow h msg f.bl = p at *
    dsimp only
    split
    · split
      · next mid ml hp =>
        simpa [oid, hp] using hg
      · next hp =>
        rw [hp] at hg
        have hm := rinv_malloc_sub p.1 _ (p.1.next :: (oid none ++ X)) 0 hg
          (List.nodup_cons.mpr ⟨rinv_next_notin _ _ hg, hg.nd⟩) (by grind)
        simpa [oid] using hm
    · simpa using hg

theorem rxRelease_inv (h : Heap) (cid clen total : Nat) (X : List Nat) (hi : RInv h none (cid :: X)) :
    RInv (rxRelease h cid clen total).1 none (oid (rxRelease h cid clen total).2 ++ X) := by
  unfold rxRelease
  split
  · exact rinv_free_head h none cid _ hi
  · show RInv (h.touch cid none) none (cid :: X)
    exact rinv_touch_mem _ _ cid _ hi (by simp)

theorem rxFrame_inv (g : Cfg) (s : S) (f : FrameInfo) (hi : WInv s) : WInv (rxFrame g s f) := by
  unfold rxFrame
  split
  · exact hi
  · split
    · exact hi
    · next cid clen hc =>
      split
      · exact hi
      · unfold WInv at *
        dsimp only
        have hoc : oid s.cache = [cid] := by simp [hc, oid]
        have ha := rxCopy_inv g s.heap cid f (owned s) hi (by simp [owned, hoc])
        generalize rxCopy g s.heap cid f = a at *
        simp only [owned, hoc] at ha
        have ha' : RInv a.1 none (oid s.message ++ (cid :: (s.qrest ++ s.inflight.toList ++ s.held ++ s.jobs ++ a.2))) :=
          rinv_perm _ _ _ ha (by perm_auto)
        have hb := rxAssemble_inv a.1 s.message f _ ha'
        generalize rxAssemble a.1 s.message f = b at *
        have hb' : RInv b.1 none (cid :: (oid b.2.1 ++ b.2.2 ++ (s.qrest ++ s.inflight.toList ++ s.held ++ s.jobs ++ a.2))) :=
          rinv_perm _ _ _ hb (by perm_auto)
        have hcc := rxRelease_inv b.1 cid clen f.total _ hb'
        generalize rxRelease b.1 cid clen f.total = c at *
        refine rinv_perm _ _ _ hcc ?_
        simp only [owned]
        perm_auto

theorem rxHandle_inv (g : Cfg) (s : S) (p : Bool) (pf : Nat × Bool) (hi : WInv s) : WInv (rxHandle g s p pf) := by
  unfold rxHandle
  split
  · exact hi
  · next id rest hh =>
    dsimp only
    have h1 : WInv (if p then send g s true [pf] else s) := by
      split
      · exact send_inv g s _ _ hi
      · exact hi
    have h2 : (if p then send g s true [pf] else s).held = id :: rest := by
      split
      · rw [send_held, hh]
      · exact hh
    generalize (if p then send g s true [pf] else s) = s1 at *
    unfold WInv at *
    have hmem : id ∈ owned s1 := by simp [owned, h2]
    have ht := rinv_touch_mem _ _ id none h1 hmem
    split
    · exact rinv_free_count _ (owned s1) _ id ht hmem (by simp only [owned, h2]; count_auto)
    · exact rinv_count _ _ _ ht (by simp only [owned, h2]; count_auto)

theorem rxQueue_inv (s : S) (hi : WInv s) : WInv (rxQueue s) := by
  unfold rxQueue
  split
  · exact hi
  · next id rest hh =>
    unfold WInv at *
    exact rinv_count _ _ _ hi (by simp only [owned, hh]; count_auto)

theorem jobRun_inv (g : Cfg) (s : S) (p : Bool) (pf : Nat × Bool) (hi : WInv s) : WInv (jobRun g s p pf) := by
  unfold jobRun
  split
  · exact hi
  · next id rest hh =>
    dsimp only
    have h1 : WInv (if p then send g s true [pf] else s) := by
      split
      · exact send_inv g s _ _ hi
      · exact hi
    have h2 : (if p then send g s true [pf] else s).jobs = id :: rest := by
      split
      · rw [send_jobs, hh]
      · exact hh
    generalize (if p then send g s true [pf] else s) = s1 at *
    unfold WInv at *
    have hmem : id ∈ owned s1 := by simp [owned, h2]
    have ht := rinv_touch_mem _ _ id none h1 hmem
    split
    · exact rinv_free_count _ (owned s1) _ id ht hmem (by simp only [owned, h2]; count_auto)
    · exact rinv_count _ _ _ ht (by simp only [owned, h2]; count_auto)

theorem step_inv (g : Cfg) (s : S) (a : Act) (hi : WInv s) : WInv (step g s a) := by
  cases a with
  | send ctl fr => exact send_inv g s ctl fr hi
  | dStart => exact dStart_inv s hi
  | dEnd ok => exact dEnd_inv s ok hi
  | dFree => exact dFree_inv s hi
  | dAdvance => exact dAdvance_inv s hi
  | close => exact close_inv s hi
  | rxAppend n => exact rxAppend_inv s n hi
  | rxFrame f => exact rxFrame_inv g s f hi
  | rxHandle p pf => exact rxHandle_inv g s p pf hi
  | rxQueue => exact rxQueue_inv s hi
  | jobRun p pf => exact jobRun_inv g s p pf hi

theorem run_inv (g : Cfg) (acts : List Act) (s : S) (hi : WInv s) : WInv (run g s acts) := by
  induction acts generalizing s with
  | nil => exact hi
  | cons a rest ih => exact ih _ (step_inv g s a hi)

theorem winv_init : WInv {} :=
  ⟨rfl, (by intro x hx; cases hx), (by intro i hc; cases hc), (by intro i hi; cases hi), List.nodup_nil,
    (by intro i hc; cases hc)⟩

end OwnW
