import NbioVerif.Lemmas.C06Chain
import NbioVerif.Model.HttpEngine
/-! The driver's `D` lines run `HttpEngine.parseE` (Parse + CloseAndClean on error) once per line, on the parser the
    previous line left. This file ties that chain to `Scan.feedAllL`, the function the C06/C07/C08 chain theorems are
    stated for: same events, same final (state, cache), same first error — for every list of segments, empty ones
    included (Go returns from `Parse` on empty data before anything else; so do `parse` and, since this pass, `parseLC`). -/
namespace HttpEngine
open Scan
variable {σ ε : Type}

/-- call after call, as the driver does: the parser afterwards, the events of all calls, the first error returned -/
def chainE (M : Machine σ ε) (limit : Nat) : PC σ → List Bytes → List ε → Option Nat → PC σ × List ε × Option Nat
  | pc, [], acc, err => (pc, acc, err)
  | pc, d :: ds, acc, err =>
    chainE M limit (parseE M limit pc d).1 ds (acc ++ (parseE M limit pc d).2.1)
      (match err with | some e => some e | none => (parseE M limit pc d).2.2)

/-- on a closed parser every further call is silent and fails: nothing changes but the calls' own `net.ErrClosed` -/
theorem chainE_closed (M : Machine σ ε) (limit : Nat) : ∀ (ds : List Bytes) (pc : PC σ) (acc : List ε) (e : Nat),
    pc.closed = true → chainE M limit pc ds acc (some e) = (pc, acc, some e) := by
  intro ds
  induction ds with
  | nil => intro pc acc e _; rfl
  | cons d ds ih =>
    intro pc acc e hc
    have hp : parseE M limit pc d = (pc, [], some 1) := by
      simp only [parseE, parse, hc, if_true, Option.isSome_some]
      cases pc; simp_all
    simp only [chainE, hp, List.append_nil]
    exact ih pc acc e hc

/-- `Parse` on empty data is a no-op in both formulations -/
theorem parseLC_nil (M : Machine σ ε) (limit : Nat) (st : σ) (cache : List UInt8) (acc : List ε) :
    parseLC M limit st cache [] acc = ⟨acc, .inl (st, cache)⟩ := by
  simp [parseLC_eq, parseL, implParse]

/-- what it means for the outcome of the call-by-call chain to be the result `r` of `feedAllL` -/
def ChainIs (r : Res σ ε) (out : PC σ × List ε × Option Nat) : Prop :=
  match r with
  | ⟨evs, .inl (st', cache')⟩ => out = ({ st := st', cache := cache' }, evs, none)
  | ⟨evs, .inr e⟩ => ∃ pc', pc'.closed = true ∧ out = (pc', evs, some e)

/-- **Bridge: the D-line chain is `feedAllL`.** From an open parser, for every list of segments: the events of all
    `parseE` calls are the events of `feedAllL`; if `feedAllL` ends in (state, cache) no call failed and the parser
    holds exactly that; if it ends in error `e`, `e` is the first error a call returned, the parser is closed from
    that call on, and no later call adds an event. -/
theorem chainE_eq_feedAllL (M : Machine σ ε) (limit : Nat) : ∀ (segs : List Bytes) (st : σ) (cache : Bytes) (acc : List ε),
    ChainIs (feedAllL M limit st cache segs acc) (chainE M limit { st := st, cache := cache } segs acc none) := by
  intro segs
  induction segs with
  | nil => intro st cache acc; simp [feedAllL, chainE, ChainIs]
  | cons d ds ih =>
    intro st cache acc
    by_cases hd : d = []
    · subst hd
      have hp : parseE M limit ({ st := st, cache := cache } : PC σ) [] = ({ st := st, cache := cache }, [], none) := by
        simp [parseE, parse]
      simp only [feedAllL, parseLC_nil, chainE, hp, List.append_nil]
      exact ih st cache acc
    · have hacc := parseLC_acc M limit st cache d acc
      cases hr : parseLC M limit st cache d [] with
      | mk evs fin =>
        rw [hr] at hacc
        cases fin with
        | inl pr =>
          obtain ⟨st', cache'⟩ := pr
          have hp : parseE M limit ({ st := st, cache := cache } : PC σ) d = ({ st := st', cache := cache' }, evs, none) := by
            simp [parseE, parse, hd, hr]
          simp only [feedAllL, hacc, chainE, hp]
          exact ih st' cache' (acc ++ evs)
        | inr e =>
          have hp : parseE M limit ({ st := st, cache := cache } : PC σ) d =
              ({ st := st, cache := cache, closed := true }, evs, some e) := by
            simp [parseE, parse, hd, hr]
          simp only [feedAllL, hacc, chainE, hp, ChainIs]
          exact ⟨{ st := st, cache := cache, closed := true }, rfl, chainE_closed M limit ds _ _ e rfl⟩

end HttpEngine
