import NbioVerif.Model.Alloc
import NbioVerif.Generated.Src_Aligned
/-! Bridge: the size-class constants of `Model/Alloc.lean` are the constants of
mempool/aligned_allocator.go as read from source by tools/go2lean.  (The index table itself,
`alignedIndexes`, is filled by a closure in `init()` — outside the translator's subset — and stays tied by
the exhaustive table comparison `K 0 32768` of the halloc correspondence run.) -/
namespace Alloc

theorem src_minAligned : (minAligned : Int) = Src.Aligned.minAlignedBufferSize := by decide
theorem src_maxAligned : (maxAligned : Int) = Src.Aligned.maxAlignedBufferSize := by decide
theorem src_nClasses : (nClasses : Int) = Src.Aligned.alignedPoolBucketNum := by decide
/-- class sizes are `1 << (i + minAlignedBufferSizeBits)` -/
theorem src_classSize (i : Nat) : classSize i = 2 ^ (i + Src.Aligned.minAlignedBufferSizeBits.toNat) := by
  simp [classSize, minAligned, Src.Aligned.minAlignedBufferSizeBits, Nat.shiftLeft_eq, Nat.pow_add, Nat.mul_comm]
theorem src_maxBits : maxAligned = 2 ^ Src.Aligned.maxAlignedBufferSizeBits.toNat := by decide

end Alloc
