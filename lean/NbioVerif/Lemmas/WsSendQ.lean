import NbioVerif.Model.Ws
import NbioVerif.Lemmas.WsRoundTrip
import NbioVerif.Model.WsBatch
/-!
# The bounded send queue of asynchronous `WriteMessage`: all the frames of a message or none

`fragments` cuts a payload of `n > 0` bytes into `⌈n / maxFrame⌉` frames, which is what the admission check counts
(`nFrames`, on the payload AFTER compression); hence a message that passed the check never meets a full queue at one of
its frames, and a refused message leaves no frame behind.
-/
namespace Ws

theorem ceil_small (n m : Nat) (hn : 0 < n) (h : n ≤ m) : (n + m - 1) / m = 1 := by
  have hm : 0 < m := by omega
  have h1 : (n + m - 1) = (n - 1) + m := by omega
  rw [h1, Nat.add_div_right _ hm, Nat.div_eq_of_lt (by omega)]

theorem ceil_step (n m : Nat) (hm : 0 < m) (h : m < n) : (n + m - 1) / m = (n - m + m - 1) / m + 1 := by
  have h1 : (n + m - 1) = (n - m + m - 1) + m := by omega
  rw [h1, Nat.add_div_right _ hm]

theorem fragments_length (g : Cfg) (keyAt : Nat → Bytes) (op : Nat) (hmf : g.maxFrame > 0) :
    ∀ (fuel i : Nat) (data : Bytes) (first rsv1 : Bool), data.length > 0 → fuel > data.length →
      (fragments g keyAt op fuel i data first rsv1).length = (data.length + g.maxFrame - 1) / g.maxFrame := by
  intro fuel
  induction fuel with
  | zero => intro i data first rsv1 _ hf; omega
  | succ fuel ih =>
    intro i data first rsv1 hd hf
    unfold fragments
    by_cases hle : data.length ≤ g.maxFrame
    · have hmin : min data.length g.maxFrame = data.length := Nat.min_eq_left hle
      simp [hmin, ceil_small data.length g.maxFrame hd hle]
    · have hlt : g.maxFrame < data.length := Nat.lt_of_not_le hle
      have hmin : min data.length g.maxFrame = g.maxFrame := Nat.min_eq_right (Nat.le_of_lt hlt)
      have hne : (g.maxFrame == data.length) = false := by simp; omega
      simp only [hmin, hne, Bool.false_eq_true, if_false, List.length_cons]
      have hdl : (data.drop g.maxFrame).length = data.length - g.maxFrame := by simp
      rw [ih (i + 1) (data.drop g.maxFrame) false false (by omega) (by omega), hdl, ceil_step data.length g.maxFrame hmf hlt]

/-- the number of conn writes of a data message is the number the admission check counts -/
theorem writeMessage_frames (g : Cfg) (e : Env) (i op : Nat) (data : Bytes) (ws : List Bytes) (hmf : g.maxFrame > 0)
    (hop : isControl op = false) (h : writeMessage g e i op data = .ok ws) :
    ws.length = nFrames g (wirePayload g e op data).length := by
  unfold writeMessage at h
  simp only [hop, Bool.false_eq_true, if_false] at h
  unfold nFrames wirePayload
  generalize (if (g.writeCompression && (op == 1 || op == 2)) = true then e.deflate data else data) = d at h ⊢
  by_cases hd : d.length > 0
  · simp only [hd, if_true] at h
    injection h with h
    rw [← h, fragments_length g e.keyAt op hmf _ _ _ _ _ hd (by omega)]
    by_cases hbig : d.length > g.maxFrame
    · simp [hmf, hbig]
    · have : ¬ (g.maxFrame > 0 ∧ d.length > g.maxFrame) := fun x => hbig x.2
      simp only [this, if_false]
      exact ceil_small _ _ hd (Nat.le_of_not_lt hbig)
  · simp only [hd, if_false] at h
    injection h with h
    have h0 : d.length = 0 := by omega
    have : ¬ (g.maxFrame > 0 ∧ d.length > g.maxFrame) := by omega
    simp [← h, this]

theorem writeMessage_control (g : Cfg) (e : Env) (i op : Nat) (data : Bytes) (ws : List Bytes)
    (hop : isControl op = true) (h : writeMessage g e i op data = .ok ws) : ws.length = 1 := by
  unfold writeMessage at h
  simp only [hop, if_true] at h
  by_cases hb : data.length > 125
  · simp [hb] at h
  · simp only [hb, if_false] at h; injection h with h; simp [← h]

theorem enqueue_fits (size : Nat) : ∀ (ws : List Bytes) (q : Nat), q + ws.length ≤ size → enqueue size q ws = ⟨q + ws.length, ws, false⟩ := by
  intro ws
  induction ws with
  | nil => intro q _; simp [enqueue]
  | cons f fs ih =>
    intro q h
    simp only [List.length_cons] at h
    have hq : ¬ q ≥ size := by omega
    simp only [enqueue, hq, if_false, ih (q + 1) (by omega), List.length_cons]
    congr 1; omega

/-- **all or nothing** — a `WriteMessage` through the send queue either is accepted, and then it is exactly the `WriteMessage`
    of the direct path (same frames, same new state) and every frame had a slot; or it is refused, and then no frame was
    queued and the endpoint's state (frame counter included) is what it was: the stream stays intact. -/
theorem appWriteQ_all_or_nothing (g : Cfg) (e : Env) (k : K) (size qlen op : Nat) (data : Bytes) (hmf : g.maxFrame > 0) :
    ((appWriteQ g e k size qlen op data).err = none ∧
      appWrite g e k op data = ((appWriteQ g e k size qlen op data).k, .ok (appWriteQ g e k size qlen op data).wrote) ∧
      (appWriteQ g e k size qlen op data).qlen = qlen + (appWriteQ g e k size qlen op data).wrote.length ∧
      (appWriteQ g e k size qlen op data).qlen ≤ size) ∨
    ((appWriteQ g e k size qlen op data).err ≠ none ∧ (appWriteQ g e k size qlen op data).wrote = [] ∧
      (appWriteQ g e k size qlen op data).k = k ∧ (appWriteQ g e k size qlen op data).qlen = qlen) := by
  unfold appWriteQ appWrite
  cases hw : writeMessage g e k.nwrites op data with
  | error er => right; simp
  | ok ws =>
    by_cases hc : k.connClosed = true
    · right; simp [hc]
    · simp only [hc, Bool.false_eq_true, if_false]
      cases hop : isControl op with
      | true =>
        have h1 := writeMessage_control g e k.nwrites op data ws hop hw
        match ws, h1 with
        | [f], _ =>
          by_cases hq : qlen ≥ size
          · right; simp [enqueue, hq]; cases k; simp_all
          · left; simp [enqueue, hq]; omega
      | false =>
        have hn := writeMessage_frames g e k.nwrites op data ws hmf hop hw
        by_cases hq : qlen + nFrames g (wirePayload g e op data).length > size
        · right; simp [hq]
        · left
          have hfit : qlen + ws.length ≤ size := by omega
          simp [hq, enqueue_fits size ws qlen hfit]; omega

/-- the same with the frames counted BEFORE compression (the order the check must not have): a message whose compressed
    form takes one frame more is admitted, its last frame finds the queue full, and the frames before it are on the wire -/
def appWriteQPre (g : Cfg) (e : Env) (k : K) (size qlen : Nat) (opcode : Nat) (data : Bytes) : QW :=
  match writeMessage g e k.nwrites opcode data with
  | .error er => ⟨k, qlen, [], some er⟩
  | .ok ws =>
    if k.connClosed then ⟨k, qlen, [], some .closed⟩
    else if !isControl opcode && qlen + nFrames g data.length > size then ⟨k, qlen, [], some .queueFull⟩
    else
      let r := enqueue size qlen ws
      ⟨{ k with nwrites := k.nwrites + r.wrote.length }, r.q, r.wrote, if r.full then some .queueFull else none⟩

def sqCfg : Cfg := { enableCompression := true, writeCompression := true, msgLimit := 0, readLimit := 0, maxFrame := 2, isClient := false }
def sqEnv : Env := { keyAt := fun _ => [0, 0, 0, 0], deflate := fun x => 0 :: x, inflate := fun _ => ⟨[], []⟩ }

theorem precompress_count_breaks_stream :
    (appWriteQPre sqCfg sqEnv {} 1 0 2 [7, 7]).err = some .queueFull ∧ (appWriteQPre sqCfg sqEnv {} 1 0 2 [7, 7]).wrote ≠ [] := by decide

/-- a batch of `WriteMessage` calls through the send queue while nothing drains it (the gated sender of the `sendq=` cases):
    the bytes handed to the conn writer, and the messages that were accepted -/
def appWritesQ (g : Cfg) (e : Env) (size : Nat) : K → Nat → List (Nat × Bytes) → Bytes × List (Nat × Bytes)
  | _, _, [] => ([], [])
  | k, q, (op, x) :: ms =>
    ((appWriteQ g e k size q op x).wrote.flatten
        ++ (appWritesQ g e size (appWriteQ g e k size q op x).k (appWriteQ g e k size q op x).qlen ms).1,
     if (appWriteQ g e k size q op x).err.isNone
       then (op, x) :: (appWritesQ g e size (appWriteQ g e k size q op x).k (appWriteQ g e k size q op x).qlen ms).2
       else (appWritesQ g e size (appWriteQ g e k size q op x).k (appWriteQ g e k size q op x).qlen ms).2)

/-- the wire of a batch with refusals is the wire of its accepted messages written directly, in the same order; the accepted
    messages are among the batch -/
theorem appWritesQ_eq (g : Cfg) (e : Env) (size : Nat) (hmf : g.maxFrame > 0) : ∀ (ms : List (Nat × Bytes)) (k : K) (q : Nat),
    (appWritesQ g e size k q ms).1 = appWrites g e k (appWritesQ g e size k q ms).2 ∧
    (∀ m ∈ (appWritesQ g e size k q ms).2, m ∈ ms) := by
  intro ms
  induction ms with
  | nil => intro k q; simp [appWritesQ, appWrites]
  | cons m ms ih =>
    intro k q
    obtain ⟨op, x⟩ := m
    unfold appWritesQ
    rcases appWriteQ_all_or_nothing g e k size q op x hmf with ⟨he, haw, _, _⟩ | ⟨he, hw, hk, hq⟩
    · obtain ⟨ih1, ih2⟩ := ih (appWriteQ g e k size q op x).k (appWriteQ g e k size q op x).qlen
      simp only [he, Option.isNone_none, if_true]
      constructor
      · simp only [appWrites, haw]; rw [ih1]
      · intro m hm
        cases hm with
        | head => exact List.mem_cons_self
        | tail _ h => exact List.mem_cons_of_mem _ (ih2 m h)
    · obtain ⟨ih1, ih2⟩ := ih k q
      have hn : (appWriteQ g e k size q op x).err.isNone = false := by
        cases h : (appWriteQ g e k size q op x).err with
        | none => exact absurd h he
        | some _ => rfl
      simp only [hn, Bool.false_eq_true, if_false, hw, hk, hq, List.flatten_nil, List.nil_append]
      exact ⟨ih1, fun m hm => List.mem_cons_of_mem _ (ih2 m hm)⟩

/-! ### the batch function of the driver (`batchQ`, observed deflate outputs) = `appWritesQ` for a deflate function -/

/-- the observed deflate outputs are those of a function `defl` of the payload: the `ci`-th output is `defl` of the
    `ci`-th compressible message of the batch -/
def DeflTable (g : Cfg) (defl : Bytes → Bytes) (defls : List Bytes) : Nat → List (Nat × Bytes) → Prop
  | _, [] => True
  | ci, (op, x) :: ms =>
    ((g.writeCompression && (op == 1 || op == 2)) = true → defls.getD ci [] = defl x) ∧
    DeflTable g defl defls (if g.writeCompression && (op == 1 || op == 2) then ci + 1 else ci) ms

/-- one call looks at the deflater only through its output for this payload, and only if the message is compressed -/
theorem appWriteQ_deflate (g : Cfg) (base : Env) (d : Bytes) (defl : Bytes → Bytes) (k : K) (size q op : Nat) (x : Bytes)
    (h : (g.writeCompression && (op == 1 || op == 2)) = true → d = defl x) :
    appWriteQ g { base with deflate := fun _ => d } k size q op x = appWriteQ g { base with deflate := defl } k size q op x := by
  cases hc : (g.writeCompression && (op == 1 || op == 2)) with
  | false => simp [appWriteQ, writeMessage, wirePayload, hc]
  | true => simp [appWriteQ, writeMessage, wirePayload, hc, h hc]

theorem code_ne_zero (er : Err) : (er.code == 0) = false := by cases er <;> rfl

/-- what the driver computes for a batch is the batch of `appWritesQ` for the environment whose deflater is `defl`:
    same bytes, and the calls that returned 0 are the accepted messages -/
theorem batchQ_eq (g : Cfg) (base : Env) (defl : Bytes → Bytes) (defls : List Bytes) (size : Nat) :
    ∀ (ms : List (Nat × Bytes)) (k : K) (ci q : Nat), DeflTable g defl defls ci ms →
      (batchQ g base defls size k ci q ms).wire = (appWritesQ g { base with deflate := defl } size k q ms).1 ∧
      acceptedOf ms (batchQ g base defls size k ci q ms).codes = (appWritesQ g { base with deflate := defl } size k q ms).2 := by
  intro ms
  induction ms with
  | nil => intro k ci q _; simp [batchQ, appWritesQ, acceptedOf]
  | cons m ms ih =>
    intro k ci q ht
    obtain ⟨op, x⟩ := m
    obtain ⟨h1, h2⟩ := ht
    have hq := appWriteQ_deflate g base (defls.getD ci []) defl k size q op x h1
    obtain ⟨ihw, iha⟩ := ih (appWriteQ g { base with deflate := defl } k size q op x).k
      (if g.writeCompression && (op == 1 || op == 2) then ci + 1 else ci)
      (appWriteQ g { base with deflate := defl } k size q op x).qlen h2
    simp only [batchQ, appWritesQ, acceptedOf, hq, ihw]
    refine ⟨trivial, ?_⟩
    cases he : (appWriteQ g { base with deflate := defl } k size q op x).err with
    | none => simpa using iha
    | some er => simpa [code_ne_zero] using iha

end Ws
