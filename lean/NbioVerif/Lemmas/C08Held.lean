import NbioVerif.Lemmas.C08Meta
import NbioVerif.Lemmas.C06Chain
/-! C08, body bound at event level: the model's `bodyHeld` counter (the `BodyReader.left` of the message under
    construction, which `c08_body_bound` bounds by MaxHTTPBodySize) is the number of body bytes handed to `OnBody` since
    the last `OnComplete` — along every chain of `Parse` calls. -/
namespace Scan
variable {σ ε : Type}

/-- an invariant that couples the state with the events emitted so far is an invariant of the Parse loop -/
theorem loop_inv2 (M : Machine σ ε) (J : σ → List ε → Prop)
    (hb : ∀ st tok c s' u evs acc, J st acc → M.byteStep st tok c = .ok s' u evs → J s' (acc ++ evs))
    (hd : ∀ st d s' u evs acc, J st acc → M.blockDone st d = .ok s' u evs → J s' (acc ++ evs))
    (buf : List UInt8) :
    ∀ (fuel i start : Nat) (st : σ) (acc : List ε), J st acc →
      ∀ acc' st' c', loop M buf fuel i start st acc = ⟨acc', .inl (st', c')⟩ → J st' acc' := by
  intro fuel
  induction fuel with
  | zero => intro i start st acc _ acc' st' c' h; simp [loop] at h
  | succ fuel ih =>
    intro i start st acc hI acc' st' c' h
    unfold loop at h
    by_cases hi : i < buf.length
    · simp only [hi, dite_true] at h
      cases hblk : M.block st with
      | some n =>
        simp only [hblk] at h
        by_cases hl : buf.length - start ≥ n
        · simp only [hl, if_true] at h
          cases hbd : M.blockDone st ((buf.drop start).take n) with
          | err e evs => simp [hbd] at h
          | ok s' u evs =>
            simp only [hbd] at h
            exact ih _ _ _ _ (hd _ _ _ _ _ _ hI hbd) _ _ _ h
        · simp only [hl, if_false] at h
          simp only [Res.mk.injEq, Sum.inl.injEq, Prod.mk.injEq] at h
          obtain ⟨h1, h2, _⟩ := h; subst h1 h2; exact hI
      | none =>
        simp only [hblk] at h
        cases hbs : M.byteStep st ((buf.drop start).take (i - start)) buf[i] with
        | err e evs => simp [hbs] at h
        | ok s' u evs =>
          simp only [hbs] at h
          exact ih _ _ _ _ (hb _ _ _ _ _ _ _ hI hbs) _ _ _ h
    · simp only [hi, dite_false] at h
      simp only [Res.mk.injEq, Sum.inl.injEq, Prod.mk.injEq] at h
      obtain ⟨h1, h2, _⟩ := h; subst h1 h2; exact hI

/-- … and of every chain of `Parse` calls as the driver runs them -/
theorem feedAllL_inv2 (M : Machine σ ε) (J : σ → List ε → Prop)
    (hb : ∀ st tok c s' u evs acc, J st acc → M.byteStep st tok c = .ok s' u evs → J s' (acc ++ evs))
    (hd : ∀ st d s' u evs acc, J st acc → M.blockDone st d = .ok s' u evs → J s' (acc ++ evs))
    (limit : Nat) :
    ∀ (segs : List (List UInt8)) (st : σ) (cache : List UInt8) (acc : List ε), J st acc →
      ∀ acc' st' c', feedAllL M limit st cache segs acc = ⟨acc', .inl (st', c')⟩ → J st' acc' := by
  intro segs
  induction segs with
  | nil =>
    intro st cache acc hI acc' st' c' h
    simp only [feedAllL, Res.mk.injEq, Sum.inl.injEq, Prod.mk.injEq] at h
    obtain ⟨h1, h2, _⟩ := h; subst h1 h2; exact hI
  | cons seg segs ih =>
    intro st cache acc hI acc' st' c' h
    simp only [feedAllL, parseLC_eq] at h
    cases hr : parseL M limit st cache seg acc with
    | mk a fin =>
      rw [hr] at h
      cases fin with
      | inr e => simp at h
      | inl pr =>
        obtain ⟨st1, cache1⟩ := pr
        have hJ : J st1 a := by
          unfold parseL at hr
          split at hr
          · simp at hr
          · unfold implParse at hr
            split at hr
            · simp only [Res.mk.injEq, Sum.inl.injEq, Prod.mk.injEq] at hr
              obtain ⟨h1, h2, _⟩ := hr; subst h1 h2; exact hI
            · exact loop_inv2 M J hb hd _ _ _ _ _ _ hI _ _ _ hr
        exact ih st1 cache1 a hJ acc' st' c' h

end Scan

namespace Http
open Scan

/-- body bytes handed to `OnBody` since the last `OnComplete`, starting from `h` -/
def heldOf (h : Nat) (evs : List Ev) : Nat :=
  evs.foldl (fun h e => match e with | .body d => h + d.length | .complete => 0 | _ => h) h

theorem heldOf_append (h : Nat) (a b : List Ev) : heldOf h (a ++ b) = heldOf (heldOf h a) b := by
  simp [heldOf, List.foldl_append]

/-- a byte step emits no body; it leaves `bodyHeld` alone, or completes a message and resets it -/
theorem byteStep_held (g : Cfg) (p : P) (tok : Bytes) (c : UInt8) (p' : P) (u : Upd) (evs : List Ev)
    (h : byteStep g p tok c = .ok p' u evs) : p'.bodyHeld = heldOf p.bodyHeld evs := by
  unfold byteStep at h
  split at h
  all_goals (simp only [ok, er] at h)
  all_goals (repeat' split at h)
  all_goals first
    | (cases h; done)
    | (cases h; simp [heldOf, handleMessage]; done)
    | (cases h; simp [heldOf, setSpecial_bodyHeld]; done)
    | (rename_i hp; cases h; rcases parseChunk_shape _ _ _ hp with e | ⟨n, _, e⟩ <;> subst e <;> simp [heldOf]; done)
    | (rename_i h1 _ _ h2
       cases h
       have a : ∀ q q' : P, endOfHeaders q = .ok q' → q'.bodyHeld = q.bodyHeld := by
         intro q q' hq
         simp only [endOfHeaders, bind, Except.bind] at hq
         split at hq
         · cases hq
         · rename_i q1 hq1
           rcases parseTE_shape _ _ hq1 with ⟨_, e⟩ | ⟨_, _, _, _, e⟩ <;>
           rcases parseCL_shape _ _ hq with ⟨_, e2⟩ | ⟨_, _, _, _, _, _, _, e2⟩ <;> subst e e2 <;> rfl
       have b := a _ _ h1
       rcases addTrailerKeys_shape _ _ h2 with e | ⟨_, _, e⟩ <;> subst e <;> simp [heldOf, noBodyOverride_bodyHeld, b])
    | skip

/-- a completed block hands its bytes to `OnBody` and adds them to `bodyHeld` (and completes a Content-Length message) -/
theorem blockDone_held (g : Cfg) (p : P) (d : Bytes) (p' : P) (u : Upd) (evs : List Ev)
    (h : blockDone g p d = .ok p' u evs) : p'.bodyHeld = heldOf p.bodyHeld evs := by
  unfold blockDone at h
  split at h
  · simp [er] at h
  · simp only [ok, er] at h
    split at h
    · cases h; simp [heldOf, handleMessage]
    · cases h; simp [heldOf]
    · cases h

/-- **Body bound at event level.** Along every chain of `Parse` calls from a fresh parser, in any segmentation, with
    any ReadLimit: the counter `bodyHeld` is exactly the number of body bytes handed to `OnBody` since the last
    `OnComplete` in the events emitted so far. -/
theorem feedAllL_held (g : Cfg) (limit : Nat) (segs : List Bytes) acc' st' c'
    (h : feedAllL (machine g) limit (init g) [] segs [] = ⟨acc', .inl (st', c')⟩) :
    st'.bodyHeld = heldOf 0 acc' :=
  feedAllL_inv2 (machine g) (fun st acc => st.bodyHeld = heldOf 0 acc)
    (fun st tok c s' u evs acc hI hs => by
      rw [heldOf_append, ← hI]; exact byteStep_held g st tok c s' u evs hs)
    (fun st d s' u evs acc hI hs => by
      rw [heldOf_append, ← hI]; exact blockDone_held g st d s' u evs hs)
    limit segs (init g) [] [] (by simp [init, heldOf]) acc' st' c' h

end Http
