import NbioVerif.Lemmas.C08Meta
import NbioVerif.Lemmas.C06Chain
/-! C08, body bound at event level: the model's `bodyHeld` counter (the `BodyReader.left` of the message under
    construction, which `c08_body_bound` bounds by MaxHTTPBodySize) is the number of body bytes handed to `OnBody` since
    the last `OnComplete` — along every chain of `Parse` calls. -/
namespace Scan
variable {σ ε : Type}

/-- an invariant that couples the state with the events emitted so far is an invariant of the Parse loop -/
theorem loop_inv2 (M : Machine σ ε) (J : σ → List ε → Prop)
    (hb : ∀ st tok c s' u evs acc, J st acc → M.byteStep st tok c = .ok s' u evs → J s' (acc ++ evs))
    (hd : ∀ st d s' u evs acc, J st acc → M.blockDone st d = .ok s' u evs → J s' (acc ++ evs))
    (buf : List UInt8) :
    ∀ (fuel i start : Nat) (st : σ) (acc : List ε), J st acc →
      ∀ acc' st' c', loop M buf fuel i start st acc = ⟨acc', .inl (st', c')⟩ → J st' acc' := by
  intro fuel
  induction fuel with
  | zero => intro i start st acc _ acc' st' c' h; simp [loop] at h
  | succ fuel ih =>
    intro i start st acc hI acc' st' c' h
    unfold loop at h
    by_cases hi : i < buf.length
    · simp only [hi, dite_true] at h
      cases hblk : M.block st with
      | some n =>
        simp only [hblk] at h
        by_cases hl : buf.length - start ≥ n
        · simp only [hl, if_true] at h
          cases hbd : M.blockDone st ((buf.drop start).take n) with
          | err e evs => simp [hbd] at h
          | ok s' u evs =>
            simp only [hbd] at h
            exact ih _ _ _ _ (hd _ _ _ _ _ _ hI hbd) _ _ _ h
        · simp only [hl, if_false] at h
          simp only [Res.mk.injEq, Sum.inl.injEq, Prod.mk.injEq] at h
          obtain ⟨h1, h2, _⟩ := h; subst h1 h2; exact hI
      | none =>
        simp only [hblk] at h
        cases hbs : M.byteStep st ((buf.drop start).take (i - start)) buf[i] with
        | err e evs => simp [hbs] at h
        | ok s' u evs =>
          simp only [hbs] at h
          exact ih _ _ _ _ (hb _ _ _ _ _ _ _ hI hbs) _ _ _ h
    · simp only [hi, dite_false] at h
      simp only [Res.mk.injEq, Sum.inl.injEq, Prod.mk.injEq] at h
      obtain ⟨h1, h2, _⟩ := h; subst h1 h2; exact hI

/-- … and of every chain of `Parse` calls as the driver runs them -/
theorem feedAllL_inv2 (M : Machine σ ε) (J : σ → List ε → Prop)
    (hb : ∀ st tok c s' u evs acc, J st acc → M.byteStep st tok c = .ok s' u evs → J s' (acc ++ evs))
    (hd : ∀ st d s' u evs acc, J st acc → M.blockDone st d = .ok s' u evs → J s' (acc ++ evs))
    (limit : Nat) :
    ∀ (segs : List (List UInt8)) (st : σ) (cache : List UInt8) (acc : List ε), J st acc →
      ∀ acc' st' c', feedAllL M limit st cache segs acc = ⟨acc', .inl (st', c')⟩ → J st' acc' := by
  intro segs
  induction segs with
  | nil =>
    intro st cache acc hI acc' st' c' h
    simp only [feedAllL, Res.mk.injEq, Sum.inl.injEq, Prod.mk.injEq] at h
    obtain ⟨h1, h2, _⟩ := h; subst h1 h2; exact hI
  | cons seg segs ih =>
    intro st cache acc hI acc' st' c' h
    simp only [feedAllL, parseLC_eq] at h
    cases hr : parseL M limit st cache seg acc with
    | mk a fin =>
      rw [hr] at h
      cases fin with
      | inr e => simp at h
      | inl pr =>
        obtain ⟨st1, cache1⟩ := pr
        have hJ : J st1 a := by
          unfold parseL at hr
          split at hr
          · simp at hr
          · unfold implParse at hr
            split at hr
            · simp only [Res.mk.injEq, Sum.inl.injEq, Prod.mk.injEq] at hr
              obtain ⟨h1, h2, _⟩ := hr; subst h1 h2; exact hI
            · exact loop_inv2 M J hb hd _ _ _ _ _ _ hI _ _ _ hr
        exact ih st1 cache1 a hJ acc' st' c' h

/-- a property `Q` of the events emitted so far that follows from a state-and-events invariant `J` and survives the
    events of a failing step holds for the events of the Parse loop **whatever its outcome** (state and cache, error,
    out of fuel) -/
theorem loop_evs (M : Machine σ ε) (J : σ → List ε → Prop) (Q : List ε → Prop)
    (hJQ : ∀ st acc, J st acc → Q acc)
    (hb : ∀ st tok c s' u evs acc, J st acc → M.byteStep st tok c = .ok s' u evs → J s' (acc ++ evs))
    (hbe : ∀ st tok c e evs acc, J st acc → M.byteStep st tok c = .err e evs → Q (acc ++ evs))
    (hd : ∀ st d s' u evs acc, J st acc → M.blockDone st d = .ok s' u evs → J s' (acc ++ evs))
    (hde : ∀ st d e evs acc, J st acc → M.blockDone st d = .err e evs → Q (acc ++ evs))
    (buf : List UInt8) :
    ∀ (fuel i start : Nat) (st : σ) (acc : List ε), J st acc → Q (loop M buf fuel i start st acc).evs := by
  intro fuel
  induction fuel with
  | zero => intro i start st acc hI; simp only [loop]; exact hJQ st acc hI
  | succ fuel ih =>
    intro i start st acc hI
    unfold loop
    by_cases hi : i < buf.length
    · simp only [hi, dite_true]
      cases hblk : M.block st with
      | some n =>
        simp only
        by_cases hl : buf.length - start ≥ n
        · simp only [hl, if_true]
          cases hbd : M.blockDone st ((buf.drop start).take n) with
          | err e evs => exact hde _ _ _ _ _ hI hbd
          | ok s' u evs => exact ih _ _ _ _ (hd _ _ _ _ _ _ hI hbd)
        · simp only [hl, if_false]; exact hJQ st acc hI
      | none =>
        simp only
        cases hbs : M.byteStep st ((buf.drop start).take (i - start)) buf[i] with
        | err e evs => exact hbe _ _ _ _ _ _ hI hbs
        | ok s' u evs => exact ih _ _ _ _ (hb _ _ _ _ _ _ _ hI hbs)
    · simp only [hi, dite_false]; exact hJQ st acc hI

/-- … and for the events of every chain of `Parse` calls, whatever its outcome -/
theorem feedAllL_evs_prop (M : Machine σ ε) (J : σ → List ε → Prop) (Q : List ε → Prop)
    (hJQ : ∀ st acc, J st acc → Q acc)
    (hb : ∀ st tok c s' u evs acc, J st acc → M.byteStep st tok c = .ok s' u evs → J s' (acc ++ evs))
    (hbe : ∀ st tok c e evs acc, J st acc → M.byteStep st tok c = .err e evs → Q (acc ++ evs))
    (hd : ∀ st d s' u evs acc, J st acc → M.blockDone st d = .ok s' u evs → J s' (acc ++ evs))
    (hde : ∀ st d e evs acc, J st acc → M.blockDone st d = .err e evs → Q (acc ++ evs))
    (limit : Nat) :
    ∀ (segs : List (List UInt8)) (st : σ) (cache : List UInt8) (acc : List ε), J st acc →
      Q (feedAllL M limit st cache segs acc).evs := by
  intro segs
  induction segs with
  | nil => intro st cache acc hI; simp only [feedAllL]; exact hJQ st acc hI
  | cons seg segs ih =>
    intro st cache acc hI
    simp only [feedAllL, parseLC_eq]
    have hQ : Q (parseL M limit st cache seg acc).evs := by
      unfold parseL
      split
      · exact hJQ st acc hI
      · unfold implParse
        split
        · exact hJQ st acc hI
        · exact loop_evs M J Q hJQ hb hbe hd hde _ _ _ _ _ _ hI
    cases hr : parseL M limit st cache seg acc with
    | mk a fin =>
      rw [hr] at hQ
      cases fin with
      | inr e => exact hQ
      | inl pr =>
        obtain ⟨st1, cache1⟩ := pr
        have hJ : J st1 a := by
          unfold parseL at hr
          split at hr
          · simp at hr
          · unfold implParse at hr
            split at hr
            · simp only [Res.mk.injEq, Sum.inl.injEq, Prod.mk.injEq] at hr
              obtain ⟨h1, h2, _⟩ := hr; subst h1 h2; exact hI
            · exact loop_inv2 M J hb hd _ _ _ _ _ _ hI _ _ _ hr
        exact ih st1 cache1 a hJ

end Scan

namespace Http
open Scan

/-- body bytes handed to `OnBody` since the last `OnComplete`, starting from `h` -/
def heldOf (h : Nat) (evs : List Ev) : Nat :=
  evs.foldl (fun h e => match e with | .body d => h + d.length | .complete => 0 | _ => h) h

theorem heldOf_append (h : Nat) (a b : List Ev) : heldOf h (a ++ b) = heldOf (heldOf h a) b := by
  simp [heldOf, List.foldl_append]

/-- a byte step emits no body; it leaves `bodyHeld` alone, or completes a message and resets it -/
theorem byteStep_held (g : Cfg) (p : P) (tok : Bytes) (c : UInt8) (p' : P) (u : Upd) (evs : List Ev)
    (h : byteStep g p tok c = .ok p' u evs) : p'.bodyHeld = heldOf p.bodyHeld evs := by
  unfold byteStep at h
  split at h
  all_goals (simp only [ok, er] at h)
  all_goals (repeat' split at h)
  all_goals first
    | (cases h; done)
    | (cases h; simp [heldOf, handleMessage]; done)
    | (cases h; simp [heldOf, setSpecial_bodyHeld]; done)
    | (rename_i hp; cases h; rcases parseChunk_shape _ _ _ hp with e | ⟨n, _, e⟩ <;> subst e <;> simp [heldOf]; done)
    | (rename_i h1 _ _ h2
       cases h
       have a : ∀ q q' : P, endOfHeaders q = .ok q' → q'.bodyHeld = q.bodyHeld := by
         intro q q' hq
         simp only [endOfHeaders, bind, Except.bind] at hq
         split at hq
         · cases hq
         · rename_i q1 hq1
           rcases parseTE_shape _ _ hq1 with ⟨_, e⟩ | ⟨_, _, _, _, e⟩ <;>
           rcases parseCL_shape _ _ hq with ⟨_, e2⟩ | ⟨_, _, _, _, _, _, _, e2⟩ <;> subst e e2 <;> rfl
       have b := a _ _ h1
       rcases addTrailerKeys_shape _ _ h2 with e | ⟨_, _, e⟩ <;> subst e <;> simp [heldOf, noBodyOverride_bodyHeld, b])
    | skip

/-- a completed block hands its bytes to `OnBody` and adds them to `bodyHeld` (and completes a Content-Length message) -/
theorem blockDone_held (g : Cfg) (p : P) (d : Bytes) (p' : P) (u : Upd) (evs : List Ev)
    (h : blockDone g p d = .ok p' u evs) : p'.bodyHeld = heldOf p.bodyHeld evs := by
  unfold blockDone at h
  split at h
  · simp [er] at h
  · simp only [ok, er] at h
    split at h
    · cases h; simp [heldOf, handleMessage]
    · cases h; simp [heldOf]
    · cases h

/-- **Body bound at event level.** Along every chain of `Parse` calls from a fresh parser, in any segmentation, with
    any ReadLimit: the counter `bodyHeld` is exactly the number of body bytes handed to `OnBody` since the last
    `OnComplete` in the events emitted so far. -/
theorem feedAllL_held (g : Cfg) (limit : Nat) (segs : List Bytes) acc' st' c'
    (h : feedAllL (machine g) limit (init g) [] segs [] = ⟨acc', .inl (st', c')⟩) :
    st'.bodyHeld = heldOf 0 acc' :=
  feedAllL_inv2 (machine g) (fun st acc => st.bodyHeld = heldOf 0 acc)
    (fun st tok c s' u evs acc hI hs => by
      rw [heldOf_append, ← hI]; exact byteStep_held g st tok c s' u evs hs)
    (fun st d s' u evs acc hI hs => by
      rw [heldOf_append, ← hI]; exact blockDone_held g st d s' u evs hs)
    limit segs (init g) [] [] (by simp [init, heldOf]) acc' st' c' h

/-! ### the bound between any two callbacks, and on failing calls -/

def stepHeld (h : Nat) : Ev → Nat
  | .body d => h + d.length
  | .complete => 0
  | _ => h

theorem heldOf_cons (h : Nat) (e : Ev) (es : List Ev) : heldOf h (e :: es) = heldOf (stepHeld h e) es := by
  simp only [heldOf, List.foldl_cons]
  cases e <;> rfl

/-- the largest value the body counter takes while the events are delivered one by one, starting from `h` -/
def peak : Nat → List Ev → Nat
  | h, [] => h
  | h, e :: es => max h (peak (stepHeld h e) es)

theorem le_peak (h : Nat) (evs : List Ev) : h ≤ peak h evs := by
  cases evs with
  | nil => exact Nat.le_refl _
  | cons e es => exact Nat.le_max_left _ _

theorem peak_append (a b : List Ev) : ∀ h, peak h (a ++ b) = max (peak h a) (peak (heldOf h a) b) := by
  induction a with
  | nil =>
    intro h
    have := le_peak h b
    simp only [List.nil_append, peak, heldOf, List.foldl_nil]
    omega
  | cons e es ih =>
    intro h
    simp only [List.cons_append, peak, ih, heldOf_cons]
    omega

/-- `peak` bounds the counter after every prefix of the events: after the k first callbacks, for every k -/
theorem take_le_peak (evs : List Ev) : ∀ (h k : Nat), heldOf h (evs.take k) ≤ peak h evs := by
  induction evs with
  | nil => intro h k; simp [heldOf, peak]
  | cons e es ih =>
    intro h k
    cases k with
    | zero => simp only [List.take_zero, heldOf, List.foldl_nil]; exact le_peak _ _
    | succ k =>
      simp only [List.take_succ_cons, heldOf_cons, peak]
      have := ih (stepHeld h e) k
      omega

def noBody (evs : List Ev) : Bool := evs.all fun e => match e with | .body _ => false | _ => true

theorem peak_noBody (evs : List Ev) : ∀ h, noBody evs = true → peak h evs = h := by
  induction evs with
  | nil => intro h _; rfl
  | cons e es ih =>
    intro h hn
    simp only [noBody, List.all_cons, Bool.and_eq_true] at hn
    have h2 := ih (stepHeld h e) (by simpa [noBody] using hn.2)
    simp only [peak, h2]
    cases e <;> simp_all [stepHeld]

/-- no byte step hands body bytes over — neither a successful one … -/
theorem byteStep_noBody (g : Cfg) (p : P) (tok : Bytes) (c : UInt8) (p' : P) (u : Upd) (evs : List Ev)
    (h : byteStep g p tok c = .ok p' u evs) : noBody evs = true := by
  unfold byteStep at h
  split at h
  all_goals (simp only [ok, er] at h)
  all_goals (repeat' split at h)
  all_goals first
    | (cases h; done)
    | (cases h; rfl)
    | (cases h; simp [noBody]; done)
    | skip

/-- … nor a failing one -/
theorem byteStep_err_noBody (g : Cfg) (p : P) (tok : Bytes) (c : UInt8) (e : Nat) (evs : List Ev)
    (h : byteStep g p tok c = .err e evs) : noBody evs = true := by
  unfold byteStep at h
  split at h
  all_goals (simp only [ok, er] at h)
  all_goals (repeat' split at h)
  all_goals first
    | (cases h; done)
    | (cases h; rfl)
    | (cases h; simp [noBody]; done)
    | skip

theorem blockDone_err_nil (g : Cfg) (p : P) (d : Bytes) (e : Nat) (evs : List Ev)
    (h : blockDone g p d = .err e evs) : evs = [] := by
  unfold blockDone at h
  split at h
  · simp only [er] at h; cases h; rfl
  · simp only [ok, er] at h
    split at h <;> cases h
    rfl

/-- a completed block never lifts the counter above MaxHTTPBodySize, not even between its two callbacks -/
theorem blockDone_peak (g : Cfg) (hm : g.maxBody > 0) (p : P) (d : Bytes) (p' : P) (u : Upd) (evs : List Ev)
    (hp : p.bodyHeld ≤ g.maxBody) (h : blockDone g p d = .ok p' u evs) : peak p.bodyHeld evs ≤ g.maxBody := by
  unfold blockDone at h
  split at h
  · simp [er] at h
  · rename_i hlim
    have hle : d.length + p.bodyHeld ≤ g.maxBody := by
      simp only [gt_iff_lt, Bool.and_eq_true, decide_eq_true_eq, not_and, Nat.not_lt] at hlim
      exact hlim hm
    simp only [ok, er] at h
    split at h
    · cases h; simp only [peak, stepHeld]; omega
    · cases h; simp only [peak, stepHeld]; omega
    · cases h

/-- **Body bound between any two callbacks, for every outcome.** With MaxHTTPBodySize set, along every chain of `Parse`
    calls from a fresh parser — any segmentation, any ReadLimit, whether the chain ends with a parser state or with an
    error — the body counter never exceeds the limit while the callbacks are delivered one by one. -/
theorem feedAllL_peak (g : Cfg) (hm : g.maxBody > 0) (limit : Nat) (segs : List Bytes) :
    peak 0 (feedAllL (machine g) limit (init g) [] segs []).evs ≤ g.maxBody :=
  feedAllL_evs_prop (machine g)
    (fun st acc => st.bodyHeld = heldOf 0 acc ∧ peak 0 acc ≤ g.maxBody) (fun acc => peak 0 acc ≤ g.maxBody)
    (fun _ _ hJ => hJ.2)
    (fun st tok c s' u evs acc hJ hs => by
      have hk := take_le_peak acc 0 acc.length
      rw [List.take_length] at hk
      refine ⟨by rw [heldOf_append, ← hJ.1]; exact byteStep_held g st tok c s' u evs hs, ?_⟩
      rw [peak_append, peak_noBody evs _ (byteStep_noBody g st tok c s' u evs hs)]
      have := hJ.2; omega)
    (fun st tok c e evs acc hJ hs => by
      have hk := take_le_peak acc 0 acc.length
      rw [List.take_length] at hk
      show peak 0 (acc ++ evs) ≤ g.maxBody
      rw [peak_append, peak_noBody evs _ (byteStep_err_noBody g st tok c e evs hs)]
      have := hJ.2; omega)
    (fun st d s' u evs acc hJ hs => by
      have hk := take_le_peak acc 0 acc.length
      rw [List.take_length] at hk
      have hp : st.bodyHeld ≤ g.maxBody := by rw [hJ.1]; have := hJ.2; omega
      refine ⟨by rw [heldOf_append, ← hJ.1]; exact blockDone_held g st d s' u evs hs, ?_⟩
      rw [peak_append, ← hJ.1]
      have := blockDone_peak g hm st d s' u evs hp hs
      have := hJ.2; omega)
    (fun st d e evs acc hJ hs => by
      show peak 0 (acc ++ evs) ≤ g.maxBody
      rw [blockDone_err_nil g st d e evs hs, List.append_nil]; exact hJ.2)
    limit segs (init g) [] [] ⟨by simp [init, heldOf], by simp [peak]⟩

end Http
