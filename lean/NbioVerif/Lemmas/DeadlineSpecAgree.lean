import NbioVerif.Model.DeadlineSpec
import NbioVerif.Lemmas.DeadlineSteps
/-! The model's ghost "deadline in force" agrees with the independently defined fold `specRun`. -/
namespace Deadline

structure Agree (s : St) (t : Sp) : Prop where
  now     : s.now = t.now
  closed  : s.closed = t.closed
  backlog : s.closed = false → s.backlog = t.backlog
  fr      : (s.t .r).f = t.fr
  fw      : (s.t .w).f = t.fw

theorem agree_init : Agree init {} := by
  constructor <;> simp [init, St.t]

theorem agree_arm_r {s : St} {t : Sp} (h : Agree s t) (x : Nat) : Agree (arm s .r x) { t with fr := some x } := by
  obtain ⟨h1, h2, h3, h4, h5⟩ := h
  exact ⟨by simpa [arm] using h1, by simpa [arm] using h2, by simpa [arm] using h3, by simp [arm], by simpa [arm] using h5⟩

theorem agree_arm_w {s : St} {t : Sp} (h : Agree s t) (x : Nat) : Agree (arm s .w x) { t with fw := some x } := by
  obtain ⟨h1, h2, h3, h4, h5⟩ := h
  exact ⟨by simpa [arm] using h1, by simpa [arm] using h2, by simpa [arm] using h3, by simpa [arm] using h4, by simp [arm]⟩

theorem agree_stop_r {s : St} {t : Sp} (h : Agree s t) : Agree (stop s .r) { t with fr := none } := by
  obtain ⟨h1, h2, h3, h4, h5⟩ := h
  exact ⟨by simpa [stop] using h1, by simpa [stop] using h2, by simpa [stop] using h3, by simp [stop], by simpa [stop] using h5⟩

theorem agree_stop_w {s : St} {t : Sp} (h : Agree s t) : Agree (stop s .w) { t with fw := none } := by
  obtain ⟨h1, h2, h3, h4, h5⟩ := h
  exact ⟨by simpa [stop] using h1, by simpa [stop] using h2, by simpa [stop] using h3, by simpa [stop] using h4, by simp [stop]⟩

theorem agree_errClose {s : St} {t : Sp} (h : Agree s t) : Agree (errClose s) t.close := by
  obtain ⟨h1, h2, h3, h4, h5⟩ := h
  refine ⟨by simpa [errClose, unforce, Sp.close] using h1, by simp [errClose, unforce, Sp.close], ?_, ?_, ?_⟩
  · intro hc; simp [errClose, unforce] at hc
  · simp [errClose, unforce, St.setT, St.t, St.flip, Sp.close]
  · simp [errClose, unforce, St.setT, St.t, St.flip, Sp.close]

theorem agree_closeWith_open {s : St} {t : Sp} (h : Agree s t) (hc : s.closed = false) (c : Cause) (b : Option Rec) :
    Agree (closeWith s c b) t.close := by
  obtain ⟨h1, h2, h3, h4, h5⟩ := h
  simp only [closeWith, hc]
  refine ⟨by simpa [stop, Sp.close] using h1, by simp [stop, Sp.close], ?_, ?_, ?_⟩
  · intro hc'; simp [stop] at hc'
  · simp [stop, St.setT, St.t, Sp.close]
  · simp [stop, St.setT, St.t, Sp.close]

/-- closes the field-wise goals of `Agree` after a step has been unfolded -/
macro "agree_tac" : tactic =>
  `(tactic| (refine ⟨?_, ?_, ?_, ?_, ?_⟩ <;>
      simp_all [arm, stop, errClose, unforce, closeWith, St.setT, St.t, St.flip, St.withBacklog, St.withNow,
                St.withPend, Sp.close, specStep, stepWrite, stepFlush, fixed]))

/-- a step that is not a timeout close keeps the agreement -/
theorem agree_step {s s' : St} {t : Sp} {o : Op} (h : Agree s t) (hs : step fixed s o = some s')
    (hnt : ∀ d, s'.cause ≠ some (.timeout d)) : Agree s' (specStep t o) := by
  obtain ⟨h1, h2, h3, h4, h5⟩ := h
  simp only [St.t] at h4 h5
  cases o with
  | set d x => simp only [step] at hs; cases hs; cases hc : s.closed <;> cases d <;> agree_tac
  | clear d => simp only [step] at hs; cases hs; cases hc : s.closed <;> cases d <;> agree_tac
  | setBoth x => simp only [step] at hs; cases hs; cases hc : s.closed <;> agree_tac
  | clearBoth => simp only [step] at hs; cases hs; cases hc : s.closed <;> agree_tac
  | ka n => simp only [step] at hs; cases hs; cases hc : s.closed <;> agree_tac
  | wto n => simp only [step] at hs; cases hs; cases hc : s.closed <;> agree_tac
  | dial n => simp only [step] at hs; cases hs; cases hc : s.closed <;> agree_tac
  | connected => simp only [step] at hs; cases hs; cases hc : s.closed <;> agree_tac
  | write k =>
    simp only [step] at hs; cases hs
    cases hc : s.closed <;> cases hb : s.backlog <;> cases k <;> agree_tac
  | flush k =>
    simp only [step] at hs; cases hs
    cases hc : s.closed <;> cases hb : s.backlog <;> cases k <;> agree_tac
  | close => simp only [step] at hs; cases hs; cases hc : s.closed <;> agree_tac
  | tick n => simp only [step] at hs; cases hs; agree_tac
  | fire d =>
    simp only [step, stepFire] at hs
    split at hs
    · split at hs
      · cases hs; cases d <;> agree_tac
      · cases hs
    · cases hs
  | cb i =>
    simp only [step, stepCb] at hs
    split at hs
    · rename_i r _
      cases hs
      cases hc : s.closed with
      | true => agree_tac
      | false =>
        -- an open conn closed by this callback: excluded by the hypothesis
        exfalso
        apply hnt r.dir
        simp [closeWith, hc, stop]
    · cases hs

theorem cause_timeout_stable {s : St} (hi : Inv s) (os : List Op) (d : Dir) (h : s.cause = some (.timeout d)) :
    (run fixed s os).cause = some (.timeout d) := by
  have hc : s.closed = true := hi.closed_cause.mpr (by simp [h])
  rw [(run_closed_stable os hc).2]; exact h

theorem agree_run (os : List Op) : ∀ (s : St) (t : Sp), Inv s → Agree s t →
    (∀ d, (run fixed s os).cause ≠ some (.timeout d)) → Agree (run fixed s os) (specRun t os) := by
  induction os with
  | nil => intro s t _ h _; exact h
  | cons o os ih =>
    intro s t hi h hnt
    simp only [run, specRun] at hnt ⊢
    cases hs : step fixed s o with
    | some s' =>
      simp only [hs] at hnt ⊢
      have hi' := inv_step hi hs
      have hnt' : ∀ d, s'.cause ≠ some (.timeout d) := by
        intro d hd
        exact hnt d (cause_timeout_stable hi' os d hd)
      exact ih s' _ hi' (agree_step h hs hnt') hnt
    | none =>
      simp only [hs] at hnt ⊢
      -- only `fire` and `cb` can be disabled, and the fold ignores them
      have : specStep t o = t := by
        cases o with
        | fire d => rfl
        | cb i => rfl
        | _ => simp [step] at hs
      rw [this]
      exact ih s t hi h hnt

end Deadline
