import NbioVerif.Model.WsCb
/-! Invariant of the WebSocket callback plumbing: which jobs have been accepted by the job queue, in which order. -/
namespace WsCb

theorem jinv {q : JobQ.St} (a : JobQ.Act) (h : JobQ.Inv q) : JobQ.Inv (jstep q a) := by
  unfold jstep
  cases hs : JobQ.step q a with
  | none => simpa using h
  | some q' => simpa using JobQ.inv_step q q' a h hs

theorem jstep_submit_open (q : JobQ.St) (j : Nat) (must : Bool) (h : (!must && q.closed) = false) :
    (jstep q (.submit j must)).acc = q.acc ++ [j] ∧ (jstep q (.submit j must)).closed = q.closed := by
  simp [jstep, JobQ.step, h]

theorem jstep_submit_closed (q : JobQ.St) (j : Nat) (h : q.closed = true) :
    jstep q (.submit j false) = q := by
  simp [jstep, JobQ.step, h]

theorem jstep_close (q : JobQ.St) : (jstep q .close).acc = q.acc ∧ (jstep q .close).closed = true := by
  simp [jstep, JobQ.step]

structure Inv (s : St) : Prop where
  jq     : JobQ.Inv s.q
  acc    : s.q.acc = expected s
  notif  : s.notified = true → s.q.closed = true
  openAll : s.q.closed = false → s.accMsgs = s.wireMsgs
  le     : s.accMsgs ≤ s.wireMsgs
  up     : s.upgraded = false → s.accMsgs = 0 ∧ s.notified = false

theorem inv_init : Inv init := by
  refine ⟨JobQ.inv_init, ?_, ?_, ?_, ?_, ?_⟩ <;> simp [init, expected, JobQ.init]

theorem run_acc (q q' : JobQ.St) (h : JobQ.step q .run = some q') : q'.acc = q.acc ∧ q'.closed = q.closed := by
  simp only [JobQ.step] at h
  split at h
  · split at h
    · cases h; exact ⟨rfl, rfl⟩
    · cases h
  · cases h

theorem next_acc (q q' : JobQ.St) (h : JobQ.step q .next = some q') : q'.acc = q.acc ∧ q'.closed = q.closed := by
  simp only [JobQ.step] at h
  split at h
  · split at h
    · cases h; exact ⟨rfl, rfl⟩
    · cases h; exact ⟨rfl, rfl⟩
  · cases h

theorem inv_step {s s' : St} {a : Act} (h : Inv s) (hs : step s a = some s') : Inv s' := by
  obtain ⟨h1, h2, h3, h4, h5, h6⟩ := h
  cases a with
  | upgrade =>
    simp only [step] at hs
    split at hs
    · cases hs
    · rename_i hc
      cases hs
      have hu : s.upgraded = false := by
        cases hq : s.upgraded <;> simp [hq] at hc ⊢
      have hcl : s.q.closed = false := by
        cases hq : s.q.closed <;> simp [hq] at hc ⊢
      obtain ⟨ha, hn⟩ := h6 hu
      obtain ⟨a1, a2⟩ := jstep_submit_open s.q jobOpen false (by simp [hcl])
      refine ⟨jinv (.submit jobOpen false) h1, ?_, ?_, ?_, h5, ?_⟩
      · simp only [a1, h2, expected, hu, ha, hn]
        simp
      · intro hn'; simp [hn] at hn'
      · intro _; exact h4 hcl
      · intro hf; simp at hf
  | recv =>
    simp only [step] at hs
    split at hs
    · cases hs
    · rename_i hu
      have hu' : s.upgraded = true := by simpa using hu
      cases hs
      cases hcl : s.q.closed with
      | true =>
        rw [jstep_submit_closed _ _ hcl]
        refine ⟨h1, ?_, h3, ?_, ?_, ?_⟩
        · simp only [hcl, if_true]; simpa [expected] using h2
        · intro hc; simp [hcl] at hc
        · simp only [hcl, if_true]; omega
        · intro hf; simp [hu'] at hf
      | false =>
        obtain ⟨a1, a2⟩ := jstep_submit_open s.q (jobMsg s.wireMsgs) false (by simp [hcl])
        have hn : s.notified = false := by
          cases hq : s.notified with
          | false => rfl
          | true => have := h3 hq; simp [hcl] at this
        have hacc := h4 hcl
        refine ⟨jinv (.submit (jobMsg s.wireMsgs) false) h1, ?_, ?_, ?_, ?_, ?_⟩
        · simp only [a1, h2, expected, hu', hn, hcl, if_true]
          simp [List.range_succ, hacc]
        · intro hn'; simp [hn] at hn'
        · intro _; simp [hcl, hacc]
        · simp [hcl]; omega
        · intro hf; simp [hu'] at hf
  | flip =>
    simp only [step] at hs; cases hs
    obtain ⟨a1, a2⟩ := jstep_close s.q
    refine ⟨jinv .close h1, ?_, ?_, ?_, h5, h6⟩
    · rw [a1, h2]; rfl
    · intro _; exact a2
    · intro hc; rw [a2] at hc; cases hc
  | notify =>
    simp only [step] at hs
    split at hs
    · rename_i hc
      cases hs
      simp only [Bool.and_eq_true, Bool.not_eq_true'] at hc
      obtain ⟨⟨hcl, hn⟩, hu⟩ := hc
      obtain ⟨a1, a2⟩ := jstep_submit_open s.q jobClose true (by simp)
      refine ⟨jinv (.submit jobClose true) h1, ?_, ?_, ?_, h5, ?_⟩
      · simp only [a1, h2, expected, hn, hu]
        simp
      · intro _; rw [a2]; exact hcl
      · intro hc'; rw [a2, hcl] at hc'; cases hc'
      · intro hf; simp [hu] at hf
    · cases hs
  | run =>
    simp only [step] at hs
    cases hq : JobQ.step s.q .run with
    | none => simp [hq] at hs
    | some q' =>
      simp [hq] at hs; cases hs
      obtain ⟨a1, a2⟩ := run_acc _ _ hq
      exact ⟨JobQ.inv_step _ _ _ h1 hq, by rw [a1, h2]; rfl, by rw [a2]; exact h3, by rw [a2]; exact h4, h5, h6⟩
  | next =>
    simp only [step] at hs
    cases hq : JobQ.step s.q .next with
    | none => simp [hq] at hs
    | some q' =>
      simp [hq] at hs; cases hs
      obtain ⟨a1, a2⟩ := next_acc _ _ hq
      exact ⟨JobQ.inv_step _ _ _ h1 hq, by rw [a1, h2]; rfl, by rw [a2]; exact h3, by rw [a2]; exact h4, h5, h6⟩

theorem inv_run {s : St} (as : List Act) (h : Inv s) : Inv (run s as) := by
  induction as generalizing s with
  | nil => exact h
  | cons a as ih =>
    simp only [run]
    split
    · rename_i s' hs; exact ih (inv_step h hs)
    · exact ih h

theorem expected_nodup (s : St) : (expected s).Nodup := by
  unfold expected
  have hm : ((List.range s.accMsgs).map jobMsg).Nodup := by
    induction s.accMsgs with
    | zero => simp
    | succ n ih =>
      rw [List.range_succ, List.map_append, List.nodup_append]
      refine ⟨ih, by simp, ?_⟩
      intro a ha b hb
      simp only [List.mem_map, List.mem_range] at ha
      obtain ⟨k, hk, rfl⟩ := ha
      simp at hb; subst hb
      simp [jobMsg]; omega
  rw [List.nodup_append, List.nodup_append]
  refine ⟨⟨?_, hm, ?_⟩, ?_, ?_⟩
  · split <;> simp
  · intro a ha b hb
    split at ha
    · simp at ha; subst ha
      simp only [List.mem_map, List.mem_range] at hb
      obtain ⟨k, _, rfl⟩ := hb
      simp [jobOpen, jobMsg]
    · simp at ha
  · split <;> simp
  · intro a ha b hb
    split at hb
    · simp at hb; subst hb
      rcases List.mem_append.mp ha with ha | ha
      · split at ha
        · simp at ha; subst ha; simp [jobOpen, jobClose]
        · simp at ha
      · simp only [List.mem_map, List.mem_range] at ha
        obtain ⟨k, _, rfl⟩ := ha
        simp [jobMsg, jobClose]
    · simp at hb


end WsCb
