import NbioVerif.Model.WsCb
import NbioVerif.Lemmas.ExecQInv
/-! Invariant of the WebSocket callback plumbing over `ExecQ`: which jobs have been accepted, in which order; and the
bridge "every queue state reached here is an `ExecQ`-reachable state". -/
namespace WsCb

/-! ### what an `ExecQ.step .conn` does to `acc` and `closed` -/

theorem take_acc (big : Bool) (q : ExecQ.St) (d : Nat) (x : ExecQ.Drainer) :
    (ExecQ.take .conn big q d x).acc = q.acc ∧ (ExecQ.take .conn big q d x).closed = q.closed := by
  unfold ExecQ.take
  split
  · exact ⟨rfl, rfl⟩
  · split <;> exact ⟨rfl, rfl⟩

theorem submit_open {q q' : ExecQ.St} {j : Nat} {must : Bool}
    (h : ExecQ.step .conn q (.submit j must) = some q') (ho : must = true ∨ q.closed = false) :
    q'.acc = q.acc ++ [j] ∧ q'.closed = q.closed := by
  simp only [ExecQ.step] at h
  split at h
  · rename_i hc
    simp at hc
    rcases ho with ho | ho
    · simp [ho] at hc
    · simp [ho] at hc
  · split at h <;> (cases h; exact ⟨rfl, rfl⟩)

theorem submit_closed {q q' : ExecQ.St} {j : Nat}
    (h : ExecQ.step .conn q (.submit j false) = some q') (hc : q.closed = true) : q' = q := by
  simp [ExecQ.step, hc] at h
  exact h.symm

theorem close_acc {q q' : ExecQ.St} (h : ExecQ.step .conn q .close = some q') :
    q'.acc = q.acc ∧ q'.closed = true := by
  simp [ExecQ.step] at h
  cases h; exact ⟨rfl, rfl⟩

theorem drainer_acc {q q' : ExecQ.St} {a : ExecQ.Act} (ha : drainerAct a = true)
    (h : ExecQ.step .conn q a = some q') : q'.acc = q.acc ∧ q'.closed = q.closed := by
  cases a with
  | submit j m => simp [drainerAct] at ha
  | close => simp [drainerAct] at ha
  | spawn d big =>
    simp only [ExecQ.step] at h
    split at h
    · split at h
      · cases h; exact ⟨rfl, rfl⟩
      · cases h
    · cases h
  | start d =>
    simp only [ExecQ.step] at h
    split at h
    · split at h
      · cases h; exact ⟨rfl, rfl⟩
      · cases h
    · cases h
  | finish d p =>
    simp only [ExecQ.step] at h
    split at h
    · split at h
      · cases h; exact ⟨rfl, rfl⟩
      · cases h
    · cases h
  | next d big =>
    simp only [ExecQ.step] at h
    split at h
    · rename_i x _
      split at h
      · cases h; exact take_acc big q d x
      · cases h
    · cases h

/-! ### every step here is one `ExecQ.step .conn` -/

theorem step_q {s s' : St} {a : Act} (h : step s a = some s') : ∃ b, ExecQ.step .conn s.q b = some s'.q := by
  cases a with
  | upgrade =>
    simp only [step] at h
    split at h
    · cases h
    · cases hq : ExecQ.step .conn s.q (.submit jobOpen false) with
      | none => simp [hq] at h
      | some q' => simp [hq] at h; cases h; exact ⟨_, hq⟩
  | recv =>
    simp only [step] at h
    split at h
    · cases h
    · cases hq : ExecQ.step .conn s.q (.submit (jobMsg s.wireMsgs) false) with
      | none => simp [hq] at h
      | some q' => simp [hq] at h; cases h; exact ⟨_, hq⟩
  | flip =>
    simp only [step] at h
    cases hq : ExecQ.step .conn s.q .close with
    | none => simp [hq] at h
    | some q' => simp [hq] at h; cases h; exact ⟨_, hq⟩
  | notify =>
    simp only [step] at h
    split at h
    · cases hq : ExecQ.step .conn s.q (.submit jobClose true) with
      | none => simp [hq] at h
      | some q' => simp [hq] at h; cases h; exact ⟨_, hq⟩
    · cases h
  | q a =>
    simp only [step] at h
    split at h
    · cases h
    · cases hq : ExecQ.step .conn s.q a with
      | none => simp [hq] at h
      | some q' => simp [hq] at h; cases h; exact ⟨_, hq⟩

/-- **bridge**: the queue state after any run of this model is the state of an `ExecQ` run -/
theorem run_q {s : St} (as : List Act) : ∃ bs, (run s as).q = ExecQ.run .conn s.q bs := by
  induction as generalizing s with
  | nil => exact ⟨[], rfl⟩
  | cons a as ih =>
    simp only [run]
    split
    · rename_i s' hs
      obtain ⟨b, hb⟩ := step_q hs
      obtain ⟨bs, hbs⟩ := ih (s := s')
      exact ⟨b :: bs, by simp only [ExecQ.run, hb]; exact hbs⟩
    · exact ih

theorem run_q_reachable (as : List Act) : ∃ bs, (run init as).q = ExecQ.run .conn ExecQ.init bs :=
  run_q (s := init) as

/-! ### the invariant -/

structure Inv (s : St) : Prop where
  jq      : ExecQ.Inv .conn s.q
  acc     : s.q.acc = expected s
  notif   : s.notified = true → s.q.closed = true
  openAll : s.q.closed = false → s.accMsgs = s.wireMsgs
  le      : s.accMsgs ≤ s.wireMsgs
  up      : s.upgraded = false → s.accMsgs = 0 ∧ s.notified = false ∧ s.wireMsgs = 0
  est     : s.established = some true → s.upgraded = true
  noEst   : s.established ≠ some true → s.wireMsgs = 0
  estF    : s.established = some false → s.q.closed = true

theorem inv_init : Inv init := by
  refine ⟨ExecQ.inv_init .conn, ?_, ?_, ?_, ?_, ?_, ?_, ?_, ?_⟩ <;> simp [init, expected, ExecQ.init]

theorem expected_nil_of_not_upgraded {s : St} (h : Inv s) (hu : s.upgraded = false) : expected s = [] := by
  obtain ⟨ha, hn, _⟩ := h.up hu
  simp [expected, hu, ha, hn]

/-- a drainer that is about to enter a job holds a job that was accepted -/
theorem ready_job_accepted {q : ExecQ.St} (hi : ExecQ.Inv .conn q) {d : Nat} {x : ExecQ.Drainer}
    (hx : q.drs[d]? = some x) (hp : x.ph = .ready) : x.job ∈ q.acc := by
  rcases hi.shape with ⟨hd, _⟩ | ⟨y, hd, di⟩
  · rw [hd] at hx; simp at hx
  · obtain ⟨_, hxy⟩ := ExecQ.single_get hd hx
    subst hxy
    obtain ⟨p, _, hget, hacc, _⟩ := di.hold (Or.inl hp)
    rw [← hacc]
    apply List.mem_append_right
    rw [ExecQ.drop_succ_of_get hget]
    exact List.mem_cons_self ..

theorem inv_step {s s' : St} {a : Act} (h : Inv s) (hs : step s a = some s') : Inv s' := by
  obtain ⟨b, hb⟩ := step_q hs
  have hjq : ExecQ.Inv .conn s'.q := ExecQ.inv_step .conn s.q s'.q b h.jq hb
  have hall := h
  obtain ⟨h0, h2, h3, h4, h5, h6, h7, h8, h9⟩ := h
  cases a with
  | upgrade =>
    simp only [step] at hs
    split at hs
    · cases hs
    · rename_i hc
      have hu : s.upgraded = false := by cases hq : s.upgraded <;> simp [hq] at hc ⊢
      have hcl : s.q.closed = false := by cases hq : s.q.closed <;> simp [hq] at hc ⊢
      cases hq : ExecQ.step .conn s.q (.submit jobOpen false) with
      | none => simp [hq] at hs
      | some q' =>
        simp [hq] at hs; cases hs
        obtain ⟨a1, a2⟩ := submit_open hq (Or.inr hcl)
        obtain ⟨ha, hn, hw⟩ := h6 hu
        refine ⟨hjq, ?_, ?_, ?_, h5, ?_, ?_, h8, ?_⟩
        · simp only [a1, h2, expected, hu, ha, hn]; simp
        · intro hn'; simp [hn] at hn'
        · intro _; exact h4 hcl
        · intro hf; simp at hf
        · intro _; rfl
        · intro he; rw [a2]; exact h9 he
  | recv =>
    simp only [step] at hs
    split at hs
    · cases hs
    · rename_i he
      have he' : s.established = some true := by
        cases hq : s.established with
        | none => simp [hq] at he
        | some b => cases b <;> simp [hq] at he ⊢
      have hu : s.upgraded = true := h7 he'
      cases hq : ExecQ.step .conn s.q (.submit (jobMsg s.wireMsgs) false) with
      | none => simp [hq] at hs
      | some q' =>
        simp [hq] at hs; cases hs
        cases hcl : s.q.closed with
        | true =>
          have := submit_closed hq hcl
          subst this
          refine ⟨hjq, ?_, h3, ?_, ?_, ?_, h7, ?_, h9⟩
          · simp only [hcl, if_true]; simpa [expected] using h2
          · intro hc; simp [hcl] at hc
          · simp only [hcl, if_true]; omega
          · intro hf; simp [hu] at hf
          · intro hne; exact absurd he' hne
        | false =>
          obtain ⟨a1, a2⟩ := submit_open hq (Or.inr hcl)
          have hn : s.notified = false := by
            cases hq' : s.notified with
            | false => rfl
            | true => have := h3 hq'; simp [hcl] at this
          have hacc := h4 hcl
          refine ⟨hjq, ?_, ?_, ?_, ?_, ?_, h7, ?_, ?_⟩
          · simp only [a1, h2, expected, hu, hn, hcl]
            simp [List.range_succ, hacc]
          · intro hn'; simp [hn] at hn'
          · intro _; simp [hcl, hacc]
          · simp [hcl]; omega
          · intro hf; simp [hu] at hf
          · intro hne; exact absurd he' hne
          · intro hf; rw [he'] at hf; cases hf
  | flip =>
    simp only [step] at hs
    cases hq : ExecQ.step .conn s.q .close with
    | none => simp [hq] at hs
    | some q' =>
      simp [hq] at hs; cases hs
      obtain ⟨a1, a2⟩ := close_acc hq
      refine ⟨hjq, ?_, ?_, ?_, h5, h6, h7, h8, ?_⟩
      · rw [a1, h2]; rfl
      · intro _; exact a2
      · intro hc; rw [a2] at hc; cases hc
      · intro _; exact a2
  | notify =>
    simp only [step] at hs
    split at hs
    · rename_i hc
      simp only [Bool.and_eq_true, Bool.not_eq_true'] at hc
      obtain ⟨⟨hcl, hn⟩, hu⟩ := hc
      cases hq : ExecQ.step .conn s.q (.submit jobClose true) with
      | none => simp [hq] at hs
      | some q' =>
        simp [hq] at hs; cases hs
        obtain ⟨a1, a2⟩ := submit_open hq (Or.inl rfl)
        refine ⟨hjq, ?_, ?_, ?_, h5, ?_, h7, h8, ?_⟩
        · simp only [a1, h2, expected, hn, hu]; simp
        · intro _; rw [a2]; exact hcl
        · intro hc'; rw [a2, hcl] at hc'; cases hc'
        · intro hf; simp [hu] at hf
        · intro _; rw [a2]; exact hcl
    · cases hs
  | q a =>
    simp only [step] at hs
    split at hs
    · cases hs
    · rename_i hda
      have hda' : drainerAct a = true := by simpa using hda
      cases hq : ExecQ.step .conn s.q a with
      | none => simp [hq] at hs
      | some q' =>
        simp only [hq, Option.map_some, Option.some.injEq] at hs
        cases hs
        obtain ⟨a1, a2⟩ := drainer_acc hda' hq
        by_cases hen : (entersOpen s.q a && s.established.isNone) = true
        · have hne : nextEst s a = some (!s.q.closed) := by simp only [nextEst, hen, if_true]
          simp only [Bool.and_eq_true] at hen
          obtain ⟨hen1, hen2⟩ := hen
          have hnone : s.established = none := by
            cases hq' : s.established with
            | none => rfl
            | some _ => simp [hq'] at hen2
          -- the upgrade job is entered: it was accepted, hence `upgraded`
          have hup : s.upgraded = true := by
            cases a with
            | start d =>
              simp only [entersOpen] at hen1
              split at hen1
              · rename_i x hx
                simp only [Bool.and_eq_true, beq_iff_eq] at hen1
                have hmem := ready_job_accepted h0 hx hen1.1
                rw [hen1.2, h2] at hmem
                cases hu : s.upgraded with
                | true => rfl
                | false =>
                  rw [expected_nil_of_not_upgraded hall hu] at hmem
                  cases hmem
              · cases hen1
            | _ => simp [entersOpen] at hen1
          have hw0 : s.wireMsgs = 0 := h8 (by rw [hnone]; simp)
          refine ⟨hjq, ?_, ?_, ?_, h5, h6, ?_, ?_, ?_⟩
          · show q'.acc = expected s
            rw [a1, h2]
          · intro hn; show q'.closed = true; rw [a2]; exact h3 hn
          · intro hc; exact h4 (by rw [← a2]; exact hc)
          · intro _; exact hup
          · intro _; exact hw0
          · intro hf
            show q'.closed = true
            have hf' : nextEst s a = some false := hf
            rw [hne] at hf'
            rw [a2]
            cases hcl : s.q.closed with
            | true => rfl
            | false => simp [hcl] at hf'
        · have hne : nextEst s a = s.established := by simp only [nextEst, hen, Bool.false_eq_true, if_false]
          refine ⟨hjq, ?_, ?_, ?_, h5, h6, ?_, ?_, ?_⟩
          · show q'.acc = expected s
            rw [a1, h2]
          · intro hn; show q'.closed = true; rw [a2]; exact h3 hn
          · intro hc; exact h4 (by rw [← a2]; exact hc)
          · intro he; exact h7 (by rw [← hne]; exact he)
          · intro he; exact h8 (by rw [← hne]; exact he)
          · intro hf; show q'.closed = true; rw [a2]; exact h9 (by rw [← hne]; exact hf)

theorem inv_run {s : St} (as : List Act) (h : Inv s) : Inv (run s as) := by
  induction as generalizing s with
  | nil => exact h
  | cons a as ih =>
    simp only [run]
    split
    · rename_i s' hs; exact ih (inv_step h hs)
    · exact ih h

theorem expected_nodup (s : St) : (expected s).Nodup := by
  unfold expected
  have hm : ((List.range s.accMsgs).map jobMsg).Nodup := by
    induction s.accMsgs with
    | zero => simp
    | succ n ih =>
      rw [List.range_succ, List.map_append, List.nodup_append]
      refine ⟨ih, by simp, ?_⟩
      intro a ha b hb
      simp only [List.mem_map, List.mem_range] at ha
      obtain ⟨k, hk, rfl⟩ := ha
      simp at hb; subst hb
      simp [jobMsg]; omega
  rw [List.nodup_append, List.nodup_append]
  refine ⟨⟨?_, hm, ?_⟩, ?_, ?_⟩
  · split <;> simp
  · intro a ha b hb
    split at ha
    · simp at ha; subst ha
      simp only [List.mem_map, List.mem_range] at hb
      obtain ⟨k, _, rfl⟩ := hb
      simp [jobOpen, jobMsg]
    · simp at ha
  · split <;> simp
  · intro a ha b hb
    split at hb
    · simp at hb; subst hb
      rcases List.mem_append.mp ha with ha | ha
      · split at ha
        · simp at ha; subst ha; simp [jobOpen, jobClose]
        · simp at ha
      · simp only [List.mem_map, List.mem_range] at ha
        obtain ⟨k, _, rfl⟩ := ha
        simp [jobMsg, jobClose]
    · simp at hb

end WsCb
