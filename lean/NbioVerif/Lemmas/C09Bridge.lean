import NbioVerif.Lemmas.C09Main
import NbioVerif.Lemmas.C09Choice
/-! Bridge between the functions the C09 theorems are stated about (`runB` from the state
`checkChunked (writeHeader200 (start hdr sc st))`) and the function the driver `respdrv` executes
(`step`, op by op, from the empty response `{}` = `run g {}`; then `finish`). -/
namespace Resp

/-- a write never reports a panic (only ReadFrom can) -/
def NoPanic (w : WRes) : Prop := w ≠ .panic ∧ ∀ n, w ≠ .errCopy n

theorem chunkTail_np (g : Cfg) (r : R) (nb data : Bytes) : NoPanic (chunkTail g r nb data).2 := by
  unfold chunkTail; dsimp only; repeat' split
  all_goals exact ⟨(by intro h; cases h), (by intro n h; cases h)⟩

theorem writeChunk_np (g : Cfg) (r : R) (data : Bytes) : NoPanic (writeChunk g r data).2 := by
  unfold writeChunk; dsimp only; repeat' split
  all_goals first | apply chunkTail_np | exact ⟨(by intro h; cases h), (by intro n h; cases h)⟩

theorem sendDirect_np (g : Cfg) (r : R) (data : Bytes) : NoPanic (sendDirect g r data).2 := by
  unfold sendDirect; dsimp only; repeat' split
  all_goals exact ⟨(by intro h; cases h), (by intro n h; cases h)⟩

theorem appendTail_np (g : Cfg) (r : R) (bb data : Bytes) (cl : Nat) : NoPanic (appendTail g r bb data cl).2 := by
  unfold appendTail; dsimp only; repeat' split
  all_goals exact ⟨(by intro h; cases h), (by intro n h; cases h)⟩

theorem appendBody_np (g : Cfg) (r : R) (data : Bytes) (cl : Nat) : NoPanic (appendBody g r data cl).2 := by
  unfold appendBody; dsimp only; repeat' split
  all_goals first | apply sendDirect_np | apply appendTail_np | exact ⟨(by intro h; cases h), (by intro n h; cases h)⟩

theorem write_np (g : Cfg) (r : R) (data : Bytes) : (write g r data).2 ≠ .panic := by
  have : NoPanic (write g r data).2 := by
    unfold write writeBody writeIdent; dsimp only; repeat' split
    all_goals first | apply writeChunk_np | apply appendBody_np | exact ⟨(by intro h; cases h), (by intro n h; cases h)⟩
  exact this.1

theorem writeBody_plain (g : Cfg) (r : R) (data : Bytes) : NoPanic (writeBody g r data).2 := by
  unfold writeBody writeIdent; repeat' split
  all_goals first | apply writeChunk_np | apply appendBody_np | exact ⟨(by intro h; cases h), (by intro n h; cases h)⟩

/-! ### the prelude `WriteHeader(200); checkChunked()` is idempotent, and Write (of a non-empty payload),
Flush and flushResponse begin with it -/

theorem writeHeader_sc_ne (r : R) (c : Nat) (st : Bytes) (h : r.statusCode ≠ 0) : writeHeader r c st = r := by
  unfold writeHeader; simp [h]

theorem writeHeader200_sc_ne (r : R) : (writeHeader200 r).statusCode ≠ 0 := by
  unfold writeHeader200 writeHeader
  dsimp only
  repeat' split
  all_goals simp_all

theorem checkChunked_sc_eq (g : Cfg) (r : R) : (checkChunked g r).statusCode = r.statusCode := by
  unfold checkChunked; dsimp only; repeat' split
  all_goals rfl

theorem checkChunked_checked (g : Cfg) (r : R) : (checkChunked g r).chunkChecked = true := by
  unfold checkChunked; dsimp only; repeat' split
  all_goals first | rfl | assumption

theorem checkChunked_idem (g : Cfg) (r : R) : checkChunked g (checkChunked g r) = checkChunked g r := by
  have := checkChunked_checked g r
  generalize checkChunked g r = x at *
  unfold checkChunked; simp [this]

/-- the prelude -/
def prelude (g : Cfg) (r : R) : R := checkChunked g (writeHeader200 r)

theorem prelude_idem (g : Cfg) (r : R) : prelude g (prelude g r) = prelude g r := by
  unfold prelude
  have h1 : writeHeader200 (checkChunked g (writeHeader200 r)) = checkChunked g (writeHeader200 r) := by
    unfold writeHeader200
    exact writeHeader_sc_ne _ _ _ (by rw [checkChunked_sc_eq]; exact writeHeader200_sc_ne r)
  rw [h1, checkChunked_idem]

theorem write_prelude (g : Cfg) (r : R) (d : Bytes) (hd : d ≠ []) : write g (prelude g r) d = write g r d := by
  have hl : (d.length == 0) = false := by
    cases d with
    | nil => exact absurd rfl hd
    | cons a t => rfl
  unfold write
  rw [hl]
  simp only [Bool.false_eq_true, ↓reduceIte]
  have := prelude_idem g r
  unfold prelude at this ⊢
  rw [this]

theorem flushOp_prelude (g : Cfg) (r : R) : flushOp g (prelude g r) = flushOp g r := by
  unfold flushOp
  have := prelude_idem g r
  unfold prelude at this ⊢
  rw [this]

theorem finish_prelude (g : Cfg) (r : R) : finish g (prelude g r) = finish g r := by
  unfold finish
  have := prelude_idem g r
  unfold prelude at this ⊢
  rw [this]

/-! ### header phase -/

/-- operations of the header phase: header changes, WriteHeader, and zero-length writes (Write returns
before doing anything) -/
def Op.headerPhase : Op → Bool
  | .setHeader .. | .addHeader .. | .delHeader .. | .writeHeader .. => true
  | .write d => d.isEmpty
  | _ => false

/-- nothing but the header map and the status has been touched -/
def HeaderOnly (r : R) : Prop := r = start r.header r.statusCode r.status

theorem writeHeader_headerOnly (r : R) (c : Nat) (st : Bytes) (h : HeaderOnly r) : HeaderOnly (writeHeader r c st) := by
  unfold HeaderOnly start at *
  unfold writeHeader
  dsimp only
  repeat' split
  all_goals (first | exact h | (rw [h]))

theorem step_headerPhase (g : Cfg) (r : R) (op : Op) (hop : op.headerPhase = true) (h : HeaderOnly r) :
    HeaderOnly (step g r op).1 ∧ (step g r op).2 ≠ some .panic := by
  cases op with
  | setHeader k v => exact ⟨by unfold HeaderOnly start at *; simp only [step]; rw [h], by simp [step]⟩
  | addHeader k v => exact ⟨by unfold HeaderOnly start at *; simp only [step]; rw [h], by simp [step]⟩
  | delHeader k => exact ⟨by unfold HeaderOnly start at *; simp only [step]; rw [h], by simp [step]⟩
  | writeHeader c st => exact ⟨writeHeader_headerOnly r c st h, by simp [step]⟩
  | write d =>
    have hd : d = [] := by simpa [Op.headerPhase] using hop
    subst hd
    exact ⟨by simpa [step, write] using h, by simp [step, write]⟩
  | flush => cases hop
  | readFrom k d => cases hop

theorem run_cons (g : Cfg) (r : R) (op : Op) (ops : List Op) (h : (step g r op).2 ≠ some .panic) :
    (run g r (op :: ops)).1 = (run g (step g r op).1 ops).1 := by
  simp only [run]
  generalize step g r op = p at *
  obtain ⟨r', o⟩ := p
  have : (o == some WRes.panic) = false := by simpa using h
  simp [this]

theorem run_pre (g : Cfg) (pre rest : List Op) (r : R) (hpre : ∀ op ∈ pre, op.headerPhase = true) (h : HeaderOnly r) :
    HeaderOnly (run g r pre).1 ∧ (run g r (pre ++ rest)).1 = (run g (run g r pre).1 rest).1 := by
  induction pre generalizing r with
  | nil => exact ⟨by simpa [run] using h, by simp [run]⟩
  | cons op t ih =>
    obtain ⟨h1, h2⟩ := step_headerPhase g r op (hpre op (List.mem_cons_self ..)) h
    obtain ⟨i1, i2⟩ := ih (step g r op).1 (fun o ho => hpre o (List.mem_cons_of_mem _ ho)) h1
    rw [run_cons g r op t h2]
    refine ⟨i1, ?_⟩
    rw [List.cons_append, run_cons g r op _ h2, i2]

/-! ### body phase -/

theorem runB_run (g : Cfg) (bops : List BOp) (r : R) : (run g r (bops.map BOp.toOp)).1 = (runB g r bops).1 := by
  induction bops generalizing r with
  | nil => rfl
  | cons op t ih =>
    cases op with
    | write d =>
      have hnp : (step g r (BOp.write d).toOp).2 ≠ some .panic := by
        simp only [BOp.toOp, step]
        intro hc
        exact write_np g r d (by simpa using hc)
      rw [List.map_cons, run_cons g r _ _ hnp, ih]
      simp only [BOp.toOp, step, runB]
    | flush => rw [List.map_cons, run_cons g r _ _ (by simp [BOp.toOp, step]), ih]; simp only [runB]
    | setH k v => rw [List.map_cons, run_cons g r _ _ (by simp [BOp.toOp, step]), ih]; simp only [runB]
    | addH k v => rw [List.map_cons, run_cons g r _ _ (by simp [BOp.toOp, step]), ih]; simp only [runB]
    | delH k => rw [List.map_cons, run_cons g r _ _ (by simp [BOp.toOp, step]), ih]; simp only [runB]

/-- the body phase begins with an operation that runs the prelude itself (or is empty: flushResponse
runs it) -/
def bodyStart : List BOp → Prop
  | [] => True
  | .flush :: _ => True
  | .write d :: _ => d ≠ []
  | _ => False

theorem runB_prelude (g : Cfg) (bops : List BOp) (r : R) (hb : bodyStart bops) :
    finish g (runB g (prelude g r) bops).1 = finish g (runB g r bops).1 := by
  cases bops with
  | nil => simp only [runB]; exact finish_prelude g r
  | cons op t =>
    cases op with
    | write d => simp only [runB]; rw [write_prelude g r d hb]
    | flush => simp only [runB, BOp.toOp, step]; rw [flushOp_prelude]
    | setH k v => cases hb
    | addH k v => cases hb
    | delH k => cases hb

/-- **the driver's function and the theorems' function coincide.** `respdrv` executes `step` op by op from
the empty response and then `finish`, i.e. `finish (run g {} prog)`.  For a program = header phase ++ body
phase, that is `finish` of `runB` from the theorems' start state built from the header map and status the
header phase left. -/
theorem run_bridge (g : Cfg) (pre : List Op) (hpre : ∀ op ∈ pre, op.headerPhase = true)
    (bops : List BOp) (hb : bodyStart bops) :
    finish g (run g {} (pre ++ bops.map BOp.toOp)).1 =
      finish g (runB g (checkChunked g (writeHeader200
        (start (run g {} pre).1.header (run g {} pre).1.statusCode (run g {} pre).1.status))) bops).1 := by
  obtain ⟨h1, h2⟩ := run_pre g pre (bops.map BOp.toOp) {} hpre rfl
  rw [h2, runB_run]
  have := runB_prelude g bops (run g {} pre).1 hb
  unfold prelude at this
  rw [← this]
  unfold HeaderOnly at h1
  rw [← h1]

/-! ### results, and a ReadFrom after the body phase -/

theorem run_cons_res (g : Cfg) (r : R) (op : Op) (ops : List Op) (h : (step g r op).2 ≠ some .panic) :
    (run g r (op :: ops)).2 = (step g r op).2 :: (run g (step g r op).1 ops).2 := by
  simp only [run]
  generalize step g r op = p at *
  obtain ⟨r', o⟩ := p
  have : (o == some WRes.panic) = false := by simpa using h
  simp [this]

/-- the payloads of the writes whose result (as the driver prints it: `n=`/`err=`) is a success -/
def acceptedOf : List BOp → List (Option WRes) → List Bytes
  | .write d :: ops, some (.ok _) :: rs => d :: acceptedOf ops rs
  | _ :: ops, _ :: rs => acceptedOf ops rs
  | _, _ => []

/-- `accepted` of the theorems is read off the results the driver prints and compares -/
theorem runB_results (g : Cfg) (bops : List BOp) (r : R) :
    (runB g r bops).2 = acceptedOf bops (run g r (bops.map BOp.toOp)).2 := by
  induction bops generalizing r with
  | nil => rfl
  | cons op t ih =>
    cases op with
    | write d =>
      have hnp : (step g r (BOp.write d).toOp).2 ≠ some .panic := by
        simp only [BOp.toOp, step]
        intro hc
        exact write_np g r d (by simpa using hc)
      rw [List.map_cons, run_cons_res g r _ _ hnp]
      simp only [BOp.toOp, step, runB]
      have hnp' := write_np g r d
      generalize write g r d = p at *
      obtain ⟨r', w⟩ := p
      dsimp only at hnp' ⊢
      rw [ih r']
      cases w <;> simp [acceptedOf]
    | flush => rw [List.map_cons, run_cons_res g r _ _ (by simp [BOp.toOp, step])]; simp only [runB, BOp.toOp, step, acceptedOf]; exact ih _
    | setH k v => rw [List.map_cons, run_cons_res g r _ _ (by simp [BOp.toOp, step])]; simp only [runB, BOp.toOp, step, acceptedOf]; exact ih _
    | addH k v => rw [List.map_cons, run_cons_res g r _ _ (by simp [BOp.toOp, step])]; simp only [runB, BOp.toOp, step, acceptedOf]; exact ih _
    | delH k => rw [List.map_cons, run_cons_res g r _ _ (by simp [BOp.toOp, step])]; simp only [runB, BOp.toOp, step, acceptedOf]; exact ih _

/-- the results of the header phase come first and are all `none` or `ok 0`; then those of the rest -/
theorem run_pre_res (g : Cfg) (pre rest : List Op) (r : R) (hpre : ∀ op ∈ pre, op.headerPhase = true) (h : HeaderOnly r) :
    (run g r (pre ++ rest)).2 = (run g r pre).2 ++ (run g (run g r pre).1 rest).2 ∧ (run g r pre).2.length = pre.length := by
  induction pre generalizing r with
  | nil => simp [run]
  | cons op t ih =>
    obtain ⟨h1, h2⟩ := step_headerPhase g r op (hpre op (List.mem_cons_self ..)) h
    obtain ⟨i1, i2⟩ := ih (step g r op).1 (fun o ho => hpre o (List.mem_cons_of_mem _ ho)) h1
    rw [List.cons_append, run_cons_res g r op _ h2, run_cons_res g r op t h2, run_cons g r op t h2, i1]
    exact ⟨by simp, by simp [i2]⟩

theorem run_body_append (g : Cfg) (bops : List BOp) (rest : List Op) (r : R) :
    (run g r (bops.map BOp.toOp ++ rest)).1 = (run g (runB g r bops).1 rest).1 := by
  induction bops generalizing r with
  | nil => rfl
  | cons op t ih =>
    cases op with
    | write d =>
      have hnp : (step g r (BOp.write d).toOp).2 ≠ some .panic := by
        simp only [BOp.toOp, step]
        intro hc
        exact write_np g r d (by simpa using hc)
      rw [List.map_cons, List.cons_append, run_cons g r _ _ hnp, ih]
      simp only [BOp.toOp, step, runB]
    | flush => rw [List.map_cons, List.cons_append, run_cons g r _ _ (by simp [BOp.toOp, step]), ih]; simp only [runB]
    | setH k v => rw [List.map_cons, List.cons_append, run_cons g r _ _ (by simp [BOp.toOp, step]), ih]; simp only [runB]
    | addH k v => rw [List.map_cons, List.cons_append, run_cons g r _ _ (by simp [BOp.toOp, step]), ih]; simp only [runB]
    | delH k => rw [List.map_cons, List.cons_append, run_cons g r _ _ (by simp [BOp.toOp, step]), ih]; simp only [runB]

theorem run_single (g : Cfg) (r : R) (op : Op) : (run g r [op]).1 = (step g r op).1 := by
  simp only [run]
  generalize step g r op = p
  obtain ⟨r', o⟩ := p
  dsimp only
  split <;> rfl

/-- a non-empty body phase runs the prelude itself -/
theorem runB_prelude_ne (g : Cfg) (bops : List BOp) (r : R) (hne : bops ≠ []) (hb : bodyStart bops) :
    runB g (prelude g r) bops = runB g r bops := by
  cases bops with
  | nil => exact absurd rfl hne
  | cons op t =>
    cases op with
    | write d => simp only [runB]; rw [write_prelude g r d hb]
    | flush => simp only [runB, BOp.toOp, step]; rw [flushOp_prelude]
    | setH k v => cases hb
    | addH k v => cases hb
    | delH k => cases hb

/-- **bridge for programs `header phase ++ non-empty body phase ++ [ReadFrom]`**: the state the driver reaches after the
ReadFrom is `readFrom` applied to the theorems' end state -/
theorem run_bridge_readFrom (g : Cfg) (pre : List Op) (hpre : ∀ op ∈ pre, op.headerPhase = true)
    (bops : List BOp) (hne : bops ≠ []) (hb : bodyStart bops) (k : RKind) (data : Bytes) :
    (run g {} (pre ++ (bops.map BOp.toOp ++ [.readFrom k data]))).1 =
      (readFrom g (runB g (checkChunked g (writeHeader200
        (start (run g {} pre).1.header (run g {} pre).1.statusCode (run g {} pre).1.status))) bops).1 k data).1 := by
  obtain ⟨h1, h2⟩ := run_pre g pre (bops.map BOp.toOp ++ [.readFrom k data]) {} hpre rfl
  rw [h2, run_body_append, run_single]
  have := runB_prelude_ne g bops (run g {} pre).1 hne hb
  unfold prelude at this
  unfold HeaderOnly at h1
  rw [← h1, this]
  simp only [step]

end Resp
