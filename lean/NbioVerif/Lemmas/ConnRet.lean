import NbioVerif.Lemmas.ConnArm
/-! ConnFull: what the return values of Write / Writev / Sendfile say about the accepted bytes -/
namespace ConnFull

/-- what a call did to the ghost `accepted`, the wire and the closed flag -/
structure Eff (s t : S) (acc sent : Bytes) : Prop where
  acc : t.accepted = s.accepted ++ acc
  wire : t.wire = s.wire ++ sent

theorem finishCall_eff (g : Cfg) (r : S × Ret) :
    (finishCall g r).2 = r.2 ∧ (finishCall g r).1.accepted = r.1.accepted ∧ (finishCall g r).1.wire = r.1.wire ∧
    (r.2.err ≠ .none → (finishCall g r).1.closed = true) ∧
    (r.2.err = .none → (finishCall g r).1.closed = r.1.closed) := by
  unfold finishCall
  split
  · rename_i he
    simp only
    split
    · simp [he, stopTimer]
    · have hD := D_cModWrite g r.1
      simp only [D, Prod.mk.injEq] at hD
      obtain ⟨d1, _, _, _, d5, d6⟩ := hD
      simp [he, d1, d5, d6]
  · rename_i he
    simp [flip, he]

/-- c.write: either the whole input is accepted (a prefix of it goes out directly) or nothing happens -/
theorem writeInner_ret (g : Cfg) (s : S) (b : Bytes) (k : KAns) (hp : AllPos s.wl) :
    ((writeInner g s b k).2.err = .none →
      (writeInner g s b k).2.n = b.length ∧ (writeInner g s b k).1.closed = s.closed ∧
      ∃ sent, sent <+: b ∧ Eff s (writeInner g s b k).1 b sent) ∧
    ((writeInner g s b k).2.err ≠ .none → (writeInner g s b k).1 = s) := by
  unfold writeInner
  split
  · rename_i hb
    have : b = [] := List.length_eq_zero_iff.mp hb
    subst this
    exact ⟨fun _ => ⟨rfl, rfl, [], List.prefix_refl _, ⟨by simp, by simp⟩⟩, fun h => absurd rfl h⟩
  split
  · exact ⟨fun h => absurd h (by simp), fun _ => rfl⟩
  split
  · split
    · exact ⟨fun h => absurd h (by simp), fun _ => rfl⟩
    · simp only
      split
      · have h := enq_enqueue g { s with wire := s.wire ++ b.take (kN k b.length), accepted := s.accepted ++ b } (b.drop (kN k b.length)) hp
        exact ⟨fun _ => ⟨rfl, h.closed, b.take (kN k b.length), List.take_prefix _ _, ⟨h.acc, h.wire⟩⟩, fun h => absurd rfl h⟩
      · exact ⟨fun _ => ⟨rfl, rfl, b.take (kN k b.length), List.take_prefix _ _, ⟨rfl, rfl⟩⟩, fun h => absurd rfl h⟩
  · have h := enq_enqueue g { s with accepted := s.accepted ++ b } b hp
    exact ⟨fun _ => ⟨rfl, h.closed, [], List.nil_prefix, ⟨h.acc, by simpa using h.wire⟩⟩, fun h => absurd rfl h⟩

theorem writevInner_ret (g : Cfg) (s : S) (bs : List Bytes) (k : KAns) (hp : AllPos s.wl) :
    ((writevInner g s bs k).2.err = .none →
      (writevInner g s bs k).2.n = total bs ∧ (writevInner g s bs k).1.closed = s.closed ∧
      ∃ sent, sent <+: bs.flatten ∧ Eff s (writevInner g s bs k).1 bs.flatten sent) ∧
    ((writevInner g s bs k).2.err ≠ .none → (writevInner g s bs k).1 = s) := by
  unfold writevInner
  simp only
  split
  · exact ⟨fun h => absurd h (by simp), fun _ => rfl⟩
  split
  · have h := enq_foldl g bs { s with accepted := s.accepted ++ bs.flatten } hp
    exact ⟨fun _ => ⟨rfl, h.closed, [], List.nil_prefix, ⟨h.acc, by simpa using h.wire⟩⟩, fun h => absurd rfl h⟩
  split
  · rename_i h0
    have hf : bs.flatten = [] := by
      apply List.length_eq_zero_iff.mp; rw [flatten_length_total]; exact h0
    exact ⟨fun _ => ⟨by simp [h0], rfl, [], List.nil_prefix, ⟨by simp [hf], by simp⟩⟩, fun h => absurd rfl h⟩
  split
  · exact ⟨fun h => absurd h (by simp), fun _ => rfl⟩
  split
  · have h := enq_queueRest g bs { s with wire := s.wire ++ bs.flatten.take (kN k (total bs)), accepted := s.accepted ++ bs.flatten } (kN k (total bs)) hp
    exact ⟨fun _ => ⟨rfl, h.closed, bs.flatten.take (kN k (total bs)), List.take_prefix _ _, ⟨h.acc, h.wire⟩⟩, fun h => absurd rfl h⟩
  · rename_i hge
    have hk : kN k (total bs) = total bs := by have := kN_le k (total bs); omega
    exact ⟨fun _ => ⟨by simp [hk], rfl, bs.flatten.take (kN k (total bs)), List.take_prefix _ _, ⟨rfl, rfl⟩⟩, fun h => absurd rfl h⟩

/-- the dispatch of Conn.Writev: one buffer goes through c.write, anything else through c.writev -/
def writevCore (g : Cfg) (s : S) (bs : List Bytes) (k : KAns) : S × Ret :=
  match bs with
  | [b] => writeInner g s b k
  | _ => writevInner g s bs k

theorem writev_eq (g : Cfg) (s : S) (bs : List Bytes) (k : KAns) :
    writev g s bs k = if s.hung then (s, ⟨0, .none⟩) else if s.closed then (s, ⟨0, .closed⟩)
      else finishCall g (writevCore g s bs k) := by
  unfold writev writevCore
  split
  · rfl
  split
  · rfl
  · cases bs with
    | nil => rfl
    | cons b tl => cases tl <;> rfl

theorem writevCore_ret (g : Cfg) (s : S) (bs : List Bytes) (k : KAns) (hp : AllPos s.wl) :
    ((writevCore g s bs k).2.err = .none →
      (writevCore g s bs k).2.n = total bs ∧ (writevCore g s bs k).1.closed = s.closed ∧
      ∃ sent, sent <+: bs.flatten ∧ Eff s (writevCore g s bs k).1 bs.flatten sent) ∧
    ((writevCore g s bs k).2.err ≠ .none → (writevCore g s bs k).1 = s) := by
  unfold writevCore
  split
  · rename_i b
    have h := writeInner_ret g s b k hp
    simpa [total] using h
  · exact writevInner_ret g s bs k hp

/-- well-formed kernel answers: a non-empty request is never answered "0 bytes, no error" -/
def KWF (ks : List KAns) : Prop := ∀ k ∈ ks, k ≠ .wrote 0

instance (ks : List KAns) : Decidable (KWF ks) := by unfold KWF; infer_instance

theorem Eff.trans {s t u : S} {a1 w1 a2 w2 : Bytes} (h1 : Eff s t a1 w1) (h2 : Eff t u a2 w2) :
    Eff s u (a1 ++ a2) (w1 ++ w2) :=
  ⟨by rw [h2.acc, h1.acc, List.append_assoc], by rw [h2.wire, h1.wire, List.append_assoc]⟩

theorem eff_queueFile (g : Cfg) (s : S) (off rem : Nat) :
    Eff s (cModWrite g (enqueueFile { s with accepted := s.accepted ++ fileRange g off rem } off rem))
      (fileRange g off rem) [] ∧
    (cModWrite g (enqueueFile { s with accepted := s.accepted ++ fileRange g off rem } off rem)).closed = s.closed := by
  have hD := D_cModWrite g (enqueueFile { s with accepted := s.accepted ++ fileRange g off rem } off rem)
  simp only [D, Prod.mk.injEq] at hD
  obtain ⟨d1, _, _, _, d5, d6⟩ := hD
  exact ⟨⟨by rw [d6]; rfl, by rw [d5]; simp [enqueueFile, pushItem]⟩, by rw [d1]; rfl⟩

theorem sendfileLoop_ret (g : Cfg) (ks : List KAns) : ∀ (s : S) (off rem : Nat),
    ((sendfileLoop g s off rem ks).2 = false → KWF ks →
      (sendfileLoop g s off rem ks).1.closed = s.closed ∧
      ∃ sent, sent <+: fileRange g off rem ∧ Eff s (sendfileLoop g s off rem ks).1 (fileRange g off rem) sent) ∧
    ((sendfileLoop g s off rem ks).2 = true →
      (sendfileLoop g s off rem ks).1.closed = true ∧
      ∃ p, p <+: fileRange g off rem ∧ Eff s (sendfileLoop g s off rem ks).1 p p) := by
  induction ks with
  | nil =>
    intro s off rem
    unfold sendfileLoop
    split
    · rename_i h0
      subst h0
      exact ⟨fun _ _ => ⟨rfl, [], List.nil_prefix, ⟨by simp [fileRange_zero], by simp⟩⟩, fun h => by simp at h⟩
    · have h := eff_queueFile g s off rem
      exact ⟨fun _ _ => ⟨h.2, [], List.nil_prefix, h.1⟩, fun h => by simp at h⟩
  | cons k ks ih =>
    intro s off rem
    unfold sendfileLoop
    split
    · rename_i h0
      subst h0
      exact ⟨fun _ _ => ⟨rfl, [], List.nil_prefix, ⟨by simp [fileRange_zero], by simp⟩⟩, fun h => by simp at h⟩
    rename_i hr
    split
    · have h := eff_queueFile g s off rem
      exact ⟨fun _ _ => ⟨h.2, [], List.nil_prefix, h.1⟩, fun h => by simp at h⟩
    · have h := ih s off rem
      exact ⟨fun h1 h2 => h.1 h1 (fun k hk => h2 k (List.mem_cons_of_mem _ hk)), h.2⟩
    · exact ⟨fun h => by simp at h, fun _ => ⟨rfl, [], List.nil_prefix, ⟨by simp [closeNow], by simp [closeNow]⟩⟩⟩
    · rename_i n0
      simp only
      split
      · rename_i hn
        refine ⟨fun _ hwf => ?_, fun h => by simp at h⟩
        have : n0 ≠ 0 := fun h => hwf (.wrote n0) (by simp) (by rw [h])
        simp [maxSendfile] at hn
        omega
      · rename_i hn
        generalize hnn : min n0 (min maxSendfile rem) = n at *
        have hnle : n ≤ rem := by subst hnn; exact Nat.le_trans (Nat.min_le_right _ _) (Nat.min_le_right _ _)
        have hsp := fileRange_split g off n rem hnle
        have h := ih { s with wire := s.wire ++ fileRange g off n, accepted := s.accepted ++ fileRange g off n } (off + n) (rem - n)
        have e0 : Eff s { s with wire := s.wire ++ fileRange g off n, accepted := s.accepted ++ fileRange g off n }
            (fileRange g off n) (fileRange g off n) := ⟨rfl, rfl⟩
        constructor
        · intro h1 h2
          obtain ⟨hc, sent, hp, he⟩ := h.1 h1 (fun k hk => h2 k (List.mem_cons_of_mem _ hk))
          refine ⟨hc, fileRange g off n ++ sent, ?_, ?_⟩
          · rw [hsp]; exact (List.prefix_append_right_inj _).mpr hp
          · rw [hsp]; exact e0.trans he
        · intro h1
          obtain ⟨hc, p, hp, he⟩ := h.2 h1
          refine ⟨hc, fileRange g off n ++ p, ?_, e0.trans he⟩
          rw [hsp]; exact (List.prefix_append_right_inj _).mpr hp

end ConnFull
