import NbioVerif.Lemmas.AllocAll
/-! Byte-level content of the buffers returned by `Append` and `Realloc`; absence of panics. -/
namespace Alloc

/-- what the client sees through handle `y` -/
def content (s : St) (y : Handle) : Bytes := (s.region y.rid).bytes.take y.len

/-! ### ghost updates do not touch bytes -/

theorem region_modify_ge (s : St) (rid : Nat) (f : Region → Region) (h : s.regions.length ≤ rid) (r : Nat) :
    (s.modify rid f).region r = s.region r := by
  simp [St.region, St.modify, List.set_eq_of_length_le h]

theorem bytes_own (s : St) (rid : Nat) (o : Owner) (r : Nat) : ((s.own rid o).region r).bytes = (s.region r).bytes := by
  by_cases h1 : r = rid
  · subst h1
    by_cases h2 : r < s.regions.length
    · rw [region_own_self s r o h2]
    · exact congrArg Region.bytes (region_modify_ge s r _ (by omega) r)
  · rw [region_own_other s rid r o h1]

theorem bytes_poolPut (s : St) (cls tag rid r : Nat) : ((poolPut s cls tag rid).region r).bytes = (s.region r).bytes :=
  bytes_own s rid _ r

theorem bytes_mpFree (g : Cfg) (s : St) (x : Handle) (tag r : Nat) : ((mpFree g s x tag).region r).bytes = (s.region r).bytes := by
  simp only [mpFree]; split
  · exact bytes_poolPut s 0 tag x.rid r
  · rfl

theorem bytes_alFree (s : St) (x : Handle) (tag r : Nat) : ((alFree s x tag).region r).bytes = (s.region r).bytes := by
  simp only [alFree]; split
  · rfl
  · exact bytes_poolPut s _ tag x.rid r

theorem read_bind_self (s : St) (h : Nat) (y : Handle) : (s.bind h y).read h = some (content s y) := by
  simp only [St.read, lookup_bind_self, Option.map_some, content]
  have : ((s.bind h y).region y.rid).bytes = (s.region y.rid).bytes := bytes_own s y.rid _ y.rid
  rw [this]

theorem content_length {g : Cfg} {h : Nat} {s0 s : St} {y : Handle} (ok : OpOK g h s0 s y) :
    (content s y).length = y.len := by
  have := ok.inv.regs y.rid ok.yscr.1
  have := ok.ylen
  simp [content]; omega

theorem content_length_live {g : Cfg} {s : St} (hi : Inv g s) {h : Nat} {x : Handle} (hx : s.lookup h = some x) :
    (content s x).length = x.len := by
  obtain ⟨h1, _, h3⟩ := hi.live h x (by simp) hx
  have := hi.regs x.rid h1
  simp [content]; omega

/-! ### list facts -/

theorem take_overwrite (b d : Bytes) (off : Nat) (h : off + d.length ≤ b.length) :
    (overwrite b off d).take (off + d.length) = b.take off ++ d := by
  have h1 : (b.take off ++ d).length = off + d.length := by simp; omega
  simp only [overwrite]
  exact List.take_left' h1

theorem take_take_le (b : Bytes) (m n : Nat) (h : m ≤ n) : (b.take n).take m = b.take m := by
  rw [List.take_take, Nat.min_eq_left h]

theorem take_alloc (i : Bytes) (c n : Nat) (h1 : n ≤ i.length) (h2 : n ≤ c) :
    ((i ++ zeros c).take c).take n = i.take n := by
  rw [take_take_le _ _ _ h2, List.take_append_of_le_length h1]

theorem bytes_write_self (s : St) (rid off : Nat) (d : Bytes) (h : rid < s.regions.length) :
    ((s.write rid off d).region rid).bytes = overwrite (s.region rid).bytes off d := by
  have : (s.write rid off d).region rid = { s.region rid with bytes := overwrite (s.region rid).bytes off d } :=
    region_modify_self s rid _ h
  rw [this]

theorem bytes_alloc_new (s : St) (c : Nat) (i : Bytes) :
    ((s.alloc c i).1.region (s.alloc c i).2).bytes = (i ++ zeros c).take c := by
  rw [alloc_rid, region_alloc_new]

/-! ### Go append -/

theorem goAppend_content (g : Cfg) (h : Nat) (s s' : St) (rid rid' keep grow : Nat) (more : Bytes)
    (hi : InvX g (some h) s) (hs : scratch h s rid) (hkeep : keep ≤ (s.region rid).cap)
    (hg : goAppend s rid keep more grow = .ok (s', rid')) :
    (s'.region rid').bytes.take (keep + more.length) = (s.region rid).bytes.take keep ++ more := by
  have hlen := hi.regs rid hs.1
  simp only [goAppend] at hg
  split at hg
  · rename_i hfit
    obtain ⟨rfl, rfl⟩ := Prod.mk.inj (Except.ok.inj hg)
    rw [bytes_write_self s rid keep more hs.1]
    exact take_overwrite _ _ _ (by omega)
  · split at hg
    · cases hg
    · rename_i hgrow
      have e := Except.ok.inj hg
      have e1 := congrArg Prod.fst e
      have e2 := congrArg Prod.snd e
      simp only at e1 e2
      subst e1 e2
      rw [bytes_alloc_new]
      have h1 : ((s.region rid).bytes.take keep).length = keep := by simp; omega
      rw [take_alloc _ _ _ (by simp [h1]) (by omega)]
      rw [List.take_of_length_le (by simp [h1])]

/-! ### Append -/

theorem mpAppend_content (g : Cfg) (h : Nat) (s s' : St) (x y : Handle) (more : Bytes) (grow : Nat)
    (hi : Inv g s) (hx : s.lookup h = some x) (hg : mpAppend s x more grow = .ok (s', y)) :
    content s' y = content s x ++ more := by
  obtain ⟨hxs, hxl, _⟩ := live_facts hi hx
  simp only [mpAppend] at hg
  cases hga : goAppend s x.rid x.len more grow with
  | error e => rw [hga] at hg; cases hg
  | ok p =>
    obtain ⟨s1, rid⟩ := p
    rw [hga] at hg
    simp only at hg
    obtain ⟨rfl, rfl⟩ := Prod.mk.inj (Except.ok.inj hg)
    exact goAppend_content g h s s1 x.rid rid x.len grow more (hi.exempt h) hxs hxl hga

theorem alAppend_content (g : Cfg) (h : Nat) (s s' : St) (x y : Handle) (more : Bytes) (tag : Nat) (c : Choice)
    (hi : Inv g s) (hx : s.lookup h = some x) (hk : g.kind = .aligned)
    (hg : alAppend s x more c tag = .ok (s', y)) : content s' y = content s x ++ more := by
  obtain ⟨hxs, hxl, hxo⟩ := live_facts hi hx
  have hlen := hi.regs x.rid hxs.1
  simp only [alAppend] at hg
  split at hg
  · rename_i hfit
    obtain ⟨rfl, rfl⟩ := Prod.mk.inj (Except.ok.inj hg)
    simp only [content]
    rw [bytes_write_self s x.rid x.len more hxs.1]
    exact take_overwrite _ _ _ (by omega)
  · cases hmg : alMalloc s (x.len + more.length) c with
    | error e => rw [hmg] at hg; cases hg
    | ok p =>
      obtain ⟨s1, y1⟩ := p
      rw [hmg] at hg
      simp only at hg
      obtain ⟨rfl, rfl⟩ := Prod.mk.inj (Except.ok.inj hg)
      obtain ⟨h1, h2, h3, h4, h5, _⟩ := alMalloc_ok g h s s1 _ c y1 (hi.exempt h) hk hmg
      have hl1 := h1.regs y1.rid h3.1
      have hold : ((s.region x.rid).bytes.take x.len).length = x.len := by simp; omega
      simp only [content]
      rw [bytes_alFree, h5]
      have hw1 : ((s1.write y1.rid 0 ((s.region x.rid).bytes.take x.len)).region y1.rid).bytes =
          overwrite (s1.region y1.rid).bytes 0 ((s.region x.rid).bytes.take x.len) :=
        bytes_write_self s1 y1.rid 0 _ h3.1
      rw [bytes_write_self _ y1.rid x.len more (by simpa [St.write] using h3.1), hw1]
      have hl2 : (overwrite (s1.region y1.rid).bytes 0 ((s.region x.rid).bytes.take x.len)).length =
          (s1.region y1.rid).bytes.length := overwrite_length _ _ _ (by omega)
      rw [take_overwrite _ _ _ (by rw [hl2]; omega)]
      have := take_overwrite (s1.region y1.rid).bytes ((s.region x.rid).bytes.take x.len) 0 (by omega)
      rw [hold] at this
      simp only [Nat.zero_add, List.take_zero, List.nil_append] at this
      rw [this]

theorem doAppend_content (g : Cfg) (h : Nat) (s s' : St) (x y : Handle) (more : Bytes) (grow tag : Nat) (c : Choice)
    (hi : Inv g s) (hx : s.lookup h = some x) (hg : doAppend g s x more c grow tag = .ok (s', y)) :
    content s' y = content s x ++ more := by
  unfold doAppend at hg
  split at hg
  · exact mpAppend_content g h s s' x y more grow hi hx hg
  · exact mpAppend_content g h s s' x y more grow hi hx hg
  · rename_i hk; exact alAppend_content g h s s' x y more tag c hi hx hk hg

/-! ### Realloc -/

/-- the new buffer starts with the old contents after `copy(new, old)` into a large enough region -/
theorem copy_prefix (b old : Bytes) (n : Nat) (h1 : old.length ≤ b.length) (h2 : n ≤ old.length) :
    (overwrite b 0 old).take n = old.take n := by
  have := take_overwrite b old 0 (by omega)
  simp only [Nat.zero_add, List.take_zero, List.nil_append] at this
  rw [← take_take_le _ n old.length h2, this]

theorem mpRealloc_content (g : Cfg) (h : Nat) (s s' : St) (x y : Handle) (size grow tag : Nat) (c : Choice)
    (hi : Inv g s) (hx : s.lookup h = some x) (hk : g.kind ≠ .aligned)
    (hg : mpRealloc g s x size c grow tag = .ok (s', y)) :
    (content s' y).take (min size x.len) = (content s x).take (min size x.len) := by
  obtain ⟨hxs, hxl, hxo⟩ := live_facts hi hx
  have hlen := hi.regs x.rid hxs.1
  simp only [mpRealloc] at hg
  split at hg
  · obtain ⟨rfl, rfl⟩ := Prod.mk.inj (Except.ok.inj hg)
    simp only [content]
    rw [take_take_le _ _ _ (Nat.min_le_left _ _), take_take_le _ _ _ (Nat.min_le_right _ _)]
  · rename_i hnofit
    have hmin : min size x.len = x.len := by omega
    split at hg
    · cases hmg : mpGet g s size c grow with
      | error e => rw [hmg] at hg; cases hg
      | ok p =>
        obtain ⟨s1, rid⟩ := p
        rw [hmg] at hg
        simp only at hg
        obtain ⟨rfl, rfl⟩ := Prod.mk.inj (Except.ok.inj hg)
        obtain ⟨h1, h2, h3, h4, _⟩ := mpGet_ok g h s s1 size grow rid c (hi.exempt h) hk hmg
        have hl1 := h1.regs rid h3.1
        have hold : ((s.region x.rid).bytes.take x.len).length = x.len := by simp; omega
        simp only [content]
        rw [bytes_mpFree, bytes_write_self s1 rid 0 _ h3.1, hmin, take_take_le _ _ _ (by omega)]
        rw [copy_prefix _ _ _ (by omega) (by omega), take_take_le _ _ _ (Nat.le_refl _)]
    · cases hga : goAppend s x.rid (s.region x.rid).cap (zeros (size - (s.region x.rid).cap)) grow with
      | error e => rw [hga] at hg; cases hg
      | ok p =>
        obtain ⟨s1, rid⟩ := p
        rw [hga] at hg
        simp only at hg
        obtain ⟨rfl, rfl⟩ := Prod.mk.inj (Except.ok.inj hg)
        have hc := goAppend_content g h s s1 x.rid rid _ grow _ (hi.exempt h) hxs (Nat.le_refl _) hga
        simp only [content]
        rw [hmin, take_take_le _ _ _ (by omega), take_take_le _ _ _ (Nat.le_refl _)]
        have hz : (zeros (size - (s.region x.rid).cap)).length = size - (s.region x.rid).cap := by simp [zeros]
        have := congrArg (List.take x.len) hc
        rw [take_take_le _ _ _ (by rw [hz]; omega)] at this
        rw [this, List.take_append_of_le_length (by simp; omega), take_take_le _ _ _ hxl]

theorem alRealloc_content (g : Cfg) (h : Nat) (s s' : St) (x y : Handle) (size tag : Nat) (c : Choice)
    (hi : Inv g s) (hx : s.lookup h = some x) (hk : g.kind = .aligned)
    (hg : alRealloc s x size c tag = .ok (s', y)) :
    (content s' y).take (min size x.len) = (content s x).take (min size x.len) := by
  obtain ⟨hxs, hxl, hxo⟩ := live_facts hi hx
  have hlen := hi.regs x.rid hxs.1
  simp only [alRealloc] at hg
  split at hg
  · obtain ⟨rfl, rfl⟩ := Prod.mk.inj (Except.ok.inj hg)
    simp only [content]
    rw [take_take_le _ _ _ (Nat.min_le_left _ _), take_take_le _ _ _ (Nat.min_le_right _ _)]
  · rename_i hnofit
    have hmin : min size x.len = x.len := by omega
    cases hmg : alMalloc s size c with
    | error e => rw [hmg] at hg; cases hg
    | ok p =>
      obtain ⟨s1, y1⟩ := p
      rw [hmg] at hg
      simp only at hg
      obtain ⟨rfl, rfl⟩ := Prod.mk.inj (Except.ok.inj hg)
      obtain ⟨h1, h2, h3, h4, h5, _⟩ := alMalloc_ok g h s s1 size c y1 (hi.exempt h) hk hmg
      have hl1 := h1.regs y1.rid h3.1
      have hold : ((s.region x.rid).bytes.take x.len).length = x.len := by simp; omega
      simp only [content]
      rw [bytes_alFree, bytes_write_self s1 y1.rid 0 _ h3.1, hmin, take_take_le _ _ _ (by omega)]
      rw [copy_prefix _ _ _ (by omega) (by omega), take_take_le _ _ _ (Nat.le_refl _)]

theorem sdRealloc_content (g : Cfg) (h : Nat) (s : St) (x : Handle) (size : Nat)
    (hi : Inv g s) (hx : s.lookup h = some x) :
    (content (sdRealloc s x size).1 (sdRealloc s x size).2).take (min size x.len) = (content s x).take (min size x.len) := by
  obtain ⟨hxs, hxl, hxo⟩ := live_facts hi hx
  have hlen := hi.regs x.rid hxs.1
  simp only [sdRealloc]
  split
  · simp only [content]
    rw [take_take_le _ _ _ (Nat.min_le_left _ _), take_take_le _ _ _ (Nat.min_le_right _ _)]
  · rename_i hnofit
    have hmin : min size x.len = x.len := by omega
    have hold : ((s.region x.rid).bytes.take x.len).length = x.len := by simp; omega
    simp only [content]
    rw [bytes_alloc_new, hmin, take_take_le _ _ _ (by omega), take_alloc _ _ _ (by omega) (by omega)]

theorem doRealloc_content (g : Cfg) (h : Nat) (s s' : St) (x y : Handle) (size grow tag : Nat) (c : Choice)
    (hi : Inv g s) (hx : s.lookup h = some x) (hg : doRealloc g s x size c grow tag = .ok (s', y)) :
    (content s' y).take (min size x.len) = (content s x).take (min size x.len) := by
  unfold doRealloc at hg
  split at hg
  · rename_i hk; exact mpRealloc_content g h s s' x y size grow tag c hi hx (by rw [hk]; simp) hg
  · rename_i hk; exact alRealloc_content g h s s' x y size tag c hi hx hk hg
  · have e := Except.ok.inj hg
    have := sdRealloc_content g h s x size hi hx
    rw [e] at this
    exact this

/-! ### no panic -/

theorem doAppend_no_panic (g : Cfg) (h : Nat) (s : St) (x : Handle) (more : Bytes) (grow tag : Nat) (c : Choice)
    (hi : Inv g s) : doAppend g s x more c grow tag ≠ .error .panic := by
  have mp : mpAppend s x more grow ≠ .error .panic := by
    simp only [mpAppend]
    cases hga : goAppend s x.rid x.len more grow with
    | error e =>
      simp only
      intro he
      have : e = .panic := by injection he
      rw [this] at hga
      exact goAppend_no_panic _ _ _ _ _ hga
    | ok p => simp
  unfold doAppend
  split
  · exact mp
  · exact mp
  · rename_i hk
    simp only [alAppend]
    split
    · simp
    · cases hmg : alMalloc s (x.len + more.length) c with
      | error e =>
        simp only
        intro he
        have : e = .panic := by injection he
        rw [this] at hmg
        exact alMalloc_no_panic g h s _ c (hi.exempt h) hk hmg
      | ok p => simp

theorem doRealloc_no_panic (g : Cfg) (h : Nat) (s : St) (x : Handle) (size grow tag : Nat) (c : Choice)
    (hi : Inv g s) : doRealloc g s x size c grow tag ≠ .error .panic := by
  unfold doRealloc
  split
  · simp only [mpRealloc]
    split
    · simp
    · split
      · cases hmg : mpGet g s size c grow with
        | error e =>
          simp only
          intro he
          have : e = .panic := by injection he
          rw [this] at hmg
          exact mpGet_no_panic _ _ _ _ _ hmg
        | ok p => simp
      · cases hga : goAppend s x.rid (s.region x.rid).cap (zeros (size - (s.region x.rid).cap)) grow with
        | error e =>
          simp only
          intro he
          have : e = .panic := by injection he
          rw [this] at hga
          exact goAppend_no_panic _ _ _ _ _ hga
        | ok p => simp
  · rename_i hk
    simp only [alRealloc]
    split
    · simp
    · cases hmg : alMalloc s size c with
      | error e =>
        simp only
        intro he
        have : e = .panic := by injection he
        rw [this] at hmg
        exact alMalloc_no_panic g h s _ c (hi.exempt h) hk hmg
      | ok p => simp
  · simp

end Alloc
