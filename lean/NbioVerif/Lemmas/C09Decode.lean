import NbioVerif.Lemmas.C09Unchunk
import NbioVerif.Lemmas.C09Head
/-! ONE reference decoder of a chunked HTTP/1.1 response (status line, header fields, chunked body, trailer fields,
nothing left over), assembled from the reference parsers of C09Head and C09Unchunk, with the fuel of each stage taken
from the length of its input. -/
namespace Resp

/-- `unchunk_encode` for any sufficient fuel -/
theorem unchunk_encode_fuel (ds : List Bytes) (T : Bytes) (hne : ∀ d ∈ ds, d ≠ []) (hsz : ∀ d ∈ ds, d.length ≤ maxChunk)
    (f : Nat) (hf : ds.length < f) :
    unchunk f ((ds.map chunkEnc).flatten ++ (str "0\r\n" ++ T)) = some (ds.flatten, T) := by
  induction ds generalizing f with
  | nil =>
    cases f with
    | zero => omega
    | succ f =>
      simp only [List.map_nil, List.flatten_nil, List.nil_append]
      have e0 : str "0\r\n" = [48, 13, 10] := by decide
      have e : str "0\r\n" ++ T = [48] ++ 13 :: (10 :: T) := by rw [e0]; rfl
      rw [e]
      unfold unchunk
      obtain ⟨t1, t2⟩ := takeWhile_hex [48] (10 :: T) (by decide)
      simp only [t1, t2]
      simp [parseHex, hexVal]
  | cons d ds ih =>
    cases f with
    | zero => omega
    | succ f =>
      have hd := hne d (List.mem_cons_self ..)
      have hs := hsz d (List.mem_cons_self ..)
      obtain ⟨f1, f2, f3⟩ := fmtHex_spec d.length hs
      have ih' := ih (fun x hx => hne x (List.mem_cons_of_mem _ hx)) (fun x hx => hsz x (List.mem_cons_of_mem _ hx)) f
        (by simp only [List.length_cons] at hf; omega)
      have e : ((d :: ds).map chunkEnc).flatten ++ (str "0\r\n" ++ T) =
          fmtHex d.length ++ 13 :: (10 :: (d ++ (13 :: 10 :: ((ds.map chunkEnc).flatten ++ (str "0\r\n" ++ T))))) := by
        simp [chunkEnc, chunkHdr, CRLF, List.append_assoc]
      rw [e]
      unfold unchunk
      obtain ⟨t1, t2⟩ := takeWhile_hex (fmtHex d.length) (10 :: (d ++ (13 :: 10 :: ((ds.map chunkEnc).flatten ++ (str "0\r\n" ++ T))))) f2
      simp only [t1, t2, f1]
      have hl : d.length ≠ 0 := by
        intro hc; exact hd (List.eq_nil_of_length_eq_zero hc)
      simp only [f3, ↓reduceIte, hl, List.length_cons, List.length_append]
      have h1 : ¬ (d.length + ((((ds.map chunkEnc).flatten).length + ((str "0\r\n").length + T.length)) + 1 + 1) < d.length + 2) := by omega
      simp only [h1, ↓reduceIte, List.drop_left', List.drop_append_of_le_length, Nat.le_refl]
      simp [CRLF, List.take_append_of_le_length, List.drop_append_of_le_length, ih']

theorem chunks_length (ds : List Bytes) : ds.length ≤ ((ds.map chunkEnc).flatten).length := by
  induction ds with
  | nil => simp
  | cons d t ih =>
    simp only [List.map_cons, List.flatten_cons, List.length_append, List.length_cons]
    have : 1 ≤ (chunkEnc d).length := by simp [chunkEnc, CRLF]; omega
    omega

theorem renderPairs_length (ps : List (Bytes × Bytes)) : ps.length ≤ (renderPairs ps).length := by
  induction ps with
  | nil => simp [renderPairs]
  | cons p t ih =>
    simp only [renderPairs, List.map_cons, List.flatten_cons, List.length_append, List.length_cons] at ih ⊢
    have : 1 ≤ (headerLine p.1 p.2).length := by simp [headerLine, CRLF]; omega
    omega

/-- **the reference decoder of a chunked response**: status line, header fields, body, trailer fields — `none` unless
every stage succeeds and the input is consumed exactly (nothing left over) -/
def decodeChunked (wire : Bytes) : Option (Bytes × List (Bytes × Bytes) × Bytes × List (Bytes × Bytes)) :=
  match parseHead wire with
  | none => none
  | some (sl, fields, rest) =>
    match unchunk (rest.length + 1) rest with
    | none => none
    | some (body, t) =>
      match parseHeaders (t.length + 1) t with
      | some (trl, []) => some (sl, fields, body, trl)
      | _ => none

/-- the decoder on a well-formed chunked message -/
theorem decodeChunked_spec (wire sl : Bytes) (fields trl : List (Bytes × Bytes)) (ds : List Bytes)
    (hh : parseHead wire = some (sl, fields, (ds.map chunkEnc).flatten ++ (str "0\r\n" ++ (renderPairs trl ++ 13 :: 10 :: []))))
    (hne : ∀ d ∈ ds, d ≠ []) (hsz : ∀ d ∈ ds, d.length ≤ maxChunk)
    (hk : ∀ p ∈ trl, nameOk p.1) (hv : ∀ p ∈ trl, noCR p.2) :
    decodeChunked wire = some (sl, fields, ds.flatten, trl) := by
  unfold decodeChunked
  rw [hh]
  simp only []
  have hu := unchunk_encode_fuel ds (renderPairs trl ++ 13 :: 10 :: []) hne hsz
    (((ds.map chunkEnc).flatten ++ (str "0\r\n" ++ (renderPairs trl ++ 13 :: 10 :: []))).length + 1)
    (by have := chunks_length ds; simp only [List.length_append]; omega)
  rw [hu]
  simp only []
  have hp := parseHeaders_render trl [] hk hv ((renderPairs trl ++ 13 :: 10 :: []).length + 1)
    (by have := renderPairs_length trl; simp only [List.length_append, List.length_cons, List.length_nil]; omega)
  rw [hp]

end Resp
