import NbioVerif.Lemmas.ConnEdge
/-! ConnFull: one round of the poller (EPOLLOUT reported with room for `N > 0` bytes, then the tail of the
event) on a quiet connection, and its iteration: the backlog drains without any further call. -/
namespace ConnFull

def V (s : S) := (s.rearm, s.evErr)

theorem V_kctl_mod (s : S) (o : Bool) : V (kctl s false o) = V s := by
  unfold kctl; simp only [Bool.false_eq_true, if_false]; split <;> rfl
theorem V_pModWrite (g : Cfg) (s : S) : V (pModWrite g s) = V s := by
  unfold pModWrite; split; rfl; exact V_kctl_mod _ _
theorem V_pResetRead (g : Cfg) (s : S) : V (pResetRead g s) = V s := by
  unfold pResetRead; split; rfl; exact V_kctl_mod _ _
theorem V_resetPollerEvent (g : Cfg) (s : S) : V (resetPollerEvent g s) = V s := by
  unfold resetPollerEvent; split
  · split
    · exact V_pResetRead _ _
    · exact V_pModWrite _ _
  · rfl

/-- answers without a fatal error never close the connection in flush -/
theorem flushLoop_open (g : Cfg) : ∀ (fuel : Nat) (s : S) (ks : List KAns), (∀ k ∈ ks, k ≠ .fail) →
    s.closed = false → (flushLoop g fuel s ks).closed = false := by
  intro fuel
  induction fuel with
  | zero => intro s ks _ hc; unfold flushLoop; exact hc
  | succ fuel ih =>
    intro s ks hk hc
    have tl : ∀ k ks', ks = k :: ks' → ∀ k' ∈ ks', k' ≠ KAns.fail := by
      intro k ks' h k' hk'; exact hk k' (by rw [h]; exact List.mem_cons_of_mem _ hk')
    unfold flushLoop
    split
    · have := D_cResetRead g (stopTimer s); simp only [D, Prod.mk.injEq] at this; rw [this.1]; exact hc
    · simp only
      split
      · exact ih s ks hk hc
      split
      · exact hc
      · exact hc
      · exact ih s _ (tl _ _ rfl) hc
      · exact absurd rfl (hk _ (by simp))
      · split
        · exact ih s _ (tl _ _ rfl) hc
        split
        · exact ih _ _ (tl _ _ rfl) (by exact hc)
        · exact ih _ _ (tl _ _ rfl) (by exact hc)
    · split
      · exact ih s ks hk hc
      split
      · exact hc
      · exact hc
      · exact ih s _ (tl _ _ rfl) hc
      · exact absurd rfl (hk _ (by simp))
      · simp only
        split
        · exact ih s _ (tl _ _ rfl) hc
        split
        · exact ih _ _ (tl _ _ rfl) (by exact hc)
        · exact ih _ _ (tl _ _ rfl) (by exact hc)

theorem flush_open (g : Cfg) (s : S) (ks : List KAns) (hk : ∀ k ∈ ks, k ≠ .fail) (hc : s.closed = false) :
    (flush g s ks).closed = false := by
  unfold flush
  split
  · exact hc
  split
  · have hD := D_cResetRead g s
    simp only [D, Prod.mk.injEq] at hD
    rw [hD.1]; exact hc
  · exact flushLoop_open g _ s ks hk hc

/-- a quiet connection: open, registered, no connect in progress, the poller is not inside an event -/
structure Quiet (s : S) : Prop where
  closed : s.closed = false
  reg : s.reg = true
  connecting : s.connecting = false
  connEv : s.connEv = false
  rearm : s.rearm = false
  evErr : s.evErr = false
  early : s.early = false

/-- one round: the kernel reports EPOLLOUT with room for `N` bytes, the poller handles the event -/
def round (N : Nat) : List Op := [.evTake true false false [.wrote N], .evEnd]

/-- the four invariants together -/
structure Inv4 (g : Cfg) (s : S) : Prop where
  d : InvD g s
  a : InvA g s
  t : InvT s
  e : InvE g s

theorem inv4_init (g : Cfg) : Inv4 g init := ⟨invD_init g, invA_init g, invT_init, invE_init g⟩

theorem inv4_step (g : Cfg) (s : S) (op : Op) (h : Inv4 g s) : Inv4 g (step g s op) :=
  ⟨invD_step g s op h.d h.t.tp, invA_step g s op h.d h.a h.t.tp, invT_step g s op h.t, invE_step g s op h.d h.e⟩

theorem inv4_run (g : Cfg) (ops : List Op) : ∀ s : S, Inv4 g s → Inv4 g (run g s ops) := by
  induction ops with
  | nil => intro s h; exact h
  | cons op ops ih => intro s h; exact ih _ (inv4_step g s op h)

/-- the tail of an event that had no read part, no error part and no connected callback -/
theorem evEnd_quiet (g : Cfg) (u : S) (hh : u.hung = false) (hcv : u.connEv = false) (hee : u.evErr = false) :
    W (evEnd g u) = W u ∧ V (evEnd g u) = (false, false) ∧ (evEnd g u).accepted = u.accepted ∧
    (evEnd g u).wire = u.wire := by
  unfold evEnd
  rw [if_neg (by simp [hh])]
  simp only
  have e0 : (if u.connEv = true then cResetRead g { u with connecting := false, connEv := false } else u) = u := by
    rw [if_neg (by simp [hcv])]
  rw [e0]
  by_cases hre : u.rearm = true
  · rw [if_pos hre]
    have hw := W_resetPollerEvent g { u with rearm := false }
    have hv := V_resetPollerEvent g { u with rearm := false }
    have hD := D_resetPollerEvent g { u with rearm := false }
    simp only [D, Prod.mk.injEq] at hD
    have hv' : V (resetPollerEvent g { u with rearm := false }) = (false, u.evErr) := hv
    have hee' : (resetPollerEvent g { u with rearm := false }).evErr = false := by
      have := congrArg (·.2) hv'; simp only [V] at this; rw [this]; exact hee
    rw [if_neg (by simp [hee'])]
    exact ⟨hw, by rw [hv', hee], hD.2.2.2.2.2, hD.2.2.2.2.1⟩
  · rw [if_neg hre, if_neg (by simp [hee])]
    have : u.rearm = false := by simpa using hre
    exact ⟨rfl, by simp [V, this, hee], rfl, rfl⟩

/-- the poller's tail leaves a quiet connection behind: from a registered state whose async connect (if any) has
    had its event, after `evEnd` (= `evConnEnd`, `evRearm`, `evErrClose`) the connection is closed or `Quiet` -/
theorem quiet_after_tail (g : Cfg) (s : S) (hh : s.hung = false) (hr : s.reg = true) (he : s.early = false)
    (hcn : s.connecting = true → s.connEv = true) (ho : (evEnd g s).closed = false) : Quiet (evEnd g s) := by
  unfold evEnd at ho ⊢
  rw [if_neg (by simp [hh])] at ho ⊢
  simp only at ho ⊢
  -- the connected tail
  have h1 : ∃ t1 : S, (if s.connEv = true then cResetRead g { s with connecting := false, connEv := false } else s) = t1 ∧
      t1.reg = true ∧ t1.early = false ∧ t1.connecting = false ∧ t1.connEv = false := by
    refine ⟨_, rfl, ?_⟩
    by_cases hv : s.connEv = true
    · rw [if_pos hv]
      have hw := W_cResetRead g { s with connecting := false, connEv := false }
      simp only [W, Prod.mk.injEq] at hw
      obtain ⟨_, _, w3, _, w5, _, w7, w8⟩ := hw
      exact ⟨by rw [w3]; exact hr, by rw [w5]; exact he, by rw [w7], by rw [w8]⟩
    · rw [if_neg hv]
      have hv' : s.connEv = false := by simpa using hv
      have hc' : s.connecting = false := by
        cases hc : s.connecting
        · rfl
        · rw [hcn hc] at hv'; exact absurd hv' (by simp)
      exact ⟨hr, he, hc', hv'⟩
  obtain ⟨t1, e1, r1, y1, c1, v1⟩ := h1
  rw [e1] at ho ⊢
  -- ResetPollerEvent
  have h2 : ∃ t2 : S, (if t1.rearm = true then resetPollerEvent g { t1 with rearm := false } else t1) = t2 ∧
      t2.reg = true ∧ t2.early = false ∧ t2.connecting = false ∧ t2.connEv = false ∧ t2.rearm = false := by
    refine ⟨_, rfl, ?_⟩
    by_cases hre : t1.rearm = true
    · rw [if_pos hre]
      have hw := W_resetPollerEvent g { t1 with rearm := false }
      have hv := V_resetPollerEvent g { t1 with rearm := false }
      simp only [W, Prod.mk.injEq] at hw
      simp only [V, Prod.mk.injEq] at hv
      obtain ⟨_, _, w3, _, w5, _, w7, w8⟩ := hw
      exact ⟨by rw [w3]; exact r1, by rw [w5]; exact y1, by rw [w7]; exact c1, by rw [w8]; exact v1, hv.1⟩
    · rw [if_neg hre]
      exact ⟨r1, y1, c1, v1, by simpa using hre⟩
  obtain ⟨t2, e2, r2, y2, c2, v2, a2⟩ := h2
  rw [e2] at ho ⊢
  -- closeWithError after an error event: the connection is still open, so there was none
  by_cases hee : t2.evErr = true
  · rw [if_pos hee] at ho
    by_cases hcl : t2.closed = true
    · rw [if_pos hcl] at ho; simp [hcl] at ho
    · rw [if_neg hcl] at ho; simp [flipWE, flip] at ho
  · rw [if_neg hee] at ho ⊢
    exact ⟨ho, r2, c2, v2, a2, by simpa using hee, y2⟩

theorem round_spec (g : Cfg) (s : S) (N : Nat) (h : Inv4 g s) (q : Quiet s) (hN : 0 < N) :
    Inv4 g (run g s (round N)) ∧ Quiet (run g s (round N)) ∧
    (run g s (round N)).accepted = s.accepted ∧
    (s.wl ≠ [] → backlog (run g s (round N)).wl < backlog s.wl) ∧
    (s.wl = [] → (run g s (round N)).wl = []) := by
  have hinv := inv4_run g (round N) s h
  refine ⟨hinv, ?_⟩
  have hu4 : Inv4 g (step g s (.evTake true false false [.wrote N])) := inv4_step g s _ h
  have hh : s.hung = false := h.d.nohang
  have hdis : s.disarmed = false := by
    cases hd : s.disarmed
    · rfl
    · rcases h.a.dis q.closed hd with h1 | h1
      · rw [q.rearm] at h1; exact absurd h1 (by simp)
      · rw [q.evErr] at h1; exact absurd h1 (by simp)
  have hko : s.kOut = (s.isWAdded || g.mode == .et) := h.a.kout q.closed q.reg
  have hrun : run g s (round N) = evEnd g (evTakeOp g s true false false [.wrote N]) := rfl
  rw [hrun]
  -- the EPOLLOUT part: delivered exactly when a backlog exists (LT / ONESHOT: interest = belief; ET: a report is due)
  have hdel : (deliverable s (true && (g.mode != .et || s.edgeDue)) false false) =
      ((g.mode != .et || s.edgeDue) && s.kOut, false, false) := by
    simp [deliverable, hh, q.reg, q.closed, hdis, q.rearm, q.evErr, q.connEv, q.connecting]
  by_cases hd1 : ((g.mode != .et || s.edgeDue) && s.kOut) = true
  · -- delivered: flush
    have hu : evTakeOp g s true false false [.wrote N] =
        ghost { (flush g (if (g.mode == .oneshot) = true then { s with disarmed := true } else s) [.wrote N]) with
            rearm := g.mode == .oneshot && (true || false), evErr := false }
          ((if (true && g.mode == .et) = true then false else s.edgeDue) ||
            (true && !s.connecting && flushRefused ([KAns.wrote N].length + 1) s.wl [.wrote N])) s.early := by
      unfold evTakeOp evTake
      simp only [hdel, hd1, Bool.true_or, Bool.not_true, Bool.false_eq_true, if_false, if_true]
      have : (if (g.mode == Mode.oneshot) = true then { s with disarmed := true } else s).connecting = false := by
        split <;> exact q.connecting
      simp only [this, Bool.false_eq_true, if_false]
    generalize hs1 : (if (g.mode == .oneshot) = true then { s with disarmed := true } else s) = s1 at hu
    have hs1c : s1.closed = false := by subst hs1; split <;> exact q.closed
    have hs1w : s1.wl = s.wl := by subst hs1; split <;> rfl
    have hcal := calm_flush g s1 [.wrote N]
    have hs1f : s1.reg = s.reg ∧ s1.connecting = s.connecting ∧ s1.connEv = s.connEv := by
      subst hs1; split <;> exact ⟨rfl, rfl, rfl⟩
    have hfo := flush_open g s1 [.wrote N] (by simp) hs1c
    have hfe := flush_eff g s1 [.wrote N]
    obtain ⟨⟨w, hwe⟩, _⟩ := hfe
    have hacc1 : s1.accepted = s.accepted := by subst hs1; split <;> rfl
    have huh : (evTakeOp g s true false false [.wrote N]).hung = false := hu4.d.nohang
    obtain ⟨e1, e2, e3, _⟩ := evEnd_quiet g (evTakeOp g s true false false [.wrote N]) huh
      (by rw [hu]; show (flush g s1 [.wrote N]).connEv = false; rw [hcal.connEv, hs1f.2.2]; exact q.connEv)
      (by rw [hu]; rfl)
    simp only [W, Prod.mk.injEq] at e1
    obtain ⟨w1, w2, w3, w4, w5, w6, w7, w8⟩ := e1
    simp only [V, Prod.mk.injEq] at e2
    have uwl : (evTakeOp g s true false false [.wrote N]).wl = (flush g s1 [.wrote N]).wl := by rw [hu]; rfl
    refine ⟨⟨?_, ?_, ?_, ?_, e2.1, e2.2, ?_⟩, ?_, ?_, ?_⟩
    · rw [w6, hu]; exact hfo
    · rw [w3, hu]; show (flush g s1 [.wrote N]).reg = true; rw [hcal.reg, hs1f.1]; exact q.reg
    · rw [w7, hu]; show (flush g s1 [.wrote N]).connecting = false; rw [hcal.connecting, hs1f.2.1]; exact q.connecting
    · rw [w8, hu]; show (flush g s1 [.wrote N]).connEv = false; rw [hcal.connEv, hs1f.2.2]; exact q.connEv
    · rw [w5, hu]; exact q.early
    · rw [e3, hu]; show (flush g s1 [.wrote N]).accepted = s.accepted
      rw [hwe.acc, hacc1]; simp
    · intro hne
      rw [w1, uwl, flush_backlog_congr g s s1 [.wrote N] (hs1c.trans q.closed.symm) hs1w]
      exact flush_progress g s N [] q.closed h.d.pos hne hN
    · intro he
      rw [w1, uwl]
      have : s1.wl.isEmpty = true := by rw [hs1w, he]; rfl
      unfold flush
      rw [if_neg (by simp [hs1c]), if_pos this, wl_cResetRead, hs1w, he]
  · -- not delivered: only possible without a backlog
    have hd1' : ((g.mode != .et || s.edgeDue) && s.kOut) = false := by simpa using hd1
    have hu : evTakeOp g s true false false [.wrote N] = s := by
      unfold evTakeOp evTake
      simp only [hdel, hd1', Bool.false_or, Bool.not_false, Bool.or_self, if_true, Bool.false_and, Bool.or_false]
      cases hm : (false && g.mode == Mode.et) <;> rfl
    have hwl : s.wl = [] := by
      cases hw : s.wl with
      | nil => rfl
      | cons x xs =>
        exfalso
        have hne : s.wl ≠ [] := by rw [hw]; simp
        have hwa : s.isWAdded = true := (h.a.wadd q.closed hh).mpr (Or.inl hne)
        rw [hwa] at hko
        have hk : s.kOut = true := by simpa using hko
        rw [hk] at hd1'
        cases hm : g.mode
        · simp [hm] at hd1'
        · have := h.e.et hm q.closed hh q.reg q.early hne
          simp [hm, this] at hd1'
        · simp [hm] at hd1'
    obtain ⟨e1, e2, e3, _⟩ := evEnd_quiet g s hh q.connEv q.evErr
    simp only [W, Prod.mk.injEq] at e1
    obtain ⟨w1, w2, w3, w4, w5, w6, w7, w8⟩ := e1
    simp only [V, Prod.mk.injEq] at e2
    rw [hu]
    refine ⟨⟨by rw [w6]; exact q.closed, by rw [w3]; exact q.reg, by rw [w7]; exact q.connecting,
      by rw [w8]; exact q.connEv, e2.1, e2.2, by rw [w5]; exact q.early⟩, e3, fun hne => absurd hwl hne, fun _ => by rw [w1]; exact hwl⟩

theorem run_append (g : Cfg) (s : S) (a b : List Op) : run g s (a ++ b) = run g (run g s a) b := by
  simp [run, List.foldl_append]

theorem backlog_zero {wl : List Item} (hp : AllPos wl) (h : backlog wl = 0) : wl = [] := by
  cases wl with
  | nil => rfl
  | cons t tl =>
    exfalso
    rw [backlog_cons] at h
    have := hp t (by simp)
    cases t with
    | buf d off => simp only [Item.todo] at h; simp only [Item.Pos] at this; omega
    | file off rem => simp only [Item.todo] at h; simp only [Item.Pos] at this; omega

theorem drains_aux (g : Cfg) (N : Nat) (hN : 0 < N) : ∀ (n : Nat) (s : S), Inv4 g s → Quiet s → backlog s.wl ≤ n →
    Inv4 g (run g s (List.replicate n (round N)).flatten) ∧ Quiet (run g s (List.replicate n (round N)).flatten) ∧
    (run g s (List.replicate n (round N)).flatten).wl = [] ∧
    (run g s (List.replicate n (round N)).flatten).accepted = s.accepted := by
  intro n
  induction n with
  | zero =>
    intro s h q hb
    have : s.wl = [] := backlog_zero h.d.pos (by omega)
    exact ⟨h, q, this, rfl⟩
  | succ n ih =>
    intro s h q hb
    rw [List.replicate_succ, List.flatten_cons, run_append]
    obtain ⟨h', q', ha, hlt, hemp⟩ := round_spec g s N h q hN
    have hb' : backlog (run g s (round N)).wl ≤ n := by
      by_cases hw : s.wl = []
      · rw [hemp hw]; simp [backlog]
      · have := hlt hw; omega
    obtain ⟨r1, r2, r3, r4⟩ := ih _ h' q' hb'
    exact ⟨r1, r2, r3, r4.trans ha⟩

end ConnFull
