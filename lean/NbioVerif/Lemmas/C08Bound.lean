import NbioVerif.Lemmas.C06Core
import NbioVerif.Model.ScanChecked
/-! probe: C08 retained-bytes bound on the Parse skeleton, generic in the machine -/
namespace Scan
variable {σ ε : Type}

/-- every exit of the loop caches a suffix of `buf` -/
theorem loop_cache_le (M : Machine σ ε) (buf : List UInt8) :
    ∀ (fuel i start : Nat) (st : σ) (acc : List ε) acc' st' cache',
      loop M buf fuel i start st acc = ⟨acc', .inl (st', cache')⟩ → cache'.length ≤ buf.length := by
  intro fuel
  induction fuel with
  | zero => intro i start st acc acc' st' cache' h; simp [loop] at h
  | succ fuel ih =>
    intro i start st acc acc' st' cache' h
    unfold loop at h
    simp only [] at h
    repeat' split at h
    all_goals first
      | exact ih _ _ _ _ _ _ _ h
      | (simp at h; done)
      | (simp at h; obtain ⟨_, _, hc⟩ := h; subst hc; simp)

/-- C08 (bound): what Parse retains never exceeds the read limit, except that a first read into an
    empty cache may be retained whole: `|cache'| ≤ max limit |data|` whenever `|cache| ≤ limit`. -/
theorem retained_bound (M : Machine σ ε) (limit : Nat) (hl : 0 < limit) (st : σ) (cache data : List UInt8)
    (acc : List ε) (hc : cache.length ≤ limit) acc' st' cache'
    (h : parseL M limit st cache data acc = ⟨acc', .inl (st', cache')⟩) :
    cache'.length ≤ max limit data.length := by
  unfold parseL at h
  split at h
  · simp at h
  · rename_i hn
    unfold implParse at h
    split at h
    · simp at h; obtain ⟨_, _, e⟩ := h; subst e; omega
    · rename_i hd
      have := loop_cache_le M _ _ _ _ _ _ _ _ _ h
      simp at this
      by_cases he : cache = []
      · subst he; simp at this; omega
      · have : ¬ (cache.length + data.length > limit) := fun hgt => hn ⟨hd, he, hl, hgt⟩
        omega

end Scan
