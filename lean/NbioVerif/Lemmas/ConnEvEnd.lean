import NbioVerif.Lemmas.ConnDrain
/-! ConnFull: the tail of an event is the composition of its three separately scheduled poller actions -/
namespace ConnFull

theorem hung_cResetRead (g : Cfg) (s : S) : (cResetRead g s).hung = s.hung := by
  have := D_cResetRead g s; simp only [D, Prod.mk.injEq] at this; exact this.2.1
theorem hung_resetPollerEvent (g : Cfg) (s : S) : (resetPollerEvent g s).hung = s.hung := by
  have := D_resetPollerEvent g s; simp only [D, Prod.mk.injEq] at this; exact this.2.1

/-- `evEnd` (what the sequential driver runs) = `evConnEnd`, then `evRearm`, then `evErrClose` -/
theorem evEnd_eq (g : Cfg) (s : S) : evEnd g s = evErrClose (evRearm g (evConnEnd g s)) := by
  unfold evEnd
  by_cases hh : s.hung = true
  · rw [if_pos hh]
    simp [evConnEnd, evRearm, evErrClose, hh]
  · rw [if_neg hh]
    have hh' : s.hung = false := by simpa using hh
    simp only
    -- first action
    have e0 : evConnEnd g s = (if s.connEv = true then cResetRead g { s with connecting := false, connEv := false } else s) := by
      unfold evConnEnd; rw [if_neg hh]
    have f0 : (evConnEnd g s).hung = false ∧ (evConnEnd g s).connEv = false := by
      rw [e0]
      split
      · exact ⟨by rw [hung_cResetRead]; exact hh', by rw [(calm_cResetRead g _).connEv]⟩
      · rename_i h; exact ⟨hh', by simpa using h⟩
    rw [← e0]
    generalize evConnEnd g s = s0 at f0 ⊢
    obtain ⟨h0, c0⟩ := f0
    -- second action
    have e1 : evRearm g s0 = (if s0.rearm = true then resetPollerEvent g { s0 with rearm := false } else s0) := by
      unfold evRearm; rw [if_neg (by simp [h0, c0])]
    have f1 : (evRearm g s0).hung = false ∧ (evRearm g s0).connEv = false ∧ (evRearm g s0).rearm = false := by
      rw [e1]
      split
      · have hw := W_resetPollerEvent g { s0 with rearm := false }
        simp only [W, Prod.mk.injEq] at hw
        have hv := V_resetPollerEvent g { s0 with rearm := false }
        simp only [V, Prod.mk.injEq] at hv
        exact ⟨by rw [hung_resetPollerEvent]; exact h0, by rw [hw.2.2.2.2.2.2.2]; exact c0, hv.1⟩
      · rename_i h; exact ⟨h0, c0, by simpa using h⟩
    rw [← e1]
    generalize evRearm g s0 = t at f1 ⊢
    obtain ⟨h1, c1, r1⟩ := f1
    have hg : (t.hung || t.connEv || t.rearm) = false := by simp [h1, c1, r1]
    simp only [evErrClose, hg, Bool.false_eq_true, if_false]

/-- in terms of ops: the merged tail is the run of the three tail ops -/
theorem evEnd_run (g : Cfg) (s : S) : step g s .evEnd = run g s [.evConnEnd, .evRearm, .evErrClose] := by
  show evEnd g s = evErrClose (evRearm g (evConnEnd g s))
  exact evEnd_eq g s

end ConnFull
