import NbioVerif.Lemmas.C09Stage2
import NbioVerif.Lemmas.C09AutoLen
import NbioVerif.Lemmas.C09Rfc
/-! Flush on an identity-framed response without Content-Length: the head announces no length and the body is
delimited by closing the connection (repaired code; was finding resp-flush-identity-nocl). -/
namespace Resp

theorem runB_append (g : Cfg) (a c : List BOp) (r : R) :
    (runB g r (a ++ c)).1 = (runB g (runB g r a).1 c).1 ∧
    (runB g r (a ++ c)).2 = (runB g r a).2 ++ (runB g (runB g r a).1 c).2 := by
  induction a generalizing r with
  | nil => simp [runB]
  | cons op t ih =>
    cases op with
    | write d =>
      simp only [List.cons_append, runB]
      generalize write g r d = p
      obtain ⟨r', w⟩ := p
      dsimp only
      obtain ⟨i1, i2⟩ := ih r'
      exact ⟨i1, by rw [i2, List.append_assoc]⟩
    | flush => simp only [List.cons_append, runB]; exact ih _
    | setH k v => simp only [List.cons_append, runB]; exact ih _
    | addH k v => simp only [List.cons_append, runB]; exact ih _
    | delH k => simp only [List.cons_append, runB]; exact ih _

/-- the automatic fields of a close-delimited head: no Content-Length -/
theorem autoPairs_no_cl (g : Cfg) (r : R) (h : r.closeDelim = true) : ∀ p ∈ autoPairs g r, p.1 ≠ kCL := by
  intro p hp
  unfold autoPairs at hp
  simp only [h, Bool.not_true, Bool.and_false, Bool.false_and, Bool.false_eq_true, ↓reduceIte, List.append_nil,
    List.mem_append] at hp
  have hne1 : kCT ≠ kCL := by decide
  have hne2 : kConn ≠ kCL := by decide
  have hne3 : kDate ≠ kCL := by decide
  rcases hp with (hp | hp) | hp
  · split at hp
    · simp only [List.mem_singleton] at hp; rw [hp]; exact hne1
    · cases hp
  · split at hp
    · simp only [List.mem_singleton] at hp; rw [hp]; exact hne2
    · cases hp
  · split at hp
    · simp only [List.mem_singleton] at hp; rw [hp]; exact hne3
    · cases hp

end Resp
