import NbioVerif.Lemmas.C09Proj
/-! Framing invariant, identity (Content-Length) mode: Write's head paragraph, APPEND_BODY, the tail. -/
namespace Resp

/-- identity mode under a stable Content-Length verdict `cl`: with a positive length the head buffer and
the body buffer are never both in use (the head buffer BECOMES the body buffer) -/
structure IdInv (cl : Nat) (r : R) (hd : Option Bytes) (B : Bytes) : Prop extends Base r hd B where
  one : cl > 0 → (r.headEncoded = false → r.bodyBuffer = none) ∧ (r.buffer ≠ none → r.bodyBuffer = none)

theorem takeHead_spec (g : Cfg) (hg : NoFail g) (r : R) (hd : Option Bytes) (B : Bytes) (cl l : Nat)
    (h : IdInv cl r hd B) :
    (takeHead g r l cl).2 = true ∧
    IdInv cl (takeHead g r l cl).1 (if cl > 0 then hdAfter g r hd else hd) B ∧
    (cl > 0 → (takeHead g r l cl).1.buffer = none ∧ (takeHead g r l cl).1.headEncoded = true) := by
  unfold takeHead
  by_cases hcl : cl > 0
  · rw [if_pos hcl, if_pos hcl]
    obtain ⟨hb, he⟩ := eoncodeHead_base g r hd B h.toBase
    have hbody : (eoncodeHead g r).buffer ≠ none → (eoncodeHead g r).bodyBuffer = none := by
      intro hne
      rw [eoncodeHead_body]
      cases hre : r.headEncoded with
      | false => exact (h.one hcl).1 hre
      | true => rw [eoncodeHead_enc g r hre] at hne; exact (h.one hcl).2 hne
    generalize eoncodeHead g r = r1 at *
    generalize hdAfter g r hd = hd1 at *
    have hh : hd1.isSome = true := by rw [← hb.henc, he]
    cases hbuf : r1.buffer with
    | none =>
      simp only [hbuf]
      refine ⟨trivial, ⟨hb, ?_⟩, fun _ => ⟨trivial, he⟩⟩
      intro _
      exact ⟨by simp [he], by simp [hbuf]⟩
    | some b =>
      have hbn : r1.bodyBuffer = none := hbody (by simp [hbuf])
      have hb0 : ∀ X, r1.wire.flatten ++ (b ++ X) = hd1.getD [] ++ (B ++ X) := by
        intro X; have := hb.bytes X; simpa [bufB, bodyB, hbuf, hbn] using this
      simp only [hbuf]
      split
      · refine ⟨rfl, ⟨⟨?_, ?_, ?_, ?_⟩, ?_⟩, fun _ => ⟨rfl, he⟩⟩
        · intro X; have := hb0 X; simpa [bufB, bodyB] using this
        · simp [he, hh]
        · simp [he]
        · simp [he]
        · intro _; exact ⟨by simp [he], by simp⟩
      · rw [send_ok g hg]
        refine ⟨rfl, ⟨⟨?_, ?_, ?_, ?_⟩, ?_⟩, fun _ => ⟨rfl, he⟩⟩
        · intro X; have := hb0 X; simpa [bufB, bodyB, hbn] using this
        · simp [he, hh]
        · simp [he]
        · simp [he]
        · intro _; exact ⟨by simp [he], by simp⟩
  · rw [if_neg hcl, if_neg hcl]
    exact ⟨rfl, h, fun hc => absurd hc hcl⟩

/-- the tail of Write: requires the head buffer to be out of the way when a flush can happen -/
theorem appendTail_spec (g : Cfg) (hg : NoFail g) (r : R) (hd : Option Bytes) (B bb0 d : Bytes) (cl : Nat)
    (h : IdInv cl r hd B) (hbb : bodyB r = bb0) (hcl : cl > 0 → r.buffer = none ∧ r.headEncoded = true) :
    IdInv cl (appendTail g r bb0 d cl).1 hd (B ++ d) ∧ (appendTail g r bb0 d cl).2 = .ok d.length := by
  unfold appendTail
  dsimp only
  have hb0 : ∀ X, r.wire.flatten ++ (bufB r ++ (bb0 ++ X)) = hd.getD [] ++ (B ++ X) := by
    intro X; have := h.bytes X; rw [hbb] at this; exact this
  split
  · rename_i hc
    have hc' : cl > 0 := by
      simp only [Bool.and_eq_true, decide_eq_true_eq] at hc; exact hc.1
    obtain ⟨hbuf, he⟩ := hcl hc'
    rw [send_ok g hg]
    refine ⟨⟨⟨?_, ?_, ?_, ?_⟩, ?_⟩, rfl⟩
    · intro X
      have := hb0 (d ++ X)
      simpa [bufB, bodyB, hbuf, List.append_assoc] using this
    · exact h.henc
    · exact fun hc => h.nobuf hc
    · intro hc; simp [he] at hc
    · intro _; exact ⟨by intro hc; simp [he] at hc, by intro hc; exact absurd hbuf hc⟩
  · refine ⟨⟨⟨?_, ?_, ?_, ?_⟩, ?_⟩, rfl⟩
    · intro X
      have := hb0 (d ++ X)
      simpa [bufB, bodyB, List.append_assoc] using this
    · exact h.henc
    · exact fun hc => h.nobuf hc
    · exact fun hc => h.nowire hc
    · intro hc
      obtain ⟨hbuf, he⟩ := hcl hc
      exact ⟨by intro hc; simp [he] at hc, by intro hc; exact absurd hbuf hc⟩

/-- conn.Write(data) with nothing pending in front of it -/
theorem sendDirect_spec (g : Cfg) (hg : NoFail g) (r : R) (hd : Option Bytes) (B d : Bytes) (cl : Nat)
    (h : IdInv cl r hd B) (hp1 : bufB r = []) (hp2 : bodyB r = []) (he : r.headEncoded = true) :
    IdInv cl (sendDirect g r d).1 hd (B ++ d) ∧ (sendDirect g r d).2 = .ok d.length := by
  unfold sendDirect
  rw [send_ok g hg]
  dsimp only
  refine ⟨⟨⟨?_, ?_, ?_, ?_⟩, ?_⟩, rfl⟩
  · intro X
    have := h.bytes (d ++ X)
    simp only [bufB, bodyB] at hp1 hp2
    simpa [bufB, bodyB, hp1, hp2, List.append_assoc] using this
  · exact h.henc
  · exact fun hc => h.nobuf hc
  · intro hc; simp [he] at hc
  · exact h.one

theorem sendCached_spec (g : Cfg) (hg : NoFail g) (r : R) (hd : Option Bytes) (B bb0 : Bytes) (cl : Nat)
    (h : IdInv cl r hd B) (hbb : r.bodyBuffer = some bb0) (hbuf : r.buffer = none) (he : r.headEncoded = true) :
    (sendCached g r bb0).2 = true ∧ IdInv cl (sendCached g r bb0).1 hd B ∧
      bodyB (sendCached g r bb0).1 = [] ∧ (sendCached g r bb0).1.buffer = none ∧
      (sendCached g r bb0).1.headEncoded = true := by
  unfold sendCached
  split
  · rw [send_ok g hg]
    dsimp only
    refine ⟨rfl, ⟨⟨?_, ?_, ?_, ?_⟩, ?_⟩, rfl, hbuf, he⟩
    · intro X
      have := h.bytes X
      simpa [bufB, bodyB, hbb, hbuf] using this
    · exact h.henc
    · exact fun hc => h.nobuf hc
    · intro hc; simp [he] at hc
    · intro _; exact ⟨by intro hc; simp [he] at hc, by intro hc; exact absurd hbuf hc⟩
  · rename_i hl
    have : bb0 = [] := by
      cases bb0 with
      | nil => rfl
      | cons a t => simp at hl
    subst this
    exact ⟨rfl, h, by simp [bodyB, hbb], hbuf, he⟩

theorem appendBody_spec (g : Cfg) (hg : NoFail g) (r : R) (hd : Option Bytes) (B d : Bytes) (cl : Nat)
    (h : IdInv cl r hd B) (hcl : cl > 0 → r.buffer = none ∧ r.headEncoded = true) :
    IdInv cl (appendBody g r d cl).1 hd (B ++ d) ∧ (appendBody g r d cl).2 = .ok d.length := by
  unfold appendBody
  dsimp only
  cases hbb : r.bodyBuffer with
  | none =>
    simp only []
    split
    · rename_i hc
      have hc' : cl > 0 := by
        simp only [Bool.and_eq_true, decide_eq_true_eq] at hc; exact hc.1
      obtain ⟨hbuf, he⟩ := hcl hc'
      apply sendDirect_spec g hg _ hd B d cl
      · refine ⟨⟨?_, h.henc, ?_, h.nowire⟩, ?_⟩
        · intro X; have := h.bytes X; simpa [bufB, bodyB, hbb] using this
        · exact fun hc => h.nobuf hc
        · intro _; exact ⟨fun _ => rfl, fun _ => rfl⟩
      · simp [bufB, hbuf]
      · simp [bodyB]
      · exact he
    · exact appendTail_spec g hg r hd B [] d cl h (by simp [bodyB, hbb]) hcl
  | some bb0 =>
    simp only []
    split
    · rename_i hc
      have hc' : cl > 0 := by
        simp only [Bool.and_eq_true, decide_eq_true_eq] at hc; exact hc.1
      obtain ⟨hbuf, he⟩ := hcl hc'
      have hs := sendCached_spec g hg r hd B bb0 cl h hbb hbuf he
      generalize sendCached g r bb0 = p at *
      obtain ⟨r2, ok⟩ := p
      obtain ⟨hok, hi, hb2, hbuf2, he2⟩ := hs
      dsimp only at hok hi hb2 hbuf2 he2
      subst hok
      dsimp only
      split
      · apply sendDirect_spec g hg _ hd B d cl
        · have hb2' : r2.bodyBuffer.getD [] = [] := hb2
          exact ⟨⟨by intro X; have := hi.bytes X; simpa [bufB, bodyB, hbuf2, hb2'] using this,
            hi.henc, hi.nobuf, hi.nowire⟩, fun _ => ⟨fun _ => rfl, fun _ => rfl⟩⟩
        · simp [bufB, hbuf2]
        · simp [bodyB]
        · exact he2
      · exact appendTail_spec g hg r2 hd B [] d cl hi hb2 (fun _ => ⟨hbuf2, he2⟩)
    · exact appendTail_spec g hg r hd B bb0 d cl h (by simp [bodyB, hbb]) hcl

end Resp
