import NbioVerif.Model.Http
import NbioVerif.Generated.HttpTables
/-! Regenerated facts (DESIGN 2.4b): the character-class tables, the method set and the state enum that
    `hhttp facts` tabulated from the real nbhttp functions over all 256 bytes coincide with the definitions
    the model uses. `lake build` re-checks these on every run; if a table in nbhttp/table.go changes, the
    proof below fails and the diff of `Generated/HttpTables.lean` names the entries. -/
namespace Http

/-- the set of bytes on which a class predicate holds -/
def classSet (f : UInt8 → Bool) : List Nat := (List.range 256).filter (fun n => f (UInt8.ofNat n))

theorem isToken_table : classSet isToken = Gen.isTokenSet := by decide
theorem isHex_table : classSet isHex = Gen.isHexSet := by decide
theorem isNum_table : classSet isNum = Gen.isNumSet := by decide
theorem isAlpha_table : classSet isAlpha = Gen.isAlphaSet := by decide
theorem isValidMethodChar_table : classSet isValidMethodChar = Gen.isValidMethodCharSet := by decide

/-- membership form: a class predicate is true exactly on its tabulated set -/
theorem classSet_mem (f : UInt8 → Bool) (c : UInt8) : f c = (classSet f).contains c.toNat := by
  have hc : c.toNat < 256 := c.toNat_lt
  have hof : UInt8.ofNat c.toNat = c := by simp
  cases h : f c
  · symm; simp only [classSet, List.contains_eq_mem, List.mem_filter, List.mem_range, decide_eq_false_iff_not]
    rw [hof, h]; simp
  · symm; simp only [classSet, List.contains_eq_mem, List.mem_filter, List.mem_range, decide_eq_true_eq]
    rw [hof, h]; exact ⟨hc, rfl⟩

theorem isToken_gen (c : UInt8) : isToken c = Gen.isTokenSet.contains c.toNat := by
  rw [← isToken_table]; exact classSet_mem _ c
theorem isHex_gen (c : UInt8) : isHex c = Gen.isHexSet.contains c.toNat := by
  rw [← isHex_table]; exact classSet_mem _ c
theorem isNum_gen (c : UInt8) : isNum c = Gen.isNumSet.contains c.toNat := by
  rw [← isNum_table]; exact classSet_mem _ c
theorem isAlpha_gen (c : UInt8) : isAlpha c = Gen.isAlphaSet.contains c.toNat := by
  rw [← isAlpha_table]; exact classSet_mem _ c
theorem isValidMethodChar_gen (c : UInt8) : isValidMethodChar c = Gen.isValidMethodCharSet.contains c.toNat := by
  rw [← isValidMethodChar_table]; exact classSet_mem _ c

/-- the method set of the model is the key set of `validMethods` in nbhttp/table.go -/
theorem validMethods_table : validMethods = Gen.validMethods.map str := by decide

/-- the model's state numbering is the Go enum of nbhttp/state.go -/
theorem state_table : PState.names.map (fun x => (x.2, x.1.num)) = Gen.stateTab := by decide

theorem state_all (s : PState) : s ∈ PState.all := by cases s <;> decide

/-- the three framing header names -/
theorem framing_headers : Gen.framingHeaders.map str = [str "Transfer-Encoding", str "Trailer", str "Content-Length"] := by
  decide

/-- RFC 7230 §3.2.6: tchar = "!" / "#" / "$" / "%" / "&" / "'" / "*" / "+" / "-" / "." / "^" / "_" / "`" / "|" / "~"
    / DIGIT / ALPHA -/
def rfcTchar (c : UInt8) : Bool :=
  (48 ≤ c.toNat && c.toNat ≤ 57) || (65 ≤ c.toNat && c.toNat ≤ 90) || (97 ≤ c.toNat && c.toNat ≤ 122) ||
  "!#$%&'*+-.^_`|~".toList.any (fun ch => ch.toNat == c.toNat)

/-- nbhttp's token table is exactly RFC 7230 `tchar` -/
theorem isToken_rfc : classSet rfcTchar = Gen.isTokenSet := by decide

/-- RFC 5234 HEXDIG (both cases, as RFC 7230 §4.1 chunk-size allows) -/
def rfcHexdig (c : UInt8) : Bool :=
  (48 ≤ c.toNat && c.toNat ≤ 57) || (65 ≤ c.toNat && c.toNat ≤ 70) || (97 ≤ c.toNat && c.toNat ≤ 102)
theorem isHex_rfc : classSet rfcHexdig = Gen.isHexSet := by decide

theorem maxInt_gen : Gen.maxInt = 2 ^ 63 - 1 := by decide

end Http
