import NbioVerif.Lemmas.C07Close
import NbioVerif.Lemmas.C07Header
/-! C07: the processor glue delivers `reqSpec m` / `respSpec m` for the events of a well-formed message. -/
namespace Http

/-! ### header multimap -/

theorem HMap.get_add (h : HMap) (k v K : Bytes) :
    (h.add k v).get K = if k = K then h.get K ++ [v] else h.get K := by
  induction h with
  | nil =>
    simp only [HMap.add, HMap.get, List.lookup]
    by_cases e : k = K
    · subst e; simp
    · have : (K == k) = false := by simp only [beq_eq_false_iff_ne, ne_eq]; exact fun x => e x.symm
      simp [e, this]
  | cons kv t ih =>
    obtain ⟨k', vs⟩ := kv
    simp only [HMap.add]
    by_cases e1 : k' = k
    · subst e1
      simp only [if_true, HMap.get, List.lookup]
      by_cases e : k' = K
      · subst e; simp
      · have : (K == k') = false := by simp only [beq_eq_false_iff_ne, ne_eq]; exact fun x => e x.symm
        simp [e, this]
    · simp only [e1, if_false, HMap.get, List.lookup]
      by_cases e : K = k'
      · subst e
        have : ¬ k = K := fun x => e1 x.symm
        simp [this]
      · have : (K == k') = false := by simp only [beq_eq_false_iff_ne, ne_eq]; exact e
        simp only [this]
        exact ih

theorem foldl_add_get (fs : List (Bytes × Bytes)) (K : Bytes) : ∀ (h : HMap),
    (fs.foldl (fun h kv => h.add kv.1 kv.2) h).get K = h.get K ++ valuesOf fs K := by
  induction fs with
  | nil => intro h; simp [valuesOf]
  | cons kv fs ih =>
    intro h
    obtain ⟨k, v⟩ := kv
    simp only [List.foldl_cons, ih, HMap.get_add, valuesOf_cons']
    by_cases e : k = K
    · subst e; simp
    · have : (k == K) = false := by simp only [beq_eq_false_iff_ne, ne_eq]; exact e
      simp [e, this]
where
  valuesOf_cons' : ∀ (k v : Bytes) (fs : List (Bytes × Bytes)) (K : Bytes),
      valuesOf ((k, v) :: fs) K = if k == K then v :: valuesOf fs K else valuesOf fs K := by
    intro k v fs K
    simp only [valuesOf, List.filter_cons]
    split <;> simp

/-- looking a name up in the multimap of a field list gives its values in order -/
theorem multimap_get (fs : List (Bytes × Bytes)) (K : Bytes) : (multimap fs).get K = valuesOf fs K := by
  rw [multimap, foldl_add_get]; simp [HMap.get]

/-! ### canonical names are fixed points of the canonicalisation -/

set_option maxRecDepth 8192 in
theorem case_facts (c : UInt8) :
    toUpper (toUpper c) = toUpper c ∧ toLower (toLower c) = toLower c ∧
    (toUpper c == 45) = (c == 45) ∧ (toLower c == 45) = (c == 45) ∧
    isToken (toUpper c) = isToken c ∧ isToken (toLower c) = isToken c := by
  have key := forall_uint8 (fun c => toUpper (toUpper c) == toUpper c && toLower (toLower c) == toLower c &&
    ((toUpper c == 45) == (c == 45)) && ((toLower c == 45) == (c == 45)) &&
    (isToken (toUpper c) == isToken c) && (isToken (toLower c) == isToken c)) (by decide) c
  simp only [Bool.and_eq_true, beq_iff_eq] at key
  obtain ⟨⟨⟨⟨⟨a, b⟩, c⟩, d⟩, e⟩, f⟩ := key
  exact ⟨a, b, c, d, e, f⟩

theorem canonAux_idem (b : Bytes) : ∀ up, canonAux up (canonAux up b) = canonAux up b := by
  induction b with
  | nil => intro up; rfl
  | cons c cs ih =>
    intro up
    have ⟨f1, f2, f3, f4, _, _⟩ := case_facts c
    cases up
    · simp only [canonAux, Bool.false_eq_true, if_false, f2, f4, ih]
    · simp only [canonAux, if_true, f1, f3, ih]

theorem canonAux_token (b : Bytes) : ∀ up, (canonAux up b).all isToken = b.all isToken := by
  induction b with
  | nil => intro up; rfl
  | cons c cs ih =>
    intro up
    have ⟨_, _, _, _, f5, f6⟩ := case_facts c
    cases up
    · simp only [canonAux, Bool.false_eq_true, if_false, List.all_cons, f6, ih]
    · simp only [canonAux, if_true, List.all_cons, f5, ih]

/-- `http.CanonicalHeaderKey` is idempotent -/
theorem canonicalKey_idem (b : Bytes) : canonicalKey (canonicalKey b) = canonicalKey b := by
  unfold canonicalKey
  by_cases h : b.all isToken = true
  · simp only [h, if_true, canonAux_token, canonAux_idem]
  · simp only [h]; simp [h]

theorem Hdr.key_idem (h : Hdr) : canonicalKey h.key = h.key := canonicalKey_idem h.name

/-! ### running the processor over the events of a message -/

theorem procRun_append (c : Bool) (a b : List Ev) : ∀ (cur : Option Building) (acc : List Delivered),
    procRun c cur (a ++ b) acc =
      match procRun c cur a acc with
      | some (cur', acc') => procRun c cur' b acc'
      | none => none := by
  induction a with
  | nil => intro cur acc; simp [procRun]
  | cons e es ih =>
    intro cur acc
    simp only [List.cons_append, procRun]
    cases procStep c cur e with
    | none => rfl
    | some r => simp only; exact ih _ _

/-- server: header events accumulate into the header multimap -/
theorem procRun_headers_server (hs : List Hdr) : ∀ (b : Building) (acc : List Delivered),
    procRun false (some b) (hs.map fun h => Ev.header h.key h.evValue) acc =
      some (some { b with header := (fieldsOf hs).foldl (fun h kv => h.add kv.1 kv.2) b.header }, acc) := by
  induction hs with
  | nil => intro b acc; simp [procRun, fieldsOf]
  | cons h hs ih =>
    intro b acc
    simp only [List.map_cons, procRun, procStep, serverStep, Bool.false_eq_true, if_false, List.append_nil, ih, fieldsOf, List.foldl_cons]

/-- client: the same with `Header.Add`, which canonicalises the (already canonical) name again -/
theorem procRun_headers_client (hs : List Hdr) : ∀ (b : Building) (acc : List Delivered),
    procRun true (some b) (hs.map fun h => Ev.header h.key h.evValue) acc =
      some (some { b with header := (fieldsOf hs).foldl (fun h kv => h.add kv.1 kv.2) b.header }, acc) := by
  induction hs with
  | nil => intro b acc; simp [procRun, fieldsOf]
  | cons h hs ih =>
    intro b acc
    simp only [List.map_cons, procRun, procStep, clientStep, if_true, List.append_nil, ih, fieldsOf, List.foldl_cons,
      Hdr.key_idem]

theorem procRun_bodies (c : Bool) (cs : List Chunk) : ∀ (b : Building) (acc : List Delivered),
    procRun c (some b) (cs.map fun c => Ev.body c.data) acc =
      some (some { b with body := b.body ++ (cs.map (·.data)).flatten }, acc) := by
  induction cs with
  | nil => intro b acc; simp [procRun]
  | cons x xs ih =>
    intro b acc
    cases c <;> simp [procRun, procStep, serverStep, clientStep, ih]

theorem procRun_trailers (c : Bool) (trs : List Hdr) : ∀ (b : Building) (acc : List Delivered),
    procRun c (some b) (trs.map fun h => Ev.trailer h.key h.trValue) acc =
      some (some { b with trailer := (trs.map fun h => (h.key, h.trValue)).foldl (fun h kv => h.add kv.1 kv.2) b.trailer }, acc) := by
  induction trs with
  | nil => intro b acc; simp [procRun]
  | cons x xs ih =>
    intro b acc
    cases c <;> simp [procRun, procStep, serverStep, clientStep, ih, Hdr.key_idem]

/-- the body events of a message, from a message under construction with an empty body and no trailers -/
theorem procRun_body (c : Bool) (body : Body) (b : Building) (acc : List Delivered)
    (hb : b.body = []) (ht : b.trailer = []) :
    procRun c (some b) body.events acc =
      procRun c (some { b with body := body.bytes, trailer := multimap body.trailers }) [Ev.complete] acc := by
  cases body with
  | none =>
    simp only [Body.events, Body.bytes, Body.trailers, multimap, List.foldl_nil]
    congr 2; cases b; simp only at hb ht; subst hb ht; rfl
  | fixed d =>
    simp only [Body.events, Body.bytes, Body.trailers, multimap, List.foldl_nil]
    by_cases hd : d = []
    · subst hd
      simp only [if_true]
      congr 2; cases b; simp only at hb ht; subst hb ht; rfl
    · simp only [hd, if_false]
      cases c <;> simp [procRun, procStep, serverStep, clientStep, hb, ht]
  | chunked cs last ext trs =>
    simp only [Body.events, Body.bytes, Body.trailers, multimap]
    rw [procRun_append, procRun_append, procRun_bodies]
    simp only [procRun_trailers, hb, ht, List.nil_append]

/-- C07 glue, server side: for the events of a well-formed request the handler receives exactly `reqSpec m` -/
theorem procRun_request (m : Msg) (me t pr : Bytes) (hs : m.start = .request me t pr) (hwf : wfMsg m = true) :
    procRun false none (eventsOf m) [] = some (none, (reqSpec m).toList.map Delivered.req) := by
  simp only [wfMsg, Bool.and_eq_true] at hwf
  obtain ⟨⟨⟨hstart, _⟩, hconn⟩, _⟩ := hwf
  rw [hs] at hstart
  simp only [Start.wf, Bool.and_eq_true, Bool.or_eq_true, beq_iff_eq] at hstart
  obtain ⟨⟨_, ht⟩, _⟩ := hstart
  have hhost : urlHostEmpty me t = true := by
    rcases ht with ⟨h1, h2⟩ | ⟨h1, _⟩
    · subst h1 h2; decide
    · simp [urlHostEmpty, h1]
  have hd : m.declared = m.body.declared := by simp [Msg.declared, Msg.bodiless, hs]
  simp only [eventsOf, hd, hs, Start.events, List.cons_append, List.nil_append, List.append_assoc]
  simp only [procRun, procStep, serverStep, Bool.false_eq_true, if_false, List.append_nil]
  rw [procRun_append, procRun_headers_server]
  simp only [List.cons_append, List.nil_append, procRun, procStep, serverStep, Bool.false_eq_true, if_false, List.append_nil]
  rw [procRun_body false m.body _ [] rfl rfl]
  simp only [procRun, procStep, serverStep, Bool.false_eq_true, if_false, List.nil_append]
  have hf : List.foldl (fun (h : HMap) (kv : Bytes × Bytes) => h.add kv.fst kv.snd) [] (fieldsOf m.headers) = multimap m.fields := rfl
  simp only [reqSpec, hs, Option.toList, List.map_cons, List.map_nil, deliverReq, hf, HMap.first, multimap_get, hhost, if_true]
  have hc := closeDecision_rfc ((parseHTTPVersion pr).getD (0, 0)).1 ((parseHTTPVersion pr).getD (0, 0)).2
    (valuesOf m.fields (str "Connection")) hconn
  simp only [connectionOptions]
  rw [hc]

theorem glue_request (m : Msg) (me t pr : Bytes) (hs : m.start = .request me t pr) (hwf : wfMsg m = true) :
    deliveredOf false (eventsOf m) = (reqSpec m).toList.map Delivered.req := by
  simp only [deliveredOf, procRun_request m me t pr hs hwf]

/-- C07 glue, client side: for the events of a well-formed response the callback receives exactly `respSpec m` -/
theorem procRun_response (m : Msg) (pr code reason : Bytes) (hs : m.start = .status pr code reason) :
    procRun true none (eventsOf m) [] = some (none, (respSpec m).toList.map Delivered.resp) := by
  simp only [eventsOf, hs, Start.events, List.cons_append, List.nil_append, List.append_assoc]
  simp only [procRun, procStep, clientStep, if_true, List.append_nil]
  rw [procRun_append, procRun_headers_client]
  simp only [List.cons_append, List.nil_append, procRun, procStep, clientStep, if_true, List.append_nil]
  rw [procRun_body true m.body _ [] rfl rfl]
  simp only [procRun, procStep, clientStep, if_true, List.nil_append]
  have hf : List.foldl (fun (h : HMap) (kv : Bytes × Bytes) => h.add kv.fst kv.snd) [] (fieldsOf m.headers) = multimap m.fields := rfl
  simp only [respSpec, hs, Option.toList, List.map_cons, List.map_nil, deliverResp, hf]

theorem glue_response (m : Msg) (pr code reason : Bytes) (hs : m.start = .status pr code reason) :
    deliveredOf true (eventsOf m) = (respSpec m).toList.map Delivered.resp := by
  simp only [deliveredOf, procRun_response m pr code reason hs]

/-- the accumulator of `procRun` is a prefix of its output -/
theorem procRun_acc' (c : Bool) (evs : List Ev) : ∀ (cur : Option Building) (acc : List Delivered),
    procRun c cur evs acc = (procRun c cur evs []).map fun r => (r.1, acc ++ r.2) := by
  induction evs with
  | nil => intro cur acc; simp [procRun]
  | cons e es ih =>
    intro cur acc
    simp only [procRun]
    cases procStep c cur e with
    | none => rfl
    | some r =>
      simp only
      rw [ih r.1 (acc ++ r.2), ih r.1 ([] ++ r.2)]
      cases procRun c r.1 es [] with
      | none => rfl
      | some q => simp

/-- pipelining at the delivered level, server side: for a sequence of well-formed requests the handler receives
    exactly their `reqSpec`s, in order -/
theorem procRun_requests (ms : List Msg)
    (hall : ∀ m ∈ ms, wfMsg m = true ∧ ∃ me t pr, m.start = .request me t pr) :
    procRun false none (ms.map eventsOf).flatten [] =
      some (none, (ms.map fun m => (reqSpec m).toList.map Delivered.req).flatten) := by
  induction ms with
  | nil => simp [procRun]
  | cons m ms ih =>
    obtain ⟨hwf, me, t, pr, hs⟩ := hall m (by simp)
    simp only [List.map_cons, List.flatten_cons]
    rw [procRun_append, procRun_request m me t pr hs hwf]
    simp only
    rw [procRun_acc', ih (fun x hx => hall x (by simp [hx]))]
    simp

/-- pipelining at the delivered level, client side -/
theorem procRun_responses (ms : List Msg) (hall : ∀ m ∈ ms, ∃ pr code reason, m.start = .status pr code reason) :
    procRun true none (ms.map eventsOf).flatten [] =
      some (none, (ms.map fun m => (respSpec m).toList.map Delivered.resp).flatten) := by
  induction ms with
  | nil => simp [procRun]
  | cons m ms ih =>
    obtain ⟨pr, code, reason, hs⟩ := hall m (by simp)
    simp only [List.map_cons, List.flatten_cons]
    rw [procRun_append, procRun_response m pr code reason hs]
    simp only
    rw [procRun_acc', ih (fun x hx => hall x (by simp [hx]))]
    simp

/-- header lookup, stated independently of the multimap representation: what the handler finds under a name is the
    list of that field's values in arrival order (a plain `filter` over the field list) -/
theorem header_lookup (fs : List (Bytes × Bytes)) (k : Bytes) :
    (multimap fs).get k = (fs.filter (fun kv => kv.1 == k)).map (·.2) := multimap_get fs k

end Http
