import NbioVerif.Lemmas.C09Proj
/-! projections of the field `closeDelim` (set by Flush only) and of `markDelim` (which touches nothing else);
the first block is the `_hasBody` block of C09Proj with the field renamed -/
namespace Resp

@[simp] theorem eoncodeHead_closeDelim (g : Cfg) (r : R) : (eoncodeHead g r).closeDelim = r.closeDelim := by
  unfold eoncodeHead; split <;> rfl

@[simp] theorem writeHeader_closeDelim (r : R) (c : Nat) (st : Bytes) : (writeHeader r c st).closeDelim = r.closeDelim := by
  unfold writeHeader; dsimp only; repeat' split
  all_goals rfl

@[simp] theorem checkChunked_closeDelim (g : Cfg) (r : R) : (checkChunked g r).closeDelim = r.closeDelim := by
  unfold checkChunked; dsimp only; repeat' split
  all_goals rfl

@[simp] theorem contentLength_closeDelim (r : R) : (contentLength r).1.closeDelim = r.closeDelim := by
  unfold contentLength; dsimp only; repeat' split
  all_goals rfl

@[simp] theorem send_closeDelim (g : Cfg) (r : R) (b : Bytes) : (send g r b).1.closeDelim = r.closeDelim := by
  unfold send; dsimp only; (repeat' split) <;> simp [*]
@[simp] theorem chunkTail_closeDelim (g : Cfg) (r : R) (nb d : Bytes) : (chunkTail g r nb d).1.closeDelim = r.closeDelim := by
  unfold chunkTail; dsimp only; (repeat' split) <;> simp [*]
@[simp] theorem writeChunk_closeDelim (g : Cfg) (r : R) (d : Bytes) : (writeChunk g r d).1.closeDelim = r.closeDelim := by
  unfold writeChunk; dsimp only; (repeat' split) <;> simp [*]
@[simp] theorem takeHead_closeDelim (g : Cfg) (r : R) (l cl : Nat) : (takeHead g r l cl).1.closeDelim = r.closeDelim := by
  unfold takeHead; dsimp only; (repeat' split) <;> simp [*]
@[simp] theorem appendTail_closeDelim (g : Cfg) (r : R) (bb d : Bytes) (cl : Nat) : (appendTail g r bb d cl).1.closeDelim = r.closeDelim := by
  unfold appendTail; dsimp only; (repeat' split) <;> simp [*]
@[simp] theorem sendDirect_closeDelim (g : Cfg) (r : R) (d : Bytes) : (sendDirect g r d).1.closeDelim = r.closeDelim := by
  unfold sendDirect; dsimp only; (repeat' split) <;> simp [*]
@[simp] theorem sendCached_closeDelim (g : Cfg) (r : R) (bb : Bytes) : (sendCached g r bb).1.closeDelim = r.closeDelim := by
  unfold sendCached; dsimp only; (repeat' split) <;> simp [*]
@[simp] theorem flushBuf_closeDelim (g : Cfg) (r : R) : (flushBuf g r).closeDelim = r.closeDelim := by
  unfold flushBuf; dsimp only; (repeat' split) <;> simp [*]
@[simp] theorem flushBodyBuf_closeDelim (g : Cfg) (r : R) : (flushBodyBuf g r).closeDelim = r.closeDelim := by
  unfold flushBodyBuf; dsimp only; (repeat' split) <;> simp [*]
@[simp] theorem appendBody_closeDelim (g : Cfg) (r : R) (d : Bytes) (cl : Nat) : (appendBody g r d cl).1.closeDelim = r.closeDelim := by
  unfold appendBody
  dsimp only
  split
  · split <;> simp
  · split
    · split
      · rename_i heq; have := congrArg Prod.fst heq; dsimp only at this; rw [← this]; simp
      · rename_i heq; have := congrArg Prod.fst heq; dsimp only at this
        split <;> simp [← this]
    · simp

theorem writeBody_closeDelim (g : Cfg) (r : R) (d : Bytes) : (writeBody g r d).1.closeDelim = r.closeDelim := by
  unfold writeBody
  split
  · simp
  · have hc := contentLength_closeDelim r
    generalize contentLength r = p at *
    obtain ⟨r1, v⟩ := p
    cases v with
    | none => exact hc
    | some cl =>
      dsimp only at hc ⊢
      unfold writeIdent
      split
      · exact hc
      · have ht := takeHead_closeDelim g r1 d.length cl
        generalize takeHead g r1 d.length cl = q at *
        obtain ⟨r2, ok⟩ := q
        cases ok with
        | false => dsimp only at ht ⊢; rw [ht, hc]
        | true => dsimp only at ht ⊢; rw [appendBody_closeDelim, ht, hc]

theorem write_closeDelim (g : Cfg) (r : R) (d : Bytes) : (write g r d).1.closeDelim = r.closeDelim := by
  unfold write
  split
  · rfl
  · rw [writeBody_closeDelim]
    show (checkChunked g (writeHeader200 r)).closeDelim = r.closeDelim
    unfold writeHeader200
    simp

@[simp] theorem mergeBody_closeDelim (g : Cfg) (r : R) (hb : Bytes) : (mergeBody g r hb).1.closeDelim = r.closeDelim := by
  unfold mergeBody; dsimp only; (repeat' split) <;> simp [*]

@[simp] theorem mergeStep_closeDelim (g : Cfg) (r : R) : (mergeStep g r).1.closeDelim = r.closeDelim := by
  unfold mergeStep; split <;> simp

@[simp] theorem sendFreeBuffer_closeDelim (g : Cfg) (r : R) : (sendFreeBuffer g r).1.closeDelim = r.closeDelim := by
  unfold sendFreeBuffer; dsimp only; (repeat' split) <;> simp [*]

@[simp] theorem sendFreeBody_closeDelim (g : Cfg) (r : R) : (sendFreeBody g r).1.closeDelim = r.closeDelim := by
  unfold sendFreeBody; dsimp only; (repeat' split) <;> simp [*]

@[simp] theorem flushIdentity_closeDelim (g : Cfg) (r : R) : (flushIdentity g r).1.closeDelim = r.closeDelim := by
  unfold flushIdentity; dsimp only; (repeat' split) <;> simp

@[simp] theorem flushChunked_closeDelim (g : Cfg) (r : R) : (flushChunked g r).1.closeDelim = r.closeDelim := by
  unfold flushChunked; simp

/-! ### markDelim touches `closeDelim` only -/

@[simp] theorem markDelim_wire (r : R) : (markDelim r).wire = r.wire := by unfold markDelim; split <;> rfl
@[simp] theorem markDelim_buffer (r : R) : (markDelim r).buffer = r.buffer := by unfold markDelim; split <;> rfl
@[simp] theorem markDelim_bodyBuffer (r : R) : (markDelim r).bodyBuffer = r.bodyBuffer := by unfold markDelim; split <;> rfl
@[simp] theorem markDelim_headEncoded (r : R) : (markDelim r).headEncoded = r.headEncoded := by unfold markDelim; split <;> rfl
@[simp] theorem markDelim_chunked (r : R) : (markDelim r).chunked = r.chunked := by unfold markDelim; split <;> rfl
@[simp] theorem markDelim_chunkChecked (r : R) : (markDelim r).chunkChecked = r.chunkChecked := by unfold markDelim; split <;> rfl
@[simp] theorem markDelim_statusCode (r : R) : (markDelim r).statusCode = r.statusCode := by unfold markDelim; split <;> rfl
@[simp] theorem markDelim_status (r : R) : (markDelim r).status = r.status := by unfold markDelim; split <;> rfl
@[simp] theorem markDelim_header (r : R) : (markDelim r).header = r.header := by unfold markDelim; split <;> rfl
@[simp] theorem markDelim_hasBody (r : R) : (markDelim r).hasBody = r.hasBody := by unfold markDelim; split <;> rfl
@[simp] theorem markDelim_bodyWritten (r : R) : (markDelim r).bodyWritten = r.bodyWritten := by unfold markDelim; split <;> rfl
@[simp] theorem markDelim_contentLen (r : R) : (markDelim r).contentLen = r.contentLen := by unfold markDelim; split <;> rfl
@[simp] theorem markDelim_trailer (r : R) : (markDelim r).trailer = r.trailer := by unfold markDelim; split <;> rfl
@[simp] theorem markDelim_attempts (r : R) : (markDelim r).attempts = r.attempts := by unfold markDelim; split <;> rfl

theorem markDelim_mono (r : R) (h : r.closeDelim = true) : (markDelim r).closeDelim = true := by
  unfold markDelim; split
  · rfl
  · exact h

end Resp
