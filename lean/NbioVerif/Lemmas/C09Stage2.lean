import NbioVerif.Lemmas.C09Head
/-! Stage 2 of C09, continued: header operations on declared trailer keys do not change the head; the
status line and the trailer section parse back. -/
namespace Resp

theorem handlerPairs_cons (tk : List Bytes) (e : Bytes × List Bytes) (t : Header) :
    handlerPairs tk (e :: t) = (if tk.contains e.1 then [] else e.2.map fun v => (e.1, v)) ++ handlerPairs tk t := by
  unfold handlerPairs; simp

theorem handlerPairs_append (tk : List Bytes) (a b : Header) :
    handlerPairs tk (a ++ b) = handlerPairs tk a ++ handlerPairs tk b := by
  unfold handlerPairs; simp

/-- replacing the values of a declared trailer key does not change the header lines of the head -/
theorem handlerPairs_map_tr (tk : List Bytes) (h : Header) (k : Bytes) (f : Bytes × List Bytes → List Bytes)
    (hk : tk.contains k = true) :
    handlerPairs tk (h.map fun e => if e.1 == k then (k, f e) else e) = handlerPairs tk h := by
  induction h with
  | nil => rfl
  | cons e t ih =>
    rw [List.map_cons, handlerPairs_cons, handlerPairs_cons, ih]
    congr 1
    have hk' : k ∈ tk := by simpa using hk
    by_cases he : e.1 = k
    · simp [he, hk']
    · have : (e.1 == k) = false := by simp [he]
      simp [this]

theorem handlerPairs_hset_tr (tk : List Bytes) (h : Header) (k v : Bytes) (hk : tk.contains k = true) :
    handlerPairs tk (hset h k v) = handlerPairs tk h := by
  unfold hset
  split
  · exact handlerPairs_map_tr tk h k (fun _ => [v]) hk
  · have hk' : k ∈ tk := by simpa using hk
    rw [handlerPairs_append]; simp [handlerPairs, hk']

theorem handlerPairs_hadd_tr (tk : List Bytes) (h : Header) (k v : Bytes) (hk : tk.contains k = true) :
    handlerPairs tk (hadd h k v) = handlerPairs tk h := by
  unfold hadd
  split
  · exact handlerPairs_map_tr tk h k (fun e => e.2 ++ [v]) hk
  · have hk' : k ∈ tk := by simpa using hk
    rw [handlerPairs_append]; simp [handlerPairs, hk']

theorem handlerPairs_hdel_tr (tk : List Bytes) (h : Header) (k : Bytes) (hk : tk.contains k = true) :
    handlerPairs tk (hdel h k) = handlerPairs tk h := by
  unfold hdel
  induction h with
  | nil => rfl
  | cons e t ih =>
    have hk' : k ∈ tk := by simpa using hk
    by_cases he : e.1 = k
    · have : (e.1 != k) = false := by simp [he]
      rw [List.filter_cons, this]
      simp only [Bool.false_eq_true, ↓reduceIte]
      rw [handlerPairs_cons, ih]
      simp [he, hk']
    · have : (e.1 != k) = true := by simp [he]
      rw [List.filter_cons, this]
      simp only [↓reduceIte]
      rw [handlerPairs_cons, handlerPairs_cons, ih]

/-- the keys whose presence decides an automatic header, and the trailer declaration itself -/
def headKeys : List Bytes := [kTrailer, kCT, kCL, kConn, kDate]

/-- the head a state would get depends on the header map only through this -/
def SameHead (h0 h : Header) : Prop :=
  handlerPairs (hget h kTrailer) h = handlerPairs (hget h0 kTrailer) h0 ∧ ∀ k ∈ headKeys, hget h k = hget h0 k

/-- a body-phase header operation that only concerns a declared trailer (its value, typically) -/
def BOp.trailerOnly (h0 : Header) : BOp → Prop
  | .setH k _ => (hget h0 kTrailer).contains k = true ∧ k ∉ headKeys
  | .addH k _ => (hget h0 kTrailer).contains k = true ∧ k ∉ headKeys
  | .delH k => (hget h0 kTrailer).contains k = true ∧ k ∉ headKeys
  | _ => True

theorem sameHead_op (h0 h : Header) (op : BOp) (hop : op.trailerOnly h0) (hs : SameHead h0 h) :
    SameHead h0 (op.onHeader h) := by
  obtain ⟨s1, s2⟩ := hs
  have htr : hget h kTrailer = hget h0 kTrailer := s2 kTrailer (by simp [headKeys])
  cases op with
  | write d => exact ⟨s1, s2⟩
  | flush => exact ⟨s1, s2⟩
  | setH k v =>
    obtain ⟨hk, hnk⟩ := hop
    have hne : ∀ k' ∈ headKeys, k' ≠ k := fun k' hk' hc => hnk (hc ▸ hk')
    refine ⟨?_, fun k' hk' => (hget_hset_ne h k v k' (hne k' hk')).trans (s2 k' hk')⟩
    show handlerPairs (hget (hset h k v) kTrailer) (hset h k v) = _
    rw [hget_hset_ne h k v kTrailer (hne _ (by simp [headKeys])), htr, handlerPairs_hset_tr _ _ _ _ hk]
    have s1' := s1
    rw [htr] at s1'
    exact s1'
  | addH k v =>
    obtain ⟨hk, hnk⟩ := hop
    have hne : ∀ k' ∈ headKeys, k' ≠ k := fun k' hk' hc => hnk (hc ▸ hk')
    refine ⟨?_, fun k' hk' => (hget_hadd_ne h k v k' (hne k' hk')).trans (s2 k' hk')⟩
    show handlerPairs (hget (hadd h k v) kTrailer) (hadd h k v) = _
    rw [hget_hadd_ne h k v kTrailer (hne _ (by simp [headKeys])), htr, handlerPairs_hadd_tr _ _ _ _ hk]
    have s1' := s1
    rw [htr] at s1'
    exact s1'
  | delH k =>
    obtain ⟨hk, hnk⟩ := hop
    have hne : ∀ k' ∈ headKeys, k' ≠ k := fun k' hk' hc => hnk (hc ▸ hk')
    refine ⟨?_, fun k' hk' => (hget_hdel_ne h k k' (hne k' hk')).trans (s2 k' hk')⟩
    show handlerPairs (hget (hdel h k) kTrailer) (hdel h k) = _
    rw [hget_hdel_ne h k kTrailer (hne _ (by simp [headKeys])), htr, handlerPairs_hdel_tr _ _ _ hk]
    have s1' := s1
    rw [htr] at s1'
    exact s1'

/-! ### status line -/

/-- reference parser of a status line: `proto SP 3DIGIT SP reason` -/
def parseStatusLine (l : Bytes) : Option (Bytes × Nat × Bytes) :=
  match l.dropWhile (· != 32) with
  | 32 :: a :: b :: c :: 32 :: reason =>
    if isNum a && isNum b && isNum c then
      some (l.takeWhile (· != 32), (a.toNat - 48) * 100 + (b.toNat - 48) * 10 + (c.toNat - 48), reason)
    else none
  | _ => none

theorem digit_val : ∀ x, x ≤ 9 → isNum (UInt8.ofNat (48 + x)) = true ∧ (UInt8.ofNat (48 + x)).toNat - 48 = x := by
  decide

/-- **status line round trip** for every code of at most three digits and a protocol string without space -/
theorem parseStatusLine_statusBody (g : Cfg) (r : R) (hp : ∀ c ∈ g.proto, c ≠ 32) (hc : r.statusCode ≤ 999) :
    parseStatusLine (statusBody g r) = some (g.proto, r.statusCode, r.status) := by
  have hd : ∀ (p x : Bytes), (∀ c ∈ p, c ≠ 32) → (p ++ 32 :: x).dropWhile (· != 32) = 32 :: x ∧
      (p ++ 32 :: x).takeWhile (· != 32) = p := by
    intro p x hp
    induction p with
    | nil => simp [List.dropWhile, List.takeWhile]
    | cons c t ih =>
      have hc' : c ≠ 32 := hp c (List.mem_cons_self ..)
      obtain ⟨i1, i2⟩ := ih (fun c' h' => hp c' (List.mem_cons_of_mem _ h'))
      exact ⟨by simp [List.dropWhile_cons, hc', i1], by simp [List.takeWhile_cons, hc', i2]⟩
  have e : statusBody g r = g.proto ++ 32 :: (UInt8.ofNat (48 + r.statusCode / 100) ::
      UInt8.ofNat (48 + (r.statusCode % 100) % 256 / 10) :: UInt8.ofNat (48 + r.statusCode % 10) :: 32 :: r.status) := by
    simp [statusBody, List.append_assoc]
  obtain ⟨d1, d2⟩ := hd g.proto (UInt8.ofNat (48 + r.statusCode / 100) ::
      UInt8.ofNat (48 + (r.statusCode % 100) % 256 / 10) :: UInt8.ofNat (48 + r.statusCode % 10) :: 32 :: r.status) hp
  unfold parseStatusLine
  rw [e, d1, d2]
  obtain ⟨a1, a2⟩ := digit_val (r.statusCode / 100) (by omega)
  obtain ⟨b1, b2⟩ := digit_val ((r.statusCode % 100) % 256 / 10) (by omega)
  obtain ⟨c1, c2⟩ := digit_val (r.statusCode % 10) (by omega)
  have hn : ((UInt8.ofNat (48 + r.statusCode / 100)).toNat - 48) * 100 +
      ((UInt8.ofNat (48 + (r.statusCode % 100) % 256 / 10)).toNat - 48) * 10 +
      ((UInt8.ofNat (48 + r.statusCode % 10)).toNat - 48) = r.statusCode := by
    rw [a2, b2, c2]; omega
  simp only [a1, b1, c1, Bool.and_self, ↓reduceIte, hn]

/-! ### trailer section -/

/-- the trailer fields flushResponse sends: the keys captured by eoncodeHead with the value the header map
holds now (or the captured one) -/
def trailerPairs (r : R) : List (Bytes × Bytes) :=
  r.trailer.map fun kv => (kv.1, match hget r.header kv.1 with | v :: _ => v | [] => kv.2)

theorem lastChunk_normal (r : R) : lastChunk r = str "0\r\n" ++ (renderPairs (trailerPairs r) ++ 13 :: 10 :: []) := by
  unfold lastChunk trailerLines trailerPairs renderPairs
  cases ht : r.trailer with
  | nil =>
    have e0 : str "0\r\n\r\n" = str "0\r\n" ++ [13, 10] := by decide
    simp [e0]
  | cons a t => simp [List.map_map, Function.comp_def, CRLF, List.append_assoc]; rfl

/-- **trailer section round trip**: what follows the last-chunk line parses to the trailer fields -/
theorem parseHeaders_trailers (r : R) (X : Bytes)
    (hk : ∀ p ∈ trailerPairs r, nameOk p.1) (hv : ∀ p ∈ trailerPairs r, noCR p.2) :
    parseHeaders ((trailerPairs r).length + 1) (renderPairs (trailerPairs r) ++ 13 :: 10 :: X) =
      some (trailerPairs r, X) :=
  parseHeaders_render _ X hk hv _ (Nat.lt_succ_self _)

end Resp
