import NbioVerif.Lemmas.RfcM
import NbioVerif.Lemmas.C15
/-! Decoder agreement: the model's `nextFrame` (header decode, size checks, validFrame) is the RFC transcription's
    `decode1` followed by the model's checks (`judge`), on every byte string. -/
namespace Ws
open WsF

theorem bit7 (x : UInt8) : (x.toNat / 128 % 2 == 1) = decide (x.toNat ≥ 128) := by
  have := x.toNat_lt
  by_cases h : x.toNat ≥ 128 <;> simp [h] <;> omega

/-- the size checks only look at opcode and declared length -/
def szHdr (op : Nat) (n : Int) : HdrInfo :=
  { opcode := op, fin := false, r1 := false, r2 := false, r3 := false, masked := false, bodyLen := n, headLen := 0 }

theorem sizeCheck_sz (g : Cfg) (ml : Nat) (h : HdrInfo) : sizeCheck g ml h = sizeCheck g ml (szHdr h.opcode h.bodyLen) := rfl

/-- the model's checks applied to a frame decoded by the specification decoder -/
def judge (g : Cfg) (s : S) : Rfc.D1 → NF
  | .need => .need
  | .frame f total =>
    if f.topbit then .err .invalidFragment else
    match sizeCheck g (msgLen s) (szHdr f.op f.declared) with
    | some e => .err e
    | none =>
      if f.partial then .need else
      match validFrame g f.op f.fin f.r1 f.r2 f.r3 s.k.expecting with
      | some e => .err e
      | none => .frame total f.op f.payload f.fin f.r1

/-- an incomplete extended length never trips the size checks while the assembly is within the limit -/
theorem sizeCheck_neg (g : Cfg) (s : S) (hw : Within g s) (x0 x1 : UInt8) :
    sizeCheck g (msgLen s) (mkHdr x0 x1 (-1) 2) = none := by
  unfold sizeCheck mkHdr
  simp only
  have h1 : tooLarge g ((msgLen s : Int) + -1) = false := by
    unfold tooLarge
    by_cases hl : g.msgLimit > 0
    · have := hw hl
      simp only [hl, decide_true, Bool.true_and, decide_eq_false_iff_not]
      omega
    · simp [hl]
  simp [h1]

/-- a complete header: nextFrame = judge of the specification's frame -/
theorem nextFrame_mk (g : Cfg) (s : S) (x0 x1 : UInt8) (v hl : Nat)
    (hdec : decodeHdr s.cache = some (.ok (mkHdr x0 x1 (Int.ofNat v) hl))) :
    nextFrame g s = judge g s (RfcM.mkD1 s.cache x0 x1 v hl false) := by
  unfold nextFrame
  rw [hdec]
  simp only
  have hsz : sizeCheck g (msgLen s) (mkHdr x0 x1 (Int.ofNat v) hl) = sizeCheck g (msgLen s) (szHdr (x0.toNat % 16) v) := rfl
  have hhl : (mkHdr x0 x1 (Int.ofNat v) hl).headLen = if x1.toNat ≥ 128 then hl + 4 else hl := by
    simp [mkHdr, bit7]
  have hbl : (mkHdr x0 x1 (Int.ofNat v) hl).bodyLen = (v : Int) := rfl
  unfold RfcM.mkD1 judge
  simp only [Bool.false_eq_true, if_false]
  by_cases hp : s.cache.length < (if x1.toNat ≥ 128 then hl + 4 else hl) + v
  · -- partial
    simp only [hp, if_true]
    rw [hsz]
    cases sizeCheck g (msgLen s) (szHdr (x0.toNat % 16) v) with
    | some e => rfl
    | none =>
      simp only [hhl, hbl, Int.toNat_natCast]
      have : ¬ ((0:Int) ≤ (v:Int) ∧ s.cache.length ≥ (if x1.toNat ≥ 128 then hl + 4 else hl) + v) := by omega
      rw [if_neg this]; simp
  · simp only [hp, if_false]
    rw [hsz]
    cases sizeCheck g (msgLen s) (szHdr (x0.toNat % 16) v) with
    | some e => rfl
    | none =>
      simp only [hhl, hbl, Int.toNat_natCast]
      have : ((0:Int) ≤ (v:Int) ∧ s.cache.length ≥ (if x1.toNat ≥ 128 then hl + 4 else hl) + v) := by
        refine ⟨Int.natCast_nonneg _, ?_⟩; omega
      simp only [ge_iff_le, this, and_self, if_true, Bool.false_eq_true, if_false]
      have hfb : frameBody s.cache (mkHdr x0 x1 (Int.ofNat v) hl) =
          (if decide (x1.toNat ≥ 128) = true then
            maskSpec ((s.cache.drop ((if x1.toNat ≥ 128 then hl + 4 else hl) - 4)).take 4)
              ((s.cache.drop (if x1.toNat ≥ 128 then hl + 4 else hl)).take v)
           else (s.cache.drop (if x1.toNat ≥ 128 then hl + 4 else hl)).take v) := by
        unfold frameBody
        simp only [hhl, hbl, Int.toNat_natCast]
        simp [mkHdr, bit7]
      rw [hfb]
      simp only [mkHdr, bit7]
      simp
      rfl

theorem nextFrame_negHdr (g : Cfg) (s : S) (hw : Within g s) (x0 x1 : UInt8)
    (hdec : decodeHdr s.cache = some (.ok (mkHdr x0 x1 (-1) 2))) : nextFrame g s = .need := by
  unfold nextFrame
  rw [hdec]
  simp only [sizeCheck_neg g s hw]
  have : ¬ ((mkHdr x0 x1 (-1) 2).bodyLen ≥ 0 ∧ s.cache.length ≥ (mkHdr x0 x1 (-1) 2).headLen + (mkHdr x0 x1 (-1) 2).bodyLen.toNat) := by
    intro h
    have h1 := h.1
    simp [mkHdr] at h1
  rw [if_neg this]

/-- Decoder agreement (all byte strings): `nextFrame` = the RFC decoder followed by the model's checks -/
theorem nextFrame_eq_judge (g : Cfg) (s : S) (hw : Within g s) : nextFrame g s = judge g s (RfcM.decode1 s.cache) := by
  match hc : s.cache with
  | [] => simp [nextFrame, decodeHdr, hc, RfcM.decode1, judge]
  | [x] => simp [nextFrame, decodeHdr, hc, RfcM.decode1, judge]
  | x0 :: x1 :: rest =>
    rw [← hc]
    by_cases h126 : x1.toNat % 128 = 126
    · by_cases hr : rest.length ≥ 2
      · have hdec : decodeHdr s.cache = some (.ok (mkHdr x0 x1 (Int.ofNat (beDec (rest.take 2))) 4)) := by
          rw [hc]; simp [decodeHdr, h126, hr]
        have hd1 : RfcM.decode1 s.cache = RfcM.mkD1 s.cache x0 x1 (beDec (rest.take 2)) 4 false := by
          have : ¬ rest.length < 2 := by omega
          rw [hc]; simp [RfcM.decode1, h126, this]
        rw [hd1]; exact nextFrame_mk g s x0 x1 _ 4 hdec
      · have hdec : decodeHdr s.cache = some (.ok (mkHdr x0 x1 (-1) 2)) := by
          rw [hc]; simp [decodeHdr, h126, hr]
        have hd1 : RfcM.decode1 s.cache = .need := by
          have : rest.length < 2 := by omega
          rw [hc]; simp [RfcM.decode1, h126, this]
        rw [hd1, nextFrame_negHdr g s hw x0 x1 hdec]; rfl
    · by_cases h127 : x1.toNat % 128 = 127
      · by_cases hr : rest.length ≥ 8
        · by_cases htop : beDec (rest.take 8) ≥ 2 ^ 63
          · have hdec : decodeHdr s.cache = some (.error .invalidFragment) := by
              rw [hc]; simp [decodeHdr, h127, hr, htop]
            have hd1 : RfcM.decode1 s.cache = RfcM.mkD1 s.cache x0 x1 (beDec (rest.take 8)) 10 true := by
              have : ¬ rest.length < 8 := by omega
              rw [hc]; simp [RfcM.decode1, h127, this, htop]
            rw [hd1]
            unfold nextFrame
            rw [hdec]
            simp [RfcM.mkD1, judge]
          · have hdec : decodeHdr s.cache = some (.ok (mkHdr x0 x1 (Int.ofNat (beDec (rest.take 8))) 10)) := by
              rw [hc]; simp [decodeHdr, h127, hr, htop]
            have hd1 : RfcM.decode1 s.cache = RfcM.mkD1 s.cache x0 x1 (beDec (rest.take 8)) 10 false := by
              have : ¬ rest.length < 8 := by omega
              rw [hc]; simp [RfcM.decode1, h127, this, htop]
            rw [hd1]; exact nextFrame_mk g s x0 x1 _ 10 hdec
        · have hdec : decodeHdr s.cache = some (.ok (mkHdr x0 x1 (-1) 2)) := by
            rw [hc]; simp [decodeHdr, h127, hr]
          have hd1 : RfcM.decode1 s.cache = .need := by
            have : rest.length < 8 := by omega
            rw [hc]; simp [RfcM.decode1, h127, this]
          rw [hd1, nextFrame_negHdr g s hw x0 x1 hdec]; rfl
      · have hdec : decodeHdr s.cache = some (.ok (mkHdr x0 x1 (Int.ofNat (x1.toNat % 128)) 2)) := by
          rw [hc]; simp [decodeHdr, h126, h127]
        have hd1 : RfcM.decode1 s.cache = RfcM.mkD1 s.cache x0 x1 (x1.toNat % 128) 2 false := by
          rw [hc]; simp [RfcM.decode1, h126, h127]
        rw [hd1]; exact nextFrame_mk g s x0 x1 _ 2 hdec

end Ws
