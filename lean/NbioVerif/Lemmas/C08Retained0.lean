import NbioVerif.Lemmas.C06Chain
/-! C08, what bounds the retained bytes when ReadLimit = 0 (and with any ReadLimit): the parser keeps nothing but the
    most recent bytes it was given, and inside a body fewer than the size it is waiting for. What stays unbounded —
    an unfinished token or line outside a body — is shown by example in `Properties/C08.lean`. -/
namespace Scan
variable {σ ε : Type}

/-- what the loop hands back as the new cache is a tail of its buffer -/
theorem loop_cache_drop (M : Machine σ ε) (buf : List UInt8) :
    ∀ (fuel i start : Nat) (st : σ) (acc : List ε) acc' st' cache',
      loop M buf fuel i start st acc = ⟨acc', .inl (st', cache')⟩ → ∃ k, cache' = buf.drop k := by
  intro fuel
  induction fuel with
  | zero => intro i start st acc acc' st' cache' h; simp [loop] at h
  | succ fuel ih =>
    intro i start st acc acc' st' cache' h
    unfold loop at h
    by_cases hi : i < buf.length
    · simp only [hi, dite_true] at h
      cases hblk : M.block st with
      | some n =>
        simp only [hblk] at h
        by_cases hl : buf.length - start ≥ n
        · simp only [hl, if_true] at h
          cases hbd : M.blockDone st ((buf.drop start).take n) with
          | err e evs => simp [hbd] at h
          | ok s' u evs => simp only [hbd] at h; exact ih _ _ _ _ _ _ _ h
        · simp only [hl, if_false, Res.mk.injEq, Sum.inl.injEq, Prod.mk.injEq] at h
          exact ⟨start, h.2.2.symm⟩
      | none =>
        simp only [hblk] at h
        cases hbs : M.byteStep st ((buf.drop start).take (i - start)) buf[i] with
        | err e evs => simp [hbs] at h
        | ok s' u evs => simp only [hbs] at h; exact ih _ _ _ _ _ _ _ h
    · simp only [hi, dite_false, Res.mk.injEq, Sum.inl.injEq, Prod.mk.injEq] at h
      exact ⟨start, h.2.2.symm⟩

/-- one `Parse` call: the new cache is a suffix of old cache ++ data -/
theorem parseL_cache_suffix (M : Machine σ ε) (limit : Nat) (st : σ) (cache data : List UInt8) (acc : List ε)
    acc' st' cache' (h : parseL M limit st cache data acc = ⟨acc', .inl (st', cache')⟩) :
    ∃ pre, pre ++ cache' = cache ++ data := by
  unfold parseL at h
  split at h
  · simp at h
  · unfold implParse at h
    split at h
    · rename_i hd
      simp only [Res.mk.injEq, Sum.inl.injEq, Prod.mk.injEq] at h
      obtain ⟨_, _, e⟩ := h
      subst e hd
      exact ⟨[], by simp⟩
    · obtain ⟨k, e⟩ := loop_cache_drop M _ _ _ _ _ _ _ _ _ h
      exact ⟨(cache ++ data).take k, by rw [e, List.take_append_drop]⟩

/-- **Every chain, every ReadLimit (0 included):** what the parser retains is a suffix of what it has received — the
    most recent bytes, nothing else, never more than was read -/
theorem feedAllL_cache_suffix (M : Machine σ ε) (limit : Nat) :
    ∀ (segs : List (List UInt8)) (st : σ) (cache : List UInt8) (acc : List ε) acc' st' cache',
      feedAllL M limit st cache segs acc = ⟨acc', .inl (st', cache')⟩ →
      ∃ pre, pre ++ cache' = cache ++ segs.flatten := by
  intro segs
  induction segs with
  | nil =>
    intro st cache acc acc' st' cache' h
    simp only [feedAllL, Res.mk.injEq, Sum.inl.injEq, Prod.mk.injEq] at h
    obtain ⟨_, _, e⟩ := h; subst e
    exact ⟨[], by simp⟩
  | cons seg segs ih =>
    intro st cache acc acc' st' cache' h
    simp only [feedAllL, parseLC_eq] at h
    cases hr : parseL M limit st cache seg acc with
    | mk a fin =>
      rw [hr] at h
      cases fin with
      | inr e => simp at h
      | inl pr =>
        obtain ⟨st1, cache1⟩ := pr
        obtain ⟨p1, e1⟩ := parseL_cache_suffix M limit st cache seg acc a st1 cache1 hr
        obtain ⟨p2, e2⟩ := ih st1 cache1 a acc' st' cache' h
        refine ⟨p1 ++ p2, ?_⟩
        rw [List.flatten_cons, ← List.append_assoc cache, ← e1, List.append_assoc, e2, List.append_assoc]

/-- **Every chain, every ReadLimit:** the scanner invariant is kept — in particular, while a block (a Content-Length
    body, a chunk) is awaited, fewer bytes are retained than the block needs -/
theorem feedAllL_good (M : Machine σ ε) (wf : WF M) (limit : Nat) :
    ∀ (segs : List (List UInt8)) (st : σ) (cache : List UInt8) (acc : List ε), Good M st cache →
      ∀ acc' st' cache', feedAllL M limit st cache segs acc = ⟨acc', .inl (st', cache')⟩ → Good M st' cache' := by
  intro segs
  induction segs with
  | nil =>
    intro st cache acc hg acc' st' cache' h
    simp only [feedAllL, Res.mk.injEq, Sum.inl.injEq, Prod.mk.injEq] at h
    obtain ⟨_, e1, e2⟩ := h; subst e1 e2; exact hg
  | cons seg segs ih =>
    intro st cache acc hg acc' st' cache' h
    simp only [feedAllL, parseLC_eq] at h
    cases hr : parseL M limit st cache seg acc with
    | mk a fin =>
      rw [hr] at h
      cases fin with
      | inr e => simp at h
      | inl pr =>
        obtain ⟨st1, cache1⟩ := pr
        have hg1 : Good M st1 cache1 := by
          unfold parseL at hr
          split at hr
          · simp at hr
          · exact implParse_good M wf st cache seg acc hg a st1 cache1 hr
        exact ih st1 cache1 a hg1 acc' st' cache' h

end Scan
